import HG.Lemmas.DagMain
/-! # HG.Lemmas.DagSat — decidable criteria for (un)satisfiability; the diamond used for non-vacuity -/
namespace HG.C01
variable {g : GraphD} {values : AL Val} {level : Name → Nat}

/-- every input of every node is available statically or written by some node -/
def AllInputsCovered (g : GraphD) (values : AL Val) : Prop :=
  ∀ n ∈ g.nodes, ∀ p ∈ n.inputs, static g values n p = true ∨ ∃ m ∈ g.nodes, p ∈ m.outputs

instance (g : GraphD) (values : AL Val) : Decidable (AllInputsCovered g values) := by
  unfold AllInputsCovered; exact inferInstance

/-- in a levelled graph whose inputs are all covered, every node is satisfiable -/
theorem satisfiable_of_covered (hlv : Levelled g level) (hc : AllInputsCovered g values) :
    ∀ n ∈ g.nodes, Satisfiable g values n := by
  have : ∀ d (n : NodeD), n ∈ g.nodes → level n.name = d → Satisfiable g values n := by
    intro d
    induction d using Nat.strongRecOn with
    | _ d ih =>
      intro n hn hl
      refine Satisfiable.mk n hn ?_ ?_
      · intro p hp
        rcases hc n hn p hp with h | ⟨m, hm, ho⟩
        · exact Or.inl h
        · exact Or.inr ⟨m, hm, ho⟩
      · intro p hp m hm _
        have := hlv.lt n hn p hp m hm.1 hm.2
        exact ih (level m.name) (by omega) m hm.1 rfl
  intro n hn
  exact this _ n hn rfl

/-- a node with an input that nobody provides is not satisfiable -/
theorem not_satisfiable_of_missing {n : NodeD} {p : Name} (hp : p ∈ n.inputs)
    (hst : static g values n p = false) (hnone : ∀ m ∈ g.nodes, p ∉ m.outputs) :
    ¬ Satisfiable g values n := by
  intro h
  cases h with
  | mk _ _ hsrc _ =>
    rcases hsrc p hp with h | ⟨m, hm, ho⟩
    · rw [hst] at h; cases h
    · exact hnone m hm ho

/-- a node fed only by an unsatisfiable producer is not satisfiable -/
theorem not_satisfiable_of_producer {n m : NodeD} {p : Name} (hp : p ∈ n.inputs) (hm : Producer g p m)
    (hst : static g values n p = false) (hns : ¬ Satisfiable g values m) :
    ¬ Satisfiable g values n := by
  intro h
  cases h with
  | mk _ _ _ hprod => exact hns (hprod p hp m hm hst)

/-- the fixed-point specification determines every output value: two states satisfying `evalSpec`
agree on all names written by nodes of a levelled graph -/
theorem evalSpec_unique_aux {sem : Sem} (hlv : Levelled g level) {s₁ s₂ : GState}
    (h₁ : evalSpec sem g values s₁) (h₂ : evalSpec sem g values s₂) :
    ∀ d (nd : NodeD), nd ∈ g.nodes → level nd.name = d →
      ∀ o ∈ nd.outputs, AL.get? s₁.values o = AL.get? s₂.values o := by
  intro d
  induction d using Nat.strongRecOn with
  | _ d ih =>
    intro nd hn hl o ho
    by_cases hsat : Satisfiable g values nd
    · obtain ⟨a₁, v₁, o₁, hc₁, hv₁, hw₁, hval₁⟩ := h₁.2.1 nd hn hsat
      obtain ⟨a₂, v₂, o₂, hc₂, hv₂, hw₂, hval₂⟩ := h₂.2.1 nd hn hsat
      have hin : ∀ p ∈ nd.inputs, AL.get? s₁.values p = AL.get? s₂.values p := by
        intro p hp
        by_cases hf : ∃ m ∈ g.nodes, p ∈ m.outputs
        · obtain ⟨m, hm, hpo⟩ := hf
          have := hlv.lt nd hn p hp m hm hpo
          exact ih (level m.name) (by omega) m hm rfl p hpo
        · have hnf : ∀ m ∈ g.nodes, p ∉ m.outputs := fun m hm e => hf ⟨m, hm, e⟩
          rw [h₁.1 p hnf, h₂.1 p hnf]
      have hcc := collectInputs_congr g s₂ s₁ nd nd.inputs hin
      rw [hc₁, hc₂] at hcc
      injection hcc with hcc
      subst hcc
      rw [hv₁] at hv₂
      injection hv₂ with hv₂
      subst hv₂
      rw [hw₁] at hw₂
      injection hw₂ with hw₂
      subst hw₂
      rw [hval₁ o ho, hval₂ o ho]
    · rw [(h₁.2.2 nd hn hsat).2 o ho, (h₂.2.2 nd hn hsat).2 o ho]

/-- the model's elaborator produces leaf nodes with consistent default bookkeeping -/
theorem elabLeaf_wellDefaulted (sp : NodeSpec) :
    (elabLeaf sp).hasDefault = AL.keys (elabLeaf sp).sigDefaults := by
  simp only [elabLeaf, AL.keys]
  induction sp.params with
  | nil => rfl
  | cons p ps ih =>
    obtain ⟨n, d⟩ := p
    cases d with
    | none => simpa [List.filterMap_cons] using ih
    | some v => simpa [List.filterMap_cons] using ih

/-! ## a diamond: `src` (two outputs) feeds `left` (defaulted `k`) and `right` (bound `c`), joined by
`join`; `audit` has no data output, only an emit. Run-time value: `x`. -/

def exSrc : NodeSpec :=
  { name := "src", kind := .fn, params := [("x", .none)], dataOuts := ["a", "b"], body := .multi "src" 2 }
def exLeft : NodeSpec :=
  { name := "left", kind := .fn, params := [("a", .none), ("k", some (.int 5))], dataOuts := ["l"], body := .tag "left" }
def exRight : NodeSpec :=
  { name := "right", kind := .fn, params := [("b", .none), ("c", .none)], dataOuts := ["r"], body := .tag "right" }
def exJoin : NodeSpec :=
  { name := "join", kind := .fn, params := [("l", .none), ("r", .none)], dataOuts := ["out"], body := .tag "join" }
def exAudit : NodeSpec :=
  { name := "audit", kind := .fn, params := [("l", .none)], dataOuts := [], emits := ["audited"], body := .tag "audit" }

def exSpec : GraphSpec :=
  { name := "diamond", nodes := [exSrc, exLeft, exRight, exJoin, exAudit], bound := [("c", .int 7)] }

/-- the elaborated diamond (edges and input specification inferred by the model's elaborator) -/
def exG : GraphD := elabGraph [] exSpec
def exValues : AL Val := [("x", .int 1)]
def exLevel : Name → Nat := fun n => if n = "src" then 0 else if n = "left" ∨ n = "right" then 1 else 2

end HG.C01
