import HG.Model.Sem
/-! # Lemmas for the semaphore transition system (`HG.Model.Sem`) — helpers for `HG.Props.C15` -/
namespace HG.Sem

/-! ## shape ↔ tree -/

mutual
theorem toT_mark : ∀ sh : Shape, sh.toT.mark .pending = sh.toT
  | .leaf => rfl
  | .par cs => by rw [Shape.toT]; exact parL_mark cs
  | .seq cs => by rw [Shape.toT]; exact seqL_mark cs
theorem parL_mark : ∀ cs : List Shape, (parL cs).mark .pending = parL cs
  | [] => rfl
  | c :: cs => by rw [parL, T.mark, toT_mark c, parL_mark cs]
theorem seqL_mark : ∀ cs : List Shape, (seqL cs).mark .pending = seqL cs
  | [] => rfl
  | c :: cs => by rw [seqL, T.mark, toT_mark c, seqL_mark cs]
end

mutual
theorem leaves_toT : ∀ sh : Shape, sh.toT.leaves = sh.leaves
  | .leaf => rfl
  | .par cs => by rw [Shape.toT, Shape.leaves]; exact leaves_parL cs
  | .seq cs => by rw [Shape.toT, Shape.leaves]; exact leaves_seqL cs
theorem leaves_parL : ∀ cs : List Shape, (parL cs).leaves = leavesL cs
  | [] => rfl
  | c :: cs => by rw [parL, T.leaves, leavesL, leaves_toT c, leaves_parL cs]
theorem leaves_seqL : ∀ cs : List Shape, (seqL cs).leaves = leavesL cs
  | [] => rfl
  | c :: cs => by rw [seqL, T.leaves, leavesL, leaves_toT c, leaves_seqL cs]
end

namespace T

theorem leaves_mark (x : St) (t : T) : (t.mark x).leaves = t.leaves := by
  induction t with
  | skip => rfl
  | leaf s => rfl
  | par a b iha ihb => simp [mark, leaves, iha, ihb]
  | seq a b iha ihb => simp [mark, leaves, iha, ihb]

theorem count_mark_same (x : St) (t : T) : (t.mark x).count x = t.leaves := by
  induction t with
  | skip => rfl
  | leaf s => simp [mark, count, leaves]
  | par a b iha ihb => simp [mark, count, leaves, iha, ihb]
  | seq a b iha ihb => simp [mark, count, leaves, iha, ihb]

theorem count_mark_ne {x y : St} (h : y ≠ x) (t : T) : (t.mark y).count x = 0 := by
  induction t with
  | skip => rfl
  | leaf s => simp [mark, count, h]
  | par a b iha ihb => simp [mark, count, iha, ihb]
  | seq a b iha ihb => simp [mark, count, iha, ihb]

theorem mark_mark (x y : St) (t : T) : (t.mark x).mark y = t.mark y := by
  induction t with
  | skip => rfl
  | leaf s => rfl
  | par a b iha ihb => simp [mark, iha, ihb]
  | seq a b iha ihb => simp [mark, iha, ihb]

/-- the three statuses partition the leaves -/
theorem count_sum (t : T) : t.count .pending + t.count .holding + t.count .done = t.leaves := by
  induction t with
  | skip => rfl
  | leaf s => cases s <;> simp [count, leaves]
  | par a b iha ihb => simp only [count, leaves]; omega
  | seq a b iha ihb => simp only [count, leaves]; omega

theorem allDone_iff (t : T) : t.allDone = true ↔ t.count .pending = 0 ∧ t.count .holding = 0 := by
  induction t with
  | skip => simp [allDone, count]
  | leaf s => cases s <;> simp [allDone, count]
  | par a b iha ihb => simp only [allDone, count, Bool.and_eq_true, iha, ihb]; omega
  | seq a b iha ihb => simp only [allDone, count, Bool.and_eq_true, iha, ihb]; omega

theorem allDone_mark {t : T} (h : t.allDone = true) : t.mark .done = t := by
  induction t with
  | skip => rfl
  | leaf s => cases s <;> simp_all [allDone, mark]
  | par a b iha ihb =>
    simp only [allDone, Bool.and_eq_true] at h
    simp [mark, iha h.1, ihb h.2]
  | seq a b iha ihb =>
    simp only [allDone, Bool.and_eq_true] at h
    simp [mark, iha h.1, ihb h.2]

theorem allDone_mark_done (t : T) : (t.mark .done).allDone = true := by
  induction t with
  | skip => rfl
  | leaf s => rfl
  | par a b iha ihb => simp [mark, allDone, iha, ihb]
  | seq a b iha ihb => simp [mark, allDone, iha, ihb]

/-- induction principle for a successful `move`: one leaf goes `a → b`, somewhere in the tree -/
theorem move_ind {a b : St} {g : Bool} (P : T → T → Prop)
    (hleaf : P (leaf a) (leaf b))
    (hparL : ∀ l l' r, P l l' → P (par l r) (par l' r))
    (hparR : ∀ l r r', P r r' → P (par l r) (par l r'))
    (hseqL : ∀ l l' r, P l l' → P (seq l r) (seq l' r))
    (hseqR : ∀ l r r', P r r' → P (seq l r) (seq l r')) :
    ∀ {t : T} {i : Nat} {t' : T}, t.move a b g i = some t' → P t t' := by
  intro t
  induction t with
  | skip => intro i t' h; simp [move] at h
  | leaf s =>
    intro i t' h
    simp only [move] at h
    split at h
    · rename_i hc
      obtain ⟨_, rfl⟩ := hc
      injection h with h; subst h; exact hleaf
    · cases h
  | par l r ihl ihr =>
    intro i t' h
    simp only [move] at h
    split at h
    · obtain ⟨l', hl, rfl⟩ := Option.map_eq_some_iff.1 h
      exact hparL _ _ _ (ihl hl)
    · obtain ⟨r', hr, rfl⟩ := Option.map_eq_some_iff.1 h
      exact hparR _ _ _ (ihr hr)
  | seq l r ihl ihr =>
    intro i t' h
    simp only [move] at h
    split at h
    · obtain ⟨l', hl, rfl⟩ := Option.map_eq_some_iff.1 h
      exact hseqL _ _ _ (ihl hl)
    · split at h
      · obtain ⟨r', hr, rfl⟩ := Option.map_eq_some_iff.1 h
        exact hseqR _ _ _ (ihr hr)
      · cases h

theorem move_leaves {a b : St} {g : Bool} {t t' : T} {i : Nat} (h : t.move a b g i = some t') :
    t'.leaves = t.leaves :=
  move_ind (a := a) (b := b) (g := g) (fun t t' => t'.leaves = t.leaves) rfl
    (fun l l' r ih => by simp [leaves, ih]) (fun l r r' ih => by simp [leaves, ih])
    (fun l l' r ih => by simp [leaves, ih]) (fun l r r' ih => by simp [leaves, ih]) h

theorem move_mark {a b : St} {g : Bool} (x : St) {t t' : T} {i : Nat}
    (h : t.move a b g i = some t') : t'.mark x = t.mark x :=
  move_ind (a := a) (b := b) (g := g) (fun t t' => t'.mark x = t.mark x) rfl
    (fun l l' r ih => by simp [mark, ih]) (fun l r r' ih => by simp [mark, ih])
    (fun l l' r ih => by simp [mark, ih]) (fun l r r' ih => by simp [mark, ih]) h

/-- a move `a → b` (`a ≠ b`) takes one leaf out of `a`, puts one into `b`, leaves the rest alone -/
theorem move_count {a b : St} {g : Bool} (hab : a ≠ b) {t t' : T} {i : Nat}
    (h : t.move a b g i = some t') :
    t'.count a + 1 = t.count a ∧ t'.count b = t.count b + 1 ∧
      ∀ c, c ≠ a → c ≠ b → t'.count c = t.count c :=
  move_ind (a := a) (b := b) (g := g)
    (fun t t' => t'.count a + 1 = t.count a ∧ t'.count b = t.count b + 1 ∧
      ∀ c, c ≠ a → c ≠ b → t'.count c = t.count c)
    (by
      refine ⟨by simp [count, hab.symm], by simp [count, hab], ?_⟩
      intro c hca hcb
      simp [count, Ne.symm hca, Ne.symm hcb])
    (fun l l' r ih => ⟨by simp only [count]; omega, by simp only [count]; omega,
      fun c h1 h2 => by simp only [count]; rw [ih.2.2 c h1 h2]⟩)
    (fun l r r' ih => ⟨by simp only [count]; omega, by simp only [count]; omega,
      fun c h1 h2 => by simp only [count]; rw [ih.2.2 c h1 h2]⟩)
    (fun l l' r ih => ⟨by simp only [count]; omega, by simp only [count]; omega,
      fun c h1 h2 => by simp only [count]; rw [ih.2.2 c h1 h2]⟩)
    (fun l r r' ih => ⟨by simp only [count]; omega, by simp only [count]; omega,
      fun c h1 h2 => by simp only [count]; rw [ih.2.2 c h1 h2]⟩) h

/-- a successful move addresses an existing leaf -/
theorem move_lt {a b : St} {g : Bool} : ∀ {t : T} {i : Nat} {t' : T},
    t.move a b g i = some t' → i < t.leaves := by
  intro t
  induction t with
  | skip => intro i t' h; simp [move] at h
  | leaf s =>
    intro i t' h
    simp only [move] at h
    split at h
    · rename_i hc; simp [leaves, hc.1]
    · cases h
  | par l r ihl ihr =>
    intro i t' h
    simp only [move] at h
    split at h
    · simp only [leaves]; omega
    · obtain ⟨r', hr, _⟩ := Option.map_eq_some_iff.1 h
      have := ihr hr
      simp only [leaves]; omega
  | seq l r ihl ihr =>
    intro i t' h
    simp only [move] at h
    split at h
    · simp only [leaves]; omega
    · split at h
      · obtain ⟨r', hr, _⟩ := Option.map_eq_some_iff.1 h
        have := ihr hr
        simp only [leaves]; omega
      · cases h

/-- ungated moves (release): any leaf in status `a` can move -/
theorem exists_move_ungated (a b : St) : ∀ (t : T), 0 < t.count a →
    ∃ i t', t.move a b false i = some t' := by
  intro t
  induction t with
  | skip => intro h; simp [count] at h
  | leaf s =>
    intro h
    have hs : s = a := by
      simp only [count] at h
      split at h
      · assumption
      · omega
    exact ⟨0, leaf b, by simp [move, hs]⟩
  | par l r ihl ihr =>
    intro h
    simp only [count] at h
    by_cases hl : 0 < l.count a
    · obtain ⟨i, l', hm⟩ := ihl hl
      exact ⟨i, par l' r, by simp [move, move_lt hm, hm]⟩
    · obtain ⟨i, r', hm⟩ := ihr (by omega)
      refine ⟨l.leaves + i, par l r', ?_⟩
      have hnlt : ¬ (l.leaves + i < l.leaves) := by omega
      simp [move, hm, hnlt]
  | seq l r ihl ihr =>
    intro h
    simp only [count] at h
    by_cases hl : 0 < l.count a
    · obtain ⟨i, l', hm⟩ := ihl hl
      exact ⟨i, seq l' r, by simp [move, move_lt hm, hm]⟩
    · obtain ⟨i, r', hm⟩ := ihr (by omega)
      refine ⟨l.leaves + i, seq l r', ?_⟩
      have hnlt : ¬ (l.leaves + i < l.leaves) := by omega
      simp [move, hm, hnlt]

/-- KEY LEMMA (structural induction on the tree): when nobody holds a permit and some leaf is
still pending, some pending leaf is startable.  In `seq l r` either `l` still has a pending leaf
(recurse), or `l` has neither pending nor holding leaves, i.e. is done, which opens `r`. -/
theorem exists_startable : ∀ (t : T), t.count .holding = 0 → 0 < t.count .pending →
    ∃ i t', t.acq i = some t' := by
  intro t
  unfold acq
  induction t with
  | skip => intro _ h; simp [count] at h
  | leaf s =>
    intro _ h
    have hs : s = .pending := by
      simp only [count] at h
      split at h
      · assumption
      · omega
    exact ⟨0, leaf .holding, by simp [move, hs]⟩
  | par l r ihl ihr =>
    intro hh hp
    simp only [count] at hh hp
    by_cases hl : 0 < l.count .pending
    · obtain ⟨i, l', hm⟩ := ihl (by omega) hl
      exact ⟨i, par l' r, by simp [move, move_lt hm, hm]⟩
    · obtain ⟨i, r', hm⟩ := ihr (by omega) (by omega)
      refine ⟨l.leaves + i, par l r', ?_⟩
      have hnlt : ¬ (l.leaves + i < l.leaves) := by omega
      simp [move, hm, hnlt]
  | seq l r ihl ihr =>
    intro hh hp
    simp only [count] at hh hp
    by_cases hl : 0 < l.count .pending
    · obtain ⟨i, l', hm⟩ := ihl (by omega) hl
      exact ⟨i, seq l' r, by simp [move, move_lt hm, hm]⟩
    · have hld : l.allDone = true := (allDone_iff l).2 ⟨by omega, by omega⟩
      obtain ⟨i, r', hm⟩ := ihr (by omega) (by omega)
      refine ⟨l.leaves + i, seq l r', ?_⟩
      have hnlt : ¬ (l.leaves + i < l.leaves) := by omega
      simp [move, hm, hld, hnlt]

end T

/-! ## steps -/

theorem step_acquire {s s' : State} {l : Nat} (h : step s (.acquire l) = some s') :
    0 < s.free ∧ ∃ t, s.tree.acq l = some t ∧ s' = ⟨t, s.free - 1⟩ := by
  simp only [step] at h
  split at h
  · cases h
  · obtain ⟨t, ht, rfl⟩ := Option.map_eq_some_iff.1 h
    exact ⟨by omega, t, ht, rfl⟩

theorem step_finish {s s' : State} {l : Nat} (h : step s (.finish l) = some s') :
    ∃ t, s.tree.fin l = some t ∧ s' = ⟨t, s.free + 1⟩ := by
  simp only [step] at h
  obtain ⟨t, ht, rfl⟩ := Option.map_eq_some_iff.1 h
  exact ⟨t, ht, rfl⟩

/-- what one transition does to the counters -/
theorem step_counts {s s' : State} {tr : Tr} (h : step s tr = some s') :
    (∃ l, tr = .acquire l ∧ 0 < s.free ∧ s'.free + 1 = s.free ∧
        s'.pending + 1 = s.pending ∧ s'.holding = s.holding + 1 ∧ s'.doneLeaves = s.doneLeaves) ∨
    (∃ l, tr = .finish l ∧ s'.free = s.free + 1 ∧
        s'.pending = s.pending ∧ s'.holding + 1 = s.holding ∧ s'.doneLeaves = s.doneLeaves + 1) := by
  cases tr with
  | acquire l =>
    obtain ⟨hf, t, ht, rfl⟩ := step_acquire h
    have hc := T.move_count (a := .pending) (b := .holding) (by decide) ht
    refine .inl ⟨l, rfl, hf, ?_, hc.1, hc.2.1, hc.2.2 .done (by decide) (by decide)⟩
    show s.free - 1 + 1 = s.free
    omega
  | finish l =>
    obtain ⟨t, ht, rfl⟩ := step_finish h
    have hc := T.move_count (a := .holding) (b := .done) (by decide) ht
    exact .inr ⟨l, rfl, rfl, hc.2.2 .pending (by decide) (by decide), hc.1, hc.2.1⟩

theorem step_mark {s s' : State} {tr : Tr} (x : St) (h : step s tr = some s') :
    s'.tree.mark x = s.tree.mark x := by
  cases tr with
  | acquire l => obtain ⟨_, t, ht, rfl⟩ := step_acquire h; exact T.move_mark x ht
  | finish l => obtain ⟨t, ht, rfl⟩ := step_finish h; exact T.move_mark x ht

theorem step_leaves {s s' : State} {tr : Tr} (h : step s tr = some s') :
    s'.tree.leaves = s.tree.leaves := by
  cases tr with
  | acquire l => obtain ⟨_, t, ht, rfl⟩ := step_acquire h; exact T.move_leaves ht
  | finish l => obtain ⟨t, ht, rfl⟩ := step_finish h; exact T.move_leaves ht

/-- every transition lowers the measure by exactly one -/
theorem step_measure {s s' : State} {tr : Tr} (h : step s tr = some s') :
    s'.measure + 1 = s.measure := by
  rcases step_counts h with ⟨l, _, _, _, hp, hh, _⟩ | ⟨l, _, _, hp, hh, _⟩ <;>
    simp only [State.measure] <;> omega

theorem step_mem_enabledList {s s' : State} {tr : Tr} (h : step s tr = some s') :
    tr ∈ enabledList s := by
  have hen : enabled s tr = true := by simp [enabled, h]
  refine List.mem_filter.2 ⟨List.mem_flatMap.2 ?_, hen⟩
  cases tr with
  | acquire l =>
    obtain ⟨_, t, ht, _⟩ := step_acquire h
    exact ⟨l, List.mem_range.2 (T.move_lt ht), by simp⟩
  | finish l =>
    obtain ⟨t, ht, _⟩ := step_finish h
    exact ⟨l, List.mem_range.2 (T.move_lt ht), by simp⟩

theorem enabledList_nil_iff (s : State) : enabledList s = [] ↔ ∀ tr, step s tr = none := by
  constructor
  · intro h tr
    cases hs : step s tr with
    | none => rfl
    | some s' => have := step_mem_enabledList hs; rw [h] at this; cases this
  · intro h
    apply List.eq_nil_iff_forall_not_mem.2
    intro tr hm
    have := (List.mem_filter.1 hm).2
    simp [enabled, h tr] at this

/-! ## reachable states -/

theorem init_counts (k : Nat) (sh : Shape) :
    (init k sh).pending = sh.leaves ∧ (init k sh).holding = 0 ∧ (init k sh).doneLeaves = 0 ∧
      (init k sh).free = k := by
  refine ⟨?_, ?_, ?_, rfl⟩
  · show sh.toT.count .pending = _
    rw [← toT_mark, T.count_mark_same, leaves_toT]
  · show sh.toT.count .holding = _
    rw [← toT_mark, T.count_mark_ne (by decide)]
  · show sh.toT.count .done = _
    rw [← toT_mark, T.count_mark_ne (by decide)]

/-- the invariant of the transition system -/
theorem reachable_inv {k : Nat} {sh : Shape} {s : State} (h : Reachable k sh s) :
    s.holding + s.free = k ∧ s.tree.mark .done = sh.toT.mark .done ∧ s.tree.leaves = sh.leaves := by
  induction h with
  | init =>
    obtain ⟨_, hh, _, hf⟩ := init_counts k sh
    exact ⟨by omega, rfl, leaves_toT sh⟩
  | step _ hs ih =>
    refine ⟨?_, (step_mark .done hs).trans ih.2.1, (step_leaves hs).trans ih.2.2⟩
    rcases step_counts hs with ⟨l, _, _, hf, _, hh, _⟩ | ⟨l, _, hf, _, hh, _⟩ <;> omega

theorem reachable_run {k : Nat} {sh : Shape} : ∀ {trs : List Tr} {s s' : State},
    Reachable k sh s → run s trs = some s' → Reachable k sh s' := by
  intro trs
  induction trs with
  | nil => intro s s' hr h; simp only [run] at h; injection h with h; subst h; exact hr
  | cons tr trs ih =>
    intro s s' hr h
    simp only [run] at h
    split at h
    · cases h
    · rename_i s1 hs; exact ih (.step hr hs) h

theorem run_measure : ∀ {trs : List Tr} {s s' : State},
    run s trs = some s' → s'.measure + trs.length = s.measure := by
  intro trs
  induction trs with
  | nil => intro s s' h; simp only [run] at h; injection h with h; subst h; rfl
  | cons tr trs ih =>
    intro s s' h
    simp only [run] at h
    split at h
    · cases h
    · rename_i s1 hs
      have := ih h
      have := step_measure hs
      simp only [List.length_cons]; omega

theorem run_append : ∀ {trs₁ trs₂ : List Tr} {s s₁ s₂ : State},
    run s trs₁ = some s₁ → run s₁ trs₂ = some s₂ → run s (trs₁ ++ trs₂) = some s₂ := by
  intro trs₁
  induction trs₁ with
  | nil => intro trs₂ s s₁ s₂ h1 h2; simp only [run] at h1; injection h1 with h1; subst h1; exact h2
  | cons tr trs ih =>
    intro trs₂ s s₁ s₂ h1 h2
    simp only [run] at h1
    split at h1
    · cases h1
    · rename_i s' hs
      simp only [List.cons_append, run, hs]
      exact ih h1 h2

theorem final_iff_measure (s : State) : s.final = true ↔ s.measure = 0 := by
  simp only [State.final, T.allDone_iff, State.measure, State.pending, State.holding]; omega

/-- progress: a non-final state with `holding + free ≥ 1` has an enabled transition -/
theorem progress {s : State} (hk : 1 ≤ s.holding + s.free) (hnf : s.final = false) :
    ∃ tr s', step s tr = some s' := by
  by_cases hh : 0 < s.holding
  · obtain ⟨i, t', hm⟩ := T.exists_move_ungated .holding .done s.tree hh
    exact ⟨.finish i, ⟨t', s.free + 1⟩, by simp [step, T.fin, hm]⟩
  · have hh0 : s.tree.count .holding = 0 := by simp only [State.holding] at hh; omega
    have hp : 0 < s.tree.count .pending := by
      apply Nat.pos_of_ne_zero
      intro hp0
      have := (T.allDone_iff s.tree).2 ⟨hp0, hh0⟩
      simp [State.final, this] at hnf
    obtain ⟨i, t', hm⟩ := T.exists_startable s.tree hh0 hp
    have hf : s.free ≠ 0 := by simp only [State.holding] at hk; omega
    exact ⟨.acquire i, ⟨t', s.free - 1⟩, by simp [step, hf, hm]⟩

/-- from every reachable state some schedule completes the run -/
theorem exists_completion {k : Nat} (hk : 1 ≤ k) {sh : Shape} : ∀ (n : Nat) {s : State},
    s.measure = n → Reachable k sh s → ∃ trs s', run s trs = some s' ∧ s'.final = true := by
  intro n
  induction n with
  | zero => intro s hm _; exact ⟨[], s, rfl, (final_iff_measure s).2 hm⟩
  | succ n ih =>
    intro s hm hr
    have hnf : s.final = false := by
      cases hf : s.final with
      | false => rfl
      | true => have := (final_iff_measure s).1 hf; omega
    obtain ⟨tr, s1, hs⟩ := progress (by rw [(reachable_inv hr).1]; exact hk) hnf
    have hm1 := step_measure hs
    obtain ⟨trs, s', hrun, hfin⟩ := ih (s := s1) (by omega) (.step hr hs)
    exact ⟨tr :: trs, s', by simp [run, hs, hrun], hfin⟩

/-- the final state is unique -/
theorem final_unique {k : Nat} {sh : Shape} {s : State} (hr : Reachable k sh s)
    (hf : s.final = true) : s = finalState k sh := by
  obtain ⟨hinv, hmark, _⟩ := reachable_inv hr
  have htree : s.tree = sh.toT.mark .done := by rw [← hmark, T.allDone_mark hf]
  have hh : s.holding = 0 := ((T.allDone_iff s.tree).1 hf).2
  have hfree : s.free = k := by omega
  cases s with
  | mk tree free =>
    simp only [finalState, State.mk.injEq]
    exact ⟨htree, hfree⟩

/-! ## replay -/

theorem replayFrom_max {k : Nat} {sh : Shape} : ∀ (evs : List (Bool × Nat)) (s : State) (mx idx : Nat),
    Reachable k sh s → mx ≤ k → (replayFrom s mx idx evs).maxInflight ≤ k := by
  intro evs
  induction evs with
  | nil => intro s mx idx _ h; exact h
  | cons ev evs ih =>
    intro s mx idx hr h
    simp only [replayFrom]
    split
    · exact h
    · rename_i s' hs
      have hr' : Reachable k sh s' := .step hr hs
      have := (reachable_inv hr').1
      exact ih s' _ _ hr' (Nat.max_le.2 ⟨h, by omega⟩)

theorem replayFrom_ok : ∀ (evs : List (Bool × Nat)) (s : State) (mx idx : Nat),
    (replayFrom s mx idx evs).ok = (run s (evs.map evToTr)).isSome := by
  intro evs
  induction evs with
  | nil => intro s mx idx; rfl
  | cons ev evs ih =>
    intro s mx idx
    simp only [replayFrom, List.map_cons, run]
    split
    · rfl
    · exact ih _ _ _

/-! ## the hold-while-await variant: finite enabledness check -/

namespace HT
theorem acq_lt : ∀ {t : HT} {i : Nat} {t' : HT}, t.acq i = some t' → i < t.size := by
  intro t
  induction t with
  | skip => intro i t' h; simp [acq] at h
  | leaf s =>
    intro i t' h
    simp only [acq] at h
    split at h
    · rename_i hc; simp [size, hc.1]
    · cases h
  | par l r ihl ihr =>
    intro i t' h
    simp only [acq] at h
    split at h
    · simp only [size]; omega
    · obtain ⟨r', hr, _⟩ := Option.map_eq_some_iff.1 h
      have := ihr hr
      simp only [size]; omega
  | seq l r ihl ihr =>
    intro i t' h
    simp only [acq] at h
    split at h
    · simp only [size]; omega
    · split at h
      · obtain ⟨r', hr, _⟩ := Option.map_eq_some_iff.1 h
        have := ihr hr
        simp only [size]; omega
      · cases h
  | task s b ih =>
    intro i t' h
    cases i with
    | zero => simp only [size]; omega
    | succ i =>
      simp only [acq] at h
      split at h
      · obtain ⟨b', hb, _⟩ := Option.map_eq_some_iff.1 h
        have := ih hb
        simp only [size]; omega
      · cases h

theorem fin_lt : ∀ {t : HT} {i : Nat} {t' : HT}, t.fin i = some t' → i < t.size := by
  intro t
  induction t with
  | skip => intro i t' h; simp [fin] at h
  | leaf s =>
    intro i t' h
    simp only [fin] at h
    split at h
    · rename_i hc; simp [size, hc.1]
    · cases h
  | par l r ihl ihr =>
    intro i t' h
    simp only [fin] at h
    split at h
    · simp only [size]; omega
    · obtain ⟨r', hr, _⟩ := Option.map_eq_some_iff.1 h
      have := ihr hr
      simp only [size]; omega
  | seq l r ihl ihr =>
    intro i t' h
    simp only [fin] at h
    split at h
    · simp only [size]; omega
    · obtain ⟨r', hr, _⟩ := Option.map_eq_some_iff.1 h
      have := ihr hr
      simp only [size]; omega
  | task s b ih =>
    intro i t' h
    cases i with
    | zero => simp only [size]; omega
    | succ i =>
      simp only [fin] at h
      obtain ⟨b', hb, _⟩ := Option.map_eq_some_iff.1 h
      have := ih hb
      simp only [size]; omega
end HT

theorem stepHold_mem_enabledHoldList {s s' : HState} {tr : Tr} (h : stepHold s tr = some s') :
    tr ∈ enabledHoldList s := by
  refine List.mem_filter.2 ⟨List.mem_flatMap.2 ?_, by simp [h]⟩
  cases tr with
  | acquire l =>
    simp only [stepHold] at h
    split at h
    · cases h
    · obtain ⟨t, ht, _⟩ := Option.map_eq_some_iff.1 h
      exact ⟨l, List.mem_range.2 (HT.acq_lt ht), by simp⟩
  | finish l =>
    simp only [stepHold] at h
    obtain ⟨t, ht, _⟩ := Option.map_eq_some_iff.1 h
    exact ⟨l, List.mem_range.2 (HT.fin_lt ht), by simp⟩

/-- an empty (computable) list of enabled transitions means NO transition is enabled -/
theorem stepHold_none_of_enabledHoldList_nil {s : HState} (h : enabledHoldList s = []) (tr : Tr) :
    stepHold s tr = none := by
  cases hs : stepHold s tr with
  | none => rfl
  | some s' => have := stepHold_mem_enabledHoldList hs; rw [h] at this; cases this

theorem reachableHold_run {s0 : HState} : ∀ {trs : List Tr} {s s' : HState},
    ReachableHoldFrom s0 s → runHold s trs = some s' → ReachableHoldFrom s0 s' := by
  intro trs
  induction trs with
  | nil => intro s s' hr h; simp only [runHold] at h; injection h with h; subst h; exact hr
  | cons tr trs ih =>
    intro s s' hr h
    simp only [runHold] at h
    split at h
    · cases h
    · rename_i s1 hs; exact ih (.step hr hs) h

/-! ## worker pool -/

namespace Pool

theorem step_inv {p p' : Pool} {tr : PTr} (h : p.step tr = some p') :
    p'.workers.length = p.workers.length ∧
    p'.queue.length + p'.inflight + p'.finished.length =
      p.queue.length + p.inflight + p.finished.length := by
  cases tr with
  | pull w =>
    simp only [step] at h
    split at h
    · rename_i i q hw hq
      injection h with h; subst h
      obtain ⟨hlt, hget⟩ := List.getElem?_eq_some_iff.1 hw
      refine ⟨by simp, ?_⟩
      simp only [inflight, List.countP_set hlt, hget, isBusy, hq, List.length_cons]
      simp
      omega
    · cases h
  | complete w =>
    simp only [step] at h
    split at h
    · rename_i i hw
      injection h with h; subst h
      obtain ⟨hlt, hget⟩ := List.getElem?_eq_some_iff.1 hw
      have hpos : 0 < p.workers.countP isBusy :=
        List.countP_pos_iff.2 ⟨_, List.getElem_mem hlt, by rw [hget]; rfl⟩
      refine ⟨by simp, ?_⟩
      simp only [inflight, List.countP_set hlt, hget, isBusy, List.length_cons]
      simp
      omega
    · cases h
  | exit w =>
    simp only [step] at h
    split at h
    · rename_i hw hq
      injection h with h; subst h
      obtain ⟨hlt, hget⟩ := List.getElem?_eq_some_iff.1 hw
      refine ⟨by simp, ?_⟩
      simp only [inflight, List.countP_set hlt, hget, isBusy]
      simp
    · cases h

theorem reachable_inv {k n : Nat} {p : Pool} (h : Reachable k n p) :
    p.workers.length = min k n ∧ p.queue.length + p.inflight + p.finished.length = n := by
  induction h with
  | init => simp [init, inflight, isBusy, List.countP_replicate]
  | step _ hs ih =>
    obtain ⟨h1, h2⟩ := step_inv hs
    exact ⟨h1.trans ih.1, h2.trans ih.2⟩

theorem reachable_run {k n : Nat} : ∀ {trs : List PTr} {p p' : Pool},
    Reachable k n p → run p trs = some p' → Reachable k n p' := by
  intro trs
  induction trs with
  | nil => intro p p' hr h; simp only [run] at h; injection h with h; subst h; exact hr
  | cons tr trs ih =>
    intro p p' hr h
    simp only [run] at h
    split at h
    · cases h
    · rename_i p1 hs; exact ih (.step hr hs) h

end Pool

end HG.Sem
