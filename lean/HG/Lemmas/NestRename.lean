import HG.Lemmas.NestSpec
/-! # HG.Lemmas.NestRename — helpers for C05, part 7: wrappers with input / output renames

The flat counterpart of a renamed wrapper is the outer graph with the wrapper replaced by the inner nodes
*renamed* (`renameNode ρ`): every inner name `k` becomes the name `ρ k` under which the outer graph knows it
(`ρ` = the wrapper's input renaming on inner inputs, its output renaming on inner outputs). -/
namespace HG.Nest
open HG HG.C01 HG.Intr

/-- a leaf node with all its current names renamed by `ρ` (its function, hence the parameter names the
function sees, is unchanged) -/
def renameNode (ρ : Name → Name) (n : NodeD) : NodeD :=
  { n with
    inputs := n.inputs.map ρ
    origIn := n.inputs.map fun c => (ρ c, (AL.get? n.origIn c).getD c)
    dataOuts := n.dataOuts.map ρ
    emits := n.emits.map ρ
    hasDefault := (n.inputs.filter fun c => n.hasDefault.contains c).map ρ
    sigDefaults := n.inputs.filterMap fun c => (AL.get? n.sigDefaults c).map fun v => (ρ c, v) }

theorem renameNode_outputs (ρ : Name → Name) (n : NodeD) : (renameNode ρ n).outputs = n.outputs.map ρ := by
  simp [renameNode, NodeD.outputs]

/-- reading a list built by `filterMap` whose keys are an injective image of the index -/
theorem get?_filterMap_inj {α} (l : List Name) (F : Name → Option (Name × α)) (cur : Name → Name)
    (hF : ∀ p x, F p = some x → x.1 = cur p) (q : Name) (hinj : ∀ k ∈ l, cur k = cur q → k = q) :
    AL.get? (l.filterMap F) (cur q) = if q ∈ l then (F q).map (·.2) else .none := by
  induction l with
  | nil => rfl
  | cons a t ih =>
    have ih' := ih (fun k hk => hinj k (List.mem_cons_of_mem _ hk))
    cases h : F a with
    | none =>
      rw [List.filterMap_cons_none h, ih']
      by_cases e : q = a
      · subst e; simp [h]
      · simp [e]
    | some x =>
      rw [List.filterMap_cons_some h]
      obtain ⟨k, v⟩ := x
      have hk : k = cur a := hF a _ h
      subst hk
      simp only [AL.get?]
      by_cases e : cur q = cur a
      · have : a = q := hinj a List.mem_cons_self e.symm
        subst this; simp [h]
      · have hne : q ≠ a := fun h' => e (h' ▸ rfl)
        simp [e, hne, ih']

section ren
variable {ρ : Name → Name} {n : NodeD}

theorem renameNode_sigDefaults (hinj : ∀ a ∈ n.inputs, ∀ b ∈ n.inputs, ρ a = ρ b → a = b) {c : Name}
    (hc : c ∈ n.inputs) : AL.get? (renameNode ρ n).sigDefaults (ρ c) = AL.get? n.sigDefaults c := by
  show AL.get? (n.inputs.filterMap fun c => (AL.get? n.sigDefaults c).map fun v => (ρ c, v)) (ρ c) = _
  rw [get?_filterMap_inj n.inputs _ ρ (by
    intro p x hx
    simp only [Option.map_eq_some_iff] at hx
    obtain ⟨v, _, rfl⟩ := hx; rfl) c (fun k hk e => hinj k hk c hc e), if_pos hc]
  cases AL.get? n.sigDefaults c <;> rfl

theorem renameNode_origIn (hinj : ∀ a ∈ n.inputs, ∀ b ∈ n.inputs, ρ a = ρ b → a = b) {c : Name}
    (hc : c ∈ n.inputs) :
    (AL.get? (renameNode ρ n).origIn (ρ c)).getD (ρ c) = (AL.get? n.origIn c).getD c := by
  show (AL.get? (n.inputs.map fun c => (ρ c, (AL.get? n.origIn c).getD c)) (ρ c)).getD (ρ c) = _
  rw [get?_map_inj n.inputs ρ (fun c => (AL.get? n.origIn c).getD c) c (fun k hk e => hinj k hk c hc e), if_pos hc]
  rfl

theorem component_rename (v : Val) (i : Nat) : component (renameNode ρ n) v i = component n v i := by
  unfold component
  show (match n.dataOuts.map ρ with | [_] => _ | _ => _) = _
  match n.dataOuts with
  | [] => rfl
  | [_] => rfl
  | _ :: _ :: _ => rfl

/-- two `Holds` witnesses, one for the renamed node in `g₁ / s₁`, one for the node in `g₂ / s₂`, whose
resolved inputs correspond: the outputs correspond -/
theorem holds_agree_ren {sem : Sem} {g₁ g₂ : GraphD} {s₁ s₂ : GState}
    (hsem : ∀ a, sem (renameNode ρ n) a = sem n a)
    (hinj : ∀ a ∈ n.inputs, ∀ b ∈ n.inputs, ρ a = ρ b → a = b)
    (hnd : n.outputs.Nodup) (hnd' : (n.outputs.map ρ).Nodup)
    (h₁ : Holds sem g₁ s₁ (renameNode ρ n)) (h₂ : Holds sem g₂ s₂ n)
    (hin : ∀ c ∈ n.inputs, resolveInput g₁ s₁ (renameNode ρ n) (ρ c) = resolveInput g₂ s₂ n c) :
    ∀ o ∈ n.outputs, AL.get? s₁.values (ρ o) = AL.get? s₂.values o := by
  obtain ⟨a₁, v₁, o₁, hc₁, hv₁, hw₁, hval₁⟩ := h₁
  obtain ⟨a₂, v₂, o₂, hc₂, hv₂, hw₂, hval₂⟩ := h₂
  have hp : toParams (renameNode ρ n) a₁ = toParams n a₂ := by
    rw [(collectInputs_eq_map _ _ _ _ _ hc₁).1, (collectInputs_eq_map _ _ _ _ _ hc₂).1]
    show ((n.inputs.map ρ).map _).map _ = (n.inputs.map _).map _
    rw [List.map_map, List.map_map, List.map_map]
    apply List.map_congr_left
    intro c hc
    simp only [Function.comp]
    rw [renameNode_origIn hinj hc, hin c hc]
  rw [hp, hsem, hv₂] at hv₁
  injection hv₁ with hv₁
  subst hv₁
  have hnd'' : (renameNode ρ n).outputs.Nodup := by rw [renameNode_outputs]; exact hnd'
  intro o ho
  rw [hval₁ (ρ o) (by rw [renameNode_outputs]; exact List.mem_map_of_mem ho), hval₂ o ho]
  unfold NodeD.outputs at ho
  rcases List.mem_append.1 ho with hd | he
  · obtain ⟨i, hi, hget⟩ := List.mem_iff_getElem.1 hd
    have hi₂ : n.dataOuts[i]? = some o := by rw [List.getElem?_eq_getElem hi, hget]
    have hi₁ : (renameNode ρ n).dataOuts[i]? = some (ρ o) := by
      show (n.dataOuts.map ρ)[i]? = _
      rw [List.getElem?_map, hi₂]; rfl
    rw [wrapOutputs_component hnd'' hw₁ hi₁, wrapOutputs_component hnd hw₂ hi₂, component_rename]
  · have he₂ : n.emits.Nodup := by
      unfold NodeD.outputs at hnd; exact (List.nodup_append.1 hnd).2.1
    have he₁ : (renameNode ρ n).emits.Nodup := by
      unfold NodeD.outputs at hnd''; exact (List.nodup_append.1 hnd'').2.1
    rw [wrapOutputs_emit he₁ hw₁ (show ρ o ∈ n.emits.map ρ from List.mem_map_of_mem he),
      wrapOutputs_emit he₂ hw₂ he]
end ren

/-- the wrapper surfaces the (consistent) signature default of an inner input under its current name -/
theorem ren_sigDefaults {s : NodeSpec} {I : GraphD} (hb : I.spec.bound = []) (hcd : ConsistentDefaults I)
    (hin : (I.spec.all.map (renameOf s.inRen)).Nodup)
    {n : NodeD} (hn : n ∈ I.nodes) {p : Name} (hpn : p ∈ n.inputs) (hpa : p ∈ I.spec.all) :
    AL.get? (elabGraphNode s I).sigDefaults (renameOf s.inRen p) = AL.get? n.sigDefaults p := by
  have hF : ∀ q x, sigF s I q = some x → x.1 = renameOf s.inRen q := by
    intro q x hx
    unfold sigF at hx
    split at hx
    · cases hx
    · split at hx
      · cases hx
      · simp only [Option.map_eq_some_iff] at hx
        obtain ⟨v, _, rfl⟩ := hx
        rfl
  rw [elab_sigDefaults, get?_filterMap_inj _ _ _ hF p (fun k hk e => inj_of_nodup_map _ _ hin k hk p hpa e),
    if_pos hpa]
  have hbn : AL.has I.spec.bound p = false := by rw [hb]; rfl
  have hnu : n ∈ I.nodes.filter fun n => n.inputs.contains p := by
    rw [List.mem_filter]; exact ⟨hn, by simpa using hpn⟩
  have hne : (I.nodes.filter fun n => n.inputs.contains p) ≠ [] := List.ne_nil_of_mem hnu
  cases hd : AL.get? n.sigDefaults p with
  | none =>
    have hall : (I.nodes.filter fun n => n.inputs.contains p).all (fun n => AL.has n.sigDefaults p) = false := by
      rw [List.all_eq_false]
      exact ⟨n, hnu, by simp [AL.has, hd]⟩
    simp only [sigF, hbn, hall, Bool.false_eq_true, if_false, Bool.not_false, Bool.or_true, if_true]
    rfl
  | some dflt =>
    have hall : ∀ u ∈ I.nodes.filter fun n => n.inputs.contains p, AL.get? u.sigDefaults p = some dflt := by
      intro u hu
      rw [List.mem_filter] at hu
      rw [← hcd n hn u hu.1 p hpn (by simpa using hu.2), hd]
    have h1 : (I.nodes.filter fun n => n.inputs.contains p).all (fun n => AL.has n.sigDefaults p) = true := by
      rw [List.all_eq_true]; intro u hu; unfold AL.has; rw [hall u hu]; rfl
    have h2 : (I.nodes.filter fun n => n.inputs.contains p).isEmpty = false := by
      cases h : (I.nodes.filter fun n => n.inputs.contains p) with
      | nil => exact absurd h hne
      | cons _ _ => rfl
    simp only [sigF, hbn, h1, h2, Bool.not_true, Bool.or_self, Bool.false_eq_true, if_false]
    rw [findSome?_const _ dflt _ hne hall]; rfl

/-- all names of a graph's nodes -/
def namesOf (I : GraphD) : List Name := I.nodes.flatMap fun n => n.inputs ++ n.outputs

/-- the shape of the three graphs, with renames -/
structure ShapeR (s : NodeSpec) (ρ : Name → Name) (I O G : GraphD) (pre post : List NodeD) : Prop where
  mapOver : s.mapOver = []
  onodes : O.nodes = pre ++ elabGraphNode s I :: post
  gnodes : G.nodes = pre ++ I.nodes.map (renameNode ρ) ++ post
  isel : I.selected = .none
  rin : ∀ p ∈ I.spec.all, ρ p = renameOf s.inRen p
  rout : ∀ o ∈ graphOutputs I.nodes, ρ o = renameOf s.outRen o
  rinj : ∀ a ∈ namesOf I, ∀ b ∈ namesOf I, ρ a = ρ b → a = b
  gb : G.spec.bound = []
  ob : O.spec.bound = []
  ib : I.spec.bound = []
  leafI : ∀ n ∈ I.nodes, n.innerBound = []
  leafO : ∀ n ∈ pre ++ post, n.innerBound = []

section shapeR
variable {s : NodeSpec} {ρ : Name → Name} {I O G : GraphD} {pre post : List NodeD}

theorem ShapeR.memG (L : ShapeR s ρ I O G pre post) (n : NodeD) :
    n ∈ G.nodes ↔ n ∈ pre ++ post ∨ ∃ m ∈ I.nodes, n = renameNode ρ m := by
  rw [L.gnodes]
  simp only [List.mem_append, List.mem_map]
  constructor
  · rintro ((h | ⟨m, hm, e⟩) | h)
    · exact Or.inl (Or.inl h)
    · exact Or.inr ⟨m, hm, e.symm⟩
    · exact Or.inl (Or.inr h)
  · rintro ((h | h) | ⟨m, hm, e⟩)
    · exact Or.inl (Or.inl h)
    · exact Or.inr h
    · exact Or.inl (Or.inr ⟨m, hm, e.symm⟩)

theorem ShapeR.memO (L : ShapeR s ρ I O G pre post) (n : NodeD) :
    n ∈ O.nodes ↔ n ∈ pre ++ post ∨ n = elabGraphNode s I := by
  rw [L.onodes]
  simp only [List.mem_append, List.mem_cons]
  constructor
  · rintro (h | h | h)
    · exact Or.inl (Or.inl h)
    · exact Or.inr h
    · exact Or.inl (Or.inr h)
  · rintro ((h | h) | h)
    · exact Or.inl h
    · exact Or.inr (Or.inr h)
    · exact Or.inr (Or.inl h)

theorem inName {n : NodeD} (hn : n ∈ I.nodes) {c : Name} (hc : c ∈ n.inputs) : c ∈ namesOf I :=
  List.mem_flatMap.2 ⟨n, hn, List.mem_append_left _ hc⟩

theorem outName {n : NodeD} (hn : n ∈ I.nodes) {c : Name} (hc : c ∈ n.outputs) : c ∈ namesOf I :=
  List.mem_flatMap.2 ⟨n, hn, List.mem_append_right _ hc⟩

theorem ShapeR.wOutputs (L : ShapeR s ρ I O G pre post) :
    (elabGraphNode s I).outputs = (graphOutputs I.nodes).map (renameOf s.outRen) := by
  rw [elabGraphNode_outputs]; unfold exposed; rw [L.isel]

/-- a name written in `O` is written in `G` -/
theorem ShapeR.producedO (L : ShapeR s ρ I O G pre post) {p : Name}
    (h : ∃ m ∈ O.nodes, p ∈ m.outputs) : ∃ m ∈ G.nodes, p ∈ m.outputs := by
  obtain ⟨m, hm, hp⟩ := h
  rcases (L.memO m).1 hm with h | h
  · exact ⟨m, (L.memG m).2 (Or.inl h), hp⟩
  · subst h
    rw [L.wOutputs] at hp
    obtain ⟨o, ho, rfl⟩ := List.mem_map.1 hp
    obtain ⟨nd, hnd, hon⟩ := (Spec.mem_graphOutputs _ _).1 ho
    refine ⟨renameNode ρ nd, (L.memG _).2 (Or.inr ⟨nd, hnd, rfl⟩), ?_⟩
    rw [renameNode_outputs, ← L.rout o ho]
    exact List.mem_map_of_mem hon

/-- the state-level core with renames -/
theorem combineR {sem : Sem} {levelG : Name → Nat} (L : ShapeR s ρ I O G pre post)
    (hlt : ∀ n ∈ G.nodes, ∀ p ∈ n.inputs, ∀ m ∈ G.nodes, p ∈ m.outputs → levelG m.name < levelG n.name)
    (hok : InnerOK I) (hcd : ConsistentDefaults I)
    (hin : (I.spec.all.map (renameOf s.inRen)).Nodup) (hnd : I.spec.all.Nodup)
    (hsemR : ∀ n ∈ I.nodes, ∀ a, sem (renameNode ρ n) a = sem n a)
    (houtsnd : ∀ n ∈ I.nodes, n.outputs.Nodup)
    (values : AL Val) {sG sO sI : GState} {argsW : AL Val}
    (hstG : ∀ p, (∀ m ∈ G.nodes, p ∉ m.outputs) → AL.get? sG.values p = AL.get? (initState values).values p)
    (hstO : ∀ p, (∀ m ∈ O.nodes, p ∉ m.outputs) → AL.get? sO.values p = AL.get? (initState values).values p)
    (hG : ∀ n ∈ G.nodes, Holds sem G sG n)
    (hO : ∀ n ∈ pre ++ post, Holds sem O sO n)
    (hWargs : collectInputs O sO (elabGraphNode s I) (elabGraphNode s I).inputs = some argsW)
    (hfix : InnerFix sem I (toParams (elabGraphNode s I) argsW) sI)
    (hWvals : ∀ o ∈ graphOutputs I.nodes, AL.get? sO.values (renameOf s.outRen o) = AL.get? sI.values o) :
    ∀ k, AL.get? sG.values k = AL.get? sO.values k := by
  have hkeysW : AL.keys argsW = (elabGraphNode s I).inputs := collectInputs_keys hWargs
  obtain ⟨htk, _, htg⟩ := toParams_elab s I hin argsW hkeysW
  -- what the inner state holds for an input of the inner graph
  have hsIin : ∀ p ∈ I.spec.all, (∀ m ∈ I.nodes, p ∉ m.outputs) →
      AL.get? sI.values p = (AL.get? sO.values (ρ p)).or (AL.get? (elabGraphNode s I).sigDefaults (ρ p)) := by
    intro p hp hnp
    rw [hfix.1 p hnp, initState_get? _ (by unfold NodupKeys; rw [htk]; exact hnd), htg p hp,
      collectInputs_get? hWargs (by rw [elabGraphNode_inputs]; exact List.mem_map_of_mem hp),
      resolveInput_nobound L.ob (elab_innerBound_nil L.ib), L.rin p hp]
  have hinjN : ∀ n ∈ I.nodes, ∀ a ∈ n.inputs, ∀ b ∈ n.inputs, ρ a = ρ b → a = b :=
    fun n hn a ha b hb e => L.rinj a (inName hn ha) b (inName hn hb) e
  -- outputs of the flat graph, by level: outer nodes agree with `sO`, renamed inner nodes with `sI`
  have haux : ∀ dd (n' : NodeD), n' ∈ G.nodes → levelG n'.name = dd →
      ∀ o ∈ n'.outputs, AL.get? sG.values o = AL.get? sO.values o := by
    intro dd
    induction dd using Nat.strongRecOn with
    | _ dd ih =>
      intro n' hn' hl o ho
      have hinp : ∀ p ∈ n'.inputs, AL.get? sG.values p = AL.get? sO.values p := by
        intro p hp
        by_cases hprod : ∃ m ∈ G.nodes, p ∈ m.outputs
        · obtain ⟨m, hm, hpo⟩ := hprod
          have := hlt n' hn' p hp m hm hpo
          exact ih (levelG m.name) (by omega) m hm rfl p hpo
        · have h1 : ∀ m ∈ G.nodes, p ∉ m.outputs := fun m hm e => hprod ⟨m, hm, e⟩
          have h2 : ∀ m ∈ O.nodes, p ∉ m.outputs := fun m hm e => hprod (L.producedO ⟨m, hm, e⟩)
          rw [hstG p h1, hstO p h2]
      rcases (L.memG n').1 hn' with hnO | ⟨n, hnI, rfl⟩
      · apply holds_agree (hG n' hn') (hO n' hnO) _ o ho
        intro p hp
        rw [resolveInput_nobound L.gb (L.leafO n' hnO), resolveInput_nobound L.ob (L.leafO n' hnO), hinp p hp]
      · -- a renamed inner node
        rw [renameNode_outputs] at ho
        obtain ⟨o₀, ho₀, rfl⟩ := List.mem_map.1 ho
        have hoW : o₀ ∈ graphOutputs I.nodes := (Spec.mem_graphOutputs _ _).2 ⟨n, hnI, ho₀⟩
        rw [L.rout o₀ hoW, hWvals o₀ hoW, ← L.rout o₀ hoW]
        have hnd' : (n.outputs.map ρ).Nodup :=
          nodup_map_of_inj_on ρ _ (houtsnd n hnI)
            (fun a ha b hb e => L.rinj a (outName hnI ha) b (outName hnI hb) e)
        apply holds_agree_ren (hsemR n hnI) (hinjN n hnI) (houtsnd n hnI) hnd' (hG _ hn') (hfix.2 n hnI) _ o₀ ho₀
        intro c hc
        have hleaf' : (renameNode ρ n).innerBound = [] := L.leafI n hnI
        rw [resolveInput_nobound L.gb hleaf', resolveInput_nobound L.ib (L.leafI n hnI),
          renameNode_sigDefaults (hinjN n hnI) hc,
          hinp (ρ c) (show ρ c ∈ n.inputs.map ρ from List.mem_map_of_mem hc)]
        by_cases hpI : ∃ m ∈ I.nodes, c ∈ m.outputs
        · obtain ⟨m, hm, hpo⟩ := hpI
          have hcW : c ∈ graphOutputs I.nodes := (Spec.mem_graphOutputs _ _).2 ⟨m, hm, hpo⟩
          rw [L.rout c hcW, hWvals c hcW]
        · have hnp : ∀ m ∈ I.nodes, c ∉ m.outputs := fun m hm e => hpI ⟨m, hm, e⟩
          have hpa : c ∈ I.spec.all := by
            rcases hok.complete n hnI c hc with h | h
            · exact absurd h hpI
            · exact h
          rw [hsIin c hpa hnp, L.rin c hpa, ren_sigDefaults L.ib hcd hin hnI hc hpa]
          cases AL.get? sO.values (renameOf s.inRen c) <;> cases AL.get? n.sigDefaults c <;> rfl
  intro k
  by_cases hprod : ∃ m ∈ G.nodes, k ∈ m.outputs
  · obtain ⟨m, hm, hko⟩ := hprod
    exact haux _ m hm rfl k hko
  · have h1 : ∀ m ∈ G.nodes, k ∉ m.outputs := fun m hm e => hprod ⟨m, hm, e⟩
    have h2 : ∀ m ∈ O.nodes, k ∉ m.outputs := fun m hm e => hprod (L.producedO ⟨m, hm, e⟩)
    rw [hstG k h1, hstO k h2]

/-- the two sync loops with a renamed wrapper: the outer graph and the flat graph of renamed inner nodes both
end `done`, and the final states agree on every name. Here the well-formedness of each of the three graphs
is assumed separately. -/
theorem nest_values_core_R (sem : Sem) (prog : Program) (d : Nat) (I : GraphD)
    (levelG levelO levelI : Name → Nat) (nestedG : Nested) (giO giG : Nat)
    (spanO spanG : Span) (mi : Nat) (log₀ log₁ : List Log)
    (L : ShapeR s ρ I O G pre post) (hI : prog.getD s.inner default = I)
    (hWG : WFI G levelG) (hfnG : AllFn G) (hsG : SemTotal sem G)
    (hWI : WFI I levelI) (hfnI : AllFn I) (hsI : SemTotal sem I)
    (hsemR : ∀ n ∈ I.nodes, ∀ a, sem (renameNode ρ n) a = sem n a)
    (hnsI : NoSentinel sem I) (hok : InnerOK I) (hcd : ConsistentDefaults I) (hnd : I.spec.all.Nodup)
    (hepI : I.entrypoints = .none) (hfuelI : I.nodes.length ≤ ({} : RunCfg).maxIter)
    (hWO : WFI O levelO)
    (values : AL Val) (hfreshG : ∀ m ∈ G.nodes, ∀ o ∈ m.outputs, AL.has values o = false)
    (hcovG : Covered G (initState values))
    (hfreshO : ∀ m ∈ O.nodes, ∀ o ∈ m.outputs, AL.has values o = false)
    (hcovO : Covered O (initState values))
    (hfuelG : G.nodes.length ≤ mi) (hfuelO : O.nodes.length ≤ mi) :
    ∃ sO sG logO logG nO nG,
      runLoop (fun k st rs => stepSync (nestedAt sem .sync prog (d + 1)) sem giO O spanO k st rs st []) O .none
        mi mi 0 (initState values) log₀ = .done sO logO nO ∧
      runLoop (fun k st rs => stepSync nestedG sem giG G spanG k st rs st []) G .none
        mi mi 0 (initState values) log₁ = .done sG logG nG ∧
      (∀ k, AL.get? sO.values k = AL.get? sG.values k) := by
  -- injectivity of the wrapper's renamings
  have hinjIn : ∀ a ∈ I.spec.all, ∀ b ∈ I.spec.all, renameOf s.inRen a = renameOf s.inRen b → a = b := by
    intro a ha b hb e
    obtain ⟨u, hu, hau⟩ := hok.sound a ha
    obtain ⟨u', hu', hbu⟩ := hok.sound b hb
    rw [← L.rin a ha, ← L.rin b hb] at e
    exact L.rinj a (inName hu hau) b (inName hu' hbu) e
  have hin : (I.spec.all.map (renameOf s.inRen)).Nodup := nodup_map_of_inj_on _ _ hnd hinjIn
  have hexp : exposed I = graphOutputs I.nodes := by unfold exposed; rw [L.isel]
  have hout : ((exposed I).map (renameOf s.outRen)).Nodup := by
    rw [hexp]
    apply nodup_map_of_inj_on _ _ (dedup_nodup _)
    intro a ha b hb e
    obtain ⟨u, hu, hau⟩ := (Spec.mem_graphOutputs _ _).1 ha
    obtain ⟨u', hu', hbu⟩ := (Spec.mem_graphOutputs _ _).1 hb
    rw [← L.rout a ha, ← L.rout b hb] at e
    exact L.rinj a (outName hu hau) b (outName hu' hbu) e
  obtain ⟨sG, logG, nG, hrunG, hstG, hholdG, _⟩ :=
    sync_run_holds hWG nestedG sem sem hsG giG spanG (goodNodes_fn nestedG sem giG G hfnG hsG) values hfreshG hcovG
      mi hfuelG log₁
  -- the outer graph
  have hleafG : ∀ n ∈ pre ++ post, n ∈ G.nodes := fun n hn => (L.memG n).2 (Or.inl hn)
  have hsO : SemTotal (nestSem sem (nestedAt sem .sync prog (d + 1))) O := by
    intro nd hnd' args
    rcases (L.memO nd).1 hnd' with h | h
    · rw [nestSem_fn sem _ nd (by rw [hfnG nd (hleafG nd h)]; decide)]
      exact hsG nd (hleafG nd h) args
    · subst h
      exact nestSem_total_graph sem _ _ rfl rfl (by rw [elabGraphNode_dataOuts]; exact hout) args
  have hgoodO : GoodNodes (nestedAt sem .sync prog (d + 1)) sem
      (nestSem sem (nestedAt sem .sync prog (d + 1))) giO O := by
    intro nd hnd' st args hc ns sp
    rcases (L.memO nd).1 hnd' with h | h
    · obtain ⟨v, hv, hw⟩ := outsOf_spec hsO hnd' args
      exact execNode_fn_good _ sem _ giO nd args ns sp (hfnG nd (hleafG nd h))
        (nestSem_fn sem _ nd (by rw [hfnG nd (hleafG nd h)]; decide) _).symm v hv hw
    · subst h
      have hexec : execNode (nestedAt sem .sync prog (d + 1)) sem giO (elabGraphNode s I) args ns sp =
          execGraphNode (nestedAt sem .sync prog (d + 1)) (elabGraphNode s I) args sp := rfl
      rw [hexec]
      obtain ⟨h1, h2, h3, _⟩ := graphnode_good sem prog d s I levelI hI L.mapOver hWI hfnI hsI hnsI hok L.isel
        hepI hfuelI hin hout args (collectInputs_keys hc) sp
      exact ⟨h1, h2, h3⟩
  obtain ⟨sO, logO, nO, hrunO, hstO, hholdO, _⟩ :=
    sync_run_holds hWO (nestedAt sem .sync prog (d + 1)) sem _ hsO giO spanO hgoodO values hfreshO hcovO mi
      hfuelO log₀
  -- the wrapper
  have hwO : elabGraphNode s I ∈ O.nodes := (L.memO _).2 (Or.inr rfl)
  obtain ⟨argsW, vW, outsW, hcW, hvW, hwW, hvalW⟩ := hholdO _ hwO
  obtain ⟨_, _, _, sI, hfix, hsome, houts⟩ := graphnode_good sem prog d s I levelI hI L.mapOver hWI hfnI hsI hnsI
    hok L.isel hepI hfuelI hin hout argsW (collectInputs_keys hcW) []
  have houtsW : outsW = outsOf (nestSem sem (nestedAt sem .sync prog (d + 1))) (elabGraphNode s I) argsW := by
    unfold outsOf; rw [hvW]; simp only; rw [hwW]; rfl
  have hWvals : ∀ o ∈ graphOutputs I.nodes,
      AL.get? sO.values (renameOf s.outRen o) = AL.get? sI.values o := by
    intro o ho
    rw [hvalW _ (by rw [L.wOutputs]; exact List.mem_map_of_mem ho), houtsW, houts,
      get?_map_inj (graphOutputs I.nodes) (renameOf s.outRen) _ o
        (fun k hk e => inj_of_nodup_map _ _ (hexp ▸ hout) k hk o ho e), if_pos ho]
    obtain ⟨v, hv, _⟩ := hsome o ho
    rw [hv]; rfl
  have hcomb := combineR L hWG.lt hok hcd hin hnd hsemR (fun n hn => hWI.up.outputs_nodup hn) values hstG hstO
    hholdG
    (fun n hn => holds_nestSem_fn (by rw [hfnG n (hleafG n hn)]; decide)
      (hholdO n ((L.memO n).2 (Or.inl hn))))
    hcW hfix hWvals
  exact ⟨sO, sG, logO, logG, nO, nG, hrunO, hrunG, fun k => (hcomb k).symm⟩
end shapeR

end HG.Nest
