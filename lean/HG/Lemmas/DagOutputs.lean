import HG.Lemmas.DagRun
/-! # HG.Lemmas.DagOutputs — components of a wrapped result; totality of the body language; small list facts -/
namespace HG.C01

/-- the value `wrap_outputs` assigns to the `i`-th data output of `nd` when its function returned `v`:
the value itself for a single output, the `i`-th item of the returned tuple / list otherwise -/
def component (nd : NodeD) (v : Val) (i : Nat) : Option Val :=
  match nd.dataOuts with
  | [_] => if i = 0 then some v else .none
  | _ => (v.seqItems.getD [])[i]?

theorem get?_zip (ks : List Name) : ∀ (items : List Val) (i : Nat) (o : Name), ks.Nodup → ks[i]? = some o →
    i < items.length → AL.get? (ks.zip items) o = items[i]? := by
  induction ks with
  | nil => intro items i o _ h; simp at h
  | cons k ks ih =>
    intro items i o hnd h hi
    cases items with
    | nil => simp at hi
    | cons x xs =>
      rw [List.nodup_cons] at hnd
      cases i with
      | zero =>
        simp only [List.getElem?_cons_zero, Option.some.injEq] at h
        subst h; simp [AL.get?]
      | succ j =>
        simp only [List.getElem?_cons_succ] at h
        have hmem : o ∈ ks := List.mem_of_getElem? h
        have hne : o ≠ k := fun e => hnd.1 (e ▸ hmem)
        simp only [List.zip_cons_cons, AL.get?, hne, if_false, List.getElem?_cons_succ]
        exact ih xs j o hnd.2 h (by simpa using hi)

theorem get?_none_of_not_mem_emits (emits : List Name) (o : Name) (h : o ∉ emits) :
    AL.get? (emits.map fun e => (e, Val.sentinel)) o = .none := by
  rw [← has_eq_false_iff]
  cases hh : AL.has (emits.map fun e => (e, Val.sentinel)) o with
  | false => rfl
  | true => exact absurd ((has_map_const _ _ _).mp hh) h

/-- each data output holds the corresponding component of the returned value -/
theorem wrapOutputs_component {nd : NodeD} {v : Val} {outs : AL Val} (hn : nd.outputs.Nodup)
    (h : wrapOutputs nd v = some outs) {i : Nat} {o : Name} (hi : nd.dataOuts[i]? = some o) :
    AL.get? outs o = component nd v i := by
  unfold NodeD.outputs at hn
  obtain ⟨hd, he, hdisj⟩ := List.nodup_append.mp hn
  have hod : o ∈ nd.dataOuts := List.mem_of_getElem? hi
  have hoe : o ∉ nd.emits := fun hm => hdisj o hod o hm rfl
  have hk : NodupKeys (nd.emits.map fun e => (e, Val.sentinel)) := by
    unfold NodupKeys; rw [keys_map_const]; exact he
  have hg := get?_none_of_not_mem_emits nd.emits o hoe
  unfold wrapOutputs at h
  unfold component
  split at h
  · rename_i hnil; rw [hnil] at hi; simp at hi
  · rename_i o' hsingle
    injection h with h; subst h
    rw [hsingle] at hi
    cases i with
    | zero =>
      simp only [List.getElem?_cons_zero, Option.some.injEq] at hi
      subst hi
      rw [get?_merge _ hk, hg, hsingle]; simp [AL.get?]
    | succ j => simp at hi
  · rename_i hne1 hne2
    split at h
    · cases h
    · rename_i items hitems
      split at h
      · cases h
      · rename_i hlen
        injection h with h; subst h
        have hl : items.length = nd.dataOuts.length := by simpa using hlen
        have hkz : NodupKeys (nd.dataOuts.zip items) := by
          unfold NodupKeys AL.keys; rw [List.map_fst_zip (by omega)]; exact hd
        have hilt : i < items.length := by
          rw [hl]; exact (List.getElem?_eq_some_iff.mp hi).1
        rw [get?_merge _ hk, hg]
        show AL.get? (AL.merge [] (nd.dataOuts.zip items)) o = _
        rw [get?_merge _ hkz, get?_zip _ _ _ _ hd hi hilt, hitems]
        have : ∀ x : Option Val, x.or (AL.get? ([] : AL Val) o) = x := by
          intro x; cases x <;> rfl
        rw [this]
        split
        · rename_i o'' hs; exact absurd hs (hne2 o'')
        · rfl

/-! ## totality of the body language on well-shaped nodes -/

theorem wrapOutputs_isSome_of_le_one (nd : NodeD) (v : Val) (h : nd.dataOuts.length ≤ 1) :
    ∃ outs, wrapOutputs nd v = some outs := by
  unfold wrapOutputs
  split
  · exact ⟨_, rfl⟩
  · exact ⟨_, rfl⟩
  · rename_i h1 h2
    match hd : nd.dataOuts with
    | [] => exact absurd hd h1
    | [o] => exact absurd hd (h2 o)
    | a :: b :: t => rw [hd] at h; simp at h

theorem wrapOutputs_isSome_tuple (nd : NodeD) (items : List Val) (h : items.length = nd.dataOuts.length) :
    ∃ outs, wrapOutputs nd (Val.mkTup items) = some outs := by
  unfold wrapOutputs
  split
  · exact ⟨_, rfl⟩
  · exact ⟨_, rfl⟩
  · simp [Val.mkTup, Val.seqItems, h]

/-- shapes of `Body` for which `bodySem` is total: a tagged tuple into at most one data output, or a
`k`-tuple into exactly `k` data outputs -/
def bodyOk (nd : NodeD) : Bool :=
  match nd.body with
  | .tag _ => decide (nd.dataOuts.length ≤ 1)
  | .const _ => decide (nd.dataOuts.length ≤ 1)
  | .sum _ => decide (nd.dataOuts.length ≤ 1)
  | .multi _ k => decide (k = nd.dataOuts.length)
  | _ => false

theorem bodySem_total {g : GraphD} (h : ∀ nd ∈ g.nodes, bodyOk nd = true) : SemTotal bodySem g := by
  intro nd hn args
  have hb := h nd hn
  unfold bodyOk at hb
  unfold bodySem Body.eval
  split at hb <;> try simp only [decide_eq_true_eq] at hb
  · rename_i t hbody; rw [hbody]
    obtain ⟨o, ho⟩ := wrapOutputs_isSome_of_le_one nd (Val.mkTup (.str t :: args.map (·.2))) hb
    exact ⟨_, o, rfl, ho⟩
  · rename_i c hbody; rw [hbody]
    obtain ⟨o, ho⟩ := wrapOutputs_isSome_of_le_one nd c hb
    exact ⟨_, o, rfl, ho⟩
  · rename_i c hbody; rw [hbody]
    obtain ⟨o, ho⟩ := wrapOutputs_isSome_of_le_one nd (.int ((intArgs (args.map (·.2))).foldl (· + ·) c)) hb
    exact ⟨_, o, rfl, ho⟩
  · rename_i t k hbody; rw [hbody]
    obtain ⟨o, ho⟩ := wrapOutputs_isSome_tuple nd
      ((List.range k).map fun i => Val.mkTup (.str t :: .int (Int.ofNat i) :: args.map (·.2))) (by simp [hb])
    exact ⟨_, o, rfl, ho⟩
  · cases hb

/-! ## exactly one element of a duplicate-free list satisfies a characteristic predicate -/

theorem filter_unique {α} (p : α → Bool) (a : α) : ∀ (l : List α), l.Nodup → a ∈ l →
    (∀ x ∈ l, p x = true ↔ x = a) → l.filter p = [a] := by
  intro l
  induction l with
  | nil => intro _ h; cases h
  | cons b t ih =>
    intro hnd ha hp
    rw [List.nodup_cons] at hnd
    by_cases e : b = a
    · subst e
      have hb : p b = true := (hp b (List.mem_cons_self ..)).mpr rfl
      have ht : t.filter p = [] := by
        apply List.filter_eq_nil_iff.mpr
        intro x hx hpx
        have : x = b := (hp x (List.mem_cons_of_mem _ hx)).mp hpx
        exact hnd.1 (this ▸ hx)
      rw [List.filter_cons, hb, ht]; rfl
    · have hb : p b = false := by
        cases hpb : p b with
        | false => rfl
        | true => exact absurd ((hp b (List.mem_cons_self ..)).mp hpb) e
      have ha' : a ∈ t := by
        rcases List.mem_cons.mp ha with h | h
        · exact absurd h.symm e
        · exact h
      rw [List.filter_cons, hb]
      exact ih hnd.2 ha' (fun x hx => hp x (List.mem_cons_of_mem _ hx))

theorem fnId_inj (gi : Nat) {a b : NodeD} (h : fnId gi a = fnId gi b) : a.name = b.name := by
  unfold fnId at h
  exact (String.append_right_inj _).mp h

end HG.C01
