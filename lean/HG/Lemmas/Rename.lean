import HG.Model.Rename

/-! # HG.Lemmas.Rename — helper lemmas for `HG.Props.C06`

1. association-list facts (`put`/`merge` = Python `d[k] = v` / `d.update`)
2. grouping: on a history whose calls carry pairwise distinct batch ids, the
   group-by-batch-id skeleton `processGroups` is a plain left fold over the calls
3. one-call invariants for the reverse and the forward map
4. the invariants along a whole valid sequence of calls -/
namespace HG
namespace AL
variable {α : Type}

theorem mem_keys_put (m : AL α) (k x : Name) (v : α) :
    x ∈ keys (put m k v) ↔ x = k ∨ x ∈ keys m := by
  rw [mem_keys_iff_has, mem_keys_iff_has, has_put]
  by_cases h : x = k <;> simp [h]

theorem nodup_keys_put (m : AL α) (k : Name) (v : α) (h : (keys m).Nodup) :
    (keys (put m k v)).Nodup := by
  induction m with
  | nil => simp [put, keys]
  | cons hd t ih =>
    obtain ⟨a, w⟩ := hd
    have h' : a ∉ keys t ∧ (keys t).Nodup := by simpa [keys] using h
    by_cases hk : k = a
    · simpa [put, hk, keys] using h
    · have hak : ¬ a = k := fun e => hk e.symm
      have hnot : a ∉ keys (put t k v) := by
        rw [mem_keys_put]; intro hc
        rcases hc with hc | hc
        · exact hak hc
        · exact h'.1 hc
      have := ih h'.2
      simp only [put, hk, if_false]
      show (a :: keys (put t k v)).Nodup
      exact List.nodup_cons.mpr ⟨hnot, this⟩

theorem merge_nil (a : AL α) : merge a [] = a := rfl
theorem merge_cons (a : AL α) (kv : Name × α) (b : AL α) :
    merge a (kv :: b) = merge (put a kv.1 kv.2) b := rfl

theorem nodup_keys_merge (a b : AL α) (h : (keys a).Nodup) : (keys (merge a b)).Nodup := by
  induction b generalizing a with
  | nil => exact h
  | cons kv b ih => rw [merge_cons]; exact ih _ (nodup_keys_put a kv.1 kv.2 h)

theorem mem_keys_merge (a b : AL α) (x : Name) :
    x ∈ keys (merge a b) ↔ x ∈ keys a ∨ x ∈ b.map (·.1) := by
  induction b generalizing a with
  | nil => simp [merge_nil]
  | cons kv b ih =>
    rw [merge_cons, ih, mem_keys_put]
    simp only [List.map_cons, List.mem_cons]
    constructor
    · rintro ((h | h) | h)
      · exact Or.inr (Or.inl h)
      · exact Or.inl h
      · exact Or.inr (Or.inr h)
    · rintro (h | h | h)
      · exact Or.inl (Or.inr h)
      · exact Or.inl (Or.inl h)
      · exact Or.inr h

theorem get?_eq_none_of_not_mem (m : AL α) (x : Name) (h : x ∉ keys m) : get? m x = .none := by
  have : has m x ≠ true := fun e => h ((mem_keys_iff_has m x).mpr e)
  unfold has at this
  cases hg : get? m x with
  | none => rfl
  | some v => simp [hg] at this

theorem mem_keys_of_get? (m : AL α) (x : Name) (v : α) (h : get? m x = some v) : x ∈ keys m := by
  rw [mem_keys_iff_has]; simp [has, h]

theorem mem_of_get? (m : AL α) (x : Name) (v : α) (h : get? m x = some v) : (x, v) ∈ m := by
  induction m with
  | nil => simp at h
  | cons hd t ih =>
    obtain ⟨a, w⟩ := hd
    by_cases hx : x = a
    · simp only [get?, hx, if_true, Option.some.injEq] at h
      subst h; subst hx; exact List.mem_cons_self ..
    · simp only [get?, hx, if_false] at h
      exact List.mem_cons_of_mem _ (ih h)

theorem get?_of_mem (m : AL α) (hnd : (keys m).Nodup) (x : Name) (v : α) (h : (x, v) ∈ m) :
    get? m x = some v := by
  induction m with
  | nil => cases h
  | cons hd t ih =>
    obtain ⟨a, w⟩ := hd
    have h' : a ∉ keys t ∧ (keys t).Nodup := by simpa [keys] using hnd
    rcases List.mem_cons.mp h with e | hm
    · cases e; simp [get?]
    · have hxa : x ≠ a := by
        intro e; apply h'.1; rw [← e]
        exact List.mem_map.mpr ⟨(x, v), hm, rfl⟩
      simp only [get?, hxa, if_false]
      exact ih h'.2 hm

/-- where a value found in `a.update(b)` comes from -/
theorem get?_merge_some (a b : AL α) (x : Name) (v : α) (h : get? (merge a b) x = some v) :
    (∃ kv ∈ b, kv.1 = x ∧ kv.2 = v) ∨ get? a x = some v := by
  induction b generalizing a with
  | nil => exact Or.inr h
  | cons kv b ih =>
    rw [merge_cons] at h
    rcases ih _ h with ⟨kv', hm, h1, h2⟩ | h'
    · exact Or.inl ⟨kv', List.mem_cons_of_mem _ hm, h1, h2⟩
    · rw [get?_put] at h'
      by_cases hx : x = kv.1
      · simp only [hx, if_true, Option.some.injEq] at h'
        exact Or.inl ⟨kv, List.mem_cons_self .., hx.symm, h'⟩
      · simp only [hx, if_false] at h'
        exact Or.inr h'

theorem get?_merge_none (a b : AL α) (x : Name) (h : get? (merge a b) x = .none) :
    (∀ kv ∈ b, kv.1 ≠ x) ∧ get? a x = .none := by
  induction b generalizing a with
  | nil => exact ⟨fun _ hm => (by cases hm), h⟩
  | cons kv b ih =>
    rw [merge_cons] at h
    obtain ⟨h1, h2⟩ := ih _ h
    rw [get?_put] at h2
    by_cases hx : x = kv.1
    · simp [hx] at h2
    · simp only [hx, if_false] at h2
      refine ⟨?_, h2⟩
      intro kv' hm
      rcases List.mem_cons.mp hm with e | hm'
      · subst e; exact fun e => hx e.symm
      · exact h1 kv' hm'

/-- `a.update(b)` when `b` itself is a dict (distinct keys) -/
theorem get?_merge (a b : AL α) (hb : (keys b).Nodup) (x : Name) :
    get? (merge a b) x = (get? b x).or (get? a x) := by
  induction b generalizing a with
  | nil => simp [merge_nil]
  | cons kv b ih =>
    obtain ⟨k, v⟩ := kv
    have h' : k ∉ keys b ∧ (keys b).Nodup := by simpa [keys] using hb
    rw [merge_cons, ih _ h'.2, get?_put]
    by_cases hx : x = k
    · subst hx
      simp [get?, get?_eq_none_of_not_mem b x h'.1]
    · simp [get?, hx]

/-- Re-keying a dict with a function that is injective on the relevant keys:
`{f(k): v for k, v in l.items()}` read at `f(c)` is `l` read at `c`. -/
theorem get?_merge_rekey (f : Name → Name) (l : AL α) (acc : AL α) (c : Name)
    (hnd : (keys l).Nodup) (hinj : ∀ k ∈ keys l, f k = f c → k = c) :
    get? (merge acc (l.map fun kv => (f kv.1, kv.2))) (f c) = (get? l c).or (get? acc (f c)) := by
  induction l generalizing acc with
  | nil => simp [merge_nil]
  | cons hd t ih =>
    obtain ⟨k, v⟩ := hd
    have h' : k ∉ keys t ∧ (keys t).Nodup := by simpa [keys] using hnd
    have hinj' : ∀ k' ∈ keys t, f k' = f c → k' = c := fun k' hk' =>
      hinj k' (by simp only [keys, List.map_cons, List.mem_cons]; exact Or.inr hk')
    simp only [List.map_cons]
    rw [merge_cons, ih _ h'.2 hinj', get?_put]
    by_cases hc : c = k
    · subst hc
      simp [get?, get?_eq_none_of_not_mem t c h'.1]
    · have hf : ¬ f c = f k := by
        intro e
        exact hc (hinj k (by simp [keys]) e.symm).symm
      simp [get?, hc, hf]

end AL

namespace Rename
open AL

/-! ## small list facts -/

theorem inj_of_nodup_map {α β} (f : α → β) : ∀ (l : List α), (l.map f).Nodup →
    ∀ x ∈ l, ∀ y ∈ l, f x = f y → x = y
  | [], _, x, hx, _, _, _ => by cases hx
  | a :: l, h, x, hx, y, hy, e => by
    simp only [List.map_cons, List.nodup_cons, List.mem_map, not_exists, not_and] at h
    rcases List.mem_cons.mp hx with rfl | hx' <;> rcases List.mem_cons.mp hy with rfl | hy'
    · rfl
    · exact absurd e.symm (h.1 y hy')
    · exact absurd e (h.1 x hx')
    · exact inj_of_nodup_map f l h.2 x hx' y hy' e

theorem look_eq (m : AL Name) (k : Name) : look m k = (AL.get? m k).getD k := rfl

/-- a mapping with distinct keys sends each of its keys to the paired value -/
theorem look_of_mem (b : Batch) (hnd : (b.map (·.1)).Nodup) (q : Name × Name) (hq : q ∈ b) :
    look b q.1 = q.2 := by
  have : AL.get? b q.1 = some q.2 := AL.get?_of_mem b hnd q.1 q.2 hq
  simp [look_eq, this]

theorem look_not_old (b : Batch) (c : Name) (h : ∀ q ∈ b, q.1 ≠ c) : look b c = c := by
  have : c ∉ AL.keys b := by
    intro hc
    obtain ⟨q, hq, e⟩ := List.mem_map.mp hc
    exact h q hq e
  simp [look_eq, AL.get?_eq_none_of_not_mem b c this]

/-! ## 2. grouping by batch id -/

theorem mem_dedup : ∀ {l : List (Option Nat)} {x}, x ∈ dedup l → x ∈ l
  | [], _, h => by cases h
  | a :: t, x, h => by
    simp only [dedup, List.mem_cons, List.mem_filter] at h
    rcases h with h | ⟨h, _⟩
    · exact h ▸ List.mem_cons_self ..
    · exact List.mem_cons_of_mem _ (mem_dedup h)

/-- a non-empty block of equal ids in front of a list not containing that id -/
theorem dedup_block (a : Option Nat) (l : List (Option Nat)) (hl : a ∉ l) :
    ∀ (l0 : List (Option Nat)), (∀ x ∈ l0, x = a) → l0 ≠ [] → dedup (l0 ++ l) = a :: dedup l
  | [], _, hne => absurd rfl hne
  | x :: l0, h0, _ => by
    have hx : x = a := h0 x (List.mem_cons_self ..)
    subst hx
    have hfilt : (dedup l).filter (fun b => b != x) = dedup l := by
      apply List.filter_eq_self.mpr
      intro y hy
      have : y ≠ x := fun e => hl (e ▸ mem_dedup hy)
      simpa using this
    by_cases hne : l0 = []
    · subst hne
      simp only [List.cons_append, List.nil_append, dedup, hfilt]
    · have ih := dedup_block x l hl l0 (fun y hy => h0 y (List.mem_cons_of_mem _ hy)) hne
      simp only [List.cons_append, dedup, ih, List.filter_cons, bne_self_eq_false, hfilt]
      simp

theorem historyTagged_cons (k : RKind) (x : Option Nat × Batch) (tb : List (Option Nat × Batch)) :
    historyTagged k (x :: tb) = entriesOf k x.1 x.2 ++ historyTagged k tb := by
  simp [historyTagged]

theorem mem_entriesOf {k : RKind} {id : Option Nat} {b : Batch} {e : Entry}
    (h : e ∈ entriesOf k id b) : e.kind = k ∧ e.batch = id := by
  obtain ⟨p, _, rfl⟩ := List.mem_map.mp h
  exact ⟨rfl, rfl⟩

theorem mem_historyTagged {k : RKind} {tb : List (Option Nat × Batch)} {e : Entry}
    (h : e ∈ historyTagged k tb) : e.kind = k ∧ e.batch ∈ tb.map (·.1) := by
  induction tb with
  | nil => simp [historyTagged] at h
  | cons x tb ih =>
    rw [historyTagged_cons] at h
    rcases List.mem_append.mp h with h | h
    · have := mem_entriesOf h
      exact ⟨this.1, by simp [this.2]⟩
    · have := ih h
      exact ⟨this.1, by simp only [List.map_cons, List.mem_cons]; exact Or.inr this.2⟩

theorem filter_kind_historyTagged (k : RKind) (tb : List (Option Nat × Batch)) :
    (historyTagged k tb).filter (fun e => e.kind = k) = historyTagged k tb := by
  apply List.filter_eq_self.mpr
  intro e he
  simpa using (mem_historyTagged he).1

theorem foldl_congr_mem {α β} (f g : β → α → β) (l : List α)
    (h : ∀ x ∈ l, ∀ m, f m x = g m x) (m : β) : l.foldl f m = l.foldl g m := by
  induction l generalizing m with
  | nil => rfl
  | cons a l ih =>
    simp only [List.foldl_cons]
    rw [h a (List.mem_cons_self ..) m]
    exact ih (fun x hx => h x (List.mem_cons_of_mem _ hx)) _

theorem fold_groups (G : AL Name → List Entry → AL Name) (hG : ∀ m, G m [] = m) (k : RKind) :
    ∀ (tb : List (Option Nat × Batch)) (pre : List Entry) (m0 : AL Name),
      (tb.map (·.1)).Nodup → (∀ e ∈ pre, e.batch ∉ tb.map (·.1)) →
      (batchIds (historyTagged k tb)).foldl
          (fun m id => G m (entriesWithId (pre ++ historyTagged k tb) id)) m0
        = tb.foldl (fun m x => G m (entriesOf k x.1 x.2)) m0
  | [], _, _, _, _ => by simp [historyTagged, batchIds, dedup]
  | (tag, b) :: rest, pre, m0, hnd, hpre => by
    have hnd' : tag ∉ rest.map (·.1) ∧ (rest.map (·.1)).Nodup := by simpa using hnd
    have hpre_rest : ∀ e ∈ pre, e.batch ∉ rest.map (·.1) := by
      intro e he hc
      exact hpre e he (by simp only [List.map_cons, List.mem_cons]; exact Or.inr hc)
    rw [historyTagged_cons]
    simp only [List.foldl_cons]
    by_cases hb : b = []
    · subst hb
      have he : entriesOf k tag ([] : Batch) = [] := rfl
      rw [he, List.nil_append, hG]
      exact fold_groups G hG k rest pre m0 hnd'.2 hpre_rest
    · -- the ids of the first call form a block in front
      have hE0 : ∀ x ∈ (entriesOf k tag b).map (·.batch), x = tag := by
        intro x hx
        obtain ⟨e, he, rfl⟩ := List.mem_map.mp hx
        exact (mem_entriesOf he).2
      have hE0ne : (entriesOf k tag b).map (·.batch) ≠ [] := by
        cases b with
        | nil => exact absurd rfl hb
        | cons p b => simp [entriesOf]
      have htagEr : tag ∉ (historyTagged k rest).map (·.batch) := by
        intro hc
        obtain ⟨e, he, e2⟩ := List.mem_map.mp hc
        exact hnd'.1 (e2 ▸ (mem_historyTagged he).2)
      have hids : batchIds (entriesOf k tag b ++ historyTagged k rest)
          = tag :: batchIds (historyTagged k rest) := by
        unfold batchIds
        rw [List.map_append]
        exact dedup_block tag _ htagEr _ hE0 hE0ne
      rw [hids, List.foldl_cons]
      -- the group of the first id is exactly the first call's entries
      have hgrp : entriesWithId (pre ++ (entriesOf k tag b ++ historyTagged k rest)) tag
          = entriesOf k tag b := by
        unfold entriesWithId
        rw [List.filter_append, List.filter_append]
        have h1 : pre.filter (fun e => e.batch = tag) = [] := by
          apply List.filter_eq_nil_iff.mpr
          intro e he
          have := hpre e he
          simp only [List.map_cons, List.mem_cons, not_or] at this
          simpa using this.1
        have h2 : (entriesOf k tag b).filter (fun e => e.batch = tag) = entriesOf k tag b := by
          apply List.filter_eq_self.mpr
          intro e he
          simpa using (mem_entriesOf he).2
        have h3 : (historyTagged k rest).filter (fun e => e.batch = tag) = [] := by
          apply List.filter_eq_nil_iff.mpr
          intro e he
          have : e.batch ≠ tag := fun e2 => hnd'.1 (e2 ▸ (mem_historyTagged he).2)
          simpa using this
        rw [h1, h2, h3]; simp
      rw [hgrp, ← List.append_assoc]
      apply fold_groups G hG k rest (pre ++ entriesOf k tag b) _ hnd'.2
      intro e he
      rcases List.mem_append.mp he with he | he
      · exact hpre_rest e he
      · rw [(mem_entriesOf he).2]; exact hnd'.1

/-- On a history whose calls carry pairwise distinct ids, grouping by id recovers the calls. -/
theorem processGroups_tagged (G : AL Name → List Entry → AL Name) (hG : ∀ m, G m [] = m)
    (k : RKind) (tb : List (Option Nat × Batch)) (hnd : (tb.map (·.1)).Nodup) :
    processGroups G (historyTagged k tb) k
      = tb.foldl (fun m x => G m (entriesOf k x.1 x.2)) [] := by
  unfold processGroups
  simp only [filter_kind_historyTagged]
  have := fold_groups G hG k tb [] [] hnd (fun _ h => by cases h)
  simpa using this

/-- entries of other kinds (`with_outputs`, `with_name` on the same node) are invisible -/
theorem processGroups_filter (G : AL Name → List Entry → AL Name) (h : History) (k : RKind) :
    processGroups G h k = processGroups G (h.filter (fun e => e.kind = k)) k := by
  unfold processGroups
  simp only [List.filter_filter, Bool.and_self]

theorem revGroup_nil (m : AL Name) : revGroup m [] = m := rfl
theorem fwdGroup_nil (m : AL Name) : fwdGroup m [] = m := rfl

/-- the ids `some i, some (i+1), …` -/
theorem mem_tagFrom_tags : ∀ (bs : List Batch) (i : Nat) (x : Option Nat),
    x ∈ (tagFrom i bs).map (·.1) → ∃ j, i ≤ j ∧ x = some j
  | [], _, _, h => by simp [tagFrom] at h
  | b :: bs, i, x, h => by
    simp only [tagFrom, List.map_cons, List.mem_cons] at h
    rcases h with h | h
    · exact ⟨i, Nat.le_refl _, h⟩
    · obtain ⟨j, hj, e⟩ := mem_tagFrom_tags bs (i + 1) x h
      exact ⟨j, by omega, e⟩

theorem nodup_tagFrom : ∀ (bs : List Batch) (i : Nat), ((tagFrom i bs).map (·.1)).Nodup
  | [], _ => by simp [tagFrom]
  | b :: bs, i => by
    simp only [tagFrom, List.map_cons, List.nodup_cons]
    refine ⟨?_, nodup_tagFrom bs (i + 1)⟩
    intro h
    obtain ⟨j, hj, e⟩ := mem_tagFrom_tags bs (i + 1) _ h
    cases e; omega

theorem map_snd_tagFrom : ∀ (bs : List Batch) (i : Nat), (tagFrom i bs).map (·.2) = bs
  | [], _ => rfl
  | b :: bs, i => by simp [tagFrom, map_snd_tagFrom bs (i + 1)]

theorem nodup_ctor_tags (ctor : Batch) (bs : List Batch) :
    (((none, ctor) :: tagFrom 0 bs).map (·.1)).Nodup := by
  simp only [List.map_cons, List.nodup_cons]
  refine ⟨?_, nodup_tagFrom bs 0⟩
  intro h
  obtain ⟨j, _, e⟩ := mem_tagFrom_tags bs 0 _ h
  cases e

/-! ## 3. one call -/

/-- current names of a tracking table -/
def curs (t : List (Name × Name)) : List Name := t.map (·.2)
/-- original names of a tracking table -/
def origs (t : List (Name × Name)) : List Name := t.map (·.1)

theorem curs_trackStep (t : List (Name × Name)) (b : Batch) :
    curs (trackStep t b) = applyBatch (curs t) b := by
  simp [curs, trackStep, applyBatch, List.map_map, Function.comp_def]

theorem origs_trackStep (t : List (Name × Name)) (b : Batch) :
    origs (trackStep t b) = origs t := by
  simp [origs, trackStep, List.map_map, Function.comp_def]

theorem revUpdates_entriesOf (m : AL Name) (k : RKind) (id : Option Nat) (b : Batch) :
    revUpdates m (entriesOf k id b) = AL.merge [] (b.map fun q => (q.2, look m q.1)) := by
  unfold revUpdates entriesOf AL.merge
  rw [List.foldl_map, List.foldl_map]

theorem fwdUpdates_entriesOf (m : AL Name) (k : RKind) (id : Option Nat) (b : Batch) :
    fwdUpdates m (entriesOf k id b)
      = AL.merge [] (b.map fun q => ((keyOfVal m q.1).getD q.1, q.2)) := by
  unfold fwdUpdates entriesOf AL.merge
  rw [List.foldl_map, List.foldl_map]

/-- reverse-map invariant: current names distinct, and the map sends each current name to its
original (stale keys are unconstrained) -/
def RInv (t : List (Name × Name)) (m : AL Name) : Prop :=
  (curs t).Nodup ∧ ∀ p ∈ t, look m p.2 = p.1

theorem trackStep_inj (t : List (Name × Name)) (b : Batch) (hv : ValidBatch (curs t) b)
    (p : Name × Name) (hp : p ∈ t) (q : Name × Name) (hq : q ∈ t)
    (he : look b q.2 = look b p.2) : q = p := by
  have hnd := hv.2.2
  unfold applyBatch curs at hnd
  rw [List.map_map] at hnd
  exact inj_of_nodup_map _ t hnd q hq p hp (by simpa using he)

theorem rinv_step (t : List (Name × Name)) (m : AL Name) (k : RKind) (id : Option Nat) (b : Batch)
    (hI : RInv t m) (hv : ValidBatch (curs t) b) :
    RInv (trackStep t b) (revGroup m (entriesOf k id b)) := by
  refine ⟨by rw [curs_trackStep]; exact hv.2.2, ?_⟩
  intro p' hp'
  obtain ⟨p, hp, rfl⟩ := List.mem_map.mp hp'
  show look (revGroup m (entriesOf k id b)) (look b p.2) = p.1
  unfold revGroup
  rw [revUpdates_entriesOf]
  have hupd_nd : (AL.keys (AL.merge [] (b.map fun q => (q.2, look m q.1)))).Nodup :=
    AL.nodup_keys_merge _ _ (by simp [AL.keys])
  rw [look_eq, AL.get?_merge _ _ hupd_nd]
  cases hu : AL.get? (AL.merge [] (b.map fun q => (q.2, look m q.1))) (look b p.2) with
  | none =>
    obtain ⟨hnone, _⟩ := AL.get?_merge_none _ _ _ hu
    have hnot : ∀ q ∈ b, q.1 ≠ p.2 := by
      intro q hq e
      have h1 : look b q.1 = q.2 := look_of_mem b hv.2.1 q hq
      have := hnone (q.2, look m q.1) (List.mem_map.mpr ⟨q, hq, rfl⟩)
      apply this
      show q.2 = look b p.2
      rw [← e, h1]
    have h2 : look b p.2 = p.2 := look_not_old b p.2 hnot
    rw [h2]
    simp only [Option.none_or]
    exact hI.2 p hp
  | some v =>
    simp only [Option.some_or, Option.getD_some]
    rcases AL.get?_merge_some _ _ _ _ hu with ⟨kv, hkv, h1, h2⟩ | h
    · obtain ⟨q, hq, rfl⟩ := List.mem_map.mp hkv
      simp only at h1 h2
      have hqc : q.1 ∈ curs t := hv.1 q hq
      obtain ⟨r, hr, hr2⟩ := List.mem_map.mp hqc
      have h3 : look b q.1 = q.2 := look_of_mem b hv.2.1 q hq
      have h4 : look b r.2 = look b p.2 := by rw [hr2, h3, h1]
      have := trackStep_inj t b hv p hp r hr h4
      subst this
      rw [← h2, ← hr2]
      exact hI.2 r hr
    · simp at h

/-- forward-map invariant -/
def FInv (t : List (Name × Name)) (m : AL Name) : Prop :=
  (curs t).Nodup ∧ (origs t).Nodup ∧ (AL.keys m).Nodup ∧
    (∀ p ∈ t, look m p.1 = p.2) ∧ (∀ k ∈ AL.keys m, k ∈ origs t)

theorem keyOfVal_some (m : AL Name) (x k : Name) (h : keyOfVal m x = some k) : (k, x) ∈ m := by
  induction m with
  | nil => simp [keyOfVal] at h
  | cons hd t ih =>
    obtain ⟨a, v⟩ := hd
    by_cases hv : v = x
    · simp only [keyOfVal, hv, if_true, Option.some.injEq] at h
      subst h; subst hv; exact List.mem_cons_self ..
    · simp only [keyOfVal, hv, if_false] at h
      exact List.mem_cons_of_mem _ (ih h)

theorem keyOfVal_none (m : AL Name) (x : Name) (h : keyOfVal m x = none) :
    ∀ kv ∈ m, kv.2 ≠ x := by
  induction m with
  | nil => intro _ hm; cases hm
  | cons hd t ih =>
    obtain ⟨a, v⟩ := hd
    by_cases hv : v = x
    · simp [keyOfVal, hv] at h
    · simp only [keyOfVal, hv, if_false] at h
      intro kv hm
      rcases List.mem_cons.mp hm with e | hm'
      · subst e; exact hv
      · exact ih h kv hm'

/-- the key `_build_forward_rename_map` picks for an entry whose old name is the current name of
`r` is `r`'s original name -/
theorem fwd_key (t : List (Name × Name)) (m : AL Name) (hI : FInv t m)
    (r : Name × Name) (hr : r ∈ t) : (keyOfVal m r.2).getD r.2 = r.1 := by
  obtain ⟨hc, _, hk, hlook, hkeys⟩ := hI
  cases hkv : keyOfVal m r.2 with
  | some k =>
    simp only [Option.getD_some]
    have hmem := keyOfVal_some m r.2 k hkv
    have hget : AL.get? m k = some r.2 := AL.get?_of_mem m hk k r.2 hmem
    have hko : k ∈ origs t := hkeys k (AL.mem_keys_of_get? m k r.2 hget)
    obtain ⟨r', hr', e⟩ := List.mem_map.mp hko
    have h1 : look m r'.1 = r'.2 := hlook r' hr'
    rw [look_eq, e, hget] at h1
    simp only [Option.getD_some] at h1
    have : r' = r := inj_of_nodup_map (fun x : Name × Name => x.2) t hc r' hr' r hr h1.symm
    rw [← e, this]
  | none =>
    simp only [Option.getD_none]
    have hno := keyOfVal_none m r.2 hkv
    have h1 : look m r.1 = r.2 := hlook r hr
    cases hg : AL.get? m r.1 with
    | none => rw [look_eq, hg] at h1; exact h1.symm
    | some v =>
      rw [look_eq, hg] at h1
      simp only [Option.getD_some] at h1
      exact absurd h1 (hno (r.1, v) (AL.mem_of_get? m r.1 v hg))

theorem finv_step (t : List (Name × Name)) (m : AL Name) (k : RKind) (id : Option Nat) (b : Batch)
    (hI : FInv t m) (hv : ValidBatch (curs t) b) :
    FInv (trackStep t b) (fwdGroup m (entriesOf k id b)) := by
  have hI' := hI
  obtain ⟨hc, ho, hk, hlook, hkeys⟩ := hI
  unfold fwdGroup
  rw [fwdUpdates_entriesOf]
  have hupd_nd : (AL.keys (AL.merge [] (b.map fun q => ((keyOfVal m q.1).getD q.1, q.2)))).Nodup :=
    AL.nodup_keys_merge _ _ (by simp [AL.keys])
  -- every old name of the call is the current name of some row
  have hrow : ∀ q ∈ b, ∃ r ∈ t, r.2 = q.1 ∧ (keyOfVal m q.1).getD q.1 = r.1 := by
    intro q hq
    obtain ⟨r, hr, hr2⟩ := List.mem_map.mp (hv.1 q hq)
    exact ⟨r, hr, hr2, by rw [← hr2]; exact fwd_key t m hI' r hr⟩
  refine ⟨by rw [curs_trackStep]; exact hv.2.2, by rw [origs_trackStep]; exact ho,
    AL.nodup_keys_merge _ _ hk, ?_, ?_⟩
  · intro p' hp'
    obtain ⟨p, hp, rfl⟩ := List.mem_map.mp hp'
    show look _ p.1 = look b p.2
    rw [look_eq, AL.get?_merge _ _ hupd_nd]
    cases hu : AL.get? (AL.merge [] (b.map fun q => ((keyOfVal m q.1).getD q.1, q.2))) p.1 with
    | none =>
      obtain ⟨hnone, _⟩ := AL.get?_merge_none _ _ _ hu
      have hnot : ∀ q ∈ b, q.1 ≠ p.2 := by
        intro q hq e
        obtain ⟨r, hr, hr2, hr1⟩ := hrow q hq
        have : r = p := inj_of_nodup_map (fun x : Name × Name => x.2) t hc r hr p hp (by rw [hr2, e])
        subst this
        exact hnone ((keyOfVal m q.1).getD q.1, q.2) (List.mem_map.mpr ⟨q, hq, rfl⟩) hr1
      rw [look_not_old b p.2 hnot]
      simp only [Option.none_or]
      exact hlook p hp
    | some v =>
      simp only [Option.some_or, Option.getD_some]
      rcases AL.get?_merge_some _ _ _ _ hu with ⟨kv, hkv, h1, h2⟩ | h
      · obtain ⟨q, hq, rfl⟩ := List.mem_map.mp hkv
        simp only at h1 h2
        obtain ⟨r, hr, hr2, hr1⟩ := hrow q hq
        have : r = p := inj_of_nodup_map (fun x : Name × Name => x.1) t ho r hr p hp (by rw [← hr1, h1])
        subst this
        rw [hr2, look_of_mem b hv.2.1 q hq, h2]
      · simp at h
  · intro x hx
    rw [origs_trackStep]
    rcases (AL.mem_keys_merge _ _ x).mp hx with hx | hx
    · exact hkeys x hx
    · obtain ⟨kv, hkv, e⟩ := List.mem_map.mp hx
      have hkv' : kv.1 ∈ AL.keys (AL.merge [] (b.map fun q => ((keyOfVal m q.1).getD q.1, q.2))) :=
        List.mem_map.mpr ⟨kv, hkv, rfl⟩
      rcases (AL.mem_keys_merge _ _ kv.1).mp hkv' with h | h
      · simp [AL.keys] at h
      · obtain ⟨kv2, hkv2, e2⟩ := List.mem_map.mp h
        obtain ⟨q, hq, rfl⟩ := List.mem_map.mp hkv2
        obtain ⟨r, hr, _, hr1⟩ := hrow q hq
        rw [← e, ← e2]
        show (keyOfVal m q.1).getD q.1 ∈ origs t
        rw [hr1]
        exact List.mem_map.mpr ⟨r, hr, rfl⟩

/-! ## 4. a whole sequence of calls -/

theorem rinv_fold (k : RKind) : ∀ (tb : List (Option Nat × Batch)) (t : List (Name × Name))
    (m : AL Name), RInv t m → ValidFrom (curs t) (tb.map (·.2)) →
    RInv ((tb.map (·.2)).foldl trackStep t)
      (tb.foldl (fun m x => revGroup m (entriesOf k x.1 x.2)) m)
  | [], _, _, hI, _ => hI
  | x :: tb, t, m, hI, hv => by
    simp only [List.map_cons, List.foldl_cons]
    obtain ⟨hb, hrest⟩ := hv
    apply rinv_fold k tb _ _ (rinv_step t m k x.1 x.2 hI hb)
    rw [curs_trackStep]; exact hrest

theorem finv_fold (k : RKind) : ∀ (tb : List (Option Nat × Batch)) (t : List (Name × Name))
    (m : AL Name), FInv t m → ValidFrom (curs t) (tb.map (·.2)) →
    FInv ((tb.map (·.2)).foldl trackStep t)
      (tb.foldl (fun m x => fwdGroup m (entriesOf k x.1 x.2)) m)
  | [], _, _, hI, _ => hI
  | x :: tb, t, m, hI, hv => by
    simp only [List.map_cons, List.foldl_cons]
    obtain ⟨hb, hrest⟩ := hv
    apply finv_fold k tb _ _ (finv_step t m k x.1 x.2 hI hb)
    rw [curs_trackStep]; exact hrest

theorem curs_init (orig : List Name) : curs (orig.map fun n => (n, n)) = orig := by
  simp [curs, List.map_map, Function.comp_def]
theorem origs_init (orig : List Name) : origs (orig.map fun n => (n, n)) = orig := by
  simp [origs, List.map_map, Function.comp_def]

theorem rinv_init (orig : List Name) (h : orig.Nodup) : RInv (orig.map fun n => (n, n)) [] := by
  refine ⟨by rw [curs_init]; exact h, ?_⟩
  intro p hp
  obtain ⟨n, _, rfl⟩ := List.mem_map.mp hp
  simp [look_eq]

theorem finv_init (orig : List Name) (h : orig.Nodup) : FInv (orig.map fun n => (n, n)) [] := by
  refine ⟨by rw [curs_init]; exact h, by rw [origs_init]; exact h, by simp [AL.keys], ?_, ?_⟩
  · intro p hp
    obtain ⟨n, _, rfl⟩ := List.mem_map.mp hp
    simp [look_eq]
  · intro k hk; simp [AL.keys] at hk

/-- Reverse map of any history whose calls carry pairwise distinct batch ids. -/
theorem rinv_tagged (orig : List Name) (k : RKind) (tb : List (Option Nat × Batch))
    (hnd : (tb.map (·.1)).Nodup) (hv : Valid orig (tb.map (·.2))) :
    RInv (track orig (tb.map (·.2))) (reverseMap (historyTagged k tb) k) := by
  unfold reverseMap track
  rw [processGroups_tagged revGroup revGroup_nil k tb hnd]
  apply rinv_fold k tb _ _ (rinv_init orig hv.1)
  rw [curs_init]; exact hv.2

theorem finv_tagged (orig : List Name) (k : RKind) (tb : List (Option Nat × Batch))
    (hnd : (tb.map (·.1)).Nodup) (hv : Valid orig (tb.map (·.2))) :
    FInv (track orig (tb.map (·.2))) (forwardMapK (historyTagged k tb) k) := by
  unfold forwardMapK track
  rw [processGroups_tagged fwdGroup fwdGroup_nil k tb hnd]
  apply finv_fold k tb _ _ (finv_init orig hv.1)
  rw [curs_init]; exact hv.2

theorem rinv_historyOf (orig : List Name) (k : RKind) (bs : List Batch) (hv : Valid orig bs) :
    RInv (track orig bs) (reverseMap (historyOf bs k) k) := by
  have := rinv_tagged orig k (tagFrom 0 bs) (nodup_tagFrom bs 0) (by rw [map_snd_tagFrom]; exact hv)
  rw [map_snd_tagFrom] at this
  exact this

theorem finv_historyOf (orig : List Name) (k : RKind) (bs : List Batch) (hv : Valid orig bs) :
    FInv (track orig bs) (forwardMapK (historyOf bs k) k) := by
  have := finv_tagged orig k (tagFrom 0 bs) (nodup_tagFrom bs 0) (by rw [map_snd_tagFrom]; exact hv)
  rw [map_snd_tagFrom] at this
  exact this

theorem rinv_historyOfCtor (orig : List Name) (k : RKind) (ctor : Batch) (bs : List Batch)
    (hv : Valid orig (ctor :: bs)) :
    RInv (track orig (ctor :: bs)) (reverseMap (historyOfCtor ctor bs k) k) := by
  have := rinv_tagged orig k ((none, ctor) :: tagFrom 0 bs) (nodup_ctor_tags ctor bs)
    (by simp only [List.map_cons, map_snd_tagFrom]; exact hv)
  simp only [List.map_cons, map_snd_tagFrom] at this
  exact this

theorem finv_historyOfCtor (orig : List Name) (k : RKind) (ctor : Batch) (bs : List Batch)
    (hv : Valid orig (ctor :: bs)) :
    FInv (track orig (ctor :: bs)) (forwardMapK (historyOfCtor ctor bs k) k) := by
  have := finv_tagged orig k ((none, ctor) :: tagFrom 0 bs) (nodup_ctor_tags ctor bs)
    (by simp only [List.map_cons, map_snd_tagFrom]; exact hv)
  simp only [List.map_cons, map_snd_tagFrom] at this
  exact this

/-! ## tracking table in closed form -/

/-- current name of `n` after the calls -/
def curName (bs : List Batch) (n : Name) : Name := bs.foldl (fun x b => look b x) n

theorem foldl_trackStep (bs : List Batch) : ∀ (t : List (Name × Name)),
    bs.foldl trackStep t = t.map fun p => (p.1, curName bs p.2) := by
  induction bs with
  | nil => intro t; simp [curName]
  | cons b bs ih =>
    intro t
    simp only [List.foldl_cons, ih, trackStep, List.map_map, curName]
    rfl

theorem track_eq (orig : List Name) (bs : List Batch) :
    track orig bs = orig.map fun n => (n, curName bs n) := by
  unfold track
  rw [foldl_trackStep, List.map_map]
  rfl

theorem current_eq (l : List Name) (bs : List Batch) : current l bs = l.map (curName bs) := by
  unfold current
  induction bs generalizing l with
  | nil => show l = l.map id; simp
  | cons b bs ih =>
    simp only [List.foldl_cons, ih, applyBatch, List.map_map]
    rfl

theorem curs_track (orig : List Name) (bs : List Batch) : curs (track orig bs) = current orig bs := by
  rw [track_eq, current_eq]; simp [curs, List.map_map, Function.comp_def]

theorem origs_track (orig : List Name) (bs : List Batch) : origs (track orig bs) = orig := by
  rw [track_eq]; simp [origs, List.map_map, Function.comp_def]

end Rename
end HG
