import HG.Lemmas.NestRename
/-! # HG.Lemmas.NestDepth — helpers for C05, part 8: nesting inside nesting

The Tier-2 development generalised from "all nodes are function nodes" to "all nodes are well-behaved"
(`GoodNodes`: function nodes, or nested-graph nodes that behave like total functions). This makes the
inlining step compositional: the inner graph of a wrapper may itself contain wrappers. -/
namespace HG.Nest
open HG HG.C01 HG.Intr

/-! ## function nodes under the wrapper semantics -/

theorem holds_fn_nestSem {sem : Sem} {nested : Nested} {g : GraphD} {st : GState} {n : NodeD}
    (hk : n.kind ≠ .graph) (h : Holds sem g st n) : Holds (nestSem sem nested) g st n := by
  obtain ⟨a, v, o, hc, hv, hw, hval⟩ := h
  exact ⟨a, v, o, hc, by rw [nestSem_fn sem nested n hk]; exact hv, hw, hval⟩

/-- `Holds` only looks at the node, the graph's bound values and the state -/
theorem holds_graph_congr {sem : Sem} {g g' : GraphD} (hb : g.spec.bound = g'.spec.bound) {st : GState} {n : NodeD}
    (h : Holds sem g st n) : Holds sem g' st n := by
  obtain ⟨a, v, o, hc, hv, hw, hval⟩ := h
  refine ⟨a, v, o, ?_, hv, hw, hval⟩
  rw [← hc]
  have : ∀ ps, collectInputs g' st n ps = collectInputs g st n ps := by
    intro ps
    induction ps with
    | nil => rfl
    | cons p ps ih =>
      unfold collectInputs
      have : resolveInput g' st n p = resolveInput g st n p := by
        unfold resolveInput valueSource; rw [hb]
      rw [this, ih]
  exact this _

theorem goodNodes_fn_nest (nested nested' : Nested) (sem : Sem) (gi : Nat) (g : GraphD) (hfn : AllFn g)
    (hs : SemTotal sem g) :
    GoodNodes nested sem (nestSem sem nested') gi g ∧ SemTotal (nestSem sem nested') g := by
  have hst : SemTotal (nestSem sem nested') g := by
    intro nd hn args
    rw [nestSem_fn sem nested' nd (by rw [hfn nd hn]; decide)]
    exact hs nd hn args
  refine ⟨?_, hst⟩
  intro nd hn s args _ ns sp
  obtain ⟨v, hv, hw⟩ := outsOf_spec hst hn args
  exact execNode_fn_good nested sem _ gi nd args ns sp (hfn nd hn)
    (nestSem_fn sem nested' nd (by rw [hfn nd hn]; decide) _).symm v hv hw

/-! ## the values of a run never contain the emit sentinel -/

theorem filterOutputs_noSentinel (g : GraphD) (s : GState) (sel : Select) (om : OnMissing) (vals : AL Val) (w : Nat)
    (h : filterOutputs g s sel om = .ok (vals, w)) : ∀ kv ∈ vals, kv.2 ≠ Val.sentinel := by
  cases he : effectiveSelect g sel with
  | none =>
    rw [filterOutputs_none g s sel om he] at h
    injection h with h; injection h with h1 _
    subst h1
    intro kv hkv
    obtain ⟨a, _, ha⟩ := List.mem_filterMap.1 hkv
    obtain ⟨k, v⟩ := kv
    exact (outStep_some s a k v ha).2.2
  | some names =>
    have := filterOutputs_some_ok g s sel om names he vals w h
    subst this
    intro kv hkv
    exact (selFold_sound s names names [] (fun _ h => h) (fun _ h => by cases h) kv hkv).2.1

theorem partialValues_noSentinel (g : GraphD) (ps : GState) (sel : Select) :
    ∀ kv ∈ partialValues g ps sel, kv.2 ≠ Val.sentinel := by
  unfold partialValues
  cases h : filterOutputs g ps sel .ignore with
  | error e => intro kv hkv; cases hkv
  | ok r =>
    obtain ⟨v, w⟩ := r
    exact filterOutputs_noSentinel g ps sel .ignore v w h

theorem runGraph_values_noSentinel (nested : Nested) (sem : Sem) (runner : Runner) (gi : Nat) (g : GraphD)
    (values : AL Val) (cfg : RunCfg) (span : Span) (parent : Option Span) :
    ∀ kv ∈ (runGraph nested sem runner gi g values cfg span parent).values, kv.2 ≠ Val.sentinel := by
  rw [runGraph_eq]
  cases runGraphLoop nested sem runner gi g values cfg span parent with
  | done s log n =>
    simp only [finishRun]
    cases h : filterOutputs g s cfg.select cfg.onMissing with
    | ok r =>
      obtain ⟨v, w⟩ := r
      exact filterOutputs_noSentinel g s _ _ v w h
    | error e =>
      cases cfg.errMode <;> (intro kv hkv; cases hkv)
  | fail e ps log n =>
    simp only [finishRun]
    cases cfg.errMode
    · intro kv hkv; cases hkv
    · exact partialValues_noSentinel g ps cfg.select
  | pause p ps log n =>
    exact partialValues_noSentinel g ps cfg.select

theorem nestedAt_values_noSentinel (sem : Sem) (runner : Runner) (prog : Program) (d gi : Nat) (values : AL Val)
    (sp : Span) : ∀ kv ∈ ((nestedAt sem runner prog d).run gi values sp).values, kv.2 ≠ Val.sentinel := by
  cases d with
  | zero => intro kv hkv; cases hkv
  | succ d => exact runGraph_values_noSentinel _ _ _ _ _ _ _ _ _

theorem renameOutputs_noSentinel (nd : NodeD) (vals : AL Val) (h : ∀ kv ∈ vals, kv.2 ≠ Val.sentinel) :
    ∀ kv ∈ renameOutputs nd vals, kv.2 ≠ Val.sentinel := by
  unfold renameOutputs
  apply Spec.foldl_inv (fun acc : AL Val => ∀ kv ∈ acc, kv.2 ≠ Val.sentinel)
  · intro kv hkv; cases hkv
  · intro acc kv hkv hacc x hx
    rcases AL.mem_put acc _ kv.2 x hx with h' | h'
    · exact hacc x h'
    · rw [h']; exact h kv hkv

/-- the wrapper, as a virtual function, never returns the sentinel -/
theorem nestSem_noSentinel_graph (sem : Sem) (runner : Runner) (prog : Program) (d : Nat) (nd : NodeD)
    (hk : nd.kind = .graph) (he : nd.emits = []) (hd : nd.dataOuts.Nodup) (args : AL Val) (v : Val) (outs : AL Val)
    (hv : nestSem sem (nestedAt sem runner prog d) nd args = .val v) (hw : wrapOutputs nd v = some outs) :
    ∀ o w, AL.get? outs o = some w → w ≠ Val.sentinel := by
  rw [nestSem_graph _ _ _ hk] at hv
  injection hv with hv
  subst hv
  rw [wrapOutputs_packOuts nd _ he hd] at hw
  injection hw with hw
  subst hw
  intro o w hget
  rw [get?_map_pair] at hget
  split at hget
  · injection hget with hget
    subst hget
    cases hg : AL.get? (renameOutputs nd ((nestedAt sem runner prog d).run nd.inner args []).values) o with
    | none => simp
    | some x =>
      simp only [Option.getD_some]
      exact renameOutputs_noSentinel nd _ (nestedAt_values_noSentinel sem runner prog d nd.inner args []) (o, x)
        (AL.mem_of_get?₁ _ _ _ hg)
  · cases hget

/-! ## the outer graph, with a well-behaved inner graph -/

section gen
variable {s : NodeSpec} {I O : GraphD} {pre post : List NodeD}

/-- outer function nodes -/
structure OuterFn (sem : Sem) (pre post : List NodeD) : Prop where
  kind : ∀ n ∈ pre ++ post, n.kind = .fn
  total : ∀ n ∈ pre ++ post, ∀ args, ∃ v outs, sem n args = .val v ∧ wrapOutputs n v = some outs

theorem memO_of (hO : O.nodes = pre ++ elabGraphNode s I :: post) (n : NodeD) :
    n ∈ O.nodes ↔ n ∈ pre ++ post ∨ n = elabGraphNode s I := by
  rw [hO]
  simp only [List.mem_append, List.mem_cons]
  constructor
  · rintro (h | h | h)
    · exact Or.inl (Or.inl h)
    · exact Or.inr h
    · exact Or.inl (Or.inr h)
  · rintro ((h | h) | h)
    · exact Or.inl h
    · exact Or.inr (Or.inr h)
    · exact Or.inr (Or.inl h)

theorem outer_semTotal_gen {sem : Sem} (nested : Nested) (hO : O.nodes = pre ++ elabGraphNode s I :: post)
    (hplain : Plain s) (hsel : I.selected = .none) (hfn : OuterFn sem pre post) :
    SemTotal (nestSem sem nested) O := by
  intro nd hnd args
  rcases (memO_of hO nd).1 hnd with h | h
  · rw [nestSem_fn sem nested nd (by rw [hfn.kind nd h]; decide)]
    exact hfn.total nd h args
  · subst h
    exact nestSem_total_graph sem nested _ rfl rfl
      (by rw [plain_dataOuts hplain hsel]; exact dedup_nodup _) args

/-- inductive step for depth: if the nodes of `I` are well-behaved under the depth-`d` runner, the nodes of the
outer graph `O = pre ++ W :: post` are well-behaved under the depth-`d+1` runner -/
theorem outer_goodNodes_gen {sem : Sem} {prog : Program} {d : Nat} {levelI : Name → Nat}
    (hO : O.nodes = pre ++ elabGraphNode s I :: post) (hplain : Plain s) (hsel : I.selected = .none)
    (hI : prog.getD s.inner default = I) (hfn : OuterFn sem pre post)
    (hWI : WFI I levelI) (semI : Sem)
    (hgoodI : GoodNodes (nestedAt sem .sync prog d) sem semI s.inner I) (hsI : SemTotal semI I)
    (hnsI : NoSentinel semI I) (hok : InnerOK I) (hnd : I.spec.all.Nodup)
    (hepI : I.entrypoints = .none) (hfuelI : I.nodes.length ≤ ({} : RunCfg).maxIter) (gi : Nat) :
    GoodNodes (nestedAt sem .sync prog (d + 1)) sem (nestSem sem (nestedAt sem .sync prog (d + 1))) gi O := by
  have hsO := outer_semTotal_gen (sem := sem) (nestedAt sem .sync prog (d + 1)) hO hplain hsel hfn
  intro nd hnd' st args hc ns sp
  rcases (memO_of hO nd).1 hnd' with h | h
  · obtain ⟨v, hv, hw⟩ := outsOf_spec hsO hnd' args
    exact execNode_fn_good _ sem _ gi nd args ns sp (hfn.kind nd h)
      (nestSem_fn sem _ nd (by rw [hfn.kind nd h]; decide) _).symm v hv hw
  · subst h
    have hexec : execNode (nestedAt sem .sync prog (d + 1)) sem gi (elabGraphNode s I) args ns sp =
        execGraphNode (nestedAt sem .sync prog (d + 1)) (elabGraphNode s I) args sp := rfl
    rw [hexec]
    obtain ⟨h1, h2, h3, _⟩ := graphnode_good_gen sem prog d s I levelI hI hplain.mapOver hWI semI hgoodI hsI hnsI
      hok hsel hepI hfuelI
      (by rw [hplain.inRen, map_renameOf_nil]; exact hnd)
      (by rw [hplain.outRen, map_renameOf_nil]; unfold exposed; rw [hsel]; exact dedup_nodup _)
      args (collectInputs_keys hc) sp
    exact ⟨h1, h2, h3⟩

/-- … and the outer graph's virtual functions do not return the sentinel either -/
theorem outer_noSentinel_gen {sem : Sem} (prog : Program) (d : Nat)
    (hO : O.nodes = pre ++ elabGraphNode s I :: post) (hplain : Plain s) (hsel : I.selected = .none)
    (hfn : OuterFn sem pre post)
    (hns : ∀ n ∈ pre ++ post, ∀ args v outs, sem n args = .val v → wrapOutputs n v = some outs →
      ∀ o w, AL.get? outs o = some w → w ≠ Val.sentinel) :
    NoSentinel (nestSem sem (nestedAt sem .sync prog d)) O := by
  intro nd hnd args v outs hv hw
  rcases (memO_of hO nd).1 hnd with h | h
  · rw [nestSem_fn sem _ nd (by rw [hfn.kind nd h]; decide)] at hv
    exact hns nd h args v outs hv hw
  · subst h
    exact nestSem_noSentinel_graph sem .sync prog d _ rfl rfl
      (by rw [plain_dataOuts hplain hsel]; exact dedup_nodup _) args v outs hv hw

/-- … and its virtual functions at two depths are interchangeable on the arguments a node collects (depth
independence), provided those of the inner graph are -/
theorem outer_conv_gen {sem : Sem} {prog : Program} {d d' : Nat} {levelI : Name → Nat}
    (hO : O.nodes = pre ++ elabGraphNode s I :: post) (hplain : Plain s) (hsel : I.selected = .none)
    (hI : prog.getD s.inner default = I) (hfn : OuterFn sem pre post)
    (hWI : WFI I levelI) (semI semI' : Sem)
    (hgoodI : GoodNodes (nestedAt sem .sync prog d) sem semI s.inner I) (hsI : SemTotal semI I)
    (hnsI : NoSentinel semI I)
    (hgoodI' : GoodNodes (nestedAt sem .sync prog d') sem semI' s.inner I) (hsI' : SemTotal semI' I)
    (hnsI' : NoSentinel semI' I)
    (hconv : ∀ n ∈ I.nodes, ∀ st, Holds semI I st n → Holds semI' I st n)
    (hok : InnerOK I) (hnd : I.spec.all.Nodup)
    (hepI : I.entrypoints = .none) (hfuelI : I.nodes.length ≤ ({} : RunCfg).maxIter) :
    ∀ n ∈ O.nodes, ∀ st, Holds (nestSem sem (nestedAt sem .sync prog (d + 1))) O st n →
      Holds (nestSem sem (nestedAt sem .sync prog (d' + 1))) O st n := by
  intro n hn st h
  rcases (memO_of hO n).1 hn with hf | hw
  · exact holds_fn_nestSem (by rw [hfn.kind n hf]; decide)
      (holds_nestSem_fn (by rw [hfn.kind n hf]; decide) h)
  · subst hw
    obtain ⟨a, v, o, hc, hv, hwr, hval⟩ := h
    refine ⟨a, v, o, hc, ?_, hwr, hval⟩
    rw [nestSem_graph _ _ _ rfl] at hv ⊢
    rw [← hv]
    have hk : AL.keys a = (elabGraphNode s I).inputs := collectInputs_keys hc
    obtain ⟨hk1, _, _⟩ := toParams_elab s I (by rw [hplain.inRen, map_renameOf_nil]; exact hnd) a hk
    have hkeys : ∀ k, AL.has (toParams (elabGraphNode s I) a) k = true ↔ k ∈ I.spec.all := by
      intro k; rw [← AL.mem_keys_iff_has, hk1]
    have hinner : (elabGraphNode s I).inner = s.inner := rfl
    rw [hinner, ← inner_run_values_depth sem prog d d' s.inner I levelI hI hWI semI semI' hgoodI hsI hnsI
      hgoodI' hsI' hnsI' hconv hok hsel hepI hfuelI (toParams (elabGraphNode s I) a) hkeys [] []]
end gen

/-! ## the inlining step with a well-behaved (not necessarily flat) inner graph -/

/-- the compositional form of `nest_values_core`: the nodes of the inner graph `I` — and hence those of the
"flat" graph `G = pre ++ I.nodes ++ post` — need not be function nodes, only well-behaved (`GoodNodes`) with
depth-independent virtual functions (`hconvI`). The outer nodes `pre ++ post` are function nodes. -/
theorem nest_values_core_gen (sem : Sem) (prog : Program) (d : Nat) (s : NodeSpec) (I O G : GraphD)
    (pre post : List NodeD) (levelG levelO : Name → Nat) (nestedG : Nested) (giO giG : Nat)
    (spanO spanG : Span) (mi : Nat) (log₀ log₁ : List Log)
    (L : Layout s I O G pre post) (hI : prog.getD s.inner default = I)
    (hWG : WFI G levelG)
    (hgoodG : GoodNodes nestedG sem (nestSem sem nestedG) giG G) (hsG : SemTotal (nestSem sem nestedG) G)
    (hfn : OuterFn sem pre post)
    (semI : Sem) (hgoodI : GoodNodes (nestedAt sem .sync prog d) sem semI s.inner I) (hsI : SemTotal semI I)
    (hnsI : NoSentinel semI I)
    (hconvI : ∀ n ∈ I.nodes, ∀ st, Holds semI I st n → Holds (nestSem sem nestedG) I st n)
    (hok : InnerOK I) (hcd : ConsistentDefaults I) (hnd : I.spec.all.Nodup)
    (hepI : I.entrypoints = .none) (hfuelI : I.nodes.length ≤ ({} : RunCfg).maxIter)
    (hWO : WFI O levelO)
    (values : AL Val) (hfresh : ∀ m ∈ G.nodes, ∀ o ∈ m.outputs, AL.has values o = false)
    (hcov : Covered G (initState values))
    (hfuelG : G.nodes.length ≤ mi) (hfuelO : O.nodes.length ≤ mi) :
    ∃ sO sG logO logG nO nG,
      runLoop (fun k st rs => stepSync (nestedAt sem .sync prog (d + 1)) sem giO O spanO k st rs st []) O .none
        mi mi 0 (initState values) log₀ = .done sO logO nO ∧
      runLoop (fun k st rs => stepSync nestedG sem giG G spanG k st rs st []) G .none
        mi mi 0 (initState values) log₁ = .done sG logG nG ∧
      (∀ k, AL.get? sO.values k = AL.get? sG.values k) := by
  obtain ⟨sG, logG, nG, hrunG, hstG, hholdG, _⟩ :=
    sync_run_holds hWG nestedG sem _ hsG giG spanG hgoodG values hfresh hcov mi hfuelG log₁
  have hsO := outer_semTotal_gen (sem := sem) (nestedAt sem .sync prog (d + 1)) L.onodes L.plain L.isel hfn
  have hWI := inner_wfi L hWG
  have hgoodO := outer_goodNodes_gen (d := d) L.onodes L.plain L.isel hI hfn hWI semI hgoodI hsI hnsI hok hnd
    hepI hfuelI giO
  obtain ⟨sO, logO, nO, hrunO, hstO, hholdO, _⟩ :=
    sync_run_holds hWO (nestedAt sem .sync prog (d + 1)) sem _ hsO giO spanO hgoodO values
      (outer_fresh L values hfresh) (outer_covered L hok _ hcov) mi hfuelO log₀
  -- the wrapper
  obtain ⟨argsW, vW, outsW, hcW, hvW, hwW, hvalW⟩ := hholdO _ L.wO
  obtain ⟨_, _, _, sI, hfix, hsome, houts⟩ := graphnode_good_gen sem prog d s I levelG hI L.plain.mapOver hWI
    semI hgoodI hsI hnsI hok L.isel hepI hfuelI
    (by rw [L.plain.inRen, map_renameOf_nil]; exact hnd)
    (by rw [L.plain.outRen, map_renameOf_nil]; unfold exposed; rw [L.isel]; exact dedup_nodup _)
    argsW (collectInputs_keys hcW) []
  have houtsW : outsW = outsOf (nestSem sem (nestedAt sem .sync prog (d + 1))) (elabGraphNode s I) argsW := by
    unfold outsOf; rw [hvW]; simp only; rw [hwW]; rfl
  have hWvals : ∀ o ∈ graphOutputs I.nodes, AL.get? sO.values o = AL.get? sI.values o := by
    intro o ho
    rw [hvalW o (by rw [plain_outputs L.plain L.isel]; exact ho), houtsW, houts, L.plain.outRen]
    have : (fun k => (renameOf [] k, (AL.get? sI.values k).getD Val.none)) =
        (fun k => (k, (AL.get? sI.values k).getD Val.none)) := rfl
    rw [this, get?_map_pair, if_pos ho]
    obtain ⟨v, hv, _⟩ := hsome o ho
    rw [hv]; rfl
  have hcomb := combine (sem := nestSem sem nestedG) L hWG.lt hok hcd hnd values hstG hstO hholdG
    (fun n hn => by
      have hnO : n ∈ O.nodes := by
        rcases List.mem_append.1 hn with h | h
        · exact (L.memO n).2 (Or.inl h)
        · exact (L.memO n).2 (Or.inr (Or.inr h))
      exact holds_fn_nestSem (by rw [hfn.kind n hn]; decide)
        (holds_nestSem_fn (by rw [hfn.kind n hn]; decide) (hholdO n hnO)))
    hcW ⟨hfix.1, fun n hn => hconvI n hn sI (hfix.2 n hn)⟩ hWvals
  exact ⟨sO, sG, logO, logG, nO, nG, hrunO, hrunG, fun k => (hcomb k).symm⟩

/-! ## two levels of nesting -/

theorem levelOuter_le (G I : GraphD) (wname : Name) (levelG : Name → Nat) (H : Nat) (nm : Name)
    (h : levelG nm ≤ H) : levelOuter G I wname levelG H nm ≤ 2 * H + 2 := by
  unfold levelOuter
  split
  · omega
  · split <;> omega

/-- C05.6 core: `O₂ ∋ W₂ ⟶ O₁ ∋ W₁ ⟶ I`. Inlining `W₂` gives `G₂` (which still contains `W₁`), inlining `W₁`
in `G₂` gives the flat graph `G`. The run of `O₂` (depth `d+2`) and the run of `G` agree on every name. All
hypotheses are on the flat graph, the two nested parts, shapes and bound values; everything about the
intermediate graphs is derived. -/
theorem nest_depth2_core (sem : Sem) (prog : Program) (d : Nat) (s₁ s₂ : NodeSpec) (I O₁ O₂ G₂ G : GraphD)
    (pre₁ post₁ pre₂ post₂ : List NodeD) (levelG : Name → Nat) (H : Nat) (nestedG : Nested)
    (gi₂ giG₂ giG : Nat) (span₂ spanG₂ spanG : Span) (mi : Nat) (log₀ log₁ log₂ : List Log)
    (hp₁ : Plain s₁) (hp₂ : Plain s₂)
    (hI : prog.getD s₁.inner default = I) (hI₂ : prog.getD s₂.inner default = O₁)
    (hO₁ : O₁.nodes = pre₁ ++ elabGraphNode s₁ I :: post₁)
    (hO₂ : O₂.nodes = pre₂ ++ elabGraphNode s₂ O₁ :: post₂)
    (hG₂ : G₂.nodes = pre₂ ++ O₁.nodes ++ post₂)
    (hG : G.nodes = (pre₂ ++ pre₁) ++ I.nodes ++ (post₁ ++ post₂))
    (hname₁ : ∀ n ∈ (pre₂ ++ pre₁) ++ (post₁ ++ post₂), n.name ≠ s₁.name)
    (hname₂ : ∀ n ∈ pre₂ ++ post₂, n.name ≠ s₂.name)
    (hGb : G.spec.bound = []) (hG₂b : G₂.spec.bound = []) (hO₂b : O₂.spec.bound = [])
    (hO₁b : O₁.spec.bound = []) (hIb : I.spec.bound = [])
    (hWG : WFI G levelG) (hfnG : AllFn G) (hsG : SemTotal sem G) (hnsG : NoSentinel sem G)
    (hleaf : ∀ n ∈ G.nodes, n.innerBound = []) (hH : ∀ n ∈ G.nodes, levelG n.name ≤ H)
    (hconv₁ : Convex G I.nodes) (hok₁ : InnerOK I) (hnd₁ : I.spec.all.Nodup) (hcd₁ : ConsistentDefaults I)
    (hsel₁ : I.selected = .none) (hep₁ : I.entrypoints = .none)
    (hfuel₁ : I.nodes.length ≤ ({} : RunCfg).maxIter)
    (hconv₂ : Convex G₂ O₁.nodes) (hok₂ : InnerOK O₁) (hnd₂ : O₁.spec.all.Nodup) (hcd₂ : ConsistentDefaults O₁)
    (hsel₂ : O₁.selected = .none) (hep₂ : O₁.entrypoints = .none)
    (hfuel₂ : O₁.nodes.length ≤ ({} : RunCfg).maxIter)
    (values : AL Val) (hfresh : ∀ m ∈ G.nodes, ∀ o ∈ m.outputs, AL.has values o = false)
    (hcov : Covered G (initState values))
    (hfuelG : G.nodes.length ≤ mi) (hfuelG₂ : G₂.nodes.length ≤ mi) (hfuelO₂ : O₂.nodes.length ≤ mi) :
    ∃ sO₂ sG₂ sG logO₂ logG₂ logG nO₂ nG₂ nG,
      runLoop (fun k st rs => stepSync (nestedAt sem .sync prog (d + 2)) sem gi₂ O₂ span₂ k st rs st []) O₂ .none
        mi mi 0 (initState values) log₀ = .done sO₂ logO₂ nO₂ ∧
      runLoop (fun k st rs => stepSync (nestedAt sem .sync prog (d + 2)) sem giG₂ G₂ spanG₂ k st rs st []) G₂ .none
        mi mi 0 (initState values) log₁ = .done sG₂ logG₂ nG₂ ∧
      runLoop (fun k st rs => stepSync nestedG sem giG G spanG k st rs st []) G .none
        mi mi 0 (initState values) log₂ = .done sG logG nG ∧
      (∀ k, AL.get? sO₂.values k = AL.get? sG₂.values k) ∧
      (∀ k, AL.get? sG₂.values k = AL.get? sG.values k) := by
  have hG₂' : G₂.nodes = (pre₂ ++ pre₁) ++ elabGraphNode s₁ I :: (post₁ ++ post₂) := by
    rw [hG₂, hO₁]; simp
  have L₁ : Layout s₁ I G₂ G (pre₂ ++ pre₁) (post₁ ++ post₂) := ⟨⟨hp₁, hG₂', hG, hsel₁⟩, hGb, hG₂b, hIb, hleaf⟩
  have hleaf₂ : ∀ n ∈ G₂.nodes, n.innerBound = [] := by
    intro n hn
    rcases L₁.casesO hn with h | h
    · subst h; exact elab_innerBound_nil hIb
    · exact hleaf n h.1
  have L₂ : Layout s₂ O₁ O₂ G₂ pre₂ post₂ := ⟨⟨hp₂, hO₂, hG₂, hsel₂⟩, hG₂b, hO₂b, hO₁b, hleaf₂⟩
  -- the intermediate and the outermost graph are well-formed
  have hlt₂ := outer_lt L₁.toShape hWG hok₁ hconv₁ H hH hname₁
  have hWG₂ := outer_wfi L₁ hWG hcd₁ hname₁ _ hlt₂
  have hH₂ : ∀ n ∈ G₂.nodes, levelOuter G I s₁.name levelG H n.name ≤ 2 * H + 2 := by
    intro n hn
    rcases L₁.casesO hn with h | h
    · subst h
      unfold levelOuter
      rw [if_pos (show (elabGraphNode s₁ I).name = s₁.name from rfl)]; omega
    · exact levelOuter_le G I s₁.name levelG H n.name (hH n h.1)
  have hltO₂ := outer_lt L₂.toShape hWG₂ hok₂ hconv₂ (2 * H + 2) hH₂ hname₂
  have hWO₂ := outer_wfi L₂ hWG₂ hcd₂ hname₂ _ hltO₂
  have hWI := inner_wfi L₁ hWG
  -- function nodes
  have hmemG : ∀ n ∈ (pre₂ ++ pre₁) ++ (post₁ ++ post₂), n ∈ G.nodes := by
    intro n hn
    rcases List.mem_append.1 hn with h | h
    · exact (L₁.memG n).2 (Or.inl h)
    · exact (L₁.memG n).2 (Or.inr (Or.inr h))
  have hfn₁' : OuterFn sem (pre₂ ++ pre₁) (post₁ ++ post₂) :=
    ⟨fun n hn => hfnG n (hmemG n hn), fun n hn => hsG n (hmemG n hn)⟩
  have hsub₁ : ∀ n ∈ pre₁ ++ post₁, n ∈ (pre₂ ++ pre₁) ++ (post₁ ++ post₂) := by
    intro n hn
    rcases List.mem_append.1 hn with h | h
    · exact List.mem_append_left _ (List.mem_append_right _ h)
    · exact List.mem_append_right _ (List.mem_append_left _ h)
  have hsub₂ : ∀ n ∈ pre₂ ++ post₂, n ∈ (pre₂ ++ pre₁) ++ (post₁ ++ post₂) := by
    intro n hn
    rcases List.mem_append.1 hn with h | h
    · exact List.mem_append_left _ (List.mem_append_left _ h)
    · exact List.mem_append_right _ (List.mem_append_right _ h)
  have hfn₁ : OuterFn sem pre₁ post₁ :=
    ⟨fun n hn => hfn₁'.kind n (hsub₁ n hn), fun n hn => hfn₁'.total n (hsub₁ n hn)⟩
  have hfn₂ : OuterFn sem pre₂ post₂ :=
    ⟨fun n hn => hfn₁'.kind n (hsub₂ n hn), fun n hn => hfn₁'.total n (hsub₂ n hn)⟩
  have hfnI : AllFn I := fun n hn => hfnG n (L₁.innerG hn)
  have hsI : SemTotal sem I := fun n hn => hsG n (L₁.innerG hn)
  have hnsI : NoSentinel sem I := fun n hn => hnsG n (L₁.innerG hn)
  -- step B: inline `W₁` in `G₂`
  obtain ⟨sG₂, sG, logG₂, logG, nG₂, nG, hrunG₂, hrunG, hB, _, _⟩ :=
    nest_values_core sem prog (d + 1) s₁ I G₂ G (pre₂ ++ pre₁) (post₁ ++ post₂) levelG _ nestedG giG₂ giG spanG₂
      spanG mi log₁ log₂ L₁ hI hWG hfnG hsG hnsI hok₁ hcd₁ hnd₁ hep₁ hfuel₁ hWG₂ values hfresh hcov hfuelG hfuelG₂
  -- step A: inline `W₂` in `O₂`
  have hgoodG₂ := outer_goodNodes_gen (d := d + 1) hG₂' hp₁ hsel₁ hI hfn₁' hWI sem
    (goodNodes_fn _ sem s₁.inner I hfnI hsI) hsI hnsI hok₁ hnd₁ hep₁ hfuel₁ giG₂
  have hsG₂ := outer_semTotal_gen (sem := sem) (nestedAt sem .sync prog (d + 1 + 1)) hG₂' hp₁ hsel₁ hfn₁'
  have hgoodO₁ := outer_goodNodes_gen (d := d) hO₁ hp₁ hsel₁ hI hfn₁ hWI sem
    (goodNodes_fn _ sem s₁.inner I hfnI hsI) hsI hnsI hok₁ hnd₁ hep₁ hfuel₁ s₂.inner
  have hsO₁ := outer_semTotal_gen (sem := sem) (nestedAt sem .sync prog (d + 1)) hO₁ hp₁ hsel₁ hfn₁
  have hnsO₁ := outer_noSentinel_gen (sem := sem) prog (d + 1) hO₁ hp₁ hsel₁ hfn₁
    (fun n hn => hnsG n (hmemG n (hsub₁ n hn)))
  have hconvO₁ := outer_conv_gen (d := d) (d' := d + 1) hO₁ hp₁ hsel₁ hI hfn₁ hWI sem sem
    (goodNodes_fn _ sem s₁.inner I hfnI hsI) hsI hnsI (goodNodes_fn _ sem s₁.inner I hfnI hsI) hsI hnsI
    (fun _ _ _ h => h) hok₁ hnd₁ hep₁ hfuel₁
  obtain ⟨sO₂, sG₂', logO₂, logG₂', nO₂, nG₂', hrunO₂, hrunG₂', hA⟩ :=
    nest_values_core_gen sem prog (d + 1) s₂ O₁ O₂ G₂ pre₂ post₂ _ _ (nestedAt sem .sync prog (d + 1 + 1)) gi₂ giG₂
      span₂ spanG₂ mi log₀ log₁ L₂ hI₂ hWG₂ hgoodG₂ hsG₂ hfn₂ _ hgoodO₁ hsO₁ hnsO₁ hconvO₁ hok₂ hcd₂ hnd₂ hep₂
      hfuel₂ hWO₂ values (outer_fresh L₁ values hfresh) (outer_covered L₁ hok₁ _ hcov) hfuelG₂ hfuelO₂
  have hsame : sG₂' = sG₂ := by
    have := hrunG₂'.symm.trans hrunG₂
    injection this
  subst hsame
  exact ⟨sO₂, sG₂', sG, logO₂, logG₂, logG, nO₂, nG₂, nG, hrunO₂, hrunG₂, hrunG, hA, hB⟩

/-! ## the induction on nesting depth, packaged -/

/-- `g` (program index irrelevant) can be run as the inner graph of a wrapper by the depth-`d'` nested runner
for every `d' ≥ d`: its nodes are well-behaved, total, sentinel-free, and their virtual functions do not depend
on the depth -/
structure Behaved (sem : Sem) (prog : Program) (d : Nat) (g : GraphD) : Prop where
  good : ∀ d', d ≤ d' → ∀ gi, GoodNodes (nestedAt sem .sync prog d') sem (nestSem sem (nestedAt sem .sync prog d')) gi g
  total : ∀ d', d ≤ d' → SemTotal (nestSem sem (nestedAt sem .sync prog d')) g
  nosent : ∀ d', d ≤ d' → NoSentinel (nestSem sem (nestedAt sem .sync prog d')) g
  conv : ∀ d', d ≤ d' → ∀ d'', d ≤ d'' → ∀ n ∈ g.nodes, ∀ st,
    Holds (nestSem sem (nestedAt sem .sync prog d')) g st n → Holds (nestSem sem (nestedAt sem .sync prog d'')) g st n

/-- base case: a graph of total, sentinel-free function nodes -/
theorem behaved_base (sem : Sem) (prog : Program) (g : GraphD) (hfn : AllFn g) (hs : SemTotal sem g)
    (hns : NoSentinel sem g) : Behaved sem prog 0 g := by
  refine ⟨fun d' _ gi => (goodNodes_fn_nest _ _ sem gi g hfn hs).1, fun d' _ => (goodNodes_fn_nest
    (nestedAt sem .sync prog d') _ sem 0 g hfn hs).2, ?_, ?_⟩
  · intro d' _ nd hn args v outs hv hw
    rw [nestSem_fn sem _ nd (by rw [hfn nd hn]; decide)] at hv
    exact hns nd hn args v outs hv hw
  · intro d' _ d'' _ n hn st h
    exact holds_fn_nestSem (by rw [hfn n hn]; decide) (holds_nestSem_fn (by rw [hfn n hn]; decide) h)

/-- inductive step: wrapping a behaved graph `I` and surrounding the wrapper with function nodes gives a graph
behaved one level up -/
theorem behaved_step {sem : Sem} {prog : Program} {d : Nat} {s : NodeSpec} {I O : GraphD} {pre post : List NodeD}
    {levelI : Name → Nat}
    (hO : O.nodes = pre ++ elabGraphNode s I :: post) (hplain : Plain s) (hsel : I.selected = .none)
    (hI : prog.getD s.inner default = I) (hfn : OuterFn sem pre post)
    (hns : ∀ n ∈ pre ++ post, ∀ args v outs, sem n args = .val v → wrapOutputs n v = some outs →
      ∀ o w, AL.get? outs o = some w → w ≠ Val.sentinel)
    (hWI : WFI I levelI) (hB : Behaved sem prog d I) (hok : InnerOK I) (hnd : I.spec.all.Nodup)
    (hepI : I.entrypoints = .none) (hfuelI : I.nodes.length ≤ ({} : RunCfg).maxIter) :
    Behaved sem prog (d + 1) O := by
  refine ⟨?_, ?_, ?_, ?_⟩
  · intro d' hd gi
    obtain ⟨e, rfl⟩ : ∃ e, d' = e + 1 := ⟨d' - 1, by omega⟩
    exact outer_goodNodes_gen (d := e) hO hplain hsel hI hfn hWI _ (hB.good e (by omega) s.inner)
      (hB.total e (by omega)) (hB.nosent e (by omega)) hok hnd hepI hfuelI gi
  · intro d' _
    exact outer_semTotal_gen _ hO hplain hsel hfn
  · intro d' _
    exact outer_noSentinel_gen prog d' hO hplain hsel hfn hns
  · intro d' hd d'' hd'
    obtain ⟨e, rfl⟩ : ∃ e, d' = e + 1 := ⟨d' - 1, by omega⟩
    obtain ⟨e', rfl⟩ : ∃ e', d'' = e' + 1 := ⟨d'' - 1, by omega⟩
    exact outer_conv_gen (d := e) (d' := e') hO hplain hsel hI hfn hWI _ _
      (hB.good e (by omega) s.inner) (hB.total e (by omega)) (hB.nosent e (by omega))
      (hB.good e' (by omega) s.inner) (hB.total e' (by omega)) (hB.nosent e' (by omega))
      (hB.conv e (by omega) e' (by omega)) hok hnd hepI hfuelI

/-- the inlining step for a behaved inner graph: the top-level runs (both by the depth-`D` runner, `D > d`) of
the outer graph `pre ++ W :: post` and of `pre ++ I.nodes ++ post` agree on every name -/
theorem nest_step_behaved (sem : Sem) (prog : Program) (d D : Nat) (hD : d < D) (s : NodeSpec) (I O G : GraphD)
    (pre post : List NodeD) (levelG levelO : Name → Nat) (giO giG : Nat)
    (spanO spanG : Span) (mi : Nat) (log₀ log₁ : List Log)
    (L : Layout s I O G pre post) (hI : prog.getD s.inner default = I)
    (hWG : WFI G levelG) (hBG : Behaved sem prog D G) (hfn : OuterFn sem pre post)
    (hB : Behaved sem prog d I)
    (hok : InnerOK I) (hcd : ConsistentDefaults I) (hnd : I.spec.all.Nodup)
    (hepI : I.entrypoints = .none) (hfuelI : I.nodes.length ≤ ({} : RunCfg).maxIter)
    (hWO : WFI O levelO)
    (values : AL Val) (hfresh : ∀ m ∈ G.nodes, ∀ o ∈ m.outputs, AL.has values o = false)
    (hcov : Covered G (initState values))
    (hfuelG : G.nodes.length ≤ mi) (hfuelO : O.nodes.length ≤ mi) :
    ∃ sO sG logO logG nO nG,
      runLoop (fun k st rs => stepSync (nestedAt sem .sync prog D) sem giO O spanO k st rs st []) O .none
        mi mi 0 (initState values) log₀ = .done sO logO nO ∧
      runLoop (fun k st rs => stepSync (nestedAt sem .sync prog D) sem giG G spanG k st rs st []) G .none
        mi mi 0 (initState values) log₁ = .done sG logG nG ∧
      (∀ k, AL.get? sO.values k = AL.get? sG.values k) := by
  obtain ⟨e, rfl⟩ : ∃ e, D = e + 1 := ⟨D - 1, by omega⟩
  have hconvI : ∀ n ∈ I.nodes, ∀ st, Holds (nestSem sem (nestedAt sem .sync prog e)) I st n →
      Holds (nestSem sem (nestedAt sem .sync prog (e + 1))) I st n := by
    intro n hn st h
    exact hB.conv e (by omega) (e + 1) (by omega) n hn st h
  have hconvI' : ∀ n ∈ I.nodes, ∀ st, Holds (nestSem sem (nestedAt sem .sync prog e)) I st n →
      Holds (nestSem sem (nestedAt sem .sync prog (e + 1))) I st n := hconvI
  exact nest_values_core_gen sem prog e s I O G pre post levelG levelO (nestedAt sem .sync prog (e + 1)) giO giG
    spanO spanG mi log₀ log₁ L hI hWG (hBG.good (e + 1) (Nat.le_refl _) giG) (hBG.total (e + 1) (Nat.le_refl _)) hfn
    _ (hB.good e (by omega) s.inner) (hB.total e (by omega)) (hB.nosent e (by omega)) hconvI' hok hcd hnd hepI
    hfuelI hWO values hfresh hcov hfuelG hfuelO

end HG.Nest
