import HG.Lemmas.NestDepth
import HG.Lemmas.NestEx
/-! # HG.Lemmas.NestEx2 — concrete graphs for the Tier-3 non-vacuity examples of C05 (renames, depth) -/
namespace HG.Nest
open HG HG.C01 HG.Intr

/-! ## renames: the wrapper of `{b, c}` takes `p` as `pp` and exposes `r` as `rr` -/

def rxW : NodeSpec :=
  { name := "W", kind := .graph, inner := 0, inRen := [("p", "pp")], outRen := [("r", "rr")] }
def rxA : NodeSpec := { name := "a", kind := .fn, params := [("x", .none)], dataOuts := ["pp"], body := .tag "a" }
def rxD : NodeSpec := { name := "d", kind := .fn, params := [("rr", .none)], dataOuts := ["out"], body := .tag "d" }
/-- the inner nodes as they appear in the flat graph: `b.with_inputs(p="pp")`, `c.with_outputs(r="rr")` -/
def rxB : NodeSpec := { nxB with inRen := [("p", "pp")] }
def rxC : NodeSpec := { nxC with dataOuts := ["rr"] }

def rxOuterSpec : GraphSpec := { name := "outer", nodes := [rxA, rxW, rxD] }
def rxFlatSpec : GraphSpec := { name := "flat", nodes := [rxA, rxB, rxC, rxD] }
/-- program: 0 = inner graph (unchanged), 1 = outer graph with the renaming wrapper, 2 = flat graph -/
def rxProg : List GraphD := elabProgram [nxInnerSpec, rxOuterSpec, rxFlatSpec]
def rxI : GraphD := rxProg.getD 0 default
def rxO : GraphD := rxProg.getD 1 default
def rxG : GraphD := rxProg.getD 2 default
/-- inner name ↦ outer name -/
def rxRho : Name → Name := fun k => if k = "p" then "pp" else if k = "r" then "rr" else k
def rxLevelO : Name → Nat := fun n => if n = "a" then 0 else if n = "W" then 1 else 2
def rxLevelI : Name → Nat := fun n => if n = "b" then 0 else 1

/-! ## depth: `{c}` wrapped as `W1` inside `{b, W1}`, wrapped as `W2` inside `{a, W2, d}` -/

def dxW1 : NodeSpec := { name := "W1", kind := .graph, inner := 0 }
def dxW2 : NodeSpec := { name := "W2", kind := .graph, inner := 1 }
def dxW3 : NodeSpec := { name := "W3", kind := .graph, inner := 2 }
/-- program: 0 = `{c}`, 1 = `{b, W1}`, 2 = `{a, W2, d}`, 3 = `{a, b, W1, d}`, 4 = flat, 5 = `{W3}` (depth 3) -/
def dxProg : List GraphD :=
  elabProgram [
    { name := "i", nodes := [nxC] }, { name := "o1", nodes := [nxB, dxW1] },
    { name := "o2", nodes := [nxA, dxW2, nxD] }, { name := "g2", nodes := [nxA, nxB, dxW1, nxD] },
    nxFlatSpec, { name := "o3", nodes := [dxW3] }]
def dxI : GraphD := dxProg.getD 0 default
def dxO1 : GraphD := dxProg.getD 1 default
def dxO2 : GraphD := dxProg.getD 2 default
def dxG2 : GraphD := dxProg.getD 3 default
def dxG : GraphD := dxProg.getD 4 default

/-! ## inconsistent defaults on a shared inner parameter (rejected by the library at build time; the model's
elaborator does not model that check) -/

def cxB : NodeSpec :=
  { name := "b", kind := .fn, params := [("p", .none), ("k", some (.int 1))], dataOuts := ["q"], body := .tag "b" }
/-- `k` defaults to 2 here, to 1 in `b` -/
def cxC : NodeSpec :=
  { name := "c", kind := .fn, params := [("q", .none), ("k", some (.int 2))], dataOuts := ["r"], body := .tag "c" }
/-- `k` has no default here, but one in `b` -/
def cxC2 : NodeSpec :=
  { name := "c", kind := .fn, params := [("q", .none), ("k", .none)], dataOuts := ["r"], body := .tag "c" }
/-- 0 = inner `{b, c}` with different defaults for `k`, 1 = outer `a, W, d`, 2 = flat -/
def cxProg : List GraphD :=
  elabProgram [{ name := "inner", nodes := [cxB, cxC] }, { name := "outer", nodes := [nxA, nxW, nxD] },
    { name := "flat", nodes := [nxA, cxB, cxC, nxD] }]
/-- the same with a default for `k` in `b` only -/
def cxProg2 : List GraphD :=
  elabProgram [{ name := "inner", nodes := [cxB, cxC2] }, { name := "outer", nodes := [nxA, nxW, nxD] },
    { name := "flat", nodes := [nxA, cxB, cxC2, nxD] }]

/-- `c` returns the library's private emit sentinel as a data value (model artefact) -/
def cxC3 : NodeSpec :=
  { name := "c", kind := .fn, params := [("q", .none), ("y", .none)], dataOuts := ["r"], body := .const .sentinel }
def cxProg3 : List GraphD :=
  elabProgram [{ name := "inner", nodes := [nxB, cxC3] }, { name := "outer", nodes := [nxA, nxW, nxD] },
    { name := "flat", nodes := [nxA, nxB, cxC3, nxD] }]

end HG.Nest
