import HG.Lemmas.NestOuter
import HG.Props.C08
/-! # HG.Lemmas.NestSpec — helpers for C05, part 6: the input specification of a gate-free graph

`edgeProduced` of the inferred edges in closed form (a name is edge-produced iff some node writes it and
some node reads it), hence closed forms of `required` / `optional` / `all` for graphs without gates,
`wait_for`, entry points, selection and computed cycle entry points. -/
namespace HG.Nest
open HG HG.C01 HG.Intr

/-! ## a fold that establishes a monotone fact for each element -/

theorem foldl_mono_est {α β : Type} (f : β → α → β) (P : β → Prop) (Q : α → β → Prop) :
    ∀ (l : List α) (b : β), P b →
      (∀ b a, a ∈ l → P b → P (f b a)) →
      (∀ b a x, a ∈ l → P b → Q x b → Q x (f b a)) →
      (∀ b a, a ∈ l → P b → Q a (f b a)) →
      P (l.foldl f b) ∧ (∀ x, Q x b → Q x (l.foldl f b)) ∧ ∀ a ∈ l, Q a (l.foldl f b) := by
  intro l
  induction l with
  | nil => intro b hb _ _ _; exact ⟨hb, fun _ h => h, fun _ h => by cases h⟩
  | cons a t ih =>
    intro b hb hP hmono hest
    rw [List.foldl_cons]
    obtain ⟨h1, h2, h3⟩ := ih (f b a) (hP b a List.mem_cons_self hb)
      (fun b' a' ha' => hP b' a' (List.mem_cons_of_mem _ ha'))
      (fun b' a' x ha' => hmono b' a' x (List.mem_cons_of_mem _ ha'))
      (fun b' a' ha' => hest b' a' (List.mem_cons_of_mem _ ha'))
    refine ⟨h1, fun x hx => h2 x (hmono b a x List.mem_cons_self hb hx), ?_⟩
    intro a' ha'
    rcases List.mem_cons.1 ha' with e | e
    · subst e; exact h2 a' (hest b a' List.mem_cons_self hb)
    · exact h3 a' e

/-! ## data edges -/

/-- one step of `_add_data_edges`: parameter `p` of node `n` -/
def dataStep (nodes : List NodeD) (n : NodeD) (es : List Edge) (p : Name) : List Edge :=
  match firstSource nodes p with
  | .none => es
  | some src =>
    if hasEdge es src n.name then
      es.map fun e => if e.src == src && e.dst == n.name then { e with values := e.values ++ [p] } else e
    else es ++ [{ src := src, dst := n.name, kind := .data, values := [p] }]

theorem dataEdges_eq (nodes : List NodeD) :
    dataEdges nodes = nodes.foldl (fun es n => n.inputs.foldl (dataStep nodes n) es) [] := rfl

/-- some data edge `src → dst` carries `p` -/
def DataHas (es : List Edge) (src dst p : Name) : Prop :=
  ∃ e ∈ es, e.src = src ∧ e.dst = dst ∧ e.kind = .data ∧ p ∈ e.values

def AllData (es : List Edge) : Prop := ∀ e ∈ es, e.kind = .data

/-- every carried name is read by a node and written by a node -/
def SoundE (nodes : List NodeD) (es : List Edge) : Prop :=
  ∀ e ∈ es, ∀ q ∈ e.values, (∃ n ∈ nodes, q ∈ n.inputs) ∧ (∃ m ∈ nodes, q ∈ m.outputs)

theorem firstSource_some {nodes : List NodeD} {p src : Name} (h : firstSource nodes p = some src) :
    ∃ m ∈ nodes, m.name = src ∧ p ∈ m.outputs := by
  unfold firstSource sourcesOf at h
  have hm := List.mem_of_head? h
  obtain ⟨m, hm', e⟩ := List.mem_map.1 hm
  rw [List.mem_filter] at hm'
  exact ⟨m, hm'.1, e, by simpa using hm'.2⟩

theorem firstSource_of_produced {nodes : List NodeD} {p : Name} {m : NodeD} (hm : m ∈ nodes) (hp : p ∈ m.outputs) :
    ∃ src, firstSource nodes p = some src := by
  unfold firstSource sourcesOf
  have : m.name ∈ (nodes.filter fun n => n.outputs.contains p).map (·.name) :=
    List.mem_map_of_mem (by rw [List.mem_filter]; exact ⟨hm, by simpa using hp⟩)
  cases h : (nodes.filter fun n => n.outputs.contains p).map (·.name) with
  | nil => rw [h] at this; cases this
  | cons a t => exact ⟨a, rfl⟩

theorem hasEdge_iff (es : List Edge) (a b : Name) : hasEdge es a b = true ↔ ∃ e ∈ es, e.src = a ∧ e.dst = b := by
  unfold hasEdge
  simp [List.any_eq_true]

theorem dataStep_allData (nodes : List NodeD) (n : NodeD) (es : List Edge) (p : Name) (h : AllData es) :
    AllData (dataStep nodes n es p) := by
  unfold dataStep
  split
  · exact h
  · split
    · intro e he
      obtain ⟨e', he', rfl⟩ := List.mem_map.1 he
      split
      · exact h e' he'
      · exact h e' he'
    · intro e he
      rcases List.mem_append.1 he with h' | h'
      · exact h e h'
      · simp at h'; subst h'; rfl

theorem dataStep_mono (nodes : List NodeD) (n : NodeD) (es : List Edge) (p : Name) {a b q : Name}
    (h : DataHas es a b q) : DataHas (dataStep nodes n es p) a b q := by
  obtain ⟨e, he, h1, h2, h3, h4⟩ := h
  unfold dataStep
  split
  · exact ⟨e, he, h1, h2, h3, h4⟩
  · split
    · refine ⟨_, List.mem_map_of_mem he, ?_⟩
      split
      · exact ⟨h1, h2, h3, List.mem_append_left _ h4⟩
      · exact ⟨h1, h2, h3, h4⟩
    · exact ⟨e, List.mem_append_left _ he, h1, h2, h3, h4⟩

theorem dataStep_est (nodes : List NodeD) (n : NodeD) (es : List Edge) (p : Name) (hd : AllData es)
    {src : Name} (hs : firstSource nodes p = some src) : DataHas (dataStep nodes n es p) src n.name p := by
  unfold dataStep
  rw [hs]
  simp only
  split
  · rename_i hh
    obtain ⟨e, he, h1, h2⟩ := (hasEdge_iff _ _ _).1 hh
    refine ⟨_, List.mem_map_of_mem he, ?_⟩
    simp only [h1, h2, beq_self_eq_true, Bool.and_self, if_true]
    exact ⟨trivial, trivial, hd e he, by simp⟩
  · exact ⟨_, List.mem_append_right _ List.mem_cons_self, rfl, rfl, rfl, by simp⟩

theorem dataStep_sound (nodes : List NodeD) (n : NodeD) (hn : n ∈ nodes) (es : List Edge) (p : Name)
    (hp : p ∈ n.inputs) (h : SoundE nodes es) : SoundE nodes (dataStep nodes n es p) := by
  unfold dataStep
  split
  · exact h
  · rename_i src hs
    obtain ⟨m, hm, _, hpm⟩ := firstSource_some hs
    split
    · intro e he q hq
      obtain ⟨e', he', rfl⟩ := List.mem_map.1 he
      split at hq
      · rcases List.mem_append.1 hq with h' | h'
        · exact h e' he' q h'
        · simp at h'; subst h'; exact ⟨⟨n, hn, hp⟩, ⟨m, hm, hpm⟩⟩
      · exact h e' he' q hq
    · intro e he q hq
      rcases List.mem_append.1 he with h' | h'
      · exact h e h' q hq
      · simp at h'; subst h'
        simp at hq; subst hq
        exact ⟨⟨n, hn, hp⟩, ⟨m, hm, hpm⟩⟩

/-- closed form of the data edges: sound and complete -/
theorem dataEdges_spec (nodes : List NodeD) :
    AllData (dataEdges nodes) ∧ SoundE nodes (dataEdges nodes) ∧
    ∀ n ∈ nodes, ∀ p ∈ n.inputs, ∀ src, firstSource nodes p = some src →
      DataHas (dataEdges nodes) src n.name p := by
  rw [dataEdges_eq]
  -- inner fold for a node `n ∈ nodes`
  have inner : ∀ (n : NodeD), n ∈ nodes → ∀ (es : List Edge), AllData es ∧ SoundE nodes es →
      (AllData (n.inputs.foldl (dataStep nodes n) es) ∧ SoundE nodes (n.inputs.foldl (dataStep nodes n) es)) ∧
      (∀ a b q, DataHas es a b q → DataHas (n.inputs.foldl (dataStep nodes n) es) a b q) ∧
      ∀ p ∈ n.inputs, ∀ src, firstSource nodes p = some src →
        DataHas (n.inputs.foldl (dataStep nodes n) es) src n.name p := by
    intro n hn es hes
    obtain ⟨h1, h2, h3⟩ := foldl_mono_est (dataStep nodes n)
      (fun es => AllData es ∧ SoundE nodes es)
      (fun p es => ∀ src, firstSource nodes p = some src → DataHas es src n.name p)
      n.inputs es hes
      (fun b a ha hb => ⟨dataStep_allData nodes n b a hb.1, dataStep_sound nodes n hn b a ha hb.2⟩)
      (fun b a x _ _ hq src hs => dataStep_mono nodes n b a (hq src hs))
      (fun b a _ hb src hs => dataStep_est nodes n b a hb.1 hs)
    refine ⟨h1, ?_, h3⟩
    intro a b q hq
    exact Spec.foldl_inv (fun es => DataHas es a b q) (dataStep nodes n) n.inputs es hq
      (fun b' a' _ h => dataStep_mono nodes n b' a' h)
  obtain ⟨h1, _, h3⟩ := foldl_mono_est (fun es n => n.inputs.foldl (dataStep nodes n) es)
    (fun es => AllData es ∧ SoundE nodes es)
    (fun n es => n ∈ nodes → ∀ p ∈ n.inputs, ∀ src, firstSource nodes p = some src → DataHas es src n.name p)
    nodes [] (show AllData [] ∧ SoundE nodes [] from ⟨fun _ h => (nomatch h), fun _ h => (nomatch h)⟩)
    (fun b a ha hb => (inner a ha b hb).1)
    (fun b a x ha hb hq hx p hp src hs => (inner a ha b hb).2.1 _ _ _ (hq hx p hp src hs))
    (fun b a ha hb _ => (inner a ha b hb).2.2)
  exact ⟨h1.1, h1.2, fun n hn => h3 n hn hn⟩

/-! ## no control / ordering edges without gates and `wait_for` -/

theorem foldl_id_of {α β : Type} (f : β → α → β) : ∀ (l : List α) (b : β), (∀ b a, a ∈ l → f b a = b) →
    l.foldl f b = b := by
  intro l
  induction l with
  | nil => intro b _; rfl
  | cons a t ih =>
    intro b h
    rw [List.foldl_cons, h b a List.mem_cons_self]
    exact ih b (fun b' a' ha' => h b' a' (List.mem_cons_of_mem _ ha'))

theorem inferEdges_eq_dataEdges (nodes : List NodeD) (hg : ∀ n ∈ nodes, n.isGate = false)
    (hw : ∀ n ∈ nodes, n.waitFor = []) : inferEdges nodes = dataEdges nodes := by
  have h1 : ∀ es, addControlEdges nodes es = es := by
    intro es
    unfold addControlEdges
    apply foldl_id_of
    intro b a ha
    simp only [hg a ha, Bool.false_eq_true, if_false]
  have h2 : ∀ es, addOrderingEdges nodes es = es := by
    intro es
    unfold addOrderingEdges
    apply foldl_id_of
    intro b a ha
    rw [hw a ha]; rfl
  unfold inferEdges
  rw [h1, h2]

/-! ## the input specification in closed form -/

theorem activeScope_none (nodes : List NodeD) (es : List Edge) :
    activeScope nodes es .none .none =
      (nodes, es.filter fun e => (nodes.map (·.name)).contains e.src && (nodes.map (·.name)).contains e.dst) := by
  unfold activeScope
  simp only
  congr 1
  apply filter_true_mem
  intro n hn
  simpa using List.mem_map_of_mem (f := (·.name)) hn

theorem mem_edgeProduced (es : List Edge) (p : Name) :
    p ∈ edgeProduced es ↔ ∃ e ∈ es, e.kind = .data ∧ p ∈ e.values := by
  unfold edgeProduced
  rw [Spec.mem_dedup_iff, List.mem_flatMap]
  constructor
  · rintro ⟨e, he, hp⟩
    rw [List.mem_filter] at he
    exact ⟨e, he.1, by simpa using he.2, hp⟩
  · rintro ⟨e, he, hk, hp⟩
    exact ⟨e, by rw [List.mem_filter]; exact ⟨he, by simp [hk]⟩, hp⟩

/-- a name is edge-produced iff some node reads it and some node writes it -/
theorem mem_edgeProduced_infer (nodes : List NodeD) (hg : ∀ n ∈ nodes, n.isGate = false)
    (hw : ∀ n ∈ nodes, n.waitFor = []) (p : Name) :
    p ∈ edgeProduced (activeScope nodes (inferEdges nodes) .none .none).2 ↔
      (∃ n ∈ nodes, p ∈ n.inputs) ∧ (∃ m ∈ nodes, p ∈ m.outputs) := by
  rw [activeScope_none, inferEdges_eq_dataEdges nodes hg hw, mem_edgeProduced]
  obtain ⟨_, hsound, hcompl⟩ := dataEdges_spec nodes
  constructor
  · rintro ⟨e, he, _, hp⟩
    rw [List.mem_filter] at he
    exact hsound e he.1 p hp
  · rintro ⟨⟨n, hn, hpn⟩, ⟨m, hm, hpm⟩⟩
    obtain ⟨src, hs⟩ := firstSource_of_produced hm hpm
    obtain ⟨e, he, h1, h2, h3, h4⟩ := hcompl n hn p hpn src hs
    obtain ⟨m', hm', hname, _⟩ := firstSource_some hs
    refine ⟨e, ?_, h3, h4⟩
    rw [List.mem_filter]
    refine ⟨he, ?_⟩
    simp only [Bool.and_eq_true, List.contains_iff_mem, h1, h2]
    exact ⟨hname ▸ List.mem_map_of_mem (f := (·.name)) hm', List.mem_map_of_mem (f := (·.name)) hn⟩

/-- a graph description record whose edges and input specification are the inferred ones, without entry
points and selection (what `elabGraph` produces from such a description) -/
structure Elab (g : GraphD) : Prop where
  spec : g.spec = computeInputSpec g.nodes (inferEdges g.nodes) g.bound .none .none
  gatefree : ∀ n ∈ g.nodes, n.isGate = false
  nowait : ∀ n ∈ g.nodes, n.waitFor = []
  /-- no cycle entry points were computed (the graph is acyclic) -/
  noentry : g.spec.entrypoints = []

theorem elabGraph_spec (done : List GraphD) (gs : GraphSpec) (he : gs.entrypoints = .none) (hs : gs.selected = .none) :
    (elabGraph done gs).spec =
      computeInputSpec (elabGraph done gs).nodes (inferEdges (elabGraph done gs).nodes) (elabGraph done gs).bound
        .none .none := by
  simp only [elabGraph, he, hs]

section elabsec
variable {g : GraphD}

theorem Elab.mem_required (h : Elab g) (p : Name) :
    p ∈ g.spec.required ↔ (∃ n ∈ g.nodes, p ∈ n.inputs) ∧ (∀ m ∈ g.nodes, p ∉ m.outputs) ∧
      AL.has g.bound p = false ∧ ∀ n ∈ g.nodes, p ∈ n.inputs → p ∉ n.hasDefault := by
  have hne := h.noentry
  rw [h.spec] at hne ⊢
  rw [Spec.mem_required, hne, Spec.mem_uniqueParams, Spec.anyNodeHasDefault_false,
    mem_edgeProduced_infer g.nodes h.gatefree h.nowait, activeScope_none]
  simp only [List.flatMap_nil, List.not_mem_nil, not_false_eq_true, true_and]
  constructor
  · rintro ⟨h1, h2, h3, h4⟩
    exact ⟨h1, fun m hm hp => h2 ⟨h1, m, hm, hp⟩, h3, h4⟩
  · rintro ⟨h1, h2, h3, h4⟩
    exact ⟨h1, fun ⟨_, m, hm, hp⟩ => h2 m hm hp, h3, h4⟩

theorem Elab.mem_optional (h : Elab g) (p : Name) :
    p ∈ g.spec.optional ↔ (∃ n ∈ g.nodes, p ∈ n.inputs) ∧ (∀ m ∈ g.nodes, p ∉ m.outputs) ∧
      (AL.has g.bound p = true ∨ ∃ n ∈ g.nodes, p ∈ n.inputs ∧ p ∈ n.hasDefault) := by
  have hne := h.noentry
  rw [h.spec] at hne ⊢
  rw [Spec.mem_optional, hne, Spec.mem_uniqueParams, Spec.anyNodeHasDefault_true,
    mem_edgeProduced_infer g.nodes h.gatefree h.nowait, activeScope_none]
  simp only [List.flatMap_nil, List.not_mem_nil, not_false_eq_true, true_and]
  constructor
  · rintro ⟨h1, h2, h3⟩
    exact ⟨h1, fun m hm hp => h2 ⟨h1, m, hm, hp⟩, h3⟩
  · rintro ⟨h1, h2, h3⟩
    exact ⟨h1, fun ⟨_, m, hm, hp⟩ => h2 m hm hp, h3⟩

theorem Elab.all_eq (h : Elab g) : g.spec.all = g.spec.required ++ g.spec.optional := by
  unfold InputSpec.all
  rw [h.noentry]
  simp

theorem Elab.mem_all (h : Elab g) (p : Name) :
    p ∈ g.spec.all ↔ (∃ n ∈ g.nodes, p ∈ n.inputs) ∧ (∀ m ∈ g.nodes, p ∉ m.outputs) := by
  rw [h.all_eq, List.mem_append, h.mem_required, h.mem_optional]
  constructor
  · rintro (⟨h1, h2, _⟩ | ⟨h1, h2, _⟩) <;> exact ⟨h1, h2⟩
  · rintro ⟨h1, h2⟩
    cases hb : AL.has g.bound p with
    | true => exact Or.inr ⟨h1, h2, Or.inl rfl⟩
    | false =>
      by_cases hd : ∃ n ∈ g.nodes, p ∈ n.inputs ∧ p ∈ n.hasDefault
      · exact Or.inr ⟨h1, h2, Or.inr hd⟩
      · exact Or.inl ⟨h1, h2, rfl, fun n hn hp hdf => hd ⟨n, hn, hp, hdf⟩⟩

/-- the declared inputs of an elaborated gate-free graph are exactly what its nodes need from outside -/
theorem Elab.innerOK (h : Elab g) : InnerOK g := by
  refine ⟨?_, ?_, ?_⟩
  · intro n hn p hp
    by_cases hprod : ∃ m ∈ g.nodes, p ∈ m.outputs
    · exact Or.inl hprod
    · exact Or.inr ((h.mem_all p).2 ⟨⟨n, hn, hp⟩, fun m hm e => hprod ⟨m, hm, e⟩⟩)
  · intro m hm o ho hall
    exact ((h.mem_all o).1 hall).2 m hm ho
  · intro p hp
    exact ((h.mem_all p).1 hp).1

theorem Elab.all_nodup (h : Elab g) : g.spec.all.Nodup := by
  rw [h.all_eq, List.nodup_append]
  have hd := C08.disjoint g.nodes (inferEdges g.nodes) g.bound .none .none
  rw [← h.spec] at hd
  refine ⟨hd.2.2.1, hd.2.2.2, ?_⟩
  intro a ha b hb e
  subst e
  exact hd.1 a ⟨ha, hb⟩
end elabsec

/-! ## acyclic graphs have no computed cycle entry points -/

/-- every data edge goes from the first producer of some input of its target to that target -/
def EdgeOK (nodes : List NodeD) (es : List Edge) : Prop :=
  ∀ e ∈ es, ∃ n ∈ nodes, n.name = e.dst ∧ ∃ q ∈ n.inputs, firstSource nodes q = some e.src

theorem dataStep_edgeOK (nodes : List NodeD) (n : NodeD) (hn : n ∈ nodes) (es : List Edge) (p : Name)
    (hp : p ∈ n.inputs) (h : EdgeOK nodes es) : EdgeOK nodes (dataStep nodes n es p) := by
  unfold dataStep
  split
  · exact h
  · rename_i src hs
    split
    · intro e he
      obtain ⟨e', he', rfl⟩ := List.mem_map.1 he
      split
      · exact h e' he'
      · exact h e' he'
    · intro e he
      rcases List.mem_append.1 he with h' | h'
      · exact h e h'
      · simp at h'; subst h'
        exact ⟨n, hn, rfl, p, hp, hs⟩

theorem dataEdges_edgeOK (nodes : List NodeD) : EdgeOK nodes (dataEdges nodes) := by
  rw [dataEdges_eq]
  apply Spec.foldl_inv (EdgeOK nodes)
  · intro e he; cases he
  · intro es n hn hes
    apply Spec.foldl_inv (EdgeOK nodes) _ _ _ hes
    intro es' p hp hes'
    exact dataStep_edgeOK nodes n hn es' p hp hes'

theorem mem_succs {es : List Edge} {a b : Name} (h : b ∈ succs es a) : ∃ e ∈ es, e.src = a ∧ e.dst = b := by
  unfold succs at h
  rw [Spec.mem_dedup_iff] at h
  obtain ⟨e, he, rfl⟩ := List.mem_map.1 h
  rw [List.mem_filter] at he
  exact ⟨e, he.1, by simpa using he.2, rfl⟩

theorem cyclesFrom_nil (adj : Name → List Name) (level : Name → Nat)
    (hadj : ∀ a b, b ∈ adj a → level a < level b) (start : Name) (allowed : List Name) :
    ∀ (fuel : Nat) (path : List Name), (∀ x ∈ path, level start ≤ level x) →
      cyclesFrom adj start allowed fuel path = [] := by
  intro fuel
  induction fuel with
  | zero => intro path _; rfl
  | succ f ih =>
    intro path hpath
    cases path with
    | nil => rfl
    | cons cur rest =>
      unfold cyclesFrom
      have hcur := hpath cur List.mem_cons_self
      have hns : (adj cur).contains start = false := by
        cases h : (adj cur).contains start with
        | false => rfl
        | true =>
          have := hadj cur start (by simpa using h)
          omega
      simp only [hns, Bool.false_eq_true, if_false, List.nil_append]
      rw [List.flatMap_eq_nil_iff]
      intro v hv
      rw [List.mem_filter] at hv
      apply ih
      intro x hx
      rcases List.mem_cons.1 hx with e | e
      · subst e
        have := hadj cur x hv.1
        omega
      · exact hpath x e

theorem simpleCycles_nil (names : List Name) (es : List Edge) (level : Name → Nat)
    (hes : ∀ e ∈ es, level e.src < level e.dst) : simpleCycles names es = [] := by
  have hadj : ∀ a b, b ∈ succs es a → level a < level b := by
    intro a b hb
    obtain ⟨e, he, rfl, rfl⟩ := mem_succs hb
    exact hes e he
  have hgo : ∀ l : List Name, simpleCycles.go names es l = [] := by
    intro l
    induction l with
    | nil => rfl
    | cons s rest ih =>
      rw [simpleCycles.go, ih, cyclesFrom_nil (succs es) level hadj s rest _ [s] (by simp)]
      rfl
  unfold simpleCycles
  exact hgo names

/-- an acyclic (level function) gate-free graph has no computed cycle entry points -/
theorem entrypoints_nil_of_level (nodes : List NodeD) (hg : ∀ n ∈ nodes, n.isGate = false)
    (hw : ∀ n ∈ nodes, n.waitFor = []) (level : Name → Nat)
    (hlt : ∀ n ∈ nodes, ∀ p ∈ n.inputs, ∀ m ∈ nodes, p ∈ m.outputs → level m.name < level n.name)
    (bound : AL Val) :
    (computeInputSpec nodes (inferEdges nodes) bound .none .none).entrypoints = [] := by
  rw [Spec.spec_entrypoints, activeScope_none, inferEdges_eq_dataEdges nodes hg hw]
  simp only
  have hes : ∀ e ∈ ((dataEdges nodes).filter fun e =>
      (nodes.map (·.name)).contains e.src && (nodes.map (·.name)).contains e.dst).filter (·.kind == .data),
      level e.src < level e.dst := by
    intro e he
    rw [List.mem_filter] at he
    have he' := he.1
    rw [List.mem_filter] at he'
    obtain ⟨n, hn, hdst, q, hq, hs⟩ := dataEdges_edgeOK nodes e he'.1
    obtain ⟨m, hm, hsrc, hqm⟩ := firstSource_some hs
    rw [← hdst, ← hsrc]
    exact hlt n hn q hq m hm hqm
  unfold computeEntrypoints
  simp only
  have hc : cycleParams nodes (((dataEdges nodes).filter fun e =>
      (nodes.map (·.name)).contains e.src && (nodes.map (·.name)).contains e.dst).filter (·.kind == .data))
      (edgeProduced ((dataEdges nodes).filter fun e =>
        (nodes.map (·.name)).contains e.src && (nodes.map (·.name)).contains e.dst)) = [] := by
    unfold cycleParams
    simp only
    rw [simpleCycles_nil _ _ level hes]
    rfl
  rw [hc]
  rfl

/-- `Elab` from a level function instead of `noentry` -/
theorem Elab.of_level {g : GraphD}
    (hspec : g.spec = computeInputSpec g.nodes (inferEdges g.nodes) g.bound .none .none)
    (hg : ∀ n ∈ g.nodes, n.isGate = false) (hw : ∀ n ∈ g.nodes, n.waitFor = []) (level : Name → Nat)
    (hlt : ∀ n ∈ g.nodes, ∀ p ∈ n.inputs, ∀ m ∈ g.nodes, p ∈ m.outputs → level m.name < level n.name) :
    Elab g :=
  ⟨hspec, hg, hw, by rw [hspec]; exact entrypoints_nil_of_level g.nodes hg hw level hlt g.bound⟩

/-! ## the outer and the flat graph have the same required / optional inputs -/

section shape
variable {s : NodeSpec} {I O G : GraphD} {pre post : List NodeD}

theorem Shape.casesO (L : Shape s I O G pre post) {n : NodeD} (hn : n ∈ O.nodes) :
    n = elabGraphNode s I ∨ (n ∈ G.nodes ∧ n ∈ pre ++ post) := by
  rcases (L.memO n).1 hn with h | h | h
  · exact Or.inr ⟨(L.memG n).2 (Or.inl h), List.mem_append_left _ h⟩
  · exact Or.inl h
  · exact Or.inr ⟨(L.memG n).2 (Or.inr (Or.inr h)), List.mem_append_right _ h⟩

theorem Shape.casesG (L : Shape s I O G pre post) {n : NodeD} (hn : n ∈ G.nodes) :
    n ∈ I.nodes ∨ n ∈ O.nodes := by
  rcases (L.memG n).1 hn with h | h | h
  · exact Or.inr ((L.memO n).2 (Or.inl h))
  · exact Or.inl h
  · exact Or.inr ((L.memO n).2 (Or.inr (Or.inr h)))

/-- an inner consumer of a name nobody in the flat graph writes makes it an input of the wrapper -/
theorem Shape.innerInput (L : Shape s I O G pre post) (hIe : Elab I) {p : Name} {u : NodeD} (hu : u ∈ I.nodes)
    (hpu : p ∈ u.inputs) (hnp : ∀ m ∈ G.nodes, p ∉ m.outputs) : p ∈ I.spec.all :=
  (hIe.mem_all p).2 ⟨⟨u, hu, hpu⟩, fun m hm => hnp m (L.innerG hm)⟩

theorem inputspec_core (L : Shape s I O G pre post) (hOe : Elab O) (hGe : Elab G) (hIe : Elab I)
    (hbound : ∀ p, AL.has O.bound p = AL.has G.bound p) (hIb : I.spec.bound = []) :
    (∀ p, p ∈ O.spec.required ↔ p ∈ G.spec.required) ∧ (∀ p, p ∈ O.spec.optional ↔ p ∈ G.spec.optional) := by
  have hWin : (elabGraphNode s I).inputs = I.spec.all := plain_inputs L.plain
  -- consumers and producers correspond
  have hprod : ∀ p, (∀ m ∈ O.nodes, p ∉ m.outputs) ↔ (∀ m ∈ G.nodes, p ∉ m.outputs) := by
    intro p
    constructor
    · intro h m hm hp
      obtain ⟨m', hm', hp'⟩ := L.producedG ⟨m, hm, hp⟩
      exact h m' hm' hp'
    · intro h m hm hp
      obtain ⟨m', hm', hp'⟩ := L.producedO ⟨m, hm, hp⟩
      exact h m' hm' hp'
  have hconsOG : ∀ p, (∃ n ∈ O.nodes, p ∈ n.inputs) → ∃ n ∈ G.nodes, p ∈ n.inputs := by
    rintro p ⟨n, hn, hp⟩
    rcases L.casesO hn with h | h
    · subst h
      rw [hWin] at hp
      obtain ⟨u, hu, hpu⟩ := ((hIe.mem_all p).1 hp).1
      exact ⟨u, L.innerG hu, hpu⟩
    · exact ⟨n, h.1, hp⟩
  have hconsGO : ∀ p, (∀ m ∈ G.nodes, p ∉ m.outputs) → (∃ n ∈ G.nodes, p ∈ n.inputs) →
      ∃ n ∈ O.nodes, p ∈ n.inputs := by
    rintro p hnp ⟨n, hn, hp⟩
    rcases L.casesG hn with h | h
    · exact ⟨_, L.wO, by rw [hWin]; exact L.innerInput hIe h hp hnp⟩
    · exact ⟨n, h, hp⟩
  -- defaults correspond
  have hdefOG : ∀ p, (∃ n ∈ O.nodes, p ∈ n.inputs ∧ p ∈ n.hasDefault) → ∃ n ∈ G.nodes, p ∈ n.inputs ∧ p ∈ n.hasDefault := by
    rintro p ⟨n, hn, hp, hd⟩
    rcases L.casesO hn with h | h
    · subst h
      obtain ⟨u, hu, hpu, hud⟩ := plain_hasDefault_inv L.plain hIb (by simpa using hd)
      exact ⟨u, L.innerG hu, hpu, by simpa using hud⟩
    · exact ⟨n, h.1, hp, hd⟩
  have hdefGO : ∀ p, (∀ m ∈ G.nodes, p ∉ m.outputs) → (∃ n ∈ G.nodes, p ∈ n.inputs ∧ p ∈ n.hasDefault) →
      ∃ n ∈ O.nodes, p ∈ n.inputs ∧ p ∈ n.hasDefault := by
    rintro p hnp ⟨n, hn, hp, hd⟩
    rcases L.casesG hn with h | h
    · have hpa := L.innerInput hIe h hp hnp
      refine ⟨_, L.wO, by rw [hWin]; exact hpa, ?_⟩
      have := plain_hasDefault L.plain h hp hpa (by simpa using hd)
      simpa using this
    · exact ⟨n, h, hp, hd⟩
  refine ⟨?_, ?_⟩
  · intro p
    rw [hOe.mem_required, hGe.mem_required]
    constructor
    · rintro ⟨h1, h2, h3, h4⟩
      have h2' := (hprod p).1 h2
      refine ⟨hconsOG p h1, h2', by rw [← hbound]; exact h3, ?_⟩
      intro n hn hp hd
      obtain ⟨n', hn', hp', hd'⟩ := hdefGO p h2' ⟨n, hn, hp, hd⟩
      exact h4 n' hn' hp' hd'
    · rintro ⟨h1, h2, h3, h4⟩
      refine ⟨hconsGO p h2 h1, (hprod p).2 h2, by rw [hbound]; exact h3, ?_⟩
      intro n hn hp hd
      obtain ⟨n', hn', hp', hd'⟩ := hdefOG p ⟨n, hn, hp, hd⟩
      exact h4 n' hn' hp' hd'
  · intro p
    rw [hOe.mem_optional, hGe.mem_optional]
    constructor
    · rintro ⟨h1, h2, h3⟩
      refine ⟨hconsOG p h1, (hprod p).1 h2, ?_⟩
      rcases h3 with h | h
      · exact Or.inl (by rw [← hbound]; exact h)
      · exact Or.inr (hdefOG p h)
    · rintro ⟨h1, h2, h3⟩
      refine ⟨hconsGO p h2 h1, (hprod p).2 h2, ?_⟩
      rcases h3 with h | h
      · exact Or.inl (by rw [hbound]; exact h)
      · exact Or.inr (hdefGO p h2 h)
end shape

end HG.Nest
