import HG.Lemmas.DagReady
/-! # HG.Lemmas.DagFrame — one sync superstep over function nodes as a fold; frame lemmas -/
namespace HG.C01

/-- the node functions neither raise nor return a value of the wrong shape (on the nodes of `g`) -/
def SemTotal (sem : Sem) (g : GraphD) : Prop :=
  ∀ nd ∈ g.nodes, ∀ args, ∃ v outs, sem nd args = .val v ∧ wrapOutputs nd v = some outs

/-- the outputs dict a function node writes when called on `inputs` -/
def outsOf (sem : Sem) (nd : NodeD) (inputs : AL Val) : AL Val :=
  match sem nd (toParams nd inputs) with
  | .val v => (wrapOutputs nd v).getD []
  | _ => []

theorem outsOf_spec {sem : Sem} {g : GraphD} (hs : SemTotal sem g) {nd : NodeD} (hn : nd ∈ g.nodes)
    (inputs : AL Val) :
    ∃ v, sem nd (toParams nd inputs) = .val v ∧ wrapOutputs nd v = some (outsOf sem nd inputs) := by
  obtain ⟨v, outs, h1, h2⟩ := hs nd hn (toParams nd inputs)
  exact ⟨v, h1, by simp [outsOf, h1, h2]⟩

/-- what one function node does inside `run_superstep_sync` -/
def execOne (sem : Sem) (g : GraphD) (s ns : GState) (nd : NodeD) : GState :=
  match collectInputs g s nd nd.inputs with
  | .none => ns
  | some inputs => recordExec s (ns.applyOutputs (outsOf sem nd inputs)) nd

/-- the log entries of one function node -/
def nodeLog (gi : Nat) (g : GraphD) (runSpan : Span) (k : Nat) (s : GState) (nd : NodeD) : List Log :=
  match collectInputs g s nd nd.inputs with
  | .none => []
  | some inputs =>
    [ Log.ev { kind := "NodeStart", span := nodeSpanOf runSpan k nd, parent := some runSpan, name := nd.name },
      Log.call (fnId gi nd) (toParams nd inputs),
      Log.ev { kind := "NodeEnd", span := nodeSpanOf runSpan k nd, parent := some runSpan, name := nd.name } ]

theorem routeEvent_fn {nd : NodeD} (h : nd.kind = .fn) (sp : Span) (k : Nat) (ns : GState) :
    routeEvent sp k nd ns = [] := by
  unfold routeEvent; simp [isGate_of_fn h]

/-- a sync superstep over function nodes with total semantics is a fold and never fails -/
theorem stepSync_ok (nested : Nested) {sem : Sem} {g : GraphD} (hs : SemTotal sem g) (gi : Nat)
    (runSpan : Span) (k : Nat) (s : GState) :
    ∀ (rs : List NodeD) (ns : GState) (log : List Log),
      (∀ r ∈ rs, r ∈ g.nodes ∧ r.kind = .fn ∧ (collectInputs g s r r.inputs).isSome = true) →
      stepSync nested sem gi g runSpan k s rs ns log =
        .ok (rs.foldl (execOne sem g s) ns) (log ++ rs.flatMap (nodeLog gi g runSpan k s)) := by
  intro rs
  induction rs with
  | nil => intro ns log _; simp [stepSync]
  | cons r rs ih =>
    intro ns log h
    obtain ⟨hn, hk, hc⟩ := h r (List.mem_cons_self ..)
    obtain ⟨inputs, hci⟩ := Option.isSome_iff_exists.mp hc
    obtain ⟨v, hv, hw⟩ := outsOf_spec hs hn inputs
    have hrest := ih (recordExec s (ns.applyOutputs (outsOf sem r inputs)) r)
      (log ++ nodeLog gi g runSpan k s r) (fun r' hr' => h r' (List.mem_cons_of_mem _ hr'))
    have hex : execOne sem g s ns r = recordExec s (ns.applyOutputs (outsOf sem r inputs)) r := by
      simp [execOne, hci]
    have hlog : nodeLog gi g runSpan k s r =
        [ Log.ev { kind := "NodeStart", span := nodeSpanOf runSpan k r, parent := some runSpan, name := r.name },
          Log.call (fnId gi r) (toParams r inputs),
          Log.ev { kind := "NodeEnd", span := nodeSpanOf runSpan k r, parent := some runSpan, name := r.name } ] := by
      simp [nodeLog, hci]
    rw [List.foldl_cons, List.flatMap_cons, hex, ← List.append_assoc, ← hrest, hlog]
    rw [stepSync]
    simp only [hci, execNode, hk, execFn, hv, hw, routeEvent_fn hk]
    simp

/-! ## frame lemmas for one node -/
section one
variable {sem : Sem} {g : GraphD}

theorem recordExec_values (s ns : GState) (nd : NodeD) : (recordExec s ns nd).values = ns.values := rfl
theorem recordExec_ver (s ns : GState) (nd : NodeD) (k : Name) : (recordExec s ns nd).ver k = ns.ver k := rfl

theorem outsOf_has (hs : SemTotal sem g) {nd : NodeD} (hn : nd ∈ g.nodes) (inputs : AL Val) (k : Name) :
    AL.has (outsOf sem nd inputs) k = true ↔ k ∈ nd.outputs := by
  obtain ⟨v, _, hw⟩ := outsOf_spec hs hn inputs
  exact wrapOutputs_has hw k

theorem outsOf_has_false (hs : SemTotal sem g) {nd : NodeD} (hn : nd ∈ g.nodes) (inputs : AL Val) {k : Name}
    (hk : k ∉ nd.outputs) : AL.has (outsOf sem nd inputs) k = false := by
  cases h : AL.has (outsOf sem nd inputs) k with
  | false => rfl
  | true => exact absurd ((outsOf_has hs hn inputs k).mp h) hk

theorem execOne_values_other (hs : SemTotal sem g) (s ns : GState) {nd : NodeD} (hn : nd ∈ g.nodes)
    {k : Name} (hk : k ∉ nd.outputs) :
    AL.get? (execOne sem g s ns nd).values k = AL.get? ns.values k := by
  unfold execOne
  split
  · rfl
  · rw [recordExec_values, applyOutputs_values_other _ _ (outsOf_has_false hs hn _ hk)]

theorem execOne_ver_other (hs : SemTotal sem g) (s ns : GState) {nd : NodeD} (hn : nd ∈ g.nodes)
    {k : Name} (hk : k ∉ nd.outputs) :
    (execOne sem g s ns nd).ver k = ns.ver k := by
  unfold execOne
  split
  · rfl
  · rw [recordExec_ver, applyOutputs_ver_other _ _ (outsOf_has_false hs hn _ hk)]

theorem execOne_values_mem (hs : SemTotal sem g) (s ns : GState) {nd : NodeD} (hn : nd ∈ g.nodes)
    (he : nd.emits.Nodup) {args : AL Val} (hc : collectInputs g s nd nd.inputs = some args)
    {k : Name} (hk : k ∈ nd.outputs) :
    AL.get? (execOne sem g s ns nd).values k = AL.get? (outsOf sem nd args) k := by
  obtain ⟨v, _, hw⟩ := outsOf_spec hs hn args
  have hnk := wrapOutputs_nodupKeys he hw
  obtain ⟨x, hx⟩ := (has_eq_true_iff _ _).mp ((outsOf_has hs hn args k).mpr hk)
  simp only [execOne, hc]
  rw [recordExec_values, applyOutputs_values _ hnk, hx]; rfl

theorem execOne_execs (s ns : GState) {nd : NodeD} {args : AL Val}
    (hc : collectInputs g s nd nd.inputs = some args) (k : Name) :
    AL.get? (execOne sem g s ns nd).execs k =
      if k = nd.name then
        some { inputVersions := nd.inputs.map fun p => (p, s.ver p)
               waitForVersions := nd.waitFor.map fun w => (w, s.ver w) }
      else AL.get? ns.execs k := by
  simp only [execOne, hc, recordExec]
  rw [AL.get?_put, applyOutputs_execs]

theorem execOne_execs_other (s ns : GState) {nd : NodeD} {k : Name} (hk : k ≠ nd.name) :
    AL.get? (execOne sem g s ns nd).execs k = AL.get? ns.execs k := by
  unfold execOne
  split
  · rfl
  · simp only [recordExec]; rw [AL.get?_put_other _ _ _ _ hk, applyOutputs_execs]
end one

/-! ## frame lemmas for the fold -/
section fold
variable {sem : Sem} {g : GraphD}

theorem foldl_values_other (hs : SemTotal sem g) (s : GState) (k : Name) :
    ∀ (rs : List NodeD) (ns : GState), (∀ r ∈ rs, r ∈ g.nodes ∧ k ∉ r.outputs) →
      AL.get? (rs.foldl (execOne sem g s) ns).values k = AL.get? ns.values k := by
  intro rs
  induction rs with
  | nil => intro ns _; rfl
  | cons r rs ih =>
    intro ns h
    rw [List.foldl_cons, ih _ (fun r' hr' => h r' (List.mem_cons_of_mem _ hr'))]
    have := h r (List.mem_cons_self ..)
    exact execOne_values_other hs s ns this.1 this.2

theorem foldl_ver_other (hs : SemTotal sem g) (s : GState) (k : Name) :
    ∀ (rs : List NodeD) (ns : GState), (∀ r ∈ rs, r ∈ g.nodes ∧ k ∉ r.outputs) →
      (rs.foldl (execOne sem g s) ns).ver k = ns.ver k := by
  intro rs
  induction rs with
  | nil => intro ns _; rfl
  | cons r rs ih =>
    intro ns h
    rw [List.foldl_cons, ih _ (fun r' hr' => h r' (List.mem_cons_of_mem _ hr'))]
    have := h r (List.mem_cons_self ..)
    exact execOne_ver_other hs s ns this.1 this.2

theorem foldl_execs_other (s : GState) (k : Name) :
    ∀ (rs : List NodeD) (ns : GState), (∀ r ∈ rs, r.name ≠ k) →
      AL.get? (rs.foldl (execOne sem g s) ns).execs k = AL.get? ns.execs k := by
  intro rs
  induction rs with
  | nil => intro ns _; rfl
  | cons r rs ih =>
    intro ns h
    rw [List.foldl_cons, ih _ (fun r' hr' => h r' (List.mem_cons_of_mem _ hr'))]
    exact execOne_execs_other s ns (fun e => h r (List.mem_cons_self ..) e.symm)

/-- the value of an output written in the step (each name has one writer in the step) -/
theorem foldl_values_mem (hs : SemTotal sem g) (s : GState) (argsOf : NodeD → AL Val) :
    ∀ (rs : List NodeD) (ns : GState) (r : NodeD) (k : Name), r ∈ rs → k ∈ r.outputs →
      (∀ r' ∈ rs, r' ∈ g.nodes ∧ r'.emits.Nodup ∧ collectInputs g s r' r'.inputs = some (argsOf r')) →
      rs.Pairwise (fun a b => ∀ o ∈ a.outputs, o ∉ b.outputs) →
      AL.get? (rs.foldl (execOne sem g s) ns).values k = AL.get? (outsOf sem r (argsOf r)) k := by
  intro rs
  induction rs with
  | nil => intro ns r k hr; cases hr
  | cons a rs ih =>
    intro ns r k hr hk hall hpw
    rw [List.pairwise_cons] at hpw
    rw [List.foldl_cons]
    rcases List.mem_cons.mp hr with e | hr'
    · subst e
      obtain ⟨hn, he, hc⟩ := hall r (List.mem_cons_self ..)
      rw [foldl_values_other hs s k rs _
        (fun r' hr' => ⟨(hall r' (List.mem_cons_of_mem _ hr')).1, hpw.1 r' hr' k hk⟩)]
      exact execOne_values_mem hs s ns hn he hc hk
    · exact ih _ r k hr' hk (fun r' h' => hall r' (List.mem_cons_of_mem _ h')) hpw.2

/-- the execution record of a node that ran in the step (names distinct in the step) -/
theorem foldl_execs_mem (s : GState) (argsOf : NodeD → AL Val) :
    ∀ (rs : List NodeD) (ns : GState) (r : NodeD), r ∈ rs →
      (∀ r' ∈ rs, collectInputs g s r' r'.inputs = some (argsOf r')) →
      (rs.map (·.name)).Nodup →
      AL.get? (rs.foldl (execOne sem g s) ns).execs r.name =
        some { inputVersions := r.inputs.map fun p => (p, s.ver p)
               waitForVersions := r.waitFor.map fun w => (w, s.ver w) } := by
  intro rs
  induction rs with
  | nil => intro ns r hr; cases hr
  | cons a rs ih =>
    intro ns r hr hall hnd
    simp only [List.map_cons, List.nodup_cons] at hnd
    rw [List.foldl_cons]
    rcases List.mem_cons.mp hr with e | hr'
    · subst e
      rw [foldl_execs_other s r.name rs _
        (fun r' hr' e => hnd.1 (by rw [← e]; exact List.mem_map_of_mem hr'))]
      rw [execOne_execs s ns (hall r (List.mem_cons_self ..))]; simp
    · exact ih _ r hr' (fun r' h' => hall r' (List.mem_cons_of_mem _ h')) hnd.2
end fold

end HG.C01
