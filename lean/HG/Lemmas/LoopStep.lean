import HG.Lemmas.Loop
/-! # HG.Lemmas.LoopStep — anatomy of a failing sync superstep (helpers for C11) -/
namespace HG

theorem execFn_dec (sem : Sem) (gi : Nat) (nd : NodeD) (inputs : AL Val) :
    (execFn sem gi nd inputs).dec = .none := by
  unfold execFn; dsimp only
  cases sem nd (toParams nd inputs) with
  | raise e => rfl
  | dec d => rfl
  | val v => dsimp only; cases wrapOutputs nd v <;> rfl

theorem execGraphNode_dec (nested : Nested) (nd : NodeD) (inputs : AL Val) (sp : Span) :
    (execGraphNode nested nd inputs sp).dec = .none := by
  unfold execGraphNode; dsimp only
  split
  · split
    · rfl
    · split <;> rfl
  · split
    · rfl
    · split <;> rfl

theorem execInterrupt_dec (sem : Sem) (gi : Nat) (nd : NodeD) (inputs : AL Val) (ns : GState) :
    (execInterrupt sem gi nd inputs ns).dec = .none := by
  unfold execInterrupt; dsimp only
  split
  · rfl
  · split
    · rfl
    · rfl
    · split <;> rfl
    · split <;> rfl

theorem execIfElse_error_dec (sem : Sem) (gi : Nat) (nd : NodeD) (inputs : AL Val) {e : ErrId}
    (h : (execIfElse sem gi nd inputs).res = .error e) : (execIfElse sem gi nd inputs).dec = .none := by
  unfold execIfElse at h ⊢; dsimp only at h ⊢
  split at h
  · simp_all
  · simp at h
  · simp_all

theorem execRoute_error_dec (sem : Sem) (gi : Nat) (nd : NodeD) (inputs : AL Val) {e : ErrId}
    (h : (execRoute sem gi nd inputs).res = .error e) : (execRoute sem gi nd inputs).dec = .none := by
  unfold execRoute at h ⊢; dsimp only at h ⊢
  split at h
  · simp_all
  · split at h
    · simp_all
    · simp at h
  · split at h
    · simp_all
    · simp at h
  · simp_all

/-- a node whose execution raised stored no routing decision -/
theorem execNode_error_dec (nested : Nested) (sem : Sem) (gi : Nat) (nd : NodeD) (inputs : AL Val)
    (ns : GState) (sp : Span) {e : ErrId}
    (h : (execNode nested sem gi nd inputs ns sp).res = .error e) :
    (execNode nested sem gi nd inputs ns sp).dec = .none := by
  unfold execNode at h ⊢
  cases hk : nd.kind <;> simp only [hk] at h ⊢
  · exact execFn_dec ..
  · exact execRoute_error_dec _ _ _ _ h
  · exact execIfElse_error_dec _ _ _ _ h
  · exact execGraphNode_dec ..
  · exact execInterrupt_dec ..

theorem has_updateValue (s : GState) (n : Name) (v : Val) (k : Name) (h : AL.has s.values k = true) :
    AL.has (s.updateValue n v).values k = true := by
  simp [GState.updateValue, AL.has_put, h]

theorem has_applyOutputs (outs : AL Val) : ∀ (s : GState) (k : Name), AL.has s.values k = true →
    AL.has (s.applyOutputs outs).values k = true := by
  induction outs with
  | nil => intro s k h; exact h
  | cons o os ih =>
    intro s k h
    exact ih (s.updateValue o.1 o.2) k (has_updateValue s o.1 o.2 k h)

section stepSync
variable (nested : Nested) (sem : Sem) (gi : Nat) (g : GraphD) (span : Span) (k : Nat) (s : GState)

/-- the state a node leaves behind in the working copy when it succeeds with `outs` -/
def afterNode (s ns : GState) (nd : NodeD) (dec : Option Dec) (outs : AL Val) : GState :=
  recordExec s ((match dec with
    | some d => { ns with decisions := AL.put ns.decisions nd.name d }
    | .none => ns).applyOutputs outs) nd

theorem stepSync_append (pre post : List NodeD) : ∀ (ns : GState) (log : List Log),
    stepSync nested sem gi g span k s (pre ++ post) ns log =
      match stepSync nested sem gi g span k s pre ns log with
      | .ok ns' l' => stepSync nested sem gi g span k s post ns' l'
      | r => r := by
  induction pre with
  | nil => intro ns log; rfl
  | cons nd rest ih =>
    intro ns log
    rw [List.cons_append, stepSync, stepSync]
    split
    · rfl
    · dsimp only
      split
      · rfl
      · split
        · rfl
        · exact ih _ _

/-- anatomy of a failing sync superstep: a successful prefix, then the first failing node -/
theorem stepSync_fail_split : ∀ (rs : List NodeD) (ns : GState) (log : List Log) {e : ErrId} {ps : GState}
    {log' : List Log}, stepSync nested sem gi g span k s rs ns log = .fail e ps log' →
    ∃ (pre : List NodeD) (nd : NodeD) (post : List NodeD) (ns' : GState) (lg' : List Log),
      rs = pre ++ nd :: post ∧ stepSync nested sem gi g span k s pre ns log = .ok ns' lg' ∧
      ((collectInputs g s nd nd.inputs = .none ∧ e = .keyError nd.name ∧ ps = s) ∨
       (∃ inputs, collectInputs g s nd nd.inputs = some inputs ∧
          (execNode nested sem gi nd inputs ns' (nodeSpanOf span k nd)).pause = .none ∧
          (execNode nested sem gi nd inputs ns' (nodeSpanOf span k nd)).res = .error e ∧ ps = ns')) := by
  intro rs
  induction rs with
  | nil => intro ns log e ps log' h; simp [stepSync] at h
  | cons nd rest ih =>
    intro ns log e ps log' h
    rw [stepSync] at h
    split at h
    next hci =>
      injection h with h1 h2 h3
      exact ⟨[], nd, rest, ns, log, rfl, rfl, .inl ⟨hci, h1.symm, h2.symm⟩⟩
    next inputs hci =>
      dsimp only at h
      split at h
      next => cases h
      next hp =>
        split at h
        next e' hres =>
          injection h with h1 h2 h3
          have hd := execNode_error_dec _ _ _ _ _ _ _ hres
          rw [hd] at h2
          exact ⟨[], nd, rest, ns, log, rfl, rfl, .inr ⟨inputs, hci, hp, h1 ▸ hres, h2.symm⟩⟩
        next outs hres =>
          obtain ⟨pre, nd', post, ns', lg', h1, h2, h3⟩ := ih _ _ h
          refine ⟨nd :: pre, nd', post, ns', lg', by rw [h1]; rfl, ?_, h3⟩
          rw [stepSync]
          simp only [hci, hp, hres]
          exact h2

/-- a successful (prefix of a) sync superstep never removes a value from the working copy -/
theorem stepSync_ok_has : ∀ (rs : List NodeD) (ns : GState) (log : List Log) {ns' : GState} {log' : List Log},
    stepSync nested sem gi g span k s rs ns log = .ok ns' log' →
    ∀ key, AL.has ns.values key = true → AL.has ns'.values key = true := by
  intro rs
  induction rs with
  | nil => intro ns log ns' log' h key hk; simp only [stepSync] at h; injection h with h1 h2; exact h1 ▸ hk
  | cons nd rest ih =>
    intro ns log ns' log' h key hk
    rw [stepSync] at h
    split at h
    next => cases h
    next inputs hci =>
      dsimp only at h
      split at h
      next => cases h
      next hp =>
        split at h
        next => cases h
        next outs hres =>
          refine ih _ _ h key ?_
          simp only [recordExec]
          apply has_applyOutputs
          split <;> exact hk
end stepSync

end HG
