import HG.Model.Run
/-! Definitions shared by several lemma files. -/
namespace HG

def StepOut.log : StepOut → List Log
  | .ok _ l => l
  | .fail _ _ l => l
  | .pause _ _ l => l

end HG
