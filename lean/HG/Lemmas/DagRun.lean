import HG.Lemmas.DagStep
/-! # HG.Lemmas.DagRun — the runner loop reaches quiescence level by level; the call log -/
namespace HG.C01
variable {sem : Sem} {g : GraphD} {values : AL Val} {level : Name → Nat}

/-- the step function `runGraph` hands to `runLoop` for the sync runner -/
def syncStep (nested : Nested) (sem : Sem) (gi : Nat) (g : GraphD) (span : Span) :
    Nat → GState → List NodeD → StepOut :=
  fun k s rs => stepSync nested sem gi g span k s rs s []

/-- the node-function invocations recorded in a log, in order -/
def callsOf : List Log → List (String × AL Val)
  | [] => []
  | .call f a :: t => (f, a) :: callsOf t
  | .ev _ :: t => callsOf t
  | .shutdown :: t => callsOf t

theorem callsOf_append (a b : List Log) : callsOf (a ++ b) = callsOf a ++ callsOf b := by
  induction a with
  | nil => rfl
  | cons x t ih => cases x <;> simp [callsOf, ih]

/-- the arguments node `nd` collects in state `s` (current names) -/
def argsIn (g : GraphD) (s : GState) (nd : NodeD) : AL Val := (collectInputs g s nd nd.inputs).getD []

/-- the invocation of `nd` on the arguments it collects in `s` -/
def callIn (gi : Nat) (g : GraphD) (s : GState) (nd : NodeD) : String × AL Val :=
  (fnId gi nd, toParams nd (argsIn g s nd))

theorem callsOf_nodeLog (gi : Nat) (span : Span) (k : Nat) (s : GState) {nd : NodeD}
    (h : (collectInputs g s nd nd.inputs).isSome = true) :
    callsOf (nodeLog gi g span k s nd) = [callIn gi g s nd] := by
  obtain ⟨a, ha⟩ := Option.isSome_iff_exists.mp h
  simp [nodeLog, callIn, argsIn, ha, callsOf]

theorem callsOf_stepLog (gi : Nat) (span : Span) (k : Nat) (s : GState) :
    ∀ rs : List NodeD, (∀ r ∈ rs, (collectInputs g s r r.inputs).isSome = true) →
      callsOf (rs.flatMap (nodeLog gi g span k s)) = rs.map (callIn gi g s) := by
  intro rs
  induction rs with
  | nil => intro _; rfl
  | cons r rs ih =>
    intro h
    rw [List.flatMap_cons, callsOf_append, callsOf_nodeLog gi span k s (h r (List.mem_cons_self ..)),
      ih (fun r' hr' => h r' (List.mem_cons_of_mem _ hr'))]
    rfl

/-- the calls logged after `k` supersteps: one per satisfiable node below level `k`, on the
arguments that node collects in the current state -/
def LogInv (gi : Nat) (g : GraphD) (values : AL Val) (level : Name → Nat) (k : Nat) (s : GState)
    (l : List Log) : Prop :=
  ∃ order : List NodeD, order.Nodup ∧
    (∀ n, n ∈ order ↔ n ∈ g.nodes ∧ level n.name < k ∧ Satisfiable g values n) ∧
    callsOf l = order.map (callIn gi g s)

theorem map_congr_mem {α β} (l : List α) (f h : α → β) (e : ∀ a ∈ l, f a = h a) : l.map f = l.map h := by
  induction l with
  | nil => rfl
  | cons a t ih =>
    simp only [List.map_cons]
    rw [e a (List.mem_cons_self ..), ih (fun b hb => e b (List.mem_cons_of_mem _ hb))]

theorem logInv_step (hW : WF g values level) (hs : SemTotal sem g) (gi : Nat) (span : Span) {k : Nat} {s : GState}
    (hI : Inv sem g values level k s) {l : List Log} (hL : LogInv gi g values level k s l) :
    LogInv gi g values level (k + 1) ((readyL g s).foldl (execOne sem g s) s)
      (l ++ (readyL g s).flatMap (nodeLog gi g span k s)) := by
  have hF := stepFacts hW hs hI
  obtain ⟨order, hnd, hmem, hcalls⟩ := hL
  refine ⟨order ++ readyL g s, ?_, ?_, ?_⟩
  · rw [List.nodup_append]
    refine ⟨hnd, (hW.up.nodes_nodup).sublist (readyL_sublist g s), ?_⟩
    intro a ha b hb e
    subst e
    have h1 := ((hmem a).mp ha).2.1
    have h2 := ((hF.mem a).mp hb).2.1
    omega
  · intro n
    rw [List.mem_append, hmem n, hF.mem n]
    constructor
    · rintro (⟨h1, h2, h3⟩ | ⟨h1, h2, h3⟩)
      · exact ⟨h1, by omega, h3⟩
      · exact ⟨h1, by omega, h3⟩
    · rintro ⟨h1, h2, h3⟩
      by_cases e : level n.name = k
      · exact Or.inr ⟨h1, e, h3⟩
      · exact Or.inl ⟨h1, by omega, h3⟩
  · have hsame : ∀ n ∈ order ++ readyL g s,
        callIn gi g ((readyL g s).foldl (execOne sem g s) s) n = callIn gi g s n := by
      intro n hn
      have hle : n ∈ g.nodes ∧ level n.name ≤ k := by
        rcases List.mem_append.mp hn with h | h
        · have := (hmem n).mp h; exact ⟨this.1, by omega⟩
        · have := (hF.mem n).mp h; exact ⟨this.1, by omega⟩
      unfold callIn argsIn
      rw [hF.keep_coll n hle.1 hle.2]
    rw [map_congr_mem _ _ _ hsame, callsOf_append, hcalls,
      callsOf_stepLog gi span k s _ (fun r hr => ready_collect hW hr), List.map_append]

theorem runLoop_zero (step : Nat → GState → List NodeD → StepOut) (hW : WF g values level)
    (maxIter k : Nat) (s : GState) (log : List Log) (hr : readyL g s = []) :
    runLoop step g .none maxIter 0 k s log = .done s log k := by
  simp [runLoop, ready_eq_readyL hW.fn.gateFree hW.nw, hr]

theorem runLoop_succ_nil (step : Nat → GState → List NodeD → StepOut) (hW : WF g values level)
    (maxIter fuel k : Nat) (s : GState) (log : List Log) (hr : readyL g s = []) :
    runLoop step g .none maxIter (fuel + 1) k s log = .done s log k := by
  simp [runLoop, ready_eq_readyL hW.fn.gateFree hW.nw, hr]

theorem runLoop_succ_cons (step : Nat → GState → List NodeD → StepOut) (hW : WF g values level)
    (maxIter fuel k : Nat) (s : GState) (log : List Log) {r : NodeD} {rs : List NodeD}
    (hr : readyL g s = r :: rs) {ns : GState} {l : List Log} (hstep : step k s (r :: rs) = .ok ns l) :
    runLoop step g .none maxIter (fuel + 1) k s log =
      runLoop step g .none maxIter fuel (k + 1) ns (log ++ l) := by
  rw [runLoop]
  simp only [ready_eq_readyL hW.fn.gateFree hW.nw, hr, hstep]

theorem syncStep_ready (nested : Nested) (hW : WF g values level) (hs : SemTotal sem g) (gi : Nat) (span : Span)
    (k : Nat) (s : GState) :
    syncStep nested sem gi g span k s (readyL g s) =
      .ok ((readyL g s).foldl (execOne sem g s) s) ((readyL g s).flatMap (nodeLog gi g span k s)) := by
  unfold syncStep
  rw [stepSync_ok nested hs gi span k s (readyL g s) s []
    (fun r hr => ⟨(mem_readyL.mp hr).1, hW.fn r (mem_readyL.mp hr).1, ready_collect hW hr⟩)]
  simp

/-- whole run: with enough fuel the loop ends `done`, quiescent, after at most `H` steps, in a state
satisfying the invariant, with one logged call per node that ran -/
theorem run_reaches (nested : Nested) (hW : WF g values level) (hs : SemTotal sem g) (gi : Nat) (span : Span)
    (H : Nat) (hH : ∀ n ∈ g.nodes, level n.name < H) (maxIter : Nat) (log₀ : List Log) :
    ∀ (fuel k : Nat) (s : GState) (l : List Log),
      Inv sem g values level k s → LogInv gi g values level k s l → H ≤ k + fuel → k ≤ H →
      ∃ k' s' l', runLoop (syncStep nested sem gi g span) g .none maxIter fuel k s (log₀ ++ l) =
            .done s' (log₀ ++ l') k' ∧
          Inv sem g values level k' s' ∧ LogInv gi g values level k' s' l' ∧ readyL g s' = [] ∧ k' ≤ H := by
  intro fuel
  induction fuel with
  | zero =>
    intro k s l hI hL hk hkH
    have hr : readyL g s = [] := by
      apply List.eq_nil_iff_forall_not_mem.mpr
      intro n hn
      have := (ready_iff hW hI n).mp hn
      have := hH n this.1
      omega
    exact ⟨k, s, l, runLoop_zero _ hW maxIter k s _ hr, hI, hL, hr, hkH⟩
  | succ fuel ih =>
    intro k s l hI hL hk hkH
    cases hr : readyL g s with
    | nil => exact ⟨k, s, l, runLoop_succ_nil _ hW maxIter fuel k s _ hr, hI, hL, hr, hkH⟩
    | cons r rs =>
      have hstep := syncStep_ready nested hW hs gi span k s
      have hI' := inv_step hW hs hI
      have hL' := logInv_step hW hs gi span hI hL
      have hk1 : k + 1 ≤ H := by
        have hrm : r ∈ readyL g s := by rw [hr]; exact List.mem_cons_self ..
        have := (ready_iff hW hI r).mp hrm
        have := hH r this.1
        omega
      rw [hr] at hstep
      rw [runLoop_succ_cons _ hW maxIter fuel k s _ hr hstep, List.append_assoc]
      rw [hr] at hI' hL'
      exact ih (k + 1) _ _ hI' hL' (by omega) hk1

/-- the initial state satisfies the invariant at level 0 -/
theorem inv_init (hW : WF g values level) : Inv sem g values level 0 (initState values) := by
  have hu : ∀ n ∈ g.nodes, Untouched (initState values) n := by
    intro n hn
    refine ⟨by rw [initState_execs]; rfl, fun o ho => ?_⟩
    rw [← has_eq_false_iff, initState_has]; exact hW.nf.fresh n hn o ho
  refine ⟨fun p _ => rfl, ?_, fun n hn _ => hu n hn, fun n hn _ => hu n hn⟩
  intro n _ hl; omega

theorem logInv_init (gi : Nat) : LogInv gi g values level 0 (initState values) [] :=
  ⟨[], List.nodup_nil, fun n => by simp, rfl⟩

/-- at quiescence every satisfiable node lies below the reached level -/
theorem sat_below_of_quiescent (hW : WF g values level) {k : Nat} {s : GState}
    (hI : Inv sem g values level k s) (hq : readyL g s = []) {n : NodeD} (hn : n ∈ g.nodes)
    (hsat : Satisfiable g values n) : level n.name < k := by
  apply Classical.byContradiction; intro hge
  have : ∀ d (m : NodeD), m ∈ g.nodes → Satisfiable g values m → level m.name = k + d → False := by
    intro d
    induction d using Nat.strongRecOn with
    | _ d ih =>
      intro m hm hms hml
      by_cases hd : d = 0
      · subst hd
        have : m ∈ readyL g s := (ready_iff hW hI m).mpr ⟨hm, by omega, hms⟩
        rw [hq] at this; cases this
      · rcases hW.lv.tight m hm with h0 | ⟨p, hp, m', hm', ho, hl'⟩
        · omega
        · cases hms with
          | mk _ _ _ hprod =>
            have hs' := hprod p hp m' ⟨hm', ho⟩ (hW.nf.fed m hm p hp m' hm' ho)
            exact ih (d - 1) (by omega) m' hm' hs' (by omega)
  exact this (level n.name - k) n hn hsat (by omega)

end HG.C01
