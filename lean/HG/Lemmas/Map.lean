import HG.Model.Run
/-! # HG.Lemmas.Map — helper definitions and lemmas for the `map` feature (C10)

Helpers only; the property theorems live in `HG/Props/C10.lean`. -/
namespace HG

/-! ## association lists: `merge` -/
namespace AL
variable {α : Type}

theorem get?_merge_of_not_mem (a b : AL α) (k : Name) (h : k ∉ keys b) :
    get? (merge a b) k = get? a k := by
  unfold merge
  induction b generalizing a with
  | nil => rfl
  | cons hd t ih =>
    obtain ⟨k0, v0⟩ := hd
    simp only [keys, List.map_cons, List.mem_cons, not_or] at h
    simp only [List.foldl_cons]
    rw [ih _ (by simpa [keys] using h.2)]
    exact get?_put_other _ _ _ _ h.1

theorem get?_merge_of_mem (a b : AL α) (k : Name) (v : α) (hnd : (keys b).Nodup)
    (h : (k, v) ∈ b) : get? (merge a b) k = some v := by
  induction b generalizing a with
  | nil => cases h
  | cons hd t ih =>
    obtain ⟨k0, v0⟩ := hd
    simp only [keys, List.map_cons, List.nodup_cons] at hnd
    have hstep : merge a ((k0, v0) :: t) = merge (put a k0 v0) t := rfl
    rw [hstep]
    rcases List.mem_cons.1 h with heq | hin
    · cases heq
      rw [get?_merge_of_not_mem _ _ _ (by simpa [keys] using hnd.1)]
      exact get?_put_same _ _ _
    · exact ih _ (by simpa [keys] using hnd.2) hin

theorem get?_map_val {β : Type} (f : Name → α → β) (m : AL α) (k : Name) :
    get? (m.map fun kv => (kv.1, f kv.1 kv.2)) k = (get? m k).map (f k) := by
  induction m with
  | nil => rfl
  | cons hd t ih =>
    obtain ⟨a, w⟩ := hd
    by_cases hk : k = a
    · subst hk; simp [get?]
    · simp only [List.map_cons, get?, hk, if_false]; exact ih

theorem get?_of_keys (ks : List Name) (f : Name → α) (k : Name) (h : k ∈ ks) :
    get? (ks.map fun o => (o, f o)) k = some (f k) := by
  induction ks with
  | nil => cases h
  | cons a t ih =>
    by_cases hk : k = a
    · subst hk; simp [get?]
    · simp only [List.map_cons, get?, hk, if_false]
      exact ih (by simpa [hk] using h)

end AL


/-! ## `generate_map_inputs`: zip -/

/-- the `i`-th zip item -/
def zipItem (mapped : AL (List Val)) (bcast : AL Val) (i : Nat) : AL Val :=
  AL.merge bcast (mapped.map fun kv => (kv.1, kv.2.getD i .none))

theorem zipInputs_cons_ok (k0 : Name) (l0 : List Val) (rest : AL (List Val)) (bcast : AL Val)
    (h : ∀ kl ∈ (k0, l0) :: rest, kl.2.length = l0.length) :
    zipInputs ((k0, l0) :: rest) bcast
      = .ok ((List.range l0.length).map (zipItem ((k0, l0) :: rest) bcast)) := by
  unfold zipInputs
  have : (((k0, l0) :: rest).any fun kv => kv.2.length != l0.length) = false := by
    rw [List.any_eq_false]
    intro kl hkl
    simpa using h kl hkl
  simp only [this, Bool.false_eq_true, if_false]
  rfl

theorem zipInputs_cons_err (k0 : Name) (l0 : List Val) (rest : AL (List Val)) (bcast : AL Val)
    (h : ∃ kl ∈ (k0, l0) :: rest, kl.2.length ≠ l0.length) :
    zipInputs ((k0, l0) :: rest) bcast = .error (.valueError "zip") := by
  unfold zipInputs
  have : (((k0, l0) :: rest).any fun kv => kv.2.length != l0.length) = true := by
    rw [List.any_eq_true]
    obtain ⟨kl, hkl, hne⟩ := h
    exact ⟨kl, hkl, by simpa using hne⟩
  simp only [this, if_true]

/-- success of `zipInputs` on a non-empty `mapped` means all lengths agree -/
theorem zipInputs_cons_ok_iff (k0 : Name) (l0 : List Val) (rest : AL (List Val)) (bcast : AL Val)
    (items : List (AL Val)) (h : zipInputs ((k0, l0) :: rest) bcast = .ok items) :
    (∀ kl ∈ (k0, l0) :: rest, kl.2.length = l0.length) ∧
    items = (List.range l0.length).map (zipItem ((k0, l0) :: rest) bcast) := by
  by_cases hall : ∀ kl ∈ (k0, l0) :: rest, kl.2.length = l0.length
  · rw [zipInputs_cons_ok _ _ _ _ hall] at h
    cases h
    exact ⟨hall, rfl⟩
  · have : ∃ kl ∈ (k0, l0) :: rest, kl.2.length ≠ l0.length := by
      apply Classical.byContradiction
      intro hno
      apply hall
      intro kl hkl
      apply Classical.byContradiction
      intro hne
      exact hno ⟨kl, hkl, hne⟩
    rw [zipInputs_cons_err _ _ _ _ this] at h
    cases h

theorem get?_zipItem_bcast (mapped : AL (List Val)) (bcast : AL Val) (i : Nat) (k : Name)
    (hk : k ∉ AL.keys mapped) : AL.get? (zipItem mapped bcast i) k = AL.get? bcast k := by
  unfold zipItem
  apply AL.get?_merge_of_not_mem
  simpa [AL.keys, List.map_map, Function.comp_def] using hk

theorem get?_zipItem_mapped (mapped : AL (List Val)) (bcast : AL Val) (i : Nat) (k : Name)
    (l : List Val) (hnd : (AL.keys mapped).Nodup) (hkl : (k, l) ∈ mapped) :
    AL.get? (zipItem mapped bcast i) k = some (l.getD i .none) := by
  unfold zipItem
  apply AL.get?_merge_of_mem
  · simpa [AL.keys, List.map_map, Function.comp_def] using hnd
  · exact List.mem_map.2 ⟨(k, l), hkl, rfl⟩

/-! ## `generate_map_inputs`: product -/

theorem length_flatMap_map {α β γ : Type} (l : List α) (ts : List β) (f : α → β → γ) :
    (l.flatMap fun v => ts.map (f v)).length = l.length * ts.length := by
  induction l with
  | nil => simp
  | cons a l ih =>
    simp only [List.flatMap_cons, List.length_append, List.length_map, ih, List.length_cons]
    rw [Nat.add_mul, Nat.one_mul, Nat.add_comm]

/-- row-major indexing into `l.flatMap fun v => ts.map (f v)` -/
theorem getElem?_flatMap_map {α β γ : Type} (l : List α) (ts : List β) (f : α → β → γ)
    (i j : Nat) (hi : i < l.length) (hj : j < ts.length) :
    (l.flatMap fun v => ts.map (f v))[i * ts.length + j]? = some (f l[i] ts[j]) := by
  induction l generalizing i with
  | nil => cases hi
  | cons a l ih =>
    simp only [List.flatMap_cons]
    cases i with
    | zero =>
      rw [List.getElem?_append_left (by simpa using hj)]
      simp [hj]
    | succ i =>
      have hi' : i < l.length := by simpa using hi
      rw [List.getElem?_append_right (by simp [Nat.add_mul]; omega)]
      have : (i + 1) * ts.length + j - (ts.map (f a)).length = i * ts.length + j := by
        simp [Nat.add_mul]; omega
      rw [this, ih i hi']
      simp

theorem productCombos_cons (k : Name) (vs : List Val) (rest : AL (List Val)) :
    productCombos ((k, vs) :: rest)
      = vs.flatMap fun v => (productCombos rest).map fun t => (k, v) :: t := rfl

theorem productCombos_length (mapped : AL (List Val)) :
    (productCombos mapped).length = (mapped.map fun kv => kv.2.length).prod := by
  induction mapped with
  | nil => rfl
  | cons hd t ih =>
    obtain ⟨k, vs⟩ := hd
    rw [productCombos_cons, length_flatMap_map, ih]
    simp

theorem productCombos_keys (mapped : AL (List Val)) :
    ∀ c ∈ productCombos mapped, AL.keys c = AL.keys mapped := by
  induction mapped with
  | nil => intro c hc; simp [productCombos] at hc; subst hc; rfl
  | cons hd t ih =>
    obtain ⟨k, vs⟩ := hd
    intro c hc
    rw [productCombos_cons] at hc
    simp only [List.mem_flatMap, List.mem_map] at hc
    obtain ⟨v, _, t', ht', rfl⟩ := hc
    have := ih t' ht'
    simp only [AL.keys] at this
    simp [AL.keys, this]

theorem productCombos_eq_nil (mapped : AL (List Val)) (h : ∃ kl ∈ mapped, kl.2 = []) :
    productCombos mapped = [] := by
  apply List.eq_nil_of_length_eq_zero
  rw [productCombos_length]
  obtain ⟨kl, hkl, he⟩ := h
  induction mapped with
  | nil => cases hkl
  | cons hd t ih =>
    simp only [List.map_cons, List.prod_cons]
    rcases List.mem_cons.1 hkl with heq | hin
    · subst heq; simp [he]
    · rw [ih hin]; simp

theorem productInputs_length (mapped : AL (List Val)) (bcast : AL Val) :
    (productInputs mapped bcast).length = (mapped.map fun kv => kv.2.length).prod := by
  cases mapped with
  | nil => rfl
  | cons hd t =>
    simp only [productInputs, List.length_map]
    exact productCombos_length _

theorem productInputs_getElem? (mapped : AL (List Val)) (bcast : AL Val) (hne : mapped ≠ []) (n : Nat) :
    (productInputs mapped bcast)[n]? = ((productCombos mapped)[n]?).map (AL.merge bcast) := by
  cases mapped with
  | nil => exact absurd rfl hne
  | cons hd t => simp [productInputs]



/-! ## `generate_map_inputs` as a whole -/

/-- the list bound to the mapped key `k` (empty when absent / not a sequence) -/
def mapList (values : AL Val) (k : Name) : List Val := ((AL.get? values k).bind Val.seqItems).getD []

/-- the mapped lists in `map_over` order -/
def mappedLists (values : AL Val) (mapOver : List Name) : AL (List Val) :=
  mapOver.map fun k => (k, mapList values k)

/-- the broadcast values -/
def bcastOf (values : AL Val) (mapOver : List Name) : AL Val :=
  values.filter fun kv => !mapOver.contains kv.1

theorem keys_mappedLists (values : AL Val) (mapOver : List Name) :
    AL.keys (mappedLists values mapOver) = mapOver := by
  simp [AL.keys, mappedLists, List.map_map, Function.comp_def]

theorem generateMapInputs_eq (values : AL Val) (mapOver : List Name) (mode : MapMode)
    (hseq : ∀ k ∈ mapOver, ((AL.get? values k).bind Val.seqItems).isSome) :
    generateMapInputs values mapOver mode
      = match mode with
        | .zip => zipInputs (mappedLists values mapOver) (bcastOf values mapOver)
        | .product => .ok (productInputs (mappedLists values mapOver) (bcastOf values mapOver)) := by
  unfold generateMapInputs
  have : ((mapOver.map fun k => (k, (AL.get? values k).bind Val.seqItems)).any fun kv => kv.2.isNone) = false := by
    rw [List.any_eq_false]
    intro kv hkv
    obtain ⟨k, hk, rfl⟩ := List.mem_map.1 hkv
    have := hseq k hk
    simp only [Bool.not_eq_true, Option.isNone_eq_false_iff]
    exact this
  simp only [this, Bool.false_eq_true, if_false, List.map_map, Function.comp_def]
  rfl

theorem generateMapInputs_seq (values : AL Val) (mapOver : List Name) (mode : MapMode)
    (items : List (AL Val)) (h : generateMapInputs values mapOver mode = .ok items) :
    ∀ k ∈ mapOver, ((AL.get? values k).bind Val.seqItems).isSome := by
  intro k hk
  cases hs : ((AL.get? values k).bind Val.seqItems) with
  | some l => rfl
  | none =>
    exfalso
    unfold generateMapInputs at h
    have : ((mapOver.map fun k => (k, (AL.get? values k).bind Val.seqItems)).any fun kv => kv.2.isNone) = true := by
      rw [List.any_eq_true]
      exact ⟨(k, (AL.get? values k).bind Val.seqItems), List.mem_map.2 ⟨k, hk, rfl⟩, by simp [hs]⟩
    simp only [this, if_true] at h
    cases h

theorem generateMapInputs_not_seq (values : AL Val) (mapOver : List Name) (mode : MapMode) (k : Name)
    (hk : k ∈ mapOver) (hs : (AL.get? values k).bind Val.seqItems = .none) :
    generateMapInputs values mapOver mode = .error (.typeError "map_over") := by
  unfold generateMapInputs
  have : ((mapOver.map fun k => (k, (AL.get? values k).bind Val.seqItems)).any fun kv => kv.2.isNone) = true := by
    rw [List.any_eq_true]
    exact ⟨(k, (AL.get? values k).bind Val.seqItems), List.mem_map.2 ⟨k, hk, rfl⟩, by simp [hs]⟩
  simp only [this, if_true]

theorem generateMapInputs_zip (values : AL Val) (mapOver : List Name) (items : List (AL Val))
    (h : generateMapInputs values mapOver .zip = .ok items) :
    zipInputs (mappedLists values mapOver) (bcastOf values mapOver) = .ok items := by
  rw [generateMapInputs_eq _ _ _ (generateMapInputs_seq _ _ _ _ h)] at h
  exact h

theorem generateMapInputs_product (values : AL Val) (mapOver : List Name) (items : List (AL Val))
    (h : generateMapInputs values mapOver .product = .ok items) :
    items = productInputs (mappedLists values mapOver) (bcastOf values mapOver) := by
  rw [generateMapInputs_eq _ _ _ (generateMapInputs_seq _ _ _ _ h)] at h
  cases h; rfl

/-- the first element satisfying `p`, given by position -/
theorem find?_eq_of_first {α : Type} (p : α → Bool) (l : List α) (n : Nat) (hn : n < l.length)
    (hp : p l[n] = true) (hpre : ∀ j (hj : j < l.length), j < n → p l[j] = false) :
    l.find? p = some l[n] := by
  induction l generalizing n with
  | nil => cases hn
  | cons a l ih =>
    cases n with
    | zero =>
      have : p a = true := by simpa using hp
      simp [this]
    | succ n =>
      have ha : p a = false := hpre 0 (by simp) (by omega)
      simp only [List.find?_cons, ha, List.getElem_cons_succ]
      exact ih n (by simpa using hn) (by simpa using hp)
        (fun j hj hjn => hpre (j + 1) (by simpa using hj) (by omega))

theorem find?_eq_none_of_all {α : Type} (p : α → Bool) (l : List α)
    (h : ∀ j (hj : j < l.length), p l[j] = false) : l.find? p = none := by
  rw [List.find?_eq_none]
  intro x hx
  obtain ⟨j, hj, rfl⟩ := List.getElem_of_mem hx
  simp [h j hj]

/-! ## `runner.map`: per-item runs -/

def isFailed (r : RunOut) : Bool := r.status == .failed

/-- the prefix of `l` up to and including the first element satisfying `p` (all of `l` if none) -/
def takeThrough {α : Type} (p : α → Bool) : List α → List α
  | [] => []
  | a :: l => if p a then [a] else a :: takeThrough p l

theorem takeThrough_eq_take {α : Type} (p : α → Bool) (l : List α) :
    takeThrough p l = l.take (l.findIdx p + 1) := by
  induction l with
  | nil => rfl
  | cons a l ih =>
    by_cases h : p a = true
    · simp [takeThrough, h, List.findIdx_cons]
    · simp [takeThrough, h, List.findIdx_cons, ih]

theorem takeThrough_of_find?_none {α : Type} (p : α → Bool) (l : List α) (h : l.find? p = none) :
    takeThrough p l = l := by
  induction l with
  | nil => rfl
  | cons a l ih =>
    by_cases ha : p a = true
    · simp [ha] at h
    · simp only [List.find?_cons] at h
      have ha' : p a = false := by simpa using ha
      rw [ha'] at h
      simp [takeThrough, ha', ih h]

theorem takeThrough_getElem? {α : Type} (p : α → Bool) (l : List α) (i : Nat)
    (h : ∀ j (hj : j < l.length), j < i → p l[j] = false) :
    (takeThrough p l)[i]? = l[i]? := by
  induction l generalizing i with
  | nil => rfl
  | cons a l ih =>
    cases i with
    | zero => by_cases ha : p a = true <;> simp [takeThrough, ha]
    | succ i =>
      have ha : p a = false := h 0 (by simp) (by omega)
      simp only [takeThrough, ha, Bool.false_eq_true, if_false, List.getElem?_cons_succ]
      apply ih
      intro j hj hji
      exact h (j + 1) (by simpa using hj) (by omega)

/-- first failing element and its position -/
theorem takeThrough_length_of_find {α : Type} (p : α → Bool) (l : List α) (n : Nat)
    (hn : n < l.length) (hp : p l[n] = true) (hpre : ∀ j (hj : j < l.length), j < n → p l[j] = false) :
    (takeThrough p l).length = n + 1 := by
  induction l generalizing n with
  | nil => cases hn
  | cons a l ih =>
    cases n with
    | zero =>
      have : p a = true := by simpa using hp
      simp [takeThrough, this]
    | succ n =>
      have ha : p a = false := hpre 0 (by simp) (by omega)
      simp only [takeThrough, ha, Bool.false_eq_true, if_false, List.length_cons]
      rw [ih n (by simpa using hn) (by simpa using hp)
        (fun j hj hjn => hpre (j + 1) (by simpa using hj) (by omega))]

/-- run the items `vs`, numbering them from `i` -/
def runsFrom (runItem : AL Val → Span → RunOut) (span : Span) : Nat → List (AL Val) → List RunOut
  | _, [] => []
  | i, v :: vs => runItem v (span ++ [toString i]) :: runsFrom runItem span (i + 1) vs

/-- the independent runs of all map items -/
def itemRuns (runItem : AL Val → Span → RunOut) (span : Span) (items : List (AL Val)) : List RunOut :=
  runsFrom runItem span 0 items

theorem runsFrom_length (runItem : AL Val → Span → RunOut) (span : Span) (i : Nat) (vs : List (AL Val)) :
    (runsFrom runItem span i vs).length = vs.length := by
  induction vs generalizing i with
  | nil => rfl
  | cons v vs ih => simp [runsFrom, ih]

theorem runsFrom_getElem? (runItem : AL Val → Span → RunOut) (span : Span) (i j : Nat)
    (vs : List (AL Val)) :
    (runsFrom runItem span i vs)[j]? = (vs[j]?).map fun v => runItem v (span ++ [toString (i + j)]) := by
  induction vs generalizing i j with
  | nil => rfl
  | cons v vs ih =>
    cases j with
    | zero => simp [runsFrom]
    | succ j =>
      simp only [runsFrom, List.getElem?_cons_succ]
      rw [ih (i + 1) j]
      have : i + 1 + j = i + (j + 1) := by omega
      rw [this]

theorem itemRuns_length (runItem : AL Val → Span → RunOut) (span : Span) (items : List (AL Val)) :
    (itemRuns runItem span items).length = items.length := runsFrom_length _ _ _ _

theorem itemRuns_getElem? (runItem : AL Val → Span → RunOut) (span : Span) (items : List (AL Val))
    (i : Nat) :
    (itemRuns runItem span items)[i]? = (items[i]?).map fun v => runItem v (span ++ [toString i]) := by
  unfold itemRuns
  rw [runsFrom_getElem?]; simp

theorem itemRuns_getElem (runItem : AL Val → Span → RunOut) (span : Span) (items : List (AL Val))
    (i : Nat) (hi : i < items.length) (hi' : i < (itemRuns runItem span items).length) :
    (itemRuns runItem span items)[i] = runItem items[i] (span ++ [toString i]) := by
  have := itemRuns_getElem? runItem span items i
  rw [List.getElem?_eq_getElem hi', List.getElem?_eq_getElem hi] at this
  simpa using this

theorem itemRuns_eq_range (runItem : AL Val → Span → RunOut) (span : Span) (items : List (AL Val)) :
    itemRuns runItem span items
      = (List.range items.length).map fun i => runItem (items.getD i []) (span ++ [toString i]) := by
  apply List.ext_getElem?
  intro i
  rw [itemRuns_getElem?]
  by_cases hi : i < items.length
  · simp [hi, List.getD_eq_getElem?_getD]
  · simp [hi]

theorem goSync_results (runItem : AL Val → Span → RunOut) (g : GraphD) (em : ErrMode) (span : Span)
    (parent : Option Span) (shut : List Log) (vs : List (AL Val)) (i : Nat) (acc : List RunOut)
    (log : List Log) :
    (mapGraph.goSync runItem g em span parent shut vs i acc log).results
      = acc ++ (if em == .raise then takeThrough isFailed (runsFrom runItem span i vs)
                else runsFrom runItem span i vs) := by
  induction vs generalizing i acc log with
  | nil => simp [mapGraph.goSync, runsFrom, takeThrough]
  | cons v vs ih =>
    unfold mapGraph.goSync
    simp only [runsFrom]
    generalize runItem v (span ++ [toString i]) = r
    cases em with
    | cont =>
      have := ih (i + 1) (acc ++ [r]) (log ++ r.log)
      simp at this
      simp [this]
    | raise =>
      have := ih (i + 1) (acc ++ [r]) (log ++ r.log)
      simp only [beq_self_eq_true, if_true] at this
      by_cases hs : r.status = .failed
      · simp [hs, takeThrough, isFailed]
      · simp [hs, takeThrough, isFailed, this]

theorem goSync_raised (runItem : AL Val → Span → RunOut) (g : GraphD) (em : ErrMode) (span : Span)
    (parent : Option Span) (shut : List Log) (vs : List (AL Val)) (i : Nat) (acc : List RunOut)
    (log : List Log) :
    (mapGraph.goSync runItem g em span parent shut vs i acc log).raised
      = if em == .raise then ((runsFrom runItem span i vs).find? isFailed).bind (·.error) else .none := by
  induction vs generalizing i acc log with
  | nil => simp [mapGraph.goSync, runsFrom]
  | cons v vs ih =>
    unfold mapGraph.goSync
    simp only [runsFrom]
    generalize runItem v (span ++ [toString i]) = r
    cases em with
    | cont =>
      have := ih (i + 1) (acc ++ [r]) (log ++ r.log)
      simp at this
      simp [this]
    | raise =>
      have := ih (i + 1) (acc ++ [r]) (log ++ r.log)
      simp only [beq_self_eq_true, if_true] at this
      by_cases hs : r.status = .failed
      · simp [hs, isFailed]
      · simp [hs, isFailed, this]

/-- results of `mapGraph` in terms of the independent item runs -/
theorem mapGraph_results (runItem : AL Val → Span → RunOut) (isSync : Bool) (g : GraphD)
    (values : AL Val) (mapOver : List Name) (mode : MapMode) (em : ErrMode) (span : Span)
    (parent : Option Span) (items : List (AL Val))
    (hgen : generateMapInputs values mapOver mode = .ok items) :
    (mapGraph runItem isSync g values mapOver mode em span parent).results
      = if (isSync && em == .raise) then takeThrough isFailed (itemRuns runItem span items)
        else itemRuns runItem span items := by
  unfold mapGraph
  rw [hgen]
  cases items with
  | nil => simp [itemRuns, runsFrom, takeThrough]
  | cons v vs =>
    simp only []
    cases isSync with
    | true =>
      simp only [if_true, goSync_results, List.nil_append, Bool.true_and]
      rfl
    | false =>
      simp only [Bool.false_eq_true, if_false, Bool.false_and]
      rw [itemRuns_eq_range]
      split <;> rfl

/-- the raised error of `mapGraph` in terms of the independent item runs -/
theorem mapGraph_raised (runItem : AL Val → Span → RunOut) (isSync : Bool) (g : GraphD)
    (values : AL Val) (mapOver : List Name) (mode : MapMode) (em : ErrMode) (span : Span)
    (parent : Option Span) (items : List (AL Val))
    (hgen : generateMapInputs values mapOver mode = .ok items) :
    (mapGraph runItem isSync g values mapOver mode em span parent).raised
      = if em == .raise then ((itemRuns runItem span items).find? isFailed).bind (·.error) else .none := by
  unfold mapGraph
  rw [hgen]
  cases items with
  | nil => simp [itemRuns, runsFrom]
  | cons v vs =>
    simp only []
    cases isSync with
    | true =>
      simp only [if_true, goSync_raised]
      rfl
    | false =>
      simp only [Bool.false_eq_true, if_false]
      rw [itemRuns_eq_range]
      cases em with
      | cont => simp
      | raise =>
        simp only [beq_self_eq_true, if_true]
        split
        · next r hr =>
          have hf : isFailed = fun x : RunOut => x.status == Status.failed := rfl
          rw [hf, hr]; rfl
        · next hr =>
          have hf : isFailed = fun x : RunOut => x.status == Status.failed := rfl
          rw [hf, hr]; rfl

theorem mapGraph_gen_error (runItem : AL Val → Span → RunOut) (isSync : Bool) (g : GraphD)
    (values : AL Val) (mapOver : List Name) (mode : MapMode) (em : ErrMode) (span : Span)
    (parent : Option Span) (e : ErrId)
    (hgen : generateMapInputs values mapOver mode = .error e) :
    mapGraph runItem isSync g values mapOver mode em span parent = { raised := some e } := by
  unfold mapGraph
  rw [hgen]

/-- a failed run always carries an error -/
theorem runGraph_failed_error (nested : Nested) (sem : Sem) (runner : Runner) (gi : Nat) (g : GraphD)
    (values : AL Val) (cfg : RunCfg) (span : Span) (parent : Option Span)
    (h : (runGraph nested sem runner gi g values cfg span parent).status = .failed) :
    ∃ e, (runGraph nested sem runner gi g values cfg span parent).error = some e := by
  revert h
  unfold runGraph
  simp only []
  split
  · split
    · intro h; cases h
    · cases hm : cfg.errMode <;> simp
  · cases hm : cfg.errMode <;> simp
  · intro h; cases h

/-- the run `runner.map` performs for item `v` with index `i` -/
def mapItemRun (sem : Sem) (runner : Runner) (prog : Program) (root : Nat) (cfg : RunCfg)
    (v : AL Val) (i : Nat) : RunOut :=
  runGraph (nestedAt sem runner prog prog.length) sem runner root (prog.getD root default) v
    { cfg with errMode := .cont } ["m", toString i] (some ["m"])

/-- all item runs of a top-level `map` call -/
def mapItemRuns (sem : Sem) (runner : Runner) (prog : Program) (root : Nat) (cfg : RunCfg)
    (items : List (AL Val)) : List RunOut :=
  itemRuns (fun v sp => runGraph (nestedAt sem runner prog prog.length) sem runner root
    (prog.getD root default) v { cfg with errMode := .cont } sp (some ["m"])) ["m"] items

theorem mapItemRuns_length (sem : Sem) (runner : Runner) (prog : Program) (root : Nat) (cfg : RunCfg)
    (items : List (AL Val)) : (mapItemRuns sem runner prog root cfg items).length = items.length :=
  itemRuns_length _ _ _

theorem mapItemRuns_getElem? (sem : Sem) (runner : Runner) (prog : Program) (root : Nat) (cfg : RunCfg)
    (items : List (AL Val)) (i : Nat) :
    (mapItemRuns sem runner prog root cfg items)[i]?
      = (items[i]?).map fun v => mapItemRun sem runner prog root cfg v i := by
  unfold mapItemRuns
  rw [itemRuns_getElem?]
  rfl

theorem map_results (sem : Sem) (runner : Runner) (prog : Program) (root : Nat) (values : AL Val)
    (mapOver : List Name) (mode : MapMode) (em : ErrMode) (cfg : RunCfg) (items : List (AL Val))
    (hgen : generateMapInputs values mapOver mode = .ok items) :
    (map sem runner prog root values mapOver mode em cfg).results
      = if (isSyncRunner runner && em == .raise)
        then takeThrough isFailed (mapItemRuns sem runner prog root cfg items)
        else mapItemRuns sem runner prog root cfg items := by
  unfold map
  exact mapGraph_results _ _ _ _ _ _ _ _ _ items hgen

theorem map_raised (sem : Sem) (runner : Runner) (prog : Program) (root : Nat) (values : AL Val)
    (mapOver : List Name) (mode : MapMode) (em : ErrMode) (cfg : RunCfg) (items : List (AL Val))
    (hgen : generateMapInputs values mapOver mode = .ok items) :
    (map sem runner prog root values mapOver mode em cfg).raised
      = if em == .raise
        then ((mapItemRuns sem runner prog root cfg items).find? isFailed).bind (·.error)
        else .none := by
  unfold map
  exact mapGraph_raised _ _ _ _ _ _ _ _ _ items hgen


/-! ## restoring input order after out-of-order completion (`sorted(zip(order, results))`) -/

section restore
variable {α : Type}

/-- insert by index (the first component); the results are never compared -/
def insertByIdx (p : Nat × α) : List (Nat × α) → List (Nat × α)
  | [] => [p]
  | q :: t => if p.1 ≤ q.1 then p :: q :: t else q :: insertByIdx p t

/-- insertion sort by index -/
def sortByIdx : List (Nat × α) → List (Nat × α)
  | [] => []
  | p :: t => insertByIdx p (sortByIdx t)

/-- `[r for _, r in sorted(pairs)]` -/
def restore (pairs : List (Nat × α)) : List α := (sortByIdx pairs).map Prod.snd

theorem insertByIdx_perm (p : Nat × α) (l : List (Nat × α)) : (insertByIdx p l).Perm (p :: l) := by
  induction l with
  | nil => exact List.Perm.refl _
  | cons q t ih =>
    unfold insertByIdx
    by_cases h : p.1 ≤ q.1
    · simp only [h, if_true]; exact List.Perm.refl _
    · simp only [h, if_false]
      exact (((List.perm_cons q).2 ih).trans (List.Perm.swap p q t))

theorem sortByIdx_perm (l : List (Nat × α)) : (sortByIdx l).Perm l := by
  induction l with
  | nil => exact List.Perm.refl _
  | cons p t ih =>
    exact (insertByIdx_perm p (sortByIdx t)).trans ((List.perm_cons p).2 ih)

theorem insertByIdx_sorted (p : Nat × α) (l : List (Nat × α))
    (h : l.Pairwise fun a b => a.1 ≤ b.1) : (insertByIdx p l).Pairwise fun a b => a.1 ≤ b.1 := by
  induction l with
  | nil => simp [insertByIdx]
  | cons q t ih =>
    rw [List.pairwise_cons] at h
    unfold insertByIdx
    by_cases hpq : p.1 ≤ q.1
    · simp only [hpq, if_true]
      refine List.Pairwise.cons ?_ (List.pairwise_cons.2 h)
      intro a ha
      rcases List.mem_cons.1 ha with rfl | ha
      · exact hpq
      · exact Nat.le_trans hpq (h.1 a ha)
    · simp only [hpq, if_false]
      refine List.Pairwise.cons ?_ (ih h.2)
      intro a ha
      have := (insertByIdx_perm p t).subset ha
      rcases List.mem_cons.1 this with rfl | ha'
      · omega
      · exact h.1 a ha'

theorem sortByIdx_sorted (l : List (Nat × α)) : (sortByIdx l).Pairwise fun a b => a.1 ≤ b.1 := by
  induction l with
  | nil => exact List.Pairwise.nil
  | cons p t ih => exact insertByIdx_sorted p _ ih

theorem eq_of_fst_eq_of_nodup (l : List (Nat × α)) (h : (l.map Prod.fst).Nodup) (a b : Nat × α)
    (ha : a ∈ l) (hb : b ∈ l) (hab : a.1 = b.1) : a = b := by
  induction l with
  | nil => cases ha
  | cons c t ih =>
    simp only [List.map_cons, List.nodup_cons] at h
    rcases List.mem_cons.1 ha with rfl | ha' <;> rcases List.mem_cons.1 hb with rfl | hb'
    · rfl
    · exact absurd (List.mem_map.2 ⟨b, hb', hab.symm⟩) h.1
    · exact absurd (List.mem_map.2 ⟨a, ha', hab⟩) h.1
    · exact ih h.2 ha' hb'

/-- a list with distinct indices has exactly one index-sorted arrangement -/
theorem sortByIdx_eq_of_perm_sorted (pairs target : List (Nat × α)) (hperm : pairs.Perm target)
    (hnd : (target.map Prod.fst).Nodup) (hsorted : target.Pairwise fun a b => a.1 ≤ b.1) :
    sortByIdx pairs = target := by
  have hp : (sortByIdx pairs).Perm target := (sortByIdx_perm pairs).trans hperm
  refine List.Perm.eq_of_pairwise (le := fun a b => a.1 ≤ b.1) ?_ (sortByIdx_sorted pairs) hsorted hp
  intro a b ha hb hab hba
  exact eq_of_fst_eq_of_nodup target hnd a b (hp.subset ha) hb (Nat.le_antisymm hab hba)

end restore

/-! ## `collect_as_lists` -/

/-- the entry `collect_as_lists` appends to the list of output `o` for item result `r` -/
def collectEntry (nd : NodeD) (r : RunOut) (o : Name) : Val :=
  if r.status == .failed then Val.none else (AL.get? (renameOutputs nd r.values) o).getD .none

theorem collectGo_ok (nd : NodeD) (rs : List RunOut) (acc : AL (List Val))
    (h : nd.errMode = .cont ∨ ∀ r ∈ rs, (r.status == .failed) = false) :
    collectAsLists.go nd rs acc
      = .ok (acc.map fun kv => (kv.1, kv.2 ++ rs.map fun r => collectEntry nd r kv.1)) := by
  induction rs generalizing acc with
  | nil => simp [collectAsLists.go]
  | cons r rs ih =>
    have h' : nd.errMode = .cont ∨ ∀ r ∈ rs, (r.status == .failed) = false := by
      rcases h with h | h
      · exact .inl h
      · exact .inr fun r hr => h r (List.mem_cons_of_mem _ hr)
    unfold collectAsLists.go
    by_cases hf : (r.status == .failed) = true
    · rcases h with h | h
      · simp only [hf, if_true, h]
        rw [ih _ h']
        have hs : r.status = .failed := by simpa using hf
        simp [collectEntry, hs, List.map_map, Function.comp_def]
      · have := h r List.mem_cons_self
        rw [this] at hf; cases hf
    · have hf' : (r.status == .failed) = false := by simpa using hf
      simp only [hf', Bool.false_eq_true, if_false]
      rw [ih _ h']
      have hs : ¬ r.status = .failed := by simpa using hf
      simp [collectEntry, hs, List.map_map, Function.comp_def]

theorem collectGo_raise (nd : NodeD) (rs : List RunOut) (acc : AL (List Val)) (r : RunOut)
    (hm : nd.errMode = .raise) (h : rs.find? (fun r => r.status == .failed) = some r) :
    collectAsLists.go nd rs acc = .error (r.error.getD .depth) := by
  induction rs generalizing acc with
  | nil => cases h
  | cons r0 rs ih =>
    unfold collectAsLists.go
    by_cases hf : (r0.status == .failed) = true
    · simp only [List.find?_cons, hf, Option.some.injEq] at h
      subst h
      simp [hf, hm]
    · have hf' : (r0.status == .failed) = false := by simpa using hf
      simp only [List.find?_cons, hf'] at h
      simp only [hf', Bool.false_eq_true, if_false]
      exact ih _ h

/-- closed form of `collectAsLists` whenever it does not raise -/
theorem collectAsLists_ok (nd : NodeD) (results : List RunOut)
    (h : nd.errMode = .cont ∨ ∀ r ∈ results, (r.status == .failed) = false) :
    collectAsLists nd results
      = .ok ((collectNames nd).map fun o => (o, Val.mkLst (results.map fun r => collectEntry nd r o))) := by
  unfold collectAsLists
  rw [collectGo_ok nd results _ h]
  simp [List.map_map, Function.comp_def]

theorem collectAsLists_raise (nd : NodeD) (results : List RunOut) (r : RunOut)
    (hm : nd.errMode = .raise) (h : results.find? (fun r => r.status == .failed) = some r) :
    collectAsLists nd results = .error (r.error.getD .depth) := by
  unfold collectAsLists
  rw [collectGo_raise nd results _ r hm h]

/-- `collectAsLists` succeeds only in continue mode or when no item failed -/
theorem collectAsLists_ok_cases (nd : NodeD) (results : List RunOut) (out : AL Val)
    (h : collectAsLists nd results = .ok out) :
    nd.errMode = .cont ∨ ∀ r ∈ results, (r.status == .failed) = false := by
  cases hm : nd.errMode with
  | cont => exact .inl rfl
  | raise =>
    right
    cases hfind : results.find? (fun r => r.status == .failed) with
    | some r => rw [collectAsLists_raise nd results r hm hfind] at h; cases h
    | none =>
      intro r hr
      have := List.find?_eq_none.1 hfind r hr
      simpa using this

/-- the unrepaired `collect_as_lists`: an output the item did not produce is skipped -/
def collectAsListsOld (nd : NodeD) (results : List RunOut) : Except ErrId (AL Val) :=
  let rec go : List RunOut → AL (List Val) → Except ErrId (AL (List Val))
    | [], acc => .ok acc
    | r :: rs, acc =>
      if r.status == .failed then
        match nd.errMode with
        | .raise => .error (r.error.getD .depth)
        | .cont => go rs (acc.map fun kv => (kv.1, kv.2 ++ [Val.none]))
      else
        let rv := renameOutputs nd r.values
        go rs (acc.map fun kv =>
          (kv.1, match AL.get? rv kv.1 with
                 | some v => kv.2 ++ [v]
                 | .none => kv.2))
  match go results (nd.outputs.map fun o => (o, [])) with
  | .ok acc => .ok (acc.map fun kv => (kv.1, Val.mkLst kv.2))
  | .error e => .error e


theorem mkLst_inj (a b : List Val) (h : Val.mkLst a = Val.mkLst b) : a = b := by
  have := congrArg (fun v => match v with | Val.lst c => Val.toList c | _ => []) h
  simpa [Val.mkLst] using this

/-! ## fixtures for the non-vacuity examples of `HG/Props/C10.lean` -/
namespace MapEx
/-- a mapping graph node with data outputs `b`, `s` -/
def ndBS (em : ErrMode) : NodeD :=
  { (default : NodeD) with name := "g", kind := .graph, dataOuts := ["b", "s"], errMode := em }
/-- a successful item that produced only `b` -/
def rB : RunOut := { status := .completed, values := [("b", .int 1)] }
/-- a successful item that produced only `s` -/
def rS : RunOut := { status := .completed, values := [("s", .int 2)] }
def rF (t : String) : RunOut := { status := .failed, error := some (.user t) }
/-- one graph, one function node `f(x) -> y` failing on `x = 2` -/
def prog1 : Program :=
  elabProgram [{ name := "g", nodes := [{ name := "f", kind := .fn, params := [("x", .none)],
                                          dataOuts := ["y"], body := .failIf 2 "boom" }] }]
def vals1 : AL Val := [("x", Val.mkLst [.int 1, .int 2, .int 3])]
/-- one graph, one function node `f(x, z) -> y = x + z` -/
def prog2 : Program :=
  elabProgram [{ name := "g", nodes := [{ name := "f", kind := .fn, params := [("x", .none), ("z", .none)],
                                          dataOuts := ["y"], body := .sum 0 }] }]
def vals2 : AL Val := [("x", Val.mkLst [.int 1, .int 2]), ("z", Val.mkLst [.int 10, .int 20, .int 30])]
end MapEx

end HG
