import HG.Lemmas.Loop
import HG.Lemmas.LoopStep
/-! # HG.Lemmas.LoopProv — provenance of a user exception through executors, supersteps, the loop,
`run`, `map` and nesting (helpers for C11 `run_error_provenance`) -/
namespace HG

/-- some node function raised the user exception `t` -/
def UserRaised (sem : Sem) (t : String) : Prop := ∃ (nd : NodeD) (args : AL Val), sem nd args = .raise (.user t)

/-- the nested callbacks only ever report a user exception that a node function raised -/
structure NestedProv (sem : Sem) (t : String) (nested : Nested) : Prop where
  run : ∀ gi v sp, (nested.run gi v sp).error = some (.user t) → UserRaised sem t
  mapRaised : ∀ gi v mo mm em sp, (nested.map gi v mo mm em sp).raised = some (.user t) → UserRaised sem t
  mapResults : ∀ gi v mo mm em sp, ∀ r ∈ (nested.map gi v mo mm em sp).results,
    r.error = some (.user t) → UserRaised sem t

variable {sem : Sem} {t : String}

theorem validateDecision_ne_user (nd : NodeD) (d : Dec) : validateDecision nd d ≠ some (.user t) := by
  unfold validateDecision
  split
  · split
    · simp
    · split <;> simp
    · simp
  · split
    · simp
    · simp
    · split <;> simp
    · split <;> simp

theorem execFn_prov (gi : Nat) (nd : NodeD) (inputs : AL Val)
    (h : (execFn sem gi nd inputs).res = .error (.user t)) : UserRaised sem t := by
  unfold execFn at h; dsimp only at h
  cases hs : sem nd (toParams nd inputs) with
  | raise e => rw [hs] at h; simp at h; exact ⟨nd, _, h ▸ hs⟩
  | dec d => rw [hs] at h; dsimp only at h; split at h <;> simp at h
  | val v => rw [hs] at h; dsimp only at h; split at h <;> simp at h

theorem execIfElse_prov (gi : Nat) (nd : NodeD) (inputs : AL Val)
    (h : (execIfElse sem gi nd inputs).res = .error (.user t)) : UserRaised sem t := by
  unfold execIfElse at h; dsimp only at h
  split at h
  next e hs => simp at h; exact ⟨nd, _, h ▸ hs⟩
  next => simp at h
  next => simp at h

theorem execRoute_prov (gi : Nat) (nd : NodeD) (inputs : AL Val)
    (h : (execRoute sem gi nd inputs).res = .error (.user t)) : UserRaised sem t := by
  unfold execRoute at h; dsimp only at h
  split at h
  next e hs => simp at h; exact ⟨nd, _, h ▸ hs⟩
  next =>
    split at h
    next e he => simp at h; exact absurd (h ▸ he) (validateDecision_ne_user _ _)
    next => simp at h
  next =>
    split at h
    next e he => simp at h; exact absurd (h ▸ he) (validateDecision_ne_user _ _)
    next => simp at h
  next => simp at h

theorem execInterrupt_prov (gi : Nat) (nd : NodeD) (inputs : AL Val) (ns : GState) :
    (execInterrupt sem gi nd inputs ns).res ≠ .error (.user t) := by
  unfold execInterrupt; dsimp only
  split
  · simp
  · split
    · simp
    · simp
    · split <;> simp
    · split <;> simp

theorem collectAsLists_go_error (nd : NodeD) : ∀ (rs : List RunOut) (acc : AL (List Val)) {e : ErrId},
    collectAsLists.go nd rs acc = .error e → ∃ r ∈ rs, r.error.getD .depth = e := by
  intro rs
  induction rs with
  | nil => intro acc e h; simp [collectAsLists.go] at h
  | cons r rs ih =>
    intro acc e h
    rw [collectAsLists.go] at h
    split at h
    · split at h
      · simp at h; exact ⟨r, by simp, h⟩
      · obtain ⟨r', hr', he⟩ := ih _ h; exact ⟨r', by simp [hr'], he⟩
    · obtain ⟨r', hr', he⟩ := ih _ h; exact ⟨r', by simp [hr'], he⟩

theorem collectAsLists_error (nd : NodeD) (rs : List RunOut) {e : ErrId}
    (h : collectAsLists nd rs = .error e) : ∃ r ∈ rs, r.error.getD .depth = e := by
  unfold collectAsLists at h
  split at h
  · simp at h
  next e' he => simp at h; subst h; exact collectAsLists_go_error nd rs _ he

theorem getD_depth_user {o : Option ErrId} (h : o.getD .depth = .user t) : o = some (.user t) := by
  cases o with
  | none => simp at h
  | some e => simp at h; rw [h]

theorem execGraphNode_prov {nested : Nested} (hn : NestedProv sem t nested) (nd : NodeD) (inputs : AL Val) (sp : Span)
    (h : (execGraphNode nested nd inputs sp).res = .error (.user t)) : UserRaised sem t := by
  unfold execGraphNode at h; dsimp only at h
  split at h
  · split at h
    next e he => simp at h; exact hn.mapRaised _ _ _ _ _ _ (h ▸ he)
    next =>
      split at h
      · simp at h
      next e he =>
        simp at h; subst h
        obtain ⟨r, hr, hre⟩ := collectAsLists_error nd _ he
        exact hn.mapResults _ _ _ _ _ _ r hr (getD_depth_user hre)
  · split at h
    · simp at h; exact hn.run _ _ _ (getD_depth_user h)
    · split at h <;> simp at h

theorem execNode_prov {nested : Nested} (hn : NestedProv sem t nested) (gi : Nat) (nd : NodeD) (inputs : AL Val)
    (ns : GState) (sp : Span) (h : (execNode nested sem gi nd inputs ns sp).res = .error (.user t)) :
    UserRaised sem t := by
  unfold execNode at h
  cases hk : nd.kind <;> simp only [hk] at h
  · exact execFn_prov _ _ _ h
  · exact execRoute_prov _ _ _ h
  · exact execIfElse_prov _ _ _ h
  · exact execGraphNode_prov hn _ _ _ h
  · exact absurd h (execInterrupt_prov _ _ _ _)

theorem stepSync_prov {nested : Nested} (hn : NestedProv sem t nested) (gi : Nat) (g : GraphD) (span : Span)
    (k : Nat) (s : GState) (rs : List NodeD) (ns : GState) (log : List Log) {ps : GState} {log' : List Log}
    (h : stepSync nested sem gi g span k s rs ns log = .fail (.user t) ps log') : UserRaised sem t := by
  obtain ⟨pre, nd, post, ns', lg', _, _, h3⟩ := stepSync_fail_split nested sem gi g span k s rs ns log h
  rcases h3 with ⟨_, b, _⟩ | ⟨inputs, _, _, b, _⟩
  · cases b
  · exact execNode_prov hn _ _ _ _ _ b

theorem stepAsync_prov {nested : Nested} (hn : NestedProv sem t nested) (gi : Nat) (g : GraphD) (span : Span)
    (k : Nat) (order : List Nat) (s : GState) (rs : List NodeD) {ps : GState} {log' : List Log}
    (h : stepAsync nested sem gi g span k order s rs = .fail (.user t) ps log') : UserRaised sem t := by
  unfold stepAsync at h
  dsimp only at h
  split at h
  · cases h
  next r hfind =>
    split at h
    · cases h
    next hp hres =>
      injection h with h1 _ _
      subst h1
      have hmem := List.mem_of_find?_eq_some hfind
      rw [List.mem_map] at hmem
      obtain ⟨nd, _, hnd⟩ := hmem
      split at hnd
      · subst hnd; simp at hres
      next inputs _ =>
        subst hnd
        exact execNode_prov hn _ _ _ _ _ hres
    · cases h

theorem runLoop_prov {step : Nat → GState → List NodeD → StepOut}
    (hstep : ∀ k s rs ps l, step k s rs = .fail (.user t) ps l → UserRaised sem t)
    (g : GraphD) (act : Option (List Name)) (mi fuel k : Nat) (s : GState) (log : List Log)
    {ps : GState} {lg : List Log} {n : Nat}
    (h : runLoop step g act mi fuel k s log = .fail (.user t) ps lg n) : UserRaised sem t := by
  have ho := runLoop_outcome step g act mi fuel k s log
  rw [h] at ho
  cases ho with
  | stepFail s0 s1 rs k' _ _ l lg' _ _ h3 _ _ => exact hstep _ _ _ _ _ h3

theorem filterOutputs_error {g : GraphD} {s : GState} {sel : Select} {om : OnMissing} {e : ErrId}
    (h : filterOutputs g s sel om = .error e) : e = .valueError "on_missing" := by
  unfold filterOutputs at h
  split at h
  · simp at h
  · dsimp only at h
    split at h
    · simp at h
    · split at h <;> simp at h
      exact h.symm

theorem runGraph_prov {nested : Nested} (hn : NestedProv sem t nested) (runner : Runner) (gi : Nat) (g : GraphD)
    (values : AL Val) (cfg : RunCfg) (span : Span) (parent : Option Span)
    (h : (runGraph nested sem runner gi g values cfg span parent).error = some (.user t)) : UserRaised sem t := by
  rw [runGraph_eq] at h
  cases hL : runGraphLoop nested sem runner gi g values cfg span parent with
  | done s log n =>
    rw [hL] at h
    simp only [finishRun] at h
    split at h
    · simp at h
    next e he =>
      have := filterOutputs_error he
      subst this
      split at h <;> simp at h
  | fail e ps log n =>
    rw [hL] at h
    have he : e = .user t := by
      simp only [finishRun] at h
      split at h <;> simpa using h
    subst he
    refine runLoop_prov (sem := sem) (t := t) (step := runStep nested sem runner gi g span) ?_ _ _ _ _ _ _ _ hL
    intro k s rs ps l hstep
    cases runner with
    | sync => exact stepSync_prov hn _ _ _ _ _ _ _ _ hstep
    | async order => exact stepAsync_prov hn _ _ _ _ _ _ _ hstep
  | pause p ps log n =>
    rw [hL] at h
    simp [finishRun] at h

theorem generateMapInputs_error {values : AL Val} {mo : List Name} {mode : MapMode} {e : ErrId}
    (h : generateMapInputs values mo mode = .error e) : e ≠ .user t := by
  unfold generateMapInputs at h
  dsimp only at h
  split at h
  · simp at h; subst h; simp
  · split at h
    · unfold zipInputs at h
      split at h
      · simp at h
      · split at h
        · simp at h; subst h; simp
        · simp at h
    · simp at h

theorem goSync_prov {runItem : AL Val → Span → RunOut} (hitem : ∀ v sp, (runItem v sp).error = some (.user t) → UserRaised sem t)
    (g : GraphD) (em : ErrMode) (span : Span) (parent : Option Span) (shut : List Log) :
    ∀ (vs : List (AL Val)) (i : Nat) (acc : List RunOut) (log : List Log),
      (∀ r ∈ acc, r.error = some (.user t) → UserRaised sem t) →
      ((mapGraph.goSync runItem g em span parent shut vs i acc log).raised = some (.user t) → UserRaised sem t) ∧
      (∀ r ∈ (mapGraph.goSync runItem g em span parent shut vs i acc log).results,
          r.error = some (.user t) → UserRaised sem t) := by
  intro vs
  induction vs with
  | nil =>
    intro i acc log hacc
    simp only [mapGraph.goSync]
    exact ⟨fun h => by simp at h, hacc⟩
  | cons v vs ih =>
    intro i acc log hacc
    have hacc' : ∀ r ∈ acc ++ [runItem v (span ++ [toString i])], r.error = some (.user t) → UserRaised sem t := by
      intro r hr he
      rw [List.mem_append] at hr
      rcases hr with hr | hr
      · exact hacc r hr he
      · simp at hr; subst hr; exact hitem _ _ he
    rw [mapGraph.goSync]
    split
    · exact ⟨fun h => hitem _ _ h, hacc'⟩
    · exact ih _ _ _ hacc'

theorem mapGraph_prov {runItem : AL Val → Span → RunOut} (hitem : ∀ v sp, (runItem v sp).error = some (.user t) → UserRaised sem t)
    (isSync : Bool) (g : GraphD) (values : AL Val) (mo : List Name) (mode : MapMode) (em : ErrMode) (span : Span)
    (parent : Option Span) :
    ((mapGraph runItem isSync g values mo mode em span parent).raised = some (.user t) → UserRaised sem t) ∧
    (∀ r ∈ (mapGraph runItem isSync g values mo mode em span parent).results,
        r.error = some (.user t) → UserRaised sem t) := by
  unfold mapGraph
  split
  next e he => exact ⟨fun h => by simp at h; exact absurd h (generateMapInputs_error he), fun r hr => by simp at hr⟩
  next => exact ⟨fun h => by simp at h, fun r hr => by simp at hr⟩
  next vars _ _ =>
    dsimp only
    split
    · exact goSync_prov hitem _ _ _ _ _ _ _ _ _ (fun r hr => by simp at hr)
    · have hrsl : ∀ r ∈ (List.range vars.length).map (fun i => runItem (vars.getD i []) (span ++ [toString i])),
          r.error = some (.user t) → UserRaised sem t := by
        intro r hr he
        rw [List.mem_map] at hr
        obtain ⟨i, _, hi⟩ := hr
        subst hi
        exact hitem _ _ he
      split
      next r hfind =>
        refine ⟨fun h => ?_, hrsl⟩
        split at hfind
        · exact hrsl r (List.mem_of_find?_eq_some hfind) h
        · cases hfind
      next => exact ⟨fun h => by simp at h, hrsl⟩

/-- every nesting depth: the nested callbacks only report user exceptions raised by a node function -/
theorem nestedAt_prov (sem : Sem) (t : String) (runner : Runner) (prog : Program) :
    ∀ d, NestedProv sem t (nestedAt sem runner prog d) := by
  intro d
  induction d with
  | zero =>
    exact ⟨fun _ _ _ h => by simp [nestedAt] at h, fun _ _ _ _ _ _ h => by simp [nestedAt] at h,
      fun _ _ _ _ _ _ r hr => by simp [nestedAt] at hr⟩
  | succ d ih =>
    refine ⟨fun gi v sp h => ?_, fun gi v mo mm em sp h => ?_, fun gi v mo mm em sp r hr he => ?_⟩
    · exact runGraph_prov ih _ _ _ _ _ _ _ h
    · exact (mapGraph_prov (fun v sp h => runGraph_prov ih _ _ _ _ _ _ _ h) _ _ _ _ _ _ _ _).1 h
    · exact (mapGraph_prov (fun v sp h => runGraph_prov ih _ _ _ _ _ _ _ h) _ _ _ _ _ _ _ _).2 r hr he

end HG
