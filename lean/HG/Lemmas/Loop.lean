import HG.Model.Run
/-! # HG.Lemmas.Loop — generic facts about `runLoop`, `stepSync`, `runGraph` (helpers for C04 / C11) -/
namespace HG

/-- number of supersteps recorded in a loop result -/
def LoopOut.steps : LoopOut → Nat
  | .done _ _ n => n
  | .fail _ _ _ n => n
  | .pause _ _ _ n => n

/-- is this log entry a call of node function `fn`? -/
def Log.isCallOf (fn : String) : Log → Bool
  | .call f _ => f == fn
  | _ => false

/-- number of times the node function `fn` was invoked according to the log -/
def callsOf (fn : String) (l : List Log) : Nat := l.countP (Log.isCallOf fn)

theorem callsOf_append (fn : String) (a b : List Log) : callsOf fn (a ++ b) = callsOf fn a + callsOf fn b := by
  simp [callsOf, List.countP_append]

section unfold
variable (step : Nat → GState → List NodeD → StepOut) (g : GraphD) (act : Option (List Name)) (mi : Nat)

theorem runLoop_zero (k : Nat) (s : GState) (log : List Log) :
    runLoop step g act mi 0 k s log =
      if (ready g act s).1.isEmpty then .done (ready g act s).2 log k
      else .fail (.infiniteLoop mi) (ready g act s).2 log k := by
  simp only [runLoop]

theorem runLoop_succ_nil (fuel k : Nat) (s : GState) (log : List Log) (h : (ready g act s).1 = []) :
    runLoop step g act mi (fuel + 1) k s log = .done (ready g act s).2 log k := by
  rw [runLoop]
  generalize ready g act s = r at h
  obtain ⟨rs, s1⟩ := r
  simp only at h; subst h; rfl

theorem runLoop_succ_cons (fuel k : Nat) (s : GState) (log : List Log) (h : (ready g act s).1 ≠ []) :
    runLoop step g act mi (fuel + 1) k s log =
      match step k (ready g act s).2 (ready g act s).1 with
      | .ok ns l => runLoop step g act mi fuel (k + 1) ns (log ++ l)
      | .fail e ps l => .fail e ps (log ++ l) (k + 1)
      | .pause p ps l => .pause p ps (log ++ l) (k + 1) := by
  rw [runLoop]
  generalize ready g act s = r at h
  obtain ⟨rs, s1⟩ := r
  cases rs with
  | nil => exact absurd rfl h
  | cons a t => rfl
end unfold

/-- every way `runLoop step g act mi fuel k s log` can end (`k` = steps already taken) -/
inductive LoopOutcome (step : Nat → GState → List NodeD → StepOut) (g : GraphD) (act : Option (List Name))
    (mi : Nat) (k fuel : Nat) : LoopOut → Prop
  /-- the ready set became empty: quiescent -/
  | quiescent (s0 s' : GState) (log : List Log) (n : Nat) :
      ready g act s0 = ([], s') → k ≤ n → n ≤ k + fuel →
      LoopOutcome step g act mi k fuel (.done s' log n)
  /-- superstep number `k'` failed: its error, its partial state, unchanged -/
  | stepFail (s0 s1 : GState) (rs : List NodeD) (k' : Nat) (e : ErrId) (ps : GState) (l log : List Log) :
      ready g act s0 = (rs, s1) → rs ≠ [] → step k' s1 rs = .fail e ps l → k ≤ k' → k' < k + fuel →
      LoopOutcome step g act mi k fuel (.fail e ps (log ++ l) (k' + 1))
  /-- superstep number `k'` paused: its pause, its partial state, unchanged -/
  | stepPause (s0 s1 : GState) (rs : List NodeD) (k' : Nat) (p : PauseInfo) (ps : GState) (l log : List Log) :
      ready g act s0 = (rs, s1) → rs ≠ [] → step k' s1 rs = .pause p ps l → k ≤ k' → k' < k + fuel →
      LoopOutcome step g act mi k fuel (.pause p ps (log ++ l) (k' + 1))
  /-- all `fuel` supersteps were taken and the ready set is still non-empty: the state computed so far -/
  | limit (s0 s' : GState) (rs : List NodeD) (log : List Log) (n : Nat) :
      ready g act s0 = (rs, s') → rs ≠ [] → n = k + fuel →
      LoopOutcome step g act mi k fuel (.fail (.infiniteLoop mi) s' log n)

theorem LoopOutcome.shift {step : Nat → GState → List NodeD → StepOut} {g : GraphD} {act : Option (List Name)}
    {mi k fuel : Nat} {r : LoopOut} (h : LoopOutcome step g act mi (k + 1) fuel r) :
    LoopOutcome step g act mi k (fuel + 1) r := by
  cases h with
  | quiescent s0 s' log n h1 h2 h3 => exact .quiescent s0 s' log n h1 (by omega) (by omega)
  | stepFail s0 s1 rs k' e ps l log h1 h2 h3 h4 h5 => exact .stepFail s0 s1 rs k' e ps l log h1 h2 h3 (by omega) (by omega)
  | stepPause s0 s1 rs k' p ps l log h1 h2 h3 h4 h5 => exact .stepPause s0 s1 rs k' p ps l log h1 h2 h3 (by omega) (by omega)
  | limit s0 s' rs log n h1 h2 h3 => exact .limit s0 s' rs log n h1 h2 (by omega)

theorem runLoop_outcome (step : Nat → GState → List NodeD → StepOut) (g : GraphD) (act : Option (List Name)) (mi : Nat) :
    ∀ (fuel k : Nat) (s : GState) (log : List Log),
      LoopOutcome step g act mi k fuel (runLoop step g act mi fuel k s log) := by
  intro fuel
  induction fuel with
  | zero =>
    intro k s log
    rw [runLoop_zero]
    split
    next h => exact .quiescent s _ log k (by
      have : (ready g act s).1 = [] := by simpa using h
      rw [← this]) (Nat.le_refl _) (by omega)
    next h => exact .limit s _ (ready g act s).1 log k rfl (by simpa using h) rfl
  | succ f ih =>
    intro k s log
    by_cases h : (ready g act s).1 = []
    · rw [runLoop_succ_nil _ _ _ _ _ _ _ _ h]
      exact .quiescent s _ log k (by rw [← h]) (Nat.le_refl _) (by omega)
    · rw [runLoop_succ_cons _ _ _ _ _ _ _ _ h]
      cases hs : step k (ready g act s).2 (ready g act s).1 with
      | ok ns l => exact (ih (k + 1) ns (log ++ l)).shift
      | fail e ps l => exact .stepFail s _ _ k e ps l log rfl h hs (Nat.le_refl _) (by omega)
      | pause p ps l => exact .stepPause s _ _ k p ps l log rfl h hs (Nat.le_refl _) (by omega)

/-- the state after `j` successful supersteps starting from `s` at step number `k`
(`none` when the loop ends earlier or a step does not succeed) -/
def stateAfter (step : Nat → GState → List NodeD → StepOut) (g : GraphD) (act : Option (List Name)) :
    Nat → Nat → GState → Option GState
  | 0, _, s => some s
  | j + 1, k, s =>
    if (ready g act s).1 = [] then .none
    else match step k (ready g act s).2 (ready g act s).1 with
      | .ok ns _ => stateAfter step g act j (k + 1) ns
      | _ => .none

/-- if all `fuel` supersteps succeed and work is left, the loop reports the limit with exactly the
state computed so far (after the scheduler's clearing of stale gate decisions) -/
theorem runLoop_limit_exact (step : Nat → GState → List NodeD → StepOut) (g : GraphD) (act : Option (List Name))
    (mi : Nat) : ∀ (fuel k : Nat) (s : GState) (log : List Log) (sF : GState),
      stateAfter step g act fuel k s = some sF → (ready g act sF).1 ≠ [] →
      ∃ lg, runLoop step g act mi fuel k s log = .fail (.infiniteLoop mi) (ready g act sF).2 lg (k + fuel) := by
  intro fuel
  induction fuel with
  | zero =>
    intro k s log sF h hne
    simp only [stateAfter, Option.some.injEq] at h; subst h
    refine ⟨log, ?_⟩
    rw [runLoop_zero]
    simp [hne]
  | succ f ih =>
    intro k s log sF h hne
    by_cases hr : (ready g act s).1 = []
    · simp [stateAfter, hr] at h
    · rw [runLoop_succ_cons _ _ _ _ _ _ _ _ hr]
      simp only [stateAfter, hr, if_false] at h
      cases hs : step k (ready g act s).2 (ready g act s).1 with
      | ok ns l =>
        rw [hs] at h
        obtain ⟨lg, hlg⟩ := ih (k + 1) ns (log ++ l) sF h hne
        exact ⟨lg, by simp only []; rw [hlg]; congr 1; omega⟩
      | fail e ps l => rw [hs] at h; simp at h
      | pause p ps l => rw [hs] at h; simp at h

/-! ## `runGraph` = loop, then a finishing function -/

/-- the superstep function `runGraph` hands to `runLoop` -/
def runStep (nested : Nested) (sem : Sem) (runner : Runner) (gi : Nat) (g : GraphD) (span : Span) :
    Nat → GState → List NodeD → StepOut := fun k s rs =>
  match runner with
  | .sync => stepSync nested sem gi g span k s rs s []
  | .async order => stepAsync nested sem gi g span k (order k) s rs

/-- the loop `runGraph` runs -/
def runGraphLoop (nested : Nested) (sem : Sem) (runner : Runner) (gi : Nat) (g : GraphD)
    (values : AL Val) (cfg : RunCfg) (span : Span) (parent : Option Span) : LoopOut :=
  runLoop (runStep nested sem runner gi g span) g (activeNodeSet g) cfg.maxIter cfg.maxIter 0
    (initState values) [runStartEv span parent g ""]

def shutLog (parent : Option Span) : List Log := if parent.isNone then [.shutdown] else []

/-- the values a failed / paused run reports: `filter_outputs(state, graph, select, on_missing="ignore")` -/
def partialValues (g : GraphD) (ps : GState) (sel : Select) : AL Val :=
  match filterOutputs g ps sel .ignore with
  | .ok (v, _) => v
  | .error _ => []

theorem clearStale_values₄ (g : GraphD) (s : GState) : (clearStale g s).values = s.values := by
  unfold clearStale
  generalize g.nodes = nodes
  induction nodes generalizing s with
  | nil => rfl
  | cons nd rest ih =>
    rw [List.foldl_cons, ih]
    split
    · split
      · rfl
      · rfl
      · split <;> rfl
    · rfl

/-- the scheduler's clearing of stale gate decisions does not touch the values -/
theorem ready_snd_values (g : GraphD) (act : Option (List Name)) (s : GState) :
    (ready g act s).2.values = s.values := clearStale_values₄ g s

theorem filterOutputs_congr (g : GraphD) {s s' : GState} (h : s.values = s'.values) (sel : Select) (om : OnMissing) :
    filterOutputs g s sel om = filterOutputs g s' sel om := by
  unfold filterOutputs; rw [h]

theorem partialValues_congr (g : GraphD) {s s' : GState} (h : s.values = s'.values) (sel : Select) :
    partialValues g s sel = partialValues g s' sel := by
  unfold partialValues; rw [filterOutputs_congr g h]

/-- what `runGraph` does with the loop's result -/
def finishRun (g : GraphD) (cfg : RunCfg) (span : Span) (parent : Option Span) : LoopOut → RunOut
  | .done s log _ =>
    match filterOutputs g s cfg.select cfg.onMissing with
    | .ok (vals, w) =>
      { status := .completed, values := vals, warnings := w
        log := log ++ [runEndEv span parent g "completed"] ++ shutLog parent }
    | .error e =>
      match cfg.errMode with
      | .raise => { status := .failed, error := some e, raised := true,
                    log := log ++ [runEndEv span parent g "failed"] ++ shutLog parent }
      | .cont => { status := .failed, values := [], error := some e,
                   log := log ++ [runEndEv span parent g "failed"] ++ shutLog parent }
  | .fail e ps log _ =>
    match cfg.errMode with
    | .raise => { status := .failed, error := some e, raised := true,
                  log := log ++ [runEndEv span parent g "failed"] ++ shutLog parent }
    | .cont => { status := .failed, values := partialValues g ps cfg.select, error := some e,
                 log := log ++ [runEndEv span parent g "failed"] ++ shutLog parent }
  | .pause p ps log _ =>
    { status := .paused, values := partialValues g ps cfg.select, pause := some p,
      log := log ++ shutLog parent }

theorem runGraph_eq (nested : Nested) (sem : Sem) (runner : Runner) (gi : Nat) (g : GraphD)
    (values : AL Val) (cfg : RunCfg) (span : Span) (parent : Option Span) :
    runGraph nested sem runner gi g values cfg span parent =
      finishRun g cfg span parent (runGraphLoop nested sem runner gi g values cfg span parent) := by
  unfold runGraph
  simp only []
  generalize hL : runLoop _ g (activeNodeSet g) cfg.maxIter cfg.maxIter 0 (initState values) _ = L
  have hL' : runGraphLoop nested sem runner gi g values cfg span parent = L := hL
  rw [hL']
  cases L with
  | done s log n =>
    simp only [finishRun]
    cases filterOutputs g s cfg.select cfg.onMissing with
    | ok v => rfl
    | error e => cases h : cfg.errMode <;> simp [shutLog]
  | fail e ps log n => simp only [finishRun]; cases h : cfg.errMode <;> simp [shutLog, partialValues] <;> rfl
  | pause p ps log n => rfl

end HG
