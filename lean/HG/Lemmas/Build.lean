import HG.Model.Build
import HG.Lemmas.Spec
/-! # HG.Lemmas.Build — specification vocabulary and helper lemmas for `HG.Props.C19`

Nothing here is a property theorem.  The file holds

* the declarative vocabulary of the build-time specification (`Reach`, `Excl`, `InBranch`, `Mutex`, `Ordered`,
  `Produces`, `LegalName`, `TypedOK`, `WellFormed`, `Built`);
* for every check of `HG.Build.checks` the lemma "`chk b = none ↔` its declarative clause";
* correctness of the fuel-bounded reachability (`reaches_iff`: `|V|` rounds compute the
  reflexive-transitive closure — a pigeonhole argument on the growing reachable sets);
* the concrete graphs used by the non-vacuity examples. -/
namespace HG.Build
open HG HG.TypeCompat HG.Spec

/-! ## generic list facts -/

theorem filter_length_lt {α : Type} {p q : α → Bool} {l : List α} (h : ∀ x ∈ l, p x = true → q x = true)
    {x : α} (hx : x ∈ l) (hq : q x = true) (hp : ¬ p x = true) :
    (l.filter p).length < (l.filter q).length := by
  induction l with
  | nil => cases hx
  | cons y ys ih =>
    have hle : (ys.filter p).length ≤ (ys.filter q).length := by
      clear ih hx
      induction ys with
      | nil => simp
      | cons z zs ihz =>
        have hz := h z (List.mem_cons_of_mem _ (List.mem_cons_self ..))
        have ihz' := ihz (fun w hw => by
          rcases List.mem_cons.mp hw with rfl | hw
          · exact h _ (List.mem_cons_self ..)
          · exact h _ (List.mem_cons_of_mem _ (List.mem_cons_of_mem _ hw)))
        by_cases hpz : p z = true
        · simp [hpz, hz hpz]; exact ihz'
        · by_cases hqz : q z = true
          · simp [hpz, hqz]; omega
          · simp [hpz, hqz]; exact ihz'
    rcases List.mem_cons.mp hx with rfl | hx'
    · simp [hq, hp]; omega
    · have ih' := ih (fun w hw => h w (List.mem_cons_of_mem _ hw)) hx'
      have hy := h y (List.mem_cons_self ..)
      by_cases hpy : p y = true
      · simp [hpy, hy hpy]; exact ih'
      · by_cases hqy : q y = true
        · simp [hpy, hqy]; omega
        · simp [hpy, hqy]; exact ih'

/-! ## reachability -/

/-- reflexive-transitive closure of `adj` inside the vertex list `V`
(`c ∈ nx.descendants(G, a) | {a}`, `nx.has_path(G, a, c)`) -/
inductive Reach (V : List Name) (adj : Name → Name → Bool) : Name → Name → Prop
  | refl {a : Name} : a ∈ V → Reach V adj a a
  | tail {a u v : Name} : Reach V adj a u → adj u v = true → v ∈ V → Reach V adj a v

theorem Reach.mem {V adj a c} (h : Reach V adj a c) : c ∈ V := by
  cases h with
  | refl h => exact h
  | tail _ _ h => exact h

theorem Reach.congr {V adj adj'} (hadj : ∀ u v, u ∈ V → v ∈ V → adj u v = adj' u v) {a c}
    (h : Reach V adj a c) : Reach V adj' a c := by
  induction h with
  | refl h => exact .refl h
  | tail h1 h2 h3 ih => exact .tail ih (by rw [← hadj _ _ h1.mem h3]; exact h2) h3

theorem reach_congr {V adj adj'} (hadj : ∀ u v, u ∈ V → v ∈ V → adj u v = adj' u v) (a c) :
    Reach V adj a c ↔ Reach V adj' a c :=
  ⟨Reach.congr hadj, Reach.congr fun u v hu hv => (hadj u v hu hv).symm⟩

/-- the predicate whose filter is `reachSet … k` -/
def reachPred (V : List Name) (adj : Name → Name → Bool) (a : Name) : Nat → Name → Bool
  | 0 => fun v => v == a
  | k + 1 => fun v => (reachSet V adj a k).contains v || (reachSet V adj a k).any fun u => adj u v

theorem reachSet_eq_filter (V adj a k) : reachSet V adj a k = V.filter (reachPred V adj a k) := by
  cases k <;> rfl

theorem reachSet_sub {V adj a k v} (h : v ∈ reachSet V adj a k) : v ∈ V := by
  rw [reachSet_eq_filter] at h; exact (List.mem_filter.mp h).1

theorem mem_reachSet_zero {V adj a v} : v ∈ reachSet V adj a 0 ↔ v ∈ V ∧ v = a := by
  simp [reachSet, List.mem_filter]

theorem mem_reachSet_succ {V adj a k v} :
    v ∈ reachSet V adj a (k + 1) ↔
      v ∈ V ∧ (v ∈ reachSet V adj a k ∨ ∃ u ∈ reachSet V adj a k, adj u v = true) := by
  simp [reachSet, reachStep, List.mem_filter]

theorem reachSet_mono {V adj a k v} (h : v ∈ reachSet V adj a k) : v ∈ reachSet V adj a (k + 1) :=
  mem_reachSet_succ.mpr ⟨reachSet_sub h, .inl h⟩

theorem reachSet_mono_le {V adj a k k' v} (hk : k ≤ k') (h : v ∈ reachSet V adj a k) :
    v ∈ reachSet V adj a k' := by
  induction hk with
  | refl => exact h
  | step _ ih => exact reachSet_mono ih

theorem reachSet_sound {V adj a k v} (h : v ∈ reachSet V adj a k) : Reach V adj a v := by
  induction k generalizing v with
  | zero =>
    obtain ⟨hv, rfl⟩ := mem_reachSet_zero.mp h
    exact .refl hv
  | succ k ih =>
    obtain ⟨hv, h | ⟨u, hu, huv⟩⟩ := mem_reachSet_succ.mp h
    · exact ih h
    · exact .tail (ih hu) huv hv

theorem reach_exists {V adj a v} (h : Reach V adj a v) : ∃ k, v ∈ reachSet V adj a k := by
  induction h with
  | refl h => exact ⟨0, mem_reachSet_zero.mpr ⟨h, rfl⟩⟩
  | tail _ h2 h3 ih =>
    obtain ⟨k, hk⟩ := ih
    exact ⟨k + 1, mem_reachSet_succ.mpr ⟨h3, .inr ⟨_, hk, h2⟩⟩⟩

/-- once a round adds nothing, no later round does -/
theorem reachSet_stable {V adj a j} (hst : ∀ v ∈ reachSet V adj a (j + 1), v ∈ reachSet V adj a j) :
    ∀ m v, v ∈ reachSet V adj a (j + m) → v ∈ reachSet V adj a j := by
  intro m
  induction m with
  | zero => intro v h; exact h
  | succ m ih =>
    intro v h
    have h' : v ∈ reachSet V adj a (j + m + 1) := h
    obtain ⟨hv, h1 | ⟨u, hu, huv⟩⟩ := mem_reachSet_succ.mp h'
    · exact ih v h1
    · exact hst v (mem_reachSet_succ.mpr ⟨hv, .inr ⟨u, ih u hu, huv⟩⟩)

/-- after `k` rounds either some round `≤ k` was already stable or at least `k + 1` vertices are reached -/
theorem reachSet_grow_or_stable (V adj a) (k : Nat) :
    (∃ j, j ≤ k ∧ ∀ v ∈ reachSet V adj a (j + 1), v ∈ reachSet V adj a j) ∨
      k + 1 ≤ (reachSet V adj a k).length := by
  induction k with
  | zero =>
    by_cases h : ∀ v ∈ reachSet V adj a 1, v ∈ reachSet V adj a 0
    · exact .inl ⟨0, Nat.le_refl _, h⟩
    · right
      cases hr : reachSet V adj a 0 with
      | nil =>
        exfalso; apply h; intro v hv
        obtain ⟨_, h1 | ⟨u, hu, _⟩⟩ := mem_reachSet_succ.mp hv
        · exact h1
        · rw [hr] at hu; cases hu
      | cons x xs => simp
  | succ k ih =>
    rcases ih with ⟨j, hj, hst⟩ | hlen
    · exact .inl ⟨j, Nat.le_succ_of_le hj, hst⟩
    · by_cases h : ∀ v ∈ reachSet V adj a (k + 1 + 1), v ∈ reachSet V adj a (k + 1)
      · exact .inl ⟨k + 1, Nat.le_refl _, h⟩
      · right
        have hex : ∃ v, v ∈ reachSet V adj a (k + 1 + 1) ∧ v ∉ reachSet V adj a (k + 1) :=
          Classical.byContradiction fun hn => h fun v hv =>
            Classical.byContradiction fun hv' => hn ⟨v, hv, hv'⟩
        obtain ⟨v, hv, hv'⟩ := hex
        -- one more vertex than the round before, which has one more than … `k + 1`
        have hlt1 : (reachSet V adj a k).length < (reachSet V adj a (k + 1)).length ∨
            (∀ w ∈ reachSet V adj a (k + 1), w ∈ reachSet V adj a k) := by
          by_cases h' : ∀ w ∈ reachSet V adj a (k + 1), w ∈ reachSet V adj a k
          · exact .inr h'
          · left
            have hex' : ∃ w, w ∈ reachSet V adj a (k + 1) ∧ w ∉ reachSet V adj a k :=
              Classical.byContradiction fun hn => h' fun w hw =>
                Classical.byContradiction fun hw' => hn ⟨w, hw, hw'⟩
            obtain ⟨w, hw, hw'⟩ := hex'
            rw [reachSet_eq_filter V adj a k, reachSet_eq_filter V adj a (k + 1)]
            refine filter_length_lt (x := w) ?_ (reachSet_sub hw) ?_ ?_
            · intro x hx hp
              have : x ∈ reachSet V adj a k := by
                rw [reachSet_eq_filter]; exact List.mem_filter.mpr ⟨hx, hp⟩
              have := reachSet_mono this
              rw [reachSet_eq_filter] at this; exact (List.mem_filter.mp this).2
            · rw [reachSet_eq_filter] at hw; exact (List.mem_filter.mp hw).2
            · intro hp; apply hw'
              rw [reachSet_eq_filter]; exact List.mem_filter.mpr ⟨reachSet_sub hw, hp⟩
        have hlt2 : (reachSet V adj a (k + 1)).length < (reachSet V adj a (k + 1 + 1)).length := by
          rw [reachSet_eq_filter V adj a (k + 1), reachSet_eq_filter V adj a (k + 1 + 1)]
          refine filter_length_lt (x := v) ?_ (reachSet_sub hv) ?_ ?_
          · intro x hx hp
            have : x ∈ reachSet V adj a (k + 1) := by
              rw [reachSet_eq_filter]; exact List.mem_filter.mpr ⟨hx, hp⟩
            have := reachSet_mono this
            rw [reachSet_eq_filter] at this; exact (List.mem_filter.mp this).2
          · rw [reachSet_eq_filter] at hv; exact (List.mem_filter.mp hv).2
          · intro hp; apply hv'
            rw [reachSet_eq_filter]; exact List.mem_filter.mpr ⟨reachSet_sub hv, hp⟩
        rcases hlt1 with hlt1 | hst
        · omega
        · -- round `k` stable contradicts the new vertex `v`
          exfalso
          have := reachSet_stable hst 2 v (by simpa using hv)
          exact hv' (reachSet_mono this)

/-- `|V|` rounds reach everything reachable -/
theorem reach_mem_reachSet {V adj a v} (h : Reach V adj a v) : v ∈ reachSet V adj a V.length := by
  obtain ⟨m, hm⟩ := reach_exists h
  rcases reachSet_grow_or_stable V adj a V.length with ⟨j, hj, hst⟩ | hlen
  · by_cases hmj : m ≤ j
    · exact reachSet_mono_le (Nat.le_trans hmj hj) hm
    · have : m = j + (m - j) := by omega
      rw [this] at hm
      exact reachSet_mono_le hj (reachSet_stable hst _ _ hm)
  · exfalso
    have : (reachSet V adj a V.length).length ≤ V.length := by
      rw [reachSet_eq_filter]; exact List.length_filter_le _ _
    omega

theorem mem_reachSet_iff {V adj a v} : v ∈ reachSet V adj a V.length ↔ Reach V adj a v :=
  ⟨reachSet_sound, reach_mem_reachSet⟩

/-- the fuel-bounded search decides the closure -/
theorem reaches_iff {V adj a c} : reaches V adj a c = true ↔ Reach V adj a c := by
  unfold reaches; rw [List.contains_iff_mem]; exact mem_reachSet_iff

theorem rowsAdj_adjRows {V : List Name} {adj : Name → Name → Bool} {u v : Name} :
    rowsAdj (adjRows V adj) u v = true ↔ u ∈ V ∧ v ∈ V ∧ adj u v = true := by
  unfold rowsAdj adjRows
  rw [List.any_map, List.any_eq_true]
  constructor
  · rintro ⟨x, hx, h⟩
    simp only [Function.comp, Bool.and_eq_true, beq_iff_eq, List.contains_iff_mem, List.mem_filter] at h
    obtain ⟨rfl, hv, ha⟩ := h
    exact ⟨hx, hv, ha⟩
  · rintro ⟨hu, hv, ha⟩
    refine ⟨u, hu, ?_⟩
    simp [Function.comp, List.mem_filter, hv, ha]

theorem reach_rows {V : List Name} {adj : Name → Name → Bool} (a c : Name) :
    Reach V (rowsAdj (adjRows V adj)) a c ↔ Reach V adj a c := by
  apply reach_congr
  intro u v hu hv
  cases h : adj u v
  · cases h' : rowsAdj (adjRows V adj) u v
    · rfl
    · rw [rowsAdj_adjRows] at h'; rw [h'.2.2] at h; cases h
  · exact rowsAdj_adjRows.mpr ⟨hu, hv, h⟩


/-! ## specification vocabulary -/

/-- node `n` produces the name `o` (data output or emit) -/
def Produces (b : BuildInput) (n o : Name) : Prop := ∃ nd ∈ b.nodes, nd.name = n ∧ o ∈ nd.outputs

/-- `v` is reachable from the target `t` and from no other target in `T`
(`v ∈ _compute_exclusive_reachability(G, T)[t]`) -/
def Excl (V : List Name) (adj : Name → Name → Bool) (T : List Name) (t v : Name) : Prop :=
  Reach V adj t v ∧ ∀ t' ∈ T, t' ≠ t → ¬ Reach V adj t' v

/-- no gate other than the one called `gate` lists `t` among its targets
(`not (_controllers_of(t, node_map) - {gate})`) -/
def SoleController (nodes : List NodeD) (gate t : Name) : Prop :=
  ∀ g ∈ nodes, g.isGate = true → t ∈ g.targetNames → g.name = gate

/-- `needs(m, B)` of `_dependent_on_branch`: the node called `m` cannot start unless `B` ran —
(a) it has a parameter without a default of its own (`has_default_for`) that has producers, all of them in
`B`; (b) it waits for a signal that has producers, all of them in `B`; (c) some gate routes to it, and
every gate routing to it is in `B` -/
def NeedsBranch (nodes : List NodeD) (B : Name → Prop) (m : Name) : Prop :=
  (∃ nd ∈ nodes, nd.name = m ∧ ∃ p ∈ nd.inputs, p ∉ nd.hasDefault ∧ sourcesOf nodes p ≠ [] ∧
      ∀ s ∈ sourcesOf nodes p, B s) ∨
    (∃ nd ∈ nodes, nd.name = m ∧ ∃ w ∈ nd.waitFor, sourcesOf nodes w ≠ [] ∧ ∀ s ∈ sourcesOf nodes w, B s) ∨
    (controllersOf nodes m ≠ [] ∧ ∀ c ∈ controllersOf nodes m, B c)

/-- `m ∈ _compute_exclusive_reachability(G, T, gate=gate, …)[t]`: `m` runs ONLY when the gate called `gate`
chose its target `t`.  The least set holding `t` — provided no OTHER gate routes to `t`, else the set is
empty — and every candidate (`Excl`: reachable from `t` and from no other target in `T`) that needs the set
(`NeedsBranch`; the three `via…` constructors are its three disjuncts, `InBranch.step` / `inBranch_iff`
put them back together).  `sourcesOf nodes p` = `output_to_sources[p]` (`mem_sourcesOf`),
`controllersOf nodes m` = `_controllers_of(m, node_map)` (`mem_controllersOf`). -/
inductive InBranch (nodes : List NodeD) (V : List Name) (adj : Name → Name → Bool) (T : List Name)
    (gate t : Name) : Name → Prop
  | root : SoleController nodes gate t → InBranch nodes V adj T gate t t
  | viaInput {m p : Name} {nd : NodeD} : Excl V adj T t m → nd ∈ nodes → nd.name = m → p ∈ nd.inputs →
      p ∉ nd.hasDefault → sourcesOf nodes p ≠ [] →
      (∀ s ∈ sourcesOf nodes p, InBranch nodes V adj T gate t s) → InBranch nodes V adj T gate t m
  | viaSignal {m w : Name} {nd : NodeD} : Excl V adj T t m → nd ∈ nodes → nd.name = m → w ∈ nd.waitFor →
      sourcesOf nodes w ≠ [] →
      (∀ s ∈ sourcesOf nodes w, InBranch nodes V adj T gate t s) → InBranch nodes V adj T gate t m
  | viaGate {m : Name} : Excl V adj T t m → controllersOf nodes m ≠ [] →
      (∀ c ∈ controllersOf nodes m, InBranch nodes V adj T gate t c) → InBranch nodes V adj T gate t m

/-- `a` and `c` lie in different branches of the gate `g` -/
def MutexVia (nodes : List NodeD) (V : List Name) (adj : Name → Name → Bool) (g : NodeD) (a c : Name) : Prop :=
  ∃ t1 ∈ knownTargets V g, ∃ t2 ∈ knownTargets V g, t1 ≠ t2 ∧
    InBranch nodes V adj (knownTargets V g) g.name t1 a ∧ InBranch nodes V adj (knownTargets V g) g.name t2 c

/-- `_is_pair_mutex`: some exclusive gate (route without `multi_target`, or if/else) has two distinct
targets that are nodes, `a` in the branch of the one and `c` in the branch of the other (`InBranch`: the
target itself when no other gate routes to it, and the nodes reachable in the built graph from that target
only which cannot start without the branch) -/
def Mutex (b : BuildInput) (a c : Name) : Prop :=
  ∃ g ∈ b.nodes, exclusiveGate g = true ∧ MutexVia b.nodes (nodeNames b) (hasEdge (graphEdges b)) g a c

/-- pre-repair `MutexVia`: a branch was every node reachable from one target only -/
def MutexViaReach (V : List Name) (adj : Name → Name → Bool) (g : NodeD) (a c : Name) : Prop :=
  ∃ t1 ∈ knownTargets V g, ∃ t2 ∈ knownTargets V g, t1 ≠ t2 ∧
    Excl V adj (knownTargets V g) t1 a ∧ Excl V adj (knownTargets V g) t2 c

/-- `_is_pair_mutex` BEFORE the repair "two producers of one name are exclusive only if neither can run
without its branch": `a` reachable in the built graph exclusively from one target of an exclusive gate and
`c` exclusively from another -/
def MutexReach (b : BuildInput) (a c : Name) : Prop :=
  ∃ g ∈ b.nodes, exclusiveGate g = true ∧ MutexViaReach (nodeNames b) (hasEdge (graphEdges b)) g a c

/-- `_is_pair_ordered` / the explicit-mode path test: a directed path between the two producers of
`o`, in either direction, over `orderAdj b o` (explicit mode: the declared graph; auto-inference:
control edges, ordering edges and data edges carrying at least one value not contested among the
producers of `o`) -/
def Ordered (b : BuildInput) (o a c : Name) : Prop :=
  Reach (nodeNames b) (orderAdj b o) a c ∨ Reach (nodeNames b) (orderAdj b o) c a

/-- identifier and not a keyword -/
def LegalName (s : String) : Prop := isIdentifier s = true ∧ isKeyword s = false

/-- an explicit edge names known nodes and, when it lists values, outputs of its source that are
inputs of its target -/
def EdgeOK (nodes : List NodeD) (e : Name × Name × Option (List Name)) : Prop :=
  ∃ sn ∈ nodes, sn.name = e.1 ∧ ∃ dn ∈ nodes, dn.name = e.2.1 ∧
    ∀ vs, e.2.2 = some vs → ∀ v ∈ vs, v ∈ sn.outputs ∧ v ∈ dn.inputs

/-- both ends of the value `v` on the edge `e` are annotated, with compatible types -/
def TypedOK (b : BuildInput) (e : Edge) (v : Name) : Prop :=
  ∃ to ti, outType b e.src v = some to ∧ inType b e.dst v = some ti ∧ compat to ti = true

/-- the same of a producer `src` and a consumer `dst` given by name (`TypedOK b e v` is
`TypedTriple b e.src e.dst v`, by definition) -/
def TypedTriple (b : BuildInput) (src dst v : Name) : Prop :=
  ∃ to ti, outType b src v = some to ∧ inType b dst v = some ti ∧ compat to ti = true

theorem typedOK_iff_triple {b : BuildInput} {e : Edge} {v : Name} :
    TypedOK b e v ↔ TypedTriple b e.src e.dst v := Iff.rfl

/-! ## mutual exclusion -/

theorem contains_reachSet_false {V adj t v} :
    (reachSet V adj t V.length).contains v = false ↔ ¬ Reach V adj t v := by
  rw [← mem_reachSet_iff, ← List.contains_iff_mem]; simp

/-- the candidates of the target `t` (`exclSetsReach … T` at `t`) -/
def candOf (V : List Name) (adj : Name → Name → Bool) (T : List Name) (t : Name) : List Name :=
  (reachSet V adj t V.length).filter fun v =>
    T.all fun t' => t' == t || !(reachSet V adj t' V.length).contains v

theorem mem_candOf {V adj T t v} : v ∈ candOf V adj T t ↔ Excl V adj T t v := by
  unfold candOf Excl
  simp only [List.mem_filter, List.all_eq_true, Bool.or_eq_true, beq_iff_eq, Bool.not_eq_true',
    mem_reachSet_iff, contains_reachSet_false]
  constructor
  · rintro ⟨hr, he⟩
    exact ⟨hr, fun t' ht' hn => (he t' ht').resolve_left hn⟩
  · rintro ⟨hr, he⟩
    refine ⟨hr, fun t' ht' => ?_⟩
    by_cases h : t' = t
    · exact .inl h
    · exact .inr (he t' ht' h)

theorem exclSetsReach_eq (V : List Name) (adj : Name → Name → Bool) (T : List Name) :
    exclSetsReach V adj T = T.map fun t => (t, candOf V adj T t) := by
  unfold exclSetsReach candOf
  simp only [List.map_map, List.all_map]
  rfl

theorem exclSets_eq (nodes : List NodeD) (V : List Name) (adj : Name → Name → Bool) (gate : Name)
    (T : List Name) :
    exclSets nodes V adj gate T = T.map fun t => (t, branchOf nodes gate t (candOf V adj T t)) := by
  unfold exclSets
  rw [exclSetsReach_eq, List.map_map]
  rfl

theorem pairMutexIn_map {T : List Name} {f : Name → List Name} {a c : Name} :
    pairMutexIn (T.map fun t => (t, f t)) a c = true ↔
      ∃ t1 ∈ T, ∃ t2 ∈ T, t1 ≠ t2 ∧ a ∈ f t1 ∧ c ∈ f t2 := by
  unfold pairMutexIn
  simp only [List.any_map, List.any_eq_true, Function.comp, Bool.and_eq_true, bne_iff_ne, ne_eq,
    List.contains_iff_mem]
  constructor
  · rintro ⟨t1, h1, t2, h2, ⟨hne, ha⟩, hc⟩
    exact ⟨t1, h1, t2, h2, hne, ha, hc⟩
  · rintro ⟨t1, h1, t2, h2, hne, ha, hc⟩
    exact ⟨t1, h1, t2, h2, ⟨hne, ha⟩, hc⟩

/-- the pre-repair branch sets: reachable from one target only -/
theorem pairMutexIn_exclSetsReach {V adj T a c} :
    pairMutexIn (exclSetsReach V adj T) a c = true ↔
      ∃ t1 ∈ T, ∃ t2 ∈ T, t1 ≠ t2 ∧ Excl V adj T t1 a ∧ Excl V adj T t2 c := by
  rw [exclSetsReach_eq, pairMutexIn_map]
  simp only [mem_candOf]

/-! ### gates routing to a node, `needs` -/

theorem mem_controllersOf {nodes : List NodeD} {n c : Name} :
    c ∈ controllersOf nodes n ↔ ∃ g ∈ nodes, g.isGate = true ∧ n ∈ g.targetNames ∧ g.name = c := by
  simp only [controllersOf, List.mem_map, List.mem_filter, Bool.and_eq_true, List.contains_iff_mem]
  constructor
  · rintro ⟨g, ⟨hg, h1, h2⟩, rfl⟩
    exact ⟨g, hg, h1, h2, rfl⟩
  · rintro ⟨g, hg, h1, h2, rfl⟩
    exact ⟨g, ⟨hg, h1, h2⟩, rfl⟩

theorem soleController_iff {nodes : List NodeD} {gate t : Name} :
    (controllersOf nodes t).all (· == gate) = true ↔ SoleController nodes gate t := by
  simp only [List.all_eq_true, beq_iff_eq, mem_controllersOf, SoleController]
  constructor
  · intro h g hg h1 h2
    exact h _ ⟨g, hg, h1, h2, rfl⟩
  · rintro h c ⟨g, hg, h1, h2, rfl⟩
    exact h g hg h1 h2

theorem NeedsBranch.mono {nodes : List NodeD} {B B' : Name → Prop} {m : Name} (h : ∀ x, B x → B' x)
    (hn : NeedsBranch nodes B m) : NeedsBranch nodes B' m := by
  rcases hn with ⟨nd, hnd, hname, p, hp, hd, hne, hall⟩ | ⟨nd, hnd, hname, w, hw, hne, hall⟩ | ⟨hne, hall⟩
  · exact .inl ⟨nd, hnd, hname, p, hp, hd, hne, fun s hs => h s (hall s hs)⟩
  · exact .inr (.inl ⟨nd, hnd, hname, w, hw, hne, fun s hs => h s (hall s hs)⟩)
  · exact .inr (.inr ⟨hne, fun c hc => h c (hall c hc)⟩)

theorem isEmpty_not_iff {α : Type} {l : List α} : (!l.isEmpty) = true ↔ l ≠ [] := by
  cases l <;> simp

theorem srcCond_iff {S B : List Name} :
    (!S.isEmpty && S.all fun s => B.contains s) = true ↔ S ≠ [] ∧ ∀ s ∈ S, s ∈ B := by
  rw [Bool.and_eq_true, isEmpty_not_iff, List.all_eq_true]
  simp only [List.contains_iff_mem]

theorem needsBranch_iff {nodes : List NodeD} {B : List Name} {m : Name} :
    needsBranch nodes B m = true ↔ NeedsBranch nodes (· ∈ B) m := by
  unfold needsBranch NeedsBranch
  rw [Bool.or_eq_true, List.any_eq_true, srcCond_iff]
  constructor
  · rintro (⟨nd, hnd, h⟩ | h)
    · rw [Bool.and_eq_true, beq_iff_eq, Bool.or_eq_true, List.any_eq_true, List.any_eq_true] at h
      obtain ⟨hname, ⟨p, hp, h⟩ | ⟨w, hw, h⟩⟩ := h
      · rw [Bool.and_eq_true, srcCond_iff] at h
        obtain ⟨⟨hne, hall⟩, hd⟩ := h
        refine .inl ⟨nd, hnd, hname, p, hp, ?_, hne, hall⟩
        intro hm
        rw [List.contains_iff_mem.mpr hm] at hd
        cases hd
      · obtain ⟨hne, hall⟩ := srcCond_iff.mp h
        exact .inr (.inl ⟨nd, hnd, hname, w, hw, hne, hall⟩)
    · exact .inr (.inr h)
  · rintro (⟨nd, hnd, hname, p, hp, hd, hne, hall⟩ | ⟨nd, hnd, hname, w, hw, hne, hall⟩ | h)
    · refine .inl ⟨nd, hnd, ?_⟩
      rw [Bool.and_eq_true, beq_iff_eq, Bool.or_eq_true, List.any_eq_true]
      refine ⟨hname, .inl ⟨p, hp, ?_⟩⟩
      rw [Bool.and_eq_true, srcCond_iff]
      refine ⟨⟨hne, hall⟩, ?_⟩
      cases hc : nd.hasDefault.contains p
      · rfl
      · exact absurd (List.contains_iff_mem.mp hc) hd
    · refine .inl ⟨nd, hnd, ?_⟩
      rw [Bool.and_eq_true, beq_iff_eq, Bool.or_eq_true, List.any_eq_true, List.any_eq_true]
      exact ⟨hname, .inr ⟨w, hw, srcCond_iff.mpr ⟨hne, hall⟩⟩⟩
    · exact .inr h

theorem needsBranch_mono {nodes : List NodeD} {B B' : List Name} {m : Name} (h : ∀ x ∈ B, x ∈ B')
    (hn : needsBranch nodes B m = true) : needsBranch nodes B' m = true :=
  needsBranch_iff.mpr ((needsBranch_iff.mp hn).mono h)

/-! ### the declarative branch -/

/-- the three `via…` constructors as one: a candidate that needs the branch is in it -/
theorem InBranch.step {nodes V adj T gate t m} (he : Excl V adj T t m)
    (hn : NeedsBranch nodes (InBranch nodes V adj T gate t) m) : InBranch nodes V adj T gate t m := by
  rcases hn with ⟨nd, hnd, hname, p, hp, hd, hne, hall⟩ | ⟨nd, hnd, hname, w, hw, hne, hall⟩ | ⟨hne, hall⟩
  · exact .viaInput he hnd hname hp hd hne hall
  · exact .viaSignal he hnd hname hw hne hall
  · exact .viaGate he hne hall

theorem exists_mem_of_ne_nil' {α : Type} {l : List α} (h : l ≠ []) : ∃ x, x ∈ l := by
  cases l with
  | nil => exact absurd rfl h
  | cons x _ => exact ⟨x, List.mem_cons_self ..⟩

/-- a branch is non-empty only if no other gate routes to its target -/
theorem InBranch.sole {nodes V adj T gate t m} (h : InBranch nodes V adj T gate t m) :
    SoleController nodes gate t := by
  induction h with
  | root hs => exact hs
  | viaInput _ _ _ _ _ hne _ ih =>
    obtain ⟨s, hs⟩ := exists_mem_of_ne_nil' hne
    exact ih s hs
  | viaSignal _ _ _ _ hne _ ih =>
    obtain ⟨s, hs⟩ := exists_mem_of_ne_nil' hne
    exact ih s hs
  | viaGate _ hne _ ih =>
    obtain ⟨s, hs⟩ := exists_mem_of_ne_nil' hne
    exact ih s hs

/-- every member of a branch is its target or a pre-repair member (reachable from that target only) -/
theorem InBranch.root_or_excl {nodes V adj T gate t m} (h : InBranch nodes V adj T gate t m) :
    m = t ∨ Excl V adj T t m := by
  cases h with
  | root _ => exact .inl rfl
  | viaInput he _ _ _ _ _ _ => exact .inr he
  | viaSignal he _ _ _ _ _ => exact .inr he
  | viaGate he _ _ => exact .inr he

/-- inversion: a member is the target, or a candidate that needs the branch -/
theorem InBranch.needs {nodes V adj T gate t m} (h : InBranch nodes V adj T gate t m) :
    m = t ∨ (Excl V adj T t m ∧ NeedsBranch nodes (InBranch nodes V adj T gate t) m) := by
  cases h with
  | root _ => exact .inl rfl
  | @viaInput _ p nd he hnd hname hp hd hne hall =>
    exact .inr ⟨he, .inl ⟨nd, hnd, hname, p, hp, hd, hne, hall⟩⟩
  | @viaSignal _ w nd he hnd hname hw hne hall =>
    exact .inr ⟨he, .inr (.inl ⟨nd, hnd, hname, w, hw, hne, hall⟩)⟩
  | viaGate he hne hall => exact .inr ⟨he, .inr (.inr ⟨hne, hall⟩)⟩

/-- the fixpoint equation of the branch -/
theorem inBranch_iff {nodes V adj T gate t m} :
    InBranch nodes V adj T gate t m ↔
      SoleController nodes gate t ∧
        (m = t ∨ (Excl V adj T t m ∧ NeedsBranch nodes (InBranch nodes V adj T gate t) m)) := by
  constructor
  · intro h; exact ⟨h.sole, h.needs⟩
  · rintro ⟨hs, rfl | ⟨he, hn⟩⟩
    · exact .root hs
    · exact .step he hn

/-- the branch only depends on the graph through its candidates -/
theorem InBranch.congr {nodes V adj T V' adj' T' gate t m}
    (hx : ∀ v, Excl V adj T t v → Excl V' adj' T' t v) (h : InBranch nodes V adj T gate t m) :
    InBranch nodes V' adj' T' gate t m := by
  induction h with
  | root hs => exact .root hs
  | viaInput he hnd hname hp hd hne _ ih => exact .viaInput (hx _ he) hnd hname hp hd hne ih
  | viaSignal he hnd hname hw hne _ ih => exact .viaSignal (hx _ he) hnd hname hw hne ih
  | viaGate he hne _ ih => exact .viaGate (hx _ he) hne ih

/-! ### `branchRounds` computes it -/

/-- the predicate whose filter is `branchRounds … k` -/
def branchPred (nodes : List NodeD) (t : Name) (cand : List Name) : Nat → Name → Bool
  | 0 => fun _ => false
  | k + 1 => fun m =>
      (branchRounds nodes t cand k).contains m || needsBranch nodes (t :: branchRounds nodes t cand k) m

theorem branchRounds_eq_filter (nodes t cand k) :
    branchRounds nodes t cand k = cand.filter (branchPred nodes t cand k) := by
  cases k with
  | zero => simp [branchRounds, branchPred]
  | succ k => rfl

theorem branchRounds_sub {nodes t cand k v} (h : v ∈ branchRounds nodes t cand k) : v ∈ cand := by
  rw [branchRounds_eq_filter] at h; exact (List.mem_filter.mp h).1

theorem mem_branchRounds_succ {nodes t cand k v} :
    v ∈ branchRounds nodes t cand (k + 1) ↔
      v ∈ cand ∧ (v ∈ branchRounds nodes t cand k ∨
        needsBranch nodes (t :: branchRounds nodes t cand k) v = true) := by
  simp [branchRounds, branchStep, List.mem_filter]

theorem branchRounds_mono {nodes t cand k v} (h : v ∈ branchRounds nodes t cand k) :
    v ∈ branchRounds nodes t cand (k + 1) :=
  mem_branchRounds_succ.mpr ⟨branchRounds_sub h, .inl h⟩

theorem branchRounds_mono_le {nodes t cand k k' v} (hk : k ≤ k') (h : v ∈ branchRounds nodes t cand k) :
    v ∈ branchRounds nodes t cand k' := by
  induction hk with
  | refl => exact h
  | step _ ih => exact branchRounds_mono ih

/-- once a round adds nothing, no later round does -/
theorem branchRounds_stable {nodes t cand j}
    (hst : ∀ v ∈ branchRounds nodes t cand (j + 1), v ∈ branchRounds nodes t cand j) :
    ∀ m v, v ∈ branchRounds nodes t cand (j + m) → v ∈ branchRounds nodes t cand j := by
  intro m
  induction m with
  | zero => intro v h; exact h
  | succ m ih =>
    intro v h
    have h' : v ∈ branchRounds nodes t cand (j + m + 1) := h
    obtain ⟨hv, h1 | hn⟩ := mem_branchRounds_succ.mp h'
    · exact ih v h1
    · refine hst v (mem_branchRounds_succ.mpr ⟨hv, .inr (needsBranch_mono ?_ hn)⟩)
      intro x hx
      rcases List.mem_cons.mp hx with rfl | hx
      · exact List.mem_cons_self ..
      · exact List.mem_cons_of_mem _ (ih x hx)

/-- after `k` rounds either some earlier round was already stable or at least `k` candidates are in -/
theorem branchRounds_grow_or_stable (nodes t cand) (k : Nat) :
    (∃ j, j < k ∧ ∀ v ∈ branchRounds nodes t cand (j + 1), v ∈ branchRounds nodes t cand j) ∨
      k ≤ (branchRounds nodes t cand k).length := by
  induction k with
  | zero => exact .inr (Nat.zero_le _)
  | succ k ih =>
    rcases ih with ⟨j, hj, hst⟩ | hlen
    · exact .inl ⟨j, Nat.lt_succ_of_lt hj, hst⟩
    · by_cases h : ∀ v ∈ branchRounds nodes t cand (k + 1), v ∈ branchRounds nodes t cand k
      · exact .inl ⟨k, Nat.lt_succ_self _, h⟩
      · right
        have hex : ∃ v, v ∈ branchRounds nodes t cand (k + 1) ∧ v ∉ branchRounds nodes t cand k :=
          Classical.byContradiction fun hn => h fun v hv =>
            Classical.byContradiction fun hv' => hn ⟨v, hv, hv'⟩
        obtain ⟨v, hv, hv'⟩ := hex
        have hlt : (branchRounds nodes t cand k).length < (branchRounds nodes t cand (k + 1)).length := by
          rw [branchRounds_eq_filter nodes t cand k, branchRounds_eq_filter nodes t cand (k + 1)]
          refine filter_length_lt (x := v) ?_ (branchRounds_sub hv) ?_ ?_
          · intro x hx hp
            have : x ∈ branchRounds nodes t cand k := by
              rw [branchRounds_eq_filter]; exact List.mem_filter.mpr ⟨hx, hp⟩
            have := branchRounds_mono this
            rw [branchRounds_eq_filter] at this; exact (List.mem_filter.mp this).2
          · rw [branchRounds_eq_filter] at hv; exact (List.mem_filter.mp hv).2
          · intro hp; apply hv'
            rw [branchRounds_eq_filter]; exact List.mem_filter.mpr ⟨branchRounds_sub hv, hp⟩
        omega

/-- `|cand|` rounds reach the fixpoint -/
theorem branchRounds_closed {nodes t cand k v} (h : v ∈ branchRounds nodes t cand k) :
    v ∈ branchRounds nodes t cand cand.length := by
  rcases branchRounds_grow_or_stable nodes t cand (cand.length + 1) with ⟨j, hj, hst⟩ | hlen
  · have hj' : j ≤ cand.length := Nat.le_of_lt_succ hj
    by_cases hkj : k ≤ j
    · exact branchRounds_mono_le (Nat.le_trans hkj hj') h
    · have : k = j + (k - j) := by omega
      rw [this] at h
      exact branchRounds_mono_le hj' (branchRounds_stable hst _ _ h)
  · exfalso
    have : (branchRounds nodes t cand (cand.length + 1)).length ≤ cand.length := by
      rw [branchRounds_eq_filter]; exact List.length_filter_le _ _
    omega

theorem branchRounds_sound {nodes V adj T gate t cand} (hc : ∀ v, v ∈ cand → Excl V adj T t v)
    (hs : SoleController nodes gate t) :
    ∀ k v, v ∈ branchRounds nodes t cand k → InBranch nodes V adj T gate t v := by
  intro k
  induction k with
  | zero => intro v h; cases h
  | succ k ih =>
    intro v h
    obtain ⟨hv, h1 | hn⟩ := mem_branchRounds_succ.mp h
    · exact ih v h1
    · refine .step (hc v hv) ((needsBranch_iff.mp hn).mono ?_)
      intro x hx
      rcases List.mem_cons.mp hx with rfl | hx
      · exact .root hs
      · exact ih x hx

theorem inBranch_mem_rounds {nodes V adj T gate t cand} (hc : ∀ v, Excl V adj T t v → v ∈ cand) {v : Name}
    (h : InBranch nodes V adj T gate t v) : v ∈ t :: branchRounds nodes t cand cand.length := by
  have close : ∀ m, Excl V adj T t m →
      NeedsBranch nodes (· ∈ t :: branchRounds nodes t cand cand.length) m →
      m ∈ t :: branchRounds nodes t cand cand.length := fun m he hn =>
    List.mem_cons_of_mem _ (branchRounds_closed (k := cand.length + 1)
      (mem_branchRounds_succ.mpr ⟨hc m he, .inr (needsBranch_iff.mpr hn)⟩))
  induction h with
  | root _ => exact List.mem_cons_self ..
  | @viaInput _ p nd he hnd hname hp hd hne _ ih =>
    exact close _ he (.inl ⟨nd, hnd, hname, p, hp, hd, hne, ih⟩)
  | @viaSignal _ w nd he hnd hname hw hne _ ih =>
    exact close _ he (.inr (.inl ⟨nd, hnd, hname, w, hw, hne, ih⟩))
  | viaGate he hne _ ih => exact close _ he (.inr (.inr ⟨hne, ih⟩))

/-- KEY: the rounds-based branch is the declarative one -/
theorem mem_branchOf_iff {nodes V adj T gate t cand} (hc : ∀ v, v ∈ cand ↔ Excl V adj T t v) {v : Name} :
    v ∈ branchOf nodes gate t cand ↔ InBranch nodes V adj T gate t v := by
  unfold branchOf
  by_cases hs : (controllersOf nodes t).all (· == gate) = true
  · rw [if_pos hs]
    have hs' := soleController_iff.mp hs
    constructor
    · intro h
      rcases List.mem_cons.mp h with rfl | h
      · exact .root hs'
      · exact branchRounds_sound (fun v hv => (hc v).mp hv) hs' _ v h
    · exact inBranch_mem_rounds fun v hv => (hc v).mpr hv
  · rw [if_neg hs]
    constructor
    · intro h; cases h
    · intro h; exact absurd (soleController_iff.mpr h.sole) hs

theorem pairMutexIn_exclSets {nodes V adj gate T a c} :
    pairMutexIn (exclSets nodes V adj gate T) a c = true ↔
      ∃ t1 ∈ T, ∃ t2 ∈ T, t1 ≠ t2 ∧ InBranch nodes V adj T gate t1 a ∧ InBranch nodes V adj T gate t2 c := by
  rw [exclSets_eq, pairMutexIn_map]
  simp only [mem_branchOf_iff (fun _ => mem_candOf)]

theorem two_le_length_of_ne {α : Type} {l : List α} {x y : α} (hx : x ∈ l) (hy : y ∈ l) (hne : x ≠ y) :
    2 ≤ l.length := by
  match l, hx, hy with
  | [], hx, _ => cases hx
  | [z], hx, hy =>
    simp only [List.mem_singleton] at hx hy
    exact (hne (hx.trans hy.symm)).elim
  | _ :: _ :: _, _, _ => simp

theorem isPairMutex_expandedGroups {nodes : List NodeD} {V adj a c} :
    isPairMutex (expandedGroups nodes V adj) a c = true ↔
      ∃ g ∈ nodes, exclusiveGate g = true ∧ MutexVia nodes V adj g a c := by
  unfold isPairMutex expandedGroups MutexVia
  rw [List.any_eq_true]
  constructor
  · rintro ⟨br, hbr, hm⟩
    obtain ⟨g, hg, hsome⟩ := List.mem_filterMap.mp hbr
    obtain ⟨hgn, hge⟩ := List.mem_filter.mp hg
    refine ⟨g, hgn, hge, ?_⟩
    by_cases hl : (knownTargets V g).length < 2
    · simp [hl] at hsome
    · simp only [hl, if_false, Option.some.injEq] at hsome
      subst hsome
      exact pairMutexIn_exclSets.mp hm
  · rintro ⟨g, hgn, hge, t1, h1, t2, h2, hne, hex⟩
    refine ⟨exclSets nodes V adj g.name (knownTargets V g), ?_,
      pairMutexIn_exclSets.mpr ⟨t1, h1, t2, h2, hne, hex⟩⟩
    refine List.mem_filterMap.mpr ⟨g, List.mem_filter.mpr ⟨hgn, hge⟩, ?_⟩
    have := two_le_length_of_ne h1 h2 hne
    have hl : ¬ (knownTargets V g).length < 2 := by omega
    simp [hl]

theorem isPairMutex_expandedGroupsReach {nodes : List NodeD} {V adj a c} :
    isPairMutex (expandedGroupsReach nodes V adj) a c = true ↔
      ∃ g ∈ nodes, exclusiveGate g = true ∧ MutexViaReach V adj g a c := by
  unfold isPairMutex expandedGroupsReach MutexViaReach
  rw [List.any_eq_true]
  constructor
  · rintro ⟨br, hbr, hm⟩
    obtain ⟨g, hg, hsome⟩ := List.mem_filterMap.mp hbr
    obtain ⟨hgn, hge⟩ := List.mem_filter.mp hg
    refine ⟨g, hgn, hge, ?_⟩
    by_cases hl : (knownTargets V g).length < 2
    · simp [hl] at hsome
    · simp only [hl, if_false, Option.some.injEq] at hsome
      subst hsome
      exact pairMutexIn_exclSetsReach.mp hm
  · rintro ⟨g, hgn, hge, t1, h1, t2, h2, hne, hex⟩
    refine ⟨exclSetsReach V adj (knownTargets V g), ?_,
      pairMutexIn_exclSetsReach.mpr ⟨t1, h1, t2, h2, hne, hex⟩⟩
    refine List.mem_filterMap.mpr ⟨g, List.mem_filter.mpr ⟨hgn, hge⟩, ?_⟩
    have := two_le_length_of_ne h1 h2 hne
    have hl : ¬ (knownTargets V g).length < 2 := by omega
    simp [hl]

theorem excl_rows {V : List Name} {adj : Name → Name → Bool} {T t v} :
    Excl V (rowsAdj (adjRows V adj)) T t v ↔ Excl V adj T t v := by
  simp only [Excl, reach_rows]

theorem inBranch_rows {nodes : List NodeD} {V : List Name} {adj : Name → Name → Bool} {T gate t m} :
    InBranch nodes V (rowsAdj (adjRows V adj)) T gate t m ↔ InBranch nodes V adj T gate t m :=
  ⟨InBranch.congr fun _ h => excl_rows.mp h, InBranch.congr fun _ h => excl_rows.mpr h⟩

theorem mutexVia_rows {nodes : List NodeD} {V : List Name} {adj : Name → Name → Bool} {g a c} :
    MutexVia nodes V (rowsAdj (adjRows V adj)) g a c ↔ MutexVia nodes V adj g a c := by
  simp only [MutexVia, inBranch_rows]

theorem mutexViaReach_rows {V : List Name} {adj : Name → Name → Bool} {g a c} :
    MutexViaReach V (rowsAdj (adjRows V adj)) g a c ↔ MutexViaReach V adj g a c := by
  simp only [MutexViaReach, excl_rows]

theorem Mutex.symm {b a c} (h : Mutex b a c) : Mutex b c a := by
  obtain ⟨g, hg, he, t1, h1, t2, h2, hne, ha, hc⟩ := h
  exact ⟨g, hg, he, t2, h2, t1, h1, fun h => hne h.symm, hc, ha⟩

theorem MutexReach.symm {b a c} (h : MutexReach b a c) : MutexReach b c a := by
  obtain ⟨g, hg, he, t1, h1, t2, h2, hne, ha, hc⟩ := h
  exact ⟨g, hg, he, t2, h2, t1, h1, fun h => hne h.symm, hc, ha⟩

/-- no target (that is a node) of an exclusive gate is reachable in the built graph from another target
of the same gate -/
def TargetsApart (b : BuildInput) : Prop :=
  ∀ g ∈ b.nodes, exclusiveGate g = true → ∀ t ∈ knownTargets (nodeNames b) g,
    ∀ t' ∈ knownTargets (nodeNames b) g, t' ≠ t → ¬ Reach (nodeNames b) (hasEdge (graphEdges b)) t' t

theorem mem_of_mem_knownTargets {V : List Name} {g : NodeD} {t : Name} (h : t ∈ knownTargets V g) : t ∈ V := by
  unfold knownTargets at h
  exact List.contains_iff_mem.mp (List.mem_filter.mp h).2

/-- a pair the repaired rule calls exclusive is, member by member, a target of the gate or a pre-repair
member of that target's branch -/
theorem MutexVia.root_or_excl {nodes V adj g a c} (h : MutexVia nodes V adj g a c) :
    ∃ t1 ∈ knownTargets V g, ∃ t2 ∈ knownTargets V g, t1 ≠ t2 ∧
      (a = t1 ∨ Excl V adj (knownTargets V g) t1 a) ∧ (c = t2 ∨ Excl V adj (knownTargets V g) t2 c) := by
  obtain ⟨t1, h1, t2, h2, hne, ha, hc⟩ := h
  exact ⟨t1, h1, t2, h2, hne, ha.root_or_excl, hc.root_or_excl⟩

/-- where no target of an exclusive gate lies below a sibling target, the repaired rule calls no more
pairs exclusive than the pre-repair one did (without the hypothesis it does:
`HG.C19s.loop_back_branches_now_mutex_witness`) -/
theorem Mutex.mutexReach {b a c} (hap : TargetsApart b) (h : Mutex b a c) : MutexReach b a c := by
  obtain ⟨g, hg, he, hm⟩ := h
  obtain ⟨t1, h1, t2, h2, hne, ha, hc⟩ := hm.root_or_excl
  have self : ∀ t ∈ knownTargets (nodeNames b) g,
      Excl (nodeNames b) (hasEdge (graphEdges b)) (knownTargets (nodeNames b) g) t t := fun t ht =>
    ⟨.refl (mem_of_mem_knownTargets ht), fun t' ht' hn => hap g hg he t ht t' ht' hn⟩
  refine ⟨g, hg, he, t1, h1, t2, h2, hne, ?_, ?_⟩
  · rcases ha with rfl | ha
    · exact self _ h1
    · exact ha
  · rcases hc with rfl | hc
    · exact self _ h2
    · exact hc

theorem Ordered.symm {b o a c} (h : Ordered b o a c) : Ordered b o c a := Or.symm h

/-! ## pairs -/

theorem pairs_eq_nil_of_length_lt {α : Type} {l : List α} (h : l.length < 2) : pairs l = [] := by
  match l, h with
  | [], _ => rfl
  | [_], _ => rfl
  | _ :: _ :: _, h => exfalso; simp only [List.length_cons] at h; omega

theorem forall_pairs_iff_pairwise {α : Type} {R : α → α → Prop} {l : List α} :
    (∀ p ∈ pairs l, R p.1 p.2) ↔ l.Pairwise R := by
  induction l with
  | nil => simp [pairs]
  | cons x xs ih =>
    rw [List.pairwise_cons, ← ih]
    simp only [pairs, List.mem_append, List.mem_map]
    constructor
    · intro h
      exact ⟨fun y hy => h (x, y) (.inl ⟨y, hy, rfl⟩), fun p hp => h p (.inr hp)⟩
    · rintro ⟨h1, h2⟩ p (⟨y, hy, rfl⟩ | hp)
      · exact h1 y hy
      · exact h2 p hp

theorem pairwise_of_forall_ne {α : Type} {R : α → α → Prop} {l : List α} (hn : l.Nodup)
    (h : ∀ x ∈ l, ∀ y ∈ l, x ≠ y → R x y) : l.Pairwise R := by
  induction l with
  | nil => exact List.Pairwise.nil
  | cons x xs ih =>
    obtain ⟨hx, hn'⟩ := List.nodup_cons.mp hn
    refine List.pairwise_cons.mpr ⟨fun y hy => ?_, ih hn' fun a ha c hc => ?_⟩
    · exact h x (List.mem_cons_self ..) y (List.mem_cons_of_mem _ hy) (fun e => hx (e ▸ hy))
    · exact h a (List.mem_cons_of_mem _ ha) c (List.mem_cons_of_mem _ hc)

theorem forall_ne_of_pairwise {α : Type} {R : α → α → Prop} (hs : ∀ x y, R x y → R y x) {l : List α}
    (h : l.Pairwise R) : ∀ x ∈ l, ∀ y ∈ l, x ≠ y → R x y := by
  induction l with
  | nil => intro x hx; cases hx
  | cons z zs ih =>
    obtain ⟨h1, h2⟩ := List.pairwise_cons.mp h
    intro x hx y hy hne
    rcases List.mem_cons.mp hx with rfl | hx'
    · rcases List.mem_cons.mp hy with rfl | hy'
      · exact (hne rfl).elim
      · exact h1 y hy'
    · rcases List.mem_cons.mp hy with rfl | hy'
      · exact hs _ _ (h1 x hx')
      · exact ih h2 x hx' y hy' hne

/-! ## producers -/

theorem mem_sourcesOf {nodes : List NodeD} {o a : Name} :
    a ∈ sourcesOf nodes o ↔ ∃ nd ∈ nodes, nd.name = a ∧ o ∈ nd.outputs := by
  simp only [sourcesOf, List.mem_map, List.mem_filter, List.contains_iff_mem]
  constructor
  · rintro ⟨nd, ⟨h1, h2⟩, rfl⟩; exact ⟨nd, h1, rfl, h2⟩
  · rintro ⟨nd, h1, rfl, h2⟩; exact ⟨nd, ⟨h1, h2⟩, rfl⟩

theorem mem_graphOutputs {nodes : List NodeD} {o : Name} :
    o ∈ graphOutputs nodes ↔ ∃ nd ∈ nodes, o ∈ nd.outputs := by
  simp only [graphOutputs, mem_dedup_iff, List.mem_flatMap]

theorem sourcesOf_nodup {nodes : List NodeD} (hn : (nodes.map (·.name)).Nodup) (o : Name) :
    (sourcesOf nodes o).Nodup := by
  unfold sourcesOf
  exact List.Nodup.sublist (List.Sublist.map _ List.filter_sublist) hn

/-! ## `findNode` -/

theorem findNode_some {nodes : List NodeD} {n : Name} {nd : NodeD} (h : findNode nodes n = some nd) :
    nd ∈ nodes ∧ nd.name = n := by
  unfold findNode at h
  exact ⟨List.mem_of_find?_eq_some h, by simpa using List.find?_some h⟩

theorem findNode_of_nodup {nodes : List NodeD} (hn : (nodes.map (·.name)).Nodup) {nd : NodeD}
    (hm : nd ∈ nodes) : findNode nodes nd.name = some nd := by
  unfold findNode
  induction nodes with
  | nil => cases hm
  | cons x xs ih =>
    simp only [List.map_cons, List.nodup_cons, List.mem_map, not_exists, not_and] at hn
    rcases List.mem_cons.mp hm with rfl | hm'
    · simp
    · have hne : ¬ x.name = nd.name := fun e => hn.1 nd hm' e.symm
      have hb : (x.name == nd.name) = false := by simp [hne]
      simp only [List.find?_cons, hb]
      exact ih hn.2 hm'

theorem findNode_isSome_iff {nodes : List NodeD} {n : Name} :
    (findNode nodes n).isSome = true ↔ n ∈ nodes.map (·.name) := by
  unfold findNode
  simp only [List.find?_isSome, beq_iff_eq, List.mem_map]

theorem findNode_eq_none_iff {nodes : List NodeD} {n : Name} :
    findNode nodes n = none ↔ n ∉ nodes.map (·.name) := by
  rw [← findNode_isSome_iff]; cases findNode nodes n <;> simp

/-! ## the checks, one by one: `chk b = none ↔` its clause -/

theorem firstDup_none {seen xs : List Name} :
    firstDup seen xs = none ↔ xs.Nodup ∧ ∀ x ∈ xs, x ∉ seen := by
  induction xs generalizing seen with
  | nil => simp [firstDup]
  | cons x xs ih =>
    unfold firstDup
    by_cases hx : x ∈ seen
    · simp [hx]
    · simp only [List.contains_iff_mem, hx, if_false, ih, List.nodup_cons, List.mem_cons, not_or]
      constructor
      · rintro ⟨hn, h⟩
        refine ⟨⟨fun hm => (h x hm).1 rfl, hn⟩, ?_⟩
        rintro y (rfl | hy)
        · exact hx
        · exact (h y hy).2
      · rintro ⟨⟨hnx, hn⟩, h⟩
        exact ⟨hn, fun y hy => ⟨fun e => hnx (e ▸ hy), h y (.inr hy)⟩⟩

theorem chkDuplicateNodes_none {b : BuildInput} :
    chkDuplicateNodes b = none ↔ (nodeNames b).Nodup := by
  unfold chkDuplicateNodes
  rw [Option.map_eq_none_iff, firstDup_none]
  simp

theorem chkEdge_none {nodes : List NodeD} (hn : (nodes.map (·.name)).Nodup)
    {e : Name × Name × Option (List Name)} : chkEdge nodes e = none ↔ EdgeOK nodes e := by
  unfold chkEdge EdgeOK
  constructor
  · intro h
    cases hs : findNode nodes e.1 with
    | none => simp [hs] at h
    | some sn =>
      cases hd : findNode nodes e.2.1 with
      | none => simp [hs, hd] at h
      | some dn =>
        obtain ⟨hsm, hsn⟩ := findNode_some hs
        obtain ⟨hdm, hdn⟩ := findNode_some hd
        refine ⟨sn, hsm, hsn, dn, hdm, hdn, ?_⟩
        intro vs hvs v hv
        simp only [hs, hd, hvs, List.findSome?_eq_none_iff] at h
        have := h v hv
        by_cases h1 : v ∈ sn.outputs
        · by_cases h2 : v ∈ dn.inputs
          · exact ⟨h1, h2⟩
          · simp [h1, h2] at this
        · simp [h1] at this
  · rintro ⟨sn, hsm, hsn, dn, hdm, hdn, hv⟩
    have hs : findNode nodes e.1 = some sn := hsn ▸ findNode_of_nodup hn hsm
    have hd : findNode nodes e.2.1 = some dn := hdn ▸ findNode_of_nodup hn hdm
    simp only [hs, hd]
    cases hvs : e.2.2 with
    | none => rfl
    | some vs =>
      simp only [List.findSome?_eq_none_iff]
      intro v hvm
      obtain ⟨h1, h2⟩ := hv vs hvs v hvm
      simp [h1, h2]

theorem chkExplicitEdges_none {b : BuildInput} (hn : (nodeNames b).Nodup) :
    chkExplicitEdges b = none ↔ ∀ es, b.explicitEdges = some es → ∀ e ∈ es, EdgeOK b.nodes e := by
  unfold chkExplicitEdges
  cases h : b.explicitEdges with
  | none => simp
  | some es =>
    simp only [List.findSome?_eq_none_iff, Option.some.injEq]
    constructor
    · rintro h' es' rfl e he; exact (chkEdge_none hn).mp (h' e he)
    · intro h' e he; exact (chkEdge_none hn).mpr (h' es rfl e he)

theorem chkGraphName_none {b : BuildInput} :
    chkGraphName b = none ↔ '.' ∉ b.graphName.toList ∧ '/' ∉ b.graphName.toList := by
  unfold chkGraphName
  by_cases h1 : '.' ∈ b.graphName.toList <;> by_cases h2 : '/' ∈ b.graphName.toList <;> simp [h1, h2]

theorem chkReservedNames_none {b : BuildInput} :
    chkReservedNames b = none ↔ ∀ nd ∈ b.nodes, nd.name ≠ "END" := by
  unfold chkReservedNames
  simp [List.findSome?_eq_none_iff]

theorem chkOutputNames_none {nd : NodeD} : chkOutputNames nd = none ↔ ∀ o ∈ nd.outputs, LegalName o := by
  unfold chkOutputNames LegalName
  rw [List.findSome?_eq_none_iff]
  refine forall_congr' fun o => forall_congr' fun _ => ?_
  cases h3 : isIdentifier o <;> cases h4 : isKeyword o <;> simp

theorem chkDistinctOutputs_none {b : BuildInput} :
    chkDistinctOutputs b = none ↔ ∀ nd ∈ b.nodes, nd.outputs.Nodup := by
  unfold chkDistinctOutputs
  rw [List.findSome?_eq_none_iff]
  refine forall_congr' fun nd => forall_congr' fun _ => ?_
  rw [Option.map_eq_none_iff, firstDup_none]
  simp

theorem chkIdentifiers_none {b : BuildInput} :
    chkIdentifiers b = none ↔
      ∀ nd ∈ b.nodes, (nd.kind ≠ .graph → LegalName nd.name) ∧ (nd.kind = .graph → hasPathSep nd.name = false) ∧
        ∀ o ∈ nd.outputs, LegalName o := by
  unfold chkIdentifiers
  rw [List.findSome?_eq_none_iff]
  refine forall_congr' fun nd => forall_congr' fun _ => ?_
  by_cases hk : nd.kind = .graph
  · cases h0 : hasPathSep nd.name <;> simp [hk, h0, chkOutputNames_none]
  · cases h1 : isIdentifier nd.name <;> cases h2 : isKeyword nd.name <;>
      simp [hk, LegalName, h1, h2, chkOutputNames_none]

/-- the pre-repair check: graph nodes are skipped altogether, outputs included -/
theorem chkIdentifiersSkipGraph_none {b : BuildInput} :
    chkIdentifiersSkipGraph b = none ↔
      ∀ nd ∈ b.nodes, nd.kind ≠ .graph → LegalName nd.name ∧ ∀ o ∈ nd.outputs, LegalName o := by
  unfold chkIdentifiersSkipGraph
  rw [List.findSome?_eq_none_iff]
  refine forall_congr' fun nd => forall_congr' fun _ => ?_
  by_cases hk : nd.kind = .graph
  · simp [hk]
  · cases h1 : isIdentifier nd.name <;> cases h2 : isKeyword nd.name <;>
      simp [hk, LegalName, h1, h2, chkOutputNames_none]

/-- the repaired identifier check accepts no more than the pre-repair one -/
theorem chkIdentifiersSkipGraph_of_chkIdentifiers {b : BuildInput} (h : chkIdentifiers b = none) :
    chkIdentifiersSkipGraph b = none :=
  chkIdentifiersSkipGraph_none.mpr fun nd hnd hk =>
    ⟨(chkIdentifiers_none.mp h nd hnd).1 hk, (chkIdentifiers_none.mp h nd hnd).2.2⟩

theorem chkNamespaceCollision_none {b : BuildInput} :
    chkNamespaceCollision b = none ↔
      ∀ g ∈ b.nodes, g.kind = .graph → ∀ src, lastSource b.nodes g.name = some src → src = g.name := by
  unfold chkNamespaceCollision
  rw [List.findSome?_eq_none_iff]
  refine forall_congr' fun g => forall_congr' fun _ => ?_
  by_cases hk : g.kind = .graph
  · cases hl : lastSource b.nodes g.name with
    | none => simp [hk]
    | some src => by_cases he : src = g.name <;> simp [hk, he]
  · simp [hk]

theorem chkGateTargets_none {b : BuildInput} :
    chkGateTargets b = none ↔
      ∀ g ∈ b.nodes, g.isGate = true → ∀ t ∈ g.targetNames, t ∈ nodeNames b := by
  unfold chkGateTargets
  rw [List.findSome?_eq_none_iff]
  refine forall_congr' fun g => forall_congr' fun _ => ?_
  cases hg : g.isGate <;> simp [List.findSome?_eq_none_iff]

theorem chkGateSelfLoop_none {b : BuildInput} :
    chkGateSelfLoop b = none ↔ ∀ g ∈ b.nodes, g.isGate = true → g.name ∉ g.targetNames := by
  unfold chkGateSelfLoop
  rw [List.findSome?_eq_none_iff]
  refine forall_congr' fun g => forall_congr' fun _ => ?_
  cases hg : g.isGate <;> simp

theorem chkMultiTarget_none {b : BuildInput} :
    chkMultiTarget b = none ↔
      ∀ g ∈ b.nodes, g.kind = .route → g.multiTarget = true → (targetOutputs b.nodes g).Nodup := by
  unfold chkMultiTarget
  rw [List.findSome?_eq_none_iff]
  refine forall_congr' fun g => forall_congr' fun _ => ?_
  by_cases hk : g.kind = .route
  · cases hm : g.multiTarget
    · simp [hk]
    · simp [hk, firstDup_none]
  · simp [hk]

theorem chkInterruptInMap_none {b : BuildInput} :
    chkInterruptInMap b = none ↔
      ∀ g ∈ b.nodes, g.kind = .graph → g.mapOver ≠ [] → g.name ∉ b.innerInterrupts := by
  unfold chkInterruptInMap
  rw [List.findSome?_eq_none_iff]
  refine forall_congr' fun g => forall_congr' fun _ => ?_
  by_cases hk : g.kind = .graph
  · cases hm : g.mapOver <;> simp [hk]
  · simp [hk]

theorem chkCacheOnGraphNode_none {b : BuildInput} :
    chkCacheOnGraphNode b = none ↔ ∀ g ∈ b.nodes, g.kind = .graph → g.cache = false := by
  unfold chkCacheOnGraphNode
  rw [List.findSome?_eq_none_iff]
  refine forall_congr' fun g => forall_congr' fun _ => ?_
  by_cases hk : g.kind = .graph <;> simp [hk]

theorem chkWaitFor_none {b : BuildInput} :
    chkWaitFor b = none ↔ ∀ nd ∈ b.nodes, ∀ w ∈ nd.waitFor, ∃ p ∈ b.nodes, w ∈ p.outputs := by
  unfold chkWaitFor
  simp [List.findSome?_eq_none_iff]

theorem chkTypesTriple_none {b : BuildInput} {src dst v : Name} :
    chkTypesTriple b src dst v = none ↔ TypedTriple b src dst v := by
  unfold chkTypesTriple TypedTriple
  cases ho : outType b src v with
  | none => simp
  | some to =>
    cases hi : inType b dst v with
    | none => simp
    | some ti => cases hc : compat to ti <;> simp [hc]

theorem chkTypesEdge_none {b : BuildInput} {e : Edge} :
    chkTypesEdge b e = none ↔ ∀ v ∈ e.values, TypedOK b e v := by
  unfold chkTypesEdge
  rw [List.findSome?_eq_none_iff]
  exact forall_congr' fun v => forall_congr' fun _ => chkTypesTriple_none

theorem mem_dataSourcesOf {nodes : List NodeD} {v s : Name} :
    s ∈ dataSourcesOf nodes v ↔ ∃ p ∈ nodes, p.name = s ∧ v ∈ p.dataOuts := by
  simp only [dataSourcesOf, List.mem_map, List.mem_filter, List.contains_iff_mem]
  constructor
  · rintro ⟨p, ⟨h1, h2⟩, rfl⟩; exact ⟨p, h1, rfl, h2⟩
  · rintro ⟨p, h1, rfl, h2⟩; exact ⟨p, ⟨h1, h2⟩, rfl⟩

theorem mem_typeSourcesFor {b : BuildInput} {e : Edge} {v s : Name} :
    s ∈ typeSourcesFor b e v ↔
      s = e.src ∨ ∃ p ∈ b.nodes, p.name = s ∧ v ∈ p.dataOuts ∧ p.name ≠ e.src := by
  unfold typeSourcesFor
  rw [List.mem_cons, List.mem_filter, mem_dataSourcesOf]
  simp only [bne_iff_ne, ne_eq]
  constructor
  · rintro (h | ⟨⟨p, hp, rfl, hv⟩, h1⟩)
    · exact .inl h
    · exact .inr ⟨p, hp, rfl, hv, h1⟩
  · rintro (h | ⟨p, hp, rfl, hv, h1⟩)
    · exact .inl h
    · exact .inr ⟨⟨p, hp, rfl, hv⟩, h1⟩

theorem mem_typeSourcesForSkipSelf {b : BuildInput} {e : Edge} {v s : Name} :
    s ∈ typeSourcesForSkipSelf b e v ↔
      s = e.src ∨ ∃ p ∈ b.nodes, p.name = s ∧ v ∈ p.dataOuts ∧ p.name ≠ e.src ∧ p.name ≠ e.dst := by
  unfold typeSourcesForSkipSelf
  rw [List.mem_cons, List.mem_filter, mem_dataSourcesOf]
  simp only [Bool.and_eq_true, bne_iff_ne, ne_eq]
  constructor
  · rintro (h | ⟨⟨p, hp, rfl, hv⟩, h1, h2⟩)
    · exact .inl h
    · exact .inr ⟨p, hp, rfl, hv, h1, h2⟩
  · rintro (h | ⟨p, hp, rfl, hv, h1, h2⟩)
    · exact .inl h
    · exact .inr ⟨⟨p, hp, rfl, hv⟩, h1, h2⟩

/-- every value of the edge is typed against the edge's own source AND against every other data producer
(the edge's target included, repair `07d3d31`) -/
theorem chkTypesEdgeProducers_none {b : BuildInput} {e : Edge} :
    chkTypesEdgeProducers b e = none ↔
      ∀ v ∈ e.values, TypedOK b e v ∧
        ∀ p ∈ b.nodes, v ∈ p.dataOuts → p.name ≠ e.src →
          TypedOK b { e with src := p.name } v := by
  unfold chkTypesEdgeProducers
  rw [List.findSome?_eq_none_iff]
  refine forall_congr' fun v => forall_congr' fun _ => ?_
  rw [List.findSome?_eq_none_iff]
  simp only [chkTypesTriple_none, mem_typeSourcesFor]
  constructor
  · intro h
    exact ⟨h e.src (.inl rfl), fun p hp hv h1 => h p.name (.inr ⟨p, hp, rfl, hv, h1⟩)⟩
  · rintro ⟨h0, h⟩ s (rfl | ⟨p, hp, rfl, hv, h1⟩)
    · exact h0
    · exact h p hp hv h1

/-- before repair `07d3d31`: the edge's target was exempt -/
theorem chkTypesEdgeProducersSkipSelf_none {b : BuildInput} {e : Edge} :
    chkTypesEdgeProducersSkipSelf b e = none ↔
      ∀ v ∈ e.values, TypedOK b e v ∧
        ∀ p ∈ b.nodes, v ∈ p.dataOuts → p.name ≠ e.src → p.name ≠ e.dst →
          TypedOK b { e with src := p.name } v := by
  unfold chkTypesEdgeProducersSkipSelf
  rw [List.findSome?_eq_none_iff]
  refine forall_congr' fun v => forall_congr' fun _ => ?_
  rw [List.findSome?_eq_none_iff]
  simp only [chkTypesTriple_none, mem_typeSourcesForSkipSelf]
  constructor
  · intro h
    exact ⟨h e.src (.inl rfl), fun p hp hv h1 h2 => h p.name (.inr ⟨p, hp, rfl, hv, h1, h2⟩)⟩
  · rintro ⟨h0, h⟩ s (rfl | ⟨p, hp, rfl, hv, h1, h2⟩)
    · exact h0
    · exact h p hp hv h1 h2

theorem mem_nxOrder {nodes : List NodeD} {es : List Edge} {e : Edge} : e ∈ nxOrder nodes es ↔ e ∈ es := by
  unfold nxOrder
  rw [List.mem_append, List.mem_flatMap]
  constructor
  · rintro (⟨n, _, h⟩ | h)
    · exact (List.mem_filter.mp h).1
    · exact (List.mem_filter.mp h).1
  · intro h
    by_cases hs : (nodes.map (·.name)).contains e.src = true
    · obtain ⟨n, hn, he⟩ := List.mem_map.mp (List.contains_iff_mem.mp hs)
      exact .inl ⟨n, hn, List.mem_filter.mpr ⟨h, by simp [he]⟩⟩
    · exact .inr (List.mem_filter.mpr ⟨h, by simpa using hs⟩)

theorem chkTypes_none {b : BuildInput} :
    chkTypes b = none ↔
      (b.strict = true → ∀ e ∈ graphEdges b, e.kind ≠ .ordering → ∀ v ∈ e.values, TypedOK b e v ∧
        ∀ p ∈ b.nodes, v ∈ p.dataOuts → p.name ≠ e.src →
          TypedOK b { e with src := p.name } v) := by
  unfold chkTypes
  cases hs : b.strict
  · simp
  · simp only [if_true, List.findSome?_eq_none_iff, mem_nxOrder, forall_const]
    refine forall_congr' fun e => forall_congr' fun _ => ?_
    by_cases hk : e.kind = .ordering
    · simp [hk]
    · simp only [beq_iff_eq, hk, if_false, ne_eq, not_false_eq_true, forall_const]
      exact chkTypesEdgeProducers_none

/-- the two halves of `chkTypes_none`, as they appear in `WellFormed` -/
theorem chkTypes_none_split {b : BuildInput} :
    chkTypes b = none ↔
      (b.strict = true → ∀ e ∈ graphEdges b, e.kind ≠ .ordering → ∀ v ∈ e.values, TypedOK b e v) ∧
      (b.strict = true → ∀ e ∈ graphEdges b, e.kind ≠ .ordering → ∀ v ∈ e.values,
        ∀ p ∈ b.nodes, v ∈ p.dataOuts → p.name ≠ e.src →
          TypedOK b { e with src := p.name } v) := by
  rw [chkTypes_none]
  constructor
  · intro h
    exact ⟨fun hs e he hk v hv => (h hs e he hk v hv).1, fun hs e he hk v hv => (h hs e he hk v hv).2⟩
  · rintro ⟨h1, h2⟩ hs e he hk v hv
    exact ⟨h1 hs e he hk v hv, h2 hs e he hk v hv⟩

/-- the check before repair `07d3d31`: the edge's target was exempt from the "every other producer" half -/
theorem chkTypesSkipSelf_none {b : BuildInput} :
    chkTypesSkipSelf b = none ↔
      (b.strict = true → ∀ e ∈ graphEdges b, e.kind ≠ .ordering → ∀ v ∈ e.values, TypedOK b e v ∧
        ∀ p ∈ b.nodes, v ∈ p.dataOuts → p.name ≠ e.src → p.name ≠ e.dst →
          TypedOK b { e with src := p.name } v) := by
  unfold chkTypesSkipSelf
  cases hs : b.strict
  · simp
  · simp only [if_true, List.findSome?_eq_none_iff, mem_nxOrder, forall_const]
    refine forall_congr' fun e => forall_congr' fun _ => ?_
    by_cases hk : e.kind = .ordering
    · simp [hk]
    · simp only [beq_iff_eq, hk, if_false, ne_eq, not_false_eq_true, forall_const]
      exact chkTypesEdgeProducersSkipSelf_none

/-- repair `07d3d31` only ever accepts less: whatever the present check passes, the check it replaced passed
(the converse fails: `HG.C19s.flaw_self_feed_unchecked_witness`) -/
theorem chkTypesSkipSelf_of_chkTypes {b : BuildInput} (h : chkTypes b = none) : chkTypesSkipSelf b = none :=
  chkTypesSkipSelf_none.mpr fun hs e he hk v hv =>
    ⟨(chkTypes_none.mp h hs e he hk v hv).1, fun p hp hpv h1 _ => (chkTypes_none.mp h hs e he hk v hv).2 p hp hpv h1⟩

/-- the pre-repair check: the edge's own (first-listed) producer only -/
theorem chkTypesFirstProducer_none {b : BuildInput} :
    chkTypesFirstProducer b = none ↔
      (b.strict = true → ∀ e ∈ graphEdges b, e.kind ≠ .ordering → ∀ v ∈ e.values, TypedOK b e v) := by
  unfold chkTypesFirstProducer
  cases hs : b.strict
  · simp
  · simp only [if_true, List.findSome?_eq_none_iff, mem_nxOrder, forall_const]
    refine forall_congr' fun e => forall_congr' fun _ => ?_
    by_cases hk : e.kind = .ordering
    · simp [hk]
    · simp [hk, chkTypesEdge_none]

/-- the pre-repair check: typing was demanded of every edge carrying value names -/
theorem chkTypesAllEdges_none {b : BuildInput} :
    chkTypesAllEdges b = none ↔ (b.strict = true → ∀ e ∈ graphEdges b, ∀ v ∈ e.values, TypedOK b e v) := by
  unfold chkTypesAllEdges
  cases hs : b.strict
  · simp
  · simp only [if_true, List.findSome?_eq_none_iff, mem_nxOrder, chkTypesEdge_none, forall_const]

/-- the repair "strict typing skips ordering edges" only ever accepts more: whatever the all-edges check
passed, the check it was repaired into (`chkTypesFirstProducer`) passes.  (NOT the present `chkTypes`: the
later repair "strict_types checks every producer of a value against its consumer" rejects graphs both
earlier checks accepted — `HG.C19s.strict_second_producer_witness`.) -/
theorem chkTypesFirstProducer_of_allEdges {b : BuildInput} (h : chkTypesAllEdges b = none) :
    chkTypesFirstProducer b = none :=
  chkTypesFirstProducer_none.mpr fun hs e he _ => chkTypesAllEdges_none.mp h hs e he

/-- the repair "strict_types checks every producer of a value against its consumer" only ever accepts less -/
theorem chkTypesFirstProducer_of_chkTypes {b : BuildInput} (h : chkTypes b = none) :
    chkTypesFirstProducer b = none :=
  chkTypesFirstProducer_none.mpr (chkTypes_none_split.mp h).1

theorem defaults_core (cons : List NodeD) (p : Name) :
    (if (!(cons.filterMap fun n => (AL.get? n.sigDefaults p).map fun v => (v, n.name)).isEmpty &&
          !((cons.filter fun n => !(AL.has n.sigDefaults p)).map (·.name)).isEmpty) = true
      then some (BuildErr.mixedDefaults p
        ((cons.filterMap fun n => (AL.get? n.sigDefaults p).map fun v => (v, n.name)).map (·.2))
        ((cons.filter fun n => !(AL.has n.sigDefaults p)).map (·.name)))
      else
        match cons.filterMap fun n => (AL.get? n.sigDefaults p).map fun v => (v, n.name) with
        | [] => none
        | vn0 :: rest => rest.findSome? fun vn =>
            if vn.1 == vn0.1 then none else some (BuildErr.defaultMismatch p vn0.2 vn.2)) = none ↔
      ∀ n1 ∈ cons, ∀ n2 ∈ cons, AL.get? n1.sigDefaults p = AL.get? n2.sigDefaults p := by
  have hmem : ∀ v nm, (v, nm) ∈ (cons.filterMap fun n => (AL.get? n.sigDefaults p).map fun v => (v, n.name)) ↔
      ∃ n ∈ cons, AL.get? n.sigDefaults p = some v ∧ n.name = nm := by
    intro v nm
    simp only [List.mem_filterMap, Option.map_eq_some_iff, Prod.mk.injEq]
    constructor
    · rintro ⟨n, hn, w, hw, rfl, rfl⟩; exact ⟨n, hn, hw, rfl⟩
    · rintro ⟨n, hn, hw, rfl⟩; exact ⟨n, hn, v, hw, rfl, rfl⟩
  have hwo : ((cons.filter fun n => !(AL.has n.sigDefaults p)).map (·.name)) = [] ↔
      ∀ n ∈ cons, (AL.get? n.sigDefaults p).isSome = true := by
    simp only [List.map_eq_nil_iff, List.filter_eq_nil_iff, AL.has, Bool.not_eq_true', Bool.not_eq_false]
  generalize hW : (cons.filterMap fun n => (AL.get? n.sigDefaults p).map fun v => (v, n.name)) = withD at hmem
  cases withD with
  | nil =>
    simp only [List.isEmpty_nil, Bool.not_true, Bool.false_and, Bool.false_eq_true, if_false, true_iff]
    have hnone : ∀ n ∈ cons, AL.get? n.sigDefaults p = none := by
      intro n hn
      cases hg : AL.get? n.sigDefaults p with
      | none => rfl
      | some v => exact absurd ((hmem v n.name).mpr ⟨n, hn, hg, rfl⟩) (by simp)
    intro n1 h1 n2 h2; rw [hnone n1 h1, hnone n2 h2]
  | cons vn0 rest =>
    obtain ⟨n0, hn0, hg0, _⟩ := (hmem vn0.1 vn0.2).mp (List.mem_cons_self ..)
    constructor
    · intro h
      by_cases hwe : ((cons.filter fun n => !(AL.has n.sigDefaults p)).map (·.name)) = []
      · simp only [hwe, List.isEmpty_nil, Bool.not_true, Bool.and_false, Bool.false_eq_true, if_false,
          List.findSome?_eq_none_iff] at h
        have hall : ∀ n ∈ cons, AL.get? n.sigDefaults p = some vn0.1 := by
          intro n hn
          have hs := hwo.mp hwe n hn
          cases hg : AL.get? n.sigDefaults p with
          | none => simp [hg] at hs
          | some v =>
            have hm := (hmem v n.name).mpr ⟨n, hn, hg, rfl⟩
            rcases List.mem_cons.mp hm with he | hr
            · rw [← he]
            · have := h (v, n.name) hr
              by_cases hv : v = vn0.1
              · rw [hv]
              · simp [hv] at this
        intro n1 h1 n2 h2; rw [hall n1 h1, hall n2 h2]
      · exfalso
        have : (((cons.filter fun n => !(AL.has n.sigDefaults p)).map (·.name)).isEmpty) = false := by
          cases hh : ((cons.filter fun n => !(AL.has n.sigDefaults p)).map (·.name)) with
          | nil => exact absurd hh hwe
          | cons _ _ => rfl
        simp [this] at h
    · intro h
      have hall : ∀ n ∈ cons, AL.get? n.sigDefaults p = some vn0.1 := fun n hn => (h n hn n0 hn0).trans hg0
      have hwe : ((cons.filter fun n => !(AL.has n.sigDefaults p)).map (·.name)) = [] :=
        hwo.mpr fun n hn => by rw [hall n hn]; rfl
      simp only [hwe, List.isEmpty_nil, Bool.not_true, Bool.and_false, Bool.false_eq_true, if_false,
        List.findSome?_eq_none_iff]
      intro vn hvn
      obtain ⟨n, hn, hg, _⟩ := (hmem vn.1 vn.2).mp (List.mem_cons_of_mem _ hvn)
      have := (hall n hn).symm.trans hg
      simp only [Option.some.injEq] at this
      simp [this]

theorem chkDefaultsFor_none {nodes : List NodeD} {p : Name} :
    chkDefaultsFor nodes p = none ↔
      ∀ n1 ∈ nodes, ∀ n2 ∈ nodes, p ∈ n1.inputs → p ∈ n2.inputs →
        AL.get? n1.sigDefaults p = AL.get? n2.sigDefaults p := by
  unfold chkDefaultsFor
  refine (defaults_core (nodes.filter fun n => n.inputs.contains p) p).trans ?_
  simp only [List.mem_filter, List.contains_iff_mem]
  constructor
  · intro h n1 h1 n2 h2 hp1 hp2; exact h n1 ⟨h1, hp1⟩ n2 ⟨h2, hp2⟩
  · rintro h n1 ⟨h1, hp1⟩ n2 ⟨h2, hp2⟩; exact h n1 h1 n2 h2 hp1 hp2

theorem mem_uniqueParams {nodes : List NodeD} {p : Name} :
    p ∈ uniqueParams nodes ↔ ∃ nd ∈ nodes, p ∈ nd.inputs := by
  simp only [uniqueParams, mem_dedup_iff, List.mem_flatMap]

theorem chkConsistentDefaults_none {b : BuildInput} :
    chkConsistentDefaults b = none ↔
      ∀ p, ∀ n1 ∈ b.nodes, ∀ n2 ∈ b.nodes, p ∈ n1.inputs → p ∈ n2.inputs →
        AL.get? n1.sigDefaults p = AL.get? n2.sigDefaults p := by
  unfold chkConsistentDefaults
  rw [List.findSome?_eq_none_iff]
  constructor
  · intro h p n1 h1 n2 h2 hp1 hp2
    exact chkDefaultsFor_none.mp (h p (mem_uniqueParams.mpr ⟨n1, h1, hp1⟩)) n1 h1 n2 h2 hp1 hp2
  · intro h p _; exact chkDefaultsFor_none.mpr (h p)

/-! ## `validate_output_conflicts` -/

theorem oRows_eq (b : BuildInput) (o : Name) :
    orderRows b (nodeNames b) (graphEdges b) (adjRows (nodeNames b) (hasEdge (graphEdges b)))
        (sourcesOf b.nodes o) = adjRows (nodeNames b) (orderAdj b o) := by
  unfold orderAdj orderRows
  cases b.explicitEdges <;> rfl

/-- the conflict check passes iff every pair it enumerates is mutex (in the sense `M` of the groups it was
given) or ordered -/
theorem chkOutputConflictsWith_none_pairs {groupsOf} {b : BuildInput} {M : Name → Name → Prop}
    (hM : ∀ a c, isPairMutex (groupsOf b.nodes (nodeNames b)
        (rowsAdj (adjRows (nodeNames b) (hasEdge (graphEdges b))))) a c = true ↔ M a c) :
    chkOutputConflictsWith groupsOf b = none ↔
      ∀ o ∈ graphOutputs b.nodes, ∀ ac ∈ pairs (sourcesOf b.nodes o),
        M ac.1 ac.2 ∨ Ordered b o ac.1 ac.2 := by
  unfold chkOutputConflictsWith
  simp only [List.findSome?_eq_none_iff]
  refine forall_congr' fun o => forall_congr' fun _ => ?_
  by_cases hl : (sourcesOf b.nodes o).length < 2
  · simp [hl, pairs_eq_nil_of_length_lt hl]
  · simp only [hl, if_false, List.findSome?_eq_none_iff, oRows_eq]
    refine forall_congr' fun ac => forall_congr' fun _ => ?_
    have hm := hM ac.1 ac.2
    have h1 : reaches (nodeNames b) (rowsAdj (adjRows (nodeNames b) (orderAdj b o))) ac.1 ac.2 = true ↔
        Reach (nodeNames b) (orderAdj b o) ac.1 ac.2 := by rw [reaches_iff, reach_rows]
    have h2 : reaches (nodeNames b) (rowsAdj (adjRows (nodeNames b) (orderAdj b o))) ac.2 ac.1 = true ↔
        Reach (nodeNames b) (orderAdj b o) ac.2 ac.1 := by rw [reaches_iff, reach_rows]
    unfold Ordered
    rw [← hm, ← h1, ← h2]
    cases isPairMutex (groupsOf b.nodes (nodeNames b)
        (rowsAdj (adjRows (nodeNames b) (hasEdge (graphEdges b))))) ac.1 ac.2 <;>
      cases reaches (nodeNames b) (rowsAdj (adjRows (nodeNames b) (orderAdj b o))) ac.1 ac.2 <;>
      cases reaches (nodeNames b) (rowsAdj (adjRows (nodeNames b) (orderAdj b o))) ac.2 ac.1 <;> simp

theorem isPairMutex_groups_iff {b : BuildInput} (a c : Name) :
    isPairMutex (expandedGroups b.nodes (nodeNames b)
      (rowsAdj (adjRows (nodeNames b) (hasEdge (graphEdges b))))) a c = true ↔ Mutex b a c := by
  rw [isPairMutex_expandedGroups]; unfold Mutex; simp only [mutexVia_rows]

theorem isPairMutex_groupsReach_iff {b : BuildInput} (a c : Name) :
    isPairMutex (expandedGroupsReach b.nodes (nodeNames b)
      (rowsAdj (adjRows (nodeNames b) (hasEdge (graphEdges b))))) a c = true ↔ MutexReach b a c := by
  rw [isPairMutex_expandedGroupsReach]; unfold MutexReach; simp only [mutexViaReach_rows]

theorem chkOutputConflicts_none_pairs {b : BuildInput} :
    chkOutputConflicts b = none ↔
      ∀ o ∈ graphOutputs b.nodes, ∀ ac ∈ pairs (sourcesOf b.nodes o),
        Mutex b ac.1 ac.2 ∨ Ordered b o ac.1 ac.2 :=
  chkOutputConflictsWith_none_pairs isPairMutex_groups_iff

theorem chkOutputConflictsReach_none_pairs {b : BuildInput} :
    chkOutputConflictsReach b = none ↔
      ∀ o ∈ graphOutputs b.nodes, ∀ ac ∈ pairs (sourcesOf b.nodes o),
        MutexReach b ac.1 ac.2 ∨ Ordered b o ac.1 ac.2 :=
  chkOutputConflictsWith_none_pairs isPairMutex_groupsReach_iff

/-- from the enumerated pairs to all pairs of different producers (`M` symmetric) -/
theorem pairs_iff_producers {b : BuildInput} (hn : (nodeNames b).Nodup) {M : Name → Name → Prop}
    (hsymm : ∀ a c, M a c → M c a) :
    (∀ o ∈ graphOutputs b.nodes, ∀ ac ∈ pairs (sourcesOf b.nodes o), M ac.1 ac.2 ∨ Ordered b o ac.1 ac.2) ↔
      ∀ o a c, a ≠ c → Produces b a o → Produces b c o → M a c ∨ Ordered b o a c := by
  constructor
  · intro h o a c hne ha hc
    have ho : o ∈ graphOutputs b.nodes := by
      obtain ⟨nd, hnd, _, hout⟩ := ha; exact mem_graphOutputs.mpr ⟨nd, hnd, hout⟩
    have hp := (forall_pairs_iff_pairwise (R := fun a c => M a c ∨ Ordered b o a c)).mp (h o ho)
    exact forall_ne_of_pairwise (R := fun a c => M a c ∨ Ordered b o a c)
      (fun x y hxy => hxy.elim (fun m => .inl (hsymm _ _ m)) (fun r => .inr r.symm)) hp
      a (mem_sourcesOf.mpr ha) c (mem_sourcesOf.mpr hc) hne
  · intro h o _
    refine (forall_pairs_iff_pairwise (R := fun a c => M a c ∨ Ordered b o a c)).mpr
      (pairwise_of_forall_ne (sourcesOf_nodup hn o) ?_)
    intro a ha c hc hne
    exact h o a c hne (mem_sourcesOf.mp ha) (mem_sourcesOf.mp hc)

theorem chkOutputConflicts_none {b : BuildInput} (hn : (nodeNames b).Nodup) :
    chkOutputConflicts b = none ↔
      ∀ o a c, a ≠ c → Produces b a o → Produces b c o → Mutex b a c ∨ Ordered b o a c := by
  rw [chkOutputConflicts_none_pairs]
  exact pairs_iff_producers hn fun _ _ => Mutex.symm

/-- the pre-repair conflict check, with the pre-repair notion of exclusive branches -/
theorem chkOutputConflictsReach_none {b : BuildInput} (hn : (nodeNames b).Nodup) :
    chkOutputConflictsReach b = none ↔
      ∀ o a c, a ≠ c → Produces b a o → Produces b c o → MutexReach b a c ∨ Ordered b o a c := by
  rw [chkOutputConflictsReach_none_pairs]
  exact pairs_iff_producers hn fun _ _ => MutexReach.symm

/-- where no target of an exclusive gate lies below a sibling target, the repaired conflict check accepts
no more than the pre-repair one -/
theorem chkOutputConflictsReach_of_chkOutputConflicts {b : BuildInput} (hap : TargetsApart b)
    (h : chkOutputConflicts b = none) : chkOutputConflictsReach b = none := by
  rw [chkOutputConflictsReach_none_pairs]
  intro o ho ac hac
  exact (chkOutputConflicts_none_pairs.mp h o ho ac hac).imp (Mutex.mutexReach hap) id

/-! ## `lastSource`, `WellFormed`, and the equivalence -/

theorem sourcesOf_cons (x : NodeD) (xs : List NodeD) (o : Name) :
    sourcesOf (x :: xs) o = if x.outputs.contains o then x.name :: sourcesOf xs o else sourcesOf xs o := by
  unfold sourcesOf
  by_cases h : o ∈ x.outputs <;> simp [h]

theorem lastSource_cons (x : NodeD) (xs : List NodeD) (o : Name) :
    lastSource (x :: xs) o =
      match lastSource xs o with
      | some s => some s
      | none => if x.outputs.contains o then some x.name else none := by
  unfold lastSource
  rw [sourcesOf_cons]
  cases h : x.outputs.contains o
  · simp only [Bool.false_eq_true, if_false]
    cases (sourcesOf xs o).getLast? <;> rfl
  · simp only [if_true, List.getLast?_cons]
    cases (sourcesOf xs o).getLast? <;> rfl

theorem lastSource_eq_none {nodes : List NodeD} {o : Name} :
    lastSource nodes o = none ↔ ∀ m ∈ nodes, o ∉ m.outputs := by
  unfold lastSource
  rw [List.getLast?_eq_none_iff]
  constructor
  · intro h m hm ho
    have : m.name ∈ sourcesOf nodes o := mem_sourcesOf.mpr ⟨m, hm, rfl, ho⟩
    rw [h] at this; cases this
  · intro h
    cases hs : sourcesOf nodes o with
    | nil => rfl
    | cons a l =>
      have : a ∈ sourcesOf nodes o := by rw [hs]; exact List.mem_cons_self ..
      obtain ⟨nd, hnd, _, ho⟩ := mem_sourcesOf.mp this
      exact absurd ho (h nd hnd)

/-- `all_outputs[o] == src`: `src` is the name of the LAST node listing `o` among its outputs -/
theorem lastSource_eq_some_iff {nodes : List NodeD} {o src : Name} :
    lastSource nodes o = some src ↔
      ∃ l1 nd l2, nodes = l1 ++ nd :: l2 ∧ nd.name = src ∧ o ∈ nd.outputs ∧ ∀ m ∈ l2, o ∉ m.outputs := by
  induction nodes with
  | nil =>
    simp [lastSource, sourcesOf]
  | cons x xs ih =>
    rw [lastSource_cons]
    constructor
    · intro h
      cases hl : lastSource xs o with
      | some s =>
        rw [hl] at h
        simp only [Option.some.injEq] at h
        subst h
        obtain ⟨l1, nd, l2, rfl, h2, h3, h4⟩ := ih.mp hl
        exact ⟨x :: l1, nd, l2, rfl, h2, h3, h4⟩
      | none =>
        rw [hl] at h
        cases hx : x.outputs.contains o with
        | true =>
          rw [hx] at h
          simp only [if_true, Option.some.injEq] at h
          exact ⟨[], x, xs, rfl, h, List.contains_iff_mem.mp hx, lastSource_eq_none.mp hl⟩
        | false => rw [hx] at h; simp at h
    · rintro ⟨l1, nd, l2, heq, h2, h3, h4⟩
      cases l1 with
      | nil =>
        simp only [List.nil_append, List.cons.injEq] at heq
        obtain ⟨rfl, rfl⟩ := heq
        rw [lastSource_eq_none.mpr h4, List.contains_iff_mem.mpr h3]
        simp [h2]
      | cons y l1 =>
        simp only [List.cons_append, List.cons.injEq] at heq
        obtain ⟨rfl, rfl⟩ := heq
        rw [ih.mpr ⟨l1, nd, l2, rfl, h2, h3, h4⟩]

/-- the declarative build-time specification (every clause quantifies over members / pairs, never
over positions, except `noCollision` which mirrors the "last producer wins" dictionary of the code) -/
structure WellFormed (b : BuildInput) : Prop where
  /-- node names are pairwise different -/
  uniqueNames : (nodeNames b).Nodup
  /-- explicit edges name known nodes and values that flow from the source to the target -/
  edgesKnown : ∀ es, b.explicitEdges = some es → ∀ e ∈ es, EdgeOK b.nodes e
  /-- two different producers of one name are mutually exclusive gate branches, or ordered -/
  producers : ∀ o a c, a ≠ c → Produces b a o → Produces b c o → Mutex b a c ∨ Ordered b o a c
  /-- the graph name has no path separator -/
  graphName : '.' ∉ b.graphName.toList ∧ '/' ∉ b.graphName.toList
  /-- `END` is reserved -/
  notReserved : ∀ nd ∈ b.nodes, nd.name ≠ "END"
  /-- the name of every non-graph node, and every output name of EVERY node (graph nodes included),
  is an identifier and not a keyword; the name of a graph node holds no path separator -/
  legalNames : ∀ nd ∈ b.nodes, (nd.kind ≠ .graph → LegalName nd.name) ∧ (nd.kind = .graph → hasPathSep nd.name = false) ∧
    ∀ o ∈ nd.outputs, LegalName o
  /-- no node declares one output name twice -/
  distinctOutputs : ∀ nd ∈ b.nodes, nd.outputs.Nodup
  /-- if some node outputs the name of a graph node `g`, the LAST node doing so is `g` itself -/
  noCollision : ∀ g ∈ b.nodes, g.kind = .graph → ∀ l1 nd l2, b.nodes = l1 ++ nd :: l2 →
    g.name ∈ nd.outputs → (∀ m ∈ l2, g.name ∉ m.outputs) → nd.name = g.name
  /-- consumers of one parameter agree on its signature default: all have none, or all the same value -/
  defaults : ∀ p, ∀ n1 ∈ b.nodes, ∀ n2 ∈ b.nodes, p ∈ n1.inputs → p ∈ n2.inputs →
    AL.get? n1.sigDefaults p = AL.get? n2.sigDefaults p
  /-- gate targets are nodes (`END` is not a name: `targetNames` drops it) -/
  targetsKnown : ∀ g ∈ b.nodes, g.isGate = true → ∀ t ∈ g.targetNames, t ∈ nodeNames b
  /-- no gate targets itself -/
  noSelfLoop : ∀ g ∈ b.nodes, g.isGate = true → g.name ∉ g.targetNames
  /-- the outputs of the (existing) targets of a multi-target route, listed target by target, are
  pairwise different (`targetOutputs_nodup_iff`: distinct targets have disjoint outputs) -/
  multiTarget : ∀ g ∈ b.nodes, g.kind = .route → g.multiTarget = true → (targetOutputs b.nodes g).Nodup
  /-- no `map_over` graph node wraps a graph with an interrupt -/
  noInterruptInMap : ∀ g ∈ b.nodes, g.kind = .graph → g.mapOver ≠ [] → g.name ∉ b.innerInterrupts
  /-- no `cache=True` on a graph node -/
  noCacheOnGraph : ∀ g ∈ b.nodes, g.kind = .graph → g.cache = false
  /-- every awaited name is produced by some node -/
  waitForProduced : ∀ nd ∈ b.nodes, ∀ w ∈ nd.waitFor, ∃ p ∈ b.nodes, w ∈ p.outputs
  /-- strict mode: every value on every NON-ORDERING edge of the built graph (data edges; control edges
  carry no values) is annotated on both sides, compatibly.  Ordering edges (emit → wait_for) are labelled
  with the awaited name but no value reaches a parameter through them: nothing is demanded of them. -/
  typed : b.strict = true → ∀ e ∈ graphEdges b, e.kind ≠ .ordering → ∀ v ∈ e.values, TypedOK b e v
  /-- … and so is every OTHER node producing that value as data (the built graph links a consumer to the
  first-listed producer of a name only; any of the — exclusive or ordered — producers can deliver it):
  `p` is annotated for `v`, compatibly with the parameter `v` of the edge's target.  `p` may be the edge's
  target itself (repair `07d3d31`): a node reading and writing `v` is typed against its own parameter. -/
  typedAllProducers : b.strict = true → ∀ e ∈ graphEdges b, e.kind ≠ .ordering → ∀ v ∈ e.values,
    ∀ p ∈ b.nodes, v ∈ p.dataOuts → p.name ≠ e.src → TypedOK b { e with src := p.name } v

/-- the only way to obtain a runnable graph value: a description together with the evidence that
the constructor accepted it -/
structure Built where
  input : BuildInput
  ok : buildGraph input = .ok ()

theorem runChecks_ok {cs : List (BuildInput → Option BuildErr)} {b : BuildInput} :
    runChecks cs b = .ok () ↔ ∀ c ∈ cs, c b = none := by
  unfold runChecks
  cases h : cs.findSome? fun c => c b with
  | none => simpa [List.findSome?_eq_none_iff] using h
  | some e =>
    simp only [reduceCtorEq, false_iff]
    intro hall
    obtain ⟨c, hc, he⟩ := List.exists_of_findSome?_eq_some h
    rw [hall c hc] at he; cases he

theorem runChecks_error {cs : List (BuildInput → Option BuildErr)} {b : BuildInput} {e : BuildErr}
    (h : runChecks cs b = .error e) : ∃ c ∈ cs, c b = some e := by
  unfold runChecks at h
  cases h' : cs.findSome? fun c => c b with
  | none => rw [h'] at h; cases h
  | some e' =>
    rw [h'] at h
    simp only [Except.error.injEq] at h
    subst h
    exact List.exists_of_findSome?_eq_some h'

theorem buildGraph_ok_iff {b : BuildInput} : buildGraph b = .ok () ↔ WellFormed b := by
  unfold buildGraph
  rw [runChecks_ok]
  simp only [checks, List.mem_cons, List.not_mem_nil, or_false, forall_eq_or_imp, forall_eq]
  constructor
  · rintro ⟨h1, h2, h3, h4, h5, h6, h6', h7, h8, h9, h10, h11, h12, h13, h14, h15⟩
    have hn := chkDuplicateNodes_none.mp h1
    exact
      { uniqueNames := hn
        edgesKnown := (chkExplicitEdges_none hn).mp h2
        producers := (chkOutputConflicts_none hn).mp h3
        graphName := chkGraphName_none.mp h4
        notReserved := chkReservedNames_none.mp h5
        legalNames := chkIdentifiers_none.mp h6
        distinctOutputs := chkDistinctOutputs_none.mp h6'
        noCollision := fun g hg hk l1 nd l2 heq ho hl =>
          chkNamespaceCollision_none.mp h7 g hg hk nd.name
            (lastSource_eq_some_iff.mpr ⟨l1, nd, l2, heq, rfl, ho, hl⟩)
        defaults := chkConsistentDefaults_none.mp h8
        targetsKnown := chkGateTargets_none.mp h9
        noSelfLoop := chkGateSelfLoop_none.mp h10
        multiTarget := chkMultiTarget_none.mp h11
        noInterruptInMap := chkInterruptInMap_none.mp h12
        noCacheOnGraph := chkCacheOnGraphNode_none.mp h13
        waitForProduced := chkWaitFor_none.mp h14
        typed := (chkTypes_none_split.mp h15).1
        typedAllProducers := (chkTypes_none_split.mp h15).2 }
  · intro w
    refine ⟨chkDuplicateNodes_none.mpr w.uniqueNames, (chkExplicitEdges_none w.uniqueNames).mpr w.edgesKnown,
      (chkOutputConflicts_none w.uniqueNames).mpr w.producers, chkGraphName_none.mpr w.graphName,
      chkReservedNames_none.mpr w.notReserved, chkIdentifiers_none.mpr w.legalNames,
      chkDistinctOutputs_none.mpr w.distinctOutputs, ?_,
      chkConsistentDefaults_none.mpr w.defaults, chkGateTargets_none.mpr w.targetsKnown,
      chkGateSelfLoop_none.mpr w.noSelfLoop, chkMultiTarget_none.mpr w.multiTarget,
      chkInterruptInMap_none.mpr w.noInterruptInMap, chkCacheOnGraphNode_none.mpr w.noCacheOnGraph,
      chkWaitFor_none.mpr w.waitForProduced, chkTypes_none_split.mpr ⟨w.typed, w.typedAllProducers⟩⟩
    refine chkNamespaceCollision_none.mpr fun g hg hk src hl => ?_
    obtain ⟨l1, nd, l2, heq, hnm, ho, hl2⟩ := lastSource_eq_some_iff.mp hl
    exact hnm ▸ w.noCollision g hg hk l1 nd l2 heq ho hl2

/-! ## the two pre-repair constructors kept for the negative witnesses -/

/-- the repair "strict typing skips ordering edges" only ever accepts more — stated against the constructor
it produced (`buildGraphFirstProducer`); against the present `buildGraph` it is FALSE, the later repair
"strict_types checks every producer of a value against its consumer" rejects graphs both accepted -/
theorem buildGraphFirstProducer_ok_of_allEdges {b : BuildInput} (h : buildGraphAllEdges b = .ok ()) :
    buildGraphFirstProducer b = .ok () := by
  unfold buildGraphAllEdges at h
  unfold buildGraphFirstProducer
  rw [runChecks_ok] at h ⊢
  simp only [checksAllEdges, checksFirstProducer, List.mem_cons, List.not_mem_nil, or_false, forall_eq_or_imp,
    forall_eq] at h ⊢
  obtain ⟨h1, h2, h3, h4, h5, h6, h6', h7, h8, h9, h10, h11, h12, h13, h14, h15⟩ := h
  exact ⟨h1, h2, h3, h4, h5, h6, h6', h7, h8, h9, h10, h11, h12, h13, h14, chkTypesFirstProducer_of_allEdges h15⟩

/-- the repair "strict_types checks every producer of a value against its consumer" only ever accepts less -/
theorem buildGraphFirstProducer_ok_of {b : BuildInput} (h : buildGraph b = .ok ()) :
    buildGraphFirstProducer b = .ok () := by
  unfold buildGraph at h
  unfold buildGraphFirstProducer
  rw [runChecks_ok] at h ⊢
  simp only [checksFirstProducer, checks, List.mem_cons, List.not_mem_nil, or_false, forall_eq_or_imp, forall_eq] at h ⊢
  obtain ⟨h1, h2, h3, h4, h5, h6, h6', h7, h8, h9, h10, h11, h12, h13, h14, h15⟩ := h
  exact ⟨h1, h2, h3, h4, h5, h6, h6', h7, h8, h9, h10, h11, h12, h13, h14, chkTypesFirstProducer_of_chkTypes h15⟩

/-- the repair "output names of a nested graph are validated" only ever accepts less -/
theorem buildGraphSkipGraph_ok_of {b : BuildInput} (h : buildGraph b = .ok ()) : buildGraphSkipGraph b = .ok () := by
  unfold buildGraph at h
  unfold buildGraphSkipGraph
  rw [runChecks_ok] at h ⊢
  simp only [checksSkipGraph, checks, List.mem_cons, List.not_mem_nil, or_false, forall_eq_or_imp, forall_eq] at h ⊢
  obtain ⟨h1, h2, h3, h4, h5, h6, _, h7, h8, h9, h10, h11, h12, h13, h14, h15⟩ := h
  exact ⟨h1, h2, h3, h4, h5, chkIdentifiersSkipGraph_of_chkIdentifiers h6, h7, h8, h9, h10, h11, h12, h13, h14, h15⟩

/-- the repair "a node cannot declare one output name twice" only ever accepts less -/
theorem buildGraphDupOutputs_ok_of {b : BuildInput} (h : buildGraph b = .ok ()) : buildGraphDupOutputs b = .ok () := by
  unfold buildGraph at h
  unfold buildGraphDupOutputs
  rw [runChecks_ok] at h ⊢
  simp only [checksDupOutputs, checks, List.mem_cons, List.not_mem_nil, or_false, forall_eq_or_imp, forall_eq] at h ⊢
  obtain ⟨h1, h2, h3, h4, h5, h6, _, h7, h8, h9, h10, h11, h12, h13, h14, h15⟩ := h
  exact ⟨h1, h2, h3, h4, h5, h6, h7, h8, h9, h10, h11, h12, h13, h14, h15⟩

/-- the repair "two producers of one name are exclusive only if neither can run without its branch" only
ever accepts less — on graphs where no target of an exclusive gate lies below a sibling target
(`TargetsApart`; without it the repaired constructor accepts MORE:
`HG.C19s.loop_back_branches_now_mutex_witness`) -/
theorem buildGraphMutexReach_ok_of {b : BuildInput} (hap : TargetsApart b) (h : buildGraph b = .ok ()) :
    buildGraphMutexReach b = .ok () := by
  unfold buildGraph at h
  unfold buildGraphMutexReach
  rw [runChecks_ok] at h ⊢
  simp only [checksMutexReach, checks, List.mem_cons, List.not_mem_nil, or_false, forall_eq_or_imp, forall_eq] at h ⊢
  obtain ⟨h1, h2, h3, h4, h5, h6, h6', h7, h8, h9, h10, h11, h12, h13, h14, h15⟩ := h
  exact ⟨h1, h2, chkOutputConflictsReach_of_chkOutputConflicts hap h3, h4, h5, h6, h6', h7, h8, h9, h10, h11,
    h12, h13, h14, h15⟩

/-! ## every error of a check is a configuration error -/

theorem chkDuplicateNodes_cfg {b e} (h : chkDuplicateNodes b = some e) : e.isConfig = true := by
  unfold chkDuplicateNodes at h
  obtain ⟨_, _, rfl⟩ := Option.map_eq_some_iff.mp h; rfl

theorem chkEdge_cfg {nodes e' e} (h : chkEdge nodes e' = some e) : e.isConfig = true := by
  unfold chkEdge at h
  split at h
  · cases h; rfl
  · split at h
    · cases h; rfl
    · split at h
      · cases h
      · obtain ⟨v, _, hv⟩ := List.exists_of_findSome?_eq_some h
        split at hv
        · cases hv; rfl
        · split at hv
          · cases hv; rfl
          · cases hv

theorem chkExplicitEdges_cfg {b e} (h : chkExplicitEdges b = some e) : e.isConfig = true := by
  unfold chkExplicitEdges at h
  split at h
  · cases h
  · obtain ⟨_, _, h'⟩ := List.exists_of_findSome?_eq_some h; exact chkEdge_cfg h'

theorem chkOutputConflictsWith_cfg {groupsOf b e} (h : chkOutputConflictsWith groupsOf b = some e) :
    e.isConfig = true := by
  unfold chkOutputConflictsWith at h
  obtain ⟨o, _, ho⟩ := List.exists_of_findSome?_eq_some h
  simp only at ho
  split at ho
  · cases ho
  · obtain ⟨ac, _, hac⟩ := List.exists_of_findSome?_eq_some ho
    split at hac
    · cases hac
    · cases hac; rfl

theorem chkOutputConflicts_cfg {b e} (h : chkOutputConflicts b = some e) : e.isConfig = true :=
  chkOutputConflictsWith_cfg h

theorem chkOutputConflictsReach_cfg {b e} (h : chkOutputConflictsReach b = some e) : e.isConfig = true :=
  chkOutputConflictsWith_cfg h

theorem chkGraphName_cfg {b e} (h : chkGraphName b = some e) : e.isConfig = true := by
  unfold chkGraphName at h; split at h
  · cases h; rfl
  · cases h

theorem chkReservedNames_cfg {b e} (h : chkReservedNames b = some e) : e.isConfig = true := by
  unfold chkReservedNames at h
  obtain ⟨_, _, h'⟩ := List.exists_of_findSome?_eq_some h
  split at h'
  · cases h'; rfl
  · cases h'

theorem chkOutputNames_cfg {nd e} (h : chkOutputNames nd = some e) : e.isConfig = true := by
  unfold chkOutputNames at h
  obtain ⟨_, _, h''⟩ := List.exists_of_findSome?_eq_some h
  split at h''
  · cases h''; rfl
  · split at h''
    · cases h''; rfl
    · cases h''

theorem chkIdentifiers_cfg {b e} (h : chkIdentifiers b = some e) : e.isConfig = true := by
  unfold chkIdentifiers at h
  obtain ⟨_, _, h'⟩ := List.exists_of_findSome?_eq_some h
  split at h'
  · split at h'
    · cases h'; rfl
    · exact chkOutputNames_cfg h'
  · split at h'
    · cases h'; rfl
    · split at h'
      · cases h'; rfl
      · exact chkOutputNames_cfg h'

theorem chkDistinctOutputs_cfg {b e} (h : chkDistinctOutputs b = some e) : e.isConfig = true := by
  unfold chkDistinctOutputs at h
  obtain ⟨_, _, h'⟩ := List.exists_of_findSome?_eq_some h
  obtain ⟨_, _, rfl⟩ := Option.map_eq_some_iff.mp h'; rfl

theorem chkNamespaceCollision_cfg {b e} (h : chkNamespaceCollision b = some e) : e.isConfig = true := by
  unfold chkNamespaceCollision at h
  obtain ⟨_, _, h'⟩ := List.exists_of_findSome?_eq_some h
  split at h'
  · split at h'
    · split at h'
      · cases h'
      · cases h'; rfl
    · cases h'
  · cases h'

theorem chkDefaultsFor_cfg {nodes p e} (h : chkDefaultsFor nodes p = some e) : e.isConfig = true := by
  unfold chkDefaultsFor at h
  simp only at h
  split at h
  · cases h; rfl
  · split at h
    · cases h
    · obtain ⟨_, _, h'⟩ := List.exists_of_findSome?_eq_some h
      split at h'
      · cases h'
      · cases h'; rfl

theorem chkConsistentDefaults_cfg {b e} (h : chkConsistentDefaults b = some e) : e.isConfig = true := by
  unfold chkConsistentDefaults at h
  obtain ⟨_, _, h'⟩ := List.exists_of_findSome?_eq_some h; exact chkDefaultsFor_cfg h'

theorem chkGateTargets_cfg {b e} (h : chkGateTargets b = some e) : e.isConfig = true := by
  unfold chkGateTargets at h
  obtain ⟨_, _, h'⟩ := List.exists_of_findSome?_eq_some h
  split at h'
  · obtain ⟨_, _, h''⟩ := List.exists_of_findSome?_eq_some h'
    split at h''
    · cases h''
    · cases h''; rfl
  · cases h'

theorem chkGateSelfLoop_cfg {b e} (h : chkGateSelfLoop b = some e) : e.isConfig = true := by
  unfold chkGateSelfLoop at h
  obtain ⟨_, _, h'⟩ := List.exists_of_findSome?_eq_some h
  split at h'
  · cases h'; rfl
  · cases h'

theorem chkMultiTarget_cfg {b e} (h : chkMultiTarget b = some e) : e.isConfig = true := by
  unfold chkMultiTarget at h
  obtain ⟨_, _, h'⟩ := List.exists_of_findSome?_eq_some h
  split at h'
  · obtain ⟨_, _, rfl⟩ := Option.map_eq_some_iff.mp h'; rfl
  · cases h'

theorem chkInterruptInMap_cfg {b e} (h : chkInterruptInMap b = some e) : e.isConfig = true := by
  unfold chkInterruptInMap at h
  obtain ⟨_, _, h'⟩ := List.exists_of_findSome?_eq_some h
  split at h'
  · cases h'; rfl
  · cases h'

theorem chkCacheOnGraphNode_cfg {b e} (h : chkCacheOnGraphNode b = some e) : e.isConfig = true := by
  unfold chkCacheOnGraphNode at h
  obtain ⟨_, _, h'⟩ := List.exists_of_findSome?_eq_some h
  split at h'
  · cases h'; rfl
  · cases h'

theorem chkWaitFor_cfg {b e} (h : chkWaitFor b = some e) : e.isConfig = true := by
  unfold chkWaitFor at h
  obtain ⟨_, _, h'⟩ := List.exists_of_findSome?_eq_some h
  obtain ⟨_, _, h''⟩ := List.exists_of_findSome?_eq_some h'
  split at h''
  · cases h''
  · cases h''; rfl

theorem chkTypesTriple_cfg {b src dst v e} (h : chkTypesTriple b src dst v = some e) : e.isConfig = true := by
  unfold chkTypesTriple at h
  split at h
  · cases h; rfl
  · split at h
    · cases h; rfl
    · split at h
      · cases h
      · cases h; rfl

theorem chkTypesEdge_cfg {b ed e} (h : chkTypesEdge b ed = some e) : e.isConfig = true := by
  unfold chkTypesEdge at h
  obtain ⟨_, _, h'⟩ := List.exists_of_findSome?_eq_some h
  exact chkTypesTriple_cfg h'

theorem chkTypesEdgeProducers_cfg {b ed e} (h : chkTypesEdgeProducers b ed = some e) : e.isConfig = true := by
  unfold chkTypesEdgeProducers at h
  obtain ⟨_, _, h'⟩ := List.exists_of_findSome?_eq_some h
  obtain ⟨_, _, h''⟩ := List.exists_of_findSome?_eq_some h'
  exact chkTypesTriple_cfg h''

theorem chkTypes_cfg {b e} (h : chkTypes b = some e) : e.isConfig = true := by
  unfold chkTypes at h
  split at h
  · obtain ⟨_, _, h'⟩ := List.exists_of_findSome?_eq_some h
    split at h'
    · cases h'
    · exact chkTypesEdgeProducers_cfg h'
  · cases h

theorem chkTypesFirstProducer_cfg {b e} (h : chkTypesFirstProducer b = some e) : e.isConfig = true := by
  unfold chkTypesFirstProducer at h
  split at h
  · obtain ⟨_, _, h'⟩ := List.exists_of_findSome?_eq_some h
    split at h'
    · cases h'
    · exact chkTypesEdge_cfg h'
  · cases h

theorem checks_cfg {b : BuildInput} {e : BuildErr} {c} (hc : c ∈ checks) (h : c b = some e) :
    e.isConfig = true := by
  simp only [checks, List.mem_cons, List.not_mem_nil, or_false] at hc
  rcases hc with rfl | rfl | rfl | rfl | rfl | rfl | rfl | rfl | rfl | rfl | rfl | rfl | rfl | rfl | rfl | rfl
  · exact chkDuplicateNodes_cfg h
  · exact chkExplicitEdges_cfg h
  · exact chkOutputConflicts_cfg h
  · exact chkGraphName_cfg h
  · exact chkReservedNames_cfg h
  · exact chkIdentifiers_cfg h
  · exact chkDistinctOutputs_cfg h
  · exact chkNamespaceCollision_cfg h
  · exact chkConsistentDefaults_cfg h
  · exact chkGateTargets_cfg h
  · exact chkGateSelfLoop_cfg h
  · exact chkMultiTarget_cfg h
  · exact chkInterruptInMap_cfg h
  · exact chkCacheOnGraphNode_cfg h
  · exact chkWaitFor_cfg h
  · exact chkTypes_cfg h

/-! ## data edges of the inferred graph -/

theorem foldl_pres {α β : Type} {f : β → α → β} {P : β → Prop} (hf : ∀ acc x, P acc → P (f acc x)) :
    ∀ (l : List α) (acc : β), P acc → P (l.foldl f acc) := by
  intro l
  induction l with
  | nil => intro acc h; exact h
  | cons a l ih => intro acc h; exact ih _ (hf _ _ h)

theorem foldl_est {α β : Type} {f : β → α → β} {Q : α → β → Prop}
    (pres : ∀ acc x y, Q y acc → Q y (f acc x)) (est : ∀ acc x, Q x (f acc x)) :
    ∀ (l : List α) (acc : β), ∀ x ∈ l, Q x (l.foldl f acc) := by
  intro l
  induction l with
  | nil => intro _ x hx; cases hx
  | cons a l ih =>
    intro acc x hx
    rcases List.mem_cons.mp hx with rfl | hx'
    · exact foldl_pres (P := Q x) (fun acc y h => pres acc y x h) l _ (est acc x)
    · exact ih _ x hx'

/-- some edge `s → d` of `es` carries the value `p` -/
def HasVal (es : List Edge) (s d p : Name) : Prop := ∃ e ∈ es, e.src = s ∧ e.dst = d ∧ p ∈ e.values

/-- the body of the inner loop of `dataEdges` -/
def dstep (all : List NodeD) (n : NodeD) (es : List Edge) (p : Name) : List Edge :=
  match firstSource all p with
  | .none => es
  | some src =>
    if hasEdge es src n.name then
      es.map fun e => if e.src == src && e.dst == n.name then { e with values := e.values ++ [p] } else e
    else es ++ [{ src := src, dst := n.name, kind := .data, values := [p] }]

theorem dataEdges_eq (nodes : List NodeD) :
    dataEdges nodes = nodes.foldl (fun es n => n.inputs.foldl (dstep nodes n) es) [] := rfl

theorem dstep_pres {all n es p s d q} (h : HasVal es s d q) : HasVal (dstep all n es p) s d q := by
  unfold dstep
  split
  · exact h
  · split
    · obtain ⟨e, he, h1, h2, h3⟩ := h
      refine ⟨_, List.mem_map.mpr ⟨e, he, rfl⟩, ?_⟩
      split
      · exact ⟨h1, h2, List.mem_append_left _ h3⟩
      · exact ⟨h1, h2, h3⟩
    · obtain ⟨e, he, h1⟩ := h
      exact ⟨e, List.mem_append_left _ he, h1⟩

theorem dstep_est {all n es p s} (hs : firstSource all p = some s) : HasVal (dstep all n es p) s n.name p := by
  unfold dstep
  rw [hs]
  simp only
  split
  · rename_i hh
    unfold hasEdge at hh
    obtain ⟨e, he, hsd⟩ := List.any_eq_true.mp hh
    refine ⟨_, List.mem_map.mpr ⟨e, he, rfl⟩, ?_⟩
    simp only [hsd, if_true]
    simp only [Bool.and_eq_true, beq_iff_eq] at hsd
    exact ⟨hsd.1, hsd.2, by simp⟩
  · exact ⟨_, List.mem_append_right _ (List.mem_singleton.mpr rfl), rfl, rfl, by simp⟩

theorem dataEdges_hasVal {nodes : List NodeD} {nd : NodeD} (hnd : nd ∈ nodes) {p s : Name}
    (hp : p ∈ nd.inputs) (hs : firstSource nodes p = some s) : HasVal (dataEdges nodes) s nd.name p := by
  rw [dataEdges_eq]
  have := foldl_est (f := fun es n => n.inputs.foldl (dstep nodes n) es)
    (Q := fun n es => ∀ p ∈ n.inputs, ∀ s, firstSource nodes p = some s → HasVal es s n.name p)
    (fun acc x y hy p hp s hs =>
      foldl_pres (P := fun es => HasVal es s y.name p) (fun _ _ h => dstep_pres h) x.inputs acc (hy p hp s hs))
    (fun acc x p hp s hs =>
      foldl_est (f := dstep nodes x) (Q := fun p es => ∀ s, firstSource nodes p = some s → HasVal es s x.name p)
        (fun _ _ _ hy s hs => dstep_pres (hy s hs)) (fun _ _ s hs => dstep_est hs) x.inputs acc p hp s hs)
    nodes [] nd hnd
  exact this p hp s hs

theorem dstep_kind {all n es p} (h : ∀ e ∈ es, e.kind = .data) : ∀ e ∈ dstep all n es p, e.kind = .data := by
  unfold dstep
  split
  · exact h
  · split
    · intro e he
      obtain ⟨e', he', rfl⟩ := List.mem_map.mp he
      split
      · exact h e' he'
      · exact h e' he'
    · intro e he
      rcases List.mem_append.mp he with he | he
      · exact h e he
      · rw [List.mem_singleton.mp he]

/-- `_add_data_edges` creates data edges only -/
theorem dataEdges_kind {nodes : List NodeD} : ∀ e ∈ dataEdges nodes, e.kind = .data := by
  rw [dataEdges_eq]
  refine foldl_pres (P := fun es : List Edge => ∀ e ∈ es, e.kind = EdgeKind.data) (fun acc n hacc => ?_) nodes []
    (fun _ h => by cases h)
  exact foldl_pres (P := fun es : List Edge => ∀ e ∈ es, e.kind = EdgeKind.data) (fun _ _ h => dstep_kind h) n.inputs acc hacc

theorem mem_addControlEdges {nodes : List NodeD} {es : List Edge} {e : Edge} (h : e ∈ es) :
    e ∈ addControlEdges nodes es := by
  unfold addControlEdges
  refine foldl_pres (P := fun es => e ∈ es) (fun acc n hacc => ?_) nodes es h
  split
  · refine foldl_pres (P := fun es => e ∈ es) (fun acc t hacc => ?_) _ acc hacc
    split
    · exact List.mem_append_left _ hacc
    · exact hacc
  · exact hacc

theorem mem_addOrderingEdges {nodes : List NodeD} {es : List Edge} {e : Edge} (h : e ∈ es) :
    e ∈ addOrderingEdges nodes es := by
  unfold addOrderingEdges
  refine foldl_pres (P := fun es => e ∈ es) (fun acc n hacc => ?_) nodes es h
  refine foldl_pres (P := fun es => e ∈ es) (fun acc t hacc => ?_) _ acc hacc
  split
  · exact hacc
  · split
    · exact hacc
    · exact List.mem_append_left _ hacc

/-- auto-inference mode: a parameter `p` of `nd` whose first producer is `s` rides on a DATA edge `s → nd` -/
theorem graphEdges_hasVal_auto {b : BuildInput} (hx : b.explicitEdges = none) {nd : NodeD}
    (hnd : nd ∈ b.nodes) {p s : Name} (hp : p ∈ nd.inputs) (hs : firstSource b.nodes p = some s) :
    ∃ e ∈ graphEdges b, e.kind = .data ∧ e.src = s ∧ e.dst = nd.name ∧ p ∈ e.values := by
  unfold graphEdges
  rw [hx]
  obtain ⟨e, he, h⟩ := dataEdges_hasVal hnd hp hs
  exact ⟨e, mem_addOrderingEdges (mem_addControlEdges he), dataEdges_kind e he, h⟩

/-! ## small facts used by the flaw theorems -/

theorem node_eq_of_name_eq {nodes : List NodeD} (hn : (nodes.map (·.name)).Nodup) {a c : NodeD}
    (ha : a ∈ nodes) (hc : c ∈ nodes) (h : a.name = c.name) : a = c := by
  have h1 := findNode_of_nodup hn ha
  have h2 := findNode_of_nodup hn hc
  rw [h, h2] at h1
  exact (Option.some.inj h1).symm

theorem flatMap_nodup_disjoint {α β : Type} {f : α → List β} {l : List α} (h : (l.flatMap f).Nodup)
    {a c : α} (ha : a ∈ l) (hc : c ∈ l) (hne : a ≠ c) {x : β} (hx : x ∈ f a) : x ∉ f c := by
  induction l with
  | nil => cases ha
  | cons y ys ih =>
    rw [List.flatMap_cons, List.nodup_append] at h
    obtain ⟨_, h2, h3⟩ := h
    rcases List.mem_cons.mp ha with rfl | ha'
    · rcases List.mem_cons.mp hc with rfl | hc'
      · exact (hne rfl).elim
      · intro hxc
        exact h3 x hx x (List.mem_flatMap.mpr ⟨c, hc', hxc⟩) rfl
    · rcases List.mem_cons.mp hc with rfl | hc'
      · intro hxc
        exact h3 x hxc x (List.mem_flatMap.mpr ⟨a, ha', hx⟩) rfl
      · exact ih h2 ha' hc'

/-- the multi-target clause in its "pairwise disjoint" reading -/
theorem targetOutputs_disjoint {nodes : List NodeD} (hn : (nodes.map (·.name)).Nodup) {g n1 n2 : NodeD}
    (h : (targetOutputs nodes g).Nodup) (h1 : n1 ∈ nodes) (h2 : n2 ∈ nodes)
    (t1 : n1.name ∈ g.targetNames) (t2 : n2.name ∈ g.targetNames) (hne : n1.name ≠ n2.name)
    {o : Name} (ho : o ∈ n1.outputs) : o ∉ n2.outputs := by
  unfold targetOutputs at h
  refine flatMap_nodup_disjoint h (a := n1) (c := n2) ?_ ?_ (fun e => hne (e ▸ rfl)) ho
  · exact List.mem_filterMap.mpr ⟨n1.name, t1, findNode_of_nodup hn h1⟩
  · exact List.mem_filterMap.mpr ⟨n2.name, t2, findNode_of_nodup hn h2⟩

theorem buildGraphOld_eq {b : BuildInput} (h : chkOldRawError b = none) : buildGraphOld b = buildGraph b := by
  unfold buildGraphOld buildGraph runChecks checksOld checks
  simp only [List.findSome?_cons, h]

/-! ## evaluating concrete strict-mode graphs

`compat` is defined by well-founded recursion and does not reduce under `decide`.  For concrete
graphs whose annotations are plain classes, `chkTypesSimple` (identical to `chkTypes` — ordering edges
skipped, every data producer of a value checked — except that it
accepts a pair of annotations only when both are the same plain class) is kernel-evaluable and
implies `chkTypes`. -/

def clsEq : Ty → Ty → Bool
  | .cls a, .cls c => a == c
  | _, _ => false

theorem compat_of_clsEq {t u : Ty} (h : clsEq t u = true) : compat t u = true := by
  cases t <;> cases u <;> simp [clsEq] at h
  subst h
  simp [compat, identicalOrAny, pyEq]

def chkTypesTripleSimple (b : BuildInput) (src dst v : Name) : Option BuildErr :=
  match outType b src v with
  | none => some (.missingOutputAnnotation src v)
  | some to =>
    match inType b dst v with
    | none => some (.missingInputAnnotation dst v)
    | some ti => if clsEq to ti then none else some (.typeMismatch src dst v)

def chkTypesEdgeSimple (b : BuildInput) (e : Edge) : Option BuildErr :=
  e.values.findSome? fun v => chkTypesTripleSimple b e.src e.dst v

def chkTypesEdgeProducersSimple (b : BuildInput) (e : Edge) : Option BuildErr :=
  e.values.findSome? fun v => (typeSourcesFor b e v).findSome? fun s => chkTypesTripleSimple b s e.dst v

/-- mirrors `chkTypes` (every data producer of a value) -/
def chkTypesSimple (b : BuildInput) : Option BuildErr :=
  if b.strict then
    (nxOrder b.nodes (graphEdges b)).findSome? fun e =>
      if e.kind == .ordering then none else chkTypesEdgeProducersSimple b e
  else none

/-- mirrors the pre-repair `chkTypesFirstProducer` -/
def chkTypesFirstProducerSimple (b : BuildInput) : Option BuildErr :=
  if b.strict then
    (nxOrder b.nodes (graphEdges b)).findSome? fun e =>
      if e.kind == .ordering then none else chkTypesEdgeSimple b e
  else none

theorem chkTypesTriple_of_simple {b : BuildInput} {src dst v : Name}
    (h : chkTypesTripleSimple b src dst v = none) : chkTypesTriple b src dst v = none := by
  unfold chkTypesTripleSimple at h
  unfold chkTypesTriple
  cases ho : outType b src v with
  | none => simp [ho] at h
  | some to =>
    cases hi : inType b dst v with
    | none => simp [ho, hi] at h
    | some ti =>
      cases hc : clsEq to ti with
      | false => simp [ho, hi, hc] at h
      | true => simp [compat_of_clsEq hc]

theorem chkTypes_of_simple {b : BuildInput} (h : chkTypesSimple b = none) : chkTypes b = none := by
  unfold chkTypesSimple at h
  unfold chkTypes
  cases hs : b.strict
  · simp
  · rw [hs] at h
    simp only [if_true, List.findSome?_eq_none_iff] at h ⊢
    intro e he
    have h' := h e he
    by_cases hk : (e.kind == .ordering) = true
    · simp [hk]
    · rw [if_neg hk] at h' ⊢
      unfold chkTypesEdgeProducersSimple at h'
      unfold chkTypesEdgeProducers
      simp only [List.findSome?_eq_none_iff] at h' ⊢
      intro v hv s hs'
      exact chkTypesTriple_of_simple (h' v hv s hs')

theorem chkTypesFirstProducer_of_simple {b : BuildInput} (h : chkTypesFirstProducerSimple b = none) :
    chkTypesFirstProducer b = none := by
  unfold chkTypesFirstProducerSimple at h
  unfold chkTypesFirstProducer
  cases hs : b.strict
  · simp
  · rw [hs] at h
    simp only [if_true, List.findSome?_eq_none_iff] at h ⊢
    intro e he
    have h' := h e he
    by_cases hk : (e.kind == .ordering) = true
    · simp [hk]
    · rw [if_neg hk] at h' ⊢
      unfold chkTypesEdgeSimple at h'
      unfold chkTypesEdge
      simp only [List.findSome?_eq_none_iff] at h' ⊢
      intro v hv
      exact chkTypesTriple_of_simple (h' v hv)

/-- all checks but the last (`chkTypes`) -/
def checksUntyped : List (BuildInput → Option BuildErr) :=
  [chkDuplicateNodes, chkExplicitEdges, chkOutputConflicts,
   chkGraphName, chkReservedNames, chkIdentifiers, chkDistinctOutputs, chkNamespaceCollision, chkConsistentDefaults,
   chkGateTargets, chkGateSelfLoop, chkMultiTarget, chkInterruptInMap, chkCacheOnGraphNode, chkWaitFor]

theorem buildGraph_of_untyped {b : BuildInput} (h : runChecks checksUntyped b = .ok ()) :
    buildGraph b = match chkTypes b with | some e => .error e | none => .ok () := by
  have hall := runChecks_ok.mp h
  simp only [checksUntyped, List.mem_cons, List.not_mem_nil, or_false, forall_eq_or_imp, forall_eq] at hall
  obtain ⟨h1, h2, h3, h4, h5, h6, h6', h7, h8, h9, h10, h11, h12, h13, h14⟩ := hall
  unfold buildGraph runChecks checks
  simp only [List.findSome?_cons, h1, h2, h3, h4, h5, h6, h6', h7, h8, h9, h10, h11, h12, h13, h14,
    List.findSome?_nil]
  cases chkTypes b <;> rfl

/-- kernel-evaluable sufficient condition for acceptance -/
theorem buildGraph_ok_of_simple {b : BuildInput}
    (h : runChecks (checksUntyped ++ [chkTypesSimple]) b = .ok ()) : buildGraph b = .ok () := by
  have hall := runChecks_ok.mp h
  have hu : runChecks checksUntyped b = .ok () :=
    runChecks_ok.mpr fun c hc => hall c (List.mem_append_left _ hc)
  have ht : chkTypes b = none :=
    chkTypes_of_simple (hall chkTypesSimple (List.mem_append_right _ (List.mem_singleton.mpr rfl)))
  rw [buildGraph_of_untyped hu, ht]

theorem buildGraphFirstProducer_of_untyped {b : BuildInput} (h : runChecks checksUntyped b = .ok ()) :
    buildGraphFirstProducer b = match chkTypesFirstProducer b with | some e => .error e | none => .ok () := by
  have hall := runChecks_ok.mp h
  simp only [checksUntyped, List.mem_cons, List.not_mem_nil, or_false, forall_eq_or_imp, forall_eq] at hall
  obtain ⟨h1, h2, h3, h4, h5, h6, h6', h7, h8, h9, h10, h11, h12, h13, h14⟩ := hall
  unfold buildGraphFirstProducer runChecks checksFirstProducer
  simp only [List.findSome?_cons, h1, h2, h3, h4, h5, h6, h6', h7, h8, h9, h10, h11, h12, h13, h14,
    List.findSome?_nil]
  cases chkTypesFirstProducer b <;> rfl

/-- kernel-evaluable sufficient condition for acceptance by the pre-repair constructor -/
theorem buildGraphFirstProducer_ok_of_simple {b : BuildInput}
    (h : runChecks (checksUntyped ++ [chkTypesFirstProducerSimple]) b = .ok ()) :
    buildGraphFirstProducer b = .ok () := by
  have hall := runChecks_ok.mp h
  have hu : runChecks checksUntyped b = .ok () :=
    runChecks_ok.mpr fun c hc => hall c (List.mem_append_left _ hc)
  have ht : chkTypesFirstProducer b = none :=
    chkTypesFirstProducer_of_simple
      (hall chkTypesFirstProducerSimple (List.mem_append_right _ (List.mem_singleton.mpr rfl)))
  rw [buildGraphFirstProducer_of_untyped hu, ht]

theorem compat_str_int : compat (.cls "str") (.cls "int") = false := by
  simp [compat, identicalOrAny, pyEq, Ty.isAny, Ty.isNoAnn, originOk, Ty.head?, isSub, strictSub]

theorem compat_int_str : compat (.cls "int") (.cls "str") = false := by
  simp [compat, identicalOrAny, pyEq, Ty.isAny, Ty.isNoAnn, originOk, Ty.head?, isSub, strictSub]

/-! ## concrete graphs for the non-vacuity examples -/

def mkNode (name : Name) (kind : Kind) (inputs dataOuts : List Name) : NodeD :=
  { name, kind, inputs, origIn := [], dataOuts, origOut := [], emits := [], waitFor := [],
    hasDefault := [], sigDefaults := [], innerBound := [], body := .tag "?", targets := [],
    multiTarget := false, fallback := none, defaultOpen := true, cache := false, inner := 0, mapOver := [],
    mapMode := .zip, errMode := .raise }

def exSrc : NodeD := mkNode "src" .fn ["x"] ["a"]
def exDecide : NodeD := { mkNode "decide" .route ["a"] [] with targets := [.node "left", .node "right"] }
def exLeft : NodeD := mkNode "left" .fn ["a"] ["r"]
def exRight : NodeD := mkNode "right" .fn ["a"] ["r"]
def exSink : NodeD := mkNode "sink" .fn ["r"] ["out"]

def exInTypes : AL (AL Ty) :=
  [("src", [("x", .cls "int")]), ("decide", [("a", .cls "int")]), ("left", [("a", .cls "int")]),
   ("right", [("a", .cls "int")]), ("sink", [("r", .cls "int")])]
def exOutTypes : AL (AL Ty) :=
  [("src", [("a", .cls "int")]), ("left", [("r", .cls "int")]), ("right", [("r", .cls "int")]),
   ("sink", [("out", .cls "int")])]

/-- five nodes, strict mode: `src → a`; the route `decide(a)` picks `left` or `right`, which BOTH
produce `r` (exclusive branches); `sink(r) → out` -/
def exGood : BuildInput :=
  { nodes := [exSrc, exDecide, exLeft, exRight, exSink], graphName := "pipeline", strict := true,
    inTypes := exInTypes, outTypes := exOutTypes }

def exWith (nodes : List NodeD) : BuildInput := { exGood with nodes := nodes }

def exDupNode : BuildInput := exWith [exSrc, exDecide, exLeft, exRight, { exSink with name := "src" }]
def exUnknownTarget : BuildInput :=
  exWith [exSrc, { exDecide with targets := [.node "left", .node "right", .node "nope"] }, exLeft, exRight, exSink]
def exAgain : NodeD := { mkNode "again" .route ["out"] [] with targets := [.end_, .node "sink"] }
def exSelfLoop : BuildInput :=
  { exWith [exSrc, exDecide, exLeft, exRight, exSink, { exAgain with targets := [.end_, .node "again"] }] with
    inTypes := exInTypes ++ [("again", [("out", .cls "int")])] }
def exSelfLoopRepaired : BuildInput :=
  { exWith [exSrc, exDecide, exLeft, exRight, exSink, { exAgain with targets := [.end_] }] with
    inTypes := exInTypes ++ [("again", [("out", .cls "int")])] }
def exIllegalNodeName : BuildInput := exWith [exSrc, exDecide, exLeft, exRight, { exSink with name := "sink-1" }]
def exIllegalOutputName : BuildInput := exWith [exSrc, exDecide, exLeft, exRight, { exSink with dataOuts := ["class"] }]
def exReserved : BuildInput := exWith [exSrc, exDecide, exLeft, exRight, { exSink with name := "END" }]
def exSub (name : Name) : NodeD := mkNode name .graph ["out"] ["fin"]
def exCollision : BuildInput := exWith [exSrc, exDecide, exLeft, exRight, exSink, exSub "a"]
def exWithSub : BuildInput :=
  { exWith [exSrc, exDecide, exLeft, exRight, exSink, exSub "sub"] with
    inTypes := exInTypes ++ [("sub", [("out", .cls "int")])] }
def exDefaults : BuildInput :=
  exWith [exSrc, exDecide, { exLeft with sigDefaults := [("a", .int 1)], hasDefault := ["a"] }, exRight, exSink]
def exDefaultsValue : BuildInput :=
  exWith [exSrc, { exDecide with sigDefaults := [("a", .int 2)] },
    { exLeft with sigDefaults := [("a", .int 1)] }, { exRight with sigDefaults := [("a", .int 1)] }, exSink]
def exDefaultsRepaired : BuildInput :=
  exWith [exSrc, { exDecide with sigDefaults := [("a", .int 1)] },
    { exLeft with sigDefaults := [("a", .int 1)] }, { exRight with sigDefaults := [("a", .int 1)] }, exSink]
def exConflict : BuildInput := exWith [exSrc, { exDecide with multiTarget := true }, exLeft, exRight, exSink]
def exInterruptInMap : BuildInput :=
  { exWithSub with nodes := [exSrc, exDecide, exLeft, exRight, exSink, { exSub "sub" with mapOver := ["out"] }],
                   innerInterrupts := ["sub"] }
def exMapNoInterrupt : BuildInput :=
  { exWithSub with nodes := [exSrc, exDecide, exLeft, exRight, exSink, { exSub "sub" with mapOver := ["out"] }] }
def exCacheOnGraph : BuildInput :=
  { exWithSub with nodes := [exSrc, exDecide, exLeft, exRight, exSink, { exSub "sub" with cache := true }] }
def exWaitFor : BuildInput := exWith [exSrc, exDecide, exLeft, exRight, { exSink with waitFor := ["ghost"] }]
def exBadEdgeNode : BuildInput := { exGood with explicitEdges := some [("src", "nope", none)] }
def exBadEdgeValue : BuildInput := { exGood with explicitEdges := some [("src", "sink", some ["a"])] }
def exExplicitGood : BuildInput :=
  { exGood with explicitEdges := some [("src", "decide", none), ("src", "left", some ["a"]),
      ("src", "right", some ["a"]), ("left", "sink", none), ("right", "sink", none)] }
def exTypeMismatch : BuildInput :=
  { exGood with inTypes := [("src", [("x", .cls "int")]), ("decide", [("a", .cls "int")]),
      ("left", [("a", .cls "int")]), ("right", [("a", .cls "int")]), ("sink", [("r", .cls "str")])] }
def exMissingAnnotation : BuildInput :=
  { exGood with inTypes := [("src", [("x", .cls "int")]), ("decide", [("a", .cls "int")]),
      ("left", [("a", .cls "int")]), ("right", [("a", .cls "int")])] }
def exGraphName : BuildInput := { exGood with graphName := "pipe.line" }

def exStrOut : AL (AL Ty) :=
  [("src", [("a", .cls "int")]), ("left", [("r", .cls "int")]), ("right", [("r", .cls "str")]),
   ("sink", [("out", .cls "int")])]
/-- `exGood` with the SECOND producer of `r` annotated `-> str` (the consumer `sink(r : int)`) -/
def exSecondStr : BuildInput := { exGood with outTypes := exStrOut }
/-- the same graph, `right` listed before `left` -/
def exSecondStrSwapped : BuildInput := { exSecondStr with nodes := [exSrc, exDecide, exRight, exLeft, exSink] }

/-- a multi-target route whose two targets both produce `res` (and are ordered through `t`) -/
def exMultiNodes (multi : Bool) : List NodeD :=
  [mkNode "src" .fn ["x"] ["a"],
   { mkNode "g" .route ["a"] [] with targets := [.node "l", .node "r"], multiTarget := multi },
   mkNode "l" .fn ["a"] ["res", "t"], mkNode "r" .fn ["a", "t"] ["res"]]
def exMultiBad : BuildInput := { nodes := exMultiNodes true }
def exMultiRepaired : BuildInput := { nodes := exMultiNodes false }

/-- the witness of the repaired defect: a route with targets `["A", "B", "nope"]` -/
def exOldRaw : BuildInput :=
  { nodes := [mkNode "A" .fn ["x"] ["y"], mkNode "B" .fn ["x"] ["z"],
      { mkNode "g" .route ["y"] [] with targets := [.node "A", .node "B", .node "nope"] }] }

end HG.Build
