import HG.Lemmas.NestNode
/-! # HG.Lemmas.NestInline — helpers for C05, part 3: the outer graph with a wrapper vs the flat graph

Setting: `O.nodes = pre ++ W :: post`, `G.nodes = pre ++ I.nodes ++ post`, `W = elabGraphNode s I` without
renames. `combine` is the state-level core: fixed points of `G`, of `O` (with the wrapper as a virtual
function) and of `I` (on the arguments the wrapper collected) agree on every name. -/
namespace HG.Nest
open HG HG.C01 HG.Intr

/-- a wrapper description without renames, `map_over` or `wait_for` -/
structure Plain (s : NodeSpec) : Prop where
  inRen : s.inRen = []
  outRen : s.outRen = []
  mapOver : s.mapOver = []
  waitFor : s.waitFor = []

instance (s : NodeSpec) : Decidable (Plain s) :=
  if h : s.inRen = [] ∧ s.outRen = [] ∧ s.mapOver = [] ∧ s.waitFor = []
  then isTrue ⟨h.1, h.2.1, h.2.2.1, h.2.2.2⟩ else isFalse fun h' => h ⟨h'.inRen, h'.outRen, h'.mapOver, h'.waitFor⟩

theorem map_renameOf_nil (l : List Name) : l.map (renameOf []) = l := by
  have : renameOf [] = id := rfl
  rw [this, List.map_id]

section plain
variable {s : NodeSpec} {I : GraphD}

theorem plain_inputs (hp : Plain s) : (elabGraphNode s I).inputs = I.spec.all := by
  rw [elabGraphNode_inputs, hp.inRen, map_renameOf_nil]

theorem plain_outputs (hp : Plain s) (hsel : I.selected = .none) :
    (elabGraphNode s I).outputs = graphOutputs I.nodes := by
  rw [elabGraphNode_outputs, hp.outRen, map_renameOf_nil]; unfold exposed; rw [hsel]

theorem plain_dataOuts (hp : Plain s) (hsel : I.selected = .none) :
    (elabGraphNode s I).dataOuts = graphOutputs I.nodes := by
  rw [elabGraphNode_dataOuts, hp.outRen, map_renameOf_nil]; unfold exposed; rw [hsel]

theorem elab_innerBound_nil (hb : I.spec.bound = []) : (elabGraphNode s I).innerBound = [] := by
  simp [elabGraphNode, hb]

/-- shared parameters of the inner graph have all-or-none, equal signature defaults (the library's
build-time check `_validate_consistent_defaults`) -/
def ConsistentDefaults (I : GraphD) : Prop :=
  ∀ n ∈ I.nodes, ∀ n' ∈ I.nodes, ∀ p ∈ n.inputs, p ∈ n'.inputs →
    AL.get? n.sigDefaults p = AL.get? n'.sigDefaults p

instance (I : GraphD) : Decidable (ConsistentDefaults I) := by unfold ConsistentDefaults; exact inferInstance

theorem get?_filterMap_self {α} (l : List Name) (F : Name → Option (Name × α))
    (hF : ∀ p x, F p = some x → x.1 = p) (q : Name) :
    AL.get? (l.filterMap F) q = if q ∈ l then (F q).map (·.2) else .none := by
  induction l with
  | nil => rfl
  | cons a t ih =>
    cases h : F a with
    | none =>
      rw [List.filterMap_cons_none h, ih]
      by_cases e : q = a
      · subst e; simp [h]
      · simp [e]
    | some x =>
      rw [List.filterMap_cons_some h]
      obtain ⟨k, v⟩ := x
      have hk : k = a := hF a _ h
      subst hk
      simp only [AL.get?]
      by_cases e : q = k
      · subst e; simp [h]
      · simp [e, ih]

theorem findSome?_const {α β} (f : α → Option β) (b : β) : ∀ (l : List α), l ≠ [] → (∀ a ∈ l, f a = some b) →
    l.findSome? f = some b := by
  intro l hne h
  cases l with
  | nil => exact absurd rfl hne
  | cons a t => simp [List.findSome?, h a List.mem_cons_self]

/-- the per-parameter step of `elabGraphNode.sigDefaults` -/
def sigF (s : NodeSpec) (I : GraphD) (p : Name) : Option (Name × Val) :=
  if AL.has I.spec.bound p then .none
  else if (I.nodes.filter fun n => n.inputs.contains p).isEmpty ||
      !((I.nodes.filter fun n => n.inputs.contains p).all fun n => AL.has n.sigDefaults p) then .none
  else ((I.nodes.filter fun n => n.inputs.contains p).findSome? fun n => AL.get? n.sigDefaults p).map
    fun v => (renameOf s.inRen p, v)

theorem elab_sigDefaults (s : NodeSpec) (I : GraphD) :
    (elabGraphNode s I).sigDefaults = I.spec.all.filterMap (sigF s I) := rfl

/-- the wrapper surfaces the (consistent) signature default of an inner input -/
theorem plain_sigDefaults (hp : Plain s) (hb : I.spec.bound = []) (hcd : ConsistentDefaults I)
    {n : NodeD} (hn : n ∈ I.nodes) {p : Name} (hpn : p ∈ n.inputs) (hpa : p ∈ I.spec.all) :
    AL.get? (elabGraphNode s I).sigDefaults p = AL.get? n.sigDefaults p := by
  have hF : ∀ q x, sigF s I q = some x → x.1 = q := by
    intro q x hx
    unfold sigF at hx
    split at hx
    · cases hx
    · split at hx
      · cases hx
      · simp only [Option.map_eq_some_iff] at hx
        obtain ⟨v, _, rfl⟩ := hx
        rw [hp.inRen]; rfl
  rw [elab_sigDefaults, get?_filterMap_self _ _ hF p, if_pos hpa]
  have hbn : AL.has I.spec.bound p = false := by rw [hb]; rfl
  have hnu : n ∈ I.nodes.filter fun n => n.inputs.contains p := by
    rw [List.mem_filter]; exact ⟨hn, by simpa using hpn⟩
  have hne : (I.nodes.filter fun n => n.inputs.contains p) ≠ [] := List.ne_nil_of_mem hnu
  cases hd : AL.get? n.sigDefaults p with
  | none =>
    have hall : (I.nodes.filter fun n => n.inputs.contains p).all (fun n => AL.has n.sigDefaults p) = false := by
      rw [List.all_eq_false]
      exact ⟨n, hnu, by simp [AL.has, hd]⟩
    simp only [sigF, hbn, hall, Bool.false_eq_true, if_false, Bool.not_false, Bool.or_true, if_true]
    rfl
  | some dflt =>
    have hall : ∀ u ∈ I.nodes.filter fun n => n.inputs.contains p, AL.get? u.sigDefaults p = some dflt := by
      intro u hu
      rw [List.mem_filter] at hu
      rw [← hcd n hn u hu.1 p hpn (by simpa using hu.2), hd]
    have h1 : (I.nodes.filter fun n => n.inputs.contains p).all (fun n => AL.has n.sigDefaults p) = true := by
      rw [List.all_eq_true]; intro u hu; unfold AL.has; rw [hall u hu]; rfl
    have h2 : (I.nodes.filter fun n => n.inputs.contains p).isEmpty = false := by
      cases h : (I.nodes.filter fun n => n.inputs.contains p) with
      | nil => exact absurd h hne
      | cons _ _ => rfl
    simp only [sigF, hbn, h1, h2, Bool.not_true, Bool.or_self, Bool.false_eq_true, if_false]
    rw [findSome?_const _ dflt _ hne hall]; rfl

/-- the wrapper reports a default for an inner input as soon as one inner user has one -/
theorem plain_hasDefault (hp : Plain s) {n : NodeD} (hn : n ∈ I.nodes) {p : Name} (hpn : p ∈ n.inputs)
    (hpa : p ∈ I.spec.all) (hd : n.hasDefault.contains p = true) :
    (elabGraphNode s I).hasDefault.contains p = true := by
  have hdef : (elabGraphNode s I).hasDefault = (I.spec.all.filter fun p =>
      AL.has I.spec.bound p || (!s.mapOver.contains (renameOf s.inRen p) &&
        (I.nodes.filter fun n => n.inputs.contains p).any fun n => n.hasDefault.contains p)).map
        (renameOf s.inRen) := rfl
  rw [hdef, hp.inRen, hp.mapOver, map_renameOf_nil]
  simp only [List.contains_iff_mem, List.mem_filter]
  refine ⟨hpa, ?_⟩
  simp only [Bool.or_eq_true, Bool.and_eq_true, List.any_eq_true, List.mem_filter]
  exact Or.inr ⟨by simp, n, ⟨hn, by simpa using hpn⟩, hd⟩

/-- conversely a default reported by the wrapper comes from an inner user (no bound values) -/
theorem plain_hasDefault_inv (hp : Plain s) (hb : I.spec.bound = []) {p : Name}
    (hd : (elabGraphNode s I).hasDefault.contains p = true) :
    ∃ n ∈ I.nodes, p ∈ n.inputs ∧ n.hasDefault.contains p = true := by
  have hdef : (elabGraphNode s I).hasDefault = (I.spec.all.filter fun p =>
      AL.has I.spec.bound p || (!s.mapOver.contains (renameOf s.inRen p) &&
        (I.nodes.filter fun n => n.inputs.contains p).any fun n => n.hasDefault.contains p)).map
        (renameOf s.inRen) := rfl
  rw [hdef, hp.inRen, hp.mapOver, map_renameOf_nil] at hd
  simp only [List.contains_iff_mem, List.mem_filter, hb, AL.has, AL.get?_nil, Option.isSome_none,
    Bool.false_or, Bool.and_eq_true, List.any_eq_true] at hd
  obtain ⟨_, _, n, hn, hd⟩ := hd
  exact ⟨n, hn.1, by simpa using hn.2, by simpa using hd⟩
end plain

/-! ## values of an initial state -/

theorem initState_get? (values : AL Val) (hn : NodupKeys values) (k : Name) :
    AL.get? (initState values).values k = AL.get? values k := by
  unfold initState
  rw [applyOutputs_values _ hn]
  cases AL.get? values k <;> rfl

/-! ## the state-level core -/

/-- `Holds` for a node of kind ≠ graph does not see the wrapper semantics -/
theorem holds_nestSem_fn {sem : Sem} {nested : Nested} {g : GraphD} {st : GState} {n : NodeD}
    (hk : n.kind ≠ .graph) (h : Holds (nestSem sem nested) g st n) : Holds sem g st n := by
  obtain ⟨a, v, o, hc, hv, hw, hval⟩ := h
  exact ⟨a, v, o, hc, by rw [← nestSem_fn sem nested n hk]; exact hv, hw, hval⟩

/-- two `Holds` witnesses of one node in two graphs/states whose resolved inputs coincide give the same
output values -/
theorem holds_agree {sem : Sem} {g₁ g₂ : GraphD} {s₁ s₂ : GState} {n : NodeD}
    (h₁ : Holds sem g₁ s₁ n) (h₂ : Holds sem g₂ s₂ n)
    (hin : ∀ p ∈ n.inputs, resolveInput g₁ s₁ n p = resolveInput g₂ s₂ n p) :
    ∀ o ∈ n.outputs, AL.get? s₁.values o = AL.get? s₂.values o := by
  obtain ⟨a₁, v₁, o₁, hc₁, hv₁, hw₁, hval₁⟩ := h₁
  obtain ⟨a₂, v₂, o₂, hc₂, hv₂, hw₂, hval₂⟩ := h₂
  have ha : a₁ = a₂ := by
    rw [(collectInputs_eq_map _ _ _ _ _ hc₁).1, (collectInputs_eq_map _ _ _ _ _ hc₂).1]
    apply List.map_congr_left
    intro p hp
    rw [hin p hp]
  subst ha
  rw [hv₁] at hv₂
  injection hv₂ with hv₂
  subst hv₂
  rw [hw₁] at hw₂
  injection hw₂ with hw₂
  subst hw₂
  intro o ho
  rw [hval₁ o ho, hval₂ o ho]

/-- the shape of the three graphs (no renames): the outer graph is `pre ++ W :: post`, the flat graph is
`pre ++ I.nodes ++ post`, the wrapper exposes all outputs of `I` -/
structure Shape (s : NodeSpec) (I O G : GraphD) (pre post : List NodeD) : Prop where
  plain : Plain s
  onodes : O.nodes = pre ++ elabGraphNode s I :: post
  gnodes : G.nodes = pre ++ I.nodes ++ post
  isel : I.selected = .none

/-- … and there are no bound values anywhere, all nodes of the flat graph are leaves -/
structure Layout (s : NodeSpec) (I O G : GraphD) (pre post : List NodeD) : Prop extends Shape s I O G pre post where
  gb : G.spec.bound = []
  ob : O.spec.bound = []
  ib : I.spec.bound = []
  leaf : ∀ n ∈ G.nodes, n.innerBound = []

section layout
variable {s : NodeSpec} {I O G : GraphD} {pre post : List NodeD}

theorem Shape.memG (L : Shape s I O G pre post) (n : NodeD) :
    n ∈ G.nodes ↔ n ∈ pre ∨ n ∈ I.nodes ∨ n ∈ post := by
  rw [L.gnodes]; simp

theorem Shape.memO (L : Shape s I O G pre post) (n : NodeD) :
    n ∈ O.nodes ↔ n ∈ pre ∨ n = elabGraphNode s I ∨ n ∈ post := by
  rw [L.onodes]; simp

theorem Shape.innerG (L : Shape s I O G pre post) {n : NodeD} (h : n ∈ I.nodes) : n ∈ G.nodes :=
  (L.memG n).2 (Or.inr (Or.inl h))

theorem Shape.wO (L : Shape s I O G pre post) : elabGraphNode s I ∈ O.nodes :=
  (L.memO _).2 (Or.inr (Or.inl rfl))

/-- a name written in `O` is written in `G` -/
theorem Shape.producedO (L : Shape s I O G pre post) {p : Name}
    (h : ∃ m ∈ O.nodes, p ∈ m.outputs) : ∃ m ∈ G.nodes, p ∈ m.outputs := by
  obtain ⟨m, hm, hp⟩ := h
  rcases (L.memO m).1 hm with h | h | h
  · exact ⟨m, (L.memG m).2 (Or.inl h), hp⟩
  · subst h
    rw [plain_outputs L.plain L.isel, Spec.mem_graphOutputs] at hp
    obtain ⟨nd, hnd, ho⟩ := hp
    exact ⟨nd, L.innerG hnd, ho⟩
  · exact ⟨m, (L.memG m).2 (Or.inr (Or.inr h)), hp⟩

/-- a name written in `G` is written in `O` -/
theorem Shape.producedG (L : Shape s I O G pre post) {p : Name}
    (h : ∃ m ∈ G.nodes, p ∈ m.outputs) : ∃ m ∈ O.nodes, p ∈ m.outputs := by
  obtain ⟨m, hm, hp⟩ := h
  rcases (L.memG m).1 hm with h | h | h
  · exact ⟨m, (L.memO m).2 (Or.inl h), hp⟩
  · refine ⟨_, L.wO, ?_⟩
    rw [plain_outputs L.plain L.isel, Spec.mem_graphOutputs]
    exact ⟨m, h, hp⟩
  · exact ⟨m, (L.memO m).2 (Or.inr (Or.inr h)), hp⟩

/-- the state-level core of C05: `sG` is a fixed point of the flat graph, `sO` one of the outer graph (the
wrapper being the virtual function `nestSem`, here only through its consequences `hWargs`, `hWvals`), `sI`
one of the inner graph on the arguments the wrapper collected in `sO`. Then `sG` and `sO` agree on every
name. -/
theorem combine {sem : Sem} {levelG : Name → Nat} (L : Layout s I O G pre post)
    (hlt : ∀ n ∈ G.nodes, ∀ p ∈ n.inputs, ∀ m ∈ G.nodes, p ∈ m.outputs → levelG m.name < levelG n.name)
    (hok : InnerOK I) (hcd : ConsistentDefaults I) (hnd : I.spec.all.Nodup)
    (values : AL Val) {sG sO sI : GState} {argsW : AL Val}
    (hstG : ∀ p, (∀ m ∈ G.nodes, p ∉ m.outputs) → AL.get? sG.values p = AL.get? (initState values).values p)
    (hstO : ∀ p, (∀ m ∈ O.nodes, p ∉ m.outputs) → AL.get? sO.values p = AL.get? (initState values).values p)
    (hG : ∀ n ∈ G.nodes, Holds sem G sG n)
    (hO : ∀ n ∈ pre ++ post, Holds sem O sO n)
    (hWargs : collectInputs O sO (elabGraphNode s I) (elabGraphNode s I).inputs = some argsW)
    (hfix : InnerFix sem I (toParams (elabGraphNode s I) argsW) sI)
    (hWvals : ∀ o ∈ graphOutputs I.nodes, AL.get? sO.values o = AL.get? sI.values o) :
    ∀ k, AL.get? sG.values k = AL.get? sO.values k := by
  have hWin := plain_inputs (I := I) L.plain
  have hallinj : (I.spec.all.map (renameOf s.inRen)).Nodup := by rw [L.plain.inRen, map_renameOf_nil]; exact hnd
  have hkeysW : AL.keys argsW = (elabGraphNode s I).inputs := collectInputs_keys hWargs
  obtain ⟨htk, _, htg⟩ := toParams_elab s I hallinj argsW hkeysW
  -- what the inner state holds for an input of the inner graph
  have hsIin : ∀ p ∈ I.spec.all, (∀ m ∈ I.nodes, p ∉ m.outputs) →
      AL.get? sI.values p = (AL.get? sO.values p).or (AL.get? (elabGraphNode s I).sigDefaults p) := by
    intro p hp hnp
    rw [hfix.1 p hnp, initState_get? _ (by unfold NodupKeys; rw [htk]; exact hnd), htg p hp, L.plain.inRen,
      renameOf_nil, collectInputs_get? hWargs (by rw [hWin]; exact hp),
      resolveInput_nobound L.ob (elab_innerBound_nil L.ib)]
  -- outputs of the flat graph, by level
  have haux : ∀ dd (n : NodeD), n ∈ G.nodes → levelG n.name = dd →
      ∀ o ∈ n.outputs, AL.get? sG.values o = AL.get? sO.values o := by
    intro dd
    induction dd using Nat.strongRecOn with
    | _ dd ih =>
      intro n hn hl o ho
      -- inputs of `n` agree between `sG` and `sO`
      have hinp : ∀ p ∈ n.inputs, AL.get? sG.values p = AL.get? sO.values p := by
        intro p hp
        by_cases hprod : ∃ m ∈ G.nodes, p ∈ m.outputs
        · obtain ⟨m, hm, hpo⟩ := hprod
          have := hlt n hn p hp m hm hpo
          exact ih (levelG m.name) (by omega) m hm rfl p hpo
        · have h1 : ∀ m ∈ G.nodes, p ∉ m.outputs := fun m hm e => hprod ⟨m, hm, e⟩
          have h2 : ∀ m ∈ O.nodes, p ∉ m.outputs := fun m hm e => hprod (L.producedO ⟨m, hm, e⟩)
          rw [hstG p h1, hstO p h2]
      have hcase : n ∈ I.nodes ∨ n ∈ pre ++ post := by
        rcases (L.memG n).1 hn with h | h | h
        · exact Or.inr (List.mem_append_left _ h)
        · exact Or.inl h
        · exact Or.inr (List.mem_append_right _ h)
      rcases hcase with hnI | hnO
      · -- an inner node: compare with the inner fixed point
        have hoW : o ∈ graphOutputs I.nodes := (Spec.mem_graphOutputs _ _).2 ⟨n, hnI, ho⟩
        rw [hWvals o hoW]
        apply holds_agree (hG n hn) (hfix.2 n hnI) _ o ho
        intro p hp
        rw [resolveInput_nobound L.gb (L.leaf n hn), resolveInput_nobound L.ib (L.leaf n hn), hinp p hp]
        by_cases hpI : ∃ m ∈ I.nodes, p ∈ m.outputs
        · obtain ⟨m, hm, hpo⟩ := hpI
          rw [hWvals p ((Spec.mem_graphOutputs _ _).2 ⟨m, hm, hpo⟩)]
        · have hnp : ∀ m ∈ I.nodes, p ∉ m.outputs := fun m hm e => hpI ⟨m, hm, e⟩
          have hpa : p ∈ I.spec.all := by
            rcases hok.complete n hnI p hp with h | h
            · exact absurd h hpI
            · exact h
          rw [hsIin p hpa hnp, plain_sigDefaults L.plain L.ib hcd hnI hp hpa]
          cases AL.get? sO.values p <;> cases AL.get? n.sigDefaults p <;> rfl
      · -- an outer function node
        apply holds_agree (hG n hn) (hO n hnO) _ o ho
        intro p hp
        rw [resolveInput_nobound L.gb (L.leaf n hn), resolveInput_nobound L.ob (L.leaf n hn), hinp p hp]
  intro k
  by_cases hprod : ∃ m ∈ G.nodes, k ∈ m.outputs
  · obtain ⟨m, hm, hko⟩ := hprod
    exact haux _ m hm rfl k hko
  · have h1 : ∀ m ∈ G.nodes, k ∉ m.outputs := fun m hm e => hprod ⟨m, hm, e⟩
    have h2 : ∀ m ∈ O.nodes, k ∉ m.outputs := fun m hm e => hprod (L.producedO ⟨m, hm, e⟩)
    rw [hstG k h1, hstO k h2]

/-! ## the outer graph inherits what the run theorem needs -/

theorem Shape.outputsO (L : Shape s I O G pre post) {m : NodeD} (hm : m ∈ O.nodes) {o : Name}
    (ho : o ∈ m.outputs) : ∃ m' ∈ G.nodes, o ∈ m'.outputs := L.producedO ⟨m, hm, ho⟩

theorem outer_semTotal {sem : Sem} (nested : Nested) (L : Layout s I O G pre post) (hfn : AllFn G)
    (hs : SemTotal sem G) : SemTotal (nestSem sem nested) O := by
  intro nd hnd args
  have hfnc : ∀ n ∈ G.nodes, ∃ v outs, nestSem sem nested n args = .val v ∧ wrapOutputs n v = some outs := by
    intro n hn
    rw [nestSem_fn sem nested n (by rw [hfn n hn]; decide)]
    exact hs n hn args
  rcases (L.memO nd).1 hnd with h | h | h
  · exact hfnc nd ((L.memG nd).2 (Or.inl h))
  · subst h
    exact nestSem_total_graph sem nested _ rfl rfl
      (by rw [plain_dataOuts L.plain L.isel]; exact dedup_nodup _) args
  · exact hfnc nd ((L.memG nd).2 (Or.inr (Or.inr h)))

theorem outer_fresh (L : Layout s I O G pre post) (values : AL Val)
    (hfresh : ∀ m ∈ G.nodes, ∀ o ∈ m.outputs, AL.has values o = false) :
    ∀ m ∈ O.nodes, ∀ o ∈ m.outputs, AL.has values o = false := by
  intro m hm o ho
  obtain ⟨m', hm', ho'⟩ := L.outputsO hm ho
  exact hfresh m' hm' o ho'

theorem outer_covered (L : Layout s I O G pre post) (hok : InnerOK I) (s0 : GState)
    (hcov : Covered G s0) : Covered O s0 := by
  intro n hn p hp
  have hleaf : ∀ n ∈ G.nodes, p ∈ n.inputs → (∃ m ∈ O.nodes, p ∈ m.outputs) ∨ hasInput O s0 n p = true := by
    intro n hn hp
    rcases hcov n hn p hp with h | h
    · exact Or.inl (L.producedG h)
    · right
      unfold hasInput at h ⊢
      rw [L.ob]; rw [L.gb] at h; exact h
  rcases (L.memO n).1 hn with h | h | h
  · exact hleaf n ((L.memG n).2 (Or.inl h)) hp
  · subst h
    rw [plain_inputs L.plain] at hp
    obtain ⟨u, hu, hpu⟩ := hok.sound p hp
    rcases hcov u (L.innerG hu) p hpu with h | h
    · exact Or.inl (L.producedG h)
    · right
      unfold hasInput at h ⊢
      rw [L.gb] at h; rw [L.ob]
      simp only [Bool.or_eq_true] at h ⊢
      rcases h with (h | h) | h
      · exact Or.inl (Or.inl h)
      · exact Or.inl (Or.inr h)
      · exact Or.inr (plain_hasDefault L.plain hu hpu hp h)
  · exact hleaf n ((L.memG n).2 (Or.inr (Or.inr h))) hp

/-- acyclicity, unique producers, … of the flat graph restrict to the inner graph -/
theorem inner_wfi {levelG : Name → Nat} (L : Layout s I O G pre post) (hW : WFI G levelG) : WFI I levelG := by
  have hsub : ∀ n ∈ I.nodes, n ∈ G.nodes := fun n hn => L.innerG hn
  refine ⟨fun n hn => hW.gf n (hsub n hn), fun n hn => hW.nw n (hsub n hn), fun n hn => hW.wd n (hsub n hn),
    ⟨?_, ?_⟩, fun n hn p hp m hm hpo => hW.lt n (hsub n hn) p hp m (hsub m hm) hpo, ?_⟩
  · have := hW.up.names_nodup
    rw [L.gnodes, List.map_append, List.map_append] at this
    exact (List.nodup_append.1 (List.nodup_append.1 this).1).2.1
  · have := hW.up.outs_nodup
    rw [L.gnodes, List.flatMap_append, List.flatMap_append] at this
    exact (List.nodup_append.1 (List.nodup_append.1 this).1).2.1
  · intro n hn p hp m hm hpo
    refine ⟨by rw [L.ib]; rfl, (hW.fed n (hsub n hn) p hp m (hsub m hm) hpo).2⟩

theorem outer_goodNodes {sem : Sem} {prog : Program} {d : Nat} {levelG : Name → Nat}
    (L : Layout s I O G pre post) (hI : prog.getD s.inner default = I)
    (hWG : WFI G levelG) (hfnG : AllFn G) (hsG : SemTotal sem G)
    (hnsI : NoSentinel sem I) (hok : InnerOK I) (hnd : I.spec.all.Nodup)
    (hepI : I.entrypoints = .none) (hfuelI : I.nodes.length ≤ ({} : RunCfg).maxIter) (gi : Nat) :
    GoodNodes (nestedAt sem .sync prog (d + 1)) sem (nestSem sem (nestedAt sem .sync prog (d + 1))) gi O := by
  have hsO := outer_semTotal (sem := sem) (nestedAt sem .sync prog (d + 1)) L hfnG hsG
  intro nd hnd' st args hc ns sp
  have hfnc : nd ∈ G.nodes →
      (execNode (nestedAt sem .sync prog (d + 1)) sem gi nd args ns sp).pause = .none ∧
      (execNode (nestedAt sem .sync prog (d + 1)) sem gi nd args ns sp).dec = .none ∧
      (execNode (nestedAt sem .sync prog (d + 1)) sem gi nd args ns sp).res =
        .ok (outsOf (nestSem sem (nestedAt sem .sync prog (d + 1))) nd args) := by
    intro hn
    obtain ⟨v, hv, hw⟩ := outsOf_spec hsO hnd' args
    exact execNode_fn_good _ sem _ gi nd args ns sp (hfnG nd hn)
      (nestSem_fn sem _ nd (by rw [hfnG nd hn]; decide) _).symm v hv hw
  rcases (L.memO nd).1 hnd' with h | h | h
  · exact hfnc ((L.memG nd).2 (Or.inl h))
  · subst h
    have hexec : execNode (nestedAt sem .sync prog (d + 1)) sem gi (elabGraphNode s I) args ns sp =
        execGraphNode (nestedAt sem .sync prog (d + 1)) (elabGraphNode s I) args sp := rfl
    rw [hexec]
    have hWI := inner_wfi L hWG
    obtain ⟨h1, h2, h3, _⟩ := graphnode_good sem prog d s I levelG hI L.plain.mapOver hWI
      (fun n hn => hfnG n (L.innerG hn)) (fun n hn => hsG n (L.innerG hn)) hnsI hok L.isel hepI hfuelI
      (by rw [L.plain.inRen, map_renameOf_nil]; exact hnd)
      (by rw [L.plain.outRen, map_renameOf_nil]; unfold exposed; rw [L.isel]; exact dedup_nodup _)
      args (collectInputs_keys hc) sp
    exact ⟨h1, h2, h3⟩
  · exact hfnc ((L.memG nd).2 (Or.inr (Or.inr h)))

/-- the two sync loops — the outer graph with the wrapper run through the real nested runner, and the flat
graph — both end `done`, and the final states agree on every name -/
theorem nest_values_core (sem : Sem) (prog : Program) (d : Nat) (s : NodeSpec) (I O G : GraphD)
    (pre post : List NodeD) (levelG levelO : Name → Nat) (nestedG : Nested) (giO giG : Nat)
    (spanO spanG : Span) (mi : Nat) (log₀ log₁ : List Log)
    (L : Layout s I O G pre post) (hI : prog.getD s.inner default = I)
    (hWG : WFI G levelG) (hfnG : AllFn G) (hsG : SemTotal sem G)
    (hnsI : NoSentinel sem I) (hok : InnerOK I) (hcd : ConsistentDefaults I) (hnd : I.spec.all.Nodup)
    (hepI : I.entrypoints = .none) (hfuelI : I.nodes.length ≤ ({} : RunCfg).maxIter)
    (hWO : WFI O levelO)
    (values : AL Val) (hfresh : ∀ m ∈ G.nodes, ∀ o ∈ m.outputs, AL.has values o = false)
    (hcov : Covered G (initState values))
    (hfuelG : G.nodes.length ≤ mi) (hfuelO : O.nodes.length ≤ mi) :
    ∃ sO sG logO logG nO nG,
      runLoop (fun k st rs => stepSync (nestedAt sem .sync prog (d + 1)) sem giO O spanO k st rs st []) O .none
        mi mi 0 (initState values) log₀ = .done sO logO nO ∧
      runLoop (fun k st rs => stepSync nestedG sem giG G spanG k st rs st []) G .none
        mi mi 0 (initState values) log₁ = .done sG logG nG ∧
      (∀ k, AL.get? sO.values k = AL.get? sG.values k) ∧
      (∀ n ∈ G.nodes, Holds sem G sG n) ∧ (∀ n ∈ O.nodes, AL.has sO.execs n.name = true) := by
  obtain ⟨sG, logG, nG, hrunG, hstG, hholdG, _⟩ :=
    sync_run_holds hWG nestedG sem sem hsG giG spanG (goodNodes_fn nestedG sem giG G hfnG hsG) values hfresh hcov
      mi hfuelG log₁
  have hsO := outer_semTotal (sem := sem) (nestedAt sem .sync prog (d + 1)) L hfnG hsG
  have hgoodO := outer_goodNodes (d := d) L hI hWG hfnG hsG hnsI hok hnd hepI hfuelI giO
  obtain ⟨sO, logO, nO, hrunO, hstO, hholdO, hexO⟩ :=
    sync_run_holds hWO (nestedAt sem .sync prog (d + 1)) sem _ hsO giO spanO hgoodO values
      (outer_fresh L values hfresh) (outer_covered L hok _ hcov) mi hfuelO log₀
  -- the wrapper
  obtain ⟨argsW, vW, outsW, hcW, hvW, hwW, hvalW⟩ := hholdO _ L.wO
  have hWI := inner_wfi L hWG
  obtain ⟨_, _, _, sI, hfix, hsome, houts⟩ := graphnode_good sem prog d s I levelG hI L.plain.mapOver hWI
    (fun n hn => hfnG n (L.innerG hn)) (fun n hn => hsG n (L.innerG hn)) hnsI hok L.isel hepI hfuelI
    (by rw [L.plain.inRen, map_renameOf_nil]; exact hnd)
    (by rw [L.plain.outRen, map_renameOf_nil]; unfold exposed; rw [L.isel]; exact dedup_nodup _)
    argsW (collectInputs_keys hcW) []
  have houtsW : outsW = outsOf (nestSem sem (nestedAt sem .sync prog (d + 1))) (elabGraphNode s I) argsW := by
    unfold outsOf; rw [hvW]; simp only; rw [hwW]; rfl
  have hWvals : ∀ o ∈ graphOutputs I.nodes, AL.get? sO.values o = AL.get? sI.values o := by
    intro o ho
    rw [hvalW o (by rw [plain_outputs L.plain L.isel]; exact ho), houtsW, houts, L.plain.outRen]
    have : (fun k => (renameOf [] k, (AL.get? sI.values k).getD Val.none)) =
        (fun k => (k, (AL.get? sI.values k).getD Val.none)) := rfl
    rw [this, get?_map_pair, if_pos ho]
    obtain ⟨v, hv, _⟩ := hsome o ho
    rw [hv]; rfl
  have hcomb := combine L hWG.lt hok hcd hnd values hstG hstO hholdG
    (fun n hn => by
      have hnO : n ∈ O.nodes := by
        rcases List.mem_append.1 hn with h | h
        · exact (L.memO n).2 (Or.inl h)
        · exact (L.memO n).2 (Or.inr (Or.inr h))
      have hnG : n ∈ G.nodes := by
        rcases List.mem_append.1 hn with h | h
        · exact (L.memG n).2 (Or.inl h)
        · exact (L.memG n).2 (Or.inr (Or.inr h))
      exact holds_nestSem_fn (by rw [hfnG n hnG]; decide) (hholdO n hnO))
    hcW hfix hWvals
  exact ⟨sO, sG, logO, logG, nO, nG, hrunO, hrunG, fun k => (hcomb k).symm, hholdG, hexO⟩
end layout

end HG.Nest
