import HG.Lemmas.Dag
/-! # HG.Lemmas.DagStep — the ready set at step `k` is level `k`; the step lemma `inv_step` -/
namespace HG.C01
variable {sem : Sem} {g : GraphD} {values : AL Val} {level : Name → Nat}

theorem static_false {n : NodeD} {p : Name} (h : static g values n p = false) :
    AL.has values p = false ∧ AL.has g.spec.bound p = false ∧ n.hasDefault.contains p = false := by
  unfold static at h
  simp only [Bool.or_eq_false_iff] at h
  exact ⟨h.1.1, h.1.2, h.2⟩

theorem untouched_has_false {s : GState} {m : NodeD} (h : Untouched s m) {o : Name} (ho : o ∈ m.outputs) :
    AL.has s.values o = false := (has_eq_false_iff _ _).mpr (h.2 o ho)

theorem holds_has {s : GState} {m : NodeD} (h : Holds sem g s m) {o : Name} (ho : o ∈ m.outputs) :
    AL.has s.values o = true := by
  obtain ⟨args, v, outs, _, _, hw, hv⟩ := h
  obtain ⟨x, hx⟩ := (has_eq_true_iff _ _).mp ((wrapOutputs_has hw o).mpr ho)
  exact (has_eq_true_iff _ _).mpr ⟨x, by rw [hv o ho, hx]⟩

/-- a produced name is present exactly when its producer is a satisfiable node of a finished level -/
theorem present_iff {k : Nat} {s : GState} (hI : Inv sem g values level k s) {m : NodeD} (hm : m ∈ g.nodes)
    {o : Name} (ho : o ∈ m.outputs) :
    AL.has s.values o = true ↔ (level m.name < k ∧ Satisfiable g values m) := by
  constructor
  · intro h
    have hs : Satisfiable g values m := by
      apply Classical.byContradiction; intro hns
      rw [untouched_has_false (hI.unsat m hm hns) ho] at h; cases h
    have hl : level m.name < k := by
      apply Classical.byContradiction; intro hge
      rw [untouched_has_false (hI.notyet m hm (Nat.le_of_not_lt hge)) ho] at h; cases h
    exact ⟨hl, hs⟩
  · rintro ⟨hl, hs⟩
    exact holds_has (hI.done m hm hl hs).2 ho

theorem hasInput_fed (hW : WF g values level) {s : GState} {n m : NodeD} (hn : n ∈ g.nodes) (hm : m ∈ g.nodes)
    {p : Name} (hp : p ∈ n.inputs) (ho : p ∈ m.outputs) :
    hasInput g s n p = AL.has s.values p := by
  obtain ⟨_, h2, h3⟩ := static_false (hW.nf.fed n hn p hp m hm ho)
  unfold hasInput; rw [h2, h3]; simp

theorem hasInput_static {k : Nat} {s : GState} (hI : Inv sem g values level k s)
    {n : NodeD} {p : Name} (hnf : ∀ m ∈ g.nodes, p ∉ m.outputs) :
    hasInput g s n p = static g values n p := by
  unfold hasInput static
  have : AL.has s.values p = AL.has values p := by
    rw [← initState_has values p]; unfold AL.has; rw [hI.static_vals p hnf]
  rw [this]

/-- the ready set at step `k` is exactly the satisfiable nodes of level `k` -/
theorem ready_iff (hW : WF g values level) {k : Nat} {s : GState} (hI : Inv sem g values level k s) (n : NodeD) :
    n ∈ readyL g s ↔ n ∈ g.nodes ∧ level n.name = k ∧ Satisfiable g values n := by
  rw [mem_readyL, readyPred_iff]
  constructor
  · rintro ⟨hn, hall, hne⟩
    have hfed : ∀ m ∈ g.nodes, ∀ p ∈ n.inputs, p ∈ m.outputs → level m.name < k ∧ Satisfiable g values m := by
      intro m hm p hp ho
      have := hall _ hp
      rw [hasInput_fed hW hn hm hp ho] at this
      exact (present_iff hI hm ho).mp this
    have hsat : Satisfiable g values n := by
      refine Satisfiable.mk n hn ?_ ?_
      · intro p hp
        by_cases hf : ∃ m, Producer g p m
        · exact Or.inr hf
        · left
          have hnf : ∀ m ∈ g.nodes, p ∉ m.outputs := fun m hm e => hf ⟨m, hm, e⟩
          rw [← hasInput_static hI hnf]; exact hall p hp
      · intro p hp m hm _
        exact (hfed m hm.1 p hp hm.2).2
    refine ⟨hn, ?_, hsat⟩
    have hge : k ≤ level n.name := by
      apply Classical.byContradiction; intro hlt
      have := (hI.done n hn (Nat.lt_of_not_le hlt) hsat).1
      rw [this] at hne; cases hne
    rcases hW.lv.tight n hn with h0 | ⟨p, hp, m, hm, ho, hl⟩
    · omega
    · have := (hfed m hm p hp ho).1; omega
  · rintro ⟨hn, hl, hsat⟩
    refine ⟨hn, ?_, ?_⟩
    · intro p hp
      cases hsat with
      | mk _ _ hsrc hprod =>
        rcases hsrc p hp with hst | ⟨m, hm, ho⟩
        · by_cases hf : ∃ m, Producer g p m
          · obtain ⟨m, hm, ho⟩ := hf
            have := hW.nf.fed n hn p hp m hm ho
            rw [this] at hst; cases hst
          · have hnf : ∀ m ∈ g.nodes, p ∉ m.outputs := fun m hm e => hf ⟨m, hm, e⟩
            rw [hasInput_static hI hnf]; exact hst
        · rw [hasInput_fed hW hn hm hp ho]
          have hms : Satisfiable g values m := hprod p hp m ⟨hm, ho⟩ (hW.nf.fed n hn p hp m hm ho)
          have hml : level m.name < k := by have := hW.lv.lt n hn p hp m hm ho; omega
          exact (present_iff hI hm ho).mpr ⟨hml, hms⟩
    · unfold needsExec
      rw [(hI.notyet n hn (by omega)).1]

theorem ready_collect (hW : WF g values level) {s : GState} {r : NodeD} (hr : r ∈ readyL g s) :
    (collectInputs g s r r.inputs).isSome = true := by
  obtain ⟨hn, hp⟩ := mem_readyL.mp hr
  have h := (readyPred_iff.mp hp).1
  exact collectInputs_of_all (hW.wd r hn) r.inputs (by simpa [List.all_eq_true] using h)

/-- no input of a function node at an acyclic level is one of its own outputs -/
theorem not_selfProduces (hW : WF g values level) {n : NodeD} (hn : n ∈ g.nodes) {p : Name} (hp : p ∈ n.inputs) :
    p ∉ n.outputs := by
  intro ho
  have := hW.lv.lt n hn p hp n hn ho
  omega

/-- facts about a step from a state satisfying the invariant, shared by the state and the log argument -/
structure StepFacts (sem : Sem) (g : GraphD) (values : AL Val) (level : Name → Nat) (k : Nat) (s : GState) : Prop where
  mem : ∀ r, r ∈ readyL g s ↔ r ∈ g.nodes ∧ level r.name = k ∧ Satisfiable g values r
  coll : ∀ r ∈ readyL g s, collectInputs g s r r.inputs = some ((collectInputs g s r r.inputs).getD [])
  in_ne : ∀ n ∈ g.nodes, level n.name ≤ k → ∀ p ∈ n.inputs, ∀ r ∈ readyL g s, r ∈ g.nodes ∧ p ∉ r.outputs
  keep_ver : ∀ n ∈ g.nodes, level n.name ≤ k → ∀ p ∈ n.inputs,
    ((readyL g s).foldl (execOne sem g s) s).ver p = s.ver p
  keep_coll : ∀ n ∈ g.nodes, level n.name ≤ k →
    collectInputs g ((readyL g s).foldl (execOne sem g s) s) n n.inputs = collectInputs g s n n.inputs

theorem stepFacts (hW : WF g values level) (hs : SemTotal sem g) {k : Nat} {s : GState}
    (hI : Inv sem g values level k s) : StepFacts sem g values level k s := by
  have hrs := ready_iff hW hI
  have hin_ne : ∀ n ∈ g.nodes, level n.name ≤ k → ∀ p ∈ n.inputs, ∀ r ∈ readyL g s,
      r ∈ g.nodes ∧ p ∉ r.outputs := by
    intro n hn hl p hp r hr
    have hrn := (hrs r).mp hr
    refine ⟨hrn.1, fun ho => ?_⟩
    have := hW.lv.lt n hn p hp r hrn.1 ho
    omega
  refine ⟨hrs, ?_, hin_ne, ?_, ?_⟩
  · intro r hr
    have := ready_collect hW hr
    cases hc : collectInputs g s r r.inputs with
    | none => simp [hc] at this
    | some a => simp
  · intro n hn hl p hp
    exact foldl_ver_other hs s p _ s (hin_ne n hn hl p hp)
  · intro n hn hl
    exact collectInputs_congr g s _ n n.inputs
      (fun p hp => foldl_values_other hs s p _ s (hin_ne n hn hl p hp))

/-- the step lemma of C01 -/
theorem inv_step (hW : WF g values level) (hs : SemTotal sem g) {k : Nat} {s : GState}
    (hI : Inv sem g values level k s) :
    Inv sem g values level (k + 1) ((readyL g s).foldl (execOne sem g s) s) := by
  have hF := stepFacts hW hs hI
  have hrs := hF.mem
  let argsOf : NodeD → AL Val := fun r => (collectInputs g s r r.inputs).getD []
  have hall : ∀ r ∈ readyL g s, collectInputs g s r r.inputs = some (argsOf r) := hF.coll
  have hall' : ∀ r ∈ readyL g s,
      r ∈ g.nodes ∧ r.emits.Nodup ∧ collectInputs g s r r.inputs = some (argsOf r) :=
    fun r hr => ⟨((hrs r).mp hr).1, hW.up.emits_nodup ((hrs r).mp hr).1, hall r hr⟩
  have hnames : ((readyL g s).map (·.name)).Nodup := (hW.up.names_nodup).sublist ((readyL_sublist g s).map _)
  have hpw : (readyL g s).Pairwise (fun a b => ∀ o ∈ a.outputs, o ∉ b.outputs) :=
    hW.up.pairwise.sublist (readyL_sublist g s)
  -- a node of g that is not ready shares neither name nor output with a ready node
  have hname_ne : ∀ n ∈ g.nodes, n ∉ readyL g s → ∀ r ∈ readyL g s, r.name ≠ n.name := by
    intro n hn hnr r hr e
    have : r = n := hW.up.name_inj ((hrs r).mp hr).1 hn e
    exact hnr (this ▸ hr)
  have hout_ne : ∀ n ∈ g.nodes, n ∉ readyL g s → ∀ o ∈ n.outputs, ∀ r ∈ readyL g s, r ∈ g.nodes ∧ o ∉ r.outputs := by
    intro n hn hnr o ho r hr
    refine ⟨((hrs r).mp hr).1, fun hor => ?_⟩
    have : r = n := hW.up.unique ⟨((hrs r).mp hr).1, hor⟩ ⟨hn, ho⟩
    exact hnr (this ▸ hr)
  have huntouched : ∀ n ∈ g.nodes, n ∉ readyL g s → Untouched s n →
      Untouched ((readyL g s).foldl (execOne sem g s) s) n := by
    intro n hn hnr hu
    refine ⟨?_, fun o ho => ?_⟩
    · rw [foldl_execs_other s n.name _ s (hname_ne n hn hnr)]; exact hu.1
    · rw [foldl_values_other hs s o _ s (hout_ne n hn hnr o ho)]; exact hu.2 o ho
  refine ⟨?_, ?_, ?_, ?_⟩
  · -- static values
    intro p hnf
    rw [foldl_values_other hs s p _ s (fun r hr => ⟨((hrs r).mp hr).1, hnf r ((hrs r).mp hr).1⟩)]
    exact hI.static_vals p hnf
  · -- done
    intro n hn hl hsat
    have hver := hF.keep_ver n hn (by omega)
    have hcol := hF.keep_coll n hn (by omega)
    by_cases hk : level n.name = k
    · -- executed in this very step
      have hr : n ∈ readyL g s := (hrs n).mpr ⟨hn, hk, hsat⟩
      have hex := foldl_execs_mem (sem := sem) s argsOf _ s n hr hall hnames
      refine ⟨?_, ?_⟩
      · unfold needsExec
        rw [hex]
        simp only [isStale, List.any_eq_false]
        intro p hp
        rw [hver p hp, get?_map_self n.inputs (fun p => s.ver p) p hp]
        simp
      · obtain ⟨v, hv, hw⟩ := outsOf_spec hs hn (argsOf n)
        refine ⟨argsOf n, v, _, ?_, hv, hw, ?_⟩
        · rw [hcol]; exact hall n hr
        · intro o ho
          exact foldl_values_mem hs s argsOf _ s n o hr ho hall' hpw
    · -- finished earlier: nothing it depends on has moved
      have hlt : level n.name < k := by omega
      have hnr : n ∉ readyL g s := fun h => hk ((hrs n).mp h).2.1
      obtain ⟨hne, args, v, outs, hc, hv, hw, hvals⟩ := hI.done n hn hlt hsat
      have hex : AL.get? ((readyL g s).foldl (execOne sem g s) s).execs n.name = AL.get? s.execs n.name :=
        foldl_execs_other s n.name _ s (hname_ne n hn hnr)
      refine ⟨?_, args, v, outs, ?_, hv, hw, ?_⟩
      · rw [needsExec_congr g s _ n hex hver]; exact hne
      · rw [hcol]; exact hc
      · intro o ho
        rw [foldl_values_other hs s o _ s (hout_ne n hn hnr o ho)]; exact hvals o ho
  · -- not yet
    intro n hn hl
    have hnr : n ∉ readyL g s := fun h => by have := ((hrs n).mp h).2.1; omega
    exact huntouched n hn hnr (hI.notyet n hn (by omega))
  · -- unsatisfiable nodes never run
    intro n hn hns
    have hnr : n ∉ readyL g s := fun h => hns ((hrs n).mp h).2.2
    exact huntouched n hn hnr (hI.unsat n hn hns)

end HG.C01
