import HG.Lemmas.DagFrame
/-! # HG.Lemmas.Dag — C01 vocabulary: producers, levels, satisfiable nodes, the level invariant -/
namespace HG.C01

/-- `m` is a node of `g` that writes the name `o` -/
def Producer (g : GraphD) (o : Name) (m : NodeD) : Prop := m ∈ g.nodes ∧ o ∈ m.outputs

/-- node names are distinct and every output name (data or emit) is written by exactly one node, once -/
structure UniqueProducers (g : GraphD) : Prop where
  names_nodup : (g.nodes.map (·.name)).Nodup
  outs_nodup : (g.nodes.flatMap (·.outputs)).Nodup

instance (g : GraphD) : Decidable (UniqueProducers g) :=
  if h : (g.nodes.map (·.name)).Nodup ∧ (g.nodes.flatMap (·.outputs)).Nodup then isTrue ⟨h.1, h.2⟩
  else isFalse fun h' => h ⟨h'.1, h'.2⟩

/-- acyclicity, encoded by a level function: the producer of every edge-fed input sits strictly
lower, and the level is tight (0, or one more than some producer of an input) -/
structure Levelled (g : GraphD) (level : Name → Nat) : Prop where
  lt : ∀ n ∈ g.nodes, ∀ p ∈ n.inputs, ∀ m ∈ g.nodes, p ∈ m.outputs → level m.name < level n.name
  tight : ∀ n ∈ g.nodes, level n.name = 0 ∨
    ∃ p ∈ n.inputs, ∃ m ∈ g.nodes, p ∈ m.outputs ∧ level n.name = level m.name + 1

instance (g : GraphD) (level : Name → Nat) : Decidable (Levelled g level) :=
  if h : (∀ n ∈ g.nodes, ∀ p ∈ n.inputs, ∀ m ∈ g.nodes, p ∈ m.outputs → level m.name < level n.name) ∧
      (∀ n ∈ g.nodes, level n.name = 0 ∨
        ∃ p ∈ n.inputs, ∃ m ∈ g.nodes, p ∈ m.outputs ∧ level n.name = level m.name + 1)
  then isTrue ⟨h.1, h.2⟩ else isFalse fun h' => h ⟨h'.1, h'.2⟩

/-- `p` is available to `n` without any node running: run-time value, bound value or default -/
def static (g : GraphD) (values : AL Val) (n : NodeD) (p : Name) : Bool :=
  AL.has values p || AL.has g.spec.bound p || n.hasDefault.contains p

/-- a parameter fed by some node has no other source, and no run-time value shadows an output -/
structure NoFallbackOnFedParam (g : GraphD) (values : AL Val) : Prop where
  fed : ∀ n ∈ g.nodes, ∀ p ∈ n.inputs, ∀ m ∈ g.nodes, p ∈ m.outputs → static g values n p = false
  fresh : ∀ m ∈ g.nodes, ∀ o ∈ m.outputs, AL.has values o = false

instance (g : GraphD) (values : AL Val) : Decidable (NoFallbackOnFedParam g values) :=
  if h : (∀ n ∈ g.nodes, ∀ p ∈ n.inputs, ∀ m ∈ g.nodes, p ∈ m.outputs → static g values n p = false) ∧
      (∀ m ∈ g.nodes, ∀ o ∈ m.outputs, AL.has values o = false)
  then isTrue ⟨h.1, h.2⟩ else isFalse fun h' => h ⟨h'.1, h'.2⟩

/-- a node all of whose inputs are, recursively, available -/
inductive Satisfiable (g : GraphD) (values : AL Val) : NodeD → Prop
  | mk (n : NodeD) : n ∈ g.nodes →
      (∀ p ∈ n.inputs, static g values n p = true ∨ ∃ m, Producer g p m) →
      (∀ p ∈ n.inputs, ∀ m, Producer g p m → static g values n p = false → Satisfiable g values m) →
      Satisfiable g values n

/-- all structural hypotheses of C01 -/
structure WF (g : GraphD) (values : AL Val) (level : Name → Nat) : Prop where
  fn : AllFn g
  nw : NoWaitFor g
  wd : WellDefaulted g
  up : UniqueProducers g
  lv : Levelled g level
  nf : NoFallbackOnFedParam g values

/-- node `n` holds the result of its function on the arguments it would collect in state `s` -/
def Holds (sem : Sem) (g : GraphD) (s : GState) (n : NodeD) : Prop :=
  ∃ args v outs, collectInputs g s n n.inputs = some args ∧ sem n (toParams n args) = .val v ∧
    wrapOutputs n v = some outs ∧ ∀ o ∈ n.outputs, AL.get? s.values o = AL.get? outs o

/-- nothing of node `n` is in the state -/
def Untouched (s : GState) (n : NodeD) : Prop :=
  AL.get? s.execs n.name = .none ∧ ∀ o ∈ n.outputs, AL.get? s.values o = .none

/-- the specification: dependency-order evaluation, characterised as a fixed point. Names that no node
writes keep their initial (run-time input) value; every satisfiable node holds its function's result on
the arguments it collects in `s'` itself; unsatisfiable nodes have left no trace. By
`evalSpec_unique` this determines the value of every output name. -/
def evalSpec (sem : Sem) (g : GraphD) (values : AL Val) (s' : GState) : Prop :=
  (∀ p, (∀ m ∈ g.nodes, p ∉ m.outputs) → AL.get? s'.values p = AL.get? (initState values).values p) ∧
  (∀ nd ∈ g.nodes, Satisfiable g values nd → Holds sem g s' nd) ∧
  (∀ nd ∈ g.nodes, ¬ Satisfiable g values nd → Untouched s' nd)

/-- state after `k` supersteps -/
structure Inv (sem : Sem) (g : GraphD) (values : AL Val) (level : Name → Nat) (k : Nat) (s : GState) : Prop where
  static_vals : ∀ p, (∀ m ∈ g.nodes, p ∉ m.outputs) → AL.get? s.values p = AL.get? (initState values).values p
  done : ∀ n ∈ g.nodes, level n.name < k → Satisfiable g values n → needsExec g s n = false ∧ Holds sem g s n
  notyet : ∀ n ∈ g.nodes, k ≤ level n.name → Untouched s n
  unsat : ∀ n ∈ g.nodes, ¬ Satisfiable g values n → Untouched s n

/-! ### generic helpers -/
theorem mem_unique_of_nodup_map {α β} (f : α → β) :
    ∀ (l : List α), (l.map f).Nodup → ∀ x ∈ l, ∀ y ∈ l, f x = f y → x = y
  | [], _, x, hx, _, _, _ => by cases hx
  | a :: l, h, x, hx, y, hy, e => by
    simp only [List.map_cons, List.nodup_cons, List.mem_map, not_exists, not_and] at h
    rcases List.mem_cons.mp hx with rfl | hx' <;> rcases List.mem_cons.mp hy with rfl | hy'
    · rfl
    · exact absurd e.symm (h.1 y hy')
    · exact absurd e (h.1 x hx')
    · exact mem_unique_of_nodup_map f l h.2 x hx' y hy' e

theorem nodup_of_nodup_map {α β} (f : α → β) : ∀ (l : List α), (l.map f).Nodup → l.Nodup
  | [], _ => List.nodup_nil
  | a :: l, h => by
    simp only [List.map_cons, List.nodup_cons] at h
    rw [List.nodup_cons]
    exact ⟨fun hm => h.1 (List.mem_map_of_mem hm), nodup_of_nodup_map f l h.2⟩

theorem pairwise_of_nodup_flatMap {α β} (f : α → List β) :
    ∀ (l : List α), (l.flatMap f).Nodup → l.Pairwise (fun a b => ∀ o ∈ f a, o ∉ f b) ∧ ∀ a ∈ l, (f a).Nodup
  | [], _ => ⟨List.Pairwise.nil, fun _ h => by cases h⟩
  | a :: l, h => by
    rw [List.flatMap_cons, List.nodup_append] at h
    obtain ⟨h1, h2, h3⟩ := h
    obtain ⟨ih1, ih2⟩ := pairwise_of_nodup_flatMap f l h2
    refine ⟨List.pairwise_cons.mpr ⟨?_, ih1⟩, ?_⟩
    · intro b hb o ho hob
      exact h3 o ho o (List.mem_flatMap.mpr ⟨b, hb, hob⟩) rfl
    · intro x hx
      rcases List.mem_cons.mp hx with rfl | hx'
      · exact h1
      · exact ih2 x hx'

theorem unique_of_pairwise_disjoint {α β} (f : α → List β) :
    ∀ (l : List α), l.Pairwise (fun a b => ∀ o ∈ f a, o ∉ f b) →
      ∀ x ∈ l, ∀ y ∈ l, ∀ o, o ∈ f x → o ∈ f y → x = y
  | [], _, x, hx, _, _, _, _, _ => by cases hx
  | a :: l, h, x, hx, y, hy, o, hox, hoy => by
    rw [List.pairwise_cons] at h
    rcases List.mem_cons.mp hx with rfl | hx' <;> rcases List.mem_cons.mp hy with rfl | hy'
    · rfl
    · exact absurd hoy (h.1 y hy' o hox)
    · exact absurd hox (h.1 x hx' o hoy)
    · exact unique_of_pairwise_disjoint f l h.2 x hx' y hy' o hox hoy

theorem any_congr_mem {α} (l : List α) (f g : α → Bool) (h : ∀ a ∈ l, f a = g a) : l.any f = l.any g := by
  induction l with
  | nil => rfl
  | cons a t ih =>
    simp only [List.any_cons]
    rw [h a (List.mem_cons_self ..), ih (fun b hb => h b (List.mem_cons_of_mem _ hb))]

/-! ### consequences of `UniqueProducers` -/
section up
variable {g : GraphD}

theorem UniqueProducers.pairwise (h : UniqueProducers g) :
    g.nodes.Pairwise (fun a b => ∀ o ∈ a.outputs, o ∉ b.outputs) :=
  (pairwise_of_nodup_flatMap (·.outputs) g.nodes h.outs_nodup).1

theorem UniqueProducers.outputs_nodup (h : UniqueProducers g) {n : NodeD} (hn : n ∈ g.nodes) : n.outputs.Nodup :=
  (pairwise_of_nodup_flatMap (·.outputs) g.nodes h.outs_nodup).2 n hn

theorem UniqueProducers.emits_nodup (h : UniqueProducers g) {n : NodeD} (hn : n ∈ g.nodes) : n.emits.Nodup := by
  have := h.outputs_nodup hn
  unfold NodeD.outputs at this
  exact (List.nodup_append.mp this).2.1

theorem UniqueProducers.dataOuts_nodup (h : UniqueProducers g) {n : NodeD} (hn : n ∈ g.nodes) : n.dataOuts.Nodup := by
  have := h.outputs_nodup hn
  unfold NodeD.outputs at this
  exact (List.nodup_append.mp this).1

/-- each output name has exactly one producing node -/
theorem UniqueProducers.unique (h : UniqueProducers g) {o : Name} {m m' : NodeD}
    (hm : Producer g o m) (hm' : Producer g o m') : m = m' :=
  unique_of_pairwise_disjoint (·.outputs) g.nodes h.pairwise m hm.1 m' hm'.1 o hm.2 hm'.2

theorem UniqueProducers.name_inj (h : UniqueProducers g) {m m' : NodeD} (hm : m ∈ g.nodes) (hm' : m' ∈ g.nodes)
    (e : m.name = m'.name) : m = m' :=
  mem_unique_of_nodup_map (·.name) g.nodes h.names_nodup m hm m' hm' e

theorem UniqueProducers.nodes_nodup (h : UniqueProducers g) : g.nodes.Nodup :=
  nodup_of_nodup_map (·.name) g.nodes h.names_nodup
end up

/-- `needsExec` reads the node's own record and the versions of its inputs only -/
theorem needsExec_congr (g : GraphD) (s s' : GState) (nd : NodeD)
    (he : AL.get? s'.execs nd.name = AL.get? s.execs nd.name)
    (hv : ∀ p ∈ nd.inputs, s'.ver p = s.ver p) : needsExec g s' nd = needsExec g s nd := by
  unfold needsExec
  rw [he]
  cases AL.get? s.execs nd.name with
  | none => rfl
  | some e =>
    simp only [isStale]
    exact any_congr_mem _ _ _ (fun p hp => by rw [hv p hp])

end HG.C01
