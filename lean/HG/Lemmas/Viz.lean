import HG.Model.Viz
/-! # HG.Lemmas.Viz — helper lemmas for C20 (diagram validator)

* checker clauses ↔ specification clauses (`check*_iff`), the memo table (`standFast_eq`);
* `validStates` enumerates exactly the valid expansion states (`mem_validStates_iff`, `validStates_nodup`);
* ancestor walks with fuel (`ancFuel_*`, `anc_tail`), `rep_props`;
* flattening (`flatten_*`): length, parent links, id shape, distinct ids. -/
namespace HG.Viz

/-! ## checker ↔ specification -/

theorem hasEdge_iff (d : Diagram) (s t : String) : hasEdge d s t = true ↔ HasEdge d s t := by
  simp [hasEdge, HasEdge, List.any_eq_true]

theorem linked_iff (d : Diagram) (sep : Bool) (s t : String) :
    linked d sep s t = true ↔ Linked d sep s t := by
  simp [linked, Linked, List.any_eq_true, hasEdge_iff, and_assoc]

theorem lookup_map_self (g : String → List String) (ids : List String) (id : String) (l : List String)
    (h : (ids.map fun i => (i, g i)).lookup id = some l) : l = g id := by
  induction ids with
  | nil => simp at h
  | cons a t ih =>
    simp only [List.map_cons, List.lookup_cons] at h
    by_cases ha : id == a
    · simp [ha] at h
      have : id = a := by simpa using ha
      subst this; exact h.symm
    · simp [ha] at h
      exact ih h

theorem standFast_eq (f : Flat) (st : Expansion) :
    standFast f st (standTable f st) = stand f st := by
  funext id
  unfold standFast
  split
  · rename_i l h
    have : standTable f st = (f.nodes.map (·.id)).map fun i => (i, stand f st i) := by
      simp [standTable, List.map_map, Function.comp_def]
    rw [this] at h
    exact lookup_map_self _ _ _ _ h
  · rfl

theorem checkS1a_iff (d : Diagram) : checkS1a d = true ↔ S1a d := by
  simp [checkS1a, S1a, declared, List.all_eq_true, List.any_eq_true]

theorem isInputKind_iff (k : String) : isInputKind k = true ↔ k = "INPUT" ∨ k = "INPUT_GROUP" := by
  simp [isInputKind]

theorem checkS1b_iff (d : Diagram) : checkS1b d = true ↔ S1b d := by
  simp only [checkS1b, S1b, List.all_eq_true, Bool.or_eq_true, isInputKind_iff,
    Bool.not_eq_eq_eq_not, Bool.not_true]
  constructor
  · intro h e he m hm hid hh
    rcases h e he m hm with (h1 | h1) | h1
    · rcases hid with hid | hid <;> simp [hid] at h1
    · simp [hh] at h1
    · exact h1
  · intro h e he m hm
    by_cases hid : m.id = e.source ∨ m.id = e.target
    · by_cases hh : m.hidden = true
      · exact Or.inr (h e he m hm hid hh)
      · exact Or.inl (Or.inr (by simpa using hh))
    · refine Or.inl (Or.inl ?_)
      simp only [not_or] at hid
      simp [hid.1, hid.2]

theorem checkS1c_iff (d : Diagram) : checkS1c d = true ↔ S1c d := by
  simp [checkS1c, S1c]

theorem checkS1d_iff (f : Flat) (st : Expansion) (d : Diagram) :
    checkS1d f st d (deps f) = true ↔ S1d f st d := by
  simp only [checkS1d, S1d, Bool.or_eq_true, Bool.not_eq_true', List.any_eq_false,
    List.isEmpty_eq_false_iff]
  constructor
  · rintro (h | h) ⟨dep, hd, hc⟩
    · exact absurd hc (h dep hd)
    · exact h
  · intro h
    by_cases hx : ∃ dep ∈ deps f, crossing f st dep = true
    · exact Or.inr (h hx)
    · refine Or.inl fun dep hd hc => hx ⟨dep, hd, hc⟩

theorem checkS2a_iff (f : Flat) (st : Expansion) (d : Diagram) :
    checkS2a f st d = true ↔ S2a f st d := by
  simp only [checkS2a, S2a, List.all_eq_true, Bool.or_eq_true, Bool.not_eq_true', Bool.and_eq_true,
    beq_iff_eq, bne_iff_ne, ne_eq]
  constructor
  · intro h n hn hv
    rcases h n hn with h1 | ⟨h1, h2⟩
    · simp [hv] at h1
    · refine ⟨h1, fun m hm hid => ?_⟩
      rcases h2 m hm with h3 | h3
      · exact absurd hid h3
      · exact h3
  · intro h n hn
    by_cases hv : visible f st n.id = true
    · obtain ⟨h1, h2⟩ := h n hn hv
      refine Or.inr ⟨h1, fun m hm => ?_⟩
      by_cases hid : m.id = n.id
      · exact Or.inr (h2 m hm hid)
      · exact Or.inl hid
    · exact Or.inl (by simpa using hv)

theorem checkS2b_iff (f : Flat) (st : Expansion) (d : Diagram) :
    checkS2b f st d = true ↔ S2b f st d := by
  simp only [checkS2b, S2b, List.all_eq_true, Bool.or_eq_true, bne_iff_ne, ne_eq]
  constructor
  · intro h n hn hv m hm hid
    rcases h n hn with h1 | h1
    · simp [hv] at h1
    · rcases h1 m hm with h3 | h3
      · exact absurd hid h3
      · exact h3
  · intro h n hn
    by_cases hv : visible f st n.id = true
    · exact Or.inl hv
    · refine Or.inr fun m hm => ?_
      by_cases hid : m.id = n.id
      · exact Or.inr (h n hn (by simpa using hv) m hm hid)
      · exact Or.inl hid

theorem checkS2c_iff (f : Flat) (d : Diagram) : checkS2c f d = true ↔ S2c f d := by
  simp only [checkS2c, S2c, List.all_eq_true, Bool.or_eq_true, List.any_eq_true, beq_iff_eq]
  constructor
  · intro h m hm hh ha
    rcases h m hm with (h1 | h1) | h1
    · simp [hh] at h1
    · simp [ha] at h1
    · exact h1
  · intro h m hm
    by_cases hh : m.hidden = true
    · exact Or.inl (Or.inl hh)
    · by_cases ha : isAuxKind m.kind = true
      · exact Or.inl (Or.inr ha)
      · exact Or.inr (h m hm (by simpa using hh) (by simpa using ha))

theorem depDrawn_iff (f : Flat) (st : Expansion) (sep : Bool) (d : Diagram) (dep : Dep) :
    depDrawn d sep (stand f st) dep = true ↔
      ∃ s ∈ stand f st dep.producer, ∃ t ∈ stand f st dep.consumer, s ≠ t ∧ Linked d sep s t := by
  simp [depDrawn, List.any_eq_true, linked_iff]

theorem checkF1_iff (f : Flat) (st : Expansion) (sep : Bool) (d : Diagram) :
    checkF1 f st sep d (deps f) (stand f st) = true ↔ F1 f st sep d := by
  simp only [checkF1, F1, List.all_eq_true, Bool.or_eq_true, Bool.not_eq_true', depDrawn_iff]
  constructor
  · intro h dep hd hc
    rcases h dep hd with h1 | h1
    · simp [hc] at h1
    · exact h1
  · intro h dep hd
    by_cases hc : crossing f st dep = true
    · exact Or.inr (h dep hd hc)
    · exact Or.inl (by simpa using hc)

theorem edgeOK_iff (f : Flat) (st : Expansion) (ms mt : DNode) :
    edgeOK (deps f) (stand f st) ms mt = true ↔ EdgeOK f st ms mt := by
  unfold edgeOK EdgeOK
  by_cases hD : mt.kind = "DATA"
  · simp [hD, isInputKind_iff, or_assoc]
  · simp [hD, isInputKind_iff, or_assoc, covers, List.any_eq_true]

theorem checkF2_iff (f : Flat) (st : Expansion) (d : Diagram) :
    checkF2 d (deps f) (stand f st) = true ↔ F2 f st d := by
  simp only [checkF2, F2, List.all_eq_true, Bool.or_eq_true, bne_iff_ne, ne_eq, edgeOK_iff]
  constructor
  · intro h e he ms hms mt hmt h1 h2
    rcases h e he ms hms with h3 | h3
    · exact absurd h1 h3
    · rcases h3 mt hmt with h4 | h4
      · exact absurd h2 h4
      · exact h4
  · intro h e he ms hms
    by_cases h1 : ms.id = e.source
    · refine Or.inr fun mt hmt => ?_
      by_cases h2 : mt.id = e.target
      · exact Or.inr (h e he ms hms mt hmt h1 h2)
      · exact Or.inl h2
    · exact Or.inl h1

theorem section_nil (ok : Bool) (tag : String) (items : Unit → List String) :
    section_ ok tag items = [] ↔ ok = true := by
  cases ok <;> simp [section_]

/-! ## valid expansion states -/

theorem mem_dedup {a : String} {l : List String} : a ∈ dedup l ↔ a ∈ l := by
  induction l with
  | nil => simp [dedup]
  | cons b t ih =>
    simp only [dedup, List.mem_cons, List.mem_filter, ih, bne_iff_ne, ne_eq]
    constructor
    · rintro (h | ⟨h, _⟩)
      · exact Or.inl h
      · exact Or.inr h
    · intro h
      by_cases hab : a = b
      · exact Or.inl hab
      · rcases h with h | h
        · exact absurd h hab
        · exact Or.inr ⟨h, hab⟩

theorem nodup_dedup (l : List String) : (dedup l).Nodup := by
  induction l with
  | nil => simp [dedup]
  | cons b t ih =>
    simp only [dedup, List.nodup_cons, List.mem_filter, bne_self_eq_false, Bool.false_eq_true,
      and_false, not_false_eq_true, true_and]
    exact ih.sublist List.filter_sublist

theorem containers_nodup (f : Flat) : (containers f).Nodup := nodup_dedup _

theorem keys_of_mem_genStates (f : Flat) {cs : List String} {st : Expansion}
    (h : st ∈ genStates f cs) : AL.keys st = cs := by
  induction cs generalizing st with
  | nil => simp [genStates] at h; subst h; rfl
  | cons c cs ih =>
    simp only [genStates, List.mem_append, List.mem_map, List.mem_filter] at h
    rcases h with ⟨st', ⟨h1, _⟩, rfl⟩ | ⟨st', h1, rfl⟩
    · simp [AL.keys] at *; exact ih h1
    · simp [AL.keys] at *; exact ih h1

theorem genStates_nodup (f : Flat) (cs : List String) : (genStates f cs).Nodup := by
  induction cs with
  | nil => simp [genStates]
  | cons c cs ih =>
    simp only [genStates]
    rw [List.nodup_append]
    refine ⟨?_, ?_, ?_⟩
    · exact List.Pairwise.map _ (fun a b hab h => hab (by simpa using h))
        (ih.sublist List.filter_sublist)
    · exact List.Pairwise.map _ (fun a b hab h => hab (by simpa using h)) ih
    · intro a ha b hb hab
      simp only [List.mem_map] at ha hb
      obtain ⟨_, _, rfl⟩ := ha
      obtain ⟨_, _, rfl⟩ := hb
      simp at hab

/-- no collapsed container has an expanded child container (as pairs of the state) -/
def NoOrphan (f : Flat) (st : Expansion) : Prop :=
  ∀ c k, (c, false) ∈ st → (k, true) ∈ st → parentContainer f k ≠ some c

theorem mem_genStates_of (f : Flat) {cs : List String} {st : Expansion}
    (hk : AL.keys st = cs) (hq : NoOrphan f st) : st ∈ genStates f cs := by
  induction cs generalizing st with
  | nil =>
    cases st with
    | nil => simp [genStates]
    | cons a t => simp [AL.keys] at hk
  | cons c cs ih =>
    cases st with
    | nil => simp [AL.keys] at hk
    | cons a st' =>
      obtain ⟨k, b⟩ := a
      simp only [AL.keys, List.map_cons, List.cons.injEq] at hk
      obtain ⟨rfl, hk'⟩ := hk
      have hq' : NoOrphan f st' := fun c' k' h1 h2 =>
        hq c' k' (List.mem_cons_of_mem _ h1) (List.mem_cons_of_mem _ h2)
      have hin := ih (st := st') hk' hq'
      simp only [genStates, List.mem_append, List.mem_map, List.mem_filter]
      cases b with
      | true => exact Or.inr ⟨st', hin, rfl⟩
      | false =>
        refine Or.inl ⟨st', ⟨hin, ?_⟩, rfl⟩
        simp only [childExpanded, Bool.not_eq_true', List.any_eq_false, Bool.and_eq_true,
          beq_iff_eq, not_and]
        intro kb hkb hb hpc
        obtain ⟨k', b'⟩ := kb
        simp only at hb hpc
        subst hb
        exact hq k k' (List.mem_cons_self) (List.mem_cons_of_mem _ hkb) hpc

theorem get?_of_mem_nodup {st : Expansion} (hn : (AL.keys st).Nodup) {k : String} {b : Bool}
    (h : (k, b) ∈ st) : AL.get? st k = some b := by
  induction st with
  | nil => simp at h
  | cons a t ih =>
    obtain ⟨k', b'⟩ := a
    simp only [AL.keys, List.map_cons, List.nodup_cons] at hn
    rcases List.mem_cons.1 h with h' | h'
    · cases h'; simp [AL.get?]
    · have hk : k ≠ k' := by
        intro hkk; subst hkk
        exact hn.1 (List.mem_map.2 ⟨(k, b), h', rfl⟩)
      simp [AL.get?, hk]
      exact ih hn.2 h'

theorem noOrphan_of_valid (f : Flat) {st : Expansion} (hv : validState f st = true)
    (hk : AL.keys st = containers f) : NoOrphan f st := by
  intro c k hc hkt hpc
  have hn : (AL.keys st).Nodup := hk ▸ containers_nodup f
  have h1 := get?_of_mem_nodup hn hc
  have h2 := get?_of_mem_nodup hn hkt
  have hkc : k ∈ containers f := by
    rw [← hk]; exact List.mem_map.2 ⟨(k, true), hkt, rfl⟩
  simp only [validState, List.all_eq_true] at hv
  have := hv k hkc
  simp [h2, hpc, h1] at this

theorem mem_validStates_iff (f : Flat) (st : Expansion) :
    st ∈ validStates f ↔ validState f st = true ∧ AL.keys st = containers f := by
  simp only [validStates, List.mem_filter]
  constructor
  · rintro ⟨h1, h2⟩
    exact ⟨h2, keys_of_mem_genStates f h1⟩
  · rintro ⟨h1, h2⟩
    exact ⟨mem_genStates_of f h2 (noOrphan_of_valid f h1 h2), h1⟩

theorem validStates_nodup (f : Flat) : (validStates f).Nodup :=
  (genStates_nodup f _).sublist List.filter_sublist

/-! ## ancestors and representatives -/

/-- the ancestor walk from `id` reaches a root within the fuel (one more step adds nothing) -/
def Rooted (f : Flat) (id : String) : Prop := anc f id = ancFuel f (f.nodes.length + 1) id

theorem ancFuel_length_le (f : Flat) (k : Nat) (id : String) : (ancFuel f k id).length ≤ k := by
  induction k generalizing id with
  | zero => simp [ancFuel]
  | succ k ih =>
    simp only [ancFuel]
    split
    · simp
    · simp; exact ih _

theorem ancFuel_suffix (f : Flat) (k : Nat) (id : String) (pre : List String) (b : String)
    (suf : List String) (h : ancFuel f k id = pre ++ b :: suf) :
    ancFuel f (k - pre.length - 1) b = suf := by
  induction k generalizing id pre with
  | zero => simp [ancFuel] at h
  | succ k ih =>
    simp only [ancFuel] at h
    split at h
    · simp at h
    · rename_i p hp
      cases pre with
      | nil =>
        simp only [List.nil_append, List.cons.injEq] at h
        obtain ⟨rfl, h⟩ := h
        simpa using h
      | cons x pre' =>
        simp only [List.cons_append, List.cons.injEq] at h
        obtain ⟨rfl, h⟩ := h
        have := ih _ _ h
        simpa [Nat.add_sub_add_right] using this

theorem ancFuel_stable (f : Flat) (k : Nat) (id : String)
    (h : ancFuel f k id = ancFuel f (k + 1) id) (k' : Nat) (hk : k ≤ k') :
    ancFuel f k' id = ancFuel f k id := by
  induction k generalizing id k' with
  | zero =>
    simp only [ancFuel] at h
    cases hp : parentOf f id with
    | none => cases k' <;> simp [ancFuel, hp]
    | some p => simp [hp] at h
  | succ k ih =>
    obtain ⟨k'', rfl⟩ : ∃ k'', k' = k'' + 1 := ⟨k' - 1, by omega⟩
    cases hp : parentOf f id with
    | none => simp [ancFuel, hp]
    | some p =>
      have h' : ancFuel f k p = ancFuel f (k + 1) p := by
        have := h
        rw [ancFuel, ancFuel] at this
        simp only [hp, List.cons.injEq, true_and] at this
        exact this
      simp only [ancFuel, hp, List.cons.injEq, true_and]
      exact ih p h' k'' (by omega)

/-- in a rooted walk the ancestors of an ancestor are the rest of the walk -/
theorem anc_tail (f : Flat) (id : String) (hr : Rooted f id) (pre : List String) (b : String)
    (suf : List String) (h : anc f id = pre ++ b :: suf) : anc f b = suf ∧ Rooted f b := by
  have hlen : pre.length + 1 + suf.length ≤ f.nodes.length := by
    have := ancFuel_length_le f f.nodes.length id
    unfold anc at h; rw [h] at this; simp at this; omega
  have h1 := ancFuel_suffix f _ id pre b suf h
  have h2 : ancFuel f (f.nodes.length + 1) id = pre ++ b :: suf := by rw [← hr]; exact h
  have h2 := ancFuel_suffix f _ id pre b suf h2
  have hj : f.nodes.length + 1 - pre.length - 1 = (f.nodes.length - pre.length - 1) + 1 := by omega
  rw [hj] at h2
  have hst := ancFuel_stable f _ b (h1.trans h2.symm)
  refine ⟨?_, ?_⟩
  · unfold anc; rw [hst _ (by omega), h1]
  · unfold Rooted anc; rw [hst f.nodes.length (by omega), hst (f.nodes.length + 1) (by omega)]

/-- the same for the walk including its start -/
theorem chain_tail (f : Flat) (id : String) (hr : Rooted f id) (pre : List String) (b : String)
    (suf : List String) (h : id :: anc f id = pre ++ b :: suf) : anc f b = suf ∧ Rooted f b := by
  cases pre with
  | nil =>
    simp only [List.nil_append, List.cons.injEq] at h
    obtain ⟨rfl, h⟩ := h
    exact ⟨h, hr⟩
  | cons x pre' =>
    simp only [List.cons_append, List.cons.injEq] at h
    exact anc_tail f id hr pre' b suf h.2

theorem rep_props (f : Flat) (st : Expansion) (id : String) (hr : Rooted f id)
    (hl : ∀ a ∈ id :: anc f id, ∃ n, f.find? a = some n ∧ n.hidden = false) :
    rep f st id ≠ [] ∧
    (∀ a ∈ rep f st id, visible f st a = true) ∧
    (∀ a ∈ rep f st id, a = id ∨ a ∈ anc f id) ∧
    (∀ a ∈ rep f st id, ∀ b ∈ anc f a, b ∈ rep f st id) := by
  refine ⟨?_, ?_, ?_, ?_⟩
  · -- the root of the walk is visible
    have hne : id :: anc f id ≠ [] := by simp
    obtain ⟨pre, hpre⟩ : ∃ pre, id :: anc f id = pre ++ [(id :: anc f id).getLast hne] :=
      ⟨_, (List.dropLast_concat_getLast hne).symm⟩
    have hmem : (id :: anc f id).getLast hne ∈ id :: anc f id := List.getLast_mem hne
    obtain ⟨n, hn, hh⟩ := hl _ hmem
    have ha := (chain_tail f id hr pre _ [] hpre).1
    have hv : visible f st ((id :: anc f id).getLast hne) = true := by
      simp [visible, hn, hh, ha]
    intro he
    have : (id :: anc f id).getLast hne ∈ rep f st id := List.mem_filter.2 ⟨hmem, hv⟩
    rw [he] at this; simp at this
  · intro a ha; exact (List.mem_filter.1 ha).2
  · intro a ha; simpa using (List.mem_filter.1 ha).1
  · intro a ha b hb
    obtain ⟨hac, hav⟩ := List.mem_filter.1 ha
    obtain ⟨pre, suf, hsplit⟩ := List.append_of_mem hac
    obtain ⟨hanc, hra⟩ := chain_tail f id hr pre a suf hsplit
    have hbc : b ∈ id :: anc f id := by
      rw [hsplit]; rw [hanc] at hb
      exact List.mem_append_right _ (List.mem_cons_of_mem _ hb)
    obtain ⟨pre2, suf2, hsplit2⟩ := List.append_of_mem hb
    obtain ⟨hancb, _⟩ := anc_tail f a hra pre2 b suf2 hsplit2
    obtain ⟨n, hn, hh⟩ := hl b hbc
    refine List.mem_filter.2 ⟨hbc, ?_⟩
    simp only [visible] at hav ⊢
    split at hav
    · simp at hav
    · simp only [Bool.and_eq_true, List.all_eq_true] at hav
      simp only [hn, hh, Bool.not_false, Bool.true_and, List.all_eq_true, hancb]
      intro x hx
      apply hav.2
      rw [hsplit2]; exact List.mem_append_right _ (List.mem_cons_of_mem _ hx)

/-! ## flattening -/

def Forest.size : Forest → Nat
  | .nil => 0
  | .leaf _ _ _ _ _ _ _ rest => 1 + rest.size
  | .container _ _ _ _ ch rest => 1 + ch.size + rest.size

/-- names of the nodes of the outermost scope -/
def Forest.names : Forest → List String
  | .nil => []
  | .leaf nm _ _ _ _ _ _ rest => nm :: rest.names
  | .container nm _ _ _ _ rest => nm :: rest.names

/-- names are unique per scope and contain no `/`, at every depth -/
def Forest.NamesOK : Forest → Prop
  | .nil => True
  | .leaf nm _ _ _ _ _ _ rest => '/' ∉ nm.toList ∧ nm ∉ rest.names ∧ rest.NamesOK
  | .container nm _ _ _ ch rest => '/' ∉ nm.toList ∧ nm ∉ rest.names ∧ ch.NamesOK ∧ rest.NamesOK

instance Forest.decNamesOK : (F : Forest) → Decidable F.NamesOK
  | .nil => isTrue trivial
  | .leaf nm _ _ _ _ _ _ rest =>
    have := Forest.decNamesOK rest
    (inferInstance : Decidable ('/' ∉ nm.toList ∧ nm ∉ rest.names ∧ rest.NamesOK))
  | .container nm _ _ _ ch rest =>
    have := Forest.decNamesOK ch
    have := Forest.decNamesOK rest
    (inferInstance : Decidable ('/' ∉ nm.toList ∧ nm ∉ rest.names ∧ ch.NamesOK ∧ rest.NamesOK))

/-- `x` names a node of scope `Q` (the id of its parent container) in the forest `F` placed under `P` -/
inductive Forest.At : Forest → Option String → String → Option String → Prop
  | leafHere {nm k i o w t h rest P} : At (.leaf nm k i o w t h rest) P nm P
  | contHere {nm i o h ch rest P} : At (.container nm i o h ch rest) P nm P
  | leafRest {nm k i o w t h rest P x Q} : At rest P x Q → At (.leaf nm k i o w t h rest) P x Q
  | contRest {nm i o h ch rest P x Q} : At rest P x Q → At (.container nm i o h ch rest) P x Q
  | contIn {nm i o h ch rest P x Q} : At ch (some (mkId P nm)) x Q →
      At (.container nm i o h ch rest) P x Q

theorem flattenForest_length (P : Option String) (F : Forest) :
    (flattenForest P F).length = F.size := by
  induction F generalizing P with
  | nil => rfl
  | leaf nm k i o w t h rest ih => simp [flattenForest, Forest.size, ih]; omega
  | container nm i o h ch rest ihc ihr => simp [flattenForest, Forest.size, ihc, ihr]; omega

theorem at_listed {F : Forest} {P : Option String} {x : String} {Q : Option String}
    (h : F.At P x Q) : ∃ n ∈ flattenForest P F, n.id = mkId Q x ∧ n.parent = Q := by
  induction h with
  | leafHere => exact ⟨_, List.mem_cons_self, rfl, rfl⟩
  | contHere => exact ⟨_, List.mem_cons_self, rfl, rfl⟩
  | leafRest _ ih =>
    obtain ⟨n, hn, h1⟩ := ih
    exact ⟨n, List.mem_cons_of_mem _ hn, h1⟩
  | contRest _ ih =>
    obtain ⟨n, hn, h1⟩ := ih
    exact ⟨n, List.mem_cons_of_mem _ (List.mem_append_right _ hn), h1⟩
  | contIn _ ih =>
    obtain ⟨n, hn, h1⟩ := ih
    exact ⟨n, List.mem_cons_of_mem _ (List.mem_append_left _ hn), h1⟩

/-- parent links point to the scope root or to a listed container -/
theorem flatten_parent_listed (P : Option String) (F : Forest) :
    ∀ n ∈ flattenForest P F, n.parent = P ∨
      ∃ c ∈ flattenForest P F, c.kind = "GRAPH" ∧ n.parent = some c.id := by
  induction F generalizing P with
  | nil => simp [flattenForest]
  | leaf nm k i o w t h rest ih =>
    intro n hn
    simp only [flattenForest, List.mem_cons] at hn
    rcases hn with rfl | hn
    · exact Or.inl rfl
    · rcases ih P n hn with h1 | ⟨c, hc, h1⟩
      · exact Or.inl h1
      · exact Or.inr ⟨c, List.mem_cons_of_mem _ hc, h1⟩
  | container nm i o h ch rest ihc ihr =>
    intro n hn
    simp only [flattenForest, List.mem_cons, List.mem_append] at hn
    rcases hn with rfl | hn | hn
    · exact Or.inl rfl
    · rcases ihc _ n hn with h1 | ⟨c, hc, h1⟩
      · exact Or.inr ⟨_, List.mem_cons_self, rfl, h1⟩
      · exact Or.inr ⟨c, List.mem_cons_of_mem _ (List.mem_append_left _ hc), h1⟩
    · rcases ihr P n hn with h1 | ⟨c, hc, h1⟩
      · exact Or.inl h1
      · exact Or.inr ⟨c, List.mem_cons_of_mem _ (List.mem_append_right _ hc), h1⟩

/-- every listed id is `parent/name` (bare `name` at the root) for the node's own parent link -/
theorem flatten_id_shape (P : Option String) (F : Forest) :
    ∀ n ∈ flattenForest P F, ∃ nm, n.id = mkId n.parent nm := by
  induction F generalizing P with
  | nil => simp [flattenForest]
  | leaf nm k i o w t h rest ih =>
    intro n hn
    simp only [flattenForest, List.mem_cons] at hn
    rcases hn with rfl | hn
    · exact ⟨nm, rfl⟩
    · exact ih P n hn
  | container nm i o h ch rest ihc ihr =>
    intro n hn
    simp only [flattenForest, List.mem_cons, List.mem_append] at hn
    rcases hn with rfl | hn | hn
    · exact ⟨nm, rfl⟩
    · exact ihc _ n hn
    · exact ihr P n hn

/-! ### distinct ids -/

def idPre : Option String → List Char
  | none => []
  | some p => p.toList ++ ['/']

theorem mkId_toList (P : Option String) (nm : String) :
    (mkId P nm).toList = idPre P ++ nm.toList := by
  cases P with
  | none => simp [mkId, idPre]
  | some p =>
    have : "/".toList = ['/'] := by decide
    simp [mkId, idPre, String.toList_append, this]

def TailOK (t : List Char) : Prop := t = [] ∨ ∃ y, t = '/' :: y

theorem slash_split {a b t1 t2 : List Char} (ha : '/' ∉ a) (hb : '/' ∉ b) (h1 : TailOK t1)
    (h2 : TailOK t2) (h : a ++ t1 = b ++ t2) : a = b := by
  induction a generalizing b with
  | nil =>
    cases b with
    | nil => rfl
    | cons c b' =>
      rcases h1 with rfl | ⟨y, rfl⟩
      · simp at h
      · simp at h; simp [← h.1] at hb
  | cons x a' ih =>
    cases b with
    | nil =>
      rcases h2 with rfl | ⟨y, rfl⟩
      · simp at h
      · simp at h; simp [h.1] at ha
    | cons c b' =>
      simp only [List.cons_append, List.cons.injEq] at h
      simp only [List.mem_cons, not_or] at ha hb
      rw [h.1, ih ha.2 hb.2 h.2]

theorem names_noslash {F : Forest} (h : F.NamesOK) : ∀ nm ∈ F.names, '/' ∉ nm.toList := by
  induction F with
  | nil => simp [Forest.names]
  | leaf nm k i o w t hh rest ih =>
    intro x hx
    simp only [Forest.names, List.mem_cons] at hx
    rcases hx with rfl | hx
    · exact h.1
    · exact ih h.2.2 x hx
  | container nm i o hh ch rest _ ihr =>
    intro x hx
    simp only [Forest.names, List.mem_cons] at hx
    rcases hx with rfl | hx
    · exact h.1
    · exact ihr h.2.2.2 x hx

/-- every id listed below scope `P` starts with `P/` followed by a name of the outermost scope and
then ends or continues with `/` -/
theorem flatten_shape (P : Option String) (F : Forest) :
    ∀ n ∈ flattenForest P F, ∃ nm ∈ F.names, ∃ tl,
      n.id.toList = idPre P ++ nm.toList ++ tl ∧ TailOK tl := by
  induction F generalizing P with
  | nil => simp [flattenForest]
  | leaf nm k i o w t h rest ih =>
    intro n hn
    simp only [flattenForest, List.mem_cons] at hn
    rcases hn with rfl | hn
    · exact ⟨nm, by simp [Forest.names], [], by simp [mkId_toList], Or.inl rfl⟩
    · obtain ⟨x, hx, tl, h1, h2⟩ := ih P n hn
      exact ⟨x, by simp [Forest.names, hx], tl, h1, h2⟩
  | container nm i o h ch rest ihc ihr =>
    intro n hn
    simp only [flattenForest, List.mem_cons, List.mem_append] at hn
    rcases hn with rfl | hn | hn
    · exact ⟨nm, by simp [Forest.names], [], by simp [mkId_toList], Or.inl rfl⟩
    · obtain ⟨x, _, tl, h1, _⟩ := ihc _ n hn
      refine ⟨nm, by simp [Forest.names], '/' :: (x.toList ++ tl), ?_, Or.inr ⟨_, rfl⟩⟩
      rw [h1]; simp [idPre, mkId_toList]
    · obtain ⟨x, hx, tl, h1, h2⟩ := ihr P n hn
      exact ⟨x, by simp [Forest.names, hx], tl, h1, h2⟩

theorem shape_ne {pre a b t1 t2 : List Char} (ha : '/' ∉ a) (hb : '/' ∉ b) (h1 : TailOK t1)
    (h2 : TailOK t2) (hab : a ≠ b) : pre ++ a ++ t1 ≠ pre ++ b ++ t2 := by
  intro h
  rw [List.append_assoc, List.append_assoc] at h
  exact hab (slash_split ha hb h1 h2 (List.append_cancel_left h))

theorem flatten_ids_nodup (P : Option String) (F : Forest) (hok : F.NamesOK) :
    ((flattenForest P F).map (·.id)).Nodup := by
  induction F generalizing P with
  | nil => simp [flattenForest]
  | leaf nm k i o w t h rest ih =>
    simp only [flattenForest, List.map_cons, List.nodup_cons, List.mem_map, not_exists, not_and]
    refine ⟨?_, ih P hok.2.2⟩
    intro n hn hid
    obtain ⟨x, hx, tl, h1, h2⟩ := flatten_shape P rest n hn
    have hne : x ≠ nm := fun e => hok.2.1 (e ▸ hx)
    have := congrArg String.toList hid
    rw [h1, mkId_toList] at this
    refine shape_ne (pre := idPre P) (names_noslash hok.2.2 x hx) hok.1 h2 (Or.inl rfl)
      (fun e => hne (String.toList_inj.1 e)) (by simpa using this)
  | container nm i o h ch rest ihc ihr =>
    simp only [flattenForest, List.map_cons, List.map_append, List.nodup_cons, List.mem_append,
      List.mem_map, not_or, not_exists, not_and]
    refine ⟨⟨?_, ?_⟩, ?_⟩
    · intro n hn hid
      obtain ⟨x, _, tl, h1, _⟩ := flatten_shape _ ch n hn
      have := congrArg String.toList hid
      rw [h1] at this
      simp only [idPre, List.append_assoc] at this
      simp at this
    · intro n hn hid
      obtain ⟨x, hx, tl, h1, h2⟩ := flatten_shape P rest n hn
      have hne : x ≠ nm := fun e => hok.2.1 (e ▸ hx)
      have := congrArg String.toList hid
      rw [h1, mkId_toList] at this
      refine shape_ne (pre := idPre P) (names_noslash hok.2.2.2 x hx) hok.1 h2 (Or.inl rfl)
        (fun e => hne (String.toList_inj.1 e)) (by simpa using this)
    · rw [List.nodup_append]
      refine ⟨ihc _ hok.2.2.1, ihr P hok.2.2.2, ?_⟩
      intro a ha b hb hab
      simp only [List.mem_map] at ha hb
      obtain ⟨n1, hn1, rfl⟩ := ha
      obtain ⟨n2, hn2, rfl⟩ := hb
      obtain ⟨x1, _, tl1, h1, _⟩ := flatten_shape _ ch n1 hn1
      obtain ⟨x2, hx2, tl2, h2, ht2⟩ := flatten_shape P rest n2 hn2
      have hne : nm ≠ x2 := fun e => hok.2.1 (e ▸ hx2)
      have := congrArg String.toList hab
      rw [h1, h2] at this
      refine shape_ne (pre := idPre P) (t1 := '/' :: (x1.toList ++ tl1)) hok.1
        (names_noslash hok.2.2.2 x2 hx2) (Or.inr ⟨_, rfl⟩) ht2
        (fun e => hne (String.toList_inj.1 e)) ?_
      rw [← this]; simp [idPre, mkId_toList]

/-! ## valid states and walks; flattened forests are rooted -/

/-- in a valid state, the container ancestors of an expanded container are expanded -/
theorem expanded_anc (f : Flat) (st : Expansion) (hv : validState f st = true) (k : Nat)
    (id : String) (hid : id ∈ containers f) (he : AL.get? st id = some true)
    (hc : ∀ a ∈ ancFuel f k id, a ∈ containers f) :
    ∀ a ∈ ancFuel f k id, AL.get? st a = some true := by
  induction k generalizing id with
  | zero => simp [ancFuel]
  | succ k ih =>
    intro a ha
    simp only [ancFuel] at ha hc
    cases hp : parentOf f id with
    | none => simp [hp] at ha
    | some p =>
      simp only [hp, List.mem_cons] at ha hc
      have hpc : p ∈ containers f := hc p (Or.inl rfl)
      have hpe : AL.get? st p = some true := by
        simp only [validState, List.all_eq_true] at hv
        have := hv id hid
        simpa [he, parentContainer, hp, hpc] using this
      rcases ha with rfl | ha
      · exact hpe
      · exact ih p hpc hpe (fun b hb => hc b (Or.inr hb)) a ha

theorem find?_of_mem_nodup {l : List FNode} (hn : (l.map (·.id)).Nodup) {n : FNode} (h : n ∈ l) :
    l.find? (fun m => m.id == n.id) = some n := by
  induction l with
  | nil => simp at h
  | cons a t ih =>
    simp only [List.map_cons, List.nodup_cons] at hn
    rcases List.mem_cons.1 h with rfl | h'
    · simp
    · have hne : a.id ≠ n.id := fun e => hn.1 (e ▸ List.mem_map.2 ⟨n, h', rfl⟩)
      simp [hne, ih hn.2 h']

theorem parentOf_of_mem {G : Flat} (hn : (G.nodes.map (·.id)).Nodup) {m : FNode} (hm : m ∈ G.nodes) :
    parentOf G m.id = m.parent := by
  unfold parentOf Flat.find?
  rw [find?_of_mem_nodup hn hm]; rfl

def StableAt (f : Flat) (k : Nat) (id : String) : Prop := ancFuel f k id = ancFuel f (k + 1) id

theorem StableAt.mono {f : Flat} {k k' : Nat} {id : String} (h : StableAt f k id) (hk : k ≤ k') :
    StableAt f k' id := by
  unfold StableAt
  rw [ancFuel_stable f k id h k' hk, ancFuel_stable f k id h (k' + 1) (by omega)]

theorem stable_child {f : Flat} {d : Nat} {id p : String} (hp : parentOf f id = some p)
    (h : StableAt f d p) : StableAt f (d + 1) id := by
  unfold StableAt at *
  rw [ancFuel, ancFuel]; simp only [hp]; rw [← h]

theorem stable_root {f : Flat} {id : String} (hp : parentOf f id = none) : StableAt f 0 id := by
  simp [StableAt, ancFuel, hp]

/-- scope invariant: every listed node whose parent link is `P` has a walk that is stable at `d` -/
def ScopeStable (f : Flat) (P : Option String) (d : Nat) : Prop :=
  ∀ n ∈ f.nodes, n.parent = P → StableAt f d n.id

theorem flatten_stable (G : Flat) (hn : (G.nodes.map (·.id)).Nodup) (F : Forest) (P : Option String)
    (d : Nat) (hs : ScopeStable G P d) (hsub : ∀ n ∈ flattenForest P F, n ∈ G.nodes) :
    ∀ n ∈ flattenForest P F, StableAt G (d + F.size) n.id := by
  induction F generalizing P d with
  | nil => simp [flattenForest]
  | leaf nm k i o w t h rest ih =>
    intro n hmem
    simp only [flattenForest, List.mem_cons] at hmem hsub
    rcases hmem with rfl | hmem
    · exact (hs _ (hsub _ (Or.inl rfl)) rfl).mono (by omega)
    · exact (ih P d hs (fun m hm => hsub m (Or.inr hm)) n hmem).mono (by simp only [Forest.size]; omega)
  | container nm i o h ch rest ihc ihr =>
    intro n hmem
    simp only [flattenForest, List.mem_cons, List.mem_append] at hmem hsub
    rcases hmem with rfl | hmem | hmem
    · exact (hs _ (hsub _ (Or.inl rfl)) rfl).mono (by omega)
    · have hc := hs _ (hsub _ (Or.inl rfl)) rfl
      have hs' : ScopeStable G (some (mkId P nm)) (d + 1) := by
        intro m hm hpar
        refine stable_child ?_ hc
        rw [parentOf_of_mem hn hm, hpar]
      exact (ihc _ (d + 1) hs' (fun m hm => hsub m (Or.inr (Or.inl hm))) n hmem).mono
        (by simp only [Forest.size]; omega)
    · exact (ihr P d hs (fun m hm => hsub m (Or.inr (Or.inr hm))) n hmem).mono
        (by simp only [Forest.size]; omega)

theorem flatten_rooted (F : Forest) (hok : F.NamesOK) :
    ∀ n ∈ (flatten F).nodes, Rooted (flatten F) n.id := by
  have hn : ((flatten F).nodes.map (·.id)).Nodup := flatten_ids_nodup none F hok
  intro n hmem
  have hs : ScopeStable (flatten F) none 0 := by
    intro m hm hpar
    refine stable_root ?_
    rw [parentOf_of_mem hn hm, hpar]
  have := flatten_stable (flatten F) hn F none 0 hs (fun _ h => h) n hmem
  have hlen : (flatten F).nodes.length = F.size := flattenForest_length none F
  have h2 := this.mono (k' := (flatten F).nodes.length) (by omega)
  exact h2

/-- every ancestor met by the walk from a listed node of a flattened forest is a listed container -/
theorem flatten_anc_listed (F : Forest) (hok : F.NamesOK) (k : Nat) :
    ∀ n ∈ (flatten F).nodes, ∀ a ∈ ancFuel (flatten F) k n.id,
      ∃ c ∈ (flatten F).nodes, c.id = a ∧ c.kind = "GRAPH" := by
  have hn : ((flatten F).nodes.map (·.id)).Nodup := flatten_ids_nodup none F hok
  induction k with
  | zero => simp [ancFuel]
  | succ k ih =>
    intro n hmem a ha
    have hpo : parentOf (flatten F) n.id = n.parent := parentOf_of_mem hn hmem
    simp only [ancFuel, hpo] at ha
    cases hp : n.parent with
    | none => simp [hp] at ha
    | some p =>
      simp only [hp, List.mem_cons] at ha
      rcases flatten_parent_listed none F n hmem with h1 | ⟨c, hc, hk, h1⟩
      · simp [hp] at h1
      · rw [hp] at h1; cases h1
        rcases ha with rfl | ha
        · exact ⟨c, hc, rfl, hk⟩
        · exact ih c hc a ha

/-! ## the validator is sound and complete -/

theorem checkFaithful_iff (f : Flat) (st : Expansion) (sep : Bool) (d : Diagram) :
    checkFaithful f st sep d = true ↔ Faithful f st sep d := by
  simp only [checkFaithful, standFast_eq, Bool.and_eq_true, checkS1a_iff, checkS1b_iff, checkS1c_iff,
    checkS1d_iff, checkS2a_iff, checkS2b_iff, checkS2c_iff, checkF1_iff, checkF2_iff]
  constructor
  · rintro ⟨⟨⟨⟨⟨⟨⟨⟨h1, h2⟩, h3⟩, h4⟩, h5⟩, h6⟩, h7⟩, h8⟩, h9⟩
    exact ⟨h1, h2, h3, h4, h5, h6, h7, h8, h9⟩
  · rintro ⟨h1, h2, h3, h4, h5, h6, h7, h8, h9⟩
    exact ⟨⟨⟨⟨⟨⟨⟨⟨h1, h2⟩, h3⟩, h4⟩, h5⟩, h6⟩, h7⟩, h8⟩, h9⟩

instance (f : Flat) (st : Expansion) (sep : Bool) (d : Diagram) : Decidable (Faithful f st sep d) :=
  decidable_of_iff _ (checkFaithful_iff f st sep d)

theorem explain_eq_nil_iff (f : Flat) (st : Expansion) (sep : Bool) (d : Diagram) :
    explain f st sep d = [] ↔ checkFaithful f st sep d = true := by
  simp only [explain, checkFaithful, List.append_eq_nil_iff, section_nil, Bool.and_eq_true,
    and_assoc]

end HG.Viz
