import HG.Lemmas.Interrupt
import HG.Lemmas.Spec
/-! # HG.Lemmas.NestBasic — helpers for C05 (nesting = inlining), part 1

Exact forms of `renameOutputs` / `filterOutputs` / `wrapOutputs` on duplicate-free keys, the sync
superstep as a fold of `execOne` for graphs whose nodes merely *behave* like total functions
(`GoodNodes`), and the resulting whole-run theorem `sync_run_holds` (built on `HG.Intr.kinv_run`). -/
namespace HG.Nest
open HG HG.C01 HG.Intr

/-! ## association lists -/
section AL
variable {α : Type}

theorem put_of_not_has (m : AL α) (k : Name) (v : α) (h : AL.has m k = false) :
    AL.put m k v = m ++ [(k, v)] := by
  induction m with
  | nil => rfl
  | cons hd t ih =>
    obtain ⟨a, w⟩ := hd
    rw [C01.has_cons] at h
    simp only [Bool.or_eq_false_iff, decide_eq_false_iff_not] at h
    simp [AL.put, h.1, ih h.2]

theorem foldl_put_append (l : AL α) : ∀ acc : AL α, NodupKeys l →
    (∀ k ∈ AL.keys l, AL.has acc k = false) →
    l.foldl (fun acc kv => AL.put acc kv.1 kv.2) acc = acc ++ l := by
  induction l with
  | nil => intro acc _ _; simp
  | cons x t ih =>
    intro acc hnd hfree
    obtain ⟨a, v⟩ := x
    have hnd' : a ∉ AL.keys t ∧ NodupKeys t := by
      simpa [NodupKeys, AL.keys] using hnd
    rw [List.foldl_cons]
    show t.foldl _ (AL.put acc a v) = _
    rw [put_of_not_has acc a v (hfree a (by simp [AL.keys]))]
    rw [ih (acc ++ [(a, v)]) hnd'.2]
    · simp
    · intro k hk
      rw [Spec.has_append, hfree k (by simp only [AL.keys, List.map_cons, List.mem_cons]; exact Or.inr hk)]
      have hne : k ≠ a := fun e => hnd'.1 (e ▸ hk)
      simp [AL.has, AL.get?, hne]

theorem foldl_put_nil (l : AL α) (h : NodupKeys l) :
    l.foldl (fun acc kv => AL.put acc kv.1 kv.2) ([] : AL α) = l := by
  rw [foldl_put_append l [] h (fun _ _ => rfl)]; rfl

/-- reading a key of a list built by `map (f k, g k)` when `f` is injective on the keys in play -/
theorem get?_map_inj (l : List Name) (f : Name → Name) (g : Name → α) (o : Name)
    (hinj : ∀ k ∈ l, f k = f o → k = o) :
    AL.get? (l.map fun k => (f k, g k)) (f o) = if o ∈ l then some (g o) else .none := by
  induction l with
  | nil => rfl
  | cons a t ih =>
    simp only [List.map_cons, AL.get?]
    by_cases e : f o = f a
    · have : a = o := hinj a List.mem_cons_self e.symm
      subst this; simp
    · have hne : o ≠ a := fun h => e (h ▸ rfl)
      simp only [e, if_false]
      rw [ih (fun k hk => hinj k (List.mem_cons_of_mem _ hk))]
      simp [hne]

theorem get?_map_pair (l : List Name) (g : Name → α) (o : Name) :
    AL.get? (l.map fun k => (k, g k)) o = if o ∈ l then some (g o) else .none :=
  get?_map_inj l id g o (fun _ _ h => h)

theorem get?_of_mem_nodup (m : AL α) (h : NodupKeys m) (kv : Name × α) (hm : kv ∈ m) :
    AL.get? m kv.1 = some kv.2 := by
  induction m with
  | nil => cases hm
  | cons x t ih =>
    obtain ⟨a, v⟩ := x
    have hnd' : a ∉ AL.keys t ∧ NodupKeys t := by simpa [NodupKeys, AL.keys] using h
    rcases List.mem_cons.1 hm with e | hm'
    · subst e; simp [AL.get?]
    · have hk : kv.1 ∈ AL.keys t := by simp only [AL.keys]; exact List.mem_map_of_mem hm'
      have hne : kv.1 ≠ a := fun e => hnd'.1 (e ▸ hk)
      simp only [AL.get?, hne, if_false]
      exact ih hnd'.2 hm'

/-- an association list with distinct keys is determined by its keys and `get?` -/
theorem map_keys_get? (outs : AL Val) (h : NodupKeys outs) :
    (AL.keys outs).map (fun o => (o, (AL.get? outs o).getD Val.none)) = outs := by
  unfold AL.keys
  rw [List.map_map]
  have : ∀ kv ∈ outs, ((fun o => (o, (AL.get? outs o).getD Val.none)) ∘ fun x => x.1) kv = id kv := by
    intro kv hkv
    simp only [Function.comp, get?_of_mem_nodup outs h kv hkv, Option.getD_some, id]
  rw [List.map_congr_left this, List.map_id]
end AL

theorem filterMap_eq_map_of {α β} (f : α → Option β) (g : α → β) (l : List α)
    (h : ∀ a ∈ l, f a = some (g a)) : l.filterMap f = l.map g := by
  induction l with
  | nil => rfl
  | cons a t ih =>
    rw [List.filterMap_cons, h a List.mem_cons_self, List.map_cons,
      ih (fun b hb => h b (List.mem_cons_of_mem _ hb))]

/-! ## `renameOutputs`, `filterOutputs` -/

/-- the output renaming a wrapper applies -/
def outRenOf (nd : NodeD) (k : Name) : Name := (AL.get? nd.origOut k).getD k

theorem renameOutputs_eq_map (nd : NodeD) (vals : AL Val)
    (h : (vals.map fun kv => outRenOf nd kv.1).Nodup) :
    renameOutputs nd vals = vals.map fun kv => (outRenOf nd kv.1, kv.2) := by
  unfold renameOutputs
  have h1 : vals.foldl (fun acc kv => AL.put acc ((AL.get? nd.origOut kv.1).getD kv.1) kv.2) ([] : AL Val) =
      (vals.map fun kv => (outRenOf nd kv.1, kv.2)).foldl (fun acc kv => AL.put acc kv.1 kv.2) [] := by
    rw [List.foldl_map]; rfl
  rw [h1, foldl_put_nil]
  unfold NodupKeys AL.keys
  rw [List.map_map]
  exact h

/-- the names a graph exposes as a node: its selection, else all outputs -/
def exposed (g : GraphD) : List Name :=
  match g.selected with | some sel => sel | .none => graphOutputs g.nodes

/-- sentinel values are never reported -/
def visible (v : Option Val) : Option Val :=
  match v with
  | some w => if w == Val.sentinel then .none else some w
  | .none => .none

theorem filterOutputs_all_eq_map (g : GraphD) (s : GState) (hsel : g.selected = .none) (om : OnMissing)
    (h : ∀ k ∈ graphOutputs g.nodes, ∃ v, AL.get? s.values k = some v ∧ v ≠ Val.sentinel) :
    filterOutputs g s .unset om =
      .ok ((graphOutputs g.nodes).map fun k => (k, (AL.get? s.values k).getD Val.none), 0) := by
  unfold filterOutputs effectiveSelect
  simp only [hsel]
  congr 2
  apply filterMap_eq_map_of
  intro k hk
  obtain ⟨v, hv, hne⟩ := h k hk
  simp [hv, hne]

theorem visible_eq_some {x : Option Val} {v : Val} :
    visible x = some v ↔ x = some v ∧ v ≠ Val.sentinel := by
  unfold visible
  cases x with
  | none => simp
  | some w =>
    by_cases hs : w = Val.sentinel
    · subst hs; simp
      intro h1; exact h1.symm
    · simp only [beq_iff_eq, hs, if_false, Option.some.injEq]
      constructor
      · intro h; subst h; exact ⟨rfl, hs⟩
      · intro h; exact h.1

theorem get?_filterMap_outStep (s : GState) (l : List Name) (k : Name) :
    AL.get? (l.filterMap (outStep s)) k = if k ∈ l then visible (AL.get? s.values k) else .none := by
  induction l with
  | nil => rfl
  | cons a t ih =>
    cases h : outStep s a with
    | none =>
      rw [List.filterMap_cons_none h, ih]
      by_cases e : k = a
      · subst e
        have hv : visible (AL.get? s.values k) = .none := by
          unfold outStep at h; unfold visible
          cases hg : AL.get? s.values k with
          | none => rfl
          | some w =>
            rw [hg] at h
            by_cases hs : w = Val.sentinel
            · simp [hs]
            · simp [hs] at h
        simp [hv]
      · simp [e]
    | some kv =>
      obtain ⟨k', v⟩ := kv
      rw [List.filterMap_cons_some h]
      obtain ⟨e1, hv, hs⟩ := outStep_some s a k' v h
      subst e1
      simp only [AL.get?]
      by_cases e : k = a
      · subst e
        have : visible (AL.get? s.values k) = some v := visible_eq_some.2 ⟨hv, hs⟩
        simp [this]
      · simp [e, ih]

theorem get?_selVals (s : GState) (names : List Name) (k : Name) :
    AL.get? (selVals s names) k = if k ∈ names then visible (AL.get? s.values k) else .none := by
  unfold selVals
  cases hr : AL.get? (names.foldl (selStep s) []) k with
  | some w =>
    have hm := AL.mem_of_get?₁ _ _ _ hr
    obtain ⟨h1, h2, h3⟩ := selFold_sound s names names [] (fun _ h => h) (fun _ h => by cases h) _ hm
    simp only at h1 h2 h3
    rw [if_pos h1]
    exact (visible_eq_some.2 ⟨h3, h2⟩).symm
  | none =>
    by_cases hk : k ∈ names
    · rw [if_pos hk]
      cases hv : visible (AL.get? s.values k) with
      | none => rfl
      | some v =>
        obtain ⟨h1, h2⟩ := visible_eq_some.1 hv
        rw [selFold_complete s names [] k v h1 h2 (Or.inl hk)] at hr
        cases hr
    · rw [if_neg hk]

/-- `filter_outputs` with `on_missing = "ignore"`: the reported dict has distinct keys and holds, for each
exposed name, the state's value unless it is the emit sentinel -/
theorem filterOutputs_ignore_spec (g : GraphD) (s : GState) :
    ∃ vals, filterOutputs g s .unset .ignore = .ok (vals, 0) ∧ NodupKeys vals ∧
      (∀ k, AL.get? vals k = if k ∈ exposed g then visible (AL.get? s.values k) else .none) := by
  cases hsel : g.selected with
  | none =>
    refine ⟨_, filterOutputs_none g s .unset .ignore (by simp [effectiveSelect, hsel]), ?_, ?_⟩
    · exact (keys_filterMap_outStep_sublist s _).nodup (dedup_nodup _)
    · intro k; rw [get?_filterMap_outStep]; simp [exposed, hsel]
  | some names =>
    refine ⟨selVals s names, ?_, ?_, ?_⟩
    · rw [filterOutputs_some g s .unset .ignore names (by simp [effectiveSelect, hsel])]
      split <;> rfl
    · exact selFold_nodup s names [] List.nodup_nil
    · intro k; rw [get?_selVals]; simp [exposed, hsel]

/-! ## a wrapper's outputs as the result of a (virtual) multi-output function -/

/-- pack an outputs dict into the value a function with the data outputs of `nd` would return -/
def packOuts (nd : NodeD) (outs : AL Val) : Val :=
  match nd.dataOuts with
  | [o] => (AL.get? outs o).getD Val.none
  | os => Val.mkTup (os.map fun o => (AL.get? outs o).getD Val.none)

theorem zip_map_self (ks : List Name) (f : Name → Val) : ks.zip (ks.map f) = ks.map fun k => (k, f k) := by
  induction ks with
  | nil => rfl
  | cons a t ih => simp [ih]

theorem wrapOutputs_packOuts (nd : NodeD) (outs : AL Val) (he : nd.emits = []) (hd : nd.dataOuts.Nodup) :
    wrapOutputs nd (packOuts nd outs) =
      some (nd.dataOuts.map fun o => (o, (AL.get? outs o).getD Val.none)) := by
  unfold wrapOutputs packOuts
  rw [he]
  match hdo : nd.dataOuts with
  | [] => rfl
  | [o] => rfl
  | a :: b :: t =>
    simp only [List.map_nil]
    have hlen : (Val.toList (Val.ofList ((a :: b :: t).map fun o => (AL.get? outs o).getD Val.none))).length =
        (a :: b :: t).length := by simp
    simp only [Val.mkTup, Val.seqItems, Val.toList_ofList, List.length_map, bne_self_eq_false,
      Bool.false_eq_true, if_false]
    rw [zip_map_self]
    have hk : NodupKeys ((a :: b :: t).map fun k => (k, (AL.get? outs k).getD Val.none)) := by
      unfold NodupKeys AL.keys; rw [List.map_map]
      rw [hdo] at hd
      have : ((fun x : Name × Val => x.1) ∘ fun k => (k, (AL.get? outs k).getD Val.none)) = id := rfl
      rw [this, List.map_id]; exact hd
    rw [foldl_put_nil _ hk]
    rfl

/-- a dict whose keys are exactly the data outputs of `nd` is what `wrap_outputs` makes of its packing -/
theorem wrapOutputs_packOuts_self (nd : NodeD) (outs : AL Val) (he : nd.emits = [])
    (hk : AL.keys outs = nd.dataOuts) (hn : NodupKeys outs) :
    wrapOutputs nd (packOuts nd outs) = some outs := by
  rw [wrapOutputs_packOuts nd outs he (by rw [← hk]; exact hn), ← hk, map_keys_get? outs hn]

/-- the semantics under which a nested-graph node is a function node: call the nested run (with an
arbitrary fixed span — spans only show in logs) and pack the renamed outputs -/
def nestSem (sem : Sem) (nested : Nested) : Sem := fun nd args =>
  if nd.kind = .graph then .val (packOuts nd (renameOutputs nd (nested.run nd.inner args []).values))
  else sem nd args

theorem nestSem_fn (sem : Sem) (nested : Nested) (nd : NodeD) (h : nd.kind ≠ .graph) (args : AL Val) :
    nestSem sem nested nd args = sem nd args := by
  unfold nestSem; rw [if_neg h]

theorem nestSem_graph (sem : Sem) (nested : Nested) (nd : NodeD) (h : nd.kind = .graph) (args : AL Val) :
    nestSem sem nested nd args =
      .val (packOuts nd (renameOutputs nd (nested.run nd.inner args []).values)) := by
  unfold nestSem; rw [if_pos h]

/-! ## `execGraphNode`, `runGraph` -/

theorem execGraphNode_completed (nested : Nested) (nd : NodeD) (inputs : AL Val) (sp : Span)
    (hm : nd.mapOver = [])
    (hr : (nested.run nd.inner (toParams nd inputs) sp).raised = false)
    (hst : (nested.run nd.inner (toParams nd inputs) sp).status = .completed) :
    execGraphNode nested nd inputs sp =
      { res := .ok (renameOutputs nd (nested.run nd.inner (toParams nd inputs) sp).values)
        log := (nested.run nd.inner (toParams nd inputs) sp).log } := by
  unfold execGraphNode
  simp [hm, hr, hst]

theorem nestedAt_run (sem : Sem) (runner : Runner) (prog : Program) (d gi : Nat) (values : AL Val) (sp : Span) :
    (nestedAt sem runner prog (d + 1)).run gi values sp =
      runGraph (nestedAt sem runner prog d) sem runner gi (prog.getD gi default) values {} (sp ++ ["run"]) (some sp) :=
  rfl

/-- a loop that ends `done` in a state on which `filter_outputs` succeeds gives a completed run -/
theorem runGraph_of_done (nested : Nested) (sem : Sem) (gi : Nat) (g : GraphD) (values : AL Val) (cfg : RunCfg)
    (span : Span) (parent : Option Span) (hep : g.entrypoints = .none) {s' : GState} {log : List Log} {n : Nat}
    (hrun : runLoop (fun k s rs => stepSync nested sem gi g span k s rs s []) g .none cfg.maxIter cfg.maxIter 0
      (initState values) [runStartEv span parent g ""] = .done s' log n)
    {vals : AL Val} {w : Nat} (hf : filterOutputs g s' cfg.select cfg.onMissing = .ok (vals, w)) :
    runGraph nested sem .sync gi g values cfg span parent =
      { status := .completed, values := vals, warnings := w
        log := log ++ [runEndEv span parent g "completed"] ++ (if parent.isNone then [Log.shutdown] else []) } := by
  unfold runGraph
  simp only [activeNodeSet, hep, Option.map_none, hrun, hf]

/-! ## graphs whose nodes behave like total functions -/

/-- under `nested` / `semX` every node of `g`, called on completely collected inputs, succeeds without
pause or routing decision and writes `outsOf sem₂` -/
def GoodNodes (nested : Nested) (semX sem₂ : Sem) (gi : Nat) (g : GraphD) : Prop :=
  ∀ nd ∈ g.nodes, ∀ (s : GState) (args : AL Val), collectInputs g s nd nd.inputs = some args →
    ∀ (ns : GState) (sp : Span),
      (execNode nested semX gi nd args ns sp).pause = .none ∧
      (execNode nested semX gi nd args ns sp).dec = .none ∧
      (execNode nested semX gi nd args ns sp).res = .ok (outsOf sem₂ nd args)

/-- a sync superstep over well-behaved nodes is the fold of `execOne sem₂` -/
theorem stepSync_good (nested : Nested) (semX sem₂ : Sem) (gi : Nat) (g : GraphD) (span : Span) (k : Nat)
    (s : GState) : ∀ (rs : List NodeD) (ns : GState) (log : List Log),
      (∀ nd ∈ rs, ∃ args, collectInputs g s nd nd.inputs = some args ∧ ∀ (ns' : GState) (sp : Span),
        (execNode nested semX gi nd args ns' sp).pause = .none ∧
        (execNode nested semX gi nd args ns' sp).dec = .none ∧
        (execNode nested semX gi nd args ns' sp).res = .ok (outsOf sem₂ nd args)) →
      ∃ l, stepSync nested semX gi g span k s rs ns log = .ok (rs.foldl (execOne sem₂ g s) ns) l := by
  intro rs
  induction rs with
  | nil => intro ns log _; exact ⟨log, by simp [stepSync]⟩
  | cons r rs ih =>
    intro ns log h
    obtain ⟨args, hc, hgood⟩ := h r List.mem_cons_self
    obtain ⟨hp, hd, hr⟩ := hgood ns (nodeSpanOf span k r)
    have hex : execOne sem₂ g s ns r = recordExec s (ns.applyOutputs (outsOf sem₂ r args)) r := by
      simp [execOne, hc]
    rw [List.foldl_cons, hex, stepSync]
    simp only [hc, hp, hd, hr]
    exact ih _ _ (fun nd hnd => h nd (List.mem_cons_of_mem _ hnd))

/-- the whole sync loop on an acyclic gate-free graph of well-behaved nodes, all inputs covered: it ends
`done`; names no node writes keep their initial value; every node has executed and holds the result of its
(virtual) function `sem₂` on the arguments it collects in the final state -/
theorem sync_run_holds {g : GraphD} {level : Name → Nat} (hW : WFI g level) (nested : Nested)
    (semX sem₂ : Sem) (hs : SemTotal sem₂ g) (gi : Nat) (span : Span)
    (hgood : GoodNodes nested semX sem₂ gi g) (values : AL Val)
    (hfresh : ∀ m ∈ g.nodes, ∀ o ∈ m.outputs, AL.has values o = false)
    (hcov : Covered g (initState values)) (mi : Nat) (hfuel : g.nodes.length ≤ mi) (log₀ : List Log) :
    ∃ s' log n,
      runLoop (fun k s rs => stepSync nested semX gi g span k s rs s []) g .none mi mi 0
        (initState values) log₀ = .done s' log n ∧
      (∀ p, (∀ m ∈ g.nodes, p ∉ m.outputs) → AL.get? s'.values p = AL.get? (initState values).values p) ∧
      (∀ n ∈ g.nodes, Holds sem₂ g s' n) ∧
      (∀ n ∈ g.nodes, AL.has s'.execs n.name = true) := by
  have h0 : ∀ m ∈ g.nodes, ∀ o ∈ m.outputs, AL.has (initState values).values o = false := by
    intro m hm o ho; rw [initState_has]; exact hfresh m hm o ho
  have hseed : SeedOK sem₂ g (initState values) := by
    intro m hm o ho v hv
    have := h0 m hm o ho
    unfold AL.has at this; rw [hv] at this; cases this
  have hstep : GoodStep sem₂ g (initState values)
      (fun k s rs => stepSync nested semX gi g span k s rs s []) := by
    intro k s hK hne
    have : ∀ nd ∈ readyL g s, ∃ args, collectInputs g s nd nd.inputs = some args ∧
        ∀ (ns' : GState) (sp : Span),
          (execNode nested semX gi nd args ns' sp).pause = .none ∧
          (execNode nested semX gi nd args ns' sp).dec = .none ∧
          (execNode nested semX gi nd args ns' sp).res = .ok (outsOf sem₂ nd args) := by
      intro nd hnd
      obtain ⟨hn, _, hin⟩ := not_executed_of_ready hK hnd
      have hcs := collectInputs_of_all (hW.wd nd hn) nd.inputs (by simpa [List.all_eq_true] using hin)
      obtain ⟨args, hc⟩ := Option.isSome_iff_exists.mp hcs
      exact ⟨args, hc, hgood nd hn s args hc⟩
    obtain ⟨l, hl⟩ := stepSync_good nested semX sem₂ gi g span k s (readyL g s) s [] this
    exact ⟨readyL g s, l, List.Sublist.refl _, hne, hl⟩
  obtain ⟨s', log', n, hrun, hK, hq⟩ := kinv_run hW hs hseed hstep mi mi 0 (initState values) log₀
    (kinv_init sem₂ g _ (initState_execs values)) (Nat.le_trans (pending_le g _) hfuel)
  have hex := kinv_all_executed hW hK hq hcov
  exact ⟨s', log', n, hrun, hK.static_vals, fun n hn => (hK.done n hn (hex n hn)).2.1, hex⟩

end HG.Nest
