import HG.Lemmas.NestInline
/-! # HG.Lemmas.NestOuter — helpers for C05, part 4: the outer graph is well-formed

From the hypotheses on the flat graph `G`, consistency of defaults on the nested part, freshness of the
wrapper's name and convexity of the nested part we derive every structural hypothesis (`WFI`) on the outer
graph `O`, including its acyclicity. Also `inline` and its closed form. -/
namespace HG.Nest
open HG HG.C01 HG.Intr

/-! ## `dedup` of a duplicate-free list -/

theorem dedupFold_of_nodup : ∀ (l acc : List Name), (acc ++ l).Nodup →
    l.foldl (fun acc x => if acc.contains x then acc else acc ++ [x]) acc = acc ++ l := by
  intro l
  induction l with
  | nil => intro acc _; simp
  | cons x t ih =>
    intro acc h
    rw [List.foldl_cons]
    have hx : x ∉ acc := by
      intro hm
      have := (List.nodup_append.1 h).2.2 x hm x List.mem_cons_self
      exact this rfl
    have e : (if acc.contains x = true then acc else acc ++ [x]) = acc ++ [x] := by simp [hx]
    show List.foldl _ (if acc.contains x = true then acc else acc ++ [x]) t = _
    rw [e, ih (acc ++ [x]) (by simpa using h)]
    simp

theorem dedup_of_nodup (l : List Name) (h : l.Nodup) : dedup l = l := by
  unfold dedup; rw [dedupFold_of_nodup l [] (by simpa using h)]; rfl

/-! ## `inline` -/

/-- the nodes of `O` with the node named like `W` replaced by the nodes of `I` -/
def inline (O : GraphD) (W : NodeD) (I : GraphD) : List NodeD :=
  O.nodes.flatMap fun n => if n.name = W.name then I.nodes else [n]

theorem flatMap_inline_other (W : NodeD) (I : GraphD) : ∀ (l : List NodeD), (∀ n ∈ l, n.name ≠ W.name) →
    l.flatMap (fun n => if n.name = W.name then I.nodes else [n]) = l := by
  intro l
  induction l with
  | nil => intro _; rfl
  | cons a t ih =>
    intro h
    rw [List.flatMap_cons, if_neg (h a List.mem_cons_self), ih (fun n hn => h n (List.mem_cons_of_mem _ hn))]
    rfl

theorem inline_eq (O : GraphD) (W : NodeD) (I : GraphD) (pre post : List NodeD)
    (hO : O.nodes = pre ++ W :: post) (hname : ∀ n ∈ pre ++ post, n.name ≠ W.name) :
    inline O W I = pre ++ I.nodes ++ post := by
  unfold inline
  rw [hO, List.flatMap_append, List.flatMap_cons, if_pos rfl,
    flatMap_inline_other W I pre (fun n hn => hname n (List.mem_append_left _ hn)),
    flatMap_inline_other W I post (fun n hn => hname n (List.mem_append_right _ hn)), List.append_assoc]

/-! ## convexity and the level function of the outer graph -/

/-- `m` feeds `n` directly -/
def Feeds (m n : NodeD) : Prop := ∃ p ∈ n.inputs, p ∈ m.outputs

/-- a non-empty path of data edges inside `G` -/
inductive Reach (G : GraphD) : NodeD → NodeD → Prop
  | step {m n : NodeD} : m ∈ G.nodes → n ∈ G.nodes → Feeds m n → Reach G m n
  | snoc {m n k : NodeD} : Reach G m n → k ∈ G.nodes → Feeds n k → Reach G m k

/-- the node set `S` is dependency-closed: a path that leaves `S` never comes back -/
def Convex (G : GraphD) (S : List NodeD) : Prop :=
  ∀ a ∈ S, ∀ b ∈ S, ∀ n ∈ G.nodes, Reach G a n → Reach G n b → n ∈ S

section level
open Classical

/-- level function of the outer graph: nodes downstream of the nested part are lifted above the wrapper -/
noncomputable def levelOuter (G I : GraphD) (wname : Name) (levelG : Name → Nat) (H : Nat) (nm : Name) : Nat :=
  if nm = wname then H + 1
  else if ∃ n ∈ G.nodes, n.name = nm ∧ ∃ a ∈ I.nodes, Reach G a n then levelG nm + H + 2
  else levelG nm
end level

section layout
variable {s : NodeSpec} {I O G : GraphD} {pre post : List NodeD}

theorem Shape.disjoint (L : Shape s I O G pre post) (hup : UniqueProducers G) {n : NodeD}
    (hn : n ∈ pre ++ post) : n ∉ I.nodes := by
  intro hI
  have hnd := hup.nodes_nodup
  rw [L.gnodes] at hnd
  obtain ⟨h1, h2, h3⟩ := List.nodup_append.1 hnd
  obtain ⟨_, _, h5⟩ := List.nodup_append.1 h1
  rcases List.mem_append.1 hn with h | h
  · exact h5 n h n hI rfl
  · exact h3 n (List.mem_append_right _ hI) n h rfl

/-- acyclicity of the outer graph from acyclicity of the flat graph and convexity of the nested part -/
theorem outer_lt {levelG : Name → Nat} (L : Shape s I O G pre post) (hW : WFI G levelG) (hok : InnerOK I)
    (hconv : Convex G I.nodes) (H : Nat) (hH : ∀ n ∈ G.nodes, levelG n.name ≤ H)
    (hname : ∀ n ∈ pre ++ post, n.name ≠ s.name) :
    ∀ n ∈ O.nodes, ∀ p ∈ n.inputs, ∀ m ∈ O.nodes, p ∈ m.outputs →
      levelOuter G I s.name levelG H m.name < levelOuter G I s.name levelG H n.name := by
  have hWname : (elabGraphNode s I).name = s.name := rfl
  -- the level of an outer function node
  have hleaf : ∀ n ∈ pre ++ post, n ∈ G.nodes := by
    intro n hn
    rcases List.mem_append.1 hn with h | h
    · exact (L.memG n).2 (Or.inl h)
    · exact (L.memG n).2 (Or.inr (Or.inr h))
  have hdesc : ∀ n ∈ pre ++ post, (∃ a ∈ I.nodes, Reach G a n) →
      levelOuter G I s.name levelG H n.name = levelG n.name + H + 2 := by
    intro n hn hd
    unfold levelOuter
    rw [if_neg (hname n hn), if_pos ⟨n, hleaf n hn, rfl, hd⟩]
  have hndesc : ∀ n ∈ pre ++ post, ¬ (∃ a ∈ I.nodes, Reach G a n) →
      levelOuter G I s.name levelG H n.name = levelG n.name := by
    intro n hn hd
    unfold levelOuter
    rw [if_neg (hname n hn), if_neg]
    rintro ⟨n', hn', e, hd'⟩
    have : n' = n := hW.up.name_inj hn' (hleaf n hn) e
    exact hd (this ▸ hd')
  have hw : levelOuter G I s.name levelG H (elabGraphNode s I).name = H + 1 := by
    unfold levelOuter; rw [if_pos hWname]
  have hcases : ∀ n ∈ O.nodes, n = elabGraphNode s I ∨ n ∈ pre ++ post := by
    intro n hn
    rcases (L.memO n).1 hn with h | h | h
    · exact Or.inr (List.mem_append_left _ h)
    · exact Or.inl h
    · exact Or.inr (List.mem_append_right _ h)
  intro n hn p hp m hm hpo
  rcases hcases n hn with hnW | hnL <;> rcases hcases m hm with hmW | hmL
  · -- wrapper feeds itself: impossible
    subst hnW; subst hmW
    rw [plain_inputs L.plain] at hp
    rw [plain_outputs L.plain L.isel, Spec.mem_graphOutputs] at hpo
    obtain ⟨a, ha, hpa⟩ := hpo
    exact absurd hp (hok.disjoint a ha p hpa)
  · -- an outer node feeds the wrapper: it is not downstream of the nested part
    subst hnW
    rw [plain_inputs L.plain] at hp
    obtain ⟨u, hu, hpu⟩ := hok.sound p hp
    have hnd : ¬ (∃ a ∈ I.nodes, Reach G a m) := by
      rintro ⟨a, ha, hr⟩
      have := hconv a ha u hu m (hleaf m hmL) hr (Reach.step (hleaf m hmL) (L.innerG hu) ⟨p, hpu, hpo⟩)
      exact L.disjoint hW.up hmL this
    rw [hw, hndesc m hmL hnd]
    have := hH m (hleaf m hmL)
    omega
  · -- the wrapper feeds an outer node: that node is downstream
    subst hmW
    rw [plain_outputs L.plain L.isel, Spec.mem_graphOutputs] at hpo
    obtain ⟨a, ha, hpa⟩ := hpo
    rw [hw, hdesc n hnL ⟨a, ha, Reach.step (L.innerG ha) (hleaf n hnL) ⟨p, hp, hpa⟩⟩]
    omega
  · -- two outer nodes
    have hlt := hW.lt n (hleaf n hnL) p hp m (hleaf m hmL) hpo
    by_cases hdm : ∃ a ∈ I.nodes, Reach G a m
    · obtain ⟨a, ha, hr⟩ := hdm
      rw [hdesc m hmL ⟨a, ha, hr⟩, hdesc n hnL ⟨a, ha, Reach.snoc hr (hleaf n hnL) ⟨p, hp, hpo⟩⟩]
      omega
    · rw [hndesc m hmL hdm]
      by_cases hdn : ∃ a ∈ I.nodes, Reach G a n
      · rw [hdesc n hnL hdn]; omega
      · rw [hndesc n hnL hdn]; exact hlt

/-! ## `WellDefaulted` for the wrapper -/

theorem keys_filterMap_eq {α} (l : List Name) (F : Name → Option (Name × α)) (cur : Name → Name)
    (hF : ∀ p x, F p = some x → x.1 = cur p) :
    AL.keys (l.filterMap F) = (l.filter fun p => (F p).isSome).map cur := by
  induction l with
  | nil => rfl
  | cons a t ih =>
    cases h : F a with
    | none => rw [List.filterMap_cons_none h, List.filter_cons]; simp [h, ih]
    | some x =>
      rw [List.filterMap_cons_some h, List.filter_cons]
      simp only [h, Option.isSome_some, if_true, List.map_cons, AL.keys]
      rw [hF a x h]
      congr 1

theorem wrapper_wellDefaulted (s : NodeSpec) (I : GraphD) (hmo : s.mapOver = []) (hb : I.spec.bound = []) (hwd : WellDefaulted I)
    (hcd : ConsistentDefaults I) :
    (elabGraphNode s I).hasDefault = AL.keys (elabGraphNode s I).sigDefaults := by
  have hF : ∀ q x, sigF s I q = some x → x.1 = renameOf s.inRen q := by
    intro q x hx
    unfold sigF at hx
    split at hx
    · cases hx
    · split at hx
      · cases hx
      · simp only [Option.map_eq_some_iff] at hx
        obtain ⟨v, _, rfl⟩ := hx
        rfl
  rw [elab_sigDefaults, keys_filterMap_eq _ _ _ hF]
  have hdef : (elabGraphNode s I).hasDefault = (I.spec.all.filter fun p =>
      AL.has I.spec.bound p || (!s.mapOver.contains (renameOf s.inRen p) &&
        (I.nodes.filter fun n => n.inputs.contains p).any fun n => n.hasDefault.contains p)).map
        (renameOf s.inRen) := rfl
  rw [hdef]
  congr 1
  apply filter_congr_mem
  intro p _
  have hbn : AL.has I.spec.bound p = false := by rw [hb]; rfl
  have hmp : s.mapOver.contains (renameOf s.inRen p) = false := by rw [hmo]; rfl
  rw [hbn, Bool.false_or, hmp, Bool.not_false, Bool.true_and]
  -- users of `p`
  have hus : ∀ u ∈ I.nodes.filter fun n => n.inputs.contains p, u ∈ I.nodes ∧ p ∈ u.inputs := by
    intro u hu; rw [List.mem_filter] at hu; exact ⟨hu.1, by simpa using hu.2⟩
  have hcont : ∀ u ∈ I.nodes, u.hasDefault.contains p = AL.has u.sigDefaults p := by
    intro u hu
    rw [hwd u hu]
    cases h : AL.has u.sigDefaults p with
    | true => simpa using (AL.mem_keys_iff_has _ _).2 h
    | false =>
      cases h' : (AL.keys u.sigDefaults).contains p with
      | false => rfl
      | true =>
        have := (AL.mem_keys_iff_has _ _).1 (by simpa using h')
        rw [h] at this; cases this
  cases hany : (I.nodes.filter fun n => n.inputs.contains p).any (fun n => n.hasDefault.contains p) with
  | true =>
    rw [List.any_eq_true] at hany
    obtain ⟨u, hu, hud⟩ := hany
    obtain ⟨huI, hpu⟩ := hus u hu
    rw [hcont u huI] at hud
    obtain ⟨dflt, hd⟩ := (C01.has_eq_true_iff _ _).1 hud
    have hall : ∀ u' ∈ I.nodes.filter fun n => n.inputs.contains p, AL.get? u'.sigDefaults p = some dflt := by
      intro u' hu'
      obtain ⟨hu'I, hpu'⟩ := hus u' hu'
      rw [← hcd u huI u' hu'I p hpu hpu', hd]
    have hne : (I.nodes.filter fun n => n.inputs.contains p) ≠ [] := List.ne_nil_of_mem hu
    have h1 : (I.nodes.filter fun n => n.inputs.contains p).all (fun n => AL.has n.sigDefaults p) = true := by
      rw [List.all_eq_true]; intro u' hu'; unfold AL.has; rw [hall u' hu']; rfl
    have h2 : (I.nodes.filter fun n => n.inputs.contains p).isEmpty = false := by
      cases h : (I.nodes.filter fun n => n.inputs.contains p) with
      | nil => exact absurd h hne
      | cons _ _ => rfl
    simp only [sigF, hbn, h1, h2, Bool.not_true, Bool.or_self, Bool.false_eq_true, if_false]
    rw [findSome?_const _ dflt _ hne hall]; rfl
  | false =>
    rw [List.any_eq_false] at hany
    cases hemp : (I.nodes.filter fun n => n.inputs.contains p).isEmpty with
    | true =>
      simp only [sigF, hbn, hemp, Bool.false_eq_true, if_false, Bool.true_or, if_true]; rfl
    | false =>
      have hall : (I.nodes.filter fun n => n.inputs.contains p).all (fun n => AL.has n.sigDefaults p) = false := by
        cases hl : (I.nodes.filter fun n => n.inputs.contains p) with
        | nil => rw [hl] at hemp; cases hemp
        | cons u t =>
          have hu : u ∈ I.nodes.filter fun n => n.inputs.contains p := by rw [hl]; exact List.mem_cons_self
          rw [← hl, List.all_eq_false]
          refine ⟨u, hu, ?_⟩
          have := hany u hu
          rw [hcont u (hus u hu).1] at this
          simpa using this
      simp only [sigF, hbn, hemp, hall, Bool.false_eq_true, if_false, Bool.not_false, Bool.or_true, if_true]; rfl

/-- every structural hypothesis on the outer graph follows from those on the flat graph -/
theorem outer_wfi {levelG : Name → Nat} (L : Layout s I O G pre post) (hW : WFI G levelG)
    (hcd : ConsistentDefaults I) (hname : ∀ n ∈ pre ++ post, n.name ≠ s.name)
    (levelO : Name → Nat)
    (hlt : ∀ n ∈ O.nodes, ∀ p ∈ n.inputs, ∀ m ∈ O.nodes, p ∈ m.outputs → levelO m.name < levelO n.name) :
    WFI O levelO := by
  have hleaf : ∀ n ∈ O.nodes, n = elabGraphNode s I ∨ n ∈ G.nodes := by
    intro n hn
    rcases (L.memO n).1 hn with h | h | h
    · exact Or.inr ((L.memG n).2 (Or.inl h))
    · exact Or.inl h
    · exact Or.inr ((L.memG n).2 (Or.inr (Or.inr h)))
  have hWI := inner_wfi L hW
  refine ⟨?_, ?_, ?_, ⟨?_, ?_⟩, hlt, ?_⟩
  · intro n hn
    rcases hleaf n hn with h | h
    · subst h; rfl
    · exact hW.gf n h
  · intro n hn
    rcases hleaf n hn with h | h
    · subst h; exact L.plain.waitFor
    · exact hW.nw n h
  · intro n hn
    rcases hleaf n hn with h | h
    · subst h; exact wrapper_wellDefaulted s I L.plain.mapOver L.ib hWI.wd hcd
    · exact hW.wd n h
  · -- names
    have hG := hW.up.names_nodup
    rw [L.gnodes, List.map_append, List.map_append] at hG
    obtain ⟨h1, h2, h3⟩ := List.nodup_append.1 hG
    obtain ⟨h4, _, _⟩ := List.nodup_append.1 h1
    rw [L.onodes, List.map_append, List.map_cons, List.nodup_append]
    refine ⟨h4, ?_, ?_⟩
    · rw [List.nodup_cons]
      refine ⟨?_, h2⟩
      intro hm
      obtain ⟨n, hn, e⟩ := List.mem_map.1 hm
      exact hname n (List.mem_append_right _ hn) e
    · intro a ha b hb
      rcases List.mem_cons.1 hb with e | hb'
      · obtain ⟨n, hn, e'⟩ := List.mem_map.1 ha
        rw [e, ← e']
        exact hname n (List.mem_append_left _ hn)
      · exact h3 a (List.mem_append_left _ ha) b hb'
  · -- outputs
    have hG := hW.up.outs_nodup
    rw [L.gnodes, List.flatMap_append, List.flatMap_append] at hG
    have hIo : (I.nodes.flatMap (·.outputs)).Nodup := hWI.up.outs_nodup
    rw [L.onodes, List.flatMap_append, List.flatMap_cons, plain_outputs L.plain L.isel]
    unfold graphOutputs
    rw [dedup_of_nodup _ hIo, ← List.append_assoc]
    exact hG
  · intro n hn p hp m hm hpo
    refine ⟨by rw [L.ob]; rfl, ?_⟩
    obtain ⟨m', hm', hpo'⟩ := L.producedO ⟨m, hm, hpo⟩
    rcases hleaf n hn with h | h
    · subst h
      cases hd : (elabGraphNode s I).hasDefault.contains p with
      | false => rfl
      | true =>
        obtain ⟨u, hu, hpu, hud⟩ := plain_hasDefault_inv L.plain L.ib hd
        rw [(hW.fed u (L.innerG hu) p hpu m' hm' hpo').2] at hud
        cases hud
    · exact (hW.fed n h p hp m' hm' hpo').2
end layout

end HG.Nest
