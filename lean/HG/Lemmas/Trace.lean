import HG.Model.Run
import HG.Lemmas.Common
import HG.Lemmas.Ready
import HG.Lemmas.Step
/-! # HG.Lemmas.Trace — the span-tree grammar of event streams (helpers for `HG.Props.C12`)

* `evsOf` projects a log to its events; `NoShut` says a log has no `Log.shutdown`.
* `Trace ao shape evs` is the GRAMMAR of event lists (one inductive family indexed by `Shape`,
  so that the `induction` tactic works); `ao = false` is the strict grammar (everything closed),
  `ao = true` additionally allows the OPEN pieces the model really produces (paused map items,
  and — async only — an unclosed paused sibling inside a failed run).
* generation lemmas: `stepSync_trace`, `stepAsync_trace`, `runLoop_trace`, `runGraph_trace`,
  `mapGraph_trace`, `nestedAt_ok`.
Nothing here is a property theorem. -/
namespace HG

/-! ## events of a log -/

def evsOf : List Log → List Ev
  | [] => []
  | .ev e :: l => e :: evsOf l
  | .call _ _ :: l => evsOf l
  | .shutdown :: l => evsOf l

@[simp] theorem evsOf_nil : evsOf [] = [] := rfl
@[simp] theorem evsOf_ev (e : Ev) (l : List Log) : evsOf (.ev e :: l) = e :: evsOf l := rfl
@[simp] theorem evsOf_call (f : String) (a : AL Val) (l : List Log) : evsOf (.call f a :: l) = evsOf l := rfl
@[simp] theorem evsOf_shutdown (l : List Log) : evsOf (.shutdown :: l) = evsOf l := rfl
@[simp] theorem evsOf_append (a b : List Log) : evsOf (a ++ b) = evsOf a ++ evsOf b := by
  induction a with
  | nil => rfl
  | cons x a ih => cases x <;> simp [ih]

/-- the log contains no `Log.shutdown` -/
def NoShut (l : List Log) : Prop := ∀ x ∈ l, x ≠ Log.shutdown

theorem NoShut.nil : NoShut [] := by intro x hx; cases hx
theorem NoShut.append {a b : List Log} (ha : NoShut a) (hb : NoShut b) : NoShut (a ++ b) := by
  intro x hx
  rcases List.mem_append.1 hx with h | h
  · exact ha x h
  · exact hb x h
theorem NoShut.ev (e : Ev) : NoShut [Log.ev e] := by
  intro x hx; rw [List.mem_singleton] at hx; subst hx; intro h; cases h
theorem NoShut.call (f : String) (a : AL Val) : NoShut [Log.call f a] := by
  intro x hx; rw [List.mem_singleton] at hx; subst hx; intro h; cases h
theorem NoShut.left {a b : List Log} (h : NoShut (a ++ b)) : NoShut a :=
  fun x hx => h x (List.mem_append_left _ hx)
theorem NoShut.right {a b : List Log} (h : NoShut (a ++ b)) : NoShut b :=
  fun x hx => h x (List.mem_append_right _ hx)

/-! ## the events the runners emit -/

def evRunStart (span : Span) (parent : Option Span) (nm info : String) : Ev :=
  { kind := "RunStart", span := span, parent := parent, name := nm, info := info }
def evRunEnd (span : Span) (parent : Option Span) (nm status : String) : Ev :=
  { kind := "RunEnd", span := span, parent := parent, name := nm, info := status }
def evNodeStart (sp root : Span) (nm : String) : Ev :=
  { kind := "NodeStart", span := sp, parent := some root, name := nm }
def evNodeEnd (sp root : Span) (nm : String) : Ev :=
  { kind := "NodeEnd", span := sp, parent := some root, name := nm }
def evNodeError (sp root : Span) (nm : String) : Ev :=
  { kind := "NodeError", span := sp, parent := some root, name := nm }
/-- the label (last span component) of node `nm` executed at superstep `k` -/
def lab (nm : String) (k : Nat) : String := nm ++ "#" ++ toString k
def evRoute (root : Span) (nm : String) (k : Nat) (info : String) : Ev :=
  { kind := "RouteDecision", span := root ++ [nm ++ "!route#" ++ toString k], parent := some root,
    name := nm, info := info }

/-! ## the grammar -/

/-- the syntactic categories of the grammar -/
inductive Shape
  /-- a run with span `root`: `st = some s` — terminated with `RunEnd s`; `none` — paused (no `RunEnd`) -/
  | run (root : Span) (parent : Option Span) (st : Option String)
  /-- the node blocks of a run, with their labels; `o` — open blocks allowed -/
  | blocks (o : Bool) (root : Span) (labels : List String)
  /-- a closed node block of the run `root`: `NodeStart … NodeEnd|NodeError` -/
  | node (root : Span) (label : String)
  /-- an open node block (the node paused) -/
  | pnode (root : Span) (label : String)
  /-- what a node with span `sp` logs between its start and its end: nothing, a nested run, or a nested map -/
  | kids (sp : Span)
  /-- the same for a paused node: nothing or a paused nested run -/
  | pkids (sp : Span)
  /-- a map run -/
  | map (root : Span) (parent : Option Span)
  /-- the item runs `i, i+1, …` of the map `root` -/
  | items (root : Span) (i : Nat)

/-- the grammar of event streams. `ao` ("allow open"): `false` = strict. -/
inductive Trace (ao : Bool) : Shape → List Ev → Prop
  | runC {root : Span} {parent : Option Span} {nm s : String} {ls : List String} {body : List Ev} :
      Trace ao (.blocks ao root ls) body → ls.Nodup →
      Trace ao (.run root parent (some s))
        (evRunStart root parent nm "" :: body ++ [evRunEnd root parent nm s])
  | runP {root : Span} {parent : Option Span} {nm : String} {ls : List String} {body : List Ev} :
      Trace ao (.blocks true root ls) body → ls.Nodup →
      Trace ao (.run root parent none) (evRunStart root parent nm "" :: body)
  | bnil {o : Bool} {root : Span} : Trace ao (.blocks o root []) []
  | bcons {o : Bool} {root : Span} {l : String} {ls : List String} {b rest : List Ev} :
      Trace ao (.node root l) b → Trace ao (.blocks o root ls) rest →
      Trace ao (.blocks o root (l :: ls)) (b ++ rest)
  | bconsP {root : Span} {l : String} {ls : List String} {b rest : List Ev} :
      Trace ao (.pnode root l) b → Trace ao (.blocks true root ls) rest →
      Trace ao (.blocks true root (l :: ls)) (b ++ rest)
  | nodeEnd {root : Span} {nm : String} {k : Nat} {cs rt : List Ev} :
      Trace ao (.kids (root ++ [lab nm k])) cs →
      (rt = [] ∨ ∃ info, rt = [evRoute root nm k info]) →
      Trace ao (.node root (lab nm k))
        (evNodeStart (root ++ [lab nm k]) root nm :: cs ++ rt ++ [evNodeEnd (root ++ [lab nm k]) root nm])
  | nodeErr {root : Span} {nm : String} {k : Nat} {cs : List Ev} :
      Trace ao (.kids (root ++ [lab nm k])) cs →
      Trace ao (.node root (lab nm k))
        (evNodeStart (root ++ [lab nm k]) root nm :: cs ++ [evNodeError (root ++ [lab nm k]) root nm])
  | pnodeErr {root : Span} {nm : String} {k : Nat} {cs : List Ev} :
      Trace ao (.pkids (root ++ [lab nm k])) cs →
      Trace ao (.pnode root (lab nm k))
        (evNodeStart (root ++ [lab nm k]) root nm :: cs ++ [evNodeError (root ++ [lab nm k]) root nm])
  | pnodeOpen {root : Span} {nm : String} {k : Nat} {cs : List Ev} :
      Trace ao (.pkids (root ++ [lab nm k])) cs →
      Trace ao (.pnode root (lab nm k)) (evNodeStart (root ++ [lab nm k]) root nm :: cs)
  | kidsNil {sp : Span} : Trace ao (.kids sp) []
  | kidsRun {sp : Span} {s : String} {e : List Ev} :
      Trace ao (.run (sp ++ ["run"]) (some sp) (some s)) e → Trace ao (.kids sp) e
  | kidsMap {sp : Span} {e : List Ev} :
      Trace ao (.map (sp ++ ["map"]) (some sp)) e → Trace ao (.kids sp) e
  | pkidsNil {sp : Span} : Trace ao (.pkids sp) []
  | pkidsRun {sp : Span} {e : List Ev} :
      Trace ao (.run (sp ++ ["run"]) (some sp) none) e → Trace ao (.pkids sp) e
  | mapMk {root : Span} {parent : Option Span} {nm s : String} {n : Nat} {its : List Ev} :
      Trace ao (.items root 0) its →
      Trace ao (.map root parent)
        (evRunStart root parent nm ("map:" ++ toString n) :: its ++ [evRunEnd root parent nm s])
  | itemsNil {root : Span} {i : Nat} : Trace ao (.items root i) []
  | itemsCons {root : Span} {i : Nat} {st : Option String} {e rest : List Ev} :
      Trace ao (.run (root ++ [toString i]) (some root) st) e → (st = none → ao = true) →
      Trace ao (.items root (i + 1)) rest →
      Trace ao (.items root i) (e ++ rest)

/-- a terminated run -/
abbrev RunTrace (ao : Bool) (root : Span) (parent : Option Span) (status : String) (evs : List Ev) : Prop :=
  Trace ao (.run root parent (some status)) evs
/-- a paused run (no `RunEnd`) -/
abbrev PausedTrace (ao : Bool) (root : Span) (parent : Option Span) (evs : List Ev) : Prop :=
  Trace ao (.run root parent none) evs
/-- one closed node block of the run with span `runSpan` -/
abbrev NodeTrace (ao : Bool) (runSpan : Span) (label : String) (evs : List Ev) : Prop :=
  Trace ao (.node runSpan label) evs

theorem Trace.blocks_append {ao o1 o : Bool} {root : Span} {ls1 ls2 : List String} {e1 e2 : List Ev}
    (h1 : Trace ao (.blocks o1 root ls1) e1) (h2 : Trace ao (.blocks o root ls2) e2)
    (ho : o1 = true → o = true) : Trace ao (.blocks o root (ls1 ++ ls2)) (e1 ++ e2) := by
  generalize hs : Shape.blocks o1 root ls1 = sh at h1
  induction h1 generalizing o1 ls1 with
  | bnil => cases hs; simpa using h2
  | bcons hb hr _ ihr =>
    cases hs
    rw [List.append_assoc, List.cons_append]
    exact .bcons hb (ihr ho rfl)
  | bconsP hb hr _ ihr =>
    cases hs
    have := ho rfl
    subst this
    rw [List.append_assoc, List.cons_append]
    exact .bconsP hb (ihr (fun _ => rfl) rfl)
  | _ => cases hs

theorem Trace.blocks_weaken {ao o1 o : Bool} {root : Span} {ls : List String} {e : List Ev}
    (h : Trace ao (.blocks o1 root ls) e) (ho : o1 = true → o = true) : Trace ao (.blocks o root ls) e := by
  have := Trace.blocks_append h (Trace.bnil (ao := ao) (o := o) (root := root)) ho
  simpa using this

/-! ## labels are injective -/

theorem list_split_last {α} (c : α) : ∀ (l1 l2 d1 d2 : List α), c ∉ d1 → c ∉ d2 →
    l1 ++ c :: d1 = l2 ++ c :: d2 → l1 = l2 ∧ d1 = d2
  | [], [], d1, d2, _, _, h => by simp at h; exact ⟨rfl, h⟩
  | [], y :: l2, d1, d2, h1, _, h => by
    simp at h
    obtain ⟨_, h⟩ := h
    exact absurd (by rw [h]; simp) h1
  | x :: l1, [], d1, d2, _, h2, h => by
    simp at h
    obtain ⟨_, h⟩ := h
    exact absurd (by rw [← h]; simp) h2
  | x :: l1, y :: l2, d1, d2, h1, h2, h => by
    simp only [List.cons_append, List.cons.injEq] at h
    obtain ⟨hxy, h⟩ := h
    obtain ⟨a, b⟩ := list_split_last c l1 l2 d1 d2 h1 h2 h
    exact ⟨by rw [hxy, a], b⟩

theorem hash_not_mem_digits (k : Nat) : '#' ∉ Nat.toDigits 10 k := by
  intro h
  have := Nat.isDigit_of_mem_toDigits (by decide) (by decide) h
  simp [Char.isDigit] at this

theorem toDigits_inj {a b : Nat} (h : Nat.toDigits 10 a = Nat.toDigits 10 b) : a = b := by
  have ha := Nat.ofDigitChars_toDigits (b := 10) (n := a) (by decide) (by decide)
  have hb := Nat.ofDigitChars_toDigits (b := 10) (n := b) (by decide) (by decide)
  rw [h] at ha
  exact ha.symm.trans hb

theorem toString_nat_inj {a b : Nat} (h : toString a = toString b) : a = b := by
  apply toDigits_inj
  have := congrArg String.toList h
  simpa using this

theorem lab_inj {n1 n2 : String} {k1 k2 : Nat} (h : lab n1 k1 = lab n2 k2) : n1 = n2 ∧ k1 = k2 := by
  unfold lab at h
  have h' := congrArg String.toList h
  simp only [String.toList_append, Nat.toString_eq_repr, Nat.toList_repr] at h'
  have hh : ("#" : String).toList = ['#'] := by decide
  rw [hh, List.append_assoc, List.append_assoc] at h'
  obtain ⟨a, b⟩ := list_split_last '#' _ _ _ _ (hash_not_mem_digits k1) (hash_not_mem_digits k2) h'
  exact ⟨String.toList_inj.1 a, toDigits_inj b⟩

/-! ## what one node logs -/

def statusStr : Status → Option String
  | .completed => some "completed"
  | .failed => some "failed"
  | .paused => none

/-- nested runs never pause -/
def NestedNoPause (nested : Nested) : Prop := ∀ gi vals sp, (nested.run gi vals sp).status ≠ .paused

/-- what the generation lemmas need to know about the nested callbacks -/
structure NestedOK (ao : Bool) (nested : Nested) : Prop where
  runNoShut : ∀ gi vals sp, NoShut (nested.run gi vals sp).log
  runClosed : ∀ gi vals sp, (nested.run gi vals sp).status ≠ .paused →
    Trace ao (.kids sp) (evsOf (nested.run gi vals sp).log)
  runPaused : ∀ gi vals sp, (nested.run gi vals sp).status = .paused →
    (nested.run gi vals sp).raised = false ∧ (∃ p, (nested.run gi vals sp).pause = some p) ∧
    Trace ao (.pkids sp) (evsOf (nested.run gi vals sp).log)
  mapNoShut : ∀ gi vals mo mm em sp, NoShut (nested.map gi vals mo mm em sp).log
  mapTrace : ∀ gi vals mo mm em sp, Trace ao (.kids sp) (evsOf (nested.map gi vals mo mm em sp).log)
  noPause : ao = false → NestedNoPause nested

theorem execFn_pause (sem : Sem) (gi : Nat) (nd : NodeD) (inputs : AL Val) :
    (execFn sem gi nd inputs).pause = none := by
  unfold execFn
  simp only []
  split
  · rfl
  · rfl
  · split <;> rfl

theorem execIfElse_pause (sem : Sem) (gi : Nat) (nd : NodeD) (inputs : AL Val) :
    (execIfElse sem gi nd inputs).pause = none := by
  unfold execIfElse
  simp only []
  split <;> rfl

theorem execRoute_pause (sem : Sem) (gi : Nat) (nd : NodeD) (inputs : AL Val) :
    (execRoute sem gi nd inputs).pause = none := by
  unfold execRoute
  simp only []
  split
  · rfl
  · split <;> rfl
  · split <;> rfl
  · rfl

/-- the four facts about the log of one executed node -/
structure NodeLogOK (ao : Bool) (nested : Nested) (nd : NodeD) (sp : Span) (out : NodeOut) : Prop where
  noShut : NoShut out.log
  closed : out.pause = none → Trace ao (.kids sp) (evsOf out.log)
  paused : ∀ p, out.pause = some p → Trace ao (.pkids sp) (evsOf out.log)
  noPause : NestedNoPause nested → nd.kind ≠ .interrupt → out.pause = none

theorem evsOf_calls (f : String) (a : AL Val) : evsOf [Log.call f a] = [] := rfl

theorem execGraphNode_ok {ao : Bool} {nested : Nested} (hn : NestedOK ao nested) (nd : NodeD) (inputs : AL Val)
    (sp : Span) : NodeLogOK ao nested nd sp (execGraphNode nested nd inputs sp) := by
  unfold execGraphNode
  simp only []
  split
  · split
    · exact ⟨hn.mapNoShut _ _ _ _ _ _, fun _ => hn.mapTrace _ _ _ _ _ _, fun p h => (by cases h), fun _ _ => rfl⟩
    · split
      · exact ⟨hn.mapNoShut _ _ _ _ _ _, fun _ => hn.mapTrace _ _ _ _ _ _, fun p h => (by cases h), fun _ _ => rfl⟩
      · exact ⟨hn.mapNoShut _ _ _ _ _ _, fun _ => hn.mapTrace _ _ _ _ _ _, fun p h => (by cases h), fun _ _ => rfl⟩
  · split
    · rename_i hr
      refine ⟨hn.runNoShut _ _ _, fun _ => hn.runClosed _ _ _ ?_, fun p h => (by cases h), fun _ _ => rfl⟩
      intro hp
      have := (hn.runPaused _ _ _ hp).1
      rw [this] at hr
      cases hr
    · split
      · rename_i p hs hp
        refine ⟨hn.runNoShut _ _ _, fun h => (by cases h), fun _ _ => (hn.runPaused _ _ _ hs).2.2, ?_⟩
        intro hnp _
        exact absurd hs (hnp _ _ _)
      · rename_i hcatch
        refine ⟨hn.runNoShut _ _ _, fun _ => hn.runClosed _ _ _ ?_, fun p h => (by cases h), fun _ _ => rfl⟩
        intro hs
        obtain ⟨_, ⟨p, hp⟩, _⟩ := hn.runPaused _ _ _ hs
        exact hcatch p hs hp

theorem execInterrupt_evs (sem : Sem) (gi : Nat) (nd : NodeD) (inputs : AL Val) (ns : GState) :
    evsOf (execInterrupt sem gi nd inputs ns).log = [] ∧ NoShut (execInterrupt sem gi nd inputs ns).log := by
  rcases execInterrupt_log sem gi nd inputs ns with h | h <;> rw [h]
  · exact ⟨rfl, NoShut.nil⟩
  · exact ⟨rfl, NoShut.call _ _⟩

theorem execNode_ok {ao : Bool} {nested : Nested} (hn : NestedOK ao nested) (sem : Sem) (gi : Nat) (nd : NodeD)
    (inputs : AL Val) (ns : GState) (sp : Span) :
    NodeLogOK ao nested nd sp (execNode nested sem gi nd inputs ns sp) := by
  unfold execNode
  split
  · refine ⟨?_, ?_, ?_, fun _ _ => execFn_pause _ _ _ _⟩
    · rw [execFn_log]; exact NoShut.call _ _
    · intro _; rw [execFn_log]; exact .kidsNil
    · intro p h; rw [execFn_pause] at h; cases h
  · refine ⟨?_, ?_, ?_, fun _ _ => execIfElse_pause _ _ _ _⟩
    · rw [execIfElse_log]; exact NoShut.call _ _
    · intro _; rw [execIfElse_log]; exact .kidsNil
    · intro p h; rw [execIfElse_pause] at h; cases h
  · refine ⟨?_, ?_, ?_, fun _ _ => execRoute_pause _ _ _ _⟩
    · rw [execRoute_log]; exact NoShut.call _ _
    · intro _; rw [execRoute_log]; exact .kidsNil
    · intro p h; rw [execRoute_pause] at h; cases h
  · exact execGraphNode_ok hn nd inputs sp
  · rename_i hk
    obtain ⟨h1, h2⟩ := execInterrupt_evs sem gi nd inputs ns
    refine ⟨h2, fun _ => by rw [h1]; exact .kidsNil, fun _ _ => by rw [h1]; exact .pkidsNil, ?_⟩
    intro _ hne
    exact absurd hk hne

/-! ## one synchronous superstep -/

def StepOut.isPause : StepOut → Bool
  | .pause _ _ _ => true
  | _ => false

theorem routeEvent_cases (root : Span) (k : Nat) (nd : NodeD) (ns : GState) :
    routeEvent root k nd ns = [] ∨ ∃ info, routeEvent root k nd ns = [Log.ev (evRoute root nd.name k info)] := by
  unfold routeEvent
  split
  · split
    · exact Or.inr ⟨_, rfl⟩
    · exact Or.inl rfl
  · exact Or.inl rfl

theorem routeEvent_noShut (root : Span) (k : Nat) (nd : NodeD) (ns : GState) : NoShut (routeEvent root k nd ns) := by
  rcases routeEvent_cases root k nd ns with h | ⟨i, h⟩ <;> rw [h]
  · exact NoShut.nil
  · exact NoShut.ev _

theorem routeEvent_evs (root : Span) (k : Nat) (nd : NodeD) (ns : GState) :
    evsOf (routeEvent root k nd ns) = [] ∨ ∃ info, evsOf (routeEvent root k nd ns) = [evRoute root nd.name k info] := by
  rcases routeEvent_cases root k nd ns with h | ⟨i, h⟩ <;> rw [h]
  · exact Or.inl rfl
  · exact Or.inr ⟨i, rfl⟩

theorem stepSync_trace {ao : Bool} {nested : Nested} (hn : NestedOK ao nested) (sem : Sem) (gi : Nat)
    (g : GraphD) (root : Span) (k : Nat) (s : GState) :
    ∀ (rs : List NodeD) (ns : GState) (log : List Log) (out : StepOut),
      stepSync nested sem gi g root k s rs ns log = out →
      ∃ l' ls, out.log = log ++ l' ∧ NoShut l' ∧ ls.Sublist (rs.map fun nd => lab nd.name k) ∧
        Trace ao (.blocks out.isPause root ls) (evsOf l') := by
  intro rs
  induction rs with
  | nil =>
    intro ns log out h
    unfold stepSync at h
    subst h
    exact ⟨[], [], by simp [StepOut.log], NoShut.nil, List.Sublist.refl _, .bnil⟩
  | cons nd rest ih =>
    intro ns log out h
    unfold stepSync at h
    split at h
    · subst h
      exact ⟨[], [], by simp [StepOut.log], NoShut.nil, List.nil_sublist _, .bnil⟩
    · rename_i inputs _
      have hx := execNode_ok hn sem gi nd inputs ns (nodeSpanOf root k nd)
      simp only [] at h
      split at h
      · rename_i p hp
        subst h
        refine ⟨[Log.ev (evNodeStart (root ++ [lab nd.name k]) root nd.name)] ++
            (execNode nested sem gi nd inputs ns (nodeSpanOf root k nd)).log ++
            [Log.ev (evNodeError (root ++ [lab nd.name k]) root nd.name)], [lab nd.name k], ?_, ?_, ?_, ?_⟩
        · simp [StepOut.log, evNodeStart, evNodeError, nodeSpanOf, lab, List.append_assoc]
        · exact ((NoShut.ev _).append hx.noShut).append (NoShut.ev _)
        · simp
        · have := Trace.bconsP (Trace.pnodeErr (nm := nd.name) (k := k) (root := root) (hx.paused p hp))
            (Trace.bnil (ao := ao) (o := true) (root := root))
          simpa [StepOut.isPause] using this
      · split at h
        · rename_i _ hp _ e he
          subst h
          refine ⟨[Log.ev (evNodeStart (root ++ [lab nd.name k]) root nd.name)] ++
              (execNode nested sem gi nd inputs ns (nodeSpanOf root k nd)).log ++
              [Log.ev (evNodeError (root ++ [lab nd.name k]) root nd.name)], [lab nd.name k], ?_, ?_, ?_, ?_⟩
          · simp [StepOut.log, evNodeStart, evNodeError, nodeSpanOf, lab, List.append_assoc]
          · exact ((NoShut.ev _).append hx.noShut).append (NoShut.ev _)
          · simp
          · have := Trace.bcons (Trace.nodeErr (nm := nd.name) (k := k) (root := root) (hx.closed hp))
              (Trace.bnil (ao := ao) (o := false) (root := root))
            simpa [StepOut.isPause] using this
        · rename_i _ hp _ outs ho
          obtain ⟨l'', ls', hlog, hns, hsub, htr⟩ := ih _ _ _ h
          have aux : ∀ R : List Log, NoShut R →
              (evsOf R = [] ∨ ∃ info, evsOf R = [evRoute root nd.name k info]) →
              out.log = (log ++ [Log.ev (evNodeStart (root ++ [lab nd.name k]) root nd.name)] ++
                (execNode nested sem gi nd inputs ns (nodeSpanOf root k nd)).log ++ R ++
                [Log.ev (evNodeEnd (root ++ [lab nd.name k]) root nd.name)]) ++ l'' →
              ∃ l' ls, out.log = log ++ l' ∧ NoShut l' ∧
                ls.Sublist (List.map (fun nd => lab nd.name k) (nd :: rest)) ∧
                Trace ao (.blocks out.isPause root ls) (evsOf l') := by
            intro R hRn hR hlog
            refine ⟨[Log.ev (evNodeStart (root ++ [lab nd.name k]) root nd.name)] ++
              (execNode nested sem gi nd inputs ns (nodeSpanOf root k nd)).log ++ R ++
              [Log.ev (evNodeEnd (root ++ [lab nd.name k]) root nd.name)] ++ l'', lab nd.name k :: ls', ?_, ?_, ?_, ?_⟩
            · rw [hlog]; simp [List.append_assoc]
            · exact ((((NoShut.ev _).append hx.noShut).append hRn).append (NoShut.ev _)).append hns
            · simp only [List.map_cons]; exact hsub.cons_cons _
            · have hb := Trace.nodeEnd (nm := nd.name) (k := k) (root := root) (hx.closed hp) hR
              have := Trace.bcons hb htr
              simpa [List.append_assoc] using this
          exact aux _ (routeEvent_noShut _ _ _ _) (routeEvent_evs _ _ _ _) hlog

/-! ## one asynchronous superstep -/

theorem asyncOne_ok {ao : Bool} {nested : Nested} (hn : NestedOK ao nested) (sem : Sem) (gi : Nat) (g : GraphD)
    (root : Span) (k : Nat) (s : GState) (nd : NodeD) :
    NoShut (asyncOne₂ nested sem gi g root k s nd).out.log ∧ (asyncOne₂ nested sem gi g root k s nd).nd = nd ∧
    (evsOf (asyncOne₂ nested sem gi g root k s nd).out.log = [] ∨
     ((asyncOne₂ nested sem gi g root k s nd).out.pause = none ∧
        Trace ao (.node root (lab nd.name k)) (evsOf (asyncOne₂ nested sem gi g root k s nd).out.log)) ∨
     ((∃ p, (asyncOne₂ nested sem gi g root k s nd).out.pause = some p) ∧
        Trace ao (.pnode root (lab nd.name k)) (evsOf (asyncOne₂ nested sem gi g root k s nd).out.log))) ∧
    (NestedNoPause nested → nd.kind ≠ .interrupt → (asyncOne₂ nested sem gi g root k s nd).out.pause = none) := by
  unfold asyncOne₂
  split
  · exact ⟨NoShut.nil, rfl, Or.inl rfl, fun _ _ => rfl⟩
  · rename_i inputs _
    have hx := execNode_ok hn sem gi nd inputs s (nodeSpanOf root k nd)
    simp only []
    split
    · rename_i p hp
      refine ⟨?_, trivial, Or.inr (Or.inr ⟨⟨p, hp⟩, ?_⟩), fun a b => hx.noPause a b⟩
      · exact ((NoShut.ev _).append hx.noShut).append NoShut.nil
      · have := Trace.pnodeOpen (nm := nd.name) (k := k) (root := root) (hx.paused p hp)
        simpa [evNodeStart, nodeSpanOf, lab] using this
    · rename_i outs hp ho
      generalize hRe : routeEvent root k nd _ = R
      have hR1 : NoShut R := hRe ▸ routeEvent_noShut _ _ _ _
      have hR2 : evsOf R = [] ∨ ∃ info, evsOf R = [evRoute root nd.name k info] := hRe ▸ routeEvent_evs _ _ _ _
      refine ⟨?_, trivial, Or.inr (Or.inl ⟨hp, ?_⟩), fun a b => hx.noPause a b⟩
      · exact ((NoShut.ev _).append hx.noShut).append (hR1.append (NoShut.ev _))
      · have := Trace.nodeEnd (nm := nd.name) (k := k) (root := root) (hx.closed hp) hR2
        simpa [evNodeStart, evNodeEnd, nodeSpanOf, lab, List.append_assoc] using this
    · rename_i e hp he
      refine ⟨?_, trivial, Or.inr (Or.inl ⟨hp, ?_⟩), fun a b => hx.noPause a b⟩
      · exact ((NoShut.ev _).append hx.noShut).append (NoShut.ev _)
      · have := Trace.nodeErr (nm := nd.name) (k := k) (root := root) (hx.closed hp)
        simpa [evNodeStart, evNodeError, nodeSpanOf, lab, List.append_assoc] using this

theorem asyncList_trace {ao : Bool} {nested : Nested} (hn : NestedOK ao nested) (sem : Sem) (gi : Nat) (g : GraphD)
    (root : Span) (k : Nat) (s : GState) (o : Bool) :
    ∀ (Y : List AsyncOne), (∀ r ∈ Y, ∃ nd, r = asyncOne₂ nested sem gi g root k s nd) →
      (∀ r ∈ Y, (∃ p, r.out.pause = some p) → o = true) →
      ∃ ls, ls.Sublist (Y.map fun r => lab r.nd.name k) ∧ NoShut (Y.flatMap (·.out.log)) ∧
        Trace ao (.blocks o root ls) (evsOf (Y.flatMap (·.out.log))) := by
  intro Y
  induction Y with
  | nil => intro _ _; exact ⟨[], List.Sublist.refl _, NoShut.nil, .bnil⟩
  | cons r Y ih =>
    intro hY ho
    obtain ⟨ls, hsub, hns, htr⟩ := ih (fun r hr => hY r (List.mem_cons_of_mem _ hr))
      (fun r hr => ho r (List.mem_cons_of_mem _ hr))
    obtain ⟨nd, rfl⟩ := hY r List.mem_cons_self
    obtain ⟨h1, h2, h3, _⟩ := asyncOne_ok hn sem gi g root k s nd
    simp only [List.flatMap_cons, List.map_cons, evsOf_append]
    rcases h3 with h3 | ⟨_, h3⟩ | ⟨hp, h3⟩
    · refine ⟨ls, hsub.cons _, h1.append hns, ?_⟩
      rw [h3]; exact htr
    · refine ⟨lab nd.name k :: ls, ?_, h1.append hns, .bcons h3 htr⟩
      rw [h2]; exact hsub.cons_cons _
    · have := ho _ List.mem_cons_self hp
      subst this
      refine ⟨lab nd.name k :: ls, ?_, h1.append hns, .bconsP h3 htr⟩
      rw [h2]; exact hsub.cons_cons _

theorem nodup_map_of_inj {α β} (f : α → β) (hf : ∀ a b, f a = f b → a = b) :
    ∀ (l : List α), l.Nodup → (l.map f).Nodup
  | [], _ => List.nodup_nil
  | a :: l, h => by
    rw [List.nodup_cons] at h
    rw [List.map_cons, List.nodup_cons]
    refine ⟨?_, nodup_map_of_inj f hf l h.2⟩
    intro hm
    obtain ⟨b, hb, hfb⟩ := List.mem_map.1 hm
    have := hf _ _ hfb
    subst this
    exact h.1 hb

theorem nodup_labels (k : Nat) (l : List NodeD) (h : (l.map (·.name)).Nodup) :
    (l.map fun nd => lab nd.name k).Nodup := by
  have := nodup_map_of_inj (fun n => lab n k) (fun a b hab => (lab_inj hab).1) _ h
  rwa [List.map_map] at this

theorem asyncRs₂_nodup (rs : List NodeD) (h : (rs.map (·.name)).Nodup) : ((asyncRs₂ rs).map (·.name)).Nodup := by
  unfold asyncRs₂
  split
  · simp
  · exact h

theorem stepAsync_log₂ (nested : Nested) (sem : Sem) (gi : Nat) (g : GraphD) (root : Span) (k : Nat)
    (order : List Nat) (s : GState) (rs : List NodeD) :
    (stepAsync nested sem gi g root k order s rs).log =
      (permute ((asyncRs₂ rs).map (asyncOne₂ nested sem gi g root k s)) order).flatMap (·.out.log) := by
  rw [stepAsync_eq]
  simp only []
  split
  · rfl
  · split <;> rfl

theorem stepAsync_pause_of {nested : Nested} (hnp : NestedNoPause nested) {ao : Bool} (hn : NestedOK ao nested)
    (sem : Sem) (gi : Nat) (g : GraphD) (root : Span) (k : Nat)
    (order : List Nat) (s : GState) (rs : List NodeD) (r : AsyncOne)
    (hr : r ∈ (asyncRs₂ rs).map (asyncOne₂ nested sem gi g root k s)) (p : PauseInfo) (hp : r.out.pause = some p) :
    (stepAsync nested sem gi g root k order s rs).isPause = true := by
  obtain ⟨nd, hnd, rfl⟩ := List.mem_map.1 hr
  have hkind : nd.kind = .interrupt := by
    apply Classical.byContradiction
    intro hne
    have := (asyncOne_ok hn sem gi g root k s nd).2.2.2 hnp hne
    rw [this] at hp; cases hp
  rw [stepAsync_eq]
  simp only []
  have hi : nd.isInterrupt = true := by simp [NodeD.isInterrupt, hkind]
  -- an interrupt node is ready, so the step runs exactly one interrupt node
  cases hf : rs.find? (·.isInterrupt) with
  | none =>
    unfold asyncRs₂ at hnd
    rw [hf] at hnd
    have := List.find?_eq_none.1 hf nd hnd
    simp [hi] at this
  | some i =>
    have hrs : asyncRs₂ rs = [i] := by unfold asyncRs₂; rw [hf]
    rw [hrs] at hnd ⊢
    rw [List.mem_singleton] at hnd
    subst hnd
    have hb : isBad (asyncOne₂ nested sem gi g root k s nd) = true := by simp [isBad, hp]
    simp only [List.map_cons, List.map_nil, List.find?_cons, hb]
    split
    · rfl
    · rename_i h _; rw [hp] at h; cases h
    · rename_i h _; rw [hp] at h; cases h

theorem stepAsync_trace {ao : Bool} {nested : Nested} (hn : NestedOK ao nested) (sem : Sem) (gi : Nat) (g : GraphD)
    (root : Span) (k : Nat) (order : List Nat) (s : GState) (rs : List NodeD)
    (hnd : (rs.map (·.name)).Nodup) :
    ∃ ls, NoShut (stepAsync nested sem gi g root k order s rs).log ∧ ls.Nodup ∧ (∀ l ∈ ls, ∃ nm, l = lab nm k) ∧
      Trace ao (.blocks ((stepAsync nested sem gi g root k order s rs).isPause || ao) root ls)
        (evsOf (stepAsync nested sem gi g root k order s rs).log) := by
  have hperm := permute_perm ((asyncRs₂ rs).map (asyncOne₂ nested sem gi g root k s)) order
  have hY : ∀ r ∈ permute ((asyncRs₂ rs).map (asyncOne₂ nested sem gi g root k s)) order,
      ∃ nd, r = asyncOne₂ nested sem gi g root k s nd := by
    intro r hr
    obtain ⟨nd, _, h⟩ := List.mem_map.1 (hperm.mem_iff.1 hr)
    exact ⟨nd, h.symm⟩
  have ho : ∀ r ∈ permute ((asyncRs₂ rs).map (asyncOne₂ nested sem gi g root k s)) order,
      (∃ p, r.out.pause = some p) → ((stepAsync nested sem gi g root k order s rs).isPause || ao) = true := by
    intro r hr ⟨p, hp⟩
    cases ao with
    | true => simp
    | false =>
      rw [stepAsync_pause_of (hn.noPause rfl) hn sem gi g root k order s rs r (hperm.mem_iff.1 hr) p hp]
      rfl
  obtain ⟨ls, hsub, hns, htr⟩ := asyncList_trace hn sem gi g root k s _ _ hY ho
  rw [stepAsync_log₂]
  refine ⟨ls, hns, ?_, ?_, htr⟩
  · refine hsub.nodup ?_
    have h1 := hperm.map (fun r => lab r.nd.name k)
    rw [h1.nodup_iff, List.map_map]
    have : (fun r : AsyncOne => lab r.nd.name k) ∘ asyncOne₂ nested sem gi g root k s = fun nd => lab nd.name k := by
      funext nd
      simp only [Function.comp]
      rw [(asyncOne_ok hn sem gi g root k s nd).2.1]
    rw [this]
    exact nodup_labels k _ (asyncRs₂_nodup rs hnd)
  · intro l hl
    obtain ⟨r, _, h⟩ := List.mem_map.1 (hsub.subset hl)
    exact ⟨_, h.symm⟩

/-! ## the loop -/

def LoopOut.isPause : LoopOut → Bool
  | .pause _ _ _ _ => true
  | _ => false

theorem ready_nodup (g : GraphD) (act : Option (List Name)) (s : GState) (h : (g.nodes.map (·.name)).Nodup) :
    ((ready g act s).1.map (·.name)).Nodup :=
  ((ready_sublist g act s).map _).nodup h

theorem runLoop_trace {ao : Bool} (step : Nat → GState → List NodeD → StepOut) (g : GraphD)
    (act : Option (List Name)) (maxIter : Nat) (root : Span) (hnd : (g.nodes.map (·.name)).Nodup)
    (hstep : ∀ k s rs, (rs.map (·.name)).Nodup →
      ∃ ls, NoShut (step k s rs).log ∧ ls.Nodup ∧ (∀ l ∈ ls, ∃ nm, l = lab nm k) ∧
        Trace ao (.blocks ((step k s rs).isPause || ao) root ls) (evsOf (step k s rs).log)) :
    ∀ (fuel k : Nat) (s : GState) (log : List Log) (out : LoopOut),
      runLoop step g act maxIter fuel k s log = out →
      ∃ l' ls, out.log = log ++ l' ∧ NoShut l' ∧ ls.Nodup ∧ (∀ l ∈ ls, ∃ nm j, l = lab nm j ∧ k ≤ j) ∧
        Trace ao (.blocks (out.isPause || ao) root ls) (evsOf l') := by
  intro fuel
  induction fuel with
  | zero =>
    intro k s log out h
    unfold runLoop at h
    simp only [] at h
    split at h <;> subst h <;>
      exact ⟨[], [], by simp [LoopOut.log], NoShut.nil, List.nodup_nil, by simp, .bnil⟩
  | succ fuel ih =>
    intro k s log out h
    unfold runLoop at h
    split at h
    · subst h
      exact ⟨[], [], by simp [LoopOut.log], NoShut.nil, List.nodup_nil, by simp, .bnil⟩
    · rename_i rs s1 _ heq
      have hrs : (rs.map (·.name)).Nodup := by
        have := ready_nodup g act s hnd
        rw [heq] at this; exact this
      obtain ⟨ls1, hns1, hnd1, hl1, htr1⟩ := hstep k s1 rs hrs
      split at h
      · rename_i ns l hst
        rw [hst] at hns1 htr1
        simp only [StepOut.log, StepOut.isPause] at hns1 htr1
        obtain ⟨l'', ls2, hlog, hns2, hnd2, hl2, htr2⟩ := ih _ _ _ _ h
        refine ⟨l ++ l'', ls1 ++ ls2, by rw [hlog, List.append_assoc], hns1.append hns2, ?_, ?_, ?_⟩
        · rw [List.nodup_append]
          refine ⟨hnd1, hnd2, ?_⟩
          intro a ha b hb hab
          obtain ⟨n1, h1⟩ := hl1 a ha
          obtain ⟨n2, j, h2, hj⟩ := hl2 b hb
          rw [h1, h2] at hab
          have := (lab_inj hab).2
          omega
        · intro l hl
          rcases List.mem_append.1 hl with hl | hl
          · obtain ⟨n1, h1⟩ := hl1 l hl
            exact ⟨n1, k, h1, Nat.le_refl _⟩
          · obtain ⟨n2, j, h2, hj⟩ := hl2 l hl
            exact ⟨n2, j, h2, by omega⟩
        · rw [evsOf_append]
          exact htr1.blocks_append htr2 (by intro h; simp at h; simp [h])
      · rename_i e ps l hst
        rw [hst] at hns1 htr1
        simp only [StepOut.log, StepOut.isPause] at hns1 htr1
        subst h
        refine ⟨l, ls1, rfl, hns1, hnd1, ?_, htr1⟩
        intro l hl
        obtain ⟨n1, h1⟩ := hl1 l hl
        exact ⟨n1, k, h1, Nat.le_refl _⟩
      · rename_i p l hst
        rw [hst] at hns1 htr1
        simp only [StepOut.log, StepOut.isPause] at hns1 htr1
        subst h
        refine ⟨l, ls1, rfl, hns1, hnd1, ?_, htr1⟩
        intro l hl
        obtain ⟨n1, h1⟩ := hl1 l hl
        exact ⟨n1, k, h1, Nat.le_refl _⟩

/-! ## `runGraph` -/

/-- the shutdown a run appends: only a top-level run shuts the processors down -/
def shutOf (parent : Option Span) : List Log := if parent.isNone then [Log.shutdown] else []

theorem step_trace {ao : Bool} {nested : Nested} (hn : NestedOK ao nested) (sem : Sem) (runner : Runner) (gi : Nat)
    (g : GraphD) (span : Span) (k : Nat) (s : GState) (rs : List NodeD) (hnd : (rs.map (·.name)).Nodup) :
    ∃ ls, NoShut (match runner with
        | .sync => stepSync nested sem gi g span k s rs s []
        | .async order => stepAsync nested sem gi g span k (order k) s rs).log ∧ ls.Nodup ∧
      (∀ l ∈ ls, ∃ nm, l = lab nm k) ∧
      Trace ao (.blocks ((match runner with
        | .sync => stepSync nested sem gi g span k s rs s []
        | .async order => stepAsync nested sem gi g span k (order k) s rs).isPause || ao) span ls)
        (evsOf (match runner with
        | .sync => stepSync nested sem gi g span k s rs s []
        | .async order => stepAsync nested sem gi g span k (order k) s rs).log) := by
  cases runner with
  | sync =>
    obtain ⟨l', ls, hlog, hns, hsub, htr⟩ := stepSync_trace hn sem gi g span k s rs s [] _ rfl
    simp only [List.nil_append] at hlog
    simp only []
    rw [hlog]
    refine ⟨ls, hns, hsub.nodup (nodup_labels k rs hnd), ?_, htr.blocks_weaken (by intro h; simp [h])⟩
    intro l hl
    obtain ⟨nd, _, h⟩ := List.mem_map.1 (hsub.subset hl)
    exact ⟨_, h.symm⟩
  | async order => exact stepAsync_trace hn sem gi g span k (order k) s rs hnd

/-- the `RunEnd` a run emits: none when it pauses -/
def endOf (span : Span) (parent : Option Span) (g : GraphD) : Status → List Log
  | .completed => [runEndEv span parent g "completed"]
  | .failed => [runEndEv span parent g "failed"]
  | .paused => []

def Status.isPaused : Status → Bool
  | .paused => true
  | _ => false

/-- the exact shape of a run's log: `RunStart`, the node blocks, `RunEnd` (unless paused), shutdown (if top-level) -/
theorem runGraph_shape {ao : Bool} {nested : Nested} (hn : NestedOK ao nested) (sem : Sem) (runner : Runner)
    (gi : Nat) (g : GraphD) (hnd : (g.nodes.map (·.name)).Nodup) (values : AL Val) (cfg : RunCfg) (span : Span)
    (parent : Option Span) :
    ∃ l' ls, (runGraph nested sem runner gi g values cfg span parent).log =
        [runStartEv span parent g ""] ++ l' ++
          endOf span parent g (runGraph nested sem runner gi g values cfg span parent).status ++ shutOf parent ∧
      NoShut l' ∧ ls.Nodup ∧
      Trace ao (.blocks ((runGraph nested sem runner gi g values cfg span parent).status.isPaused || ao) span ls)
        (evsOf l') ∧
      ((runGraph nested sem runner gi g values cfg span parent).status = .paused →
        (runGraph nested sem runner gi g values cfg span parent).raised = false ∧
        ∃ p, (runGraph nested sem runner gi g values cfg span parent).pause = some p) := by
  have hloop := runLoop_trace (ao := ao) (fun k s rs => match runner with
      | .sync => stepSync nested sem gi g span k s rs s []
      | .async order => stepAsync nested sem gi g span k (order k) s rs) g (activeNodeSet g) cfg.maxIter span hnd
    (fun k s rs h => step_trace hn sem runner gi g span k s rs h) cfg.maxIter 0 (initState values)
    [runStartEv span parent g ""]
  generalize hr : runGraph nested sem runner gi g values cfg span parent = r
  unfold runGraph at hr
  simp only [] at hr
  split at hr
  · rename_i st log steps heq
    obtain ⟨l', ls, hlog, hns, hnodup, _, htr⟩ := hloop _ heq
    simp only [LoopOut.log, LoopOut.isPause, Bool.false_or] at hlog htr
    split at hr
    · subst hr
      exact ⟨l', ls, by simp only [hlog]; rfl, hns, hnodup, by simpa [Status.isPaused] using htr, fun h => by cases h⟩
    · split at hr <;> subst hr <;>
        exact ⟨l', ls, by simp only [hlog]; rfl, hns, hnodup, by simpa [Status.isPaused] using htr, fun h => by cases h⟩
  · rename_i e ps log steps heq
    obtain ⟨l', ls, hlog, hns, hnodup, _, htr⟩ := hloop _ heq
    simp only [LoopOut.log, LoopOut.isPause, Bool.false_or] at hlog htr
    split at hr <;> subst hr <;>
      exact ⟨l', ls, by simp only [hlog]; rfl, hns, hnodup, by simpa [Status.isPaused] using htr, fun h => by cases h⟩
  · rename_i p ps log steps heq
    obtain ⟨l', ls, hlog, hns, hnodup, _, htr⟩ := hloop _ heq
    simp only [LoopOut.log, LoopOut.isPause, Bool.true_or] at hlog htr
    subst hr
    exact ⟨l', ls, by simp only [hlog, endOf, List.append_nil]; rfl, hns, hnodup,
      by simpa [Status.isPaused] using htr, fun _ => ⟨rfl, _, rfl⟩⟩

theorem evsOf_shutOf (parent : Option Span) : evsOf (shutOf parent) = [] := by
  unfold shutOf; split <;> rfl

theorem evsOf_endOf (span : Span) (parent : Option Span) (g : GraphD) (st : Status) :
    evsOf (endOf span parent g st) = match statusStr st with
      | some s => [evRunEnd span parent g.name s]
      | none => [] := by
  cases st <;> rfl

theorem runGraph_trace {ao : Bool} {nested : Nested} (hn : NestedOK ao nested) (sem : Sem) (runner : Runner)
    (gi : Nat) (g : GraphD) (hnd : (g.nodes.map (·.name)).Nodup) (values : AL Val) (cfg : RunCfg) (span : Span)
    (parent : Option Span) :
    ∃ body, (runGraph nested sem runner gi g values cfg span parent).log = body ++ shutOf parent ∧ NoShut body ∧
      Trace ao (.run span parent (statusStr (runGraph nested sem runner gi g values cfg span parent).status))
        (evsOf body) ∧
      ((runGraph nested sem runner gi g values cfg span parent).status = .paused →
        (runGraph nested sem runner gi g values cfg span parent).raised = false ∧
        ∃ p, (runGraph nested sem runner gi g values cfg span parent).pause = some p) := by
  obtain ⟨l', ls, hlog, hns, hnodup, htr, hp⟩ := runGraph_shape hn sem runner gi g hnd values cfg span parent
  refine ⟨_, hlog, ?_, ?_, hp⟩
  · refine ((NoShut.ev _).append hns).append ?_
    cases (runGraph nested sem runner gi g values cfg span parent).status
    · exact NoShut.ev _
    · exact NoShut.ev _
    · exact NoShut.nil
  · rw [evsOf_append, evsOf_append, evsOf_endOf]
    cases h : (runGraph nested sem runner gi g values cfg span parent).status
    · rw [h] at htr
      have := Trace.runC (parent := parent) (nm := g.name) (s := "completed") htr hnodup
      simpa [runStartEv, evRunStart, statusStr, Status.isPaused] using this
    · rw [h] at htr
      have := Trace.runC (parent := parent) (nm := g.name) (s := "failed") htr hnodup
      simpa [runStartEv, evRunStart, statusStr, Status.isPaused] using this
    · rw [h] at htr
      have := Trace.runP (ao := ao) (parent := parent) (nm := g.name) htr hnodup
      simpa [runStartEv, evRunStart, statusStr, Status.isPaused] using this

/-! ## runs that cannot pause -/

/-- no interrupt node in the graph -/
def NoIntr (g : GraphD) : Prop := ∀ nd ∈ g.nodes, nd.kind ≠ .interrupt

theorem stepSync_nopause {ao : Bool} {nested : Nested} (hn : NestedOK ao nested) (hnp : NestedNoPause nested)
    (sem : Sem) (gi : Nat) (g : GraphD) (root : Span) (k : Nat) (s : GState) :
    ∀ (rs : List NodeD), (∀ nd ∈ rs, nd.kind ≠ .interrupt) → ∀ (ns : GState) (log : List Log) (out : StepOut),
      stepSync nested sem gi g root k s rs ns log = out → out.isPause = false := by
  intro rs
  induction rs with
  | nil =>
    intro _ ns log out h
    unfold stepSync at h
    subst h; rfl
  | cons nd rest ih =>
    intro hk ns log out h
    unfold stepSync at h
    split at h
    · subst h; rfl
    · rename_i inputs _
      have hx := execNode_ok hn sem gi nd inputs ns (nodeSpanOf root k nd)
      simp only [] at h
      split at h
      · rename_i p hp
        rw [hx.noPause hnp (hk nd List.mem_cons_self)] at hp
        cases hp
      · split at h
        · subst h; rfl
        · exact ih (fun nd' h' => hk nd' (List.mem_cons_of_mem _ h')) _ _ _ h

theorem asyncRs₂_sub (rs : List NodeD) (nd : NodeD) (h : nd ∈ asyncRs₂ rs) : nd ∈ rs := by
  unfold asyncRs₂ at h
  split at h
  · rename_i i hi
    rw [List.mem_singleton] at h; subst h
    exact List.mem_of_find?_eq_some hi
  · exact h

theorem stepAsync_nopause {ao : Bool} {nested : Nested} (hn : NestedOK ao nested) (hnp : NestedNoPause nested)
    (sem : Sem) (gi : Nat) (g : GraphD) (root : Span) (k : Nat) (order : List Nat) (s : GState)
    (rs : List NodeD) (hk : ∀ nd ∈ rs, nd.kind ≠ .interrupt) :
    (stepAsync nested sem gi g root k order s rs).isPause = false := by
  rw [stepAsync_eq]
  simp only []
  split
  · rfl
  · rename_i r hf
    have hr := List.mem_of_find?_eq_some hf
    obtain ⟨nd, hnd, rfl⟩ := List.mem_map.1 hr
    have hp := (asyncOne_ok hn sem gi g root k s nd).2.2.2 hnp (hk nd (asyncRs₂_sub rs nd hnd))
    split
    · rename_i p _ h
      rw [hp] at h; cases h
    · rfl
    · rfl

theorem runLoop_nopause (step : Nat → GState → List NodeD → StepOut) (g : GraphD)
    (act : Option (List Name)) (maxIter : Nat)
    (hstep : ∀ k s rs, (∀ nd ∈ rs, nd ∈ g.nodes) → (step k s rs).isPause = false) :
    ∀ (fuel k : Nat) (s : GState) (log : List Log) (out : LoopOut),
      runLoop step g act maxIter fuel k s log = out → out.isPause = false := by
  intro fuel
  induction fuel with
  | zero =>
    intro k s log out h
    unfold runLoop at h
    simp only [] at h
    split at h <;> subst h <;> rfl
  | succ fuel ih =>
    intro k s log out h
    unfold runLoop at h
    split at h
    · subst h; rfl
    · rename_i rs s1 _ heq
      have hrs : ∀ nd ∈ rs, nd ∈ g.nodes := by
        intro nd hnd
        have := (ready_sublist g act s).subset (a := nd)
        rw [heq] at this
        exact this hnd
      have hs := hstep k s1 rs hrs
      split at h
      · exact ih _ _ _ _ h
      · subst h; rfl
      · rename_i p l hst
        rw [hst] at hs
        cases hs

theorem runGraph_nopause {ao : Bool} {nested : Nested} (hn : NestedOK ao nested) (hnp : NestedNoPause nested)
    (sem : Sem) (runner : Runner) (gi : Nat) (g : GraphD) (hg : NoIntr g) (values : AL Val) (cfg : RunCfg)
    (span : Span) (parent : Option Span) :
    (runGraph nested sem runner gi g values cfg span parent).status ≠ .paused := by
  have hloop := runLoop_nopause (fun k s rs => match runner with
      | .sync => stepSync nested sem gi g span k s rs s []
      | .async order => stepAsync nested sem gi g span k (order k) s rs) g (activeNodeSet g) cfg.maxIter
    (by
      intro k s rs hrs
      have hk : ∀ nd ∈ rs, nd.kind ≠ .interrupt := fun nd h => hg nd (hrs nd h)
      cases runner with
      | sync => exact stepSync_nopause hn hnp sem gi g span k s rs hk s [] _ rfl
      | async order => exact stepAsync_nopause hn hnp sem gi g span k (order k) s rs hk)
    cfg.maxIter 0 (initState values) [runStartEv span parent g ""]
  generalize hr : runGraph nested sem runner gi g values cfg span parent = r
  unfold runGraph at hr
  simp only [] at hr
  split at hr
  · split at hr
    · subst hr; intro h; cases h
    · split at hr <;> subst hr <;> intro h <;> cases h
  · split at hr <;> subst hr <;> intro h <;> cases h
  · rename_i p ps log steps heq
    have := hloop _ heq
    cases this

/-! ## `mapGraph` -/

/-- what `mapGraph` needs to know about one item run -/
structure ItemOK (ao : Bool) (sp parent : Span) (r : RunOut) : Prop where
  noShut : NoShut r.log
  trace : Trace ao (.run sp (some parent) (statusStr r.status)) (evsOf r.log)
  closed : r.status = .paused → ao = true

theorem goSync_trace {ao : Bool} (runItem : AL Val → Span → RunOut) (g : GraphD) (errMode : ErrMode) (span : Span)
    (parent : Option Span) (shut : List Log)
    (hitem : ∀ (v : AL Val) (i : Nat), ItemOK ao (span ++ [toString i]) span (runItem v (span ++ [toString i]))) :
    ∀ (vars : List (AL Val)) (i : Nat) (acc : List RunOut) (log : List Log),
      ∃ lits s, (mapGraph.goSync runItem g errMode span parent shut vars i acc log).log =
          log ++ lits ++ [runEndEv span parent g s] ++ shut ∧ NoShut lits ∧
        Trace ao (.items span i) (evsOf lits) := by
  intro vars
  induction vars with
  | nil =>
    intro i acc log
    unfold mapGraph.goSync
    exact ⟨[], "completed", by simp, NoShut.nil, .itemsNil⟩
  | cons v vs ih =>
    intro i acc log
    unfold mapGraph.goSync
    simp only []
    have hi := hitem v i
    split
    · refine ⟨(runItem v (span ++ [toString i])).log, "failed", by simp, hi.noShut, ?_⟩
      have := Trace.itemsCons hi.trace (fun h => hi.closed (by
        revert h; cases (runItem v (span ++ [toString i])).status <;> simp [statusStr]))
        (Trace.itemsNil (ao := ao) (root := span) (i := i + 1))
      simpa using this
    · obtain ⟨lits, s, hlog, hns, htr⟩ := ih (i + 1) (acc ++ [runItem v (span ++ [toString i])])
        (log ++ (runItem v (span ++ [toString i])).log)
      refine ⟨(runItem v (span ++ [toString i])).log ++ lits, s, by rw [hlog]; simp [List.append_assoc],
        hi.noShut.append hns, ?_⟩
      rw [evsOf_append]
      exact Trace.itemsCons hi.trace (fun h => hi.closed (by
        revert h; cases (runItem v (span ++ [toString i])).status <;> simp [statusStr])) htr

theorem range_items {ao : Bool} (span : Span) (f : Nat → RunOut)
    (hitem : ∀ i, ItemOK ao (span ++ [toString i]) span (f i)) :
    ∀ (n i0 : Nat), NoShut (((List.range' i0 n).map f).flatMap (·.log)) ∧
      Trace ao (.items span i0) (evsOf (((List.range' i0 n).map f).flatMap (·.log))) := by
  intro n
  induction n with
  | zero => intro i0; exact ⟨NoShut.nil, .itemsNil⟩
  | succ n ih =>
    intro i0
    rw [List.range'_succ]
    simp only [List.map_cons, List.flatMap_cons, evsOf_append]
    have hi := hitem i0
    refine ⟨hi.noShut.append (ih (i0 + 1)).1, ?_⟩
    exact Trace.itemsCons hi.trace (fun h => hi.closed (by
      revert h; cases (f i0).status <;> simp [statusStr])) (ih (i0 + 1)).2

theorem mapGraph_trace {ao : Bool} (runItem : AL Val → Span → RunOut) (isSync : Bool) (g : GraphD) (values : AL Val)
    (mapOver : List Name) (mode : MapMode) (errMode : ErrMode) (span : Span) (parent : Option Span)
    (hitem : ∀ (v : AL Val) (i : Nat), ItemOK ao (span ++ [toString i]) span (runItem v (span ++ [toString i])))
    (vars : List (AL Val)) (hgen : generateMapInputs values mapOver mode = .ok vars) (hne : vars ≠ []) :
    ∃ lits s, (mapGraph runItem isSync g values mapOver mode errMode span parent).log =
        [runStartEv span parent g ("map:" ++ toString vars.length)] ++ lits ++ [runEndEv span parent g s] ++
          shutOf parent ∧ NoShut lits ∧ Trace ao (.items span 0) (evsOf lits) := by
  unfold mapGraph
  rw [hgen]
  cases vars with
  | nil => exact absurd rfl hne
  | cons v vs =>
    simp only []
    split
    · exact goSync_trace runItem g errMode span parent _ hitem _ _ _ _
    · rw [List.range_eq_range']
      obtain ⟨h1, h2⟩ := range_items (ao := ao) span
        (fun i => runItem ((v :: vs).getD i []) (span ++ [toString i])) (fun i => hitem _ i) (v :: vs).length 0
      split
      · exact ⟨_, "failed", rfl, h1, h2⟩
      · exact ⟨_, "completed", rfl, h1, h2⟩

theorem mapGraph_empty (runItem : AL Val → Span → RunOut) (isSync : Bool) (g : GraphD) (values : AL Val)
    (mapOver : List Name) (mode : MapMode) (errMode : ErrMode) (span : Span) (parent : Option Span)
    (h : ∀ v vs, generateMapInputs values mapOver mode ≠ .ok (v :: vs)) :
    (mapGraph runItem isSync g values mapOver mode errMode span parent).log = [] := by
  unfold mapGraph
  split
  · rfl
  · rfl
  · rename_i vars hne heq
    cases vars with
    | nil => exact (hne rfl).elim
    | cons v vs => exact absurd heq (h v vs)

/-! ## the nested callbacks of a program -/

theorem getD_prog (prog : Program) (gi : Nat) : prog.getD gi default ∈ prog ∨ prog.getD gi default = default := by
  rw [List.getD_eq_getElem?_getD]
  cases h : prog[gi]? with
  | none => exact Or.inr rfl
  | some x => exact Or.inl (List.mem_of_getElem? h)

theorem default_graph_nodes : (default : GraphD).nodes = [] := rfl

theorem nestedAt_ok (ao : Bool) (sem : Sem) (runner : Runner) (prog : Program)
    (hprog : ∀ g ∈ prog, (g.nodes.map (·.name)).Nodup) (hni : ao = false → ∀ g ∈ prog, NoIntr g) :
    ∀ d, NestedOK ao (nestedAt sem runner prog d) := by
  have hg : ∀ gi, ((prog.getD gi default).nodes.map (·.name)).Nodup := by
    intro gi
    rcases getD_prog prog gi with h | h
    · exact hprog _ h
    · rw [h, default_graph_nodes]; exact List.nodup_nil
  have hgi : ao = false → ∀ gi, NoIntr (prog.getD gi default) := by
    intro h gi
    rcases getD_prog prog gi with h' | h'
    · exact hni h _ h'
    · rw [h']; intro nd hnd; rw [default_graph_nodes] at hnd; cases hnd
  intro d
  induction d with
  | zero =>
    exact ⟨fun _ _ _ => NoShut.nil, fun _ _ _ _ => .kidsNil, fun _ _ _ h => (by cases h),
      fun _ _ _ _ _ _ => NoShut.nil, fun _ _ _ _ _ _ => .kidsNil, fun _ _ _ _ h => (by cases h)⟩
  | succ d ih =>
    have hnp : ao = false → ∀ gi vals cfg sp par,
        (runGraph (nestedAt sem runner prog d) sem runner gi (prog.getD gi default) vals cfg sp par).status ≠ .paused :=
      fun h gi vals cfg sp par => runGraph_nopause ih (ih.noPause h) sem runner gi _ (hgi h gi) vals cfg sp par
    have hitem : ∀ (gi : Nat) (sp : Span) (v : AL Val) (i : Nat), ItemOK ao (sp ++ ["map"] ++ [toString i]) (sp ++ ["map"])
        (runGraph (nestedAt sem runner prog d) sem runner gi (prog.getD gi default) v { errMode := .cont }
          (sp ++ ["map"] ++ [toString i]) (some (sp ++ ["map"]))) := by
      intro gi sp v i
      obtain ⟨body, hlog, hns, htr, _⟩ := runGraph_trace ih sem runner gi _ (hg gi) v { errMode := .cont }
        (sp ++ ["map"] ++ [toString i]) (some (sp ++ ["map"]))
      simp only [shutOf, Option.isNone_some, Bool.false_eq_true, if_false, List.append_nil] at hlog
      refine ⟨hlog ▸ hns, hlog ▸ htr, ?_⟩
      intro hp
      cases ao with
      | true => rfl
      | false => exact absurd hp (hnp rfl _ _ _ _ _)
    have hmap : ∀ gi vals mo mm em sp,
        NoShut ((nestedAt sem runner prog (d + 1)).map gi vals mo mm em sp).log ∧
        Trace ao (.kids sp) (evsOf ((nestedAt sem runner prog (d + 1)).map gi vals mo mm em sp).log) := by
      intro gi vals mo mm em sp
      show NoShut (mapGraph _ _ _ _ _ _ _ _ _).log ∧ Trace ao (.kids sp) (evsOf (mapGraph _ _ _ _ _ _ _ _ _).log)
      cases hgen : generateMapInputs vals mo mm with
      | error e =>
        rw [mapGraph_empty _ _ _ _ _ _ _ _ _ (by intro v vs h; rw [hgen] at h; cases h)]
        exact ⟨NoShut.nil, .kidsNil⟩
      | ok vars =>
        cases vars with
        | nil =>
          rw [mapGraph_empty _ _ _ _ _ _ _ _ _ (by intro v vs h; rw [hgen] at h; cases h)]
          exact ⟨NoShut.nil, .kidsNil⟩
        | cons v vs =>
          obtain ⟨lits, s, hlog, hns, htr⟩ := mapGraph_trace (ao := ao)
            (fun v sp' => runGraph (nestedAt sem runner prog d) sem runner gi (prog.getD gi default) v
              { errMode := .cont } sp' (some (sp ++ ["map"]))) (isSyncRunner runner)
            (prog.getD gi default) vals mo mm em (sp ++ ["map"]) (some sp) (hitem gi sp) (v :: vs) hgen (by simp)
          rw [hlog]
          refine ⟨(((NoShut.ev _).append hns).append (NoShut.ev _)).append (by simp [shutOf]; exact NoShut.nil), ?_⟩
          have := Trace.kidsMap (Trace.mapMk (parent := some sp) (nm := (prog.getD gi default).name) (s := s)
            (n := (v :: vs).length) htr)
          simpa [shutOf, runStartEv, runEndEv, evRunStart, evRunEnd] using this
    have hrun : ∀ gi vals sp, ∃ body,
        ((nestedAt sem runner prog (d + 1)).run gi vals sp).log = body ∧ NoShut body ∧
        Trace ao (.run (sp ++ ["run"]) (some sp) (statusStr ((nestedAt sem runner prog (d + 1)).run gi vals sp).status))
          (evsOf body) ∧
        (((nestedAt sem runner prog (d + 1)).run gi vals sp).status = .paused →
          ((nestedAt sem runner prog (d + 1)).run gi vals sp).raised = false ∧
          ∃ p, ((nestedAt sem runner prog (d + 1)).run gi vals sp).pause = some p) := by
      intro gi vals sp
      obtain ⟨body, hlog, hns, htr, hp⟩ := runGraph_trace ih sem runner gi _ (hg gi) vals {} (sp ++ ["run"]) (some sp)
      simp only [shutOf, Option.isNone_some, Bool.false_eq_true, if_false, List.append_nil] at hlog
      exact ⟨body, hlog, hns, htr, hp⟩
    refine ⟨?_, ?_, ?_, fun gi vals mo mm em sp => (hmap gi vals mo mm em sp).1,
      fun gi vals mo mm em sp => (hmap gi vals mo mm em sp).2, ?_⟩
    · intro gi vals sp
      obtain ⟨body, hlog, hns, _⟩ := hrun gi vals sp
      rw [hlog]; exact hns
    · intro gi vals sp hst
      obtain ⟨body, hlog, hns, htr, _⟩ := hrun gi vals sp
      rw [hlog]
      cases h : ((nestedAt sem runner prog (d + 1)).run gi vals sp).status with
      | paused => exact absurd h hst
      | completed => rw [h] at htr; exact .kidsRun htr
      | failed => rw [h] at htr; exact .kidsRun htr
    · intro gi vals sp hst
      obtain ⟨body, hlog, hns, htr, hp⟩ := hrun gi vals sp
      refine ⟨(hp hst).1, (hp hst).2, ?_⟩
      rw [hlog]
      rw [hst] at htr
      exact .pkidsRun htr
    · intro h gi vals sp
      exact hnp h _ _ _ _ _

/-! ## shutdowns only: the same chain without any hypothesis on the program -/

structure NestedQuiet (nested : Nested) : Prop where
  run : ∀ gi vals sp, NoShut (nested.run gi vals sp).log
  map : ∀ gi vals mo mm em sp, NoShut (nested.map gi vals mo mm em sp).log

theorem execGraphNode_noShut {nested : Nested} (hn : NestedQuiet nested) (nd : NodeD) (inputs : AL Val) (sp : Span) :
    NoShut (execGraphNode nested nd inputs sp).log := by
  unfold execGraphNode
  simp only []
  split
  · split
    · exact hn.map _ _ _ _ _ _
    · split <;> exact hn.map _ _ _ _ _ _
  · split
    · exact hn.run _ _ _
    · split <;> exact hn.run _ _ _

theorem execNode_noShut {nested : Nested} (hn : NestedQuiet nested) (sem : Sem) (gi : Nat) (nd : NodeD)
    (inputs : AL Val) (ns : GState) (sp : Span) : NoShut (execNode nested sem gi nd inputs ns sp).log := by
  unfold execNode
  split
  · rw [execFn_log]; exact NoShut.call _ _
  · rw [execIfElse_log]; exact NoShut.call _ _
  · rw [execRoute_log]; exact NoShut.call _ _
  · exact execGraphNode_noShut hn nd inputs sp
  · exact (execInterrupt_evs sem gi nd inputs ns).2

theorem stepSync_noShut {nested : Nested} (hn : NestedQuiet nested) (sem : Sem) (gi : Nat)
    (g : GraphD) (root : Span) (k : Nat) (s : GState) :
    ∀ (rs : List NodeD) (ns : GState) (log : List Log) (out : StepOut),
      stepSync nested sem gi g root k s rs ns log = out → ∃ l', out.log = log ++ l' ∧ NoShut l' := by
  intro rs
  induction rs with
  | nil =>
    intro ns log out h
    unfold stepSync at h
    subst h
    exact ⟨[], by simp [StepOut.log], NoShut.nil⟩
  | cons nd rest ih =>
    intro ns log out h
    unfold stepSync at h
    split at h
    · subst h
      exact ⟨[], by simp [StepOut.log], NoShut.nil⟩
    · rename_i inputs _
      have hx := execNode_noShut hn sem gi nd inputs ns (nodeSpanOf root k nd)
      simp only [] at h
      split at h
      · subst h
        exact ⟨_, by simp only [StepOut.log, List.append_assoc]; rfl, (NoShut.ev _).append (hx.append (NoShut.ev _))⟩
      · split at h
        · subst h
          exact ⟨_, by simp only [StepOut.log, List.append_assoc]; rfl, (NoShut.ev _).append (hx.append (NoShut.ev _))⟩
        · obtain ⟨l'', hlog, hns⟩ := ih _ _ _ h
          refine ⟨_, by rw [hlog]; simp only [List.append_assoc]; rfl, ?_⟩
          exact (NoShut.ev _).append (hx.append ((routeEvent_noShut _ _ _ _).append ((NoShut.ev _).append hns)))

theorem asyncOne_noShut {nested : Nested} (hn : NestedQuiet nested) (sem : Sem) (gi : Nat) (g : GraphD)
    (root : Span) (k : Nat) (s : GState) (nd : NodeD) : NoShut (asyncOne₂ nested sem gi g root k s nd).out.log := by
  unfold asyncOne₂
  split
  · exact NoShut.nil
  · rename_i inputs _
    have hx := execNode_noShut hn sem gi nd inputs s (nodeSpanOf root k nd)
    simp only []
    split
    · exact ((NoShut.ev _).append hx).append NoShut.nil
    · exact ((NoShut.ev _).append hx).append ((routeEvent_noShut _ _ _ _).append (NoShut.ev _))
    · exact ((NoShut.ev _).append hx).append (NoShut.ev _)

theorem NoShut.flatMap {α} (l : List α) (f : α → List Log) (h : ∀ x ∈ l, NoShut (f x)) : NoShut (l.flatMap f) := by
  intro x hx
  obtain ⟨a, ha, hxa⟩ := List.mem_flatMap.1 hx
  exact h a ha x hxa

theorem stepAsync_noShut {nested : Nested} (hn : NestedQuiet nested) (sem : Sem) (gi : Nat) (g : GraphD)
    (root : Span) (k : Nat) (order : List Nat) (s : GState) (rs : List NodeD) :
    NoShut (stepAsync nested sem gi g root k order s rs).log := by
  rw [stepAsync_log₂]
  apply NoShut.flatMap
  intro r hr
  obtain ⟨nd, _, rfl⟩ := List.mem_map.1 ((permute_perm _ order).mem_iff.1 hr)
  exact asyncOne_noShut hn sem gi g root k s nd

theorem runLoop_noShut (step : Nat → GState → List NodeD → StepOut) (g : GraphD)
    (act : Option (List Name)) (maxIter : Nat) (hstep : ∀ k s rs, NoShut (step k s rs).log) :
    ∀ (fuel k : Nat) (s : GState) (log : List Log) (out : LoopOut),
      runLoop step g act maxIter fuel k s log = out → ∃ l', out.log = log ++ l' ∧ NoShut l' := by
  intro fuel
  induction fuel with
  | zero =>
    intro k s log out h
    unfold runLoop at h
    simp only [] at h
    split at h <;> subst h <;> exact ⟨[], by simp [LoopOut.log], NoShut.nil⟩
  | succ fuel ih =>
    intro k s log out h
    unfold runLoop at h
    split at h
    · subst h; exact ⟨[], by simp [LoopOut.log], NoShut.nil⟩
    · rename_i rs s1 _ heq
      have hs := hstep k s1 rs
      split at h
      · rename_i ns l hst
        rw [hst] at hs
        obtain ⟨l'', hlog, hns⟩ := ih _ _ _ _ h
        exact ⟨l ++ l'', by rw [hlog, List.append_assoc], hs.append hns⟩
      · rename_i e ps l hst
        rw [hst] at hs
        subst h; exact ⟨l, rfl, hs⟩
      · rename_i p l hst
        rw [hst] at hs
        subst h; exact ⟨l, rfl, hs⟩

/-- shape of a run's log, for every program: start, shutdown-free middle, end (unless paused), shutdown (iff top-level) -/
theorem runGraph_quiet {nested : Nested} (hn : NestedQuiet nested) (sem : Sem) (runner : Runner)
    (gi : Nat) (g : GraphD) (values : AL Val) (cfg : RunCfg) (span : Span) (parent : Option Span) :
    ∃ l', (runGraph nested sem runner gi g values cfg span parent).log =
        [runStartEv span parent g ""] ++ l' ++
          endOf span parent g (runGraph nested sem runner gi g values cfg span parent).status ++ shutOf parent ∧
      NoShut l' := by
  have hloop := runLoop_noShut (fun k s rs => match runner with
      | .sync => stepSync nested sem gi g span k s rs s []
      | .async order => stepAsync nested sem gi g span k (order k) s rs) g (activeNodeSet g) cfg.maxIter
    (by
      intro k s rs
      cases runner with
      | sync =>
        obtain ⟨l', hlog, hns⟩ := stepSync_noShut hn sem gi g span k s rs s [] _ rfl
        simp only [List.nil_append] at hlog
        simp only []
        rw [hlog]; exact hns
      | async order => exact stepAsync_noShut hn sem gi g span k (order k) s rs)
    cfg.maxIter 0 (initState values) [runStartEv span parent g ""]
  generalize hr : runGraph nested sem runner gi g values cfg span parent = r
  unfold runGraph at hr
  simp only [] at hr
  split at hr
  · rename_i st log steps heq
    obtain ⟨l', hlog, hns⟩ := hloop _ heq
    simp only [LoopOut.log] at hlog
    split at hr
    · subst hr
      exact ⟨l', by simp only [hlog]; rfl, hns⟩
    · split at hr <;> subst hr <;> exact ⟨l', by simp only [hlog]; rfl, hns⟩
  · rename_i e ps log steps heq
    obtain ⟨l', hlog, hns⟩ := hloop _ heq
    simp only [LoopOut.log] at hlog
    split at hr <;> subst hr <;> exact ⟨l', by simp only [hlog]; rfl, hns⟩
  · rename_i p ps log steps heq
    obtain ⟨l', hlog, hns⟩ := hloop _ heq
    simp only [LoopOut.log] at hlog
    subst hr
    exact ⟨l', by simp only [hlog, endOf, List.append_nil]; rfl, hns⟩

theorem endOf_noShut (span : Span) (parent : Option Span) (g : GraphD) (st : Status) : NoShut (endOf span parent g st) := by
  cases st
  · exact NoShut.ev _
  · exact NoShut.ev _
  · exact NoShut.nil

theorem shutOf_some (p : Span) : shutOf (some p) = [] := rfl
theorem shutOf_none : shutOf none = [Log.shutdown] := rfl

theorem goSync_quiet (runItem : AL Val → Span → RunOut) (g : GraphD) (errMode : ErrMode) (span : Span)
    (parent : Option Span) (shut : List Log) (hitem : ∀ v sp, NoShut (runItem v sp).log) :
    ∀ (vars : List (AL Val)) (i : Nat) (acc : List RunOut) (log : List Log),
      ∃ lits s, (mapGraph.goSync runItem g errMode span parent shut vars i acc log).log =
          log ++ lits ++ [runEndEv span parent g s] ++ shut ∧ NoShut lits := by
  intro vars
  induction vars with
  | nil =>
    intro i acc log
    unfold mapGraph.goSync
    exact ⟨[], "completed", by simp, NoShut.nil⟩
  | cons v vs ih =>
    intro i acc log
    unfold mapGraph.goSync
    simp only []
    split
    · exact ⟨(runItem v (span ++ [toString i])).log, "failed", by simp, hitem _ _⟩
    · obtain ⟨lits, s, hlog, hns⟩ := ih (i + 1) (acc ++ [runItem v (span ++ [toString i])])
        (log ++ (runItem v (span ++ [toString i])).log)
      exact ⟨(runItem v (span ++ [toString i])).log ++ lits, s, by rw [hlog]; simp [List.append_assoc],
        (hitem _ _).append hns⟩

theorem mapGraph_quiet (runItem : AL Val → Span → RunOut) (isSync : Bool) (g : GraphD) (values : AL Val)
    (mapOver : List Name) (mode : MapMode) (errMode : ErrMode) (span : Span) (parent : Option Span)
    (hitem : ∀ v sp, NoShut (runItem v sp).log)
    (vars : List (AL Val)) (hgen : generateMapInputs values mapOver mode = .ok vars) (hne : vars ≠ []) :
    ∃ lits s, (mapGraph runItem isSync g values mapOver mode errMode span parent).log =
        [runStartEv span parent g ("map:" ++ toString vars.length)] ++ lits ++ [runEndEv span parent g s] ++
          shutOf parent ∧ NoShut lits := by
  unfold mapGraph
  rw [hgen]
  cases vars with
  | nil => exact absurd rfl hne
  | cons v vs =>
    simp only []
    split
    · exact goSync_quiet runItem g errMode span parent _ hitem _ _ _ _
    · have h1 : NoShut (((List.range (v :: vs).length).map
          fun i => runItem ((v :: vs).getD i []) (span ++ [toString i])).flatMap (·.log)) := by
        apply NoShut.flatMap
        intro r hr
        obtain ⟨i, _, rfl⟩ := List.mem_map.1 hr
        exact hitem _ _
      split
      · exact ⟨_, "failed", rfl, h1⟩
      · exact ⟨_, "completed", rfl, h1⟩

theorem runGraph_noShut_nested {nested : Nested} (hn : NestedQuiet nested) (sem : Sem) (runner : Runner)
    (gi : Nat) (g : GraphD) (values : AL Val) (cfg : RunCfg) (span p : Span) :
    NoShut (runGraph nested sem runner gi g values cfg span (some p)).log := by
  obtain ⟨l', hlog, hns⟩ := runGraph_quiet hn sem runner gi g values cfg span (some p)
  rw [hlog, shutOf_some, List.append_nil]
  exact ((NoShut.ev _).append hns).append (endOf_noShut _ _ _ _)

theorem nestedAt_quiet (sem : Sem) (runner : Runner) (prog : Program) :
    ∀ d, NestedQuiet (nestedAt sem runner prog d) := by
  intro d
  induction d with
  | zero => exact ⟨fun _ _ _ => NoShut.nil, fun _ _ _ _ _ _ => NoShut.nil⟩
  | succ d ih =>
    constructor
    · intro gi vals sp
      exact runGraph_noShut_nested ih sem runner gi _ vals {} _ sp
    · intro gi vals mo mm em sp
      show NoShut (mapGraph _ _ _ _ _ _ _ _ _).log
      cases hgen : generateMapInputs vals mo mm with
      | error e =>
        rw [mapGraph_empty _ _ _ _ _ _ _ _ _ (by intro v vs h; rw [hgen] at h; cases h)]
        exact NoShut.nil
      | ok vars =>
        cases vars with
        | nil =>
          rw [mapGraph_empty _ _ _ _ _ _ _ _ _ (by intro v vs h; rw [hgen] at h; cases h)]
          exact NoShut.nil
        | cons v vs =>
          obtain ⟨lits, s, hlog, hns⟩ := mapGraph_quiet
            (fun v sp' => runGraph (nestedAt sem runner prog d) sem runner gi (prog.getD gi default) v
              { errMode := .cont } sp' (some (sp ++ ["map"]))) (isSyncRunner runner)
            (prog.getD gi default) vals mo mm em (sp ++ ["map"]) (some sp)
            (fun v sp' => runGraph_noShut_nested ih sem runner gi _ v _ sp' _) (v :: vs) hgen (by simp)
          rw [hlog, shutOf_some, List.append_nil]
          exact ((NoShut.ev _).append hns).append (NoShut.ev _)

/-! ## scoping: where the spans and parents of the events of a trace live -/

/-- the route decision of the gate whose block has label `l` -/
def OwnRoute (root : Span) (l : String) (e : Ev) : Prop := ∃ nm k info, l = lab nm k ∧ e = evRoute root nm k info
/-- `e` belongs to the subtree `root ++ [x]`: the subtree's own events (parent `root`), or deeper ones -/
def InSub (root : Span) (x : String) (e : Ev) : Prop :=
  (e.span = root ++ [x] ∧ e.parent = some root ∧ e.kind ≠ "RouteDecision") ∨
  ((∃ y p, e.span = root ++ x :: y :: p) ∧ ∃ q, e.parent = some (root ++ x :: q))
def InBlk (root : Span) (l : String) (e : Ev) : Prop := OwnRoute root l e ∨ InSub root l e
def Below (sp : Span) (e : Ev) : Prop := (∃ x p, e.span = sp ++ x :: p) ∧ ∃ q, e.parent = some (sp ++ q)
def RootEv (root : Span) (parent : Option Span) (e : Ev) : Prop :=
  e.span = root ∧ e.parent = parent ∧ e.kind ≠ "RouteDecision"

def Scope : Shape → Ev → Prop
  | .run root parent _, e => RootEv root parent e ∨ ∃ l, InBlk root l e
  | .blocks _ root ls, e => ∃ l ∈ ls, InBlk root l e
  | .node root l, e => InBlk root l e
  | .pnode root l, e => InBlk root l e
  | .kids sp, e => Below sp e
  | .pkids sp, e => Below sp e
  | .map root parent, e => RootEv root parent e ∨ ∃ j : Nat, InSub root (toString j) e
  | .items root i, e => ∃ j : Nat, i ≤ j ∧ InSub root (toString j) e

theorem below_to_insub {root : Span} {l : String} {e : Ev} (h : Below (root ++ [l]) e) : InSub root l e := by
  obtain ⟨⟨x, p, hs⟩, ⟨q, hq⟩⟩ := h
  exact Or.inr ⟨⟨x, p, by rw [hs]; simp⟩, ⟨q, by rw [hq]; simp⟩⟩

theorem insub_below {sp : Span} {x y : String} {e : Ev} (h : InSub (sp ++ [x]) y e) : Below sp e := by
  rcases h with ⟨hs, hp, _⟩ | ⟨⟨z, p, hs⟩, ⟨q, hq⟩⟩
  · exact ⟨⟨x, [y], by rw [hs]; simp⟩, ⟨[x], by rw [hp]⟩⟩
  · exact ⟨⟨x, y :: z :: p, by rw [hs]; simp⟩, ⟨x :: y :: q, by rw [hq]; simp⟩⟩

theorem inblk_below {sp : Span} {x l : String} {e : Ev} (h : InBlk (sp ++ [x]) l e) : Below sp e := by
  rcases h with ⟨nm, k, info, _, rfl⟩ | h
  · exact ⟨⟨x, [nm ++ "!route#" ++ toString k], by simp [evRoute]⟩, ⟨[x], rfl⟩⟩
  · exact insub_below h

theorem runscope_below {sp : Span} {x : String} {e : Ev}
    (h : RootEv (sp ++ [x]) (some sp) e ∨ ∃ l, InBlk (sp ++ [x]) l e) : Below sp e := by
  rcases h with ⟨hs, hp, _⟩ | ⟨l, h⟩
  · exact ⟨⟨x, [], by rw [hs]⟩, ⟨[], by rw [hp]; simp⟩⟩
  · exact inblk_below h

theorem mapscope_below {sp : Span} {x : String} {e : Ev}
    (h : RootEv (sp ++ [x]) (some sp) e ∨ ∃ j : Nat, InSub (sp ++ [x]) (toString j) e) : Below sp e := by
  rcases h with ⟨hs, hp, _⟩ | ⟨l, h⟩
  · exact ⟨⟨x, [], by rw [hs]⟩, ⟨[], by rw [hp]; simp⟩⟩
  · exact insub_below h

theorem inblk_insub {root : Span} {x l : String} {e : Ev} (h : InBlk (root ++ [x]) l e) : InSub root x e := by
  rcases h with ⟨nm, k, info, _, rfl⟩ | ⟨hs, hp, _⟩ | ⟨⟨z, p, hs⟩, ⟨q, hq⟩⟩
  · exact Or.inr ⟨⟨nm ++ "!route#" ++ toString k, [], by simp [evRoute]⟩, ⟨[], by simp [evRoute]⟩⟩
  · exact Or.inr ⟨⟨l, [], by rw [hs]; simp⟩, ⟨[], by rw [hp]⟩⟩
  · exact Or.inr ⟨⟨l, z :: p, by rw [hs]; simp⟩, ⟨l :: q, by rw [hq]; simp⟩⟩

theorem runscope_insub {root : Span} {x : String} {e : Ev}
    (h : RootEv (root ++ [x]) (some root) e ∨ ∃ l, InBlk (root ++ [x]) l e) : InSub root x e := by
  rcases h with ⟨hs, hp, hk⟩ | ⟨l, h⟩
  · exact Or.inl ⟨hs, hp, hk⟩
  · exact inblk_insub h

theorem kind_ne_route₁ : ("RunStart" : String) ≠ "RouteDecision" := by decide
theorem kind_ne_route₂ : ("RunEnd" : String) ≠ "RouteDecision" := by decide
theorem kind_ne_route₃ : ("NodeStart" : String) ≠ "RouteDecision" := by decide
theorem kind_ne_route₄ : ("NodeEnd" : String) ≠ "RouteDecision" := by decide
theorem kind_ne_route₅ : ("NodeError" : String) ≠ "RouteDecision" := by decide

theorem Trace.scope {ao : Bool} {sh : Shape} {evs : List Ev} (h : Trace ao sh evs) : ∀ e ∈ evs, Scope sh e := by
  induction h with
  | runC hb hnd ih =>
    intro e he
    simp only [List.mem_cons, List.mem_append, List.not_mem_nil, or_false] at he
    rcases he with (rfl | he) | rfl
    · exact Or.inl ⟨rfl, rfl, kind_ne_route₁⟩
    · obtain ⟨l, _, hl⟩ := ih e he
      exact Or.inr ⟨l, hl⟩
    · exact Or.inl ⟨rfl, rfl, kind_ne_route₂⟩
  | runP hb hnd ih =>
    intro e he
    simp only [List.mem_cons] at he
    rcases he with rfl | he
    · exact Or.inl ⟨rfl, rfl, kind_ne_route₁⟩
    · obtain ⟨l, _, hl⟩ := ih e he
      exact Or.inr ⟨l, hl⟩
  | bnil => intro e he; cases he
  | bcons hb hr ihb ihr =>
    intro e he
    rcases List.mem_append.1 he with he | he
    · exact ⟨_, List.mem_cons_self, ihb e he⟩
    · obtain ⟨l, hl, h⟩ := ihr e he
      exact ⟨l, List.mem_cons_of_mem _ hl, h⟩
  | bconsP hb hr ihb ihr =>
    intro e he
    rcases List.mem_append.1 he with he | he
    · exact ⟨_, List.mem_cons_self, ihb e he⟩
    · obtain ⟨l, hl, h⟩ := ihr e he
      exact ⟨l, List.mem_cons_of_mem _ hl, h⟩
  | nodeEnd hk hrt ih =>
    intro e he
    simp only [List.mem_cons, List.mem_append, List.not_mem_nil, or_false] at he
    rcases he with ((rfl | he) | he) | rfl
    · exact Or.inr (Or.inl ⟨rfl, rfl, kind_ne_route₃⟩)
    · exact Or.inr (below_to_insub (ih e he))
    · rcases hrt with rfl | ⟨info, rfl⟩
      · cases he
      · rw [List.mem_singleton] at he
        exact Or.inl ⟨_, _, info, rfl, he⟩
    · exact Or.inr (Or.inl ⟨rfl, rfl, kind_ne_route₄⟩)
  | nodeErr hk ih =>
    intro e he
    simp only [List.mem_cons, List.mem_append, List.not_mem_nil, or_false] at he
    rcases he with (rfl | he) | rfl
    · exact Or.inr (Or.inl ⟨rfl, rfl, kind_ne_route₃⟩)
    · exact Or.inr (below_to_insub (ih e he))
    · exact Or.inr (Or.inl ⟨rfl, rfl, kind_ne_route₅⟩)
  | pnodeErr hk ih =>
    intro e he
    simp only [List.mem_cons, List.mem_append, List.not_mem_nil, or_false] at he
    rcases he with (rfl | he) | rfl
    · exact Or.inr (Or.inl ⟨rfl, rfl, kind_ne_route₃⟩)
    · exact Or.inr (below_to_insub (ih e he))
    · exact Or.inr (Or.inl ⟨rfl, rfl, kind_ne_route₅⟩)
  | pnodeOpen hk ih =>
    intro e he
    simp only [List.mem_cons] at he
    rcases he with rfl | he
    · exact Or.inr (Or.inl ⟨rfl, rfl, kind_ne_route₃⟩)
    · exact Or.inr (below_to_insub (ih e he))
  | kidsNil => intro e he; cases he
  | kidsRun hr ih => intro e he; exact runscope_below (ih e he)
  | kidsMap hr ih => intro e he; exact mapscope_below (ih e he)
  | pkidsNil => intro e he; cases he
  | pkidsRun hr ih => intro e he; exact runscope_below (ih e he)
  | mapMk hi ih =>
    intro e he
    simp only [List.mem_cons, List.mem_append, List.not_mem_nil, or_false] at he
    rcases he with (rfl | he) | rfl
    · exact Or.inl ⟨rfl, rfl, kind_ne_route₁⟩
    · obtain ⟨j, _, hj⟩ := ih e he
      exact Or.inr ⟨j, hj⟩
    · exact Or.inl ⟨rfl, rfl, kind_ne_route₂⟩
  | itemsNil => intro e he; cases he
  | itemsCons hr hst hrest ihr ihrest =>
    intro e he
    rcases List.mem_append.1 he with he | he
    · exact ⟨_, Nat.le_refl _, runscope_insub (ihr e he)⟩
    · obtain ⟨j, hj, h⟩ := ihrest e he
      exact ⟨j, by omega, h⟩

/-! ## inversion -/

theorem Trace.run_none_inv {ao : Bool} {root : Span} {parent : Option Span} {evs : List Ev}
    (h : Trace ao (.run root parent none) evs) :
    ∃ nm ls body, evs = evRunStart root parent nm "" :: body ∧ Trace ao (.blocks true root ls) body ∧ ls.Nodup := by
  cases h with
  | runP hb hnd => exact ⟨_, _, _, rfl, hb, hnd⟩

theorem Trace.run_some_inv {ao : Bool} {root : Span} {parent : Option Span} {s : String} {evs : List Ev}
    (h : Trace ao (.run root parent (some s)) evs) :
    ∃ nm ls body, evs = evRunStart root parent nm "" :: body ++ [evRunEnd root parent nm s] ∧
      Trace ao (.blocks ao root ls) body ∧ ls.Nodup := by
  cases h with
  | runC hb hnd => exact ⟨_, _, _, rfl, hb, hnd⟩

/-! ## flat well-nestedness: definitions -/

/-- `s` opens a span: a node start or a run start -/
def isOpener (e : Ev) : Prop := e.kind = "NodeStart" ∨ e.kind = "RunStart"
/-- `c` is a closing event for the opener `s` -/
def isCloseOf (s c : Ev) : Prop :=
  (s.kind = "NodeStart" ∧ (c.kind = "NodeEnd" ∨ c.kind = "NodeError")) ∨ (s.kind = "RunStart" ∧ c.kind = "RunEnd")
/-- the family of the span `sp`: the (non-route) events carrying that span, and those parented to it -/
def famB (sp : Span) (e : Ev) : Bool := e.kind != "RouteDecision" && (e.span == sp || e.parent == some sp)
/-- (a)/(b)/(c) for the opener `s`: the family of `s.span`, in log order, is `s`, then events
parented to `s.span` (with other spans), then exactly one closing event with that span -/
def SpanClosed (evs : List Ev) (s : Ev) : Prop :=
  ∃ mid c, evs.filter (famB s.span) = s :: mid ++ [c] ∧ c.span = s.span ∧ isCloseOf s c ∧
    ∀ x ∈ mid, x.parent = some s.span ∧ x.span ≠ s.span
def OpenersOK (evs : List Ev) : Prop := ∀ s ∈ evs, isOpener s → SpanClosed evs s
/-- the events compared with a route decision `r` of the node with span `sp` -/
def routeB (r : Ev) (sp : Span) (e : Ev) : Bool := (e.kind != "RouteDecision" && e.span == sp) || e == r
/-- (e) for the route decision `r`: parent = run span `rs`, span = `rs ++ [name!route#k]`, and `r` lies
between the `NodeStart` and the `NodeEnd` of `name` at the same superstep `k` of the same run -/
def RouteOK (evs : List Ev) (r : Ev) : Prop :=
  ∃ rs k, r.parent = some rs ∧ r.span = rs ++ [r.name ++ "!route#" ++ toString k] ∧
    evs.filter (routeB r (rs ++ [lab r.name k])) =
      [evNodeStart (rs ++ [lab r.name k]) rs r.name, r, evNodeEnd (rs ++ [lab r.name k]) rs r.name]
def RoutesOK (evs : List Ev) : Prop := ∀ r ∈ evs, r.kind = "RouteDecision" → RouteOK evs r
def FlatOK (evs : List Ev) : Prop := OpenersOK evs ∧ RoutesOK evs

theorem famB_route {sp : Span} {e : Ev} (h : e.kind = "RouteDecision") : famB sp e = false := by
  simp [famB, h]
theorem famB_of_ne {sp : Span} {e : Ev} (h1 : e.span ≠ sp) (h2 : e.parent ≠ some sp) : famB sp e = false := by
  simp [famB, h1, h2]
theorem famB_true {sp : Span} {e : Ev} (h : famB sp e = true) :
    e.kind ≠ "RouteDecision" ∧ (e.span = sp ∨ e.parent = some sp) := by
  simpa [famB] using h
theorem famB_of_span {sp : Span} {e : Ev} (hk : e.kind ≠ "RouteDecision") (h : e.span = sp) : famB sp e = true := by
  simp [famB, hk, h]
theorem routeB_false {r : Ev} {sp : Span} {e : Ev} (h1 : e.kind = "RouteDecision" ∨ e.span ≠ sp) (h2 : e ≠ r) :
    routeB r sp e = false := by
  rcases h1 with h1 | h1 <;> simp [routeB, h1, h2]
theorem routeB_true {r : Ev} {sp : Span} {e : Ev} (h : routeB r sp e = true) :
    (e.kind ≠ "RouteDecision" ∧ e.span = sp) ∨ e = r := by
  simpa [routeB] using h

theorem isOpener_kind_ne {e : Ev} (h : isOpener e) : e.kind ≠ "RouteDecision" := by
  rcases h with h | h <;> rw [h] <;> decide

theorem filter_mid {α} (p : α → Bool) (A B C : List α) (hA : ∀ e ∈ A, p e = false) (hC : ∀ e ∈ C, p e = false) :
    (A ++ B ++ C).filter p = B.filter p := by
  have h1 : A.filter p = [] := List.filter_eq_nil_iff.2 (fun a ha => by simp [hA a ha])
  have h2 : C.filter p = [] := List.filter_eq_nil_iff.2 (fun a ha => by simp [hC a ha])
  rw [List.filter_append, List.filter_append, h1, h2]; simp

theorem SpanClosed.extend {A B C : List Ev} {s : Ev} (h : SpanClosed B s)
    (hA : ∀ e ∈ A, famB s.span e = false) (hC : ∀ e ∈ C, famB s.span e = false) :
    SpanClosed (A ++ B ++ C) s := by
  obtain ⟨mid, c, hf, rest⟩ := h
  exact ⟨mid, c, by rw [filter_mid _ _ _ _ hA hC, hf], rest⟩

theorem RouteOK.extend {A B C : List Ev} {r : Ev} (h : RouteOK B r)
    (hA : ∀ e ∈ A, e ≠ r ∧ ∀ s ∈ B, s.kind = "NodeStart" → e.kind ≠ "RouteDecision" → e.span ≠ s.span)
    (hC : ∀ e ∈ C, e ≠ r ∧ ∀ s ∈ B, s.kind = "NodeStart" → e.kind ≠ "RouteDecision" → e.span ≠ s.span) :
    RouteOK (A ++ B ++ C) r := by
  obtain ⟨rs, k, hp, hs, hf⟩ := h
  have hmem : evNodeStart (rs ++ [lab r.name k]) rs r.name ∈ B := by
    have : evNodeStart (rs ++ [lab r.name k]) rs r.name ∈ B.filter (routeB r (rs ++ [lab r.name k])) := by
      rw [hf]; exact List.mem_cons_self
    exact (List.mem_filter.1 this).1
  have key : ∀ e : Ev, (e ≠ r ∧ ∀ s ∈ B, s.kind = "NodeStart" → e.kind ≠ "RouteDecision" → e.span ≠ s.span) →
      routeB r (rs ++ [lab r.name k]) e = false := by
    intro e ⟨h1, h2⟩
    apply routeB_false _ h1
    by_cases hk : e.kind = "RouteDecision"
    · exact Or.inl hk
    · exact Or.inr (h2 _ hmem rfl hk)
  refine ⟨rs, k, hp, hs, ?_⟩
  rw [filter_mid _ _ _ _ (fun e he => key e (hA e he)) (fun e he => key e (hC e he)), hf]

/-- independence of two event lists: no event of `Y` belongs to the family of an opener of `X` or
equals a route decision of `X` -/
def Indep (X Y : List Ev) : Prop :=
  ∀ s ∈ X, ∀ e ∈ Y, (isOpener s → famB s.span e = false) ∧ (s.kind = "RouteDecision" → e ≠ s)

theorem FlatOK.nil : FlatOK [] := ⟨fun s hs => (by cases hs), fun s hs => (by cases hs)⟩

theorem FlatOK.append {X Y : List Ev} (hX : FlatOK X) (hY : FlatOK Y) (hXY : Indep X Y) (hYX : Indep Y X) :
    FlatOK (X ++ Y) := by
  constructor
  · intro s hs ho
    rcases List.mem_append.1 hs with hs | hs
    · have := (hX.1 s hs ho).extend (A := []) (C := Y) (fun e he => by cases he)
        (fun e he => (hXY s hs e he).1 ho)
      simpa using this
    · have := (hY.1 s hs ho).extend (A := X) (C := []) (fun e he => (hYX s hs e he).1 ho)
        (fun e he => by cases he)
      simpa using this
  · intro r hr hk
    rcases List.mem_append.1 hr with hr | hr
    · have := (hX.2 r hr hk).extend (A := []) (C := Y) (fun e he => by cases he)
        (fun e he => ⟨(hXY r hr e he).2 hk, fun s hs hsk hek => by
          have := (hXY s hs e he).1 (Or.inl hsk)
          intro heq
          rw [famB_of_span hek heq] at this; cases this⟩)
      simpa using this
    · have := (hY.2 r hr hk).extend (A := X) (C := []) 
        (fun e he => ⟨(hYX r hr e he).2 hk, fun s hs hsk hek => by
          have := (hYX s hs e he).1 (Or.inl hsk)
          intro heq
          rw [famB_of_span hek heq] at this; cases this⟩)
        (fun e he => by cases he)
      simpa using this

/-! ### separation of sibling subtrees -/

theorem span_prefix_ne {root : Span} {l l' : String} {p p' : Span} (h : l ≠ l') : root ++ l :: p ≠ root ++ l' :: p' := by
  intro heq
  have := List.append_cancel_left heq
  injection this with h1 _
  exact h h1

theorem span_len_ne {a b : Span} (h : a.length ≠ b.length) : a ≠ b := fun heq => h (by rw [heq])

theorem inblk_unique {root : Span} {l l' : String} {e : Ev} (h : InBlk root l e) (h' : InBlk root l' e) : l = l' := by
  rcases h with ⟨nm, k, info, hl, he⟩ | ⟨hs, hp, hk⟩ | ⟨⟨y, p, hs⟩, ⟨q, hq⟩⟩
  · rcases h' with ⟨nm', k', info', hl', he'⟩ | ⟨hs', hp', hk'⟩ | ⟨⟨y', p', hs'⟩, ⟨q', hq'⟩⟩
    · rw [he] at he'
      have hn : nm = nm' := congrArg Ev.name he'
      have hsp := congrArg Ev.span he'
      simp only [evRoute] at hsp
      have h1 := List.append_cancel_left hsp
      injection h1 with h1 _
      subst hn
      have h2 := (String.append_right_inj _).1 h1
      have := toString_nat_inj h2
      subst this
      rw [hl, hl']
    · rw [he] at hk'; exact absurd rfl hk'
    · rw [he] at hq'
      simp only [evRoute, Option.some.injEq] at hq'
      exact absurd hq' (span_len_ne (by simp))
  · rcases h' with ⟨nm', k', info', hl', he'⟩ | ⟨hs', hp', hk'⟩ | ⟨⟨y', p', hs'⟩, ⟨q', hq'⟩⟩
    · rw [he'] at hk; exact absurd rfl hk
    · rw [hs] at hs'
      have := List.append_cancel_left hs'
      injection this
    · rw [hs] at hs'
      exact absurd hs' (span_len_ne (by simp))
  · rcases h' with ⟨nm', k', info', hl', he'⟩ | ⟨hs', hp', hk'⟩ | ⟨⟨y', p', hs'⟩, ⟨q', hq'⟩⟩
    · rw [he'] at hq
      simp only [evRoute, Option.some.injEq] at hq
      exact absurd hq (span_len_ne (by simp))
    · rw [hs] at hs'
      exact absurd hs' (span_len_ne (by simp))
    · rw [hs] at hs'
      have := List.append_cancel_left hs'
      injection this

/-- an opener of the subtree `l` and an event of a different subtree `l'` are unrelated -/
theorem famB_inblk {root : Span} {l l' : String} {s e : Ev} (hne : l ≠ l') (hs : InBlk root l s) (ho : isOpener s)
    (he : InBlk root l' e) : famB s.span e = false := by
  have hsp : ∃ p, s.span = root ++ l :: p := by
    rcases hs with ⟨nm, k, info, _, rfl⟩ | ⟨hs, _, _⟩ | ⟨⟨y, p, hs⟩, _⟩
    · exact absurd rfl (isOpener_kind_ne ho)
    · exact ⟨[], hs⟩
    · exact ⟨y :: p, hs⟩
  obtain ⟨p, hsp⟩ := hsp
  rw [hsp]
  rcases he with ⟨nm, k, info, _, rfl⟩ | ⟨hs', hp', _⟩ | ⟨⟨y', p', hs'⟩, ⟨q', hq'⟩⟩
  · exact famB_route rfl
  · apply famB_of_ne
    · rw [hs']; exact span_prefix_ne (Ne.symm hne)
    · rw [hp']; intro h; injection h with h; exact absurd h (span_len_ne (by simp))
  · apply famB_of_ne
    · rw [hs']; exact span_prefix_ne (Ne.symm hne)
    · rw [hq']; intro h; injection h with h; exact absurd h (span_prefix_ne (Ne.symm hne))

theorem indep_inblk {root : Span} {l : String} {X Y : List Ev} (hX : ∀ e ∈ X, InBlk root l e)
    (hY : ∀ e ∈ Y, ∃ l', l' ≠ l ∧ InBlk root l' e) : Indep X Y ∧ Indep Y X := by
  constructor
  · intro s hs e he
    obtain ⟨l', hne, hl'⟩ := hY e he
    refine ⟨fun ho => famB_inblk (Ne.symm hne) (hX s hs) ho hl', fun _ heq => ?_⟩
    subst heq
    exact hne (inblk_unique hl' (hX _ hs))
  · intro s hs e he
    obtain ⟨l', hne, hl'⟩ := hY s hs
    refine ⟨fun ho => famB_inblk hne hl' ho (hX e he), fun _ heq => ?_⟩
    subst heq
    exact hne (inblk_unique hl' (hX _ he))

/-! ### wrapping: a run around its body, a node around its children -/

theorem filter_wrap {α} (p : α → Bool) (S E : α) (body : List α) (hS : p S = true) (hE : p E = true) :
    (S :: body ++ [E]).filter p = S :: body.filter p ++ [E] := by
  simp [List.filter_append, hS, hE]

theorem not_opener_of_kind {e : Ev} {k : String} (hk : e.kind = k) (h1 : k ≠ "NodeStart") (h2 : k ≠ "RunStart") :
    ¬ isOpener e := by
  intro h
  rcases h with h | h
  · exact h1 (hk ▸ h)
  · exact h2 (hk ▸ h)

theorem flat_wrap {root : Span} {parent : Option Span} {S E : Ev} {body : List Ev}
    (hS : S.kind = "RunStart" ∧ S.span = root ∧ S.parent = parent)
    (hE : E.kind = "RunEnd" ∧ E.span = root ∧ E.parent = parent)
    (hpar : ∀ p, parent = some p → p.length ≤ root.length)
    (hin : ∀ e ∈ body, root.length < e.span.length)
    (hB : FlatOK body) : FlatOK (S :: body ++ [E]) := by
  have hSk : S.kind ≠ "RouteDecision" := by rw [hS.1]; decide
  have hEk : E.kind ≠ "RouteDecision" := by rw [hE.1]; decide
  have hfS : ∀ s ∈ body, famB s.span S = false := by
    intro s hs
    apply famB_of_ne
    · rw [hS.2.1]; exact span_len_ne (Nat.ne_of_lt (hin s hs))
    · rw [hS.2.2]; intro h
      have := hpar _ h
      have := hin s hs
      omega
  have hfE : ∀ s ∈ body, famB s.span E = false := by
    intro s hs
    apply famB_of_ne
    · rw [hE.2.1]; exact span_len_ne (Nat.ne_of_lt (hin s hs))
    · rw [hE.2.2]; intro h
      have := hpar _ h
      have := hin s hs
      omega
  have hshape : S :: body ++ [E] = [S] ++ body ++ [E] := rfl
  constructor
  · intro s hs ho
    simp only [List.mem_cons, List.mem_append, List.not_mem_nil, or_false] at hs
    rcases hs with (rfl | hs) | rfl
    · refine ⟨body.filter (famB root), E, ?_, by rw [hE.2.1, hS.2.1], Or.inr ⟨hS.1, hE.1⟩, ?_⟩
      · rw [hS.2.1]
        exact filter_wrap _ _ _ _ (famB_of_span hSk hS.2.1) (famB_of_span hEk hE.2.1)
      · intro x hx
        obtain ⟨hxb, hxf⟩ := List.mem_filter.1 hx
        have hne : x.span ≠ root := span_len_ne (Ne.symm (Nat.ne_of_lt (hin x hxb)))
        rw [hS.2.1]
        rcases (famB_true hxf).2 with h | h
        · exact absurd h hne
        · exact ⟨h, hne⟩
    · rw [hshape]
      exact (hB.1 s hs ho).extend (fun e he => by rw [List.mem_singleton] at he; subst he; exact hfS s hs)
        (fun e he => by rw [List.mem_singleton] at he; subst he; exact hfE s hs)
    · exact absurd ho (not_opener_of_kind hE.1 (by decide) (by decide))
  · intro r hr hk
    simp only [List.mem_cons, List.mem_append, List.not_mem_nil, or_false] at hr
    rcases hr with (rfl | hr) | rfl
    · exact absurd hk hSk
    · rw [hshape]
      refine (hB.2 r hr hk).extend ?_ ?_
      · intro e he
        rw [List.mem_singleton] at he; subst he
        refine ⟨fun h => hSk (h ▸ hk), fun s hs _ _ => ?_⟩
        rw [hS.2.1]; exact span_len_ne (Nat.ne_of_lt (hin s hs))
      · intro e he
        rw [List.mem_singleton] at he; subst he
        refine ⟨fun h => hEk (h ▸ hk), fun s hs _ _ => ?_⟩
        rw [hE.2.1]; exact span_len_ne (Nat.ne_of_lt (hin s hs))
    · exact absurd hk hEk

theorem below_len {sp : Span} {e : Ev} (h : Below sp e) : sp.length < e.span.length := by
  obtain ⟨⟨x, p, hs⟩, _⟩ := h
  rw [hs]; simp

theorem flat_node {root : Span} {nm : String} {k : Nat} {cs rt : List Ev} {C : Ev}
    (hcs : FlatOK cs) (hsc : ∀ e ∈ cs, Below (root ++ [lab nm k]) e)
    (hrt : rt = [] ∨ ∃ info, rt = [evRoute root nm k info])
    (hC : C = evNodeEnd (root ++ [lab nm k]) root nm ∨ (C = evNodeError (root ++ [lab nm k]) root nm ∧ rt = [])) :
    FlatOK (evNodeStart (root ++ [lab nm k]) root nm :: cs ++ rt ++ [C]) := by
  have hCk : C.kind = "NodeEnd" ∨ C.kind = "NodeError" := by
    rcases hC with rfl | ⟨rfl, _⟩
    · exact Or.inl rfl
    · exact Or.inr rfl
  have hCs : C.span = root ++ [lab nm k] := by
    rcases hC with rfl | ⟨rfl, _⟩ <;> rfl
  have hCp : C.parent = some root := by
    rcases hC with rfl | ⟨rfl, _⟩ <;> rfl
  have hCr : C.kind ≠ "RouteDecision" := by
    rcases hCk with h | h <;> rw [h] <;> decide
  have hCo : ¬ isOpener C := by
    rcases hCk with h | h
    · exact not_opener_of_kind h (by decide) (by decide)
    · exact not_opener_of_kind h (by decide) (by decide)
  have hrtk : ∀ e ∈ rt, e = evRoute root nm k e.info := by
    intro e he
    rcases hrt with rfl | ⟨info, rfl⟩
    · cases he
    · rw [List.mem_singleton] at he; subst he; rfl
  -- the outer events are not in the family of an inner opener
  have houter : ∀ s ∈ cs, ∀ e : Ev, e.kind ≠ "RouteDecision" → e.span = root ++ [lab nm k] → e.parent = some root →
      famB s.span e = false := by
    intro s hs e _ hes hep
    have hl := below_len (hsc s hs)
    apply famB_of_ne
    · rw [hes]; exact span_len_ne (Nat.ne_of_lt hl)
    · rw [hep]; intro h; injection h with h
      have := congrArg List.length h
      simp at hl; omega
  have hshape : evNodeStart (root ++ [lab nm k]) root nm :: cs ++ rt ++ [C] =
      [evNodeStart (root ++ [lab nm k]) root nm] ++ cs ++ (rt ++ [C]) := by simp
  constructor
  · intro s hs ho
    simp only [List.mem_cons, List.mem_append, List.not_mem_nil, or_false] at hs
    rcases hs with ((rfl | hs) | hs) | rfl
    · refine ⟨cs.filter (famB (root ++ [lab nm k])), C, ?_, hCs, Or.inl ⟨rfl, hCk⟩, ?_⟩
      · have hrf : rt.filter (famB (root ++ [lab nm k])) = [] := by
          apply List.filter_eq_nil_iff.2
          intro e he
          rw [hrtk e he, famB_route rfl]; simp
        show (evNodeStart (root ++ [lab nm k]) root nm :: cs ++ rt ++ [C]).filter (famB (root ++ [lab nm k])) = _
        rw [List.filter_append, List.filter_append, hrf, List.filter_cons]
        have h1 : famB (root ++ [lab nm k]) (evNodeStart (root ++ [lab nm k]) root nm) = true :=
          famB_of_span kind_ne_route₃ rfl
        have h2 : famB (root ++ [lab nm k]) C = true := famB_of_span hCr hCs
        simp [h1, h2]
      · intro x hx
        obtain ⟨hxb, hxf⟩ := List.mem_filter.1 hx
        have hne : x.span ≠ root ++ [lab nm k] := span_len_ne (Ne.symm (Nat.ne_of_lt (below_len (hsc x hxb))))
        rcases (famB_true hxf).2 with h | h
        · exact absurd h hne
        · exact ⟨h, hne⟩
    · rw [hshape]
      refine (hcs.1 s hs ho).extend ?_ ?_
      · intro e he
        rw [List.mem_singleton] at he; subst he
        exact houter s hs _ kind_ne_route₃ rfl rfl
      · intro e he
        rcases List.mem_append.1 he with he | he
        · rw [hrtk e he]; exact famB_route rfl
        · rw [List.mem_singleton] at he; subst he
          exact houter s hs _ hCr hCs hCp
    · rw [hrtk s hs] at ho
      exact absurd ho (not_opener_of_kind (k := "RouteDecision") rfl (by decide) (by decide))
    · exact absurd ho hCo
  · intro r hr hk
    simp only [List.mem_cons, List.mem_append, List.not_mem_nil, or_false] at hr
    rcases hr with ((rfl | hr) | hr) | rfl
    · exact absurd hk kind_ne_route₃
    · rw [hshape]
      have hrl := below_len (hsc r hr)
      refine (hcs.2 r hr hk).extend ?_ ?_
      · intro e he
        rw [List.mem_singleton] at he; subst he
        refine ⟨fun h => kind_ne_route₃ (by rw [← h] at hk; exact hk), fun s hs _ _ => ?_⟩
        exact span_len_ne (Nat.ne_of_lt (below_len (hsc s hs)))
      · intro e he
        rcases List.mem_append.1 he with he | he
        · refine ⟨?_, fun s hs _ hek => ?_⟩
          · intro h
            rw [hrtk e he] at h
            have := congrArg (fun x => x.span.length) h
            simp [evRoute] at this hrl
            omega
          · rw [hrtk e he] at hek; exact absurd rfl hek
        · rw [List.mem_singleton] at he; subst he
          refine ⟨fun h => hCr (h ▸ hk), fun s hs _ _ => ?_⟩
          rw [hCs]; exact span_len_ne (Nat.ne_of_lt (below_len (hsc s hs)))
    · -- the node's own route decision
      rcases hrt with rfl | ⟨info, rfl⟩
      · cases hr
      · rw [List.mem_singleton] at hr; subst hr
        have hCe : C = evNodeEnd (root ++ [lab nm k]) root nm := by
          rcases hC with h | ⟨_, h⟩
          · exact h
          · cases h
        subst hCe
        refine ⟨root, k, rfl, rfl, ?_⟩
        have hcf : cs.filter (routeB (evRoute root nm k info) (root ++ [lab nm k])) = [] := by
          apply List.filter_eq_nil_iff.2
          intro e he
          have hl := below_len (hsc e he)
          rw [routeB_false (Or.inr (span_len_ne (Ne.symm (Nat.ne_of_lt hl))))]
          · simp
          · intro h
            have := congrArg (fun x => x.span.length) h
            simp [evRoute] at this hl
            omega
        show (evNodeStart (root ++ [lab nm k]) root nm :: cs ++ [evRoute root nm k info] ++
          [evNodeEnd (root ++ [lab nm k]) root nm]).filter (routeB (evRoute root nm k info) (root ++ [lab nm k])) = _
        rw [List.filter_append, List.filter_append, List.filter_cons, hcf]
        simp [routeB, evNodeStart, evNodeEnd, evRoute]
    · exact absurd hk hCr

/-! ### the strict grammar satisfies the flat properties -/

/-- the external parent of a run is not one of the run's own (longer) spans -/
def ParentShort (root : Span) (parent : Option Span) : Prop := ∀ p, parent = some p → p.length ≤ root.length

def Flat : Shape → List Ev → Prop
  | .run root parent (some _), evs => ParentShort root parent → FlatOK evs
  | .blocks false _ ls, evs => ls.Nodup → FlatOK evs
  | .node _ _, evs => FlatOK evs
  | .kids _, evs => FlatOK evs
  | .map root parent, evs => ParentShort root parent → FlatOK evs
  | .items _ _, evs => FlatOK evs
  | _, _ => True

theorem inblk_len {root : Span} {l : String} {e : Ev} (h : InBlk root l e) : root.length < e.span.length := by
  rcases h with ⟨nm, k, info, _, rfl⟩ | ⟨hs, _, _⟩ | ⟨⟨y, p, hs⟩, _⟩
  · simp [evRoute]
  · rw [hs]; simp
  · rw [hs]; simp

theorem insub_len {root : Span} {l : String} {e : Ev} (h : InSub root l e) : root.length < e.span.length :=
  inblk_len (Or.inr h)

theorem Trace.flat {sh : Shape} {evs : List Ev} (h : Trace false sh evs) : Flat sh evs := by
  induction h with
  | runC hb hnd ih =>
    intro hpar
    exact flat_wrap ⟨rfl, rfl, rfl⟩ ⟨rfl, rfl, rfl⟩ hpar
      (fun e he => by obtain ⟨l, _, hl⟩ := hb.scope e he; exact inblk_len hl) (ih hnd)
  | runP hb hnd ih => trivial
  | @bnil o root =>
    cases o
    · intro _; exact FlatOK.nil
    · trivial
  | @bcons o root l ls b rest hb hr ihb ihr =>
    cases o
    · intro hnd
      rw [List.nodup_cons] at hnd
      obtain ⟨h1, h2⟩ := indep_inblk (root := root) (l := l) (X := b) (Y := rest) (fun e he => hb.scope e he)
        (fun e he => by
          obtain ⟨l', hl', h⟩ := hr.scope e he
          exact ⟨l', fun heq => hnd.1 (heq ▸ hl'), h⟩)
      exact FlatOK.append ihb (ihr hnd.2) h1 h2
    · trivial
  | bconsP hb hr ihb ihr => trivial
  | nodeEnd hk hrt ih =>
    exact flat_node ih (fun e he => hk.scope e he) hrt (Or.inl rfl)
  | nodeErr hk ih =>
    have := flat_node (rt := []) ih (fun e he => hk.scope e he) (Or.inl rfl) (Or.inr ⟨rfl, rfl⟩)
    show FlatOK _
    simpa using this
  | pnodeErr hk ih => trivial
  | pnodeOpen hk ih => trivial
  | kidsNil => exact FlatOK.nil
  | kidsRun hr ih => exact ih (fun p hp => by injection hp with hp; subst hp; simp)
  | kidsMap hr ih => exact ih (fun p hp => by injection hp with hp; subst hp; simp)
  | pkidsNil => trivial
  | pkidsRun hr ih => trivial
  | mapMk hi ih =>
    intro hpar
    exact flat_wrap ⟨rfl, rfl, rfl⟩ ⟨rfl, rfl, rfl⟩ hpar
      (fun e he => by obtain ⟨j, _, hj⟩ := hi.scope e he; exact insub_len hj) ih
  | itemsNil => exact FlatOK.nil
  | @itemsCons root i st e rest hr hst hrest ihr ihrest =>
    cases st with
    | none => exact absurd (hst rfl) (by decide)
    | some s =>
      have hE : FlatOK e := ihr (fun p hp => by injection hp with hp; subst hp; simp)
      obtain ⟨h1, h2⟩ := indep_inblk (root := root) (l := toString i) (X := e) (Y := rest)
        (fun x hx => Or.inr (runscope_insub (hr.scope x hx)))
        (fun x hx => by
          obtain ⟨j, hj, h⟩ := hrest.scope x hx
          refine ⟨toString j, fun heq => ?_, Or.inr h⟩
          have := toString_nat_inj heq
          omega)
      exact FlatOK.append hE ihrest h1 h2

/-! ### (d): every nested `RunStart` is parented to an opener of the same trace -/

/-- `r`'s parent is the span of an opener `o` of the list (a different span) -/
def HasOpener (evs : List Ev) (r : Ev) : Prop := ∃ o ∈ evs, isOpener o ∧ r.parent = some o.span ∧ o.span ≠ r.span

/-- what is known about a `RunStart` of a sub-trace whose opener may lie outside it -/
def ParExt : Shape → Ev → Prop
  | .run root parent _, r => r.span = root ∧ r.parent = parent
  | .map root parent, r => r.span = root ∧ r.parent = parent
  | .kids sp, r => r.parent = some sp ∧ r.span ≠ sp
  | .pkids sp, r => r.parent = some sp ∧ r.span ≠ sp
  | .items root _, r => r.parent = some root ∧ r.span ≠ root
  | _, _ => False

theorem HasOpener.mono {A B : List Ev} {r : Ev} (h : HasOpener A r) (hAB : ∀ e ∈ A, e ∈ B) : HasOpener B r := by
  obtain ⟨o, ho, h⟩ := h
  exact ⟨o, hAB o ho, h⟩

set_option linter.unusedSimpArgs false in
theorem Trace.parents {ao : Bool} {sh : Shape} {evs : List Ev} (h : Trace ao sh evs) :
    ∀ r ∈ evs, r.kind = "RunStart" → ParExt sh r ∨ HasOpener evs r := by
  induction h with
  | runC hb hnd ih =>
    intro r hr hk
    simp only [List.mem_cons, List.mem_append, List.not_mem_nil, or_false] at hr
    rcases hr with (rfl | hr) | rfl
    · exact Or.inl ⟨rfl, rfl⟩
    · rcases ih r hr hk with h | h
      · exact h.elim
      · exact Or.inr (h.mono (fun e he => by simp [he]))
    · exact absurd hk (by simp [evRunEnd, evNodeStart, evNodeEnd, evNodeError, evRoute])
  | runP hb hnd ih =>
    intro r hr hk
    rcases List.mem_cons.1 hr with rfl | hr
    · exact Or.inl ⟨rfl, rfl⟩
    · rcases ih r hr hk with h | h
      · exact h.elim
      · exact Or.inr (h.mono (fun e he => List.mem_cons_of_mem _ he))
  | bnil => intro r hr; cases hr
  | bcons hb hr ihb ihr =>
    intro r hr' hk
    rcases List.mem_append.1 hr' with h | h
    · rcases ihb r h hk with h | h
      · exact h.elim
      · exact Or.inr (h.mono (fun e he => List.mem_append_left _ he))
    · rcases ihr r h hk with h | h
      · exact h.elim
      · exact Or.inr (h.mono (fun e he => List.mem_append_right _ he))
  | bconsP hb hr ihb ihr =>
    intro r hr' hk
    rcases List.mem_append.1 hr' with h | h
    · rcases ihb r h hk with h | h
      · exact h.elim
      · exact Or.inr (h.mono (fun e he => List.mem_append_left _ he))
    · rcases ihr r h hk with h | h
      · exact h.elim
      · exact Or.inr (h.mono (fun e he => List.mem_append_right _ he))
  | nodeEnd hk' hrt ih =>
    intro r hr hk
    simp only [List.mem_cons, List.mem_append, List.not_mem_nil, or_false] at hr
    rcases hr with ((rfl | hr) | hr) | rfl
    · exact absurd hk (by simp [evRunEnd, evNodeStart, evNodeEnd, evNodeError, evRoute])
    · rcases ih r hr hk with h | h
      · exact Or.inr ⟨_, List.mem_cons_self, Or.inl rfl, h.1, fun heq => h.2 heq.symm⟩
      · exact Or.inr (h.mono (fun e he => by simp [he]))
    · rcases hrt with rfl | ⟨info, rfl⟩
      · cases hr
      · rw [List.mem_singleton] at hr; subst hr
        exact absurd hk (by simp [evRoute])
    · exact absurd hk (by simp [evRunEnd, evNodeStart, evNodeEnd, evNodeError, evRoute])
  | nodeErr hk' ih =>
    intro r hr hk
    simp only [List.mem_cons, List.mem_append, List.not_mem_nil, or_false] at hr
    rcases hr with (rfl | hr) | rfl
    · exact absurd hk (by simp [evRunEnd, evNodeStart, evNodeEnd, evNodeError, evRoute])
    · rcases ih r hr hk with h | h
      · exact Or.inr ⟨_, List.mem_cons_self, Or.inl rfl, h.1, fun heq => h.2 heq.symm⟩
      · exact Or.inr (h.mono (fun e he => by simp [he]))
    · exact absurd hk (by simp [evRunEnd, evNodeStart, evNodeEnd, evNodeError, evRoute])
  | pnodeErr hk' ih =>
    intro r hr hk
    simp only [List.mem_cons, List.mem_append, List.not_mem_nil, or_false] at hr
    rcases hr with (rfl | hr) | rfl
    · exact absurd hk (by simp [evRunEnd, evNodeStart, evNodeEnd, evNodeError, evRoute])
    · rcases ih r hr hk with h | h
      · exact Or.inr ⟨_, List.mem_cons_self, Or.inl rfl, h.1, fun heq => h.2 heq.symm⟩
      · exact Or.inr (h.mono (fun e he => by simp [he]))
    · exact absurd hk (by simp [evRunEnd, evNodeStart, evNodeEnd, evNodeError, evRoute])
  | pnodeOpen hk' ih =>
    intro r hr hk
    rcases List.mem_cons.1 hr with rfl | hr
    · exact absurd hk (by simp [evRunEnd, evNodeStart, evNodeEnd, evNodeError, evRoute])
    · rcases ih r hr hk with h | h
      · exact Or.inr ⟨_, List.mem_cons_self, Or.inl rfl, h.1, fun heq => h.2 heq.symm⟩
      · exact Or.inr (h.mono (fun e he => List.mem_cons_of_mem _ he))
  | kidsNil => intro r hr; cases hr
  | kidsRun hr ih =>
    intro r hr' hk
    rcases ih r hr' hk with h | h
    · exact Or.inl ⟨h.2, by rw [h.1]; exact span_len_ne (by simp)⟩
    · exact Or.inr h
  | kidsMap hr ih =>
    intro r hr' hk
    rcases ih r hr' hk with h | h
    · exact Or.inl ⟨h.2, by rw [h.1]; exact span_len_ne (by simp)⟩
    · exact Or.inr h
  | pkidsNil => intro r hr; cases hr
  | pkidsRun hr ih =>
    intro r hr' hk
    rcases ih r hr' hk with h | h
    · exact Or.inl ⟨h.2, by rw [h.1]; exact span_len_ne (by simp)⟩
    · exact Or.inr h
  | mapMk hi ih =>
    intro r hr hk
    simp only [List.mem_cons, List.mem_append, List.not_mem_nil, or_false] at hr
    rcases hr with (rfl | hr) | rfl
    · exact Or.inl ⟨rfl, rfl⟩
    · rcases ih r hr hk with h | h
      · exact Or.inr ⟨_, List.mem_cons_self, Or.inr rfl, h.1, fun heq => h.2 heq.symm⟩
      · exact Or.inr (h.mono (fun e he => by simp [he]))
    · exact absurd hk (by simp [evRunEnd, evNodeStart, evNodeEnd, evNodeError, evRoute])
  | itemsNil => intro r hr; cases hr
  | itemsCons hr hst hrest ihr ihrest =>
    intro r hr' hk
    rcases List.mem_append.1 hr' with h | h
    · rcases ihr r h hk with h | h
      · exact Or.inl ⟨h.2, by rw [h.1]; exact span_len_ne (by simp)⟩
      · exact Or.inr (h.mono (fun e he => List.mem_append_left _ he))
    · rcases ihrest r h hk with h | h
      · exact Or.inl h
      · exact Or.inr (h.mono (fun e he => List.mem_append_right _ he))

/-! ### the flat predicate -/

/-- (a)–(e) on the flat event list of a terminated run -/
structure WellNested (root : Span) (parent : Option Span) (status : String) (evs : List Ev) : Prop where
  /-- (a) the first event is the run's `RunStart` -/
  first : ∃ nm rest, evs = evRunStart root parent nm "" :: rest
  /-- (a) the last event is the run's `RunEnd`, carrying the status -/
  last : ∃ nm init, evs = init ++ [evRunEnd root parent nm status]
  /-- (a) uniqueness, (b), (c): for EVERY `RunStart`/`NodeStart` of the list (the root run, every
  nested run, every node), the events with that span or parented to it are: the opener, then the
  children, then exactly one closing event -/
  openers : OpenersOK evs
  /-- (d) every other `RunStart` is parented to a `NodeStart` (or, for a map item, the map's
  `RunStart`) of the list; by `openers` it lies strictly between that opener and its closing event -/
  parents : ∀ r ∈ evs, r.kind = "RunStart" → (r.span = root ∧ r.parent = parent) ∨ HasOpener evs r
  /-- (e) every `RouteDecision` sits between the `NodeStart` and the `NodeEnd` of its gate at the
  same superstep, and its parent is the run span -/
  routes : RoutesOK evs

theorem grammar_wellnested_aux {root : Span} {parent : Option Span} {status : String} {evs : List Ev}
    (h : Trace false (.run root parent (some status)) evs) (hpar : ParentShort root parent) :
    WellNested root parent status evs := by
  obtain ⟨nm, ls, body, hE, _, _⟩ := h.run_some_inv
  have hf : FlatOK evs := h.flat hpar
  refine ⟨⟨nm, _, by rw [hE]; rfl⟩, ⟨nm, _, hE⟩, hf.1, ?_, hf.2⟩
  intro r hr hk
  exact h.parents r hr hk

/-! ### positional reading of the filter statements -/

/-- `SpanClosed` in positional form: the opener, later its closing event, no other (non-route) event
with that span anywhere, and no event parented to the span outside the two -/
theorem SpanClosed.positions {evs : List Ev} {s : Ev} (h : SpanClosed evs s) :
    ∃ A B c C, evs = A ++ s :: B ++ c :: C ∧ c.span = s.span ∧ isCloseOf s c ∧
      (∀ x ∈ A ++ B ++ C, x.kind ≠ "RouteDecision" → x.span ≠ s.span) ∧
      (∀ x ∈ A ++ C, x.kind ≠ "RouteDecision" → x.parent ≠ some s.span) := by
  obtain ⟨mid, c, hf, hcs, hcl, hmid⟩ := h
  obtain ⟨A, L2, hE, hA, _, hL2⟩ := List.filter_eq_cons_iff.1 hf
  obtain ⟨B, L3, hL2E, hB, hL3⟩ := List.filter_eq_append_iff.1 hL2
  obtain ⟨B', C, hL3E, hB', _, hC⟩ := List.filter_eq_cons_iff.1 hL3
  have hnot : ∀ x : Ev, ¬ famB s.span x = true → x.kind ≠ "RouteDecision" →
      x.span ≠ s.span ∧ x.parent ≠ some s.span := by
    intro x hx hk
    constructor
    · intro h; exact hx (famB_of_span hk h)
    · intro h; exact hx (by simp [famB, hk, h])
  have hCn : ∀ x ∈ C, ¬ famB s.span x = true := by
    intro x hx
    have := List.filter_eq_nil_iff.1 hC x hx
    exact this
  refine ⟨A, B ++ B', c, C, by rw [hE, hL2E, hL3E]; simp, hcs, hcl, ?_, ?_⟩
  · intro x hx hk
    simp only [List.mem_append] at hx
    rcases hx with (hx | hx | hx) | hx
    · exact (hnot x (hA x hx) hk).1
    · by_cases hp : famB s.span x = true
      · have : x ∈ mid := by rw [← hB]; exact List.mem_filter.2 ⟨hx, hp⟩
        exact (hmid x this).2
      · exact (hnot x hp hk).1
    · exact (hnot x (hB' x hx) hk).1
    · exact (hnot x (hCn x hx) hk).1
  · intro x hx hk
    rcases List.mem_append.1 hx with hx | hx
    · exact (hnot x (hA x hx) hk).2
    · exact (hnot x (hCn x hx) hk).2

/-- `RouteOK` in positional form: `NodeStart … r … NodeEnd` -/
theorem RouteOK.positions {evs : List Ev} {r : Ev} (h : RouteOK evs r) :
    ∃ rs k A B C D, r.parent = some rs ∧ r.span = rs ++ [r.name ++ "!route#" ++ toString k] ∧
      evs = A ++ evNodeStart (rs ++ [lab r.name k]) rs r.name :: B ++ r :: C ++
        evNodeEnd (rs ++ [lab r.name k]) rs r.name :: D := by
  obtain ⟨rs, k, hp, hs, hf⟩ := h
  obtain ⟨A, L2, hE, _, _, hL2⟩ := List.filter_eq_cons_iff.1 hf
  obtain ⟨B, L3, hE2, _, _, hL3⟩ := List.filter_eq_cons_iff.1 hL2
  obtain ⟨C, D, hE3, _, _, _⟩ := List.filter_eq_cons_iff.1 hL3
  exact ⟨rs, k, A, B, C, D, hp, hs, by rw [hE, hE2, hE3]; simp⟩

/-! ## interleavings -/

/-- `r` is a shuffle of `a` and `b`, preserving the order inside each -/
inductive Shuffle {α : Type} : List α → List α → List α → Prop
  | nil : Shuffle [] [] []
  | left {a b r : List α} (e : α) : Shuffle a b r → Shuffle (e :: a) b (e :: r)
  | right {a b r : List α} (e : α) : Shuffle a b r → Shuffle a (e :: b) (e :: r)

/-- `r` is a shuffle of all the blocks, preserving each block's internal order -/
inductive Interleave : List (List Ev) → List Ev → Prop
  | nil : Interleave [] []
  | cons {b : List Ev} {bs : List (List Ev)} {r' r : List Ev} :
      Interleave bs r' → Shuffle b r' r → Interleave (b :: bs) r

theorem Shuffle.mem {α : Type} {a b r : List α} (h : Shuffle a b r) (x : α) : x ∈ r ↔ x ∈ a ∨ x ∈ b := by
  induction h with
  | nil => simp
  | left e _ ih => simp [ih, or_assoc]
  | right e _ ih =>
    simp only [List.mem_cons, ih]
    constructor
    · rintro (h | h | h)
      · exact Or.inr (Or.inl h)
      · exact Or.inl h
      · exact Or.inr (Or.inr h)
    · rintro (h | h | h)
      · exact Or.inr (Or.inl h)
      · exact Or.inl h
      · exact Or.inr (Or.inr h)

theorem Shuffle.filter {α : Type} {a b r : List α} (h : Shuffle a b r) (p : α → Bool) :
    Shuffle (a.filter p) (b.filter p) (r.filter p) := by
  induction h with
  | nil => exact .nil
  | left e _ ih =>
    by_cases hp : p e = true
    · simp only [List.filter_cons, hp, if_true]; exact .left e ih
    · simp only [List.filter_cons, hp]; exact ih
  | right e _ ih =>
    by_cases hp : p e = true
    · simp only [List.filter_cons, hp, if_true]; exact .right e ih
    · simp only [List.filter_cons, hp]; exact ih

theorem Shuffle.nil_left {α : Type} {b r : List α} (h : Shuffle [] b r) : r = b := by
  generalize ha : ([] : List α) = a at h
  induction h with
  | nil => rfl
  | left e _ _ => cases ha
  | right e _ ih => rw [ih ha]

theorem Shuffle.nil_right {α : Type} {a r : List α} (h : Shuffle a [] r) : r = a := by
  generalize hb : ([] : List α) = b at h
  induction h with
  | nil => rfl
  | left e _ ih => rw [ih hb]
  | right e _ _ => cases hb

theorem Shuffle.of_nil_right {α : Type} : ∀ (a : List α), Shuffle a [] a
  | [] => .nil
  | e :: a => .left e (Shuffle.of_nil_right a)

theorem Shuffle.of_nil_left {α : Type} : ∀ (b : List α), Shuffle [] b b
  | [] => .nil
  | e :: b => .right e (Shuffle.of_nil_left b)

/-- concatenation is a shuffle -/
theorem Shuffle.append {α : Type} : ∀ (a b : List α), Shuffle a b (a ++ b)
  | [], b => Shuffle.of_nil_left b
  | e :: a, b => .left e (Shuffle.append a b)

/-- concatenation of the blocks is an interleaving (what the model's async step logs) -/
theorem Interleave.flatten : ∀ (bs : List (List Ev)), Interleave bs bs.flatten
  | [] => .nil
  | b :: bs => by
    rw [List.flatten_cons]
    exact .cons (Interleave.flatten bs) (Shuffle.append b _)

theorem Interleave.mem {bs : List (List Ev)} {r : List Ev} (h : Interleave bs r) (x : Ev) :
    x ∈ r ↔ ∃ b ∈ bs, x ∈ b := by
  induction h with
  | nil => simp
  | cons _ hs ih => rw [hs.mem, ih]; simp

theorem Interleave.filter {bs : List (List Ev)} {r : List Ev} (h : Interleave bs r) (p : Ev → Bool) :
    Interleave (bs.map (List.filter p)) (r.filter p) := by
  induction h with
  | nil => exact .nil
  | cons _ hs ih => exact .cons ih (hs.filter p)

theorem Interleave.all_nil {bs : List (List Ev)} {r : List Ev} (h : Interleave bs r) (hn : ∀ d ∈ bs, d = []) :
    r = [] := by
  induction h with
  | nil => rfl
  | cons _ hs ih =>
    have h1 := ih (fun d hd => hn d (List.mem_cons_of_mem _ hd))
    have h2 := hn _ List.mem_cons_self
    subst h1; subst h2
    exact hs.nil_left

/-- at most one block is non-empty -/
def AMO : List (List Ev) → Prop
  | [] => True
  | c :: cs => (c = [] ∧ AMO cs) ∨ (∀ d ∈ cs, d = [])

theorem flatten_all_nil (cs : List (List Ev)) (h : ∀ d ∈ cs, d = []) : cs.flatten = [] := by
  induction cs with
  | nil => rfl
  | cons c cs ih =>
    rw [List.flatten_cons, h c List.mem_cons_self, ih (fun d hd => h d (List.mem_cons_of_mem _ hd))]; rfl

theorem Interleave.amo {cs : List (List Ev)} {r : List Ev} (h : Interleave cs r) (ha : AMO cs) : r = cs.flatten := by
  induction h with
  | nil => rfl
  | cons hi hs ih =>
    rcases ha with ⟨hc, ha⟩ | hall
    · subst hc
      rw [hs.nil_left, ih ha]; rfl
    · have := hi.all_nil hall
      subst this
      rw [hs.nil_right, List.flatten_cons, flatten_all_nil _ hall, List.append_nil]

/-- the events satisfying `p` all live in the block labelled `l`: filtering an interleaving by `p`
is the same as filtering that block -/
theorem filter_blocks_label (root : Span) (p : Ev → Bool) (l : String)
    (hp : ∀ l' e, InBlk root l' e → p e = true → l' = l) :
    ∀ (bls : List (String × List Ev)), (∀ x ∈ bls, ∀ e ∈ x.2, InBlk root x.1 e) →
      bls.Pairwise (fun x y => x.1 ≠ y.1) →
      AMO ((bls.map (·.2)).map (List.filter p)) ∧
      (∀ x ∈ bls, x.1 = l → ((bls.map (·.2)).map (List.filter p)).flatten = x.2.filter p) ∧
      ((∀ x ∈ bls, x.1 ≠ l) → ∀ d ∈ (bls.map (·.2)).map (List.filter p), d = []) := by
  intro bls
  induction bls with
  | nil => intro _ _; exact ⟨trivial, fun x hx => (by cases hx), fun _ d hd => (by cases hd)⟩
  | cons y ys ih =>
    intro hsc hpw
    rw [List.pairwise_cons] at hpw
    obtain ⟨ih1, ih2, ih3⟩ := ih (fun x hx => hsc x (List.mem_cons_of_mem _ hx)) hpw.2
    have hy : y.1 ≠ l → y.2.filter p = [] := by
      intro hne
      apply List.filter_eq_nil_iff.2
      intro e he hpe
      exact hne (hp _ e (hsc y List.mem_cons_self e he) hpe)
    simp only [List.map_cons, List.flatten_cons]
    refine ⟨?_, ?_, ?_⟩
    · by_cases hyl : y.1 = l
      · right
        exact ih3 (fun x hx heq => hpw.1 x hx (hyl.trans heq.symm))
      · left; exact ⟨hy hyl, ih1⟩
    · intro x hx hxl
      rcases List.mem_cons.1 hx with rfl | hx
      · have := flatten_all_nil _ (ih3 (fun z hz heq => hpw.1 z hz (hxl.trans heq.symm)))
        rw [this, List.append_nil]
      · have hyl : y.1 ≠ l := fun heq => hpw.1 x hx (heq.trans hxl.symm)
        rw [hy hyl, List.nil_append]
        exact ih2 x hx hxl
    · intro hall d hd
      rcases List.mem_cons.1 hd with rfl | hd
      · exact hy (hall y List.mem_cons_self)
      · exact ih3 (fun x hx => hall x (List.mem_cons_of_mem _ hx)) d hd

theorem interleave_filter_label (root : Span) (p : Ev → Bool) (l : String)
    (hp : ∀ l' e, InBlk root l' e → p e = true → l' = l)
    (bls : List (String × List Ev)) (hsc : ∀ x ∈ bls, ∀ e ∈ x.2, InBlk root x.1 e)
    (hpw : bls.Pairwise (fun x y => x.1 ≠ y.1)) (r : List Ev) (hr : Interleave (bls.map (·.2)) r)
    (x : String × List Ev) (hx : x ∈ bls) (hxl : x.1 = l) : r.filter p = x.2.filter p := by
  obtain ⟨h1, h2, _⟩ := filter_blocks_label root p l hp bls hsc hpw
  rw [(hr.filter p).amo h1, h2 x hx hxl]

theorem node_has_start {ao : Bool} {root : Span} {l : String} {b : List Ev} (h : Trace ao (.node root l) b) :
    ∃ e ∈ b, e.span = root ++ [l] := by
  cases h with
  | nodeEnd _ _ => exact ⟨_, List.mem_cons_self, rfl⟩
  | nodeErr _ => exact ⟨_, List.mem_cons_self, rfl⟩

/-- per-span orderings survive arbitrary interleaving of sibling node blocks -/
theorem interleave_flat (root : Span) (bls : List (String × List Ev))
    (hb : ∀ x ∈ bls, Trace false (.node root x.1) x.2)
    (hpw : bls.Pairwise (fun x y => x.1 ≠ y.1)) (r : List Ev) (hr : Interleave (bls.map (·.2)) r) :
    FlatOK r := by
  have hsc : ∀ x ∈ bls, ∀ e ∈ x.2, InBlk root x.1 e := fun x hx e he => (hb x hx).scope e he
  have hfl : ∀ x ∈ bls, FlatOK x.2 := fun x hx => (hb x hx).flat
  have hfam : ∀ x ∈ bls, ∀ s ∈ x.2, isOpener s → ∀ l' e, InBlk root l' e → famB s.span e = true → l' = x.1 := by
    intro x hx s hs ho l' e he hf
    apply Classical.byContradiction
    intro hne
    rw [famB_inblk (fun h => hne h.symm) (hsc x hx s hs) ho he] at hf
    cases hf
  constructor
  · intro s hs ho
    obtain ⟨b, hbm, hsb⟩ := (hr.mem s).1 hs
    obtain ⟨x, hx, rfl⟩ := List.mem_map.1 hbm
    obtain ⟨mid, c, hf, rest⟩ := (hfl x hx).1 s hsb ho
    refine ⟨mid, c, ?_, rest⟩
    rw [interleave_filter_label root _ x.1 (hfam x hx s hsb ho) bls hsc hpw r hr x hx rfl, hf]
  · intro r0 hr0 hk
    obtain ⟨b, hbm, hsb⟩ := (hr.mem r0).1 hr0
    obtain ⟨x, hx, rfl⟩ := List.mem_map.1 hbm
    obtain ⟨rs, k, hp, hs, hf⟩ := (hfl x hx).2 r0 hsb hk
    refine ⟨rs, k, hp, hs, ?_⟩
    have hmem : evNodeStart (rs ++ [lab r0.name k]) rs r0.name ∈ x.2 := by
      have : evNodeStart (rs ++ [lab r0.name k]) rs r0.name ∈ x.2.filter (routeB r0 (rs ++ [lab r0.name k])) := by
        rw [hf]; exact List.mem_cons_self
      exact (List.mem_filter.1 this).1
    rw [interleave_filter_label root _ x.1 ?_ bls hsc hpw r hr x hx rfl, hf]
    intro l' e he hpe
    rcases routeB_true hpe with ⟨hek, hes⟩ | rfl
    · exact hfam x hx _ hmem (Or.inl rfl) l' e he (famB_of_span hek hes)
    · exact inblk_unique he (hsc x hx _ hsb)

/-! ### (d) in positional form -/

theorem filter_between {α} (p : α → Bool) (l : List α) (a x c : α) (m1 m2 : List α)
    (h : l.filter p = a :: (m1 ++ x :: m2) ++ [c]) : ∃ A B C D, l = A ++ a :: B ++ x :: C ++ c :: D := by
  obtain ⟨A, L2, hE, _, _, hL2⟩ := List.filter_eq_cons_iff.1 h
  have hL2 : List.filter p L2 = m1 ++ (x :: m2 ++ [c]) := by rw [hL2]; simp
  obtain ⟨B1, L3, hE2, _, hL3⟩ := List.filter_eq_append_iff.1 hL2
  obtain ⟨B2, L4, hE3, _, _, hL4⟩ := List.filter_eq_cons_iff.1 hL3
  obtain ⟨C1, L5, hE4, _, hL5⟩ := List.filter_eq_append_iff.1 hL4
  obtain ⟨C2, D, hE5, _, _, _⟩ := List.filter_eq_cons_iff.1 hL5
  exact ⟨A, B1 ++ B2, C1 ++ C2, D, by rw [hE, hE2, hE3, hE4, hE5]; simp⟩

/-- (d) in positional form: a nested `RunStart` lies strictly between the opener it is parented to
(a `NodeStart`, or the map's `RunStart` for an item) and that opener's closing event -/
theorem WellNested.parent_open {root : Span} {parent : Option Span} {status : String} {evs : List Ev}
    (h : WellNested root parent status evs) (r : Ev) (hr : r ∈ evs) (hk : r.kind = "RunStart") :
    (r.span = root ∧ r.parent = parent) ∨
    ∃ o c A B C D, isOpener o ∧ r.parent = some o.span ∧ isCloseOf o c ∧ c.span = o.span ∧
      evs = A ++ o :: B ++ r :: C ++ c :: D := by
  rcases h.parents r hr hk with h1 | ⟨o, ho, hop, hpar, hne⟩
  · exact Or.inl h1
  · right
    obtain ⟨mid, c, hf, hcs, hcl, hmid⟩ := h.openers o ho hop
    have hrf : r ∈ evs.filter (famB o.span) :=
      List.mem_filter.2 ⟨hr, by simp [famB, hk, hpar]⟩
    rw [hf] at hrf
    have hrm : r ∈ mid := by
      simp only [List.mem_cons, List.mem_append, List.not_mem_nil, or_false] at hrf
      rcases hrf with (rfl | h') | rfl
      · exact absurd rfl hne
      · exact h'
      · exact absurd hcs (fun h => hne h.symm)
    obtain ⟨m1, m2, rfl⟩ := List.append_of_mem hrm
    obtain ⟨A, B, C, D, hE⟩ := filter_between _ _ _ _ _ _ _ hf
    exact ⟨o, c, A, B, C, D, hop, hpar, hcl, hcs, hE⟩

/-! ## hypotheses on programs, and the items of a map spelled out -/

/-- every graph of the program has pairwise distinct node names -/
def NamesNodup (prog : Program) : Prop := ∀ g ∈ prog, (g.nodes.map (·.name)).Nodup
/-- no graph of the program (the graphs nested runs execute) contains an interrupt node -/
def NoInterrupts (prog : Program) : Prop := ∀ g ∈ prog, NoIntr g

/-- the items of a map, one by one: the `j`-th chunk is a run trace with span `root ++ [i + j]` and
parent `root` (terminated, or — open grammar only — paused) -/
theorem Trace.items_split {ao : Bool} {root : Span} {i : Nat} {its : List Ev} (h : Trace ao (.items root i) its) :
    ∃ chunks : List (List Ev), its = chunks.flatten ∧
      ∀ j (hj : j < chunks.length), ∃ st, Trace ao (.run (root ++ [toString (i + j)]) (some root) st) chunks[j] ∧
        (st = none → ao = true) := by
  generalize hs : Shape.items root i = sh at h
  induction h generalizing i with
  | itemsNil => exact ⟨[], rfl, fun j hj => absurd hj (by simp)⟩
  | itemsCons hr hst hrest _ ih =>
    cases hs
    obtain ⟨chunks, hE, hc⟩ := ih rfl
    refine ⟨_ :: chunks, by rw [hE]; rfl, ?_⟩
    intro j hj
    cases j with
    | zero => exact ⟨_, hr, hst⟩
    | succ j =>
      obtain ⟨st, h1, h2⟩ := hc j (by simpa using hj)
      refine ⟨st, ?_, h2⟩
      rw [Nat.add_assoc, Nat.add_comm 1 j] at h1
      exact h1
  | _ => cases hs

/-! ## concrete programs for the examples of `HG/Props/C12.lean` -/
namespace C12Ex

/-- a two-node DAG `a → b` -/
def progDag : Program := elabProgram [{ name := "g", nodes := [
   { name := "a", kind := .fn, params := [("x", .none)], dataOuts := ["y"], body := .tag "a" },
   { name := "b", kind := .fn, params := [("y", .none)], dataOuts := ["z"], body := .tag "b" }] }]
/-- the same with a failing second node -/
def progFail : Program := elabProgram [{ name := "g", nodes := [
   { name := "a", kind := .fn, params := [("x", .none)], dataOuts := ["y"], body := .tag "a" },
   { name := "b", kind := .fn, params := [("y", .none)], dataOuts := ["z"], body := .fail "boom" }] }]
/-- a graph with a nested-graph node; the inner node fails when `x = 7` -/
def progNest : Program := elabProgram [
  { name := "inner", nodes := [
     { name := "a", kind := .fn, params := [("x", .none)], dataOuts := ["y"], body := .failIf 7 "a" }] },
  { name := "outer", nodes := [ { name := "sub", kind := .graph, inner := 0 } ] }]
/-- an if/else gate followed by its target -/
def progGate : Program := elabProgram [{ name := "g", nodes := [
   { name := "gt", kind := .ifelse, params := [("x", .none)], targets := [.node "c", .end_], body := .lt 5 },
   { name := "c", kind := .fn, params := [("x", .none)], dataOuts := ["w"], body := .tag "c" }] }]
/-- a mapped nested graph whose only node is an interrupt that always pauses -/
def progPausedItem : Program := elabProgram [
  { name := "inner", nodes := [
     { name := "ask", kind := .interrupt, params := [("x", .none)], dataOuts := ["ans"], body := .handler .none }] },
  { name := "outer", nodes := [
     { name := "m", kind := .graph, inner := 0, inRen := [("x", "xs")], outRen := [("ans", "answers")],
       mapOver := ["xs"] } ] }]
/-- a failing function node next to a nested graph that pauses -/
def progSibling : Program := elabProgram [
  { name := "inner", nodes := [
     { name := "ask", kind := .interrupt, params := [("x", .none)], dataOuts := ["ans"], body := .handler .none }] },
  { name := "outer", nodes := [
     { name := "f", kind := .fn, params := [("x", .none)], dataOuts := ["y"], body := .fail "boom" },
     { name := "sub", kind := .graph, inner := 0 } ] }]
/-- a gate `x` next to a node literally named `x!route` -/
def progCollide : Program := elabProgram [{ name := "g", nodes := [
   { name := "x", kind := .route, params := [("v", .none)], targets := [.end_], body := .table [] .end_ },
   { name := "x!route", kind := .fn, params := [("v", .none)], dataOuts := ["w"], body := .tag "c" }] }]

/-- compact rendering of an event list: kind, span, parent -/
def render (evs : List Ev) : List (String × String × String) :=
  evs.map fun e => (e.kind ++ (if e.info = "" then "" else ":" ++ e.info), "/".intercalate e.span,
    (e.parent.map ("/".intercalate ·)).getD "-")

end C12Ex

end HG
