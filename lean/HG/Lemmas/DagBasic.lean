import HG.Model.Run
/-! # HG.Lemmas.DagBasic — association lists, `wrapOutputs`, `applyOutputs`, value resolution

Generic facts used by the C01 proof (acyclic gate-free graphs). -/
namespace HG.C01

/-! ## association lists -/
section AL
variable {α : Type}

theorem has_eq_false_iff (m : AL α) (k : Name) : AL.has m k = false ↔ AL.get? m k = .none := by
  unfold AL.has; cases AL.get? m k <;> simp

theorem has_eq_true_iff (m : AL α) (k : Name) : AL.has m k = true ↔ ∃ v, AL.get? m k = some v := by
  unfold AL.has; cases AL.get? m k <;> simp

theorem has_cons (a : Name) (w : α) (t : AL α) (k : Name) :
    AL.has ((a, w) :: t) k = (decide (k = a) || AL.has t k) := by
  unfold AL.has; by_cases h : k = a <;> simp [AL.get?, h]

/-- keys are pairwise distinct (what `put` / `merge` maintain) -/
def NodupKeys (m : AL α) : Prop := (AL.keys m).Nodup

theorem nodupKeys_nil : NodupKeys ([] : AL α) := by simp [NodupKeys, AL.keys]

theorem keys_put_of_not_has (m : AL α) (k : Name) (v : α) (h : AL.has m k = false) :
    AL.keys (AL.put m k v) = AL.keys m ++ [k] := by
  induction m with
  | nil => simp [AL.put, AL.keys]
  | cons hd t ih =>
    obtain ⟨a, w⟩ := hd
    rw [has_cons] at h
    simp only [Bool.or_eq_false_iff, decide_eq_false_iff_not] at h
    have ih' := ih h.2
    simp only [AL.keys] at ih'
    simp [AL.put, h.1, AL.keys, ih']

theorem nodupKeys_put (m : AL α) (k : Name) (v : α) (h : NodupKeys m) : NodupKeys (AL.put m k v) := by
  unfold NodupKeys at *
  cases hk : AL.has m k with
  | true => rw [AL.keys_put_of_has m k v hk]; exact h
  | false =>
    rw [keys_put_of_not_has m k v hk]
    have hnm : k ∉ AL.keys m := by
      intro hm; rw [AL.mem_keys_iff_has] at hm; rw [hk] at hm; cases hm
    rw [List.nodup_append]
    refine ⟨h, by simp, ?_⟩
    intro a ha b hb e
    simp only [List.mem_singleton] at hb
    subst hb; subst e; exact hnm ha

theorem nodupKeys_foldl_put (l : AL α) : ∀ m : AL α, NodupKeys m →
    NodupKeys (l.foldl (fun acc kv => AL.put acc kv.1 kv.2) m) := by
  induction l with
  | nil => intro m h; exact h
  | cons x l ih => intro m h; exact ih _ (nodupKeys_put m x.1 x.2 h)

theorem nodupKeys_merge (a b : AL α) (h : NodupKeys a) : NodupKeys (AL.merge a b) :=
  nodupKeys_foldl_put b a h

theorem has_foldl_put (l : AL α) (k : Name) : ∀ m : AL α,
    AL.has (l.foldl (fun acc kv => AL.put acc kv.1 kv.2) m) k = (AL.has m k || AL.has l k) := by
  induction l with
  | nil => intro m; simp [AL.has]
  | cons x l ih =>
    intro m
    obtain ⟨a, w⟩ := x
    rw [List.foldl_cons, ih, AL.has_put, has_cons]
    cases AL.has m k <;> cases AL.has l k <;> simp

theorem has_merge (a b : AL α) (k : Name) : AL.has (AL.merge a b) k = (AL.has a k || AL.has b k) :=
  has_foldl_put b k a

/-- `{**a, **b}` with distinct keys in `b`: `b` wins, else `a` -/
theorem get?_merge (b : AL α) (hb : NodupKeys b) (k : Name) : ∀ a : AL α,
    AL.get? (AL.merge a b) k = (AL.get? b k).or (AL.get? a k) := by
  unfold AL.merge
  induction b with
  | nil => intro a; simp
  | cons x t ih =>
    intro a
    obtain ⟨x, v⟩ := x
    have hx : x ∉ AL.keys t := by
      intro hm; simp only [NodupKeys, AL.keys, List.map_cons, List.nodup_cons] at hb; exact hb.1 hm
    have ht : NodupKeys t := by
      simp only [NodupKeys, AL.keys, List.map_cons, List.nodup_cons] at hb; exact hb.2
    rw [List.foldl_cons, ih ht, AL.get?_put]
    by_cases e : k = x
    · subst e
      have : AL.get? t k = .none := by
        rw [← has_eq_false_iff]
        cases h : AL.has t k with
        | false => rfl
        | true => exact absurd ((AL.mem_keys_iff_has t k).mpr h) hx
      simp [this, AL.get?]
    · simp [e, AL.get?]

theorem has_map_const (l : List Name) (c : α) (k : Name) :
    AL.has (l.map fun e => (e, c)) k = true ↔ k ∈ l := by
  rw [← AL.mem_keys_iff_has]; simp [AL.keys]

theorem keys_map_const (l : List Name) (c : α) : AL.keys (l.map fun e => (e, c)) = l := by
  induction l with
  | nil => rfl
  | cons a t ih => simp only [AL.keys, List.map_cons] at *; rw [ih]

/-- a key of a list of pairs built by `map (q, f q)` reads back `f` -/
theorem get?_map_self (ps : List Name) (f : Name → α) (p : Name) (hp : p ∈ ps) :
    AL.get? (ps.map fun q => (q, f q)) p = some (f p) := by
  induction ps with
  | nil => cases hp
  | cons a t ih =>
    simp only [List.map_cons, AL.get?]
    by_cases e : p = a
    · subst e; simp
    · simp only [e, if_false]
      exact ih (by rcases List.mem_cons.mp hp with h | h; exact absurd h e; exact h)
end AL

/-! ## `wrapOutputs` -/

theorem has_zip_put (outs : List Name) (items : List Val) (hl : items.length = outs.length) (k : Name) :
    AL.has ((outs.zip items).foldl (fun acc kv => AL.put acc kv.1 kv.2) ([] : AL Val)) k = true ↔ k ∈ outs := by
  rw [has_foldl_put]
  have : AL.keys (outs.zip items) = outs := by
    unfold AL.keys; exact List.map_fst_zip (by omega)
  simp only [AL.has, AL.get?_nil, Option.isSome_none, Bool.false_or]
  show AL.has (outs.zip items) k = true ↔ _
  rw [← AL.mem_keys_iff_has, this]

/-- the names written by a node are exactly its declared outputs -/
theorem wrapOutputs_has {nd : NodeD} {v : Val} {outs : AL Val} (h : wrapOutputs nd v = some outs) (k : Name) :
    AL.has outs k = true ↔ k ∈ nd.outputs := by
  unfold wrapOutputs at h
  simp only [NodeD.outputs, List.mem_append]
  split at h
  · rename_i hd
    injection h with h; subst h
    rw [has_map_const, hd]; simp
  · rename_i o hd
    injection h with h; subst h
    rw [has_merge, hd, has_cons, Bool.or_eq_true, has_map_const]
    simp [AL.has]
  · rename_i douts _ _
    split at h
    · cases h
    · rename_i items _
      split at h
      · cases h
      · rename_i hlen
        injection h with h; subst h
        have hl : items.length = nd.dataOuts.length := by simpa using hlen
        rw [has_merge, Bool.or_eq_true, has_map_const, has_zip_put _ _ hl]

theorem wrapOutputs_nodupKeys {nd : NodeD} {v : Val} {outs : AL Val} (hn : nd.emits.Nodup)
    (h : wrapOutputs nd v = some outs) : NodupKeys outs := by
  unfold wrapOutputs at h
  split at h
  · injection h with h; subst h
    unfold NodupKeys; rw [keys_map_const]; exact hn
  · injection h with h; subst h
    exact nodupKeys_merge _ _ (by simp [NodupKeys, AL.keys])
  · split at h
    · cases h
    · split at h
      · cases h
      · injection h with h; subst h
        exact nodupKeys_merge _ _ (nodupKeys_foldl_put _ _ nodupKeys_nil)

/-- every emit output carries the sentinel -/
theorem wrapOutputs_emit {nd : NodeD} {v : Val} {outs : AL Val} (hn : nd.emits.Nodup)
    (h : wrapOutputs nd v = some outs) {e : Name} (he : e ∈ nd.emits) :
    AL.get? outs e = some Val.sentinel := by
  have hk : NodupKeys (nd.emits.map fun e => (e, Val.sentinel)) := by
    unfold NodupKeys; rw [keys_map_const]; exact hn
  have hg : AL.get? (nd.emits.map fun e => (e, Val.sentinel)) e = some Val.sentinel :=
    get?_map_self nd.emits (fun _ => Val.sentinel) e he
  unfold wrapOutputs at h
  split at h
  · injection h with h; subst h; exact hg
  · injection h with h; subst h
    rw [get?_merge _ hk, hg]; rfl
  · split at h
    · cases h
    · split at h
      · cases h
      · injection h with h; subst h
        rw [get?_merge _ hk, hg]; rfl

/-- a single data output holds the returned value -/
theorem wrapOutputs_single {nd : NodeD} {v : Val} {outs : AL Val} {o : Name} (hn : nd.emits.Nodup)
    (hd : nd.dataOuts = [o]) (ho : o ∉ nd.emits) (h : wrapOutputs nd v = some outs) :
    AL.get? outs o = some v := by
  have hk : NodupKeys (nd.emits.map fun e => (e, Val.sentinel)) := by
    unfold NodupKeys; rw [keys_map_const]; exact hn
  have hg : AL.get? (nd.emits.map fun e => (e, Val.sentinel)) o = .none := by
    rw [← has_eq_false_iff]
    cases hh : AL.has (nd.emits.map fun e => (e, Val.sentinel)) o with
    | false => rfl
    | true => exact absurd ((has_map_const _ _ _).mp hh) ho
  unfold wrapOutputs at h
  rw [hd] at h
  simp only at h
  injection h with h; subst h
  rw [get?_merge _ hk, hg]; simp [AL.get?]

/-! ## state updates -/

theorem updateValue_values (s : GState) (n k : Name) (v : Val) :
    AL.get? (s.updateValue n v).values k = if k = n then some v else AL.get? s.values k := by
  unfold GState.updateValue; exact AL.get?_put _ _ _ _

theorem updateValue_ver_other (s : GState) (n k : Name) (v : Val) (h : k ≠ n) :
    (s.updateValue n v).ver k = s.ver k := by
  unfold GState.updateValue GState.ver
  by_cases hb : s.bumps n v = true
  · simp [hb, AL.get?_put_other _ _ _ _ h]
  · simp [hb]

theorem applyOutputs_nil (s : GState) : s.applyOutputs [] = s := rfl
theorem applyOutputs_cons (s : GState) (a : Name) (v : Val) (t : AL Val) :
    s.applyOutputs ((a, v) :: t) = (s.updateValue a v).applyOutputs t := rfl

theorem applyOutputs_execs (outs : AL Val) : ∀ s : GState, (s.applyOutputs outs).execs = s.execs := by
  induction outs with
  | nil => intro s; rfl
  | cons x t ih => intro s; obtain ⟨a, v⟩ := x; rw [applyOutputs_cons, ih]; rfl

theorem applyOutputs_decisions (outs : AL Val) : ∀ s : GState, (s.applyOutputs outs).decisions = s.decisions := by
  induction outs with
  | nil => intro s; rfl
  | cons x t ih => intro s; obtain ⟨a, v⟩ := x; rw [applyOutputs_cons, ih]; rfl

theorem applyOutputs_values_merge (outs : AL Val) : ∀ s : GState,
    (s.applyOutputs outs).values = AL.merge s.values outs := by
  induction outs with
  | nil => intro s; rfl
  | cons x t ih => intro s; obtain ⟨a, v⟩ := x; rw [applyOutputs_cons, ih]; rfl

theorem applyOutputs_values (outs : AL Val) (hk : NodupKeys outs) (s : GState) (k : Name) :
    AL.get? (s.applyOutputs outs).values k = (AL.get? outs k).or (AL.get? s.values k) := by
  rw [applyOutputs_values_merge, get?_merge _ hk]

theorem applyOutputs_has (outs : AL Val) (s : GState) (k : Name) :
    AL.has (s.applyOutputs outs).values k = (AL.has s.values k || AL.has outs k) := by
  rw [applyOutputs_values_merge, has_merge]

theorem applyOutputs_values_other (outs : AL Val) (k : Name) (h : AL.has outs k = false) : ∀ s : GState,
    AL.get? (s.applyOutputs outs).values k = AL.get? s.values k := by
  induction outs with
  | nil => intro s; rfl
  | cons x t ih =>
    intro s
    obtain ⟨a, v⟩ := x
    rw [has_cons] at h
    simp only [Bool.or_eq_false_iff, decide_eq_false_iff_not] at h
    rw [applyOutputs_cons, ih h.2, updateValue_values]; simp [h.1]

theorem applyOutputs_ver_other (outs : AL Val) (k : Name) (h : AL.has outs k = false) : ∀ s : GState,
    (s.applyOutputs outs).ver k = s.ver k := by
  induction outs with
  | nil => intro s; rfl
  | cons x t ih =>
    intro s
    obtain ⟨a, v⟩ := x
    rw [has_cons] at h
    simp only [Bool.or_eq_false_iff, decide_eq_false_iff_not] at h
    rw [applyOutputs_cons, ih h.2, updateValue_ver_other _ _ _ _ h.1]

/-- `initialize_state` makes exactly the supplied names available -/
theorem initState_has (values : AL Val) (k : Name) :
    AL.has (initState values).values k = AL.has values k := by
  unfold initState; rw [applyOutputs_has]; simp [AL.has]

theorem initState_execs (values : AL Val) : (initState values).execs = [] := by
  unfold initState; rw [applyOutputs_execs]

/-! ## value resolution -/

theorem resolveInput_eq_or (g : GraphD) (s : GState) (nd : NodeD) (p : Name) :
    resolveInput g s nd p =
      (AL.get? s.values p).or ((AL.get? g.spec.bound p).or
        ((AL.get? nd.innerBound p).or (AL.get? nd.sigDefaults p))) := by
  unfold resolveInput valueSource
  cases AL.get? s.values p <;> cases AL.get? g.spec.bound p <;>
    cases AL.get? nd.innerBound p <;> cases AL.get? nd.sigDefaults p <;> rfl

/-- the consistency the elaborator guarantees for leaf nodes: `has_default_for` = has a signature default -/
def WellDefaulted (g : GraphD) : Prop := ∀ nd ∈ g.nodes, nd.hasDefault = AL.keys nd.sigDefaults

instance (g : GraphD) : Decidable (WellDefaulted g) := by unfold WellDefaulted; exact inferInstance

theorem resolveInput_of_hasInput {g : GraphD} {s : GState} {nd : NodeD} {p : Name}
    (hwd : nd.hasDefault = AL.keys nd.sigDefaults) (h : hasInput g s nd p = true) :
    (resolveInput g s nd p).isSome = true := by
  rw [resolveInput_eq_or]
  unfold hasInput at h
  simp only [Bool.or_eq_true] at h
  rcases h with (h | h) | h
  · obtain ⟨v, hv⟩ := (has_eq_true_iff _ _).mp h; simp [hv]
  · obtain ⟨v, hv⟩ := (has_eq_true_iff _ _).mp h
    cases AL.get? s.values p <;> simp [hv]
  · rw [hwd] at h
    have hm : p ∈ AL.keys nd.sigDefaults := by simpa using h
    obtain ⟨v, hv⟩ := (has_eq_true_iff _ _).mp ((AL.mem_keys_iff_has _ _).mp hm)
    cases AL.get? s.values p <;> cases AL.get? g.spec.bound p <;> cases AL.get? nd.innerBound p <;> simp [hv]

theorem collectInputs_of_all {g : GraphD} {s : GState} {nd : NodeD}
    (hwd : nd.hasDefault = AL.keys nd.sigDefaults) :
    ∀ ps : List Name, ps.all (hasInput g s nd) = true → (collectInputs g s nd ps).isSome = true := by
  intro ps
  induction ps with
  | nil => intro _; rfl
  | cons p ps ih =>
    intro h
    simp only [List.all_cons, Bool.and_eq_true] at h
    have h1 := resolveInput_of_hasInput hwd h.1
    have h2 := ih h.2
    unfold collectInputs
    cases hr : resolveInput g s nd p with
    | none => simp [hr] at h1
    | some v =>
      cases hc : collectInputs g s nd ps with
      | none => simp [hc] at h2
      | some a => simp

/-- `collectInputs` only looks at the values of the listed names -/
theorem collectInputs_congr (g : GraphD) (s s' : GState) (nd : NodeD) :
    ∀ ps : List Name, (∀ p ∈ ps, AL.get? s'.values p = AL.get? s.values p) →
      collectInputs g s' nd ps = collectInputs g s nd ps := by
  intro ps
  induction ps with
  | nil => intro _; rfl
  | cons p ps ih =>
    intro h
    unfold collectInputs
    have hp : resolveInput g s' nd p = resolveInput g s nd p := by
      unfold resolveInput valueSource; rw [h p (List.mem_cons_self ..)]
    rw [hp, ih (fun q hq => h q (List.mem_cons_of_mem _ hq))]

end HG.C01
