import HG.Lemmas.DagBasic
/-! # HG.Lemmas.DagReady — the ready set of a gate-free graph without ordering constraints -/
namespace HG.C01

/-- no routing / if-else node -/
def GateFree (g : GraphD) : Prop := ∀ nd ∈ g.nodes, nd.isGate = false
/-- no `wait_for` ordering constraint -/
def NoWaitFor (g : GraphD) : Prop := ∀ nd ∈ g.nodes, nd.waitFor = []
/-- only plain function nodes -/
def AllFn (g : GraphD) : Prop := ∀ nd ∈ g.nodes, nd.kind = .fn

instance (g : GraphD) : Decidable (GateFree g) := by unfold GateFree; exact inferInstance
instance (g : GraphD) : Decidable (NoWaitFor g) := by unfold NoWaitFor; exact inferInstance
instance (g : GraphD) : Decidable (AllFn g) := by unfold AllFn; exact inferInstance

theorem isGate_of_fn {nd : NodeD} (h : nd.kind = .fn) : nd.isGate = false := by
  unfold NodeD.isGate; rw [h]; rfl

theorem AllFn.gateFree {g : GraphD} (h : AllFn g) : GateFree g := fun nd hn => isGate_of_fn (h nd hn)

/-- the scheduling predicate that is left when there are no gates and no `wait_for` -/
def readyPred (g : GraphD) (s : GState) (nd : NodeD) : Bool :=
  nd.inputs.all (hasInput g s nd) && needsExec g s nd

def readyL (g : GraphD) (s : GState) : List NodeD := g.nodes.filter (readyPred g s)

theorem clearStale_foldl_id (g : GraphD) : ∀ (l : List NodeD) (s : GState), (∀ nd ∈ l, nd.isGate = false) →
    l.foldl (fun st nd =>
      if nd.isGate then
        match AL.get? st.decisions nd.name with
        | .none => st
        | some .end_ => st
        | some _ => if needsExec g st nd then { st with decisions := AL.del st.decisions nd.name } else st
      else st) s = s := by
  intro l
  induction l with
  | nil => intro s _; rfl
  | cons a t ih =>
    intro s h
    rw [List.foldl_cons]
    have ha : a.isGate = false := h a (List.mem_cons_self ..)
    simp only [ha, Bool.false_eq_true, if_false]
    exact ih s (fun nd hn => h nd (List.mem_cons_of_mem _ hn))

theorem clearStale_gatefree {g : GraphD} (hg : GateFree g) (s : GState) : clearStale g s = s := by
  unfold clearStale; exact clearStale_foldl_id g g.nodes s hg

theorem controlledBy_gatefree {g : GraphD} (hg : GateFree g) (n : Name) : controlledBy g.nodes n = [] := by
  unfold controlledBy
  apply List.filter_eq_nil_iff.mpr
  intro c hc
  simp [hg c hc]

theorem activated_gatefree {g : GraphD} (hg : GateFree g) (s : GState) (n : Name) : activated g s n = true := by
  unfold activated; simp [controlledBy_gatefree hg]

theorem isGated_gatefree {g : GraphD} (hg : GateFree g) (nd : NodeD) : isGated g nd = false := by
  unfold isGated; simp [controlledBy_gatefree hg]

theorem waitForSatisfied_nil {s : GState} {nd : NodeD} (h : nd.waitFor = []) : waitForSatisfied s nd = true := by
  unfold waitForSatisfied; simp [h]

theorem isReady_gatefree {g : GraphD} (hg : GateFree g) (hw : NoWaitFor g) (s : GState) {nd : NodeD}
    (hn : nd ∈ g.nodes) : isReady g s nd = readyPred g s nd := by
  unfold isReady readyPred
  rw [activated_gatefree hg, waitForSatisfied_nil (hw nd hn)]; simp

theorem filter_congr_mem {α} (l : List α) (p q : α → Bool) (h : ∀ a ∈ l, p a = q a) : l.filter p = l.filter q := by
  induction l with
  | nil => rfl
  | cons a t ih =>
    simp only [List.filter_cons]
    rw [h a (List.mem_cons_self ..), ih (fun b hb => h b (List.mem_cons_of_mem _ hb))]

theorem filter_true_mem {α} (l : List α) (p : α → Bool) (h : ∀ a ∈ l, p a = true) : l.filter p = l := by
  apply List.filter_eq_self.mpr; exact h

/-- bridge lemma: without gates and `wait_for` the ready set is a plain filter and the state is untouched -/
theorem ready_eq_readyL {g : GraphD} (hg : GateFree g) (hw : NoWaitFor g) (s : GState) :
    ready g .none s = (readyL g s, s) := by
  unfold ready
  simp only [clearStale_gatefree hg]
  have h0 : g.nodes.filter (isReady g s) = readyL g s :=
    filter_congr_mem _ _ _ (fun nd hn => isReady_gatefree hg hw s hn)
  rw [h0]
  have hsub : ∀ nd ∈ readyL g s, nd ∈ g.nodes := fun nd h => (List.mem_filter.mp h).1
  have hb : blockedTargets (readyL g s) = [] := by
    unfold blockedTargets
    have : (readyL g s).filter (·.isGate) = [] := by
      apply List.filter_eq_nil_iff.mpr
      intro c hc; simp [hg c (hsub c hc)]
    rw [this]; rfl
  rw [hb]
  have h1 : (readyL g s).filter (fun nd => !([] : List Name).contains nd.name) = readyL g s :=
    filter_true_mem _ _ (fun _ _ => by simp)
  rw [h1]
  have h2 : deferWaitFor (readyL g s) = readyL g s := by
    unfold deferWaitFor
    exact filter_true_mem _ _ (fun nd hn => by simp [hw nd (hsub nd hn)])
  rw [h2]

theorem mem_readyL {g : GraphD} {s : GState} {n : NodeD} :
    n ∈ readyL g s ↔ n ∈ g.nodes ∧ readyPred g s n = true := by
  unfold readyL; exact List.mem_filter

theorem readyPred_iff {g : GraphD} {s : GState} {n : NodeD} :
    readyPred g s n = true ↔ (∀ p ∈ n.inputs, hasInput g s n p = true) ∧ needsExec g s n = true := by
  unfold readyPred; simp [List.all_eq_true]

theorem readyL_sublist (g : GraphD) (s : GState) : (readyL g s).Sublist g.nodes := by
  unfold readyL; exact List.filter_sublist

end HG.C01
