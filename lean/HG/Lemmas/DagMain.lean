import HG.Lemmas.DagOutputs
/-! # HG.Lemmas.DagMain — the C01 core statement from which the property theorems are read off -/
namespace HG.C01
variable {sem : Sem} {g : GraphD} {values : AL Val} {level : Name → Nat}

/-- run from the initial state: `done` after at most `height + 1` steps, quiescent, invariant beyond the
last level reached, every satisfiable node below that level, one logged call per node that ran -/
theorem dag_core (nested : Nested) (hW : WF g values level) (hs : SemTotal sem g) (gi : Nat) (span : Span)
    (height : Nat) (hh : ∀ n ∈ g.nodes, level n.name ≤ height) (maxIter : Nat) (hfuel : height + 1 ≤ maxIter)
    (log₀ : List Log) :
    ∃ k' s' l', runLoop (syncStep nested sem gi g span) g .none maxIter maxIter 0 (initState values) log₀ =
          .done s' (log₀ ++ l') k' ∧
        k' ≤ height + 1 ∧ readyL g s' = [] ∧ Inv sem g values level k' s' ∧
        (∀ n ∈ g.nodes, Satisfiable g values n → level n.name < k') ∧
        LogInv gi g values level k' s' l' := by
  obtain ⟨k', s', l', hrun, hI, hL, hq, hk⟩ :=
    run_reaches nested hW hs gi span (height + 1) (fun n hn => by have := hh n hn; omega) maxIter log₀
      maxIter 0 (initState values) [] (inv_init hW) (logInv_init gi) (by omega) (by omega)
  rw [List.append_nil] at hrun
  exact ⟨k', s', l', hrun, hk, hq, hI, fun n hn hsat => sat_below_of_quiescent hW hI hq hn hsat, hL⟩

/-- `filter_outputs` only fails for `on_missing = "error"` -/
theorem filterOutputs_ok (g : GraphD) (s : GState) (sel : Select) (om : OnMissing) (h : om ≠ .error) :
    ∃ vals w, filterOutputs g s sel om = .ok (vals, w) := by
  unfold filterOutputs
  split
  · exact ⟨_, _, rfl⟩
  · simp only
    split
    · exact ⟨_, _, rfl⟩
    · cases om with
      | ignore => exact ⟨_, _, rfl⟩
      | warn => exact ⟨_, _, rfl⟩
      | error => exact absurd rfl h

theorem callsOf_runEnd (span : Span) (parent : Option Span) (g : GraphD) (st : String) :
    callsOf ([runEndEv span parent g st] ++ (if parent.isNone then [Log.shutdown] else [])) = [] := by
  cases parent <;> rfl

end HG.C01
