import HG.Lemmas.Loop
/-! # HG.Lemmas.LoopL1 — loop family L1, body length 1, on the full model

`b1(x) -> x`, `gate(x) -> b1 | END` (if/else gate). Closed-form states for the phases of an
iteration, one `simp` per transition, induction on the remaining iterations. -/
set_option linter.unusedSimpArgs false
namespace HG.L1

def mkNode (name : Name) (kind : Kind) (inputs dataOuts : List Name) (targets : List Target)
    (dopen : Bool) (emits waitFor : List Name) : NodeD :=
  { name := name, kind := kind, inputs := inputs, origIn := [], dataOuts := dataOuts, origOut := []
    emits := emits, waitFor := waitFor, hasDefault := [], sigDefaults := [], innerBound := []
    body := .tag "?", targets := targets, multiTarget := false, fallback := .none
    defaultOpen := dopen, cache := false, inner := 0, mapOver := [], mapMode := .zip, errMode := .raise }

def b1 : NodeD := mkNode "b1" .fn ["x"] ["x"] [] true [] []
def gate (dopen : Bool) : NodeD := mkNode "gate" .ifelse ["x"] [] [.node "b1", .end_] dopen [] []

/-- the graph; `edges`, `spec` (with no bound values) and the rest are irrelevant to the scheduler -/
def L1 (dopen : Bool) (es : List Edge) (sp : InputSpec) : GraphD :=
  { name := "L1", nodes := [b1, gate dopen], bound := [], selected := .none, entrypoints := .none
    edges := es, spec := { sp with bound := [] } }

variable (F : Val → Val) (c : Val → Bool) (x0 : Val)

/-- the loop variable after `i` iterations -/
def xs : Nat → Val
  | 0 => x0
  | i + 1 => F (xs i)

/-- `xs` is the `i`-fold iterate `F^[i] x0` (core's `Nat.repeat`) -/
theorem xs_eq_repeat (i : Nat) : xs F x0 i = Nat.repeat F i x0 := by
  induction i with
  | zero => rfl
  | succ i ih => rw [xs, ih]; rfl

def ex (v : Nat) : Exec := { inputVersions := [("x", v)], waitForVersions := [] }

/-- before the gate's run number `i+1` (`i` iterations completed) -/
def G (i : Nat) : GState :=
  match i with
  | 0 => { values := [("x", x0)], versions := [("x", 1)], execs := [], decisions := [] }
  | j + 1 => { values := [("x", xs F x0 (j + 1))], versions := [("x", j + 2)]
               execs := [("gate", ex (j + 1)), ("b1", ex (j + 1))], decisions := [("gate", .one "b1")] }

/-- the same after `get_ready_nodes` cleared the stale decision -/
def Gc (i : Nat) : GState := { G F x0 i with decisions := [] }

/-- after the gate chose `d` on `x_i` -/
def A (d : Dec) (i : Nat) : GState :=
  match i with
  | 0 => { values := [("x", x0)], versions := [("x", 1)], execs := [("gate", ex 1)], decisions := [("gate", d)] }
  | j + 1 => { values := [("x", xs F x0 (j + 1))], versions := [("x", j + 2)]
               execs := [("gate", ex (j + 2)), ("b1", ex (j + 1))], decisions := [("gate", d)] }

/-- after the gate said "continue" -/
abbrev B (i : Nat) : GState := A F x0 (.one "b1") i
/-- after the gate said END -/
abbrev E (i : Nat) : GState := A F x0 .end_ i

theorem init_eq : initState [("x", x0)] = G F x0 0 := by
  simp [initState, GState.applyOutputs, GState.updateValue, GState.bumps, GState.ver, AL.put, AL.get?, G]

section ready
variable (dopen : Bool) (es : List Edge) (sp : InputSpec)

theorem ready_G (i : Nat) : ready (L1 dopen es sp) .none (G F x0 i) = ([gate dopen], Gc F x0 i) := by
  cases i <;> cases dopen <;>
  simp [ready, clearStale, L1, b1, gate, mkNode, G, Gc, ex, NodeD.isGate, NodeD.targetNames, NodeD.outputs,
    isReady, activated, controlledBy, findNode, needsExec, isStale, isGated, selfProduces, hasInput,
    waitForSatisfied, blockedTargets, deferWaitFor, AL.has, AL.get?, AL.del, GState.ver, decisionNames]

theorem ready_B (i : Nat) : ready (L1 dopen es sp) .none (B F x0 i) = ([b1], B F x0 i) := by
  cases i <;> cases dopen <;>
  simp [ready, clearStale, L1, b1, gate, mkNode, A, ex, NodeD.isGate, NodeD.targetNames, NodeD.outputs,
    isReady, activated, controlledBy, findNode, needsExec, isStale, isGated, selfProduces, hasInput,
    waitForSatisfied, blockedTargets, deferWaitFor, AL.has, AL.get?, AL.del, GState.ver, decisionNames]

theorem ready_E (i : Nat) : ready (L1 dopen es sp) .none (E F x0 i) = ([], E F x0 i) := by
  cases i <;> cases dopen <;>
  simp [ready, clearStale, L1, b1, gate, mkNode, A, ex, NodeD.isGate, NodeD.targetNames, NodeD.outputs,
    isReady, activated, controlledBy, findNode, needsExec, isStale, isGated, selfProduces, hasInput,
    waitForSatisfied, blockedTargets, deferWaitFor, AL.has, AL.get?, AL.del, GState.ver, decisionNames]
end ready

/-- what is assumed about the node functions -/
structure SemL1 (sem : Sem) (dopen : Bool) : Prop where
  hb : ∀ v, sem b1 [("x", v)] = .val (F v)
  hg : ∀ v, sem (gate dopen) [("x", v)] = .val (.bool (c v))

def gLog (gi : Nat) (span : Span) (k : Nat) (dopen : Bool) (v : Val) (d : Dec) : List Log :=
  [.ev { kind := "NodeStart", span := nodeSpanOf span k (gate dopen), parent := some span, name := "gate" },
   .call (fnId gi (gate dopen)) [("x", v)],
   .ev { kind := "RouteDecision", span := span ++ ["gate" ++ "!route#" ++ toString k], parent := some span,
         name := "gate", info := decToString d },
   .ev { kind := "NodeEnd", span := nodeSpanOf span k (gate dopen), parent := some span, name := "gate" }]

def bLog (gi : Nat) (span : Span) (k : Nat) (v : Val) : List Log :=
  [.ev { kind := "NodeStart", span := nodeSpanOf span k b1, parent := some span, name := "b1" },
   .call (fnId gi b1) [("x", v)],
   .ev { kind := "NodeEnd", span := nodeSpanOf span k b1, parent := some span, name := "b1" }]

section step
variable (nested : Nested) (sem : Sem) (gi : Nat) (span : Span) (dopen : Bool) (es : List Edge) (sp : InputSpec)
variable (hs : SemL1 F c sem dopen)
include hs

theorem step_G (k i : Nat) :
    stepSync nested sem gi (L1 dopen es sp) span k (Gc F x0 i) [gate dopen] (Gc F x0 i) [] =
      .ok (if c (xs F x0 i) then B F x0 i else E F x0 i)
        (gLog gi span k dopen (xs F x0 i) (if c (xs F x0 i) then .one "b1" else .end_)) := by
  have hg := hs.hg
  simp only [gate, mkNode] at hg
  cases i with
  | zero =>
    cases h : c (xs F x0 0) <;> simp only [xs] at h <;>
    simp [stepSync, collectInputs, resolveInput, valueSource, execNode, execIfElse, toParams, gate, mkNode,
      L1, Gc, G, A, ex, recordExec, GState.applyOutputs, routeEvent, NodeD.isGate, gLog, AL.get?, AL.put,
      GState.ver, Target.toDec, hg, h, xs, nodeSpanOf]
  | succ j =>
    cases h : c (xs F x0 (j + 1)) <;> simp only [xs] at h <;>
    simp [stepSync, collectInputs, resolveInput, valueSource, execNode, execIfElse, toParams, gate, mkNode,
      L1, Gc, G, A, ex, recordExec, GState.applyOutputs, routeEvent, NodeD.isGate, gLog, AL.get?, AL.put,
      GState.ver, Target.toDec, hg, h, xs, nodeSpanOf]

theorem step_B (k i : Nat) (hprog : Val.changed (xs F x0 i) (xs F x0 (i + 1)) = true) :
    stepSync nested sem gi (L1 dopen es sp) span k (B F x0 i) [b1] (B F x0 i) [] =
      .ok (G F x0 (i + 1)) (bLog gi span k (xs F x0 i)) := by
  have hb := hs.hb
  simp only [b1, mkNode] at hb
  have h' : Val.changed (xs F x0 i) (F (xs F x0 i)) = true := by simpa [xs] using hprog
  cases i <;>
  simp_all [stepSync, collectInputs, resolveInput, valueSource, execNode, execFn, toParams, b1, mkNode,
      L1, G, A, ex, recordExec, GState.applyOutputs, GState.updateValue, GState.bumps, routeEvent,
      NodeD.isGate, bLog, AL.get?, AL.put, AL.merge, wrapOutputs,
      GState.ver, xs, nodeSpanOf]

/-- the superstep function of the sync runner -/
abbrev stepFn : Nat → GState → List NodeD → StepOut :=
  fun k s rs => stepSync nested sem gi (L1 dopen es sp) span k s rs s []

theorem loop_G_succ (mi f k i : Nat) (log : List Log) :
    runLoop (stepFn nested sem gi span dopen es sp) (L1 dopen es sp) .none mi (f + 1) k (G F x0 i) log =
      runLoop (stepFn nested sem gi span dopen es sp) (L1 dopen es sp) .none mi f (k + 1)
        (if c (xs F x0 i) then B F x0 i else E F x0 i)
        (log ++ gLog gi span k dopen (xs F x0 i) (if c (xs F x0 i) then .one "b1" else .end_)) := by
  rw [runLoop_succ_cons _ _ _ _ _ _ _ _ (by rw [ready_G]; simp)]
  simp only [ready_G, stepFn, step_G F c x0 nested sem gi span dopen es sp hs]

theorem loop_B_succ (mi f k i : Nat) (log : List Log) (hprog : Val.changed (xs F x0 i) (xs F x0 (i + 1)) = true) :
    runLoop (stepFn nested sem gi span dopen es sp) (L1 dopen es sp) .none mi (f + 1) k (B F x0 i) log =
      runLoop (stepFn nested sem gi span dopen es sp) (L1 dopen es sp) .none mi f (k + 1)
        (G F x0 (i + 1)) (log ++ bLog gi span k (xs F x0 i)) := by
  rw [runLoop_succ_cons _ _ _ _ _ _ _ _ (by rw [ready_B]; simp)]
  simp only [ready_B, stepFn, step_B F c x0 nested sem gi span dopen es sp hs k i hprog]

omit hs in
theorem loop_E (mi f k i : Nat) (log : List Log) :
    runLoop (stepFn nested sem gi span dopen es sp) (L1 dopen es sp) .none mi f k (E F x0 i) log =
      .done (E F x0 i) log k := by
  cases f with
  | zero => rw [runLoop_zero, ready_E]; simp
  | succ f => rw [runLoop_succ_nil _ _ _ _ _ _ _ _ (by rw [ready_E])]; rw [ready_E]

omit hs in
theorem loop_G_zero (mi k i : Nat) (log : List Log) :
    runLoop (stepFn nested sem gi span dopen es sp) (L1 dopen es sp) .none mi 0 k (G F x0 i) log =
      .fail (.infiniteLoop mi) (Gc F x0 i) log k := by
  rw [runLoop_zero, ready_G]; simp

omit hs in
theorem loop_B_zero (mi k i : Nat) (log : List Log) :
    runLoop (stepFn nested sem gi span dopen es sp) (L1 dopen es sp) .none mi 0 k (B F x0 i) log =
      .fail (.infiniteLoop mi) (B F x0 i) log k := by
  rw [runLoop_zero, ready_B]; simp
end step

theorem calls_gLog (gi : Nat) (span : Span) (dopen : Bool) (k : Nat) (v : Val) (d : Dec) :
    callsOf (fnId gi b1) (gLog gi span k dopen v d) = 0 ∧
    callsOf (fnId gi (gate dopen)) (gLog gi span k dopen v d) = 1 := by
  simp [callsOf, gLog, Log.isCallOf, fnId, b1, gate, mkNode]

theorem calls_bLog (gi : Nat) (span : Span) (dopen : Bool) (k : Nat) (v : Val) :
    callsOf (fnId gi b1) (bLog gi span k v) = 1 ∧
    callsOf (fnId gi (gate dopen)) (bLog gi span k v) = 0 := by
  simp [callsOf, bLog, Log.isCallOf, fnId, b1, gate, mkNode]

section main
variable (nested : Nested) (sem : Sem) (gi : Nat) (span : Span) (dopen : Bool) (es : List Edge) (sp : InputSpec)
variable (hs : SemL1 F c sem dopen)
include hs

/-- from `G i` with `d = n - i` iterations to go: exactly `2*d+1` supersteps are needed -/
theorem loop_from (mi n : Nat)
    (hc : ∀ j, j < n → c (xs F x0 j) = true) (hn : c (xs F x0 n) = false)
    (hprog : ∀ j, j < n → Val.changed (xs F x0 j) (xs F x0 (j + 1)) = true) :
    ∀ (d i fuel k : Nat) (log : List Log), i + d = n →
      (2 * d + 1 ≤ fuel → ∃ lg,
        runLoop (stepFn nested sem gi span dopen es sp) (L1 dopen es sp) .none mi fuel k (G F x0 i) log =
          .done (E F x0 n) (log ++ lg) (k + (2 * d + 1)) ∧
        callsOf (fnId gi b1) lg = d ∧ callsOf (fnId gi (gate dopen)) lg = d + 1) ∧
      (fuel < 2 * d + 1 → ∃ lg,
        runLoop (stepFn nested sem gi span dopen es sp) (L1 dopen es sp) .none mi fuel k (G F x0 i) log =
          .fail (.infiniteLoop mi)
            (if fuel % 2 = 0 then Gc F x0 (i + fuel / 2) else B F x0 (i + fuel / 2)) (log ++ lg) (k + fuel)) := by
  intro d
  induction d with
  | zero =>
    intro i fuel k log hi
    have : i = n := by omega
    subst this
    refine ⟨fun hf => ?_, fun hf => ?_⟩
    · obtain ⟨f, rfl⟩ : ∃ f, fuel = f + 1 := ⟨fuel - 1, by omega⟩
      rw [loop_G_succ F c x0 nested sem gi span dopen es sp hs, hn]
      simp only [Bool.false_eq_true, if_false, loop_E]
      exact ⟨_, rfl, (calls_gLog gi span dopen k _ _).1, (calls_gLog gi span dopen k _ _).2⟩
    · have : fuel = 0 := by omega
      subst this
      exact ⟨[], by rw [loop_G_zero]; simp⟩
  | succ d ih =>
    intro i fuel k log hi
    have hci := hc i (by omega)
    have hpi := hprog i (by omega)
    cases fuel with
    | zero =>
      refine ⟨fun hf => by omega, fun _ => ⟨[], by rw [loop_G_zero]; simp⟩⟩
    | succ f =>
      rw [loop_G_succ F c x0 nested sem gi span dopen es sp hs, hci]
      simp only [if_true]
      cases f with
      | zero =>
        refine ⟨fun hf => by omega, fun _ => ⟨gLog gi span k dopen (xs F x0 i) (.one "b1"), by rw [loop_B_zero]; simp⟩⟩
      | succ f' =>
        rw [loop_B_succ F c x0 nested sem gi span dopen es sp hs _ _ _ _ _ hpi]
        obtain ⟨ih1, ih2⟩ := ih (i + 1) f' (k + 1 + 1)
          (log ++ gLog gi span k dopen (xs F x0 i) (.one "b1") ++ bLog gi span (k + 1) (xs F x0 i)) (by omega)
        refine ⟨fun hf => ?_, fun hf => ?_⟩
        · obtain ⟨lg, h1, h2, h3⟩ := ih1 (by omega)
          refine ⟨gLog gi span k dopen (xs F x0 i) (.one "b1") ++ bLog gi span (k + 1) (xs F x0 i) ++ lg, ?_, ?_, ?_⟩
          · rw [h1]; simp only [List.append_assoc]; congr 1; omega
          · rw [callsOf_append, callsOf_append, h2, (calls_gLog gi span dopen k _ _).1,
              (calls_bLog gi span dopen (k + 1) _).1]; omega
          · rw [callsOf_append, callsOf_append, h3, (calls_gLog gi span dopen k _ _).2,
              (calls_bLog gi span dopen (k + 1) _).2]; omega
        · obtain ⟨lg, h1⟩ := ih2 (by omega)
          refine ⟨gLog gi span k dopen (xs F x0 i) (.one "b1") ++ bLog gi span (k + 1) (xs F x0 i) ++ lg, ?_⟩
          rw [h1]
          have e1 : (f' + 1 + 1) % 2 = f' % 2 := by omega
          have e2 : i + (f' + 1 + 1) / 2 = i + 1 + f' / 2 := by omega
          simp only [List.append_assoc, e1, e2]
          congr 1; omega
end main

/-! ## a concrete instance (non-vacuity): count up to `m` -/
def Fi : Val → Val
  | .int i => .int (i + 1)
  | v => v
def ci (m : Int) : Val → Bool
  | .int i => decide (i < m)
  | _ => false
def semEx (m : Int) : Sem := fun nd args =>
  match args with
  | [(_, v)] => if nd.name = "b1" then .val (Fi v) else .val (.bool (ci m v))
  | _ => .val .none

theorem semEx_ok (m : Int) (dopen : Bool) : SemL1 Fi (ci m) (semEx m) dopen :=
  ⟨fun v => by simp [semEx, b1, mkNode], fun v => by simp [semEx, gate, mkNode]⟩

end HG.L1
