import HG.Model.Cache
/-! # HG.Lemmas.Cache — specification vocabulary and helper lemmas for C09 (caching layer)

The first section of each part defines the words used in the statements of `HG/Props/C09.lean`
(`Lru.WF`, `lastSet`, `touched`, `Signed`, `Unforgeable`, `MacCollisionFree`, `CacheSound`, …);
the rest are helper lemmas. -/
namespace HG.Cache
open HG

/-! ## association lists -/
section AL
variable {α : Type}

theorem get?_append (a b : AL α) (k : Name) :
    AL.get? (a ++ b) k = (AL.get? a k).or (AL.get? b k) := by
  induction a with
  | nil => simp
  | cons h t ih =>
    obtain ⟨x, w⟩ := h
    by_cases hk : k = x
    · simp [AL.get?, hk]
    · simp [AL.get?, hk, ih]

theorem get?_eq_none_of_not_mem (m : AL α) (k : Name) (h : k ∉ AL.keys m) : AL.get? m k = none := by
  have : ¬ AL.has m k = true := fun e => h ((AL.mem_keys_iff_has m k).2 e)
  simpa [AL.has] using this

theorem mem_keys_of_get? (m : AL α) (k : Name) (v : α) (h : AL.get? m k = some v) : k ∈ AL.keys m :=
  (AL.mem_keys_iff_has m k).2 (by simp [AL.has, h])

theorem keys_append (a b : AL α) : AL.keys (a ++ b) = AL.keys a ++ AL.keys b := by simp [AL.keys]

theorem keys_cons (kv : Name × α) (m : AL α) : AL.keys (kv :: m) = kv.1 :: AL.keys m := rfl

theorem get?_erase (m : AL α) (k k' : Name) :
    AL.get? (erase m k) k' = if k' = k then none else AL.get? m k' := by
  induction m with
  | nil => simp [erase]
  | cons h t ih =>
    obtain ⟨x, w⟩ := h
    have e : erase ((x, w) :: t) k = if x = k then erase t k else (x, w) :: erase t k := by
      by_cases hx : x = k <;> simp [erase, hx]
    rw [e]
    by_cases hx : x = k
    · subst hx
      by_cases hk : k' = x
      · subst hk; simpa using ih
      · simp [hk, ih, AL.get?]
    · by_cases hk : k' = x
      · subst hk; simp [hx, AL.get?]
      · simp [hx, AL.get?, hk, ih]

theorem has_erase_same (m : AL α) (k : Name) : AL.has (erase m k) k = false := by
  simp [AL.has, get?_erase]

theorem del_of_not_mem (m : AL α) (k : Name) (h : k ∉ AL.keys m) : AL.del m k = m := by
  induction m with
  | nil => rfl
  | cons hd t ih =>
    obtain ⟨x, w⟩ := hd
    have hx : ¬ k = x := fun e => h (by simp [AL.keys, e])
    have ht : k ∉ AL.keys t := fun e => h (by simp [AL.keys] at e ⊢; exact Or.inr e)
    simp [AL.del, hx, ih ht]

theorem del_sublist (m : AL α) (k : Name) : (AL.del m k).Sublist m := by
  induction m with
  | nil => exact List.Sublist.refl _
  | cons hd t ih =>
    obtain ⟨x, w⟩ := hd
    by_cases hk : k = x
    · simp [AL.del, hk]
    · simp [AL.del, hk, ih]

theorem keys_sublist {a b : AL α} (h : a.Sublist b) : (AL.keys a).Sublist (AL.keys b) := h.map _

theorem not_mem_keys_del (m : AL α) (k : Name) (hn : (AL.keys m).Nodup) : k ∉ AL.keys (AL.del m k) := by
  induction m with
  | nil => simp [AL.del, AL.keys]
  | cons hd t ih =>
    obtain ⟨x, w⟩ := hd
    rw [keys_cons, List.nodup_cons] at hn
    by_cases hk : k = x
    · subst hk; simpa [AL.del] using hn.1
    · simp only [AL.del, hk, if_false, keys_cons, List.mem_cons, false_or]
      exact ih hn.2

theorem put_append_last (l : AL α) (k : Name) (v0 v : α) (h : k ∉ AL.keys l) :
    AL.put (l ++ [(k, v0)]) k v = l ++ [(k, v)] := by
  induction l with
  | nil => simp [AL.put]
  | cons hd t ih =>
    obtain ⟨x, w⟩ := hd
    have hx : ¬ k = x := fun e => h (by simp [AL.keys, e])
    have ht : k ∉ AL.keys t := fun e => h (by simp [AL.keys] at e ⊢; exact Or.inr e)
    simp [AL.put, hx, ih ht]

theorem put_of_not_mem (l : AL α) (k : Name) (v : α) (h : k ∉ AL.keys l) :
    AL.put l k v = l ++ [(k, v)] := by
  induction l with
  | nil => simp [AL.put]
  | cons hd t ih =>
    obtain ⟨x, w⟩ := hd
    have hx : ¬ k = x := fun e => h (by simp [AL.keys, e])
    have ht : k ∉ AL.keys t := fun e => h (by simp [AL.keys] at e ⊢; exact Or.inr e)
    simp [AL.put, hx, ih ht]

theorem erase_put_absent (m : AL α) (k : Name) (v : α) (h : AL.has m k = false) :
    erase (AL.put m k v) k = m := by
  have hk : k ∉ AL.keys m := fun e => by
    have := (AL.mem_keys_iff_has m k).1 e
    simp [h] at this
  rw [put_of_not_mem m k v hk]
  simp only [erase, List.filter_append]
  have h1 : List.filter (fun kv : Name × α => !(kv.1 == k)) m = m := by
    apply List.filter_eq_self.2
    intro kv hkv
    have : kv.1 ≠ k := fun e => hk (by rw [← e]; exact List.mem_map_of_mem hkv)
    simp [this]
  simp [h1]

/-- a duplicate-free list of names inside `T` is no longer than `T` -/
theorem nodup_subset_length : ∀ (l T : List Name), l.Nodup → (∀ x ∈ l, x ∈ T) → l.length ≤ T.length
  | [], _, _, _ => Nat.zero_le _
  | a :: l, T, hn, hs => by
    rw [List.nodup_cons] at hn
    have ha : a ∈ T := hs a (List.mem_cons_self ..)
    have hs' : ∀ x ∈ l, x ∈ T.erase a := fun x hx =>
      (List.mem_erase_of_ne (fun e : x = a => hn.1 (by rw [← e]; exact hx))).2 (hs x (List.mem_cons_of_mem _ hx))
    have ih := nodup_subset_length l (T.erase a) hn.2 hs'
    rw [List.length_erase_of_mem ha] at ih
    have : 0 < T.length := List.length_pos_of_mem ha
    simp only [List.length_cons]; omega
end AL

/-! ## 1. LRU — vocabulary -/
section LruSpec
variable {α : Type}

/-- the representation invariant of `InMemoryCache`: distinct keys, never above capacity -/
def Lru.WF (c : Lru α) : Prop :=
  (AL.keys c.data).Nodup ∧ ∀ n, c.maxSize = some n → c.data.length ≤ n

/-- the value an operation assigns to `k`, if it is a `set` on `k` -/
def opSet : Op α → Name → Option α
  | .set k' v, k => if k' = k then some v else none
  | .get _, _ => none

/-- the value stored by the most recent `set` on `k` in the history (chronological list) -/
def lastSet : List (Op α) → Name → Option α
  | [], _ => none
  | op :: rest, k => (lastSet rest k).or (opSet op k)

/-- the keys touched (get-hit or set) while running `ops` from `c`, in order; misses do not count -/
def touched (c : Lru α) : List (Op α) → List Name
  | [] => []
  | .get k :: rest =>
    match (c.get k).2 with
    | some _ => k :: touched (c.get k).1 rest
    | none => touched (c.get k).1 rest
  | .set k v :: rest => k :: touched (c.set k v) rest
end LruSpec

/-! ## 1. LRU — lemmas -/
section LruLemmas
variable {α : Type}

/-- `move_to_end` + assignment -/
def touch (m : AL α) (k : Name) (v : α) : AL α := AL.del m k ++ [(k, v)]

/-- `popitem(last=False)` when over capacity -/
def trim (ms : Option Nat) (d : AL α) : AL α :=
  match ms with
  | some n => if d.length > n then d.tail else d
  | none => d

theorem Lru.get_snd (c : Lru α) (k : Name) : (c.get k).2 = AL.get? c.data k := by
  unfold Lru.get; cases h : AL.get? c.data k <;> simp

theorem Lru.get_miss (c : Lru α) (k : Name) (h : AL.get? c.data k = none) : (c.get k).1 = c := by
  unfold Lru.get; simp [h]

theorem Lru.get_hit (c : Lru α) (k : Name) (v : α) (h : AL.get? c.data k = some v) :
    (c.get k).1 = { c with data := touch c.data k v } := by
  unfold Lru.get; simp [h, moveToEnd, touch]

theorem Lru.get_maxSize (c : Lru α) (k : Name) : (c.get k).1.maxSize = c.maxSize := by
  unfold Lru.get; cases h : AL.get? c.data k <;> simp

theorem Lru.set_maxSize (c : Lru α) (k : Name) (v : α) : (c.set k v).maxSize = c.maxSize := rfl

theorem Lru.set_data (c : Lru α) (k : Name) (v : α) (hn : (AL.keys c.data).Nodup) :
    (c.set k v).data = trim c.maxSize (touch c.data k v) := by
  have key : AL.put (if AL.has c.data k then moveToEnd c.data k else c.data) k v = touch c.data k v := by
    cases hg : AL.get? c.data k with
    | none =>
      have hk : k ∉ AL.keys c.data := fun e => by
        have := (AL.mem_keys_iff_has c.data k).1 e; simp [AL.has, hg] at this
      simp [AL.has, hg, touch, del_of_not_mem _ _ hk, put_of_not_mem _ _ _ hk]
    | some v0 =>
      simp only [AL.has, hg, Option.isSome_some, if_true, moveToEnd, touch]
      exact put_append_last _ _ _ _ (not_mem_keys_del _ _ hn)
  unfold Lru.set
  simp only [key, trim]
  cases c.maxSize <;> rfl

theorem nodup_keys_touch (m : AL α) (k : Name) (v : α) (hn : (AL.keys m).Nodup) :
    (AL.keys (touch m k v)).Nodup := by
  unfold touch
  rw [keys_append, List.nodup_append]
  refine ⟨(keys_sublist (del_sublist m k)).nodup hn, by simp [AL.keys], ?_⟩
  intro a ha b hb
  simp [AL.keys] at hb
  subst hb
  intro e; subst e
  exact not_mem_keys_del m a hn ha

theorem length_touch_le (m : AL α) (k : Name) (v : α) : (touch m k v).length ≤ m.length + 1 := by
  unfold touch
  have := (del_sublist m k).length_le
  simp; omega

theorem trim_sublist (ms : Option Nat) (d : AL α) : (trim ms d).Sublist d := by
  unfold trim
  cases ms with
  | none => exact List.Sublist.refl _
  | some n => by_cases h : d.length > n <;> simp [h, List.tail_sublist]

theorem length_trim (n : Nat) (d : AL α) (h : d.length ≤ n + 1) : (trim (some n) d).length ≤ n := by
  unfold trim
  by_cases hd : d.length > n
  · simp [hd]; omega
  · simp [hd]; omega

theorem get?_touch (m : AL α) (k k' : Name) (v : α) (hn : (AL.keys m).Nodup) :
    AL.get? (touch m k v) k' = if k' = k then some v else AL.get? m k' := by
  unfold touch
  rw [get?_append]
  by_cases h : k' = k
  · subst h
    rw [get?_eq_none_of_not_mem _ _ (not_mem_keys_del m k' hn)]
    simp [AL.get?]
  · rw [AL.get?_del_other m k k' h]
    simp [AL.get?, h]

/-- dropping the oldest entry of a duplicate-free dict only removes information -/
theorem get?_of_sublist_nodup : ∀ (a b : AL α), a.Sublist b → (AL.keys b).Nodup →
    ∀ k v, AL.get? a k = some v → AL.get? b k = some v := by
  intro a b hs
  induction hs with
  | slnil => intro _ k v h; exact h
  | @cons l₁ l₂ x _ ih =>
    intro hn k v h
    obtain ⟨y, w⟩ := x
    rw [keys_cons, List.nodup_cons] at hn
    have := ih hn.2 k v h
    by_cases hk : k = y
    · exact absurd (hk ▸ mem_keys_of_get? l₂ k v this) hn.1
    · simp [AL.get?, hk, this]
  | @cons_cons l₁ l₂ x _ ih =>
    intro hn k v h
    obtain ⟨y, w⟩ := x
    rw [keys_cons, List.nodup_cons] at hn
    by_cases hk : k = y
    · simpa [AL.get?, hk] using h
    · simp only [AL.get?, hk, if_false] at h ⊢
      exact ih hn.2 k v h

theorem Lru.WF.get {c : Lru α} (h : c.WF) (k : Name) : (c.get k).1.WF := by
  cases hg : AL.get? c.data k with
  | none => rw [Lru.get_miss c k hg]; exact h
  | some v =>
    rw [Lru.get_hit c k v hg]
    refine ⟨nodup_keys_touch _ _ _ h.1, fun n hn => ?_⟩
    have hk : k ∈ AL.keys c.data := mem_keys_of_get? _ _ _ hg
    -- the key was present: the length is unchanged
    have hlen : (touch c.data k v).length = c.data.length := by
      clear hn
      unfold touch
      have : ∀ m : AL α, k ∈ AL.keys m → (AL.del m k).length + 1 = m.length := by
        intro m
        induction m with
        | nil => intro hm; simp [AL.keys] at hm
        | cons hd t ih =>
          obtain ⟨x, w⟩ := hd
          intro hm
          by_cases hx : k = x
          · simp [AL.del, hx]
          · have : k ∈ AL.keys t := by simpa [AL.keys, hx] using hm
            simp [AL.del, hx, ih this]
      simp [this c.data hk]
    simpa [hlen] using h.2 n hn

theorem Lru.WF.set {c : Lru α} (h : c.WF) (k : Name) (v : α) : (c.set k v).WF := by
  refine ⟨?_, fun n hn => ?_⟩
  · rw [Lru.set_data c k v h.1]
    exact (keys_sublist (trim_sublist _ _)).nodup (nodup_keys_touch _ _ _ h.1)
  · rw [Lru.set_maxSize] at hn
    rw [Lru.set_data c k v h.1, hn]
    apply length_trim
    have := length_touch_le c.data k v
    have := h.2 n hn
    omega

theorem Lru.WF.empty (ms : Option Nat) : (Lru.empty ms : Lru α).WF :=
  ⟨by simp [Lru.empty, AL.keys], fun n _ => by simp [Lru.empty]⟩

theorem Lru.WF.step {c : Lru α} (h : c.WF) (op : Op α) : (c.step op).WF := by
  cases op with
  | get k => exact h.get k
  | set k v => exact h.set k v

theorem Lru.step_maxSize (c : Lru α) (op : Op α) : (c.step op).maxSize = c.maxSize := by
  cases op with
  | get k => exact Lru.get_maxSize c k
  | set k v => rfl

theorem Lru.run_cons (c : Lru α) (op : Op α) (ops : List (Op α)) :
    c.run (op :: ops) = (c.step op).run ops := rfl

theorem Lru.run_append (c : Lru α) (a b : List (Op α)) : c.run (a ++ b) = (c.run a).run b := by
  simp [Lru.run, List.foldl_append]

theorem Lru.WF.run {c : Lru α} (h : c.WF) (ops : List (Op α)) : (c.run ops).WF := by
  induction ops generalizing c with
  | nil => exact h
  | cons op r ih => exact ih (h.step op)

theorem Lru.run_maxSize (c : Lru α) (ops : List (Op α)) : (c.run ops).maxSize = c.maxSize := by
  induction ops generalizing c with
  | nil => rfl
  | cons op r ih => rw [Lru.run_cons, ih, Lru.step_maxSize]

/-- a lookup after one step: either the value just set, or a value that was already there -/
theorem Lru.get?_step_sub {c : Lru α} (h : c.WF) (op : Op α) (k : Name) (v : α)
    (hg : AL.get? (c.step op).data k = some v) : (opSet op k).or (AL.get? c.data k) = some v := by
  cases op with
  | get k' =>
    simp only [opSet, Option.none_or]
    cases hk : AL.get? c.data k' with
    | none => simpa [Lru.step, Lru.get_miss c k' hk] using hg
    | some v' =>
      simp only [Lru.step, Lru.get_hit c k' v' hk, get?_touch _ _ _ _ h.1] at hg
      by_cases e : k = k'
      · subst e; simpa [hk] using hg
      · simpa [e] using hg
  | set k' v' =>
    simp only [Lru.step, Lru.set_data c k' v' h.1] at hg
    have := get?_of_sublist_nodup _ _ (trim_sublist c.maxSize _) (nodup_keys_touch _ k' v' h.1) k v hg
    rw [get?_touch _ _ _ _ h.1] at this
    by_cases e : k = k'
    · subst e; simpa [opSet] using this
    · have e' : ¬ k' = k := fun x => e x.symm
      simpa [opSet, e, e'] using this

/-- unbounded cache: a lookup after one step is exactly the abstract map update -/
theorem Lru.get?_step_unbounded {c : Lru α} (h : c.WF) (hu : c.maxSize = none) (op : Op α) (k : Name) :
    AL.get? (c.step op).data k = (opSet op k).or (AL.get? c.data k) := by
  cases op with
  | get k' =>
    simp only [opSet, Option.none_or]
    cases hk : AL.get? c.data k' with
    | none => simp [Lru.step, Lru.get_miss c k' hk]
    | some v' =>
      simp only [Lru.step, Lru.get_hit c k' v' hk, get?_touch _ _ _ _ h.1]
      by_cases e : k = k'
      · subst e; simp [hk]
      · simp [e]
  | set k' v' =>
    simp only [Lru.step, Lru.set_data c k' v' h.1, hu, trim, get?_touch _ _ _ _ h.1]
    by_cases e : k = k'
    · subst e; simp [opSet]
    · have e' : ¬ k' = k := fun x => e x.symm
      simp [opSet, e, e']

theorem lru_sound_aux (ops : List (Op α)) : ∀ (c : Lru α), c.WF → ∀ k v,
    AL.get? (c.run ops).data k = some v → (lastSet ops k).or (AL.get? c.data k) = some v := by
  induction ops with
  | nil => intro c _ k v h; simpa [lastSet, Lru.run] using h
  | cons op r ih =>
    intro c h k v hg
    rw [Lru.run_cons] at hg
    have h1 := ih (c.step op) (h.step op) k v hg
    simp only [lastSet, Option.or_assoc]
    cases hl : lastSet r k with
    | some x => simpa [hl] using h1
    | none =>
      simp only [hl, Option.none_or] at h1 ⊢
      exact Lru.get?_step_sub h op k v h1

theorem lru_exact_aux (ops : List (Op α)) : ∀ (c : Lru α), c.WF → c.maxSize = none → ∀ k,
    AL.get? (c.run ops).data k = (lastSet ops k).or (AL.get? c.data k) := by
  induction ops with
  | nil => intro c _ _ k; simp [lastSet, Lru.run]
  | cons op r ih =>
    intro c h hu k
    rw [Lru.run_cons, ih (c.step op) (h.step op) (by rw [Lru.step_maxSize, hu]) k,
      Lru.get?_step_unbounded h hu]
    simp [lastSet, Option.or_assoc]

/-! ### retention -/

/-- `k ↦ cur` is in the dict and everything younger than it is a key of `T` -/
def Holds (T : List Name) (k : Name) (cur : α) (m : AL α) : Prop :=
  ∃ pre post, m = pre ++ (k, cur) :: post ∧ ∀ x ∈ AL.keys post, x ∈ T

theorem Holds.get? {T : List Name} {k : Name} {cur : α} {m : AL α} (h : Holds T k cur m)
    (hn : (AL.keys m).Nodup) : AL.get? m k = some cur := by
  obtain ⟨pre, post, rfl, _⟩ := h
  rw [keys_append, List.nodup_append] at hn
  have : k ∉ AL.keys pre := fun e => hn.2.2 k e k (by simp [AL.keys]) rfl
  rw [get?_append, get?_eq_none_of_not_mem _ _ this]
  simp [AL.get?]

theorem del_split (k k' : Name) (cur : α) (hne : k' ≠ k) : ∀ (pre post : AL α),
    ∃ pre' post', AL.del (pre ++ (k, cur) :: post) k' = pre' ++ (k, cur) :: post' ∧
      ∀ x ∈ AL.keys post', x ∈ AL.keys post := by
  intro pre
  induction pre with
  | nil =>
    intro post
    refine ⟨[], AL.del post k', by simp [AL.del, hne], fun x hx => ?_⟩
    exact (keys_sublist (del_sublist post k')).subset hx
  | cons hd t ih =>
    intro post
    obtain ⟨y, w⟩ := hd
    by_cases hy : k' = y
    · exact ⟨t, post, by simp [AL.del, hy], fun x hx => hx⟩
    · obtain ⟨pre', post', he, hs⟩ := ih post
      exact ⟨(y, w) :: pre', post', by simp [AL.del, hy, he], hs⟩

theorem Holds.touch_other {T : List Name} {k k' : Name} {cur v' : α} {m : AL α} (h : Holds T k cur m)
    (hne : k' ≠ k) (hT : k' ∈ T) : Holds T k cur (touch m k' v') := by
  obtain ⟨pre, post, rfl, hs⟩ := h
  obtain ⟨pre', post', he, hs'⟩ := del_split k k' cur hne pre post
  refine ⟨pre', post' ++ [(k', v')], by simp [touch, he], fun x hx => ?_⟩
  rw [keys_append, List.mem_append] at hx
  rcases hx with hx | hx
  · exact hs x (hs' x hx)
  · simp [AL.keys] at hx; exact hx ▸ hT

theorem Holds.touch_same (T : List Name) (k : Name) (v' : α) (m : AL α) : Holds T k v' (touch m k v') :=
  ⟨AL.del m k, [], rfl, fun x hx => by simp [AL.keys] at hx⟩

theorem Holds.trim {T : List Name} {k : Name} {cur : α} {d : AL α} {n : Nat} (h : Holds T k cur d)
    (hn : (AL.keys d).Nodup) (hT : T.length + 1 ≤ n) : Holds T k cur (trim (some n) d) := by
  obtain ⟨pre, post, rfl, hs⟩ := h
  unfold Cache.trim
  by_cases hlen : (pre ++ (k, cur) :: post).length > n
  · simp only [hlen, if_true]
    cases pre with
    | cons p ps => exact ⟨ps, post, rfl, hs⟩
    | nil =>
      exfalso
      have hn' : (AL.keys post).Nodup := by
        simp only [List.nil_append, keys_cons, List.nodup_cons] at hn; exact hn.2
      have := nodup_subset_length (AL.keys post) T hn' hs
      simp [AL.keys] at this hlen
      omega
  · simp only [hlen, if_false]; exact ⟨pre, post, rfl, hs⟩

theorem lru_retention_aux (T : List Name) (k : Name) (n : Nat) (hT : T.length + 1 ≤ n)
    (ops : List (Op α)) : ∀ (c : Lru α) (cur : α), c.WF → c.maxSize = some n → Holds T k cur c.data →
    (∀ x ∈ touched c ops, x ≠ k → x ∈ T) →
    AL.get? (c.run ops).data k = some ((lastSet ops k).getD cur) := by
  induction ops with
  | nil => intro c cur h _ hh _; simpa [Lru.run, lastSet] using hh.get? h.1
  | cons op r ih =>
    intro c cur h hm hh ht
    rw [Lru.run_cons]
    cases op with
    | get k' =>
      cases hk : AL.get? c.data k' with
      | none =>
        have e : (c.get k').1 = c := Lru.get_miss c k' hk
        have ht' : ∀ x ∈ touched c r, x ≠ k → x ∈ T := by
          intro x hx; apply ht
          simp only [touched, Lru.get_snd, hk, e]; exact hx
        have := ih c cur h hm hh ht'
        simpa [Lru.step, e, lastSet, opSet] using this
      | some v' =>
        have e : (c.get k').1 = { c with data := touch c.data k' v' } := Lru.get_hit c k' v' hk
        have hwf : (c.get k').1.WF := h.get k'
        have ht' : ∀ x ∈ touched (c.get k').1 r, x ≠ k → x ∈ T := by
          intro x hx; apply ht
          simp only [touched, Lru.get_snd, hk]; exact List.mem_cons_of_mem _ hx
        have hh' : Holds T k cur (c.get k').1.data := by
          rw [e]
          by_cases hkk : k' = k
          · subst hkk
            have : v' = cur := by have := hh.get? h.1; rw [hk] at this; exact Option.some.inj this
            subst this
            exact Holds.touch_same T k' v' c.data
          · refine hh.touch_other hkk (ht k' ?_ hkk)
            simp only [touched, Lru.get_snd, hk]; exact List.mem_cons_self ..
        have := ih (c.get k').1 cur hwf (by rw [Lru.get_maxSize, hm]) hh' ht'
        simpa [Lru.step, lastSet, opSet] using this
    | set k' v' =>
      have hwf : (c.set k' v').WF := h.set k' v'
      have ht' : ∀ x ∈ touched (c.set k' v') r, x ≠ k → x ∈ T := by
        intro x hx; apply ht
        simp only [touched]; exact List.mem_cons_of_mem _ hx
      have hnd := nodup_keys_touch c.data k' v' h.1
      by_cases hkk : k' = k
      · subst hkk
        have hh' : Holds T k' v' (c.set k' v').data := by
          rw [Lru.set_data c k' v' h.1, hm]
          exact (Holds.touch_same T k' v' c.data).trim hnd hT
        have := ih (c.set k' v') v' hwf hm hh' ht'
        rw [Lru.step, this]
        cases hl : lastSet r k' <;> simp [lastSet, opSet, hl]
      · have hh' : Holds T k cur (c.set k' v').data := by
          rw [Lru.set_data c k' v' h.1, hm]
          refine (hh.touch_other hkk (ht k' ?_ hkk)).trim hnd hT
          simp only [touched]; exact List.mem_cons_self ..
        have := ih (c.set k' v') cur hwf hm hh' ht'
        rw [Lru.step, this]
        simp [lastSet, opSet, hkk]

/-! ### where the last `set` sits in a history -/

theorem lastSet_split (ops : List (Op α)) (k : Name) (v : α) (h : lastSet ops k = some v) :
    ∃ pre post, ops = pre ++ Op.set k v :: post ∧ ∀ w, Op.set k w ∉ post := by
  induction ops with
  | nil => simp [lastSet] at h
  | cons op r ih =>
    simp only [lastSet] at h
    cases hl : lastSet r k with
    | some x =>
      rw [hl] at h; simp at h; subst h
      obtain ⟨pre, post, he, hp⟩ := ih hl
      exact ⟨op :: pre, post, by simp [he], hp⟩
    | none =>
      rw [hl] at h; simp only [Option.none_or] at h
      cases op with
      | get k' => simp [opSet] at h
      | set k' v' =>
        by_cases e : k' = k
        · subst e
          simp [opSet] at h; subst h
          refine ⟨[], r, rfl, fun w hw => ?_⟩
          -- a later `set` on the key would make `lastSet r` defined
          have : ∀ (l : List (Op α)), Op.set k' w ∈ l → (lastSet l k').isSome := by
            intro l
            induction l with
            | nil => intro hm; cases hm
            | cons o t iht =>
              intro hm
              simp only [lastSet]
              rcases List.mem_cons.1 hm with e | hm'
              · subst e; cases lastSet t k' <;> simp [opSet]
              · have := iht hm'
                cases hq : lastSet t k' with
                | none => simp [hq] at this
                | some _ => simp
          have := this r hw
          simp [hl] at this
        · simp [opSet, e] at h
end LruLemmas

/-! ## 2–4. disk cache — vocabulary -/
section DiskSpec
variable {V : Type}

/-- `(key, b)` was signed: a complete `set key v` with `pickle v = b` occurred in the history.
(A `set` torn after its first write never stored a signature and does not count.) -/
def Signed (C : Codec V) (hist : List (Step V)) (key : String) (b : List Nat) : Prop :=
  ∃ v, Step.set key v ∈ hist ∧ C.pickle v = b

/-- the obligation a single step puts on the adversary, given the history `pre` before it: a tamper
step that writes a string `t` into the signature slot of some `key` does not write the MAC of any
`(key, b)` that was not signed before -/
def StepUnforged (C : Codec V) (pre : List (Step V)) : Step V → Prop
  | .tamper (.setCell slot (.str t)) =>
    ∀ key b, slot = hmacKey key → t = C.H key b → Signed C pre key b
  | _ => True

def UnforgeableFrom (C : Codec V) : List (Step V) → List (Step V) → Prop
  | _, [] => True
  | pre, s :: rest => StepUnforged C pre s ∧ UnforgeableFrom C (pre ++ [s]) rest

/-- the adversary cannot produce a tag for a message that was not signed before (a predicate on
histories: every tamper step is checked against the history that precedes it) -/
def Unforgeable (C : Codec V) (hist : List (Step V)) : Prop := UnforgeableFrom C [] hist

/-- for the fixed secret the MAC is injective in its message (no two payloads share a tag) -/
def MacCollisionFree (C : Codec V) : Prop := ∀ key b b', C.H key b = C.H key b' → b = b'

/-- store invariant: every string in a signature slot that verifies for `(key, b)` was signed -/
def TagInv (C : Codec V) (S : String → List Nat → Prop) (d : Disk) : Prop :=
  ∀ key t, d.cell (hmacKey key) = some (.str t) → ∀ b, t = C.H key b → S key b
end DiskSpec

/-! ## 2–4. disk cache — lemmas -/
section DiskLemmas
variable {V : Type}

theorem hmacKey_inj {k k' : String} (h : hmacKey k = hmacKey k') : k = k' := by
  have := congrArg String.toList h
  simp only [hmacKey, String.toList_append] at this
  exact String.toList_inj.1 (List.append_cancel_right this)

theorem hmacKey_ne (k : String) : hmacKey k ≠ k := by
  intro h
  have := congrArg String.length h
  simp [hmacKey, String.length_append] at this

/-- unary rendering of a byte string, `[2,0,1] ↦ "aa||a|"` (used by the toy MAC of the examples) -/
def unary : List Nat → List Char
  | [] => []
  | n :: r => List.replicate n 'a' ++ '|' :: unary r

theorem unary_head_inj : ∀ (n m : Nat) (x y : List Char),
    List.replicate n 'a' ++ '|' :: x = List.replicate m 'a' ++ '|' :: y → n = m ∧ x = y
  | 0, 0, _, _, h => ⟨rfl, by simpa using h⟩
  | 0, m + 1, _, _, h => by simp [List.replicate_succ] at h
  | n + 1, 0, _, _, h => by simp [List.replicate_succ] at h
  | n + 1, m + 1, x, y, h => by
    simp only [List.replicate_succ, List.cons_append, List.cons.injEq, true_and] at h
    obtain ⟨e, hx⟩ := unary_head_inj n m x y h
    exact ⟨by omega, hx⟩

theorem unary_inj : ∀ a c : List Nat, unary a = unary c → a = c
  | [], [], _ => rfl
  | [], m :: r, h => by cases m <;> simp [unary, List.replicate_succ] at h
  | n :: r, [], h => by cases n <;> simp [unary, List.replicate_succ] at h
  | n :: r, m :: r', h => by
    obtain ⟨e, hx⟩ := unary_head_inj n m _ _ h
    rw [e, unary_inj r r' hx]

theorem Disk.cell_write (d : Disk) (k k' : String) (c : Cell) :
    (d.write k c).cell k' = if k' = k then some c else d.cell k' := by
  simp [Disk.write, Disk.cell, AL.get?_put]

theorem Disk.cell_delete (d : Disk) (k k' : String) :
    (d.delete k).cell k' = if k' = k then none else d.cell k' := by
  simp [Disk.delete, Disk.cell, get?_erase]

theorem Disk.cell_empty (k : String) : Disk.empty.cell k = none := rfl

/-- every branch of `get` only removes cells -/
theorem Disk.cell_get_sub (C : Codec V) (d : Disk) (key s : String) (c : Cell)
    (h : ((d.get C key).1).cell s = some c) : d.cell s = some c := by
  unfold Disk.get at h
  split at h
  · exact h
  · split at h
    · simp only [Disk.cell_delete] at h; split at h <;> simp_all
    · split at h
      · split at h
        · exact h
        · simp only [Disk.cell_delete] at h; repeat (split at h <;> simp_all)
      · simp only [Disk.cell_delete] at h; repeat (split at h <;> simp_all)
    · simp only [Disk.cell_delete] at h; repeat (split at h <;> simp_all)
  · simp only [Disk.cell_delete] at h; split at h <;> simp_all

theorem Signed.mono {C : Codec V} {h1 h2 : List (Step V)} (hs : ∀ s ∈ h1, s ∈ h2) {key : String}
    {b : List Nat} (h : Signed C h1 key b) : Signed C h2 key b := by
  obtain ⟨v, hv, hb⟩ := h
  exact ⟨v, hs _ hv, hb⟩

theorem TagInv.mono {C : Codec V} {S S' : String → List Nat → Prop} {d : Disk}
    (h : TagInv C S d) (hs : ∀ k b, S k b → S' k b) : TagInv C S' d :=
  fun key t hc b ht => hs _ _ (h key t hc b ht)

/-- one step of a history preserves the tag invariant (for the history grown by that step) -/
theorem TagInv.step {C : Codec V} (hcf : MacCollisionFree C) {pre : List (Step V)} {d : Disk}
    (hinv : TagInv C (Signed C pre) d) (s : Step V)
    (hU : ∀ slot t, s = Step.tamper (.setCell slot (.str t)) →
      ∀ key b, slot = hmacKey key → t = C.H key b → Signed C pre key b) :
    TagInv C (Signed C (pre ++ [s])) (d.step C s) := by
  have hmono : ∀ k b, Signed C pre k b → Signed C (pre ++ [s]) k b :=
    fun k b h => h.mono (fun x hx => List.mem_append_left _ hx)
  cases s with
  | set k v =>
    intro key t hc b ht
    simp only [Disk.step, Disk.set, Disk.cell_write] at hc
    by_cases e : hmacKey key = hmacKey k
    · have ek := hmacKey_inj e
      subst ek
      simp only [if_true] at hc
      have : C.H key (C.pickle v) = C.H key b := by
        have := Option.some.inj hc; injection this with h1; rw [h1, ht]
      exact ⟨v, by simp, hcf _ _ _ this⟩
    · simp only [e, if_false] at hc
      by_cases e2 : hmacKey key = k
      · simp [e2] at hc
      · simp only [e2, if_false] at hc
        exact hmono _ _ (hinv key t hc b ht)
  | crashSet k v =>
    intro key t hc b ht
    simp only [Disk.step, Disk.setCrashAfterFirstWrite, Disk.cell_write] at hc
    by_cases e2 : hmacKey key = k
    · simp [e2] at hc
    · simp only [e2, if_false] at hc
      exact hmono _ _ (hinv key t hc b ht)
  | tamper tm =>
    cases tm with
    | setCell slot c =>
      intro key t hc b ht
      simp only [Disk.step, Tamper.apply, Disk.cell_write] at hc
      by_cases e : hmacKey key = slot
      · simp only [e, if_true] at hc
        have hc' : c = .str t := Option.some.inj hc
        subst hc'
        exact hmono _ _ (hU slot t rfl key b e.symm ht)
      · simp only [e, if_false] at hc
        exact hmono _ _ (hinv key t hc b ht)
    | delCell slot =>
      intro key t hc b ht
      simp only [Disk.step, Tamper.apply, Disk.cell_delete] at hc
      by_cases e : hmacKey key = slot
      · simp [e] at hc
      · simp only [e, if_false] at hc
        exact hmono _ _ (hinv key t hc b ht)
  | get k =>
    intro key t hc b ht
    exact hmono _ _ (hinv key t (Disk.cell_get_sub C d k _ _ hc) b ht)

theorem Disk.run_cons (C : Codec V) (d : Disk) (s : Step V) (r : List (Step V)) :
    d.run C (s :: r) = (d.step C s).run C r := rfl

theorem TagInv.run {C : Codec V} (hcf : MacCollisionFree C) (post : List (Step V)) :
    ∀ (pre : List (Step V)) (d : Disk), TagInv C (Signed C pre) d → UnforgeableFrom C pre post →
      TagInv C (Signed C (pre ++ post)) (d.run C post) := by
  induction post with
  | nil => intro pre d h _; simpa [Disk.run] using h
  | cons s r ih =>
    intro pre d h hU
    have e : pre ++ s :: r = (pre ++ [s]) ++ r := by simp
    rw [Disk.run_cons, e]
    apply ih _ _ _ hU.2
    apply h.step hcf s
    intro slot t hs key b
    subst hs
    exact hU.1 key b
end DiskLemmas

/-! ## 5–7. keys and cached execution — vocabulary -/
section ExecSpec

/-- the cache stores, under the key of `(nd, inputs)` — identity and *parameter-level* inputs
`toParams nd inputs` — exactly what executing `nd` on `inputs` yields -/
def CacheSound (env : KeyEnv) (exec : NodeD → AL Val → NodeOut) (cache : Lru (AL Val)) : Prop :=
  ∀ nd inputs entry, nd.cache = true → AL.get? cache.data (keyOf env nd inputs) = some entry →
    ∃ outs dec, outcome (exec nd inputs) = some (outs, dec) ∧ entry = toCache nd outs dec

/-- the executor's result is a function of what the key is computed from: nodes with the same
definition hash, class, output names, targets and fallback behave alike when the underlying function
receives the same arguments, i.e. on the same *parameter-level* inputs `toParams nd i` (whatever the order of
the inputs dict, and whatever current names the arguments travel under). This is the contract of
`definition_hash`: it identifies the function, and the function only ever sees its own parameter
names. (Stated over the inputs under their *current* names the contract would be false of any function
that is not symmetric in its arguments: `f` and `f.with_inputs(x='y', y='x')` share a definition hash
and differ on `{x: 5, y: 2}` — see `HG.C09.rename_collision_witness`.) -/
def ExecRespectsKey (env : KeyEnv) (exec : NodeD → AL Val → NodeOut) : Prop :=
  ∀ nd nd' i i', cacheKey (identOf env nd) (toParams nd i) = cacheKey (identOf env nd') (toParams nd' i') →
    outcome (exec nd i) = outcome (exec nd' i')

/-- only gate executors assign a routing decision -/
def GateOnlyDec (exec : NodeD → AL Val → NodeOut) : Prop :=
  ∀ nd inputs, nd.isGate = false → (exec nd inputs).dec = none

/-- no node has an output literally named `__routing_decision__` -/
def NoInternalKey (exec : NodeD → AL Val → NodeOut) : Prop :=
  ∀ nd inputs outs, (exec nd inputs).res = .ok outs → AL.has outs routingKey = false

/-- `state.routing_decisions.get(name)` after an (optional) assignment `w` over a previous entry -/
def readDec (prev w : Option Dec) : Dec := (w.or prev).getD Dec.none
end ExecSpec

/-! ## 5–7. keys and cached execution — lemmas -/
section ExecLemmas

theorem decTarget_encTarget (t : Target) : decTarget (encTarget t) = t := by cases t <;> rfl

theorem decDec_encDec (d : Dec) : decDec (encDec d) = d := by
  cases d with
  | many ts =>
    simp only [encDec, Val.mkLst, decDec, Val.toList_ofList, List.map_map]
    congr 1
    induction ts with
    | nil => rfl
    | cons t r ih => simp [decTarget_encTarget, ih]
  | _ => rfl

theorem encDec_eq_none {d : Dec} (h : encDec d = Val.none) : d = Dec.none := by
  cases d <;> simp [encDec, Val.mkLst] at h ⊢

theorem className_inj {a b : Kind} (h : className a = className b) : a = b := by
  cases a <;> cases b <;> first | rfl | (exact absurd h (by decide))

theorem isGate_of_ident {env : KeyEnv} {nd nd' : NodeD} (h : identOf env nd = identOf env nd') :
    nd.isGate = nd'.isGate := by
  have : className nd.kind = className nd'.kind := congrArg Ident.cls h
  simp [NodeD.isGate, className_inj this]

/-- `restore_routing_decision` undoes `store_in_cache`, except that a `None` decision is dropped -/
theorem restore_toCache (nd : NodeD) (outs : AL Val) (dec : Option Dec)
    (hk : AL.has outs routingKey = false) (hg : nd.isGate = false → dec = none) :
    restoreDecision nd (toCache nd outs dec) = (outs, if dec = some Dec.none then none else dec) := by
  have hget : AL.get? outs routingKey = none := by simpa [AL.has] using hk
  cases hgate : nd.isGate with
  | false => simp [restoreDecision, toCache, hgate, hg hgate]
  | true =>
    cases dec with
    | none => simp [restoreDecision, toCache, hgate, hget]
    | some d =>
      by_cases hd : d = Dec.none
      · subst hd; simp [restoreDecision, toCache, hgate, hget]
      · have hne : encDec d ≠ Val.none := fun e => hd (encDec_eq_none e)
        simp [restoreDecision, toCache, hgate, hd, AL.get?_put_same, erase_put_absent _ _ _ hk, hne,
          decDec_encDec]

theorem restore_no_key (nd : NodeD) (entry : AL Val) (hg : nd.isGate = true) :
    AL.has (restoreDecision nd entry).1 routingKey = false := by
  unfold restoreDecision
  simp only [hg, if_true]
  cases h : AL.get? entry routingKey with
  | none => simp [AL.has, h]
  | some v => simp [has_erase_same]

theorem outcome_some {o : NodeOut} {outs : AL Val} {dec : Option Dec}
    (h : outcome o = some (outs, dec)) : o.res = .ok outs ∧ o.pause = none ∧ o.dec = dec := by
  unfold outcome at h
  split at h
  · rename_i o1 h1 h2
    simp at h
    exact ⟨by rw [h1, h.1], h2, h.2⟩
  · cases h

theorem execCached_nocache (env : KeyEnv) (cache : Lru (AL Val)) (nd : NodeD) (inputs : AL Val)
    (exec : NodeD → AL Val → NodeOut) (hc : nd.cache = false) :
    execCached env cache nd inputs exec =
      { res := (exec nd inputs).res, dec := (exec nd inputs).dec, pause := (exec nd inputs).pause,
        called := true, cache := cache } := by
  simp [execCached, hc]

theorem execCached_hit (env : KeyEnv) (cache : Lru (AL Val)) (nd : NodeD) (inputs : AL Val)
    (exec : NodeD → AL Val → NodeOut) (hc : nd.cache = true) (entry : AL Val)
    (hg : AL.get? cache.data (keyOf env nd inputs) = some entry) :
    execCached env cache nd inputs exec =
      { res := .ok (restoreDecision nd entry).1, dec := (restoreDecision nd entry).2, pause := none,
        called := false, cache := (cache.get (keyOf env nd inputs)).1 } := by
  have : cache.get (keyOf env nd inputs) = ((cache.get (keyOf env nd inputs)).1, some entry) := by
    rw [← hg, ← Lru.get_snd]
  unfold execCached
  simp only [hc, if_true]
  rw [this]

theorem execCached_miss (env : KeyEnv) (cache : Lru (AL Val)) (nd : NodeD) (inputs : AL Val)
    (exec : NodeD → AL Val → NodeOut) (hc : nd.cache = true)
    (hg : AL.get? cache.data (keyOf env nd inputs) = none) :
    execCached env cache nd inputs exec =
      { res := (exec nd inputs).res, dec := (exec nd inputs).dec, pause := (exec nd inputs).pause,
        called := true,
        cache := match outcome (exec nd inputs) with
          | some (outs, dec) => cache.set (keyOf env nd inputs) (toCache nd outs dec)
          | none => cache } := by
  have : cache.get (keyOf env nd inputs) = (cache, none) := by
    have h1 := Lru.get_snd cache (keyOf env nd inputs)
    have h2 := Lru.get_miss cache _ hg
    rw [hg] at h1
    exact Prod.ext h2 h1
  unfold execCached
  simp only [hc, if_true]
  rw [this]
  cases outcome (exec nd inputs) <;> rfl

theorem Lru.get?_get_fst {α : Type} {c : Lru α} (h : c.WF) (k k' : Name) :
    AL.get? (c.get k).1.data k' = AL.get? c.data k' := by
  cases hk : AL.get? c.data k with
  | none => rw [Lru.get_miss c k hk]
  | some v =>
    rw [Lru.get_hit c k v hk]
    simp only [get?_touch _ _ _ _ h.1]
    by_cases e : k' = k
    · subst e; simp [hk]
    · simp [e]
end ExecLemmas

/-! ## fixtures for the non-vacuity examples of `HG/Props/C09.lean` -/
section Fixtures

/-- a toy codec for the examples: values are naturals, `pickle n = [n]`, the "MAC" renders key and
message (injective in the message; of course not secret) -/
def natCodec : Codec Nat :=
  { H := fun k b => "mac:" ++ k ++ ":" ++ String.ofList (unary b)
    pickle := fun n => [n]
    unpickle := fun b => match b with | [n] => some n | _ => none }

theorem natCodec_collisionFree : MacCollisionFree natCodec := by
  intro key b b' h
  have h1 := congrArg String.toList h
  simp only [natCodec, String.toList_append, List.append_assoc, String.toList_ofList] at h1
  exact unary_inj _ _ (List.append_cancel_left (List.append_cancel_left (List.append_cancel_left h1)))

/-- a history with every kind of step. The adversary corrupts the payload, writes a junk tag, and
finally *replays* the complete old entry `(7, tag of 7)` over the newer `9`: the replayed tag is the MAC
of a message that was signed, so the history is `Unforgeable` — and the theorem's conclusion "a value
that was stored under `k`" (here the rolled-back `7`) is exactly what happens. -/
def histEx : List (Step Nat) :=
  [.set "k" 7, .tamper (.setCell "k" (.bytes [8])), .get "k", .crashSet "k" 7,
   .tamper (.setCell "k:hmac" (.str "")), .get "k", .set "k" 9,
   .tamper (.setCell "k" (.bytes [7])), .tamper (.setCell "k:hmac" (.str (natCodec.H "k" [7])))]

theorem histEx_unforgeable : Unforgeable natCodec histEx := by
  refine ⟨trivial, trivial, trivial, trivial, ?_, trivial, trivial, trivial, ?_, trivial⟩
  · intro key b _ ht
    have := congrArg String.length ht
    simp only [natCodec, String.length_append] at this
    have h4 : "mac:".length = 4 := by decide
    have h0 : "".length = 0 := by decide
    omega
  · intro key b hs ht
    have hk : key = "k" := (hmacKey_inj (k := "k") (k' := key) hs).symm
    subst hk
    have hb := natCodec_collisionFree _ _ _ ht
    subst hb
    exact ⟨7, by simp, rfl⟩

/-- a cacheable route gate with one target -/
def gateEx : NodeD := { (default : NodeD) with name := "g", kind := .route, targets := [.node "a"], cache := true }

/-- a key environment that is injective at the key of `(gateEx, [])` -/
def envEx : KeyEnv :=
  { defHash := fun _ => "h"
    hash := fun K =>
      if K = (({ defHash := "h", cls := "RouteNode", outputs := [], targets := [.node "a"],
                 fallback := none } : Ident), ([] : AL Val)) then "0" else "1" }

/-- gates decide `d` and output nothing; other nodes output nothing -/
def execEx (d : Dec) : NodeD → AL Val → NodeOut := fun nd _ =>
  if nd.isGate then { res := .ok [], dec := some d } else { res := .ok [] }

theorem envEx_inj : ∀ K', envEx.hash K' = envEx.hash (cacheKey (identOf envEx gateEx) (toParams gateEx [])) →
    K' = cacheKey (identOf envEx gateEx) (toParams gateEx []) := by
  intro K' h
  have h0 : envEx.hash (cacheKey (identOf envEx gateEx) (toParams gateEx [])) = "0" := by decide
  rw [h0] at h
  simp only [envEx] at h
  split at h
  · rename_i e; rw [e]; decide
  · exact absurd h (by decide)

theorem execEx_respects (d : Dec) : ExecRespectsKey envEx (execEx d) := by
  intro nd nd' i i' h
  have := isGate_of_ident (congrArg Prod.fst h)
  simp [execEx, this]

theorem execEx_gateOnly (d : Dec) : GateOnlyDec (execEx d) := by
  intro nd inputs h; simp [execEx, h]

theorem execEx_noKey (d : Dec) : NoInternalKey (execEx d) := by
  intro nd inputs outs h
  have : outs = [] := by
    simp only [execEx] at h
    split at h <;> (injection h with h; exact h.symm)
  subst this; rfl

/-! ### renamed nodes: `f` and `f.with_inputs(x='y', y='x')` -/

/-- a cacheable function node `f(x, y)` producing `r` -/
def fEx : NodeD :=
  { (default : NodeD) with name := "f", kind := .fn, inputs := ["x", "y"], dataOuts := ["r"], cache := true }

/-- `f.with_inputs(x='y', y='x')`: same function, same outputs and targets; the value arriving under the
current name `x` is the function's parameter `y` and vice versa -/
def gEx : NodeD := { fEx with name := "f_swapped", origIn := [("x", "y"), ("y", "x")] }

/-- `{x: 5, y: 2}` -/
def insEx : AL Val := [("x", .int 5), ("y", .int 2)]

/-- the identity shared by `fEx` and `gEx` when both report the definition hash `"h"` -/
def identSw : Ident :=
  { defHash := "h", cls := "FunctionNode", outputs := ["r"], targets := [], fallback := none }

/-- a key environment in which every node reports the definition hash `"h"` (as `fEx` and `gEx` do in
the library: renaming does not change `definition_hash`), injective at the two keys `f(x=5, y=2)` and
`f(x=2, y=5)` -/
def envSw : KeyEnv :=
  { defHash := fun _ => "h"
    hash := fun K =>
      if K = (identSw, ([("x", .int 5), ("y", .int 2)] : AL Val)) then "k52"
      else if K = (identSw, ([("x", .int 2), ("y", .int 5)] : AL Val)) then "k25"
      else "other" }

/-- an executor that is not symmetric in its arguments: every node outputs, under `r`, the value its
function receives for the *parameter* `x` (so `f(5, 2) ↦ 5`, `f(2, 5) ↦ 2`) -/
def execFst : NodeD → AL Val → NodeOut := fun nd i =>
  { res := .ok [("r", (AL.get? (sortInputs (toParams nd i)) "x").getD Val.none)] }

theorem execFst_respects (env : KeyEnv) : ExecRespectsKey env execFst := by
  intro nd nd' i i' h
  have h2 : sortInputs (toParams nd i) = sortInputs (toParams nd' i') := congrArg Prod.snd h
  simp [execFst, h2]

theorem execFst_gateOnly : GateOnlyDec execFst := by
  intro nd inputs _; rfl

theorem execFst_noKey : NoInternalKey execFst := by
  intro nd inputs outs h
  have : outs = [("r", (AL.get? (sortInputs (toParams nd inputs)) "x").getD Val.none)] := by
    simp only [execFst] at h
    injection h with h; exact h.symm
  subst this
  have : ¬ routingKey = "r" := by decide
  simp [AL.has, AL.get?, this]

theorem envSw_hash_k52 {K : Key} (h : envSw.hash K = "k52") :
    K = (identSw, ([("x", .int 5), ("y", .int 2)] : AL Val)) := by
  simp only [envSw] at h
  split at h
  · assumption
  · split at h <;> exact absurd h (by decide)

theorem envSw_hash_k25 {K : Key} (h : envSw.hash K = "k25") :
    K = (identSw, ([("x", .int 2), ("y", .int 5)] : AL Val)) := by
  simp only [envSw] at h
  split at h
  · exact absurd h (by decide)
  · split at h
    · assumption
    · exact absurd h (by decide)

/-- `envSw` is injective at the key of the swapped node on `{x: 5, y: 2}` (which is `f(x=2, y=5)`) -/
theorem envSw_inj_g : ∀ K', envSw.hash K' = envSw.hash (cacheKey (identOf envSw gEx) (toParams gEx insEx)) →
    K' = cacheKey (identOf envSw gEx) (toParams gEx insEx) := by
  intro K' h
  have h0 : envSw.hash (cacheKey (identOf envSw gEx) (toParams gEx insEx)) = "k25" := by decide
  rw [h0] at h
  rw [envSw_hash_k25 h]; decide

/-- the cache left behind by executing `fEx` on `{x: 5, y: 2}` is sound -/
theorem envSw_sound :
    CacheSound envSw execFst { maxSize := none, data := [("k52", [("r", .int 5)])] } := by
  intro nd inputs entry _ hg
  simp only [AL.get?] at hg
  split at hg
  · rename_i hk
    have hK := envSw_hash_k52 (K := cacheKey (identOf envSw nd) (toParams nd inputs)) hk
    have h2 : sortInputs (toParams nd inputs) = [("x", .int 5), ("y", .int 2)] := congrArg Prod.snd hK
    have he : entry = [("r", .int 5)] := (Option.some.inj hg).symm
    subst he
    refine ⟨[("r", .int 5)], none, by simp [execFst, h2, outcome, AL.get?], ?_⟩
    cases hgate : nd.isGate <;> simp [toCache, hgate]
  · cases hg

end Fixtures

end HG.Cache
