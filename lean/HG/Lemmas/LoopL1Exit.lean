import HG.Lemmas.LoopL1
/-! # HG.Lemmas.LoopL1Exit — loop family L1, body length 1, EXIT-NODE variant

`b1(x) -> x`, if/else `gate(x) -> b1 | done`, `done(x) -> out`. The loop's exit edge leads to a
node instead of END: one more superstep, in which `done` consumes the final loop variable. -/
set_option linter.unusedSimpArgs false
namespace HG.L1X
open HG.L1 (mkNode b1 xs ex xs_eq_repeat bLog Fi ci)

def gate (dopen : Bool) : NodeD := mkNode "gate" .ifelse ["x"] [] [.node "b1", .node "done"] dopen [] []
def done : NodeD := mkNode "done" .fn ["x"] ["out"] [] true [] []

def L1 (dopen : Bool) (es : List Edge) (sp : InputSpec) : GraphD :=
  { name := "L1X", nodes := [b1, gate dopen, done], bound := [], selected := .none, entrypoints := .none
    edges := es, spec := { sp with bound := [] } }

variable (F : Val → Val) (c : Val → Bool) (Dv : Val → Val) (x0 : Val)

def G (i : Nat) : GState :=
  match i with
  | 0 => { values := [("x", x0)], versions := [("x", 1)], execs := [], decisions := [] }
  | j + 1 => { values := [("x", xs F x0 (j + 1))], versions := [("x", j + 2)]
               execs := [("gate", ex (j + 1)), ("b1", ex (j + 1))], decisions := [("gate", .one "b1")] }

def Gc (i : Nat) : GState := { G F x0 i with decisions := [] }

def A (d : Dec) (i : Nat) : GState :=
  match i with
  | 0 => { values := [("x", x0)], versions := [("x", 1)], execs := [("gate", ex 1)], decisions := [("gate", d)] }
  | j + 1 => { values := [("x", xs F x0 (j + 1))], versions := [("x", j + 2)]
               execs := [("gate", ex (j + 2)), ("b1", ex (j + 1))], decisions := [("gate", d)] }

abbrev B (i : Nat) : GState := A F x0 (.one "b1") i
/-- after the gate chose the exit node -/
abbrev E (i : Nat) : GState := A F x0 (.one "done") i

/-- after the exit node ran -/
def D (i : Nat) : GState :=
  match i with
  | 0 => { values := [("x", x0), ("out", Dv x0)], versions := [("x", 1), ("out", 1)]
           execs := [("gate", ex 1), ("done", ex 1)], decisions := [("gate", .one "done")] }
  | j + 1 => { values := [("x", xs F x0 (j + 1)), ("out", Dv (xs F x0 (j + 1)))], versions := [("x", j + 2), ("out", 1)]
               execs := [("gate", ex (j + 2)), ("b1", ex (j + 1)), ("done", ex (j + 2))]
               decisions := [("gate", .one "done")] }

theorem init_eq : initState [("x", x0)] = G F x0 0 := by
  simp [initState, GState.applyOutputs, GState.updateValue, GState.bumps, GState.ver, AL.put, AL.get?, G]

section ready
variable (dopen : Bool) (es : List Edge) (sp : InputSpec)

theorem ready_G (i : Nat) : ready (L1 dopen es sp) .none (G F x0 i) = ([gate dopen], Gc F x0 i) := by
  cases i <;> cases dopen <;>
  simp [ready, clearStale, L1, b1, gate, done, mkNode, G, Gc, ex, NodeD.isGate, NodeD.targetNames, NodeD.outputs,
    isReady, activated, controlledBy, findNode, needsExec, isStale, isGated, selfProduces, hasInput,
    waitForSatisfied, blockedTargets, deferWaitFor, AL.has, AL.get?, AL.del, GState.ver, decisionNames]

theorem ready_B (i : Nat) : ready (L1 dopen es sp) .none (B F x0 i) = ([b1], B F x0 i) := by
  cases i <;> cases dopen <;>
  simp [ready, clearStale, L1, b1, gate, done, mkNode, A, ex, NodeD.isGate, NodeD.targetNames, NodeD.outputs,
    isReady, activated, controlledBy, findNode, needsExec, isStale, isGated, selfProduces, hasInput,
    waitForSatisfied, blockedTargets, deferWaitFor, AL.has, AL.get?, AL.del, GState.ver, decisionNames]

theorem ready_E (i : Nat) : ready (L1 dopen es sp) .none (E F x0 i) = ([done], E F x0 i) := by
  cases i <;> cases dopen <;>
  simp [ready, clearStale, L1, b1, gate, done, mkNode, A, ex, NodeD.isGate, NodeD.targetNames, NodeD.outputs,
    isReady, activated, controlledBy, findNode, needsExec, isStale, isGated, selfProduces, hasInput,
    waitForSatisfied, blockedTargets, deferWaitFor, AL.has, AL.get?, AL.del, GState.ver, decisionNames]

theorem ready_D (i : Nat) : ready (L1 dopen es sp) .none (D F Dv x0 i) = ([], D F Dv x0 i) := by
  cases i <;> cases dopen <;>
  simp [ready, clearStale, L1, b1, gate, done, mkNode, D, ex, NodeD.isGate, NodeD.targetNames, NodeD.outputs,
    isReady, activated, controlledBy, findNode, needsExec, isStale, isGated, selfProduces, hasInput,
    waitForSatisfied, blockedTargets, deferWaitFor, AL.has, AL.get?, AL.del, GState.ver, decisionNames]
end ready

structure SemL1 (sem : Sem) (dopen : Bool) : Prop where
  hb : ∀ v, sem b1 [("x", v)] = .val (F v)
  hg : ∀ v, sem (gate dopen) [("x", v)] = .val (.bool (c v))
  hd : ∀ v, sem done [("x", v)] = .val (Dv v)

def gLog (gi : Nat) (span : Span) (k : Nat) (dopen : Bool) (v : Val) (d : Dec) : List Log :=
  [.ev { kind := "NodeStart", span := nodeSpanOf span k (gate dopen), parent := some span, name := "gate" },
   .call (fnId gi (gate dopen)) [("x", v)],
   .ev { kind := "RouteDecision", span := span ++ ["gate" ++ "!route#" ++ toString k], parent := some span,
         name := "gate", info := decToString d },
   .ev { kind := "NodeEnd", span := nodeSpanOf span k (gate dopen), parent := some span, name := "gate" }]

def dLog (gi : Nat) (span : Span) (k : Nat) (v : Val) : List Log :=
  [.ev { kind := "NodeStart", span := nodeSpanOf span k done, parent := some span, name := "done" },
   .call (fnId gi done) [("x", v)],
   .ev { kind := "NodeEnd", span := nodeSpanOf span k done, parent := some span, name := "done" }]

section step
variable (nested : Nested) (sem : Sem) (gi : Nat) (span : Span) (dopen : Bool) (es : List Edge) (sp : InputSpec)
variable (hs : SemL1 F c Dv sem dopen)
include hs

theorem step_G (k i : Nat) :
    stepSync nested sem gi (L1 dopen es sp) span k (Gc F x0 i) [gate dopen] (Gc F x0 i) [] =
      .ok (if c (xs F x0 i) then B F x0 i else E F x0 i)
        (gLog gi span k dopen (xs F x0 i) (if c (xs F x0 i) then .one "b1" else .one "done")) := by
  have hg := hs.hg
  simp only [gate, mkNode] at hg
  cases i with
  | zero =>
    cases h : c (xs F x0 0) <;> simp only [xs] at h <;>
    simp [stepSync, collectInputs, resolveInput, valueSource, execNode, execIfElse, toParams, gate, mkNode,
      L1, Gc, G, A, ex, recordExec, GState.applyOutputs, routeEvent, NodeD.isGate, gLog, AL.get?, AL.put,
      GState.ver, Target.toDec, hg, h, xs, nodeSpanOf]
  | succ j =>
    cases h : c (xs F x0 (j + 1)) <;> simp only [xs] at h <;>
    simp [stepSync, collectInputs, resolveInput, valueSource, execNode, execIfElse, toParams, gate, mkNode,
      L1, Gc, G, A, ex, recordExec, GState.applyOutputs, routeEvent, NodeD.isGate, gLog, AL.get?, AL.put,
      GState.ver, Target.toDec, hg, h, xs, nodeSpanOf]

theorem step_B (k i : Nat) (hprog : Val.changed (xs F x0 i) (xs F x0 (i + 1)) = true) :
    stepSync nested sem gi (L1 dopen es sp) span k (B F x0 i) [b1] (B F x0 i) [] =
      .ok (G F x0 (i + 1)) (bLog gi span k (xs F x0 i)) := by
  have hb := hs.hb
  simp only [b1, mkNode] at hb
  have h' : Val.changed (xs F x0 i) (F (xs F x0 i)) = true := by simpa [xs] using hprog
  cases i <;>
  simp_all [stepSync, collectInputs, resolveInput, valueSource, execNode, execFn, toParams, b1, mkNode,
      L1, G, A, ex, recordExec, GState.applyOutputs, GState.updateValue, GState.bumps, routeEvent,
      NodeD.isGate, bLog, AL.get?, AL.put, AL.merge, wrapOutputs,
      GState.ver, xs, nodeSpanOf]

theorem step_E (k i : Nat) :
    stepSync nested sem gi (L1 dopen es sp) span k (E F x0 i) [done] (E F x0 i) [] =
      .ok (D F Dv x0 i) (dLog gi span k (xs F x0 i)) := by
  have hd := hs.hd
  simp only [done, mkNode] at hd
  cases i <;>
  simp_all [stepSync, collectInputs, resolveInput, valueSource, execNode, execFn, toParams, done, mkNode,
      L1, D, A, ex, recordExec, GState.applyOutputs, GState.updateValue, GState.bumps, routeEvent,
      NodeD.isGate, dLog, AL.get?, AL.put, AL.merge, wrapOutputs,
      GState.ver, xs, nodeSpanOf]

abbrev stepFn : Nat → GState → List NodeD → StepOut :=
  fun k s rs => stepSync nested sem gi (L1 dopen es sp) span k s rs s []

theorem loop_G_succ (mi f k i : Nat) (log : List Log) :
    runLoop (stepFn nested sem gi span dopen es sp) (L1 dopen es sp) .none mi (f + 1) k (G F x0 i) log =
      runLoop (stepFn nested sem gi span dopen es sp) (L1 dopen es sp) .none mi f (k + 1)
        (if c (xs F x0 i) then B F x0 i else E F x0 i)
        (log ++ gLog gi span k dopen (xs F x0 i) (if c (xs F x0 i) then .one "b1" else .one "done")) := by
  rw [runLoop_succ_cons _ _ _ _ _ _ _ _ (by rw [ready_G]; simp)]
  simp only [ready_G, stepFn, step_G F c Dv x0 nested sem gi span dopen es sp hs]

theorem loop_B_succ (mi f k i : Nat) (log : List Log) (hprog : Val.changed (xs F x0 i) (xs F x0 (i + 1)) = true) :
    runLoop (stepFn nested sem gi span dopen es sp) (L1 dopen es sp) .none mi (f + 1) k (B F x0 i) log =
      runLoop (stepFn nested sem gi span dopen es sp) (L1 dopen es sp) .none mi f (k + 1)
        (G F x0 (i + 1)) (log ++ bLog gi span k (xs F x0 i)) := by
  rw [runLoop_succ_cons _ _ _ _ _ _ _ _ (by rw [ready_B]; simp)]
  simp only [ready_B, stepFn, step_B F c Dv x0 nested sem gi span dopen es sp hs k i hprog]

theorem loop_E_succ (mi f k i : Nat) (log : List Log) :
    runLoop (stepFn nested sem gi span dopen es sp) (L1 dopen es sp) .none mi (f + 1) k (E F x0 i) log =
      runLoop (stepFn nested sem gi span dopen es sp) (L1 dopen es sp) .none mi f (k + 1)
        (D F Dv x0 i) (log ++ dLog gi span k (xs F x0 i)) := by
  rw [runLoop_succ_cons _ _ _ _ _ _ _ _ (by rw [ready_E]; simp)]
  simp only [ready_E, stepFn, step_E F c Dv x0 nested sem gi span dopen es sp hs k i]

omit hs in
theorem loop_D (mi f k i : Nat) (log : List Log) :
    runLoop (stepFn nested sem gi span dopen es sp) (L1 dopen es sp) .none mi f k (D F Dv x0 i) log =
      .done (D F Dv x0 i) log k := by
  cases f with
  | zero => rw [runLoop_zero, ready_D]; simp
  | succ f => rw [runLoop_succ_nil _ _ _ _ _ _ _ _ (by rw [ready_D])]; rw [ready_D]

omit hs in
theorem loop_G_zero (mi k i : Nat) (log : List Log) :
    runLoop (stepFn nested sem gi span dopen es sp) (L1 dopen es sp) .none mi 0 k (G F x0 i) log =
      .fail (.infiniteLoop mi) (Gc F x0 i) log k := by
  rw [runLoop_zero, ready_G]; simp

omit hs in
theorem loop_B_zero (mi k i : Nat) (log : List Log) :
    runLoop (stepFn nested sem gi span dopen es sp) (L1 dopen es sp) .none mi 0 k (B F x0 i) log =
      .fail (.infiniteLoop mi) (B F x0 i) log k := by
  rw [runLoop_zero, ready_B]; simp

omit hs in
theorem loop_E_zero (mi k i : Nat) (log : List Log) :
    runLoop (stepFn nested sem gi span dopen es sp) (L1 dopen es sp) .none mi 0 k (E F x0 i) log =
      .fail (.infiniteLoop mi) (E F x0 i) log k := by
  rw [runLoop_zero, ready_E]; simp
end step

theorem calls_gLog (gi : Nat) (span : Span) (dopen : Bool) (k : Nat) (v : Val) (d : Dec) :
    callsOf (fnId gi b1) (gLog gi span k dopen v d) = 0 ∧
    callsOf (fnId gi (gate dopen)) (gLog gi span k dopen v d) = 1 ∧
    callsOf (fnId gi done) (gLog gi span k dopen v d) = 0 := by
  simp [callsOf, gLog, Log.isCallOf, fnId, b1, gate, done, mkNode]

theorem calls_bLog (gi : Nat) (span : Span) (dopen : Bool) (k : Nat) (v : Val) :
    callsOf (fnId gi b1) (bLog gi span k v) = 1 ∧
    callsOf (fnId gi (gate dopen)) (bLog gi span k v) = 0 ∧
    callsOf (fnId gi done) (bLog gi span k v) = 0 := by
  simp [callsOf, bLog, Log.isCallOf, fnId, b1, gate, done, mkNode]

theorem calls_dLog (gi : Nat) (span : Span) (dopen : Bool) (k : Nat) (v : Val) :
    callsOf (fnId gi b1) (dLog gi span k v) = 0 ∧
    callsOf (fnId gi (gate dopen)) (dLog gi span k v) = 0 ∧
    callsOf (fnId gi done) (dLog gi span k v) = 1 := by
  simp [callsOf, dLog, Log.isCallOf, fnId, b1, gate, done, mkNode]

theorem values_Gc (i : Nat) : (Gc F x0 i).values = [("x", xs F x0 i)] := by cases i <;> simp [Gc, G, xs]
theorem values_A (d : Dec) (i : Nat) : (A F x0 d i).values = [("x", xs F x0 i)] := by cases i <;> simp [A, xs]

section main
variable (nested : Nested) (sem : Sem) (gi : Nat) (span : Span) (dopen : Bool) (es : List Edge) (sp : InputSpec)
variable (hs : SemL1 F c Dv sem dopen)
include hs

/-- from `G i` with `d = n - i` iterations to go: exactly `2*d+2` supersteps are needed -/
theorem loop_from (mi n : Nat)
    (hc : ∀ j, j < n → c (xs F x0 j) = true) (hn : c (xs F x0 n) = false)
    (hprog : ∀ j, j < n → Val.changed (xs F x0 j) (xs F x0 (j + 1)) = true) :
    ∀ (d i fuel k : Nat) (log : List Log), i + d = n →
      (2 * d + 2 ≤ fuel → ∃ lg,
        runLoop (stepFn nested sem gi span dopen es sp) (L1 dopen es sp) .none mi fuel k (G F x0 i) log =
          .done (D F Dv x0 n) (log ++ lg) (k + (2 * d + 2)) ∧
        callsOf (fnId gi b1) lg = d ∧ callsOf (fnId gi (gate dopen)) lg = d + 1 ∧ callsOf (fnId gi done) lg = 1) ∧
      (fuel < 2 * d + 2 → ∃ s' lg,
        runLoop (stepFn nested sem gi span dopen es sp) (L1 dopen es sp) .none mi fuel k (G F x0 i) log =
          .fail (.infiniteLoop mi) s' (log ++ lg) (k + fuel) ∧ s'.values = [("x", xs F x0 (i + fuel / 2))]) := by
  intro d
  induction d with
  | zero =>
    intro i fuel k log hi
    have : i = n := by omega
    subst this
    refine ⟨fun hf => ?_, fun hf => ?_⟩
    · obtain ⟨f, rfl⟩ : ∃ f, fuel = f + 1 + 1 := ⟨fuel - 2, by omega⟩
      rw [loop_G_succ F c Dv x0 nested sem gi span dopen es sp hs, hn]
      simp only [Bool.false_eq_true, if_false]
      rw [loop_E_succ F c Dv x0 nested sem gi span dopen es sp hs, loop_D]
      refine ⟨gLog gi span k dopen (xs F x0 i) (.one "done") ++ dLog gi span (k + 1) (xs F x0 i), ?_, ?_, ?_, ?_⟩
      · simp only [List.append_assoc]
      · rw [callsOf_append, (calls_gLog gi span dopen k _ _).1, (calls_dLog gi span dopen (k + 1) _).1]
      · rw [callsOf_append, (calls_gLog gi span dopen k _ _).2.1, (calls_dLog gi span dopen (k + 1) _).2.1]
      · rw [callsOf_append, (calls_gLog gi span dopen k _ _).2.2, (calls_dLog gi span dopen (k + 1) _).2.2]
    · cases fuel with
      | zero => exact ⟨Gc F x0 i, [], by rw [loop_G_zero]; simp, by simpa using values_Gc F x0 i⟩
      | succ f =>
        have : f = 0 := by omega
        subst this
        rw [loop_G_succ F c Dv x0 nested sem gi span dopen es sp hs, hn]
        simp only [Bool.false_eq_true, if_false]
        exact ⟨E F x0 i, _, by rw [loop_E_zero], by simpa using values_A F x0 _ i⟩
  | succ d ih =>
    intro i fuel k log hi
    have hci := hc i (by omega)
    have hpi := hprog i (by omega)
    cases fuel with
    | zero =>
      exact ⟨fun hf => by omega, fun _ => ⟨Gc F x0 i, [], by rw [loop_G_zero]; simp, by simpa using values_Gc F x0 i⟩⟩
    | succ f =>
      rw [loop_G_succ F c Dv x0 nested sem gi span dopen es sp hs, hci]
      simp only [if_true]
      cases f with
      | zero =>
        exact ⟨fun hf => by omega, fun _ => ⟨B F x0 i, _, by rw [loop_B_zero], by simpa using values_A F x0 _ i⟩⟩
      | succ f' =>
        rw [loop_B_succ F c Dv x0 nested sem gi span dopen es sp hs _ _ _ _ _ hpi]
        obtain ⟨ih1, ih2⟩ := ih (i + 1) f' (k + 1 + 1)
          (log ++ gLog gi span k dopen (xs F x0 i) (.one "b1") ++ bLog gi span (k + 1) (xs F x0 i)) (by omega)
        refine ⟨fun hf => ?_, fun hf => ?_⟩
        · obtain ⟨lg, h1, h2, h3, h4⟩ := ih1 (by omega)
          refine ⟨gLog gi span k dopen (xs F x0 i) (.one "b1") ++ bLog gi span (k + 1) (xs F x0 i) ++ lg, ?_, ?_, ?_, ?_⟩
          · rw [h1]; simp only [List.append_assoc]; congr 1; omega
          · rw [callsOf_append, callsOf_append, h2, (calls_gLog gi span dopen k _ _).1,
              (calls_bLog gi span dopen (k + 1) _).1]; omega
          · rw [callsOf_append, callsOf_append, h3, (calls_gLog gi span dopen k _ _).2.1,
              (calls_bLog gi span dopen (k + 1) _).2.1]; omega
          · rw [callsOf_append, callsOf_append, h4, (calls_gLog gi span dopen k _ _).2.2,
              (calls_bLog gi span dopen (k + 1) _).2.2]
        · obtain ⟨s', lg, h1, h2⟩ := ih2 (by omega)
          refine ⟨s', gLog gi span k dopen (xs F x0 i) (.one "b1") ++ bLog gi span (k + 1) (xs F x0 i) ++ lg, ?_, ?_⟩
          · rw [h1]; simp only [List.append_assoc]; congr 1; omega
          · rw [h2]
            have e2 : i + (f' + 1 + 1) / 2 = i + 1 + f' / 2 := by omega
            rw [e2]
end main

def semEx (m : Int) : Sem := fun nd args =>
  match args with
  | [(_, v)] => if nd.name = "b1" then .val (Fi v) else if nd.name = "gate" then .val (.bool (ci m v))
                else .val (Val.mkTup [.str "done", v])
  | _ => .val .none

theorem semEx_ok (m : Int) (dopen : Bool) :
    SemL1 Fi (ci m) (fun v => Val.mkTup [.str "done", v]) (semEx m) dopen :=
  ⟨fun v => by simp [semEx, b1, mkNode], fun v => by simp [semEx, gate, mkNode],
   fun v => by simp [semEx, done, mkNode]⟩

end HG.L1X
