import HG.Lemmas.NestBasic
/-! # HG.Lemmas.NestNode — helpers for C05, part 2: a nested-graph node is a function node

`collectInputs` in closed form, the name maps of `elabGraphNode`, and `inner_run_spec`: the nested run
of an acyclic gate-free inner graph of function nodes on a complete input dict completes, and its values
are the inner fixed point, independent of the span. -/
namespace HG.Nest
open HG HG.C01 HG.Intr

/-! ## `collectInputs` in closed form -/

theorem collectInputs_eq_map (g : GraphD) (s : GState) (nd : NodeD) :
    ∀ (ps : List Name) (args : AL Val), collectInputs g s nd ps = some args →
      args = ps.map (fun p => (p, (resolveInput g s nd p).getD Val.none)) ∧
      ∀ p ∈ ps, ∃ v, resolveInput g s nd p = some v := by
  intro ps
  induction ps with
  | nil => intro args h; simp [collectInputs] at h; subst h; exact ⟨rfl, fun _ h => by cases h⟩
  | cons p ps ih =>
    intro args h
    unfold collectInputs at h
    cases hr : resolveInput g s nd p with
    | none => simp [hr] at h
    | some v =>
      cases hc : collectInputs g s nd ps with
      | none => simp [hr, hc] at h
      | some rest =>
        simp only [hr, hc, Option.some.injEq] at h
        obtain ⟨h1, h2⟩ := ih rest hc
        subst h
        refine ⟨by rw [List.map_cons, hr, ← h1]; rfl, ?_⟩
        intro q hq
        rcases List.mem_cons.1 hq with e | e
        · subst e; exact ⟨v, hr⟩
        · exact h2 q e

theorem collectInputs_keys {g : GraphD} {s : GState} {nd : NodeD} {ps : List Name} {args : AL Val}
    (h : collectInputs g s nd ps = some args) : AL.keys args = ps := by
  rw [(collectInputs_eq_map g s nd ps args h).1]
  unfold AL.keys; rw [List.map_map]
  have : ((fun x : Name × Val => x.1) ∘ fun p => (p, (resolveInput g s nd p).getD Val.none)) = id := rfl
  rw [this, List.map_id]

theorem collectInputs_get? {g : GraphD} {s : GState} {nd : NodeD} {ps : List Name} {args : AL Val}
    (h : collectInputs g s nd ps = some args) {p : Name} (hp : p ∈ ps) :
    AL.get? args p = resolveInput g s nd p := by
  obtain ⟨h1, h2⟩ := collectInputs_eq_map g s nd ps args h
  obtain ⟨v, hv⟩ := h2 p hp
  rw [h1, get?_map_pair, if_pos hp, hv]; rfl

/-- without bound values and inner bound values a resolved input is the state's value, else the node's
signature default -/
theorem resolveInput_nobound {g : GraphD} {s : GState} {nd : NodeD} (hb : g.spec.bound = [])
    (hib : nd.innerBound = []) (p : Name) :
    resolveInput g s nd p = (AL.get? s.values p).or (AL.get? nd.sigDefaults p) := by
  rw [resolveInput_eq_or, hb, hib]
  cases AL.get? s.values p <;> cases AL.get? nd.sigDefaults p <;> rfl

/-! ## the name maps of `elabGraphNode` -/

theorem renameOf_nil (p : Name) : renameOf [] p = p := rfl

theorem elabGraphNode_dataOuts (s : NodeSpec) (I : GraphD) :
    (elabGraphNode s I).dataOuts = (exposed I).map (renameOf s.outRen) := by
  unfold elabGraphNode exposed; rfl

theorem elabGraphNode_origOut (s : NodeSpec) (I : GraphD) :
    (elabGraphNode s I).origOut = (exposed I).map fun o => (o, renameOf s.outRen o) := by
  unfold elabGraphNode exposed; rfl

theorem elabGraphNode_inputs (s : NodeSpec) (I : GraphD) :
    (elabGraphNode s I).inputs = I.spec.all.map (renameOf s.inRen) := rfl

theorem elabGraphNode_origIn (s : NodeSpec) (I : GraphD) :
    (elabGraphNode s I).origIn = I.spec.all.map fun p => (renameOf s.inRen p, p) := rfl

theorem elabGraphNode_outputs (s : NodeSpec) (I : GraphD) :
    (elabGraphNode s I).outputs = (exposed I).map (renameOf s.outRen) := by
  unfold NodeD.outputs; rw [elabGraphNode_dataOuts]; simp [elabGraphNode]

/-- the wrapper renames an exposed inner output through `outRen` -/
theorem outRenOf_elab (s : NodeSpec) (I : GraphD) {o : Name} (ho : o ∈ exposed I) :
    outRenOf (elabGraphNode s I) o = renameOf s.outRen o := by
  unfold outRenOf
  rw [elabGraphNode_origOut, get?_map_pair, if_pos ho]; rfl

theorem inj_of_nodup_map {α β} (f : α → β) (l : List α) (h : (l.map f).Nodup) :
    ∀ a ∈ l, ∀ b ∈ l, f a = f b → a = b :=
  fun a ha b hb e => mem_unique_of_nodup_map f l h a ha b hb e

/-- the wrapper maps a current input name back to the inner name -/
theorem origIn_elab (s : NodeSpec) (I : GraphD) (hinj : (I.spec.all.map (renameOf s.inRen)).Nodup)
    {p : Name} (hp : p ∈ I.spec.all) :
    (AL.get? (elabGraphNode s I).origIn (renameOf s.inRen p)).getD (renameOf s.inRen p) = p := by
  rw [elabGraphNode_origIn]
  have := get?_map_inj I.spec.all (renameOf s.inRen) id p
    (fun k hk e => inj_of_nodup_map _ _ hinj k hk p hp e)
  simp only [id] at this
  rw [this, if_pos hp]; rfl

/-- `map_inputs_to_params` on a complete input dict: keys become the inner input names, values unchanged -/
theorem toParams_elab (s : NodeSpec) (I : GraphD) (hinj : (I.spec.all.map (renameOf s.inRen)).Nodup)
    (inputs : AL Val) (hk : AL.keys inputs = (elabGraphNode s I).inputs) :
    AL.keys (toParams (elabGraphNode s I) inputs) = I.spec.all ∧
    (toParams (elabGraphNode s I) inputs).map (·.2) = inputs.map (·.2) ∧
    ∀ p ∈ I.spec.all, AL.get? (toParams (elabGraphNode s I) inputs) p = AL.get? inputs (renameOf s.inRen p) := by
  rw [elabGraphNode_inputs] at hk
  -- generalise over the list of inner names
  have key : ∀ (ps : List Name) (inp : AL Val), AL.keys inp = ps.map (renameOf s.inRen) →
      (∀ p ∈ ps, p ∈ I.spec.all) →
      AL.keys (toParams (elabGraphNode s I) inp) = ps ∧
      ∀ p ∈ I.spec.all, AL.get? (toParams (elabGraphNode s I) inp) p = AL.get? inp (renameOf s.inRen p) := by
    intro ps
    induction ps with
    | nil =>
      intro inp h _
      cases inp with
      | nil => exact ⟨rfl, fun _ _ => rfl⟩
      | cons x t => simp [AL.keys] at h
    | cons q qs ih =>
      intro inp h hsub
      cases inp with
      | nil => simp [AL.keys] at h
      | cons x t =>
        obtain ⟨c, v⟩ := x
        simp only [AL.keys, List.map_cons, List.cons.injEq] at h
        obtain ⟨hc, ht⟩ := h
        subst hc
        have hq : q ∈ I.spec.all := hsub q List.mem_cons_self
        obtain ⟨ih1, ih2⟩ := ih t ht (fun p hp => hsub p (List.mem_cons_of_mem _ hp))
        have ho := origIn_elab s I hinj hq
        refine ⟨?_, ?_⟩
        · simp only [toParams, AL.keys, List.map_cons, ho]
          congr 1
        · intro p hp
          simp only [toParams, List.map_cons, ho, AL.get?]
          by_cases e : p = q
          · subst e; simp
          · have e' : renameOf s.inRen p ≠ renameOf s.inRen q :=
              fun h => e (inj_of_nodup_map _ _ hinj p hp q hq h)
            simp only [e, e', if_false]
            exact ih2 p hp
  obtain ⟨h1, h2⟩ := key I.spec.all inputs hk (fun _ h => h)
  refine ⟨h1, ?_, h2⟩
  unfold toParams; rw [List.map_map]; rfl

/-! ## the nested run of an inner DAG of function nodes -/

/-- node functions never return the emit sentinel (it is a private object of the library), and no node of the
graph has emit outputs -/
def NoSentinel (sem : Sem) (g : GraphD) : Prop :=
  ∀ nd ∈ g.nodes, ∀ args v outs, sem nd args = .val v → wrapOutputs nd v = some outs →
    ∀ o w, AL.get? outs o = some w → w ≠ Val.sentinel

/-- the inner graph's declared inputs are exactly what its nodes need from outside -/
structure InnerOK (I : GraphD) : Prop where
  complete : ∀ n ∈ I.nodes, ∀ p ∈ n.inputs, (∃ m ∈ I.nodes, p ∈ m.outputs) ∨ p ∈ I.spec.all
  disjoint : ∀ m ∈ I.nodes, ∀ o ∈ m.outputs, o ∉ I.spec.all
  sound : ∀ p ∈ I.spec.all, ∃ n ∈ I.nodes, p ∈ n.inputs

instance (I : GraphD) : Decidable (InnerOK I) :=
  if h : (∀ n ∈ I.nodes, ∀ p ∈ n.inputs, (∃ m ∈ I.nodes, p ∈ m.outputs) ∨ p ∈ I.spec.all) ∧
      (∀ m ∈ I.nodes, ∀ o ∈ m.outputs, o ∉ I.spec.all) ∧ (∀ p ∈ I.spec.all, ∃ n ∈ I.nodes, p ∈ n.inputs)
  then isTrue ⟨h.1, h.2.1, h.2.2⟩ else isFalse fun h' => h ⟨h'.complete, h'.disjoint, h'.sound⟩

theorem goodNodes_fn (nested : Nested) (sem : Sem) (gi : Nat) (g : GraphD) (hfn : AllFn g) (hs : SemTotal sem g) :
    GoodNodes nested sem sem gi g := by
  intro nd hn s args _ ns sp
  obtain ⟨v, hv, hw⟩ := outsOf_spec hs hn args
  exact execNode_fn_good nested sem sem gi nd args ns sp (hfn nd hn) rfl v hv hw

/-- the fixed point of an inner graph: names nobody writes hold the supplied value, every node holds its
function's result -/
def InnerFix (sem : Sem) (I : GraphD) (values : AL Val) (sI : GState) : Prop :=
  (∀ p, (∀ m ∈ I.nodes, p ∉ m.outputs) → AL.get? sI.values p = AL.get? (initState values).values p) ∧
  (∀ n ∈ I.nodes, Holds sem I sI n)

theorem innerFix_unique {sem : Sem} {I : GraphD} {level : Name → Nat} (hW : WFI I level) {values : AL Val}
    {s₁ s₂ : GState} (h₁ : InnerFix sem I values s₁) (h₂ : InnerFix sem I values s₂) :
    ∀ k, AL.get? s₁.values k = AL.get? s₂.values k :=
  holds_unique hW h₁.2 h₂.2 (fun p hp => by rw [h₁.1 p hp, h₂.1 p hp])

/-- the nested run of `I` on a dict providing exactly the inputs of `I`: completes, not raised, no pause; its
values are the data outputs of the fixed point, in `graph.outputs` order -/
theorem inner_run_spec_gen (sem : Sem) (prog : Program) (d gi : Nat) (I : GraphD) (level : Name → Nat)
    (hI : prog.getD gi default = I)
    (hW : WFI I level) (semI : Sem) (hgood : GoodNodes (nestedAt sem .sync prog d) sem semI gi I)
    (hs : SemTotal semI I) (hns : NoSentinel semI I) (hok : InnerOK I)
    (hsel : I.selected = .none) (hep : I.entrypoints = .none)
    (hfuel : I.nodes.length ≤ ({} : RunCfg).maxIter)
    (values : AL Val) (hkeys : ∀ k, AL.has values k = true ↔ k ∈ I.spec.all) (sp : Span) :
    ∃ sI, InnerFix semI I values sI ∧
      (∀ k ∈ graphOutputs I.nodes, ∃ v, AL.get? sI.values k = some v ∧ v ≠ Val.sentinel) ∧
      ((nestedAt sem .sync prog (d + 1)).run gi values sp).values =
        (graphOutputs I.nodes).map (fun k => (k, (AL.get? sI.values k).getD Val.none)) ∧
      ((nestedAt sem .sync prog (d + 1)).run gi values sp).raised = false ∧
      ((nestedAt sem .sync prog (d + 1)).run gi values sp).status = .completed ∧
      ((nestedAt sem .sync prog (d + 1)).run gi values sp).pause = .none := by
  have hfresh : ∀ m ∈ I.nodes, ∀ o ∈ m.outputs, AL.has values o = false := by
    intro m hm o ho
    cases h : AL.has values o with
    | false => rfl
    | true => exact absurd ((hkeys o).1 h) (hok.disjoint m hm o ho)
  have hcov : Covered I (initState values) := by
    intro n hn p hp
    rcases hok.complete n hn p hp with h | h
    · exact Or.inl h
    · right
      unfold hasInput; rw [initState_has, (hkeys p).2 h]; rfl
  obtain ⟨sI, log, n, hrun, hst, hholds, _⟩ :=
    sync_run_holds hW (nestedAt sem .sync prog d) sem semI hs gi (sp ++ ["run"])
      hgood values hfresh hcov ({} : RunCfg).maxIter hfuel
      [runStartEv (sp ++ ["run"]) (some sp) I ""]
  have hvals : ∀ k ∈ graphOutputs I.nodes, ∃ v, AL.get? sI.values k = some v ∧ v ≠ Val.sentinel := by
    intro k hk
    obtain ⟨nd, hnd, hko⟩ := (Spec.mem_graphOutputs _ _).1 hk
    obtain ⟨args, v, outs, _, hv, hw, hval⟩ := hholds nd hnd
    obtain ⟨w, hw'⟩ := (C01.has_eq_true_iff _ _).1 ((wrapOutputs_has hw k).2 hko)
    exact ⟨w, by rw [hval k hko, hw'], hns nd hnd _ v outs hv hw k w hw'⟩
  have hf := filterOutputs_all_eq_map I sI hsel .ignore hvals
  have hres := runGraph_of_done (nestedAt sem .sync prog d) sem gi I values {} (sp ++ ["run"]) (some sp) hep
    hrun hf
  refine ⟨sI, ⟨hst, hholds⟩, hvals, ?_, ?_, ?_, ?_⟩ <;> rw [nestedAt_run, hI, hres]

/-- the values of the nested run do not depend on the span -/
theorem inner_run_values_indep_gen (sem : Sem) (prog : Program) (d gi : Nat) (I : GraphD) (level : Name → Nat)
    (hI : prog.getD gi default = I)
    (hW : WFI I level) (semI : Sem) (hgood : GoodNodes (nestedAt sem .sync prog d) sem semI gi I)
    (hs : SemTotal semI I) (hns : NoSentinel semI I) (hok : InnerOK I)
    (hsel : I.selected = .none) (hep : I.entrypoints = .none)
    (hfuel : I.nodes.length ≤ ({} : RunCfg).maxIter)
    (values : AL Val) (hkeys : ∀ k, AL.has values k = true ↔ k ∈ I.spec.all) (sp sp' : Span) :
    ((nestedAt sem .sync prog (d + 1)).run gi values sp).values =
      ((nestedAt sem .sync prog (d + 1)).run gi values sp').values := by
  obtain ⟨s₁, hf₁, _, hv₁, _⟩ := inner_run_spec_gen sem prog d gi I level hI hW semI hgood hs hns hok hsel hep hfuel values hkeys sp
  obtain ⟨s₂, hf₂, _, hv₂, _⟩ := inner_run_spec_gen sem prog d gi I level hI hW semI hgood hs hns hok hsel hep hfuel values hkeys sp'
  rw [hv₁, hv₂]
  apply List.map_congr_left
  intro k _
  rw [innerFix_unique hW hf₁ hf₂ k]

/-- `inner_run_spec_gen` for an inner graph of function nodes -/
theorem inner_run_spec (sem : Sem) (prog : Program) (d gi : Nat) (I : GraphD) (level : Name → Nat)
    (hI : prog.getD gi default = I)
    (hW : WFI I level) (hfn : AllFn I) (hs : SemTotal sem I) (hns : NoSentinel sem I) (hok : InnerOK I)
    (hsel : I.selected = .none) (hep : I.entrypoints = .none)
    (hfuel : I.nodes.length ≤ ({} : RunCfg).maxIter)
    (values : AL Val) (hkeys : ∀ k, AL.has values k = true ↔ k ∈ I.spec.all) (sp : Span) :
    ∃ sI, InnerFix sem I values sI ∧
      (∀ k ∈ graphOutputs I.nodes, ∃ v, AL.get? sI.values k = some v ∧ v ≠ Val.sentinel) ∧
      ((nestedAt sem .sync prog (d + 1)).run gi values sp).values =
        (graphOutputs I.nodes).map (fun k => (k, (AL.get? sI.values k).getD Val.none)) ∧
      ((nestedAt sem .sync prog (d + 1)).run gi values sp).raised = false ∧
      ((nestedAt sem .sync prog (d + 1)).run gi values sp).status = .completed ∧
      ((nestedAt sem .sync prog (d + 1)).run gi values sp).pause = .none :=
  inner_run_spec_gen sem prog d gi I level hI hW sem (goodNodes_fn _ sem gi I hfn hs) hs hns hok hsel hep hfuel
    values hkeys sp

/-- the values of the nested run depend neither on the span nor on the depth (as long as the nodes of `I`
are well-behaved at both depths, with interchangeable virtual functions) -/
theorem inner_run_values_depth (sem : Sem) (prog : Program) (d d' gi : Nat) (I : GraphD) (level : Name → Nat)
    (hI : prog.getD gi default = I) (hW : WFI I level)
    (semI semI' : Sem)
    (hgood : GoodNodes (nestedAt sem .sync prog d) sem semI gi I) (hs : SemTotal semI I) (hns : NoSentinel semI I)
    (hgood' : GoodNodes (nestedAt sem .sync prog d') sem semI' gi I) (hs' : SemTotal semI' I)
    (hns' : NoSentinel semI' I)
    (hconv : ∀ n ∈ I.nodes, ∀ st, Holds semI I st n → Holds semI' I st n)
    (hok : InnerOK I) (hsel : I.selected = .none) (hep : I.entrypoints = .none)
    (hfuel : I.nodes.length ≤ ({} : RunCfg).maxIter)
    (values : AL Val) (hkeys : ∀ k, AL.has values k = true ↔ k ∈ I.spec.all) (sp sp' : Span) :
    ((nestedAt sem .sync prog (d + 1)).run gi values sp).values =
      ((nestedAt sem .sync prog (d' + 1)).run gi values sp').values := by
  obtain ⟨s₁, hf₁, _, hv₁, _⟩ := inner_run_spec_gen sem prog d gi I level hI hW semI hgood hs hns hok hsel hep hfuel
    values hkeys sp
  obtain ⟨s₂, hf₂, _, hv₂, _⟩ := inner_run_spec_gen sem prog d' gi I level hI hW semI' hgood' hs' hns' hok hsel hep
    hfuel values hkeys sp'
  rw [hv₁, hv₂]
  apply List.map_congr_left
  intro k _
  have hf₁' : InnerFix semI' I values s₁ := ⟨hf₁.1, fun n hn => hconv n hn s₁ (hf₁.2 n hn)⟩
  rw [innerFix_unique hW hf₁' hf₂ k]

/-! ## reading renamed outputs -/

theorem nodup_map_of_inj_on {α β} (f : α → β) : ∀ (l : List α), l.Nodup →
    (∀ a ∈ l, ∀ b ∈ l, f a = f b → a = b) → (l.map f).Nodup := by
  intro l
  induction l with
  | nil => intro _ _; exact List.nodup_nil
  | cons x t ih =>
    intro hnd hinj
    rw [List.nodup_cons] at hnd
    rw [List.map_cons, List.nodup_cons]
    refine ⟨?_, ih hnd.2 (fun a ha b hb => hinj a (List.mem_cons_of_mem _ ha) b (List.mem_cons_of_mem _ hb))⟩
    intro hm
    obtain ⟨y, hy, e⟩ := List.mem_map.1 hm
    have := hinj y (List.mem_cons_of_mem _ hy) x List.mem_cons_self e
    exact hnd.1 (this ▸ hy)

theorem get?_map_key_inj (vals : AL Val) (f : Name → Name) (o : Name)
    (hinj : ∀ k ∈ AL.keys vals, f k = f o → k = o) :
    AL.get? (vals.map fun kv => (f kv.1, kv.2)) (f o) = AL.get? vals o := by
  induction vals with
  | nil => rfl
  | cons x t ih =>
    obtain ⟨a, v⟩ := x
    simp only [List.map_cons, AL.get?]
    by_cases e : f o = f a
    · have : a = o := hinj a (by simp [AL.keys]) e.symm
      subst this; simp
    · have hne : o ≠ a := fun h => e (h ▸ rfl)
      simp only [e, hne, if_false]
      exact ih (fun k hk => hinj k (by simp only [AL.keys, List.map_cons, List.mem_cons]; exact Or.inr hk))

theorem get?_map_key_none (vals : AL Val) (f : Name → Name) (k : Name)
    (h : ∀ a ∈ AL.keys vals, f a ≠ k) : AL.get? (vals.map fun kv => (f kv.1, kv.2)) k = .none := by
  rw [AL.get?_eq_none_iff]
  intro hm
  simp only [AL.keys, List.map_map, List.mem_map, Function.comp] at hm
  obtain ⟨kv, hkv, e⟩ := hm
  exact h kv.1 (by simp only [AL.keys]; exact List.mem_map_of_mem hkv) e

/-- `map_outputs_from_original` on a dict of exposed inner outputs with distinct keys, read through the
(injective) output renaming of the wrapper -/
theorem renameOutputs_elab_get? (s : NodeSpec) (I : GraphD) (vals : AL Val) (hn : NodupKeys vals)
    (hsub : ∀ k ∈ AL.keys vals, k ∈ exposed I) (hout : ((exposed I).map (renameOf s.outRen)).Nodup) :
    (∀ o ∈ exposed I, AL.get? (renameOutputs (elabGraphNode s I) vals) (renameOf s.outRen o) = AL.get? vals o) ∧
    (∀ k, k ∉ (elabGraphNode s I).dataOuts → AL.get? (renameOutputs (elabGraphNode s I) vals) k = .none) := by
  have hinj := inj_of_nodup_map _ _ hout
  have hnd : (vals.map fun kv => outRenOf (elabGraphNode s I) kv.1).Nodup := by
    have : (vals.map fun kv => outRenOf (elabGraphNode s I) kv.1) =
        (AL.keys vals).map (outRenOf (elabGraphNode s I)) := by
      unfold AL.keys; rw [List.map_map]; rfl
    rw [this]
    apply nodup_map_of_inj_on _ _ hn
    intro a ha b hb e
    rw [outRenOf_elab s I (hsub a ha), outRenOf_elab s I (hsub b hb)] at e
    exact hinj a (hsub a ha) b (hsub b hb) e
  rw [renameOutputs_eq_map _ _ hnd]
  refine ⟨?_, ?_⟩
  · intro o ho
    rw [← outRenOf_elab s I ho]
    apply get?_map_key_inj
    intro k hk e
    rw [outRenOf_elab s I (hsub k hk), outRenOf_elab s I ho] at e
    exact hinj k (hsub k hk) o ho e
  · intro k hk
    apply get?_map_key_none
    intro a ha e
    apply hk
    rw [elabGraphNode_dataOuts, ← e, outRenOf_elab s I (hsub a ha)]
    exact List.mem_map_of_mem (hsub a ha)

/-! ## the wrapper is a well-behaved node -/

theorem nestSem_total_graph (sem : Sem) (nested : Nested) (nd : NodeD) (hk : nd.kind = .graph)
    (he : nd.emits = []) (hd : nd.dataOuts.Nodup) (args : AL Val) :
    ∃ v outs, nestSem sem nested nd args = .val v ∧ wrapOutputs nd v = some outs :=
  ⟨_, _, nestSem_graph sem nested nd hk args, wrapOutputs_packOuts nd _ he hd⟩

/-- on a complete input dict the wrapper of an inner DAG of function nodes succeeds with exactly the outputs
of the virtual function `nestSem`; these are the renamed data outputs of the inner fixed point -/
theorem graphnode_good_gen (sem : Sem) (prog : Program) (d : Nat) (s : NodeSpec) (I : GraphD) (level : Name → Nat)
    (hI : prog.getD s.inner default = I) (hmap : s.mapOver = [])
    (hW : WFI I level) (semI : Sem) (hgood : GoodNodes (nestedAt sem .sync prog d) sem semI s.inner I)
    (hs : SemTotal semI I) (hns : NoSentinel semI I) (hok : InnerOK I)
    (hsel : I.selected = .none) (hep : I.entrypoints = .none)
    (hfuel : I.nodes.length ≤ ({} : RunCfg).maxIter)
    (hin : (I.spec.all.map (renameOf s.inRen)).Nodup)
    (hout : ((exposed I).map (renameOf s.outRen)).Nodup)
    (args : AL Val) (hk : AL.keys args = (elabGraphNode s I).inputs) (sp : Span) :
    (execGraphNode (nestedAt sem .sync prog (d + 1)) (elabGraphNode s I) args sp).pause = .none ∧
    (execGraphNode (nestedAt sem .sync prog (d + 1)) (elabGraphNode s I) args sp).dec = .none ∧
    (execGraphNode (nestedAt sem .sync prog (d + 1)) (elabGraphNode s I) args sp).res =
      .ok (outsOf (nestSem sem (nestedAt sem .sync prog (d + 1))) (elabGraphNode s I) args) ∧
    ∃ sI, InnerFix semI I (toParams (elabGraphNode s I) args) sI ∧
      (∀ k ∈ graphOutputs I.nodes, ∃ v, AL.get? sI.values k = some v ∧ v ≠ Val.sentinel) ∧
      outsOf (nestSem sem (nestedAt sem .sync prog (d + 1))) (elabGraphNode s I) args =
        (graphOutputs I.nodes).map (fun k => (renameOf s.outRen k, (AL.get? sI.values k).getD Val.none)) := by
  have hexp : exposed I = graphOutputs I.nodes := by unfold exposed; rw [hsel]
  obtain ⟨hk1, _, _⟩ := toParams_elab s I hin args hk
  have hkeys : ∀ k, AL.has (toParams (elabGraphNode s I) args) k = true ↔ k ∈ I.spec.all := by
    intro k; rw [← AL.mem_keys_iff_has, hk1]
  have hinner : (elabGraphNode s I).inner = s.inner := rfl
  obtain ⟨sI, hfix, hvals, hv, hr, hst, _⟩ := inner_run_spec_gen sem prog d s.inner I level hI hW semI hgood hs hns hok hsel hep
    hfuel (toParams (elabGraphNode s I) args) hkeys sp
  have hindep := inner_run_values_indep_gen sem prog d s.inner I level hI hW semI hgood hs hns hok hsel hep
    hfuel (toParams (elabGraphNode s I) args) hkeys [] sp
  -- the renamed outputs
  have hren : renameOutputs (elabGraphNode s I)
      ((graphOutputs I.nodes).map (fun k => (k, (AL.get? sI.values k).getD Val.none))) =
      (graphOutputs I.nodes).map (fun k => (renameOf s.outRen k, (AL.get? sI.values k).getD Val.none)) := by
    have hmm : ((graphOutputs I.nodes).map (fun k => (k, (AL.get? sI.values k).getD Val.none))).map
        (fun kv => outRenOf (elabGraphNode s I) kv.1) = (graphOutputs I.nodes).map (renameOf s.outRen) := by
      rw [List.map_map]
      apply List.map_congr_left
      intro k hk'
      exact outRenOf_elab s I (hexp ▸ hk')
    rw [renameOutputs_eq_map _ _ (by rw [hmm, ← hexp]; exact hout), List.map_map]
    apply List.map_congr_left
    intro k hk'
    simp only [Function.comp]
    rw [outRenOf_elab s I (hexp ▸ hk')]
  have hkeysO : AL.keys ((graphOutputs I.nodes).map
      (fun k => (renameOf s.outRen k, (AL.get? sI.values k).getD Val.none))) = (elabGraphNode s I).dataOuts := by
    rw [elabGraphNode_dataOuts, hexp]; unfold AL.keys; rw [List.map_map]; rfl
  have houts : outsOf (nestSem sem (nestedAt sem .sync prog (d + 1))) (elabGraphNode s I) args =
      (graphOutputs I.nodes).map (fun k => (renameOf s.outRen k, (AL.get? sI.values k).getD Val.none)) := by
    unfold outsOf
    rw [nestSem_graph _ _ _ rfl]
    simp only
    rw [hinner, hindep, hv, hren]
    rw [wrapOutputs_packOuts_self _ _ rfl hkeysO
      (by unfold NodupKeys; rw [hkeysO, elabGraphNode_dataOuts]; exact hout)]
    rfl
  have hex := execGraphNode_completed (nestedAt sem .sync prog (d + 1)) (elabGraphNode s I) args sp hmap
    (by rw [hinner]; exact hr) (by rw [hinner]; exact hst)
  refine ⟨by rw [hex], by rw [hex], ?_, sI, hfix, hvals, houts⟩
  rw [hex, houts]
  simp only
  rw [hinner, hv, hren]

/-- `graphnode_good_gen` for an inner graph of function nodes -/
theorem graphnode_good (sem : Sem) (prog : Program) (d : Nat) (s : NodeSpec) (I : GraphD) (level : Name → Nat)
    (hI : prog.getD s.inner default = I) (hmap : s.mapOver = [])
    (hW : WFI I level) (hfn : AllFn I) (hs : SemTotal sem I) (hns : NoSentinel sem I) (hok : InnerOK I)
    (hsel : I.selected = .none) (hep : I.entrypoints = .none)
    (hfuel : I.nodes.length ≤ ({} : RunCfg).maxIter)
    (hin : (I.spec.all.map (renameOf s.inRen)).Nodup)
    (hout : ((exposed I).map (renameOf s.outRen)).Nodup)
    (args : AL Val) (hk : AL.keys args = (elabGraphNode s I).inputs) (sp : Span) :
    (execGraphNode (nestedAt sem .sync prog (d + 1)) (elabGraphNode s I) args sp).pause = .none ∧
    (execGraphNode (nestedAt sem .sync prog (d + 1)) (elabGraphNode s I) args sp).dec = .none ∧
    (execGraphNode (nestedAt sem .sync prog (d + 1)) (elabGraphNode s I) args sp).res =
      .ok (outsOf (nestSem sem (nestedAt sem .sync prog (d + 1))) (elabGraphNode s I) args) ∧
    ∃ sI, InnerFix sem I (toParams (elabGraphNode s I) args) sI ∧
      (∀ k ∈ graphOutputs I.nodes, ∃ v, AL.get? sI.values k = some v ∧ v ≠ Val.sentinel) ∧
      outsOf (nestSem sem (nestedAt sem .sync prog (d + 1))) (elabGraphNode s I) args =
        (graphOutputs I.nodes).map (fun k => (renameOf s.outRen k, (AL.get? sI.values k).getD Val.none)) :=
  graphnode_good_gen sem prog d s I level hI hmap hW sem (goodNodes_fn _ sem s.inner I hfn hs) hs hns hok hsel hep
    hfuel hin hout args hk sp

end HG.Nest
