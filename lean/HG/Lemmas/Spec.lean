import HG.Model.Validate
import HG.Lemmas.Ready
/-! # HG.Lemmas.Spec — helper lemmas about `computeInputSpec`, `collectBound` and `validateInputs`

Used by `HG.Props.C08`. Nothing here is a property theorem. Also holds the definitions that the
property statements of C08 need (`NoOutputProvided`, `collectBoundOld`) and the concrete graphs used
by the non-vacuity examples. -/
namespace HG.Spec
open HG

deriving instance DecidableEq for Except

/-! ## generic list facts -/

theorem foldl_inv {α β : Type} (P : β → Prop) (f : β → α → β) (l : List α) (b : β) (hb : P b)
    (hf : ∀ b a, a ∈ l → P b → P (f b a)) : P (l.foldl f b) := by
  induction l generalizing b with
  | nil => exact hb
  | cons a l ih =>
    rw [List.foldl_cons]
    exact ih _ (hf b a (List.mem_cons_self ..) hb) (fun b a' ha' => hf b a' (List.mem_cons_of_mem _ ha'))

theorem mem_dedupFold (l acc : List Name) (x : Name) :
    x ∈ l.foldl (fun acc x => if acc.contains x then acc else acc ++ [x]) acc ↔ x ∈ acc ∨ x ∈ l := by
  induction l generalizing acc with
  | nil => simp
  | cons a l ih =>
    rw [List.foldl_cons, ih]
    by_cases ha : a ∈ acc
    · simp only [List.contains_iff_mem, ha, if_true, List.mem_cons]
      constructor
      · rintro (h | h)
        · exact Or.inl h
        · exact Or.inr (Or.inr h)
      · rintro (h | h | h)
        · exact Or.inl h
        · exact Or.inl (h ▸ ha)
        · exact Or.inr h
    · simp only [List.contains_iff_mem, ha, if_false, List.mem_append, List.mem_cons, List.not_mem_nil, or_false]
      constructor
      · rintro ((h | h) | h)
        · exact Or.inl h
        · exact Or.inr (Or.inl h)
        · exact Or.inr (Or.inr h)
      · rintro (h | h | h)
        · exact Or.inl (Or.inl h)
        · exact Or.inl (Or.inr h)
        · exact Or.inr h

theorem mem_dedup_iff (l : List Name) (x : Name) : x ∈ dedup l ↔ x ∈ l := by
  unfold dedup; rw [mem_dedupFold]; simp

theorem mem_minus (a b : List Name) (x : Name) : x ∈ minus a b ↔ x ∈ a ∧ x ∉ b := by
  simp [minus, List.mem_filter]

theorem mem_inter (a b : List Name) (x : Name) : x ∈ inter a b ↔ x ∈ a ∧ x ∈ b := by
  simp [inter, List.mem_filter]

theorem minus_eq_nil (a b : List Name) (h : ∀ x ∈ a, x ∈ b) : minus a b = [] := by
  unfold minus
  rw [List.filter_eq_nil_iff]
  intro x hx
  simp [h x hx]

theorem subset_iff (a b : List Name) : subset a b = true ↔ ∀ x ∈ a, x ∈ b := by
  simp [subset, List.all_eq_true]

@[simp] theorem minus_nil (b : List Name) : minus [] b = [] := rfl
@[simp] theorem inter_nil (b : List Name) : inter [] b = [] := rfl
theorem minus_nil_right (a : List Name) : minus a [] = a := by
  simp [minus]

/-! ## association lists -/

theorem has_append {α : Type} (a b : AL α) (k : Name) : AL.has (a ++ b) k = (AL.has a k || AL.has b k) := by
  induction a with
  | nil => simp [AL.has]
  | cons hd t ih =>
    obtain ⟨x, w⟩ := hd
    by_cases hk : k = x
    · simp [AL.has, AL.get?, hk]
    · simpa [AL.has, AL.get?, hk] using ih

theorem keys_append {α : Type} (a b : AL α) : AL.keys (a ++ b) = AL.keys a ++ AL.keys b := by
  simp [AL.keys]

/-- un-binding a freshly bound name gives back the very same dict -/
theorem del_put_cancel {α : Type} (m : AL α) (k : Name) (v : α) (h : AL.has m k = false) :
    AL.del (AL.put m k v) k = m := by
  induction m with
  | nil => simp [AL.put, AL.del]
  | cons hd t ih =>
    obtain ⟨a, w⟩ := hd
    by_cases hk : k = a
    · simp [AL.has, AL.get?, hk] at h
    · have ht : AL.has t k = false := by simpa [AL.has, AL.get?, hk] using h
      simp [AL.put, AL.del, hk, ih ht]

theorem has_of_get?_eq {α : Type} (a b : AL α) (h : ∀ k, AL.get? a k = AL.get? b k) (k : Name) :
    AL.has a k = AL.has b k := by
  unfold AL.has; rw [h]

/-! ## `computeInputSpec` unfolded -/

theorem computeInputSpec_eq (nodes : List NodeD) (es : List Edge) (bound : AL Val)
    (eps sel : Option (List Name)) :
    computeInputSpec nodes es bound eps sel =
      let an := (activeScope nodes es eps sel).1
      let ae := (activeScope nodes es eps sel).2
      let ep := edgeProduced ae
      let cyc := computeEntrypoints an ae ep bound
      let entryParams := cyc.flatMap (·.2)
      let cats := (uniqueParams an).filter fun p => !entryParams.contains p && !ep.contains p
      let isOpt := fun p => AL.has bound p || anyNodeHasDefault an p
      { required := cats.filter fun p => !isOpt p
        optional := cats.filter isOpt
        entrypoints := cyc
        bound := collectBound an bound } := rfl

theorem spec_entrypoints (nodes : List NodeD) (es : List Edge) (bound : AL Val) (eps sel : Option (List Name)) :
    (computeInputSpec nodes es bound eps sel).entrypoints =
      computeEntrypoints (activeScope nodes es eps sel).1 (activeScope nodes es eps sel).2
        (edgeProduced (activeScope nodes es eps sel).2) bound := rfl

theorem spec_bound (nodes : List NodeD) (es : List Edge) (bound : AL Val) (eps sel : Option (List Name)) :
    (computeInputSpec nodes es bound eps sel).bound = collectBound (activeScope nodes es eps sel).1 bound := rfl

theorem mem_uniqueParams (ns : List NodeD) (p : Name) : p ∈ uniqueParams ns ↔ ∃ n ∈ ns, p ∈ n.inputs := by
  unfold uniqueParams; rw [mem_dedup_iff, List.mem_flatMap]

theorem anyNodeHasDefault_true (ns : List NodeD) (p : Name) :
    anyNodeHasDefault ns p = true ↔ ∃ n ∈ ns, p ∈ n.inputs ∧ p ∈ n.hasDefault := by
  simp [anyNodeHasDefault, List.any_eq_true]

theorem anyNodeHasDefault_false (ns : List NodeD) (p : Name) :
    anyNodeHasDefault ns p = false ↔ ∀ n ∈ ns, p ∈ n.inputs → p ∉ n.hasDefault := by
  rw [← Bool.not_eq_true, anyNodeHasDefault_true]
  constructor
  · intro h n hn hi hd; exact h ⟨n, hn, hi, hd⟩
  · rintro h ⟨n, hn, hi, hd⟩; exact h n hn hi hd

theorem mem_required (nodes : List NodeD) (es : List Edge) (bound : AL Val) (eps sel : Option (List Name))
    (p : Name) :
    p ∈ (computeInputSpec nodes es bound eps sel).required ↔
      p ∈ uniqueParams (activeScope nodes es eps sel).1 ∧
      p ∉ (computeInputSpec nodes es bound eps sel).entrypoints.flatMap (·.2) ∧
      p ∉ edgeProduced (activeScope nodes es eps sel).2 ∧
      AL.has bound p = false ∧ anyNodeHasDefault (activeScope nodes es eps sel).1 p = false := by
  rw [spec_entrypoints, computeInputSpec_eq]
  simp only [List.mem_filter, Bool.and_eq_true, Bool.not_eq_true', List.contains_eq_mem,
    decide_eq_false_iff_not, Bool.or_eq_false_iff]
  constructor
  · rintro ⟨⟨h1, h2, h3⟩, h4, h5⟩; exact ⟨h1, h2, h3, h4, h5⟩
  · rintro ⟨h1, h2, h3, h4, h5⟩; exact ⟨⟨h1, h2, h3⟩, h4, h5⟩

theorem mem_optional (nodes : List NodeD) (es : List Edge) (bound : AL Val) (eps sel : Option (List Name))
    (p : Name) :
    p ∈ (computeInputSpec nodes es bound eps sel).optional ↔
      p ∈ uniqueParams (activeScope nodes es eps sel).1 ∧
      p ∉ (computeInputSpec nodes es bound eps sel).entrypoints.flatMap (·.2) ∧
      p ∉ edgeProduced (activeScope nodes es eps sel).2 ∧
      (AL.has bound p = true ∨ anyNodeHasDefault (activeScope nodes es eps sel).1 p = true) := by
  rw [spec_entrypoints, computeInputSpec_eq]
  simp only [List.mem_filter, Bool.and_eq_true, Bool.not_eq_true', List.contains_eq_mem,
    decide_eq_false_iff_not, Bool.or_eq_true]
  constructor
  · rintro ⟨⟨h1, h2, h3⟩, h4⟩; exact ⟨h1, h2, h3, h4⟩
  · rintro ⟨h1, h2, h3, h4⟩; exact ⟨⟨h1, h2, h3⟩, h4⟩

theorem required_nodup (nodes : List NodeD) (es : List Edge) (bound : AL Val) (eps sel : Option (List Name)) :
    (computeInputSpec nodes es bound eps sel).required.Nodup := by
  rw [computeInputSpec_eq]
  exact ((dedup_nodup _).filter _).filter _

theorem optional_nodup (nodes : List NodeD) (es : List Edge) (bound : AL Val) (eps sel : Option (List Name)) :
    (computeInputSpec nodes es bound eps sel).optional.Nodup := by
  rw [computeInputSpec_eq]
  exact ((dedup_nodup _).filter _).filter _

/-! ## entry points -/

theorem mem_insertSorted (x y : Name × List Name) (l : AL (List Name)) :
    y ∈ insertSorted x l ↔ y = x ∨ y ∈ l := by
  induction l with
  | nil => simp [insertSorted]
  | cons z zs ih =>
    unfold insertSorted
    by_cases h : x.1 < z.1
    · simp [h]
    · simp only [h, if_false, List.mem_cons, ih]
      constructor
      · rintro (h | h | h)
        · exact Or.inr (Or.inl h)
        · exact Or.inl h
        · exact Or.inr (Or.inr h)
      · rintro (h | h | h)
        · exact Or.inr (Or.inl h)
        · exact Or.inl h
        · exact Or.inr (Or.inr h)

/-- every cycle entry-point parameter is unbound (and is an input of the node it is listed under) -/
theorem entrypoints_sound (nodes : List NodeD) (es : List Edge) (ep : List Name) (bound : AL Val)
    (e : Name × List Name) (he : e ∈ computeEntrypoints nodes es ep bound) :
    ∀ p ∈ e.2, AL.has bound p = false ∧ ∃ nd ∈ nodes, nd.name = e.1 ∧ p ∈ nd.inputs := by
  unfold computeEntrypoints at he
  simp only at he
  split at he
  · cases he
  · revert he e
    refine foldl_inv (P := fun acc : AL (List Name) => ∀ e ∈ acc, ∀ p ∈ e.2,
      AL.has bound p = false ∧ ∃ nd ∈ nodes, nd.name = e.1 ∧ p ∈ nd.inputs) _ _ _ ?_ ?_
    · intro e he; cases he
    · intro acc nd hnd hacc
      split
      · exact hacc
      · split
        · exact hacc
        · intro e he p hp
          rcases (mem_insertSorted _ _ _).1 he with h | h
          · subst h
            simp only [List.mem_filter, Bool.and_eq_true, Bool.not_eq_true'] at hp
            exact ⟨hp.2.1.1.2, nd, hnd, rfl, hp.1⟩
          · exact hacc e h p hp

theorem entryParam_unbound (nodes : List NodeD) (es : List Edge) (ep : List Name) (bound : AL Val) (p : Name)
    (h : p ∈ (computeEntrypoints nodes es ep bound).flatMap (·.2)) : AL.has bound p = false := by
  obtain ⟨e, he, hp⟩ := List.mem_flatMap.1 h
  exact (entrypoints_sound nodes es ep bound e he p hp).1

theorem computeEntrypoints_congr (nodes : List NodeD) (es : List Edge) (ep : List Name) (b₁ b₂ : AL Val)
    (h : ∀ p, AL.has b₁ p = AL.has b₂ p) :
    computeEntrypoints nodes es ep b₁ = computeEntrypoints nodes es ep b₂ := by
  have : AL.has b₁ = AL.has b₂ := funext h
  unfold computeEntrypoints
  simp only [this]

/-! ## exact membership in the entry-point parameters -/

/-- the node lies on a data cycle (as `_compute_entrypoints` decides it) -/
def inCyclicScc (nodes : List NodeD) (es : List Edge) (a : Name) : Bool :=
  let dataEs := es.filter (·.kind == .data)
  let d := descendants dataEs nodes.length a
  hasEdge dataEs a a || (d.any fun b => b != a && (descendants dataEs nodes.length b).contains a)

/-- the parameters a cycle node needs from the caller -/
def neededOf (nodes : List NodeD) (es : List Edge) (ep : List Name) (bound : AL Val) (nd : NodeD) : List Name :=
  nd.inputs.filter fun p =>
    (cycleParams nodes (es.filter (·.kind == .data)) ep).contains p && !AL.has bound p &&
      !isInterruptProduced nodes p && !nd.hasDefault.contains p

theorem mem_foldl_insertSorted {α : Type} (c : α → Bool) (f : α → Name × List Name) (l : List α)
    (acc : AL (List Name)) (e : Name × List Name) :
    e ∈ l.foldl (fun acc a => if c a then acc else insertSorted (f a) acc) acc ↔
      e ∈ acc ∨ ∃ a ∈ l, c a = false ∧ e = f a := by
  induction l generalizing acc with
  | nil => simp
  | cons a l ih =>
    rw [List.foldl_cons, ih]
    cases hc : c a with
    | true =>
      simp only [if_true, List.mem_cons]
      constructor
      · rintro (h | ⟨b, hb, h⟩)
        · exact Or.inl h
        · exact Or.inr ⟨b, Or.inr hb, h⟩
      · rintro (h | ⟨b, hb | hb, h1, h2⟩)
        · exact Or.inl h
        · subst hb; rw [hc] at h1; cases h1
        · exact Or.inr ⟨b, hb, h1, h2⟩
    | false =>
      simp only [Bool.false_eq_true, if_false, mem_insertSorted, List.mem_cons]
      constructor
      · rintro ((h | h) | ⟨b, hb, h⟩)
        · exact Or.inr ⟨a, Or.inl rfl, hc, h⟩
        · exact Or.inl h
        · exact Or.inr ⟨b, Or.inr hb, h⟩
      · rintro (h | ⟨b, hb | hb, h1, h2⟩)
        · exact Or.inl (Or.inr h)
        · subst hb; exact Or.inl (Or.inl h2)
        · exact Or.inr ⟨b, hb, h1, h2⟩

theorem computeEntrypoints_eq (nodes : List NodeD) (es : List Edge) (ep : List Name) (bound : AL Val) :
    computeEntrypoints nodes es ep bound =
      if (cycleParams nodes (es.filter (·.kind == .data)) ep).isEmpty then []
      else nodes.foldl (fun acc nd =>
        if (nd.isGate || !inCyclicScc nodes es nd.name || (neededOf nodes es ep bound nd).isEmpty) then acc
        else insertSorted (nd.name, neededOf nodes es ep bound nd) acc) [] := by
  unfold computeEntrypoints
  simp only
  split
  · rfl
  · congr 1
    funext acc nd
    by_cases h1 : (nd.isGate || !inCyclicScc nodes es nd.name) = true
    · have h1' := h1
      unfold inCyclicScc at h1'
      simp only [h1, h1', Bool.true_or, if_true]
    · have h1' := h1
      unfold inCyclicScc at h1'
      simp only [h1, h1', Bool.false_or]
      rfl

/-- exact: `p` is an entry-point parameter iff some non-gate node on a data cycle consumes it, it
is a cycle parameter, it is unbound, no interrupt produces it and that node has no default for it -/
theorem mem_entryParams (nodes : List NodeD) (es : List Edge) (ep : List Name) (bound : AL Val) (p : Name) :
    p ∈ (computeEntrypoints nodes es ep bound).flatMap (·.2) ↔
      ∃ nd ∈ nodes, nd.isGate = false ∧ inCyclicScc nodes es nd.name = true ∧ p ∈ nd.inputs ∧
        p ∈ cycleParams nodes (es.filter (·.kind == .data)) ep ∧ AL.has bound p = false ∧
        isInterruptProduced nodes p = false ∧ p ∉ nd.hasDefault := by
  have hneeded : ∀ nd : NodeD, p ∈ neededOf nodes es ep bound nd ↔
      p ∈ nd.inputs ∧ p ∈ cycleParams nodes (es.filter (·.kind == .data)) ep ∧ AL.has bound p = false ∧
        isInterruptProduced nodes p = false ∧ p ∉ nd.hasDefault := by
    intro nd
    simp only [neededOf, List.mem_filter, Bool.and_eq_true, Bool.not_eq_true', List.contains_eq_mem,
      decide_eq_true_eq, decide_eq_false_iff_not]
    constructor
    · rintro ⟨h1, ⟨⟨h2, h3⟩, h4⟩, h5⟩; exact ⟨h1, h2, h3, h4, h5⟩
    · rintro ⟨h1, h2, h3, h4, h5⟩; exact ⟨h1, ⟨⟨h2, h3⟩, h4⟩, h5⟩
  rw [computeEntrypoints_eq, List.mem_flatMap]
  constructor
  · rintro ⟨e, he, hp⟩
    split at he
    · cases he
    · rw [mem_foldl_insertSorted] at he
      rcases he with he | ⟨nd, hnd, hc, rfl⟩
      · cases he
      · simp only [Bool.or_eq_false_iff, Bool.not_eq_false'] at hc
        exact ⟨nd, hnd, hc.1.1, hc.1.2, (hneeded nd).1 hp⟩
  · rintro ⟨nd, hnd, hg, hcyc, hrest⟩
    have hp := (hneeded nd).2 hrest
    have hne : (cycleParams nodes (es.filter (·.kind == .data)) ep).isEmpty = false := by
      rw [List.isEmpty_eq_false_iff]; intro h; rw [h] at hrest; exact absurd hrest.2.1 List.not_mem_nil
    refine ⟨(nd.name, neededOf nodes es ep bound nd), ?_, hp⟩
    simp only [hne, Bool.false_eq_true, if_false]
    rw [mem_foldl_insertSorted]
    refine Or.inr ⟨nd, hnd, ?_, rfl⟩
    have : (neededOf nodes es ep bound nd).isEmpty = false := by
      rw [List.isEmpty_eq_false_iff]; intro h; rw [h] at hp; cases hp
    simp [hg, hcyc, this]

/-! ## `collectBound` -/

/-- what `collectBound` appends to the graph-level dict; reads that dict only through `has` -/
def collectExt (nodes : List NodeD) (hasB : Name → Bool) : AL Val :=
  nodes.foldl (fun ext nd =>
    if nd.kind == .graph then
      nd.inputs.foldl (fun ext cur =>
        match AL.get? nd.innerBound cur with
        | some v => if hasB cur || AL.has ext cur then ext else ext ++ [(cur, v)]
        | .none => ext) ext
    else ext) []

theorem collectBound_inner (b : AL Val) (nd : NodeD) (l : List Name) (ext : AL Val) :
    l.foldl (fun acc cur =>
        match AL.get? nd.innerBound cur with
        | some v => if AL.has acc cur then acc else acc ++ [(cur, v)]
        | .none => acc) (b ++ ext) =
      b ++ l.foldl (fun ext cur =>
        match AL.get? nd.innerBound cur with
        | some v => if AL.has b cur || AL.has ext cur then ext else ext ++ [(cur, v)]
        | .none => ext) ext := by
  induction l generalizing ext with
  | nil => rfl
  | cons cur l ih =>
    rw [List.foldl_cons, List.foldl_cons]
    cases hg : AL.get? nd.innerBound cur with
    | none => exact ih ext
    | some v =>
      simp only [has_append]
      by_cases hh : (AL.has b cur || AL.has ext cur) = true
      · simp only [hh, if_true]; exact ih ext
      · simp only [hh]
        rw [List.append_assoc]; exact ih _

theorem collectBound_outer (b : AL Val) (nodes : List NodeD) (ext : AL Val) :
    nodes.foldl (fun acc nd =>
      if nd.kind == .graph then
        nd.inputs.foldl (fun acc cur =>
          match AL.get? nd.innerBound cur with
          | some v => if AL.has acc cur then acc else acc ++ [(cur, v)]
          | .none => acc) acc
      else acc) (b ++ ext) =
    b ++ nodes.foldl (fun ext nd =>
      if nd.kind == .graph then
        nd.inputs.foldl (fun ext cur =>
          match AL.get? nd.innerBound cur with
          | some v => if AL.has b cur || AL.has ext cur then ext else ext ++ [(cur, v)]
          | .none => ext) ext
      else ext) ext := by
  induction nodes generalizing ext with
  | nil => rfl
  | cons nd nodes ih =>
    rw [List.foldl_cons, List.foldl_cons]
    by_cases hk : (nd.kind == Kind.graph) = true
    · simp only [hk, if_true]
      rw [collectBound_inner]; exact ih _
    · simp only [hk]; exact ih _

/-- `collectBound` keeps the graph-level dict as a prefix; the appended part depends on it only
through `AL.has` -/
theorem collectBound_eq (nodes : List NodeD) (b : AL Val) :
    collectBound nodes b = b ++ collectExt nodes (AL.has b) := by
  have := collectBound_outer b nodes []
  rw [List.append_nil] at this
  exact this

theorem collectExt_keys (nodes : List NodeD) (hasB : Name → Bool) :
    ∀ k ∈ AL.keys (collectExt nodes hasB),
      ∃ nd ∈ nodes, nd.kind = .graph ∧ k ∈ nd.inputs ∧ AL.has nd.innerBound k = true := by
  unfold collectExt
  refine foldl_inv (P := fun acc : AL Val => ∀ k ∈ AL.keys acc,
      ∃ nd ∈ nodes, nd.kind = .graph ∧ k ∈ nd.inputs ∧ AL.has nd.innerBound k = true) _ _ _ ?_ ?_
  · intro k hk; simp [AL.keys] at hk
  · intro acc nd hnd hacc
    split
    · rename_i hkind
      refine foldl_inv (P := fun acc : AL Val => ∀ k ∈ AL.keys acc,
        ∃ nd ∈ nodes, nd.kind = .graph ∧ k ∈ nd.inputs ∧ AL.has nd.innerBound k = true) _ _ _ hacc ?_
      intro acc' cur hcur hacc'
      split
      · rename_i v hv
        split
        · exact hacc'
        · intro k hk
          rw [keys_append, List.mem_append] at hk
          rcases hk with hk | hk
          · exact hacc' k hk
          · simp only [AL.keys, List.map_cons, List.map_nil, List.mem_singleton] at hk
            subst hk
            exact ⟨nd, hnd, by simpa using hkind, hcur, by simp [AL.has, hv]⟩
      · exact hacc'
    · exact hacc

/-! ## `validateInputs` -/

/-- the names `validate_inputs` treats as provided: bound (graph-level and surfaced inner bindings)
merged with the call's values -/
def providedOf (spec : InputSpec) (values : AL Val) : List Name :=
  dedup (AL.keys spec.bound ++ AL.keys values)

def cycleEpOf (spec : InputSpec) : List Name := dedup (spec.entrypoints.flatMap (·.2))

theorem mem_providedOf (spec : InputSpec) (values : AL Val) (k : Name) :
    k ∈ providedOf spec values ↔ k ∈ AL.keys spec.bound ∨ k ∈ AL.keys values := by
  unfold providedOf; rw [mem_dedup_iff, List.mem_append]

theorem mem_cycleEpOf (spec : InputSpec) (k : Name) :
    k ∈ cycleEpOf spec ↔ k ∈ spec.entrypoints.flatMap (·.2) := by
  unfold cycleEpOf; rw [mem_dedup_iff]

/-- the cycle-entry step of `validate_inputs` -/
def cycleStep (g : GraphD) (spec : InputSpec) (provided bypassed : List Name) (entrypoint : Option Name) :
    Except VErr Unit :=
  if spec.entrypoints.isEmpty then .ok () else validateCycleEntry g spec provided bypassed entrypoint

/-- when nothing unexpected is provided, steps 2 and 3 pass silently and `validate_inputs` is just
the cycle-entry check followed by the completeness check -/
theorem validateInputs_of_expected (g : GraphD) (values : AL Val) (entrypoint : Option Name)
    (selected : Option (List Name)) (policy : OverridePolicy)
    (hexp : ∀ k ∈ providedOf (effectiveSpec g selected) values, k ∈ (effectiveSpec g selected).all) :
    validateInputs g values entrypoint selected policy =
      match cycleStep g (effectiveSpec g selected) (providedOf (effectiveSpec g selected) values)
          (bypassedInputs g (providedOf (effectiveSpec g selected) values) (cycleEpOf (effectiveSpec g selected)))
          entrypoint with
      | .error e => .error e
      | .ok () =>
        let missing := minus (minus (effectiveSpec g selected).required
          (bypassedInputs g (providedOf (effectiveSpec g selected) values) (cycleEpOf (effectiveSpec g selected))))
          (providedOf (effectiveSpec g selected) values)
        if missing.isEmpty then .ok 0 else .error (.missingInput missing) := by
  have hmin : minus (providedOf (effectiveSpec g selected) values) (effectiveSpec g selected).all = [] :=
    minus_eq_nil _ _ hexp
  unfold providedOf at hmin
  unfold validateInputs cycleStep providedOf cycleEpOf
  simp only [hmin, minus_nil, inter_nil, hasOverrideConflict, List.isEmpty_nil, if_true, Bool.and_self]
  rfl

/-- the general shape of an accepting run of `validate_inputs` -/
theorem validateInputs_ok (g : GraphD) (values : AL Val) (entrypoint : Option Name)
    (selected : Option (List Name)) (policy : OverridePolicy) (w : Nat)
    (h : validateInputs g values entrypoint selected policy = .ok w) :
    cycleStep g (effectiveSpec g selected) (providedOf (effectiveSpec g selected) values)
        (bypassedInputs g (providedOf (effectiveSpec g selected) values) (cycleEpOf (effectiveSpec g selected)))
        entrypoint = .ok () ∧
    minus (minus (effectiveSpec g selected).required
        (bypassedInputs g (providedOf (effectiveSpec g selected) values) (cycleEpOf (effectiveSpec g selected))))
        (providedOf (effectiveSpec g selected) values) = [] := by
  unfold validateInputs at h
  simp only at h
  split at h
  · cases h
  · split at h
    · cases h
    · split at h
      · cases h
      · split at h
        · rename_i hc hm
          exact ⟨hc, by simpa [providedOf, cycleEpOf] using hm⟩
        · cases h

/-- the only node outputs among the provided names are cycle entry-point parameters (seeding a
cycle is not an injection) -/
def NoOutputProvided (g : GraphD) (spec : InputSpec) (values : AL Val) : Prop :=
  ∀ nd ∈ g.nodes, ∀ o ∈ nd.outputs, o ∈ providedOf spec values → o ∈ spec.entrypoints.flatMap (·.2)

instance (g : GraphD) (spec : InputSpec) (values : AL Val) : Decidable (NoOutputProvided g spec values) := by
  unfold NoOutputProvided; exact inferInstance

theorem bypassedInputs_nil (g : GraphD) (provided cycleEp : List Name)
    (h : ∀ nd ∈ g.nodes, ∀ o ∈ nd.outputs, o ∈ provided → o ∈ cycleEp) :
    bypassedInputs g provided cycleEp = [] := by
  have hp : (g.nodes.filter fun nd =>
      !(minus (inter nd.outputs (g.nodes.flatMap (·.inputs))) cycleEp).isEmpty &&
        subset (minus (inter nd.outputs (g.nodes.flatMap (·.inputs))) cycleEp) provided) = [] := by
    rw [List.filter_eq_nil_iff]
    intro nd hnd hc
    simp only [Bool.and_eq_true, Bool.not_eq_true', List.isEmpty_eq_false_iff] at hc
    obtain ⟨hne, hsub⟩ := hc
    obtain ⟨x, hx⟩ := List.exists_mem_of_ne_nil _ hne
    have hxp := (subset_iff _ _).1 hsub x hx
    rw [mem_minus, mem_inter] at hx
    exact hx.2 (h nd hnd x hx.1.1 hxp)
  unfold bypassedInputs
  simp only [hp, List.isEmpty_nil, if_true]

theorem bypassedInputs_nil_of (g : GraphD) (spec : InputSpec) (values : AL Val)
    (h : NoOutputProvided g spec values) :
    bypassedInputs g (providedOf spec values) (cycleEpOf spec) = [] :=
  bypassedInputs_nil g _ _ fun nd hnd o ho hp => (mem_cycleEpOf spec o).2 (h nd hnd o ho hp)

theorem mem_graphOutputs (nodes : List NodeD) (o : Name) :
    o ∈ graphOutputs nodes ↔ ∃ nd ∈ nodes, o ∈ nd.outputs := by
  unfold graphOutputs; rw [mem_dedup_iff, List.mem_flatMap]

/-! ## the pre-repair `_collect_bound_values` (negative witness for `bound_scoped`) -/

/-- inner bindings merged under the ORIGINAL inner names (what the code did before the repair) -/
def collectBoundOld (nodes : List NodeD) (bound : AL Val) : AL Val :=
  nodes.foldl (fun acc nd =>
    if nd.kind == .graph then
      nd.innerBound.foldl (fun acc kv =>
        let orig := (AL.get? nd.origIn kv.1).getD kv.1
        if AL.has acc orig then acc else acc ++ [(orig, kv.2)]) acc
    else acc) bound

/-! ## concrete graphs for the non-vacuity examples -/

/-- a small DAG: `src(x) → a`, `left(a, k=5) → l`, `right(a, c) → r`, with `c` bound to 7 -/
def dagSpec : GraphSpec :=
  { name := "dag"
    nodes := [
      { name := "src", kind := .fn, params := [("x", .none)], dataOuts := ["a"], body := .tag "src" },
      { name := "left", kind := .fn, params := [("a", .none), ("k", some (.int 5))], dataOuts := ["l"], body := .tag "left" },
      { name := "right", kind := .fn, params := [("a", .none), ("c", .none)], dataOuts := ["r"], body := .tag "right" }]
    bound := [("c", .int 7)] }
def dagProg : List GraphD := elabProgram [dagSpec]
def dagG : GraphD := dagProg.getD 0 default

/-- the same DAG without the binding -/
def dagSpec0 : GraphSpec := { dagSpec with bound := [] }
def dagG0 : GraphD := elabGraph [] dagSpec0

/-- a two-node data cycle `a(x) → y`, `b(y) → x` -/
def cycSpec : GraphSpec :=
  { name := "cyc"
    nodes := [
      { name := "a", kind := .fn, params := [("x", .none)], dataOuts := ["y"], body := .tag "a" },
      { name := "b", kind := .fn, params := [("y", .none), ("z", .none)], dataOuts := ["x"], body := .tag "b" }] }
def cycG : GraphD := elabGraph [] cycSpec

/-- inner graph `f(k) → y` with `k` bound; outer graph wraps it renaming `k` to `kk` and has an
unrelated node `h(k) → z` -/
def innerSpec : GraphSpec :=
  { name := "inner"
    nodes := [{ name := "f", kind := .fn, params := [("k", .none)], dataOuts := ["y"], body := .tag "f" }]
    bound := [("k", .int 1)] }
def outerSpec : GraphSpec :=
  { name := "outer"
    nodes := [
      { name := "W", kind := .graph, inner := 0, inRen := [("k", "kk")] },
      { name := "h", kind := .fn, params := [("k", .none)], dataOuts := ["z"], body := .tag "h" }] }
def nestProg : List GraphD := elabProgram [innerSpec, outerSpec]
def outerG : GraphD := nestProg.getD 1 default

/-- the wrapper keeps the inner name `k`, and an outer node `p() → k` feeds it -/
def fedSpec : GraphSpec :=
  { name := "fed"
    nodes := [
      { name := "p", kind := .fn, params := [], dataOuts := ["k"], body := .tag "p" },
      { name := "W", kind := .graph, inner := 0 }] }
def fedProg : List GraphD := elabProgram [innerSpec, fedSpec]
def fedG : GraphD := fedProg.getD 1 default

end HG.Spec
