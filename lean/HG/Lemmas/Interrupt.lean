import HG.Lemmas.Ready
import HG.Lemmas.Step
import HG.Lemmas.Loop
import HG.Lemmas.DagMain
import HG.Lemmas.PyEq
/-! # HG.Lemmas.Interrupt — helper lemmas for C14 (human-in-the-loop interrupts)

`execInterrupt` case analysis, the single-node async step, where a pause of a step comes from,
log facts for paused runs, and the loop invariants used by `HG/Props/C14.lean`. -/
namespace HG.Intr
open HG

/-! ## `execInterrupt` -/

/-- the outputs dict of the emit-only part of a node -/
def emitPart (nd : NodeD) : AL Val := nd.emits.map fun e => (e, Val.sentinel)

/-- the resume test of `AsyncInterruptNodeExecutor` -/
def resumable (nd : NodeD) (ns : GState) : Bool :=
  (nd.dataOuts.all fun o => AL.has ns.values o) && !AL.has ns.execs nd.name

/-- what the resume path returns -/
def resumeOuts (nd : NodeD) (ns : GState) : AL Val :=
  AL.merge (nd.dataOuts.map fun o => (o, (AL.get? ns.values o).getD .none)) (emitPart nd)

/-- the `PauseInfo` built by the executor -/
def pauseInfoOf (nd : NodeD) (inputs : AL Val) (o : Name) (rest : List Name) : PauseInfo :=
  { nodeName := nd.name, outputParam := o
    value := (nd.inputs.head?.bind fun p => AL.get? inputs p).getD .none
    outputParams := if rest.isEmpty then .none else some nd.dataOuts
    values := if nd.inputs.length > 1 then some inputs else .none }

theorem execInterrupt_resume (sem : Sem) (gi : Nat) (nd : NodeD) (inputs : AL Val) (ns : GState)
    (h : resumable nd ns = true) :
    execInterrupt sem gi nd inputs ns = { res := .ok (resumeOuts nd ns) } := by
  unfold resumable at h
  unfold execInterrupt
  simp only [h, if_true]
  rfl

/-- the handler path, one case per handler outcome -/
theorem execInterrupt_handler (sem : Sem) (gi : Nat) (nd : NodeD) (inputs : AL Val) (ns : GState)
    (h : resumable nd ns = false) :
    execInterrupt sem gi nd inputs ns =
      (let log := [Log.call (fnId gi nd) (toParams nd inputs)]
       match sem nd (toParams nd inputs) with
       | .raise e => { res := .error (.wrapped e), log := log }
       | .dec _ => { res := .error (.wrapped (.typeError nd.name)), log := log }
       | .val .none =>
         match nd.dataOuts with
         | [] => { res := .error (.wrapped (.valueError nd.name)), log := log }
         | o :: rest => { res := .ok [], log := log, pause := some (pauseInfoOf nd inputs o rest) }
       | .val v =>
         match nd.dataOuts with
         | [] => { res := .ok (emitPart nd), log := log }
         | o :: _ => { res := .ok (AL.merge [(o, v)] (emitPart nd)), log := log }) := by
  unfold resumable at h
  unfold execInterrupt
  simp only [h]
  rfl

theorem execInterrupt_dec (sem : Sem) (gi : Nat) (nd : NodeD) (inputs : AL Val) (ns : GState) :
    (execInterrupt sem gi nd inputs ns).dec = .none := by
  cases h : resumable nd ns
  · rw [execInterrupt_handler sem gi nd inputs ns h]
    simp only
    split
    · rfl
    · rfl
    · split <;> rfl
    · split <;> rfl
  · rw [execInterrupt_resume sem gi nd inputs ns h]

/-- exact characterisation of a pausing interrupt executor -/
theorem execInterrupt_pause_iff (sem : Sem) (gi : Nat) (nd : NodeD) (inputs : AL Val) (ns : GState)
    (p : PauseInfo) :
    (execInterrupt sem gi nd inputs ns).pause = some p ↔
      resumable nd ns = false ∧ sem nd (toParams nd inputs) = .val .none ∧
      ∃ o rest, nd.dataOuts = o :: rest ∧ p = pauseInfoOf nd inputs o rest := by
  cases h : resumable nd ns
  · rw [execInterrupt_handler sem gi nd inputs ns h]
    simp only
    cases hs : sem nd (toParams nd inputs) with
    | raise e => simp
    | dec d => simp
    | val v =>
      cases hd : nd.dataOuts with
      | nil => cases v <;> simp
      | cons o rest =>
        cases v <;> simp
        constructor
        · intro hp; exact ⟨o, rest, ⟨rfl, rfl⟩, hp.symm⟩
        · rintro ⟨o', rest', ⟨rfl, rfl⟩, hp⟩; exact hp.symm
  · rw [execInterrupt_resume sem gi nd inputs ns h]
    simp

/-- the pausing executor's other fields -/
theorem execInterrupt_pause_fields (sem : Sem) (gi : Nat) (nd : NodeD) (inputs : AL Val) (ns : GState)
    (p : PauseInfo) (hp : (execInterrupt sem gi nd inputs ns).pause = some p) :
    (execInterrupt sem gi nd inputs ns).res = .ok [] ∧
    (execInterrupt sem gi nd inputs ns).log = [Log.call (fnId gi nd) (toParams nd inputs)] := by
  obtain ⟨h, hs, o, rest, hd, _⟩ := (execInterrupt_pause_iff sem gi nd inputs ns p).1 hp
  rw [execInterrupt_handler sem gi nd inputs ns h]
  simp only [hs, hd, and_self]

/-- a handler that answers `v ≠ None` on an interrupt with at least one data output: stored under the first output -/
theorem execInterrupt_answer (sem : Sem) (gi : Nat) (nd : NodeD) (inputs : AL Val) (ns : GState)
    (h : resumable nd ns = false) (v : Val) (hv : v ≠ .none) (hs : sem nd (toParams nd inputs) = .val v)
    (o : Name) (rest : List Name) (hd : nd.dataOuts = o :: rest) :
    execInterrupt sem gi nd inputs ns =
      { res := .ok (AL.merge [(o, v)] (emitPart nd)), log := [Log.call (fnId gi nd) (toParams nd inputs)] } := by
  rw [execInterrupt_handler sem gi nd inputs ns h]
  cases v <;> first | exact absurd rfl hv | simp only [hs, hd]

/-- keys written by an interrupt are declared outputs -/
theorem execInterrupt_keys (sem : Sem) (gi : Nat) (nd : NodeD) (inputs : AL Val) (ns : GState) (outs : AL Val)
    (h : (execInterrupt sem gi nd inputs ns).res = .ok outs) : ∀ k ∈ AL.keys outs, k ∈ nd.outputs := by
  have hemit : ∀ k ∈ AL.keys (emitPart nd), k ∈ nd.outputs := emitPart_keys nd
  cases hr : resumable nd ns
  · rw [execInterrupt_handler sem gi nd inputs ns hr] at h
    simp only at h
    split at h
    · cases h
    · cases h
    · split at h
      · cases h
      · injection h with h; subst h; intro k hk; simp [AL.keys] at hk
    · split at h
      · injection h with h; subst h; exact hemit
      · rename_i o rest hd
        injection h with h; subst h
        intro k hk
        rcases AL.mem_keys_merge₂ _ _ k hk with hk | hk
        · simp only [AL.keys, List.map_cons, List.map_nil, List.mem_singleton] at hk
          subst hk
          unfold NodeD.outputs; rw [hd]; simp
        · exact hemit k hk
  · rw [execInterrupt_resume sem gi nd inputs ns hr] at h
    injection h with h; subst h
    intro k hk
    unfold resumeOuts at hk
    rcases AL.mem_keys_merge₂ _ _ k hk with hk | hk
    · simp only [AL.keys, List.map_map, List.mem_map, Function.comp] at hk
      obtain ⟨o, ho, rfl⟩ := hk
      unfold NodeD.outputs; exact List.mem_append_left _ ho
    · exact hemit k hk

/-! ## the async step when an interrupt is ready: one node runs alone -/

theorem permute_singleton {α} [Inhabited α] (r : α) (order : List Nat) : permute [r] order = [r] := by
  unfold permute
  rcases order with _ | ⟨j, _ | ⟨k, t⟩⟩
  · simp
  · by_cases hj : j = 0
    · subst hj; simp
    · simp [hj]
      intro h; exact absurd h.symm hj
  · simp

theorem asyncRs_singleton (i : NodeD) : asyncRs₂ [i] = [i] := by
  unfold asyncRs₂
  by_cases h : i.isInterrupt = true
  · simp [List.find?, h]
  · simp [List.find?, h]

theorem asyncRs_of_find {rs : List NodeD} {i : NodeD} (h : rs.find? (·.isInterrupt) = some i) :
    asyncRs₂ rs = [i] := by
  unfold asyncRs₂; rw [h]

/-- the step that runs the single node `i` -/
def stepOne (nested : Nested) (sem : Sem) (gi : Nat) (g : GraphD) (span : Span) (k : Nat) (s : GState)
    (i : NodeD) : StepOut :=
  let r := asyncOne₂ nested sem gi g span k s i
  match r.out.pause, r.out.res with
  | some p, _ => .pause p (decStep s r) r.out.log
  | .none, .error e => .fail e (decStep s r) r.out.log
  | .none, .ok outs => .ok (recordExec s ((decStep s r).applyOutputs outs) i) r.out.log

theorem stepAsync_singleton (nested : Nested) (sem : Sem) (gi : Nat) (g : GraphD) (span : Span) (k : Nat)
    (order : List Nat) (s : GState) (i : NodeD) :
    stepAsync nested sem gi g span k order s [i] = stepOne nested sem gi g span k s i := by
  rw [stepAsync_eq, asyncRs_singleton]
  simp only [List.map_cons, List.map_nil, permute_singleton, List.foldl_cons, List.foldl_nil,
    List.flatMap_cons, List.flatMap_nil, List.append_nil, stepOne]
  generalize hr : asyncOne₂ nested sem gi g span k s i = r
  have hnd : r.nd = i := by rw [← hr]; exact asyncOne_nd ..
  cases hp : r.out.pause with
  | some p =>
    have hb : isBad r = true := isBad_of_pause hp
    simp only [List.find?_cons, hb, hp, valStep]
  | none =>
    cases hres : r.out.res with
    | error e =>
      have hb : isBad r = true := isBad_of_error hres
      simp only [List.find?_cons, hb, hp, hres, valStep]
    | ok outs =>
      have hb : isBad r = false := (isBad_false_iff r).2 ⟨hp, outs, hres⟩
      simp only [List.find?_cons, hb, List.find?_nil, valStep, hp, hres, hnd]

/-- an interrupt in the ready list makes the async step run exactly that node -/
theorem stepAsync_isolated (nested : Nested) (sem : Sem) (gi : Nat) (g : GraphD) (span : Span) (k : Nat)
    (order : List Nat) (s : GState) (rs : List NodeD) (i : NodeD)
    (h : rs.find? (·.isInterrupt) = some i) :
    stepAsync nested sem gi g span k order s rs = stepAsync nested sem gi g span k order s [i] := by
  rw [stepAsync_eq, stepAsync_eq, asyncRs_of_find h, asyncRs_singleton]

/-- without an interrupt in the ready list, every ready node runs -/
theorem asyncRs_none {rs : List NodeD} (h : rs.find? (·.isInterrupt) = .none) : asyncRs₂ rs = rs := by
  unfold asyncRs₂; rw [h]

/-- the per-node result of an interrupt node -/
theorem asyncOne_interrupt_dec (nested : Nested) (sem : Sem) (gi : Nat) (g : GraphD) (span : Span) (k : Nat)
    (s : GState) (i : NodeD) (hi : i.kind = .interrupt) :
    (asyncOne₂ nested sem gi g span k s i).out.dec = .none := by
  cases hc : collectInputs g s i i.inputs with
  | none => rw [asyncOne_none nested sem gi g span k s i hc]
  | some inputs =>
    rw [(asyncOne_some nested sem gi g span k s i inputs hc).2.2.1]
    unfold execNode; simp only [hi]
    exact execInterrupt_dec sem gi i inputs s

theorem isInterrupt_iff (nd : NodeD) : nd.isInterrupt = true ↔ nd.kind = .interrupt := by
  unfold NodeD.isInterrupt; simp

/-- the single-interrupt step, fully explicit -/
theorem stepOne_interrupt (nested : Nested) (sem : Sem) (gi : Nat) (g : GraphD) (span : Span) (k : Nat)
    (s : GState) (i : NodeD) (hi : i.kind = .interrupt) :
    stepOne nested sem gi g span k s i =
      (let r := asyncOne₂ nested sem gi g span k s i
       match r.out.pause, r.out.res with
       | some p, _ => .pause p s r.out.log
       | .none, .error e => .fail e s r.out.log
       | .none, .ok outs => .ok (recordExec s (s.applyOutputs outs) i) r.out.log) := by
  have hd := asyncOne_interrupt_dec nested sem gi g span k s i hi
  unfold stepOne
  simp only [decStep, hd]

/-- outputs of the single-interrupt step are declared outputs of the interrupt -/
theorem asyncOne_interrupt_keys (nested : Nested) (sem : Sem) (gi : Nat) (g : GraphD) (span : Span) (k : Nat)
    (s : GState) (i : NodeD) (hi : i.kind = .interrupt) (outs : AL Val)
    (h : (asyncOne₂ nested sem gi g span k s i).out.res = .ok outs) : ∀ n ∈ AL.keys outs, n ∈ i.outputs := by
  cases hc : collectInputs g s i i.inputs with
  | none => rw [asyncOne_none nested sem gi g span k s i hc] at h; cases h
  | some inputs =>
    rw [(asyncOne_some nested sem gi g span k s i inputs hc).2.1] at h
    unfold execNode at h; simp only [hi] at h
    exact execInterrupt_keys sem gi i inputs s outs h

/-- calls logged by the per-node result of an interrupt are calls of its own handler -/
theorem asyncOne_interrupt_calls (nested : Nested) (sem : Sem) (gi : Nat) (g : GraphD) (span : Span) (k : Nat)
    (s : GState) (i : NodeD) (hi : i.kind = .interrupt) (f : String) (a : AL Val)
    (h : Log.call f a ∈ (asyncOne₂ nested sem gi g span k s i).out.log) : f = fnId gi i := by
  unfold asyncOne₂ at h
  split at h
  · cases h
  · rename_i inputs hc
    simp only [List.mem_append, List.mem_singleton] at h
    rcases h with (h | h) | h
    · cases h
    · unfold execNode at h; simp only [hi] at h
      rcases execInterrupt_log sem gi i inputs s with hl | hl
      · rw [hl] at h; cases h
      · rw [hl] at h
        simp only [List.mem_singleton, Log.call.injEq] at h
        exact h.1
    · split at h
      · cases h
      · rw [List.mem_append] at h
        rcases h with h | h
        · unfold routeEvent at h
          split at h
          · split at h
            · simp at h
            · cases h
          · cases h
        · simp at h
      · simp at h

/-! ## where the pause of a step comes from -/

theorem execFn_pause (sem : Sem) (gi : Nat) (nd : NodeD) (inputs : AL Val) :
    (execFn sem gi nd inputs).pause = .none := by
  unfold execFn
  simp only []
  split
  · rfl
  · rfl
  · split <;> rfl

theorem execIfElse_pause (sem : Sem) (gi : Nat) (nd : NodeD) (inputs : AL Val) :
    (execIfElse sem gi nd inputs).pause = .none := by
  unfold execIfElse
  simp only []
  split <;> rfl

theorem execRoute_pause (sem : Sem) (gi : Nat) (nd : NodeD) (inputs : AL Val) :
    (execRoute sem gi nd inputs).pause = .none := by
  unfold execRoute
  simp only []
  split
  · rfl
  · split <;> rfl
  · split <;> rfl
  · rfl

/-- the nested pause re-raised by a graph node -/
def prefixPause (nd : NodeD) (q : PauseInfo) : PauseInfo := { q with nodeName := nd.name ++ "/" ++ q.nodeName }

theorem execGraphNode_pause_iff (nested : Nested) (nd : NodeD) (inputs : AL Val) (sp : Span) (p : PauseInfo) :
    (execGraphNode nested nd inputs sp).pause = some p ↔
      nd.mapOver = [] ∧ (nested.run nd.inner (toParams nd inputs) sp).raised = false ∧
      (nested.run nd.inner (toParams nd inputs) sp).status = .paused ∧
      ∃ q, (nested.run nd.inner (toParams nd inputs) sp).pause = some q ∧ p = prefixPause nd q := by
  unfold execGraphNode
  simp only []
  generalize nested.run nd.inner (toParams nd inputs) sp = r
  cases hm : nd.mapOver with
  | cons a t =>
    simp only [List.isEmpty_cons, Bool.not_false, if_true]
    constructor
    · intro h
      split at h
      · cases h
      · split at h <;> cases h
    · rintro ⟨h, _⟩; cases h
  | nil =>
    simp only [List.isEmpty_nil, Bool.not_true, Bool.false_eq_true, if_false, true_and]
    cases hr : r.raised with
    | true => simp
    | false =>
      simp only [Bool.false_eq_true, if_false, true_and]
      cases hs : r.status <;> cases hp : r.pause <;> simp [prefixPause, eq_comm]

theorem execGraphNode_pause_fields (nested : Nested) (nd : NodeD) (inputs : AL Val) (sp : Span) (p : PauseInfo)
    (h : (execGraphNode nested nd inputs sp).pause = some p) :
    (execGraphNode nested nd inputs sp).res = .ok [] ∧ (execGraphNode nested nd inputs sp).dec = .none ∧
    (execGraphNode nested nd inputs sp).log = (nested.run nd.inner (toParams nd inputs) sp).log := by
  obtain ⟨hm, hr, hs, q, hq, _⟩ := (execGraphNode_pause_iff nested nd inputs sp p).1 h
  unfold execGraphNode
  simp only [hm, List.isEmpty_nil, Bool.not_true, Bool.false_eq_true, if_false, hr, hs, hq, and_self]

/-- only interrupt nodes and nested-graph nodes can pause -/
theorem execNode_pause_cases (nested : Nested) (sem : Sem) (gi : Nat) (nd : NodeD) (inputs : AL Val)
    (ns : GState) (sp : Span) (p : PauseInfo) (h : (execNode nested sem gi nd inputs ns sp).pause = some p) :
    (nd.kind = .interrupt ∧ (execInterrupt sem gi nd inputs ns).pause = some p) ∨
    (nd.kind = .graph ∧ (execGraphNode nested nd inputs sp).pause = some p) := by
  unfold execNode at h
  cases hk : nd.kind <;> simp only [hk] at h
  · rw [execFn_pause] at h; cases h
  · rw [execRoute_pause] at h; cases h
  · rw [execIfElse_pause] at h; cases h
  · exact Or.inr ⟨rfl, h⟩
  · exact Or.inl ⟨rfl, h⟩

theorem asyncOne_pause (nested : Nested) (sem : Sem) (gi : Nat) (g : GraphD) (span : Span) (k : Nat)
    (s : GState) (nd : NodeD) (p : PauseInfo) (h : (asyncOne₂ nested sem gi g span k s nd).out.pause = some p) :
    ∃ inputs, collectInputs g s nd nd.inputs = some inputs ∧
      (execNode nested sem gi nd inputs s (nodeSpanOf span k nd)).pause = some p := by
  cases hc : collectInputs g s nd nd.inputs with
  | none => rw [asyncOne_none nested sem gi g span k s nd hc] at h; cases h
  | some inputs =>
    rw [(asyncOne_some nested sem gi g span k s nd inputs hc).2.2.2] at h
    exact ⟨inputs, rfl, h⟩

/-- a pausing async step: the pause is that of the first paused-or-failed node (in ready order) among the
nodes the step runs -/
theorem stepAsync_pause_source (nested : Nested) (sem : Sem) (gi : Nat) (g : GraphD) (span : Span) (k : Nat)
    (order : List Nat) (s : GState) (rs : List NodeD) (p : PauseInfo) (ps : GState) (l : List Log)
    (h : stepAsync nested sem gi g span k order s rs = .pause p ps l) :
    ∃ pre nd post, asyncRs₂ rs = pre ++ nd :: post ∧
      (∀ m ∈ pre, isBad (asyncOne₂ nested sem gi g span k s m) = false) ∧
      (asyncOne₂ nested sem gi g span k s nd).out.pause = some p := by
  rw [stepAsync_eq] at h
  simp only at h
  split at h
  · cases h
  · rename_i r hf
    have hrp : r.out.pause = some p := by
      cases hp : r.out.pause with
      | some p' => simp only [hp] at h; injection h with h1 _ _; rw [h1]
      | none =>
        cases hres : r.out.res with
        | error e => simp only [hp, hres] at h; cases h
        | ok o => simp only [hp, hres] at h; cases h
    obtain ⟨_, as, bs, hab, has⟩ := List.find?_eq_some_iff_append.1 hf
    obtain ⟨pre, rest, hrs, hpre, hrest⟩ := List.map_eq_append_iff.1 hab
    obtain ⟨nd, post, hrest', hnd, hpost⟩ := List.map_eq_cons_iff.1 hrest
    refine ⟨pre, nd, post, by rw [hrs, hrest'], ?_, by rw [hnd]; exact hrp⟩
    intro m hm
    have : asyncOne₂ nested sem gi g span k s m ∈ as := by rw [← hpre]; exact List.mem_map_of_mem hm
    simpa using has _ this

/-! ### the partial state of a pausing async step -/

/-- the state an async step has computed besides its outcome: the snapshot `s` with the decisions of the
nodes it ran (completion order) and, in ready order, the outputs and execution records of the nodes that
succeeded (`ns2` of `stepAsync`). `.ok` returns it; `.fail` AND `.pause` report it as partial state. -/
def asyncState (nested : Nested) (sem : Sem) (gi : Nat) (g : GraphD) (span : Span) (k : Nat)
    (order : List Nat) (s : GState) (rs : List NodeD) : GState :=
  ((asyncRs₂ rs).map (asyncOne₂ nested sem gi g span k s)).foldl (valStep s)
    ((permute ((asyncRs₂ rs).map (asyncOne₂ nested sem gi g span k s)) order).foldl decStep s)

/-- a pausing async step reports `ns2` — the same state a failing step reports -/
theorem stepAsync_pause_state (nested : Nested) (sem : Sem) (gi : Nat) (g : GraphD) (span : Span) (k : Nat)
    (order : List Nat) (s : GState) (rs : List NodeD) (p : PauseInfo) (ps : GState) (l : List Log)
    (h : stepAsync nested sem gi g span k order s rs = .pause p ps l) :
    ps = asyncState nested sem gi g span k order s rs := by
  rw [stepAsync_eq] at h
  simp only at h
  unfold asyncState
  split at h
  · cases h
  · split at h
    · injection h with _ h2 _; exact h2.symm
    · cases h
    · cases h

theorem stepAsync_fail_state (nested : Nested) (sem : Sem) (gi : Nat) (g : GraphD) (span : Span) (k : Nat)
    (order : List Nat) (s : GState) (rs : List NodeD) (e : ErrId) (ps : GState) (l : List Log)
    (h : stepAsync nested sem gi g span k order s rs = .fail e ps l) :
    ps = asyncState nested sem gi g span k order s rs := by
  rw [stepAsync_eq] at h
  simp only at h
  unfold asyncState
  split at h
  · cases h
  · split at h
    · cases h
    · injection h with _ h2 _; exact h2.symm
    · cases h

/-- the values of `ns2`: the snapshot's values with the outputs of the successful nodes merged in, in
ready order -/
theorem asyncState_values (nested : Nested) (sem : Sem) (gi : Nat) (g : GraphD) (span : Span) (k : Nat)
    (order : List Nat) (s : GState) (rs : List NodeD) :
    (asyncState nested sem gi g span k order s rs).values =
      AL.merge s.values (writes ((asyncRs₂ rs).map (asyncOne₂ nested sem gi g span k s))) := by
  unfold asyncState
  rw [async_state_eq, GState.withDec_values, foldl_valStep_values]

theorem okOuts_of_ok {r : AsyncOne} {outs : AL Val} (hp : r.out.pause = .none) (hr : r.out.res = .ok outs) :
    okOuts r = outs := by
  unfold okOuts; simp only [hp, hr]

/-- value-level reading of `ns2` (`okOuts r` = the outputs of a node that succeeded, `[]` for one that failed
or paused): a name no successful node wrote keeps the value (or absence) it has in the snapshot; every output
of every successful node is present; values only grow -/
theorem asyncState_values_spec (nested : Nested) (sem : Sem) (gi : Nat) (g : GraphD) (span : Span) (k : Nat)
    (order : List Nat) (s : GState) (rs : List NodeD) :
    (∀ name, (∀ r ∈ (asyncRs₂ rs).map (asyncOne₂ nested sem gi g span k s), name ∉ AL.keys (okOuts r)) →
      AL.get? (asyncState nested sem gi g span k order s rs).values name = AL.get? s.values name) ∧
    (∀ r ∈ (asyncRs₂ rs).map (asyncOne₂ nested sem gi g span k s), ∀ o ∈ AL.keys (okOuts r),
      AL.has (asyncState nested sem gi g span k order s rs).values o = true) ∧
    (∀ q, AL.has s.values q = true → AL.has (asyncState nested sem gi g span k order s rs).values q = true) := by
  rw [asyncState_values]
  generalize (asyncRs₂ rs).map (asyncOne₂ nested sem gi g span k s) = R
  have hkeys : ∀ name, name ∈ AL.keys (writes R) ↔ ∃ r ∈ R, name ∈ AL.keys (okOuts r) := by
    intro name
    simp only [writes, AL.keys, List.map_flatMap, List.mem_flatMap]
  refine ⟨?_, ?_, ?_⟩
  · intro name hn
    apply AL.get?_merge_of_not_mem₂
    rw [hkeys]
    rintro ⟨r, hr, hm⟩
    exact hn r hr hm
  · intro r hr o ho
    rw [C01.has_merge, Bool.or_eq_true]
    right
    rw [← AL.mem_keys_iff_has, hkeys]
    exact ⟨r, hr, ho⟩
  · intro q hq
    exact AL.has_merge_of_has _ _ _ hq

/-- KEY FACT: when the ready list contains an interrupt node, the step runs that interrupt ALONE; a lone
paused result applies no outputs and an interrupt stores no decision — the partial state of the pause IS
the snapshot `s` -/
theorem stepAsync_pause_interrupt_state (nested : Nested) (sem : Sem) (gi : Nat) (g : GraphD) (span : Span)
    (k : Nat) (order : List Nat) (s : GState) (rs : List NodeD) (i : NodeD) (p : PauseInfo) (ps : GState)
    (l : List Log) (hf : rs.find? (·.isInterrupt) = some i)
    (h : stepAsync nested sem gi g span k order s rs = .pause p ps l) : ps = s := by
  have hi : i.kind = .interrupt := (isInterrupt_iff i).1 (by simpa using List.find?_some hf)
  rw [stepAsync_isolated nested sem gi g span k order s rs i hf, stepAsync_singleton,
    stepOne_interrupt nested sem gi g span k s i hi] at h
  simp only at h
  split at h
  · injection h with _ h2 _; exact h2.symm
  · cases h
  · cases h

/-- a ready list containing an interrupt node has a first one -/
theorem find_interrupt_of_mem {rs : List NodeD} {nd : NodeD} (hm : nd ∈ rs) (hk : nd.kind = .interrupt) :
    ∃ i, rs.find? (·.isInterrupt) = some i := by
  cases hf : rs.find? (·.isInterrupt) with
  | some i => exact ⟨i, rfl⟩
  | none =>
    have := List.find?_eq_none.1 hf nd hm
    rw [(isInterrupt_iff nd).2 hk] at this
    exact absurd rfl this

/-- a pausing async step, in full: its partial state is `ns2`; the pause is
* an interrupt node's own pause — then that interrupt is the first one of the ready list, it ran ALONE, and
  the partial state is the snapshot; or
* a nested-graph node's re-raised pause — then the ready list holds no interrupt and every ready node ran. -/
theorem stepAsync_pause_cases_state (nested : Nested) (sem : Sem) (gi : Nat) (g : GraphD) (span : Span) (k : Nat)
    (order : List Nat) (s : GState) (rs : List NodeD) (p : PauseInfo) (ps : GState) (l : List Log)
    (h : stepAsync nested sem gi g span k order s rs = .pause p ps l) :
    ps = asyncState nested sem gi g span k order s rs ∧
    ∃ nd ∈ rs, ∃ inputs, collectInputs g s nd nd.inputs = some inputs ∧
      ((nd.kind = .interrupt ∧ rs.find? (·.isInterrupt) = some nd ∧
          (execInterrupt sem gi nd inputs s).pause = some p ∧ ps = s) ∨
       (nd.kind = .graph ∧ rs.find? (·.isInterrupt) = .none ∧ asyncRs₂ rs = rs ∧
          (execGraphNode nested nd inputs (nodeSpanOf span k nd)).pause = some p)) := by
  refine ⟨stepAsync_pause_state nested sem gi g span k order s rs p ps l h, ?_⟩
  obtain ⟨pre, nd, post, hrs, _, hp⟩ := stepAsync_pause_source nested sem gi g span k order s rs p ps l h
  obtain ⟨inputs, hc, he⟩ := asyncOne_pause nested sem gi g span k s nd p hp
  have hmemA : nd ∈ asyncRs₂ rs := by rw [hrs]; simp
  cases hf : rs.find? (·.isInterrupt) with
  | some i =>
    rw [asyncRs_of_find hf, List.mem_singleton] at hmemA
    subst hmemA
    have hi : nd.kind = .interrupt := (isInterrupt_iff nd).1 (by simpa using List.find?_some hf)
    refine ⟨nd, List.mem_of_find?_eq_some hf, inputs, hc, Or.inl ⟨hi, rfl, ?_, ?_⟩⟩
    · rcases execNode_pause_cases nested sem gi nd inputs s _ p he with ⟨_, hx⟩ | ⟨hg, _⟩
      · exact hx
      · rw [hi] at hg; cases hg
    · exact stepAsync_pause_interrupt_state nested sem gi g span k order s rs nd p ps l hf h
  | none =>
    have hall : asyncRs₂ rs = rs := asyncRs_none hf
    rw [hall] at hmemA
    refine ⟨nd, hmemA, inputs, hc, Or.inr ?_⟩
    rcases execNode_pause_cases nested sem gi nd inputs s _ p he with ⟨hk, _⟩ | ⟨hg, hx⟩
    · obtain ⟨i, hi⟩ := find_interrupt_of_mem hmemA hk
      rw [hf] at hi; cases hi
    · exact ⟨hg, rfl, hall, hx⟩

/-- …hence it is an interrupt node's own pause, or a nested-graph node's re-raised pause -/
theorem stepAsync_pause_cases (nested : Nested) (sem : Sem) (gi : Nat) (g : GraphD) (span : Span) (k : Nat)
    (order : List Nat) (s : GState) (rs : List NodeD) (p : PauseInfo) (ps : GState) (l : List Log)
    (h : stepAsync nested sem gi g span k order s rs = .pause p ps l) :
    ∃ nd ∈ rs, ∃ inputs, collectInputs g s nd nd.inputs = some inputs ∧
      ((nd.kind = .interrupt ∧ (execInterrupt sem gi nd inputs s).pause = some p) ∨
       (nd.kind = .graph ∧ (execGraphNode nested nd inputs (nodeSpanOf span k nd)).pause = some p)) := by
  obtain ⟨_, nd, hmem, inputs, hc, hcases⟩ :=
    stepAsync_pause_cases_state nested sem gi g span k order s rs p ps l h
  refine ⟨nd, hmem, inputs, hc, ?_⟩
  rcases hcases with ⟨hk, _, hx, _⟩ | ⟨hk, _, _, hx⟩
  · exact Or.inl ⟨hk, hx⟩
  · exact Or.inr ⟨hk, hx⟩

/-! ## logs of loops and paused runs -/

/-- a property of events that holds of the initial log and of every step's log holds of the loop's log -/
theorem runLoop_evs (φ : Ev → Prop) (step : Nat → GState → List NodeD → StepOut) (g : GraphD)
    (act : Option (List Name)) (maxIter : Nat)
    (hstep : ∀ k s rs e, Log.ev e ∈ (step k s rs).log → φ e) (fuel k : Nat) (s : GState)
    (log : List Log) (hl : ∀ e, Log.ev e ∈ log → φ e) :
    ∀ e, Log.ev e ∈ (runLoop step g act maxIter fuel k s log).log → φ e := by
  induction fuel generalizing k s log with
  | zero =>
    unfold runLoop
    simp only []
    split <;> exact hl
  | succ fuel ih =>
    unfold runLoop
    split
    · exact hl
    · rename_i rs s1 _ _
      have := hstep k s1 rs
      have happ : ∀ l, (∀ e, Log.ev e ∈ l → φ e) → ∀ e, Log.ev e ∈ log ++ l → φ e := by
        intro l hl' e he
        rcases List.mem_append.1 he with h | h
        · exact hl e h
        · exact hl' e h
      split
      · rename_i ns l heq
        rw [heq] at this
        exact ih _ _ _ (happ l this)
      · rename_i e ps l heq
        rw [heq] at this
        exact happ l this
      · rename_i p l heq
        rw [heq] at this
        exact happ l this

/-- `filter_outputs(…, on_missing="ignore")` always succeeds without warnings -/
theorem filterOutputs_ignore (g : GraphD) (s : GState) (sel : Select) :
    filterOutputs g s sel .ignore = .ok (partialValues g s sel, 0) := by
  unfold partialValues
  unfold filterOutputs
  split
  · rfl
  · simp only
    split <;> rfl

/-- in a run whose parent span does not extend its own span, the loop never logs a `RunEnd` event with
that parent: such an event can only be appended by `run()` itself -/
theorem runGraphLoop_no_runEnd (nested : Nested) (hn : NestedScoped nested) (sem : Sem) (runner : Runner)
    (gi : Nat) (g : GraphD) (values : AL Val) (cfg : RunCfg) (span : Span) (parent : Option Span)
    (hpar : ∀ q, parent ≠ some (span ++ q)) :
    ∀ e, Log.ev e ∈ (runGraphLoop nested sem runner gi g values cfg span parent).log →
      e.kind = "RunEnd" → e.parent ≠ parent := by
  unfold runGraphLoop
  apply runLoop_evs (fun e => e.kind = "RunEnd" → e.parent ≠ parent)
  · intro k s rs e he _
    have := step_logUnder nested hn sem runner gi g span k s rs e (by
      unfold runStep at he
      cases runner <;> exact he)
    obtain ⟨q, hq⟩ := this
    rw [hq]; exact fun h => hpar q h.symm
  · intro e he hk
    simp only [runStartEv, List.mem_singleton, Log.ev.injEq] at he
    subst he
    have : ("RunStart" : String) ≠ "RunEnd" := by decide
    exact absurd hk this

/-! ## nested pauses: the path of graph nodes down to the interrupt -/

/-- `n₁/n₂/…/n_d/leaf` -/
def nestName (path : List Name) (leaf : String) : String := path.foldr (fun n acc => n ++ "/" ++ acc) leaf

/-- `path` names graph nodes nested inside one another, starting in graph `gi` of the program and ending
in a graph that contains the interrupt node `leaf` -/
def ChainIn (prog : Program) : Nat → List Name → Name → Prop
  | gi, [], leaf => ∃ nd ∈ (prog.getD gi default).nodes, nd.kind = .interrupt ∧ nd.name = leaf
  | gi, n :: rest, leaf =>
    ∃ nd ∈ (prog.getD gi default).nodes, nd.kind = .graph ∧ nd.name = n ∧ ChainIn prog nd.inner rest leaf

/-- characters of a node name split at every "/" (Python `str.split("/")`) -/
def splitSlash : List Char → List (List Char)
  | [] => [[]]
  | c :: cs =>
    if c = '/' then [] :: splitSlash cs
    else match splitSlash cs with
      | h :: t => (c :: h) :: t
      | [] => [[c]]

theorem splitSlash_noslash (cs : List Char) (h : '/' ∉ cs) : splitSlash cs = [cs] := by
  induction cs with
  | nil => rfl
  | cons c cs ih =>
    have hc : c ≠ '/' := fun e => h (e ▸ List.mem_cons_self)
    have := ih (fun hm => h (List.mem_cons_of_mem _ hm))
    simp [splitSlash, hc, this]

theorem splitSlash_one (a b : List Char) (ha : '/' ∉ a) (hb : '/' ∉ b) :
    splitSlash (a ++ '/' :: b) = [a, b] := by
  induction a with
  | nil => simp [splitSlash, splitSlash_noslash b hb]
  | cons c cs ih =>
    have hc : c ≠ '/' := fun e => ha (e ▸ List.mem_cons_self)
    have := ih (fun hm => ha (List.mem_cons_of_mem _ hm))
    simp [splitSlash, hc, this]

/-- a run reports a pause only when its loop paused -/
theorem runGraph_pause_inv (nested : Nested) (sem : Sem) (runner : Runner) (gi : Nat) (g : GraphD)
    (values : AL Val) (cfg : RunCfg) (span : Span) (parent : Option Span) (p : PauseInfo)
    (h : (runGraph nested sem runner gi g values cfg span parent).pause = some p) :
    ∃ ps log n, runGraphLoop nested sem runner gi g values cfg span parent = .pause p ps log n := by
  rw [runGraph_eq] at h
  cases hL : runGraphLoop nested sem runner gi g values cfg span parent with
  | done s log n =>
    rw [hL] at h
    simp only [finishRun] at h
    split at h
    · cases h
    · split at h <;> cases h
  | fail e ps log n =>
    rw [hL] at h
    simp only [finishRun] at h
    split at h <;> cases h
  | pause p' ps log n =>
    rw [hL] at h
    simp only [finishRun, Option.some.injEq] at h
    subst h
    exact ⟨ps, log, n, rfl⟩

/-- where the pause of an async run comes from: an interrupt node of the graph, or a graph node of it
whose nested run paused -/
theorem runGraph_pause_cases (nested : Nested) (sem : Sem) (order : Nat → List Nat) (gi : Nat) (g : GraphD)
    (values : AL Val) (cfg : RunCfg) (span : Span) (parent : Option Span) (p : PauseInfo)
    (h : (runGraph nested sem (.async order) gi g values cfg span parent).pause = some p) :
    ∃ nd ∈ g.nodes,
      (nd.kind = .interrupt ∧ ∃ inputs ns, (execInterrupt sem gi nd inputs ns).pause = some p) ∨
      (nd.kind = .graph ∧ ∃ vals sp q, (nested.run nd.inner vals sp).pause = some q ∧ p = prefixPause nd q) := by
  obtain ⟨ps, log, n, hL⟩ := runGraph_pause_inv nested sem (.async order) gi g values cfg span parent p h
  have ho := runLoop_outcome (runStep nested sem (.async order) gi g span) g (activeNodeSet g) cfg.maxIter
    cfg.maxIter 0 (initState values) [runStartEv span parent g ""]
  unfold runGraphLoop at hL
  rw [hL] at ho
  cases ho with
  | stepPause s0 s1 rs k' p ps l log' h1 h2 h3 h4 h5 =>
    obtain ⟨nd, hmem, inputs, _, hc⟩ :=
      stepAsync_pause_cases nested sem gi g span k' (order k') s1 rs p ps l h3
    have hn : nd ∈ g.nodes := by
      have : nd ∈ (ready g (activeNodeSet g) s0).1 := by rw [h1]; exact hmem
      exact ready_mem_nodes this
    refine ⟨nd, hn, ?_⟩
    rcases hc with ⟨hk, hp⟩ | ⟨hk, hp⟩
    · exact Or.inl ⟨hk, inputs, s1, hp⟩
    · obtain ⟨_, _, _, q, hq, hpq⟩ := (execGraphNode_pause_iff nested nd inputs _ p).1 hp
      exact Or.inr ⟨hk, _, _, q, hq, hpq⟩

/-- depth-`d` identity: the node name reported by a paused run (nesting depth `d`) is `n₁/…/n_j/leaf`
for a chain of nested graph nodes `n₁ … n_j` (`j ≤ d`) ending at an interrupt node `leaf` -/
theorem paused_run_path (sem : Sem) (order : Nat → List Nat) (prog : Program) :
    ∀ (d gi : Nat) (values : AL Val) (cfg : RunCfg) (span : Span) (parent : Option Span) (p : PauseInfo),
      (runGraph (nestedAt sem (.async order) prog d) sem (.async order) gi (prog.getD gi default) values cfg
        span parent).pause = some p →
      ∃ path leaf, ChainIn prog gi path leaf ∧ path.length ≤ d ∧ p.nodeName = nestName path leaf := by
  intro d
  induction d with
  | zero =>
    intro gi values cfg span parent p h
    obtain ⟨nd, hn, hc⟩ := runGraph_pause_cases _ sem order gi _ values cfg span parent p h
    rcases hc with ⟨hk, inputs, ns, hp⟩ | ⟨_, vals, sp, q, hq, _⟩
    · obtain ⟨_, _, o, rest, _, hpp⟩ := (execInterrupt_pause_iff sem gi nd inputs ns p).1 hp
      exact ⟨[], nd.name, ⟨nd, hn, hk, rfl⟩, Nat.le_refl _, by rw [hpp]; rfl⟩
    · simp [nestedAt] at hq
  | succ d ih =>
    intro gi values cfg span parent p h
    obtain ⟨nd, hn, hc⟩ := runGraph_pause_cases _ sem order gi _ values cfg span parent p h
    rcases hc with ⟨hk, inputs, ns, hp⟩ | ⟨hk, vals, sp, q, hq, hpq⟩
    · obtain ⟨_, _, o, rest, _, hpp⟩ := (execInterrupt_pause_iff sem gi nd inputs ns p).1 hp
      exact ⟨[], nd.name, ⟨nd, hn, hk, rfl⟩, Nat.zero_le _, by rw [hpp]; rfl⟩
    · simp only [nestedAt] at hq
      obtain ⟨path, leaf, hch, hlen, hname⟩ := ih nd.inner vals {} _ _ q hq
      refine ⟨nd.name :: path, leaf, ⟨nd, hn, hk, rfl, hch⟩, by simp; omega, ?_⟩
      rw [hpq]
      simp only [prefixPause, nestName, List.foldr_cons]
      rw [hname]; rfl

/-! ## the superstep of a lone interrupt, by outcome of the executor -/

theorem stepOne_interrupt_ok (nested : Nested) (sem : Sem) (gi : Nat) (g : GraphD) (span : Span) (k : Nat)
    (s : GState) (i : NodeD) (hi : i.kind = .interrupt) (inputs outs : AL Val)
    (hc : collectInputs g s i i.inputs = some inputs)
    (hp : (execInterrupt sem gi i inputs s).pause = .none) (hres : (execInterrupt sem gi i inputs s).res = .ok outs) :
    stepOne nested sem gi g span k s i =
      .ok (recordExec s (s.applyOutputs outs) i) (asyncOne₂ nested sem gi g span k s i).out.log := by
  obtain ⟨_, h2, _, h4⟩ := asyncOne_some nested sem gi g span k s i inputs hc
  unfold execNode at h2 h4; simp only [hi] at h2 h4
  rw [stepOne_interrupt nested sem gi g span k s i hi]
  simp only [h2, h4, hp, hres]

theorem stepOne_interrupt_pause (nested : Nested) (sem : Sem) (gi : Nat) (g : GraphD) (span : Span) (k : Nat)
    (s : GState) (i : NodeD) (hi : i.kind = .interrupt) (inputs : AL Val) (p : PauseInfo)
    (hc : collectInputs g s i i.inputs = some inputs)
    (hp : (execInterrupt sem gi i inputs s).pause = some p) :
    stepOne nested sem gi g span k s i = .pause p s (asyncOne₂ nested sem gi g span k s i).out.log := by
  obtain ⟨_, _, _, h4⟩ := asyncOne_some nested sem gi g span k s i inputs hc
  unfold execNode at h4; simp only [hi] at h4
  rw [stepOne_interrupt nested sem gi g span k s i hi]
  simp only [h4, hp]

/-- merging the same dict into two dicts that agree outside its keys gives dicts that agree everywhere -/
theorem merge_same_on {α : Type} (c : AL α) : ∀ (a b : AL α),
    (∀ k, AL.get? a k = AL.get? b k ∨ k ∈ AL.keys c) → AL.Same (AL.merge a c) (AL.merge b c) := by
  induction c with
  | nil =>
    intro a b h k
    rcases h k with h | h
    · exact h
    · cases h
  | cons kv c ih =>
    intro a b h
    obtain ⟨k, v⟩ := kv
    show AL.Same (AL.merge (AL.put a k v) c) (AL.merge (AL.put b k v) c)
    apply ih
    intro k'
    rcases h k' with h | h
    · left; rw [AL.get?_put, AL.get?_put, h]
    · rw [AL.keys_cons, List.mem_cons] at h
      rcases h with h | h
      · left; subst h; rw [AL.get?_put_same, AL.get?_put_same]
      · right; exact h

/-- no handler call in the per-node log of an interrupt that takes the resume path -/
theorem asyncOne_resume_no_call (nested : Nested) (sem : Sem) (gi : Nat) (g : GraphD) (span : Span) (k : Nat)
    (s : GState) (i : NodeD) (hi : i.kind = .interrupt) (hr : resumable i s = true) (f : String) (a : AL Val) :
    Log.call f a ∉ (asyncOne₂ nested sem gi g span k s i).out.log := by
  intro h
  unfold asyncOne₂ at h
  split at h
  · cases h
  · rename_i inputs hc
    simp only [List.mem_append, List.mem_singleton] at h
    rcases h with (h | h) | h
    · cases h
    · unfold execNode at h; simp only [hi] at h
      rw [execInterrupt_resume sem gi i inputs s hr] at h; cases h
    · split at h
      · cases h
      · rw [List.mem_append] at h
        rcases h with h | h
        · unfold routeEvent at h
          split at h
          · split at h
            · simp at h
            · cases h
          · cases h
        · simp at h
      · simp at h

/-! ## loop invariant: executed nodes had their inputs; values only grow -/

/-- every node with an execution record has all its inputs available in the state -/
def ExecsHaveInputs (g : GraphD) (s : GState) : Prop :=
  ∀ name, AL.has s.execs name = true →
    ∃ nd ∈ g.nodes, nd.name = name ∧ ∀ q ∈ nd.inputs, hasInput g s nd q = true

/-- a successful step only adds values and records only nodes of its ready list -/
def StepGrows (step : Nat → GState → List NodeD → StepOut) : Prop :=
  ∀ k s rs ns l, step k s rs = .ok ns l →
    (∀ q, AL.has s.values q = true → AL.has ns.values q = true) ∧
    (∀ name, AL.has ns.execs name = true → AL.has s.execs name = true ∨ ∃ nd ∈ rs, nd.name = name)

theorem hasInput_mono (g : GraphD) {s s' : GState} (h : ∀ q, AL.has s.values q = true → AL.has s'.values q = true)
    (nd : NodeD) (q : Name) (hq : hasInput g s nd q = true) : hasInput g s' nd q = true := by
  unfold hasInput at hq ⊢
  simp only [Bool.or_eq_true] at hq ⊢
  rcases hq with (hq | hq) | hq
  · exact Or.inl (Or.inl (h q hq))
  · exact Or.inl (Or.inr hq)
  · exact Or.inr hq

theorem hasInput_congr (g : GraphD) {s s' : GState} (h : s'.values = s.values) (nd : NodeD) (q : Name) :
    hasInput g s' nd q = hasInput g s nd q := by
  unfold hasInput; rw [h]

theorem execsHaveInputs_init (g : GraphD) (values : AL Val) : ExecsHaveInputs g (initState values) := by
  intro name h
  rw [C01.initState_execs] at h
  cases h

theorem execsHaveInputs_clear (g : GraphD) {s : GState} (h : ExecsHaveInputs g s) :
    ExecsHaveInputs g (clearStale g s) := by
  intro name hn
  rw [clearStale_execs] at hn
  obtain ⟨nd, hm, he, hin⟩ := h name hn
  exact ⟨nd, hm, he, fun q hq => by rw [hasInput_congr g (clearStale_values g s)]; exact hin q hq⟩

theorem foldl_valStep_execs (s : GState) (l : List AsyncOne) : ∀ (st : GState) (name : Name),
    AL.has (l.foldl (valStep s) st).execs name = true →
      AL.has st.execs name = true ∨ ∃ r ∈ l, r.nd.name = name := by
  induction l with
  | nil => intro st name h; exact Or.inl h
  | cons r t ih =>
    intro st name h
    rw [List.foldl_cons] at h
    rcases ih _ name h with h | ⟨r', hr', hn⟩
    · unfold valStep at h
      split at h
      · simp only [recordExec, GState.applyOutputs_execs, AL.has_put, Bool.or_eq_true, decide_eq_true_eq] at h
        rcases h with h | h
        · exact Or.inr ⟨r, List.mem_cons_self, h.symm⟩
        · exact Or.inl h
      · exact Or.inl h
    · exact Or.inr ⟨r', List.mem_cons_of_mem _ hr', hn⟩

theorem foldl_decStep_execs (l : List AsyncOne) (st : GState) : (l.foldl decStep st).execs = st.execs := by
  rw [foldl_decStep]; rfl

theorem foldl_decStep_values (l : List AsyncOne) (st : GState) : (l.foldl decStep st).values = st.values := by
  rw [foldl_decStep]; rfl

/-- the partial state a pausing step reports only adds values and records only nodes of its ready list -/
def PauseGrows (step : Nat → GState → List NodeD → StepOut) : Prop :=
  ∀ k s rs p ps l, step k s rs = .pause p ps l →
    (∀ q, AL.has s.values q = true → AL.has ps.values q = true) ∧
    (∀ name, AL.has ps.execs name = true → AL.has s.execs name = true ∨ ∃ nd ∈ rs, nd.name = name)

/-- `ns2` of an async step only adds values and records only nodes of the ready list -/
theorem asyncState_grows (nested : Nested) (sem : Sem) (gi : Nat) (g : GraphD) (span : Span) (k : Nat)
    (order : List Nat) (s : GState) (rs : List NodeD) (ns : GState)
    (hns : ns = ((asyncRs₂ rs).map (asyncOne₂ nested sem gi g span k s)).foldl (valStep s)
      ((permute ((asyncRs₂ rs).map (asyncOne₂ nested sem gi g span k s)) order).foldl decStep s)) :
    (∀ q, AL.has s.values q = true → AL.has ns.values q = true) ∧
    (∀ name, AL.has ns.execs name = true → AL.has s.execs name = true ∨ ∃ nd ∈ rs, nd.name = name) := by
  refine ⟨?_, ?_⟩
  · intro q hq
    rw [hns, foldl_valStep_values]
    apply AL.has_merge_of_has
    rw [foldl_decStep_values]; exact hq
  · intro name hn
    rw [hns] at hn
    rcases foldl_valStep_execs s _ _ name hn with h | ⟨r, hr, hname⟩
    · rw [foldl_decStep_execs] at h; exact Or.inl h
    · obtain ⟨nd, hnd, rfl⟩ := List.mem_map.1 hr
      rw [asyncOne_nd] at hname
      refine Or.inr ⟨nd, ?_, hname⟩
      unfold asyncRs₂ at hnd
      split at hnd
      · rename_i i hi
        rw [List.mem_singleton] at hnd; subst hnd
        exact List.mem_of_find?_eq_some hi
      · exact hnd

theorem stepAsync_grows (nested : Nested) (sem : Sem) (gi : Nat) (g : GraphD) (span : Span)
    (order : Nat → List Nat) :
    StepGrows (fun k s rs => stepAsync nested sem gi g span k (order k) s rs) := by
  intro k s rs ns l h
  simp only at h
  apply asyncState_grows nested sem gi g span k (order k) s rs ns
  rw [stepAsync_eq] at h
  simp only at h
  split at h
  · injection h with h1 _; exact h1.symm
  · split at h
    · cases h
    · cases h
    · injection h with h1 _; exact h1.symm

/-- the same for the partial state of a pausing async step (the successful siblings of a pausing
nested-graph node are in it: they were ready, so they had their inputs) -/
theorem stepAsync_pause_grows (nested : Nested) (sem : Sem) (gi : Nat) (g : GraphD) (span : Span)
    (order : Nat → List Nat) :
    PauseGrows (fun k s rs => stepAsync nested sem gi g span k (order k) s rs) := by
  intro k s rs p ps l h
  simp only at h
  exact asyncState_grows nested sem gi g span k (order k) s rs ps
    (stepAsync_pause_state nested sem gi g span k (order k) s rs p ps l h)

/-- the invariant is preserved by any state that grows out of the state handed to a step on the ready set -/
theorem execsHaveInputs_grow (g : GraphD) (act : Option (List Name)) {s : GState} (h : ExecsHaveInputs g s)
    (ns : GState)
    (hv : ∀ q, AL.has (ready g act s).2.values q = true → AL.has ns.values q = true)
    (he : ∀ name, AL.has ns.execs name = true →
      AL.has (ready g act s).2.execs name = true ∨ ∃ nd ∈ (ready g act s).1, nd.name = name) :
    ExecsHaveInputs g ns := by
  have h1 : ExecsHaveInputs g (ready g act s).2 := by rw [ready_snd]; exact execsHaveInputs_clear g h
  intro name hn
  rcases he name hn with hold | ⟨nd, hnd, hname⟩
  · obtain ⟨nd, hm, hne, hin⟩ := h1 name hold
    exact ⟨nd, hm, hne, fun q hq => hasInput_mono g hv nd q (hin q hq)⟩
  · have hr := (isReady_iff g _ nd).1 (ready_isReady hnd)
    rw [← ready_snd g act s] at hr
    exact ⟨nd, ready_mem_nodes hnd, hname, fun q hq => hasInput_mono g hv nd q (hr.2.1 q hq)⟩

/-- the invariant is preserved by a successful step taken from the ready set -/
theorem execsHaveInputs_step {step : Nat → GState → List NodeD → StepOut} (hg : StepGrows step)
    (g : GraphD) (act : Option (List Name)) {s : GState} (h : ExecsHaveInputs g s) (k : Nat) (ns : GState)
    (l : List Log) (hs : step k (ready g act s).2 (ready g act s).1 = .ok ns l) : ExecsHaveInputs g ns := by
  obtain ⟨hv, he⟩ := hg k _ _ ns l hs
  exact execsHaveInputs_grow g act h ns hv he

/-- …hence it holds of the partial state of a paused loop -/
theorem runLoop_pause_execsHaveInputs {step : Nat → GState → List NodeD → StepOut} (hg : StepGrows step)
    (hpg : PauseGrows step) (g : GraphD) (act : Option (List Name)) (mi : Nat) : ∀ (fuel k : Nat) (s : GState) (log : List Log)
      (p : PauseInfo) (ps : GState) (lg : List Log) (n : Nat), ExecsHaveInputs g s →
      runLoop step g act mi fuel k s log = .pause p ps lg n → ExecsHaveInputs g ps := by
  intro fuel
  induction fuel with
  | zero =>
    intro k s log p ps lg n _ h
    rw [runLoop_zero] at h
    split at h <;> cases h
  | succ f ih =>
    intro k s log p ps lg n hI h
    by_cases hr : (ready g act s).1 = []
    · rw [runLoop_succ_nil _ _ _ _ _ _ _ _ hr] at h; cases h
    · rw [runLoop_succ_cons _ _ _ _ _ _ _ _ hr] at h
      cases hs : step k (ready g act s).2 (ready g act s).1 with
      | ok ns l =>
        rw [hs] at h
        exact ih (k + 1) ns (log ++ l) p ps lg n (execsHaveInputs_step hg g act hI k ns l hs) h
      | fail e ps' l => rw [hs] at h; cases h
      | pause p' ps' l =>
        rw [hs] at h
        simp only [LoopOut.pause.injEq] at h
        rw [← h.2.1]
        obtain ⟨hv, he⟩ := hpg k _ _ p' ps' l hs
        exact execsHaveInputs_grow g act hI ps' hv he

/-! ## the pausing step is the first step that does not succeed -/

theorem runLoop_pause_stateAfter (step : Nat → GState → List NodeD → StepOut) (g : GraphD)
    (act : Option (List Name)) (mi : Nat) : ∀ (fuel k : Nat) (s : GState) (log : List Log)
      (p : PauseInfo) (ps : GState) (lg : List Log) (n : Nat),
      runLoop step g act mi fuel k s log = .pause p ps lg n →
      ∃ j s0 l, stateAfter step g act j k s = some s0 ∧ j < fuel ∧ n = k + j + 1 ∧
        (ready g act s0).1 ≠ [] ∧ step (k + j) (ready g act s0).2 (ready g act s0).1 = .pause p ps l := by
  intro fuel
  induction fuel with
  | zero =>
    intro k s log p ps lg n h
    rw [runLoop_zero] at h
    split at h <;> cases h
  | succ f ih =>
    intro k s log p ps lg n h
    by_cases hr : (ready g act s).1 = []
    · rw [runLoop_succ_nil _ _ _ _ _ _ _ _ hr] at h; cases h
    · rw [runLoop_succ_cons _ _ _ _ _ _ _ _ hr] at h
      cases hs : step k (ready g act s).2 (ready g act s).1 with
      | ok ns l =>
        rw [hs] at h
        obtain ⟨j, s0, l', hst, hj, hn, hne, hstep⟩ := ih (k + 1) ns (log ++ l) p ps lg n h
        refine ⟨j + 1, s0, l', ?_, by omega, by omega, hne, ?_⟩
        · simp only [stateAfter, hr, if_false, hs]; exact hst
        · have : k + (j + 1) = k + 1 + j := by omega
          rw [this]; exact hstep
      | fail e ps' l => rw [hs] at h; cases h
      | pause p' ps' l =>
        rw [hs] at h
        simp only [LoopOut.pause.injEq] at h
        obtain ⟨hp, hps, _, hn⟩ := h
        subst hp; subst hps
        exact ⟨0, s, l, rfl, by omega, by omega, hr, hs⟩

/-! ## schedule-independent evaluation of an acyclic gate-free graph, with seeded values

A generalisation of the C01 development (`HG/Lemmas/Dag*.lean`): the step may execute ANY non-empty
sub-list of the ready list (the async runner executes a ready interrupt alone), and the initial values
may already contain outputs of nodes, provided the producer would write exactly that value (a supplied
interrupt response). -/
section sched
open HG.C01

/-- structural hypotheses: no gates, no `wait_for`, consistent defaults, unique producers, acyclic (level
function), and a parameter fed by a node has neither a bound value nor a default -/
structure WFI (g : GraphD) (level : Name → Nat) : Prop where
  gf : GateFree g
  nw : NoWaitFor g
  wd : WellDefaulted g
  up : UniqueProducers g
  lt : ∀ n ∈ g.nodes, ∀ p ∈ n.inputs, ∀ m ∈ g.nodes, p ∈ m.outputs → level m.name < level n.name
  fed : ∀ n ∈ g.nodes, ∀ p ∈ n.inputs, ∀ m ∈ g.nodes, p ∈ m.outputs →
    AL.has g.spec.bound p = false ∧ n.hasDefault.contains p = false

instance (g : GraphD) (level : Name → Nat) : Decidable (WFI g level) :=
  if h : GateFree g ∧ NoWaitFor g ∧ WellDefaulted g ∧ UniqueProducers g ∧
      (∀ n ∈ g.nodes, ∀ p ∈ n.inputs, ∀ m ∈ g.nodes, p ∈ m.outputs → level m.name < level n.name) ∧
      (∀ n ∈ g.nodes, ∀ p ∈ n.inputs, ∀ m ∈ g.nodes, p ∈ m.outputs →
        AL.has g.spec.bound p = false ∧ n.hasDefault.contains p = false)
  then isTrue ⟨h.1, h.2.1, h.2.2.1, h.2.2.2.1, h.2.2.2.2.1, h.2.2.2.2.2⟩
  else isFalse fun h' => h ⟨h'.gf, h'.nw, h'.wd, h'.up, h'.lt, h'.fed⟩

/-- an output already present in the initial state `s0` is a constant of its producer (and not the emit
sentinel): executing the producer rewrites the same value -/
def SeedOK (sem : Sem) (g : GraphD) (s0 : GState) : Prop :=
  ∀ m ∈ g.nodes, ∀ o ∈ m.outputs, ∀ v, AL.get? s0.values o = some v →
    v ≠ Val.sentinel ∧ ∀ inputs, AL.get? (outsOf sem m inputs) o = some v

/-- the invariant of every reachable state (`s0` = initial state) -/
structure KInv (sem : Sem) (g : GraphD) (s0 s : GState) : Prop where
  static_vals : ∀ p, (∀ m ∈ g.nodes, p ∉ m.outputs) → AL.get? s.values p = AL.get? s0.values p
  done : ∀ n ∈ g.nodes, AL.has s.execs n.name = true →
    needsExec g s n = false ∧ Holds sem g s n ∧ ∀ p ∈ n.inputs, hasInput g s n p = true
  fresh : ∀ n ∈ g.nodes, AL.has s.execs n.name = false → ∀ o ∈ n.outputs,
    AL.get? s.values o = AL.get? s0.values o
  seeded : ∀ m ∈ g.nodes, ∀ o ∈ m.outputs, AL.has s0.values o = true →
    AL.get? s.values o = AL.get? s0.values o ∧ s.ver o = s0.ver o

theorem kinv_init (sem : Sem) (g : GraphD) (s0 : GState) (h0 : s0.execs = []) : KInv sem g s0 s0 := by
  refine ⟨fun _ _ => rfl, ?_, fun _ _ _ _ _ => rfl, fun _ _ _ _ _ => ⟨rfl, rfl⟩⟩
  intro n _ h
  rw [h0] at h; cases h

/-- rewriting the value a name already holds (not the sentinel) does not advance its version -/
theorem applyOutputs_ver_same (o : Name) (v : Val) (hv : v ≠ Val.sentinel) : ∀ (outs : AL Val) (st : GState),
    NodupKeys outs → AL.get? outs o = some v → AL.get? st.values o = some v →
    (st.applyOutputs outs).ver o = st.ver o := by
  intro outs
  induction outs with
  | nil => intro st _ h; cases h
  | cons kv t ih =>
    intro st hnd hg hst
    obtain ⟨a, w⟩ := kv
    have hnd' : a ∉ AL.keys t ∧ NodupKeys t := by
      simpa [NodupKeys, AL.keys_cons] using hnd
    rw [applyOutputs_cons]
    by_cases ha : o = a
    · subst ha
      have hw : w = v := by simpa [AL.get?] using hg
      subst hw
      have hto : AL.has t o = false := by
        rw [C01.has_eq_false_iff, AL.get?_eq_none_iff]; exact hnd'.1
      rw [applyOutputs_ver_other t o hto]
      unfold GState.updateValue GState.ver
      have hb : st.bumps o w = false := by
        unfold GState.bumps; rw [hst]
        cases hws : w == Val.sentinel with
        | true => exact absurd (by simpa using hws) hv
        | false => simp
      simp [hb]
    · have hg' : AL.get? t o = some v := by simpa [AL.get?, ha] using hg
      rw [ih (st.updateValue a w) hnd'.2 hg' (by rw [updateValue_values]; simp [ha, hst]),
        updateValue_ver_other _ _ _ _ ha]

variable {sem : Sem} {g : GraphD}

theorem execOne_ver_same (hs : SemTotal sem g) (s st : GState) {nd : NodeD} (hn : nd ∈ g.nodes)
    (he : nd.emits.Nodup) {args : AL Val} (hc : collectInputs g s nd nd.inputs = some args)
    {o : Name} {v : Val} (hv : v ≠ Val.sentinel) (hout : AL.get? (outsOf sem nd args) o = some v)
    (hst : AL.get? st.values o = some v) : (execOne sem g s st nd).ver o = st.ver o := by
  obtain ⟨x, _, hw⟩ := outsOf_spec hs hn args
  simp only [execOne, hc]
  rw [recordExec_ver]
  exact applyOutputs_ver_same o v hv _ st (wrapOutputs_nodupKeys he hw) hout hst

theorem foldl_ver_same (hs : SemTotal sem g) (s : GState) (argsOf : NodeD → AL Val) {o : Name} {v : Val}
    (hv : v ≠ Val.sentinel) :
    ∀ (rs : List NodeD) (st : GState) (r : NodeD), r ∈ rs → o ∈ r.outputs →
      (∀ r' ∈ rs, r' ∈ g.nodes ∧ r'.emits.Nodup ∧ collectInputs g s r' r'.inputs = some (argsOf r')) →
      rs.Pairwise (fun a b => ∀ o ∈ a.outputs, o ∉ b.outputs) →
      AL.get? (outsOf sem r (argsOf r)) o = some v → AL.get? st.values o = some v →
      (rs.foldl (execOne sem g s) st).ver o = st.ver o := by
  intro rs
  induction rs with
  | nil => intro st r hr; cases hr
  | cons a rs ih =>
    intro st r hr ho hall hpw hout hst
    rw [List.pairwise_cons] at hpw
    rw [List.foldl_cons]
    obtain ⟨han, hae, hac⟩ := hall a List.mem_cons_self
    rcases List.mem_cons.mp hr with e | hr'
    · subst e
      rw [foldl_ver_other hs s o rs _
        (fun r' hr' => ⟨(hall r' (List.mem_cons_of_mem _ hr')).1, hpw.1 r' hr' o ho⟩)]
      exact execOne_ver_same hs s st han hae hac hv hout hst
    · have hoa : o ∉ a.outputs := fun h => hpw.1 r hr' o h ho
      rw [ih _ r hr' ho (fun r' h' => hall r' (List.mem_cons_of_mem _ h')) hpw.2 hout
        (by rw [execOne_values_other hs s st han hoa]; exact hst)]
      exact execOne_ver_other hs s st han hoa

theorem not_executed_of_ready {s0 s : GState} (hK : KInv sem g s0 s) {r : NodeD} (hr : r ∈ readyL g s) :
    r ∈ g.nodes ∧ AL.has s.execs r.name = false ∧ (∀ p ∈ r.inputs, hasInput g s r p = true) := by
  obtain ⟨hn, hp⟩ := mem_readyL.mp hr
  obtain ⟨hin, hne⟩ := readyPred_iff.mp hp
  refine ⟨hn, ?_, hin⟩
  cases hex : AL.has s.execs r.name with
  | false => rfl
  | true => rw [(hK.done r hn hex).1] at hne; cases hne

/-- the step lemma: executing any sub-list of the ready list preserves the invariant -/
theorem kinv_step {level : Name → Nat} (hW : WFI g level) (hs : SemTotal sem g) {s0 s : GState}
    (hseed : SeedOK sem g s0) (hK : KInv sem g s0 s) (E : List NodeD) (hE : E.Sublist (readyL g s)) :
    KInv sem g s0 (E.foldl (execOne sem g s) s) := by
  have hEg : E.Sublist g.nodes := hE.trans (readyL_sublist g s)
  have hmem : ∀ r ∈ E, r ∈ g.nodes ∧ AL.has s.execs r.name = false ∧ (∀ p ∈ r.inputs, hasInput g s r p = true) :=
    fun r hr => not_executed_of_ready hK (hE.subset hr)
  let argsOf : NodeD → AL Val := fun r => (collectInputs g s r r.inputs).getD []
  have hcoll : ∀ r ∈ E, collectInputs g s r r.inputs = some (argsOf r) := by
    intro r hr
    obtain ⟨hn, _, hin⟩ := hmem r hr
    have := collectInputs_of_all (hW.wd r hn) r.inputs (by simpa [List.all_eq_true] using hin)
    cases hc : collectInputs g s r r.inputs with
    | none => simp [hc] at this
    | some a => simp [argsOf, hc]
  have hall' : ∀ r ∈ E, r ∈ g.nodes ∧ r.emits.Nodup ∧ collectInputs g s r r.inputs = some (argsOf r) :=
    fun r hr => ⟨(hmem r hr).1, hW.up.emits_nodup (hmem r hr).1, hcoll r hr⟩
  have hnames : (E.map (·.name)).Nodup := (hW.up.names_nodup).sublist (hEg.map _)
  have hpw : E.Pairwise (fun a b => ∀ o ∈ a.outputs, o ∉ b.outputs) := hW.up.pairwise.sublist hEg
  -- (A) a node outside `E` shares neither name nor output with a member of `E`
  have hname_ne : ∀ n ∈ g.nodes, n ∉ E → ∀ r ∈ E, r.name ≠ n.name := by
    intro n hn hnr r hr e
    have : r = n := hW.up.name_inj (hmem r hr).1 hn e
    exact hnr (this ▸ hr)
  have hout_ne : ∀ n ∈ g.nodes, n ∉ E → ∀ o ∈ n.outputs, ∀ r ∈ E, r ∈ g.nodes ∧ o ∉ r.outputs := by
    intro n hn hnr o ho r hr
    refine ⟨(hmem r hr).1, fun hor => ?_⟩
    have : r = n := hW.up.unique ⟨(hmem r hr).1, hor⟩ ⟨hn, ho⟩
    exact hnr (this ▸ hr)
  have hexecs_out : ∀ n ∈ g.nodes, n ∉ E →
      AL.get? (E.foldl (execOne sem g s) s).execs n.name = AL.get? s.execs n.name :=
    fun n hn hnr => foldl_execs_other s n.name _ s (hname_ne n hn hnr)
  have hexecs_in : ∀ r ∈ E, AL.has (E.foldl (execOne sem g s) s).execs r.name = true := by
    intro r hr
    unfold AL.has
    rw [foldl_execs_mem (sem := sem) s argsOf E s r hr hcoll hnames]; rfl
  -- seeded outputs keep value and version
  have hseeded : ∀ m ∈ g.nodes, ∀ o ∈ m.outputs, AL.has s0.values o = true →
      AL.get? (E.foldl (execOne sem g s) s).values o = AL.get? s0.values o ∧
      (E.foldl (execOne sem g s) s).ver o = s0.ver o := by
    intro m hm o ho h0
    obtain ⟨v, hv⟩ := (C01.has_eq_true_iff _ _).mp h0
    obtain ⟨hvs, hconst⟩ := hseed m hm o ho v hv
    obtain ⟨hsv, hsver⟩ := hK.seeded m hm o ho h0
    by_cases hmE : m ∈ E
    · refine ⟨?_, ?_⟩
      · rw [foldl_values_mem hs s argsOf E s m o hmE ho hall' hpw, hconst, hv]
      · rw [foldl_ver_same hs s argsOf hvs E s m hmE ho hall' hpw (hconst _) (by rw [hsv, hv])]
        exact hsver
    · refine ⟨?_, ?_⟩
      · rw [foldl_values_other hs s o E s (hout_ne m hm hmE o ho)]; exact hsv
      · rw [foldl_ver_other hs s o E s (hout_ne m hm hmE o ho)]; exact hsver
  -- (*) inputs of a node whose inputs are all available do not move
  have hstable : ∀ n ∈ g.nodes, (∀ p ∈ n.inputs, hasInput g s n p = true) → ∀ p ∈ n.inputs,
      AL.get? (E.foldl (execOne sem g s) s).values p = AL.get? s.values p ∧
      (E.foldl (execOne sem g s) s).ver p = s.ver p := by
    intro n hn hav p hp
    by_cases hprod : ∃ m ∈ g.nodes, p ∈ m.outputs
    · obtain ⟨m, hm, hpo⟩ := hprod
      by_cases hmE : m ∈ E
      · obtain ⟨hb, hd⟩ := hW.fed n hn p hp m hm hpo
        have hhas : AL.has s.values p = true := by
          have := hav p hp
          unfold hasInput at this
          rw [hb, hd] at this
          simpa using this
        have hfr := hK.fresh m hm (hmem m hmE).2.1 p hpo
        have h0 : AL.has s0.values p = true := by unfold AL.has at hhas ⊢; rw [← hfr]; exact hhas
        obtain ⟨h1, h2⟩ := hseeded m hm p hpo h0
        obtain ⟨h3, h4⟩ := hK.seeded m hm p hpo h0
        exact ⟨by rw [h1, h3], by rw [h2, h4]⟩
      · exact ⟨foldl_values_other hs s p E s (hout_ne m hm hmE p hpo),
          foldl_ver_other hs s p E s (hout_ne m hm hmE p hpo)⟩
    · have hnf : ∀ r ∈ E, r ∈ g.nodes ∧ p ∉ r.outputs :=
        fun r hr => ⟨(hmem r hr).1, fun h => hprod ⟨r, (hmem r hr).1, h⟩⟩
      exact ⟨foldl_values_other hs s p E s hnf, foldl_ver_other hs s p E s hnf⟩
  have hinput_keep : ∀ n ∈ g.nodes, (∀ p ∈ n.inputs, hasInput g s n p = true) → ∀ p ∈ n.inputs,
      hasInput g (E.foldl (execOne sem g s) s) n p = true := by
    intro n hn hav p hp
    have := hav p hp
    unfold hasInput at this ⊢
    unfold AL.has at this ⊢
    rw [(hstable n hn hav p hp).1]; exact this
  refine ⟨?_, ?_, ?_, hseeded⟩
  · intro p hnf
    rw [foldl_values_other hs s p E s (fun r hr => ⟨(hmem r hr).1, hnf r (hmem r hr).1⟩)]
    exact hK.static_vals p hnf
  · intro n hn hex
    by_cases hnE : n ∈ E
    · obtain ⟨_, _, hav⟩ := hmem n hnE
      have hst := hstable n hn hav
      refine ⟨?_, ?_, hinput_keep n hn hav⟩
      · unfold needsExec
        rw [foldl_execs_mem (sem := sem) s argsOf E s n hnE hcoll hnames]
        simp only [isStale, List.any_eq_false]
        intro p hp
        rw [(hst p hp).2, get?_map_self n.inputs (fun p => s.ver p) p hp]
        simp
      · obtain ⟨v, hv, hw⟩ := outsOf_spec hs hn (argsOf n)
        refine ⟨argsOf n, v, _, ?_, hv, hw, ?_⟩
        · rw [C01.collectInputs_congr g s _ n n.inputs (fun p hp => (hst p hp).1)]; exact hcoll n hnE
        · intro o ho
          exact foldl_values_mem hs s argsOf E s n o hnE ho hall' hpw
    · have hex' : AL.has s.execs n.name = true := by
        unfold AL.has at hex ⊢; rw [← hexecs_out n hn hnE]; exact hex
      obtain ⟨hne, ⟨args, v, outs, hc, hv, hw, hvals⟩, hav⟩ := hK.done n hn hex'
      have hst := hstable n hn hav
      refine ⟨?_, ⟨args, v, outs, ?_, hv, hw, ?_⟩, hinput_keep n hn hav⟩
      · rw [C01.needsExec_congr g s _ n (hexecs_out n hn hnE) (fun p hp => (hst p hp).2)]; exact hne
      · rw [C01.collectInputs_congr g s _ n n.inputs (fun p hp => (hst p hp).1)]; exact hc
      · intro o ho
        rw [foldl_values_other hs s o E s (hout_ne n hn hnE o ho)]; exact hvals o ho
  · intro n hn hex o ho
    have hnE : n ∉ E := fun h => by rw [hexecs_in n h] at hex; cases hex
    have hex' : AL.has s.execs n.name = false := by
      unfold AL.has at hex ⊢; rw [← hexecs_out n hn hnE]; exact hex
    rw [foldl_values_other hs s o E s (hout_ne n hn hnE o ho)]
    exact hK.fresh n hn hex' o ho

/-- number of nodes without an execution record -/
def pending (g : GraphD) (s : GState) : Nat := (g.nodes.filter fun n => !AL.has s.execs n.name).length

theorem filter_length_lt {α} (p q : α → Bool) : ∀ (l : List α), (∀ x ∈ l, q x = true → p x = true) →
    (∃ x ∈ l, p x = true ∧ q x = false) → (l.filter q).length < (l.filter p).length := by
  intro l
  induction l with
  | nil => rintro _ ⟨x, hx, _⟩; cases hx
  | cons a t ih =>
    intro hsub hex
    have hle : (t.filter q).length ≤ (t.filter p).length := by
      clear ih hex
      induction t with
      | nil => exact Nat.le_refl _
      | cons b u ihu =>
        have hu := ihu (fun x hx => hsub x (by
          rcases List.mem_cons.1 hx with h | h
          · exact h ▸ List.mem_cons_self
          · exact List.mem_cons_of_mem _ (List.mem_cons_of_mem _ h)))
        have hb := hsub b (List.mem_cons_of_mem _ List.mem_cons_self)
        cases hq : q b <;> cases hp : p b <;> simp [hq, hp] <;> first | omega | (rw [hq] at hb; simp [hp] at hb)
    obtain ⟨x, hx, hpx, hqx⟩ := hex
    rcases List.mem_cons.1 hx with h | h
    · subst h
      simp only [List.filter_cons, hpx, hqx, if_true, List.length_cons]
      simp; omega
    · have := ih (fun y hy => hsub y (List.mem_cons_of_mem _ hy)) ⟨x, h, hpx, hqx⟩
      have ha := hsub a List.mem_cons_self
      cases hq : q a <;> cases hp : p a <;> simp [hq, hp] <;> first | omega | (rw [hq] at ha; simp [hp] at ha)

/-- executing a non-empty sub-list of the ready list strictly decreases the number of pending nodes -/
theorem pending_step {level : Name → Nat} (hW : WFI g level) {s0 s : GState}
    (hK : KInv sem g s0 s) (E : List NodeD) (hE : E.Sublist (readyL g s)) (hne : E ≠ []) :
    pending g (E.foldl (execOne sem g s) s) < pending g s := by
  have hEg : E.Sublist g.nodes := hE.trans (readyL_sublist g s)
  have hmem : ∀ r ∈ E, r ∈ g.nodes ∧ AL.has s.execs r.name = false ∧ (∀ p ∈ r.inputs, hasInput g s r p = true) :=
    fun r hr => not_executed_of_ready hK (hE.subset hr)
  let argsOf : NodeD → AL Val := fun r => (collectInputs g s r r.inputs).getD []
  have hcoll : ∀ r ∈ E, collectInputs g s r r.inputs = some (argsOf r) := by
    intro r hr
    obtain ⟨hn, _, hin⟩ := hmem r hr
    have := collectInputs_of_all (hW.wd r hn) r.inputs (by simpa [List.all_eq_true] using hin)
    cases hc : collectInputs g s r r.inputs with
    | none => simp [hc] at this
    | some a => simp [argsOf, hc]
  have hnames : (E.map (·.name)).Nodup := (hW.up.names_nodup).sublist (hEg.map _)
  have hexecs_in : ∀ r ∈ E, AL.has (E.foldl (execOne sem g s) s).execs r.name = true := by
    intro r hr
    unfold AL.has
    rw [foldl_execs_mem (sem := sem) s argsOf E s r hr hcoll hnames]; rfl
  unfold pending
  apply filter_length_lt
  · intro n hn hq
    by_cases hnE : n ∈ E
    · rw [hexecs_in n hnE] at hq; cases hq
    · have : AL.get? (E.foldl (execOne sem g s) s).execs n.name = AL.get? s.execs n.name :=
        foldl_execs_other s n.name _ s (fun r hr e => hnE ((hW.up.name_inj (hmem r hr).1 hn e) ▸ hr))
      unfold AL.has at hq ⊢; rw [← this]; exact hq
  · cases E with
    | nil => exact absurd rfl hne
    | cons r t =>
      refine ⟨r, (hmem r List.mem_cons_self).1, ?_, ?_⟩
      · rw [(hmem r List.mem_cons_self).2.1]; rfl
      · rw [hexecs_in r List.mem_cons_self]; rfl

/-- a step function that, on states satisfying the invariant, executes a non-empty sub-list of the ready
list (as the fold of `execOne`) -/
def GoodStep (sem : Sem) (g : GraphD) (s0 : GState) (step : Nat → GState → List NodeD → StepOut) : Prop :=
  ∀ k s, KInv sem g s0 s → readyL g s ≠ [] →
    ∃ E l, E.Sublist (readyL g s) ∧ E ≠ [] ∧ step k s (readyL g s) = .ok (E.foldl (execOne sem g s) s) l

/-- the loop ends `done`, quiescent, in a state satisfying the invariant, whatever the schedule -/
theorem kinv_run {level : Name → Nat} (hW : WFI g level) (hs : SemTotal sem g) {s0 : GState}
    (hseed : SeedOK sem g s0) {step : Nat → GState → List NodeD → StepOut} (hstep : GoodStep sem g s0 step)
    (mi : Nat) : ∀ (fuel k : Nat) (s : GState) (log : List Log), KInv sem g s0 s → pending g s ≤ fuel →
      ∃ s' log' n, runLoop step g .none mi fuel k s log = .done s' log' n ∧ KInv sem g s0 s' ∧
        readyL g s' = [] := by
  intro fuel
  induction fuel with
  | zero =>
    intro k s log hK hp
    have hr : readyL g s = [] := by
      cases hrl : readyL g s with
      | nil => rfl
      | cons r t =>
        have hrm : r ∈ readyL g s := by rw [hrl]; exact List.mem_cons_self
        obtain ⟨hn, hex, _⟩ := not_executed_of_ready hK hrm
        have : r ∈ g.nodes.filter fun n => !AL.has s.execs n.name := by
          rw [List.mem_filter]; exact ⟨hn, by rw [hex]; rfl⟩
        have hpos := List.length_pos_of_mem this
        unfold pending at hp; omega
    refine ⟨s, log, k, ?_, hK, hr⟩
    rw [HG.runLoop_zero, ready_eq_readyL hW.gf hW.nw]
    simp [hr]
  | succ f ih =>
    intro k s log hK hp
    by_cases hr : readyL g s = []
    · refine ⟨s, log, k, ?_, hK, hr⟩
      rw [HG.runLoop_succ_nil _ _ _ _ _ _ _ _ (by rw [ready_eq_readyL hW.gf hW.nw]; exact hr),
        ready_eq_readyL hW.gf hW.nw]
    · obtain ⟨E, l, hE, hne, hst⟩ := hstep k s hK hr
      have hK' := kinv_step hW hs hseed hK E hE
      have hp' := pending_step hW hK E hE hne
      obtain ⟨s', log', n, hrun, hK'', hq⟩ := ih (k + 1) _ (log ++ l) hK' (by omega)
      refine ⟨s', log', n, ?_, hK'', hq⟩
      rw [HG.runLoop_succ_cons _ _ _ _ _ _ _ _ (by rw [ready_eq_readyL hW.gf hW.nw]; exact hr)]
      simp only [ready_eq_readyL hW.gf hW.nw, hst]
      exact hrun

/-- every input is fed by some node or available from the start -/
def Covered (g : GraphD) (s0 : GState) : Prop :=
  ∀ n ∈ g.nodes, ∀ p ∈ n.inputs, (∃ m ∈ g.nodes, p ∈ m.outputs) ∨ hasInput g s0 n p = true

/-- in a quiescent state of a covered graph every node has executed -/
theorem kinv_all_executed {level : Name → Nat} (hW : WFI g level) {s0 s : GState} (hK : KInv sem g s0 s)
    (hq : readyL g s = []) (hcov : Covered g s0) : ∀ n ∈ g.nodes, AL.has s.execs n.name = true := by
  have : ∀ d (n : NodeD), n ∈ g.nodes → level n.name = d → AL.has s.execs n.name = true := by
    intro d
    induction d using Nat.strongRecOn with
    | _ d ih =>
      intro n hn hl
      cases hex : AL.has s.execs n.name with
      | true => rfl
      | false =>
        exfalso
        have hne : needsExec g s n = true := by
          unfold needsExec
          unfold AL.has at hex
          cases he : AL.get? s.execs n.name with
          | none => rfl
          | some e => rw [he] at hex; cases hex
        have hin : ∀ p ∈ n.inputs, hasInput g s n p = true := by
          intro p hp
          by_cases hprod : ∃ m ∈ g.nodes, p ∈ m.outputs
          · obtain ⟨m, hm, hpo⟩ := hprod
            have hml := hW.lt n hn p hp m hm hpo
            have hmex := ih (level m.name) (by omega) m hm rfl
            have := holds_has (hK.done m hm hmex).2.1 hpo
            unfold hasInput; rw [this]; rfl
          · rcases hcov n hn p hp with h | h
            · exact absurd h hprod
            · have hnf : ∀ m ∈ g.nodes, p ∉ m.outputs := fun m hm e => hprod ⟨m, hm, e⟩
              unfold hasInput at h ⊢
              unfold AL.has at h ⊢
              rw [hK.static_vals p hnf]; exact h
        have : n ∈ readyL g s := mem_readyL.mpr ⟨hn, readyPred_iff.mpr ⟨hin, hne⟩⟩
        rw [hq] at this; cases this
  intro n hn
  exact this _ n hn rfl

/-- two states in which every node holds its function's result, and which agree on the names no node
writes, agree on every name -/
theorem holds_unique {level : Name → Nat} (hW : WFI g level) {s₁ s₂ : GState}
    (h₁ : ∀ n ∈ g.nodes, Holds sem g s₁ n) (h₂ : ∀ n ∈ g.nodes, Holds sem g s₂ n)
    (hst : ∀ p, (∀ m ∈ g.nodes, p ∉ m.outputs) → AL.get? s₁.values p = AL.get? s₂.values p) :
    ∀ k, AL.get? s₁.values k = AL.get? s₂.values k := by
  have haux : ∀ d (nd : NodeD), nd ∈ g.nodes → level nd.name = d →
      ∀ o ∈ nd.outputs, AL.get? s₁.values o = AL.get? s₂.values o := by
    intro d
    induction d using Nat.strongRecOn with
    | _ d ih =>
      intro nd hn hl o ho
      obtain ⟨a₁, v₁, o₁, hc₁, hv₁, hw₁, hval₁⟩ := h₁ nd hn
      obtain ⟨a₂, v₂, o₂, hc₂, hv₂, hw₂, hval₂⟩ := h₂ nd hn
      have hin : ∀ p ∈ nd.inputs, AL.get? s₁.values p = AL.get? s₂.values p := by
        intro p hp
        by_cases hf : ∃ m ∈ g.nodes, p ∈ m.outputs
        · obtain ⟨m, hm, hpo⟩ := hf
          have := hW.lt nd hn p hp m hm hpo
          exact ih (level m.name) (by omega) m hm rfl p hpo
        · exact hst p (fun m hm e => hf ⟨m, hm, e⟩)
      have hcc := C01.collectInputs_congr g s₂ s₁ nd nd.inputs hin
      rw [hc₁, hc₂] at hcc
      injection hcc with hcc
      subst hcc
      rw [hv₁] at hv₂
      injection hv₂ with hv₂
      subst hv₂
      rw [hw₁] at hw₂
      injection hw₂ with hw₂
      subst hw₂
      rw [hval₁ o ho, hval₂ o ho]
  intro k
  by_cases hf : ∃ m ∈ g.nodes, k ∈ m.outputs
  · obtain ⟨m, hm, hko⟩ := hf
    exact haux _ m hm rfl k hko
  · exact hst k (fun m hm e => hf ⟨m, hm, e⟩)

theorem pending_le (g : GraphD) (s : GState) : pending g s ≤ g.nodes.length := by
  unfold pending; exact List.length_filter_le _ _

/-- `filter_outputs` reads the state through `get` only -/
theorem filterOutputs_congr_get (g : GraphD) {s s' : GState}
    (h : ∀ k, AL.get? s.values k = AL.get? s'.values k) (sel : Select) (om : OnMissing) :
    filterOutputs g s sel om = filterOutputs g s' sel om := by
  unfold filterOutputs AL.has
  simp only [h]

/-! ### the async superstep as a fold of `execOne` -/

theorem foldl_decStep_id (l : List AsyncOne) (st : GState) (h : ∀ r ∈ l, r.out.dec = .none) :
    l.foldl decStep st = st := by
  induction l generalizing st with
  | nil => rfl
  | cons r t ih =>
    rw [List.foldl_cons]
    have : decStep st r = st := by unfold decStep; rw [h r List.mem_cons_self]
    rw [this]
    exact ih st (fun r' hr' => h r' (List.mem_cons_of_mem _ hr'))

theorem asyncOne_default_dec : (default : AsyncOne).out.dec = .none := rfl

theorem foldl_valStep_eq_execOne (sem₂ : Sem) (g : GraphD) (s : GState) (f : NodeD → AsyncOne) :
    ∀ (E : List NodeD) (st : GState),
      (∀ nd ∈ E, (f nd).nd = nd ∧ (f nd).out.pause = .none ∧
        ∃ args, collectInputs g s nd nd.inputs = some args ∧ (f nd).out.res = .ok (outsOf sem₂ nd args)) →
      (E.map f).foldl (valStep s) st = E.foldl (execOne sem₂ g s) st := by
  intro E
  induction E with
  | nil => intro st _; rfl
  | cons nd t ih =>
    intro st h
    obtain ⟨h1, h2, args, hc, h3⟩ := h nd List.mem_cons_self
    rw [List.map_cons, List.foldl_cons, List.foldl_cons]
    have : valStep s st (f nd) = execOne sem₂ g s st nd := by
      unfold valStep execOne
      simp only [h2, h3, hc, h1]
    rw [this]
    exact ih _ (fun nd' hnd' => h nd' (List.mem_cons_of_mem _ hnd'))

/-- when every node the step runs succeeds with the outputs `outsOf sem₂` and no routing decision, the async
superstep is the fold of `execOne sem₂` over the nodes it runs -/
theorem stepAsync_good (nested : Nested) (semX sem₂ : Sem) (gi : Nat) (g : GraphD) (span : Span) (k : Nat)
    (order : List Nat) (s : GState) (R : List NodeD)
    (hgood : ∀ nd ∈ asyncRs₂ R, ∃ args, collectInputs g s nd nd.inputs = some args ∧
      (execNode nested semX gi nd args s (nodeSpanOf span k nd)).pause = .none ∧
      (execNode nested semX gi nd args s (nodeSpanOf span k nd)).dec = .none ∧
      (execNode nested semX gi nd args s (nodeSpanOf span k nd)).res = .ok (outsOf sem₂ nd args)) :
    ∃ l, stepAsync nested semX gi g span k order s R = .ok ((asyncRs₂ R).foldl (execOne sem₂ g s) s) l := by
  have hfacts : ∀ nd ∈ asyncRs₂ R,
      (asyncOne₂ nested semX gi g span k s nd).nd = nd ∧
      (asyncOne₂ nested semX gi g span k s nd).out.pause = .none ∧
      (asyncOne₂ nested semX gi g span k s nd).out.dec = .none ∧
      ∃ args, collectInputs g s nd nd.inputs = some args ∧
        (asyncOne₂ nested semX gi g span k s nd).out.res = .ok (outsOf sem₂ nd args) := by
    intro nd hnd
    obtain ⟨args, hc, hp, hd, hr⟩ := hgood nd hnd
    obtain ⟨h1, h2, h3, h4⟩ := asyncOne_some nested semX gi g span k s nd args hc
    exact ⟨h1, by rw [h4, hp], by rw [h3, hd], args, hc, by rw [h2, hr]⟩
  rw [stepAsync_eq]
  simp only
  have hfind : ((asyncRs₂ R).map (asyncOne₂ nested semX gi g span k s)).find? isBad = .none := by
    rw [List.find?_eq_none]
    intro r hr
    obtain ⟨nd, hnd, rfl⟩ := List.mem_map.1 hr
    obtain ⟨_, hp, _, args, _, hres⟩ := hfacts nd hnd
    have := (isBad_false_iff _).2 ⟨hp, _, hres⟩
    simp [this]
  rw [hfind]
  refine ⟨(permute ((asyncRs₂ R).map (asyncOne₂ nested semX gi g span k s)) order).flatMap (·.out.log), ?_⟩
  simp only
  congr 1
  rw [foldl_decStep_id]
  · exact foldl_valStep_eq_execOne sem₂ g s _ _ s
      (fun nd hnd => ⟨(hfacts nd hnd).1, (hfacts nd hnd).2.1, (hfacts nd hnd).2.2.2⟩)
  · intro r hr
    rcases mem_permute _ _ r hr with hr | hr
    · obtain ⟨nd, hnd, rfl⟩ := List.mem_map.1 hr
      exact (hfacts nd hnd).2.2.1
    · rw [hr]; exact asyncOne_default_dec

theorem asyncRs_sublist (R : List NodeD) : (asyncRs₂ R).Sublist R := by
  unfold asyncRs₂
  split
  · rename_i i hi
    exact List.singleton_sublist.2 (List.mem_of_find?_eq_some hi)
  · exact List.Sublist.refl _

theorem asyncRs_ne_nil {R : List NodeD} (h : R ≠ []) : asyncRs₂ R ≠ [] := by
  unfold asyncRs₂
  split
  · simp
  · exact h

/-- every node is a function node or an interrupt whose single data output is `o` -/
def FnOrIntr (g : GraphD) (o : Name) : Prop :=
  ∀ nd ∈ g.nodes, nd.kind = .fn ∨ (nd.kind = .interrupt ∧ nd.dataOuts = [o])

instance (g : GraphD) (o : Name) : Decidable (FnOrIntr g o) := by unfold FnOrIntr; exact inferInstance

theorem execNode_fn_good (nested : Nested) (semX sem₂ : Sem) (gi : Nat) (nd : NodeD) (args : AL Val)
    (ns : GState) (sp : Span) (hk : nd.kind = .fn)
    (hag : semX nd (toParams nd args) = sem₂ nd (toParams nd args)) (v : Val)
    (hv : sem₂ nd (toParams nd args) = .val v) (hw : wrapOutputs nd v = some (outsOf sem₂ nd args)) :
    (execNode nested semX gi nd args ns sp).pause = .none ∧ (execNode nested semX gi nd args ns sp).dec = .none ∧
    (execNode nested semX gi nd args ns sp).res = .ok (outsOf sem₂ nd args) := by
  simp only [execNode, hk, execFn, hag, hv, hw, and_self]

theorem outsOf_interrupt (sem₂ : Sem) (nd : NodeD) (args : AL Val) (o : Name) (r : Val)
    (hd : nd.dataOuts = [o]) (h₂ : sem₂ nd (toParams nd args) = .val r) :
    outsOf sem₂ nd args = AL.merge [(o, r)] (emitPart nd) := by
  simp only [outsOf, h₂, wrapOutputs, hd, Option.getD_some, emitPart]

/-- the run with the answering handler: the async step is a good step -/
theorem goodStep_handler {level : Name → Nat} (nested : Nested) (sem₂ : Sem) (gi : Nat) (g : GraphD)
    (span : Span) (order : Nat → List Nat) (o : Name) (r : Val)
    (hW : WFI g level) (hs : SemTotal sem₂ g) (hcls : FnOrIntr g o) (hr : r ≠ Val.none)
    (h₂ : ∀ nd ∈ g.nodes, nd.kind = .interrupt → ∀ args, sem₂ nd args = .val r)
    (s0 : GState) (hfresh0 : ∀ m ∈ g.nodes, ∀ o' ∈ m.outputs, AL.has s0.values o' = false) :
    GoodStep sem₂ g s0 (fun k s rs => stepAsync nested sem₂ gi g span k (order k) s rs) := by
  intro k s hK hne
  refine ⟨asyncRs₂ (readyL g s), ?_⟩
  have hgood : ∀ nd ∈ asyncRs₂ (readyL g s), ∃ args, collectInputs g s nd nd.inputs = some args ∧
      (execNode nested sem₂ gi nd args s (nodeSpanOf span k nd)).pause = .none ∧
      (execNode nested sem₂ gi nd args s (nodeSpanOf span k nd)).dec = .none ∧
      (execNode nested sem₂ gi nd args s (nodeSpanOf span k nd)).res = .ok (outsOf sem₂ nd args) := by
    intro nd hnd
    obtain ⟨hn, hex, hin⟩ := not_executed_of_ready hK ((asyncRs_sublist _).subset hnd)
    have hcs := collectInputs_of_all (hW.wd nd hn) nd.inputs (by simpa [List.all_eq_true] using hin)
    obtain ⟨args, hc⟩ := Option.isSome_iff_exists.mp hcs
    refine ⟨args, hc, ?_⟩
    rcases hcls nd hn with hk | ⟨hk, hd⟩
    · obtain ⟨v, hv, hw⟩ := outsOf_spec hs hn args
      exact execNode_fn_good nested sem₂ sem₂ gi nd args s _ hk rfl v hv hw
    · have ho : o ∈ nd.outputs := by unfold NodeD.outputs; rw [hd]; simp
      have habs : AL.has s.values o = false := by
        have := hK.fresh nd hn hex o ho
        unfold AL.has; rw [this]
        exact hfresh0 nd hn o ho
      have hnr : resumable nd s = false := by unfold resumable; simp [hd, habs]
      have hB := execInterrupt_answer sem₂ gi nd args s hnr r hr (h₂ nd hn hk _) o [] hd
      rw [outsOf_interrupt sem₂ nd args o r hd (h₂ nd hn hk _)]
      unfold execNode; simp only [hk]
      rw [hB]; exact ⟨rfl, rfl, rfl⟩
  obtain ⟨l, hl⟩ := stepAsync_good nested sem₂ sem₂ gi g span k (order k) s (readyL g s) hgood
  exact ⟨l, asyncRs_sublist _, asyncRs_ne_nil hne, hl⟩

/-- the re-run with the response supplied: the async step under the PAUSING semantics is a good step for
the answering semantics `sem₂` (the handler is never called) -/
theorem goodStep_resume {level : Name → Nat} (nested : Nested) (sem₁ sem₂ : Sem) (gi : Nat) (g : GraphD)
    (span : Span) (order : Nat → List Nat) (o : Name) (r : Val)
    (hW : WFI g level) (hs : SemTotal sem₂ g) (hcls : FnOrIntr g o)
    (hagree : ∀ nd ∈ g.nodes, nd.kind = .fn → ∀ args, sem₁ nd args = sem₂ nd args)
    (h₂ : ∀ nd ∈ g.nodes, nd.kind = .interrupt → ∀ args, sem₂ nd args = .val r)
    (s0 : GState) (h0 : AL.get? s0.values o = some r) :
    GoodStep sem₂ g s0 (fun k s rs => stepAsync nested sem₁ gi g span k (order k) s rs) := by
  intro k s hK hne
  refine ⟨asyncRs₂ (readyL g s), ?_⟩
  have hgood : ∀ nd ∈ asyncRs₂ (readyL g s), ∃ args, collectInputs g s nd nd.inputs = some args ∧
      (execNode nested sem₁ gi nd args s (nodeSpanOf span k nd)).pause = .none ∧
      (execNode nested sem₁ gi nd args s (nodeSpanOf span k nd)).dec = .none ∧
      (execNode nested sem₁ gi nd args s (nodeSpanOf span k nd)).res = .ok (outsOf sem₂ nd args) := by
    intro nd hnd
    obtain ⟨hn, hex, hin⟩ := not_executed_of_ready hK ((asyncRs_sublist _).subset hnd)
    have hcs := collectInputs_of_all (hW.wd nd hn) nd.inputs (by simpa [List.all_eq_true] using hin)
    obtain ⟨args, hc⟩ := Option.isSome_iff_exists.mp hcs
    refine ⟨args, hc, ?_⟩
    rcases hcls nd hn with hk | ⟨hk, hd⟩
    · obtain ⟨v, hv, hw⟩ := outsOf_spec hs hn args
      exact execNode_fn_good nested sem₁ sem₂ gi nd args s _ hk (hagree nd hn hk _) v hv hw
    · have ho : o ∈ nd.outputs := by unfold NodeD.outputs; rw [hd]; simp
      have h0' : AL.has s0.values o = true := by unfold AL.has; rw [h0]; rfl
      have hval : AL.get? s.values o = some r := by rw [(hK.seeded nd hn o ho h0').1, h0]
      have hres : resumable nd s = true := by
        unfold resumable
        have : AL.has s.values o = true := by unfold AL.has; rw [hval]; rfl
        simp [hd, this, hex]
      rw [outsOf_interrupt sem₂ nd args o r hd (h₂ nd hn hk _)]
      unfold execNode; simp only [hk]
      rw [execInterrupt_resume sem₁ gi nd args s hres]
      refine ⟨rfl, rfl, ?_⟩
      simp only [resumeOuts, hd, List.map_cons, List.map_nil, hval, Option.getD_some]
  obtain ⟨l, hl⟩ := stepAsync_good nested sem₁ sem₂ gi g span k (order k) s (readyL g s) hgood
  exact ⟨l, asyncRs_sublist _, asyncRs_ne_nil hne, hl⟩

/-- whole-run core of C14.6: both loops end `done`; their final states agree on every name; every node
has executed exactly in the sense of the invariant -/
theorem resume_eq_auto_core {level : Name → Nat} (nested₁ nested₂ : Nested) (sem₁ sem₂ : Sem)
    (order₁ order₂ : Nat → List Nat) (gi : Nat) (g : GraphD) (valuesA values : AL Val) (cfg : RunCfg)
    (span : Span) (parent : Option Span) (o : Name) (r : Val)
    (hW : WFI g level) (hs : SemTotal sem₂ g) (hcls : FnOrIntr g o)
    (hex : ∃ i ∈ g.nodes, i.kind = .interrupt)
    (hr : r ≠ Val.none) (hrs : r ≠ Val.sentinel)
    (hagree : ∀ nd ∈ g.nodes, nd.kind = .fn → ∀ args, sem₁ nd args = sem₂ nd args)
    (h₂ : ∀ nd ∈ g.nodes, nd.kind = .interrupt → ∀ args, sem₂ nd args = .val r)
    (hfreshV : ∀ m ∈ g.nodes, ∀ o' ∈ m.outputs, AL.has values o' = false)
    (hA : ∀ k, AL.get? (initState valuesA).values k =
      if k = o then some r else AL.get? (initState values).values k)
    (hcov : Covered g (initState values))
    (hep : g.entrypoints = .none) (hfuel : g.nodes.length ≤ cfg.maxIter) :
    ∃ sA sB logA logB nA nB,
      runGraphLoop nested₁ sem₁ (.async order₁) gi g valuesA cfg span parent = .done sA logA nA ∧
      runGraphLoop nested₂ sem₂ (.async order₂) gi g values cfg span parent = .done sB logB nB ∧
      (∀ k, AL.get? sA.values k = AL.get? sB.values k) ∧
      (∀ n ∈ g.nodes, AL.has sA.execs n.name = true ∧ AL.has sB.execs n.name = true) ∧
      AL.get? sB.values o = some r := by
  obtain ⟨i, hi, hik⟩ := hex
  have hid : i.dataOuts = [o] := by
    rcases hcls i hi with h | h
    · rw [hik] at h; cases h
    · exact h.2
  have hio : o ∈ i.outputs := by unfold NodeD.outputs; rw [hid]; simp
  have hoe : o ∉ i.emits := by
    have := hW.up.outputs_nodup hi
    unfold NodeD.outputs at this
    rw [hid] at this
    simpa using (List.nodup_cons.1 this).1
  have hB0 : ∀ m ∈ g.nodes, ∀ o' ∈ m.outputs, AL.has (initState values).values o' = false := by
    intro m hm o' ho'; rw [initState_has]; exact hfreshV m hm o' ho'
  have hseedB : SeedOK sem₂ g (initState values) := by
    intro m hm o' ho' v hv
    have := hB0 m hm o' ho'
    unfold AL.has at this; rw [hv] at this; cases this
  have hseedA : SeedOK sem₂ g (initState valuesA) := by
    intro m hm o' ho' v hv
    rw [hA o'] at hv
    by_cases hoo : o' = o
    · subst hoo
      simp only [if_true, Option.some.injEq] at hv
      subst hv
      have hmi : m = i := hW.up.unique ⟨hm, ho'⟩ ⟨hi, hio⟩
      subst hmi
      refine ⟨hrs, fun inputs => ?_⟩
      rw [outsOf_interrupt sem₂ m inputs o' r hid (h₂ m hm hik _),
        AL.get?_merge_of_not_mem₂ _ _ _ (by unfold emitPart; rw [keys_map_const]; exact hoe)]
      simp [AL.get?]
    · simp only [hoo, if_false] at hv
      have := hB0 m hm o' ho'
      unfold AL.has at this; rw [hv] at this; cases this
  have hcovA : Covered g (initState valuesA) := by
    intro n hn p hp
    rcases hcov n hn p hp with h | h
    · exact Or.inl h
    · by_cases hprod : ∃ m ∈ g.nodes, p ∈ m.outputs
      · exact Or.inl hprod
      · right
        have hpo : p ≠ o := fun e => hprod ⟨i, hi, e ▸ hio⟩
        unfold hasInput at h ⊢
        unfold AL.has at h ⊢
        rw [hA p]; simp only [hpo, if_false]; exact h
  have hgA := goodStep_resume nested₁ sem₁ sem₂ gi g span order₁ o r hW hs hcls hagree h₂
    (initState valuesA) (by rw [hA o]; simp)
  have hgB := goodStep_handler nested₂ sem₂ gi g span order₂ o r hW hs hcls hr h₂ (initState values) hB0
  obtain ⟨sA, logA, nA, hrunA, hKA, hqA⟩ := kinv_run hW hs hseedA hgA cfg.maxIter cfg.maxIter 0
    (initState valuesA) [runStartEv span parent g ""] (kinv_init sem₂ g _ (initState_execs valuesA))
    (Nat.le_trans (pending_le g _) hfuel)
  obtain ⟨sB, logB, nB, hrunB, hKB, hqB⟩ := kinv_run hW hs hseedB hgB cfg.maxIter cfg.maxIter 0
    (initState values) [runStartEv span parent g ""] (kinv_init sem₂ g _ (initState_execs values))
    (Nat.le_trans (pending_le g _) hfuel)
  have hexA := kinv_all_executed hW hKA hqA hcovA
  have hexB := kinv_all_executed hW hKB hqB hcov
  have hsame : ∀ k, AL.get? sA.values k = AL.get? sB.values k := by
    apply holds_unique hW (fun n hn => (hKA.done n hn (hexA n hn)).2.1) (fun n hn => (hKB.done n hn (hexB n hn)).2.1)
    intro p hnf
    have hpo : p ≠ o := fun e => hnf i hi (e ▸ hio)
    rw [hKA.static_vals p hnf, hKB.static_vals p hnf, hA p]; simp [hpo]
  have hact : activeNodeSet g = .none := by simp only [activeNodeSet, hep, Option.map_none]
  refine ⟨sA, sB, logA, logB, nA, nB, ?_, ?_, hsame, fun n hn => ⟨hexA n hn, hexB n hn⟩, ?_⟩
  · unfold runGraphLoop; rw [hact]; exact hrunA
  · unfold runGraphLoop; rw [hact]; exact hrunB
  · rw [← hsame o, (hKA.seeded i hi o hio (by unfold AL.has; rw [hA o]; simp)).1, hA o]; simp

/-! ### the first run: the pausing handler is reached -/

/-- a step function that executes a non-empty sub-list of the ready list keeping `P`, or pauses with `Q` -/
def StepOrPause (sem : Sem) (g : GraphD) (s0 : GState) (step : Nat → GState → List NodeD → StepOut)
    (P : GState → Prop) (Q : PauseInfo → GState → Prop) : Prop :=
  ∀ k s, KInv sem g s0 s → P s → readyL g s ≠ [] →
    (∃ E l, E.Sublist (readyL g s) ∧ E ≠ [] ∧ step k s (readyL g s) = .ok (E.foldl (execOne sem g s) s) l ∧
      P (E.foldl (execOne sem g s) s)) ∨
    (∃ p l, step k s (readyL g s) = .pause p s l ∧ Q p s)

theorem kinv_run_or_pause {level : Name → Nat} (hW : WFI g level) (hs : SemTotal sem g) {s0 : GState}
    (hseed : SeedOK sem g s0) {step : Nat → GState → List NodeD → StepOut} {P : GState → Prop}
    {Q : PauseInfo → GState → Prop} (hstep : StepOrPause sem g s0 step P Q)
    (mi : Nat) : ∀ (fuel k : Nat) (s : GState) (log : List Log), KInv sem g s0 s → P s → pending g s ≤ fuel →
      (∃ s' log' n, runLoop step g .none mi fuel k s log = .done s' log' n ∧ KInv sem g s0 s' ∧ P s' ∧
        readyL g s' = []) ∨
      (∃ p ps log' n, runLoop step g .none mi fuel k s log = .pause p ps log' n ∧ Q p ps ∧ KInv sem g s0 ps) := by
  intro fuel
  induction fuel with
  | zero =>
    intro k s log hK hP hp
    have hr : readyL g s = [] := by
      cases hrl : readyL g s with
      | nil => rfl
      | cons r t =>
        have hrm : r ∈ readyL g s := by rw [hrl]; exact List.mem_cons_self
        obtain ⟨hn, hex, _⟩ := not_executed_of_ready hK hrm
        have : r ∈ g.nodes.filter fun n => !AL.has s.execs n.name := by
          rw [List.mem_filter]; exact ⟨hn, by rw [hex]; rfl⟩
        have hpos := List.length_pos_of_mem this
        unfold pending at hp; omega
    refine Or.inl ⟨s, log, k, ?_, hK, hP, hr⟩
    rw [HG.runLoop_zero, ready_eq_readyL hW.gf hW.nw]
    simp [hr]
  | succ f ih =>
    intro k s log hK hP hp
    by_cases hr : readyL g s = []
    · refine Or.inl ⟨s, log, k, ?_, hK, hP, hr⟩
      rw [HG.runLoop_succ_nil _ _ _ _ _ _ _ _ (by rw [ready_eq_readyL hW.gf hW.nw]; exact hr),
        ready_eq_readyL hW.gf hW.nw]
    · rcases hstep k s hK hP hr with ⟨E, l, hE, hne, hst, hP'⟩ | ⟨p, l, hst, hQ⟩
      · have hK' := kinv_step hW hs hseed hK E hE
        have hp' := pending_step hW hK E hE hne
        have hcons : runLoop step g .none mi (f + 1) k s log =
            runLoop step g .none mi f (k + 1) (E.foldl (execOne sem g s) s) (log ++ l) := by
          rw [HG.runLoop_succ_cons _ _ _ _ _ _ _ _ (by rw [ready_eq_readyL hW.gf hW.nw]; exact hr)]
          simp only [ready_eq_readyL hW.gf hW.nw, hst]
        rw [hcons]
        exact ih (k + 1) _ (log ++ l) hK' hP' (by omega)
      · refine Or.inr ⟨p, s, log ++ l, k + 1, ?_, hQ, hK⟩
        rw [HG.runLoop_succ_cons _ _ _ _ _ _ _ _ (by rw [ready_eq_readyL hW.gf hW.nw]; exact hr)]
        simp only [ready_eq_readyL hW.gf hW.nw, hst]

/-- the first run (pausing handler, response not supplied): the loop pauses at the interrupt, naming `o` -/
theorem first_run_pauses_core {level : Name → Nat} (nested : Nested) (sem₁ sem₂ : Sem)
    (order : Nat → List Nat) (gi : Nat) (g : GraphD) (values : AL Val) (cfg : RunCfg)
    (span : Span) (parent : Option Span) (o : Name)
    (hW : WFI g level) (hs : SemTotal sem₂ g) (hcls : FnOrIntr g o)
    (hex : ∃ i ∈ g.nodes, i.kind = .interrupt)
    (hagree : ∀ nd ∈ g.nodes, nd.kind = .fn → ∀ args, sem₁ nd args = sem₂ nd args)
    (h₁ : ∀ nd ∈ g.nodes, nd.kind = .interrupt → ∀ args, sem₁ nd args = .val .none)
    (hfreshV : ∀ m ∈ g.nodes, ∀ o' ∈ m.outputs, AL.has values o' = false)
    (hcov : Covered g (initState values))
    (hep : g.entrypoints = .none) (hfuel : g.nodes.length ≤ cfg.maxIter) :
    ∃ p ps log n, runGraphLoop nested sem₁ (.async order) gi g values cfg span parent = .pause p ps log n ∧
      p.outputParam = o ∧ AL.has ps.values o = false ∧
      ∃ i ∈ g.nodes, i.kind = .interrupt ∧ p.nodeName = i.name ∧ AL.has ps.execs i.name = false := by
  have hB0 : ∀ m ∈ g.nodes, ∀ o' ∈ m.outputs, AL.has (initState values).values o' = false := by
    intro m hm o' ho'; rw [initState_has]; exact hfreshV m hm o' ho'
  have hseedB : SeedOK sem₂ g (initState values) := by
    intro m hm o' ho' v hv
    have := hB0 m hm o' ho'
    unfold AL.has at this; rw [hv] at this; cases this
  let P : GState → Prop := fun s => ∀ nd ∈ g.nodes, nd.kind = .interrupt → AL.has s.execs nd.name = false
  let Q : PauseInfo → GState → Prop := fun p s => p.outputParam = o ∧ AL.has s.values o = false ∧
    ∃ i ∈ g.nodes, i.kind = .interrupt ∧ p.nodeName = i.name ∧ AL.has s.execs i.name = false
  have hstep : StepOrPause sem₂ g (initState values)
      (fun k s rs => stepAsync nested sem₁ gi g span k (order k) s rs) P Q := by
    intro k s hK hP hne
    cases hfind : (readyL g s).find? (·.isInterrupt) with
    | some i =>
      right
      have hiR : i ∈ readyL g s := List.mem_of_find?_eq_some hfind
      have hik : i.kind = .interrupt := (isInterrupt_iff i).1 (by simpa using List.find?_some hfind)
      obtain ⟨hn, hexi, hin⟩ := not_executed_of_ready hK hiR
      have hid : i.dataOuts = [o] := by
        rcases hcls i hn with h | h
        · rw [hik] at h; cases h
        · exact h.2
      have hio : o ∈ i.outputs := by unfold NodeD.outputs; rw [hid]; simp
      have hcs := collectInputs_of_all (hW.wd i hn) i.inputs (by simpa [List.all_eq_true] using hin)
      obtain ⟨args, hc⟩ := Option.isSome_iff_exists.mp hcs
      have habs : AL.has s.values o = false := by
        have := hK.fresh i hn hexi o hio
        unfold AL.has; rw [this]; exact hB0 i hn o hio
      have hnr : resumable i s = false := by unfold resumable; simp [hid, habs]
      have hpause : (execInterrupt sem₁ gi i args s).pause = some (pauseInfoOf i args o []) :=
        (execInterrupt_pause_iff sem₁ gi i args s _).2 ⟨hnr, h₁ i hn hik _, o, [], hid, rfl⟩
      refine ⟨pauseInfoOf i args o [], (asyncOne₂ nested sem₁ gi g span k s i).out.log, ?_,
        rfl, habs, i, hn, hik, rfl, hexi⟩
      show stepAsync nested sem₁ gi g span k (order k) s (readyL g s) = _
      rw [stepAsync_isolated nested sem₁ gi g span k (order k) s _ i hfind, stepAsync_singleton]
      exact stepOne_interrupt_pause nested sem₁ gi g span k s i hik args _ hc hpause
    | none =>
      left
      have hall : ∀ nd ∈ readyL g s, nd.kind = .fn := by
        intro nd hnd
        have hni : nd.isInterrupt = false := by
          have := List.find?_eq_none.1 hfind nd hnd
          simpa using this
        rcases hcls nd (mem_readyL.mp hnd).1 with h | h
        · exact h
        · have : nd.isInterrupt = true := (isInterrupt_iff nd).2 h.1
          rw [this] at hni; cases hni
      have hrs : asyncRs₂ (readyL g s) = readyL g s := asyncRs_none hfind
      have hgood : ∀ nd ∈ asyncRs₂ (readyL g s), ∃ args, collectInputs g s nd nd.inputs = some args ∧
          (execNode nested sem₁ gi nd args s (nodeSpanOf span k nd)).pause = .none ∧
          (execNode nested sem₁ gi nd args s (nodeSpanOf span k nd)).dec = .none ∧
          (execNode nested sem₁ gi nd args s (nodeSpanOf span k nd)).res = .ok (outsOf sem₂ nd args) := by
        intro nd hnd
        rw [hrs] at hnd
        obtain ⟨hn, _, hin⟩ := not_executed_of_ready hK hnd
        have hcs := collectInputs_of_all (hW.wd nd hn) nd.inputs (by simpa [List.all_eq_true] using hin)
        obtain ⟨args, hc⟩ := Option.isSome_iff_exists.mp hcs
        obtain ⟨v, hv, hw⟩ := outsOf_spec hs hn args
        exact ⟨args, hc, execNode_fn_good nested sem₁ sem₂ gi nd args s _ (hall nd hnd)
          (hagree nd hn (hall nd hnd) _) v hv hw⟩
      obtain ⟨l, hl⟩ := stepAsync_good nested sem₁ sem₂ gi g span k (order k) s (readyL g s) hgood
      rw [hrs] at hl
      refine ⟨readyL g s, l, List.Sublist.refl _, hne, hl, ?_⟩
      intro nd hn hk
      have hnR : ∀ r ∈ readyL g s, r.name ≠ nd.name := by
        intro r hr e
        have : r = nd := hW.up.name_inj (mem_readyL.mp hr).1 hn e
        have := hall r hr
        rw [‹r = nd›, hk] at this; cases this
      have := foldl_execs_other (sem := sem₂) (g := g) s nd.name (readyL g s) s hnR
      unfold AL.has; rw [this]; exact hP nd hn hk
  have hP0 : P (initState values) := by
    intro nd _ _
    rw [initState_execs]; rfl
  have hact : activeNodeSet g = .none := by simp only [activeNodeSet, hep, Option.map_none]
  rcases kinv_run_or_pause hW hs hseedB hstep cfg.maxIter cfg.maxIter 0 (initState values)
    [runStartEv span parent g ""] (kinv_init sem₂ g _ (initState_execs values)) hP0
    (Nat.le_trans (pending_le g _) hfuel) with ⟨s', log', n, _, hK', hP', hq⟩ | ⟨p, ps, log', n, hrun, hQ, hKp⟩
  · exfalso
    obtain ⟨i, hi, hik⟩ := hex
    have := kinv_all_executed hW hK' hq hcov i hi
    rw [hP' i hi hik] at this; cases this
  · obtain ⟨hqo, habs, i, hi, hik, hname, hexi⟩ := hQ
    refine ⟨p, ps, log', n, ?_, hqo, habs, i, hi, hik, hname, hexi⟩
    unfold runGraphLoop; rw [hact]; exact hrun

/-- `sem` with every interrupt handler replaced by one that answers the constant `r` -/
def answering (sem : Sem) (r : Val) : Sem := fun nd args => if nd.kind = .interrupt then .val r else sem nd args

theorem answering_fn (sem : Sem) (r : Val) (nd : NodeD) (h : nd.kind = .fn) (args : AL Val) :
    sem nd args = answering sem r nd args := by
  unfold answering; simp [h]

theorem answering_interrupt (sem : Sem) (r : Val) (nd : NodeD) (h : nd.kind = .interrupt) (args : AL Val) :
    answering sem r nd args = .val r := by
  unfold answering; simp [h]

/-- totality of `answering bodySem r`: interrupts with at most one data output, other nodes with a total body -/
theorem answering_bodySem_total {g : GraphD} (r : Val)
    (h : ∀ nd ∈ g.nodes, (nd.kind = .interrupt ∧ nd.dataOuts.length ≤ 1) ∨ (nd.kind ≠ .interrupt ∧ bodyOk nd = true)) :
    SemTotal (answering bodySem r) g := by
  intro nd hn args
  rcases h nd hn with ⟨hk, hl⟩ | ⟨hk, hb⟩
  · obtain ⟨o, ho⟩ := wrapOutputs_isSome_of_le_one nd r hl
    exact ⟨r, o, answering_interrupt _ _ _ hk _, ho⟩
  · have : answering bodySem r nd args = bodySem nd args := by unfold answering; simp [hk]
    rw [this]
    exact bodySem_total (g := { g with nodes := [nd] }) (by intro x hx; simp at hx; subst hx; exact hb) nd
      (by simp) args

end sched

end HG.Intr
