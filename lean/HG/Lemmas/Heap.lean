import HG.Model.Heap
set_option linter.unusedSimpArgs false
/-! # HG.Lemmas.Heap — frame / invariant machinery for the heap model (C07) -/
namespace HG
namespace Heap

/-- `omega` does not unfold the abbreviation `Ref := Nat` -/
macro "romega" : tactic => `(tactic| first | omega | (simp only [Ref] at *; omega))

/-! ### list facts about an explicit suffix -/
theorem getElem?_append_add {α} (l s : List α) (k : Nat) : (l ++ s)[l.length + k]? = s[k]? := by
  rw [List.getElem?_append_right (by romega)]; congr 1; omega
theorem getElem?_append_len {α} (l s : List α) : (l ++ s)[l.length]? = s[0]? :=
  getElem?_append_add l s 0
theorem getElem?_append_lt {α} (l s : List α) (r : Nat) (hr : r < l.length) :
    (l ++ s)[r]? = l[r]? := List.getElem?_append_left hr
theorem set_append_add {α} (l s : List α) (k : Nat) (x : α) :
    (l ++ s).set (l.length + k) x = l ++ s.set k x := by
  rw [List.set_append_right _ _ (by romega)]; congr 2; omega
theorem set_append_len {α} (l s : List α) (x : α) : (l ++ s).set l.length x = l ++ s.set 0 x := by
  exact set_append_add l s 0 x

/-! ### invariants -/
/-- every reference stored in the heap is allocated -/
def Closed (h : Heap) : Prop :=
  ∀ (r : Nat) (o : Obj), h.objs[r]? = some o → ∀ c, c ∈ o.recRefs ++ o.leafRefs → c < h.objs.length
/-- graph→node and node→inner-graph references point to strictly older objects -/
def BackRec (h : Heap) : Prop :=
  ∀ (r : Nat) (o : Obj), h.objs[r]? = some o → ∀ c, c ∈ o.recRefs → c < r
/-- coherence of the cache slots of the object `o` stored at `r` -/
def CohObj (h : Heap) (r : Ref) : Obj → Prop
  | .graph _ _ _ _ ci ch =>
    (∀ s, ci = some s → s = summInputs h r) ∧ (∀ s, ch = some s → s = summHash h r)
  | .node _ _ _ _ _ _ inn cd =>
    (inn.isSome = true → cd = none) ∧ (∀ s, cd = some s → s = summDefaults h r)
  | _ => True
def Coh (h : Heap) : Prop := ∀ (r : Nat) (o : Obj), h.objs[r]? = some o → CohObj h r o
structure Inv (h : Heap) : Prop where
  closed : Closed h
  back : BackRec h
  coh : Coh h

/-- `h` extends `h0`: old cells are unchanged modulo cache slots -/
def Ext (h0 h : Heap) : Prop :=
  h0.objs.length ≤ h.objs.length ∧
  ∀ r : Nat, r < h0.objs.length → (h.objs[r]?).map Obj.erase = (h0.objs[r]?).map Obj.erase
/-- same cells modulo cache slots -/
def SameMod (h0 h : Heap) : Prop :=
  h.objs.length = h0.objs.length ∧ h.batch = h0.batch ∧
  ∀ r : Nat, (h.objs[r]?).map Obj.erase = (h0.objs[r]?).map Obj.erase

theorem Ext.refl (h : Heap) : Ext h h := ⟨Nat.le_refl _, fun _ _ => rfl⟩
theorem Ext.trans {a b c : Heap} (h1 : Ext a b) (h2 : Ext b c) : Ext a c :=
  ⟨Nat.le_trans h1.1 h2.1, fun r hr => by rw [h2.2 r (by have := h1.1; omega), h1.2 r hr]⟩
theorem SameMod.refl (h : Heap) : SameMod h h := ⟨rfl, rfl, fun _ => rfl⟩
theorem SameMod.trans {a b c : Heap} (h1 : SameMod a b) (h2 : SameMod b c) : SameMod a c :=
  ⟨by rw [h2.1, h1.1], by rw [h2.2.1, h1.2.1], fun r => by rw [h2.2.2 r, h1.2.2 r]⟩
theorem SameMod.symm {a b : Heap} (h1 : SameMod a b) : SameMod b a :=
  ⟨h1.1.symm, h1.2.1.symm, fun r => (h1.2.2 r).symm⟩
theorem SameMod.ext {a b : Heap} (h1 : SameMod a b) : Ext a b :=
  ⟨by rw [h1.1]; exact Nat.le_refl _, fun r _ => h1.2.2 r⟩
theorem Ext.append (h : Heap) (suf : List Obj) (b : Nat) : Ext h ⟨h.objs ++ suf, b⟩ :=
  ⟨by simp, fun r hr => by simp [getElem?_append_lt _ _ _ hr]⟩

@[simp] theorem erase_erase (o : Obj) : o.erase.erase = o.erase := by cases o <;> rfl
@[simp] theorem recRefs_erase (o : Obj) : o.erase.recRefs = o.recRefs := by cases o <;> rfl
@[simp] theorem leafRefs_erase (o : Obj) : o.erase.leafRefs = o.leafRefs := by cases o <;> rfl
theorem recRefs_of_erase_eq {o o' : Obj} (h : o.erase = o'.erase) : o.recRefs = o'.recRefs := by
  rw [← recRefs_erase o, h, recRefs_erase]
theorem leafRefs_of_erase_eq {o o' : Obj} (h : o.erase = o'.erase) : o.leafRefs = o'.leafRefs := by
  rw [← leafRefs_erase o, h, leafRefs_erase]

/-! ### leaves -/
def leafO : Option Obj → Obs
  | some (.dict m) => .dict m
  | some (.hist l) => .hist l
  | some (.names l) => .names l
  | _ => .bad
theorem leaf_eq (h : Heap) (c : Ref) : leaf h c = leafO h.objs[c]? := by
  unfold leaf leafO; split <;> simp_all
theorem leafO_erase (o : Option Obj) : leafO (o.map Obj.erase) = leafO o := by
  cases o with
  | none => rfl
  | some o => cases o <;> rfl
theorem leaf_congr {h0 h : Heap} {c : Ref}
    (he : (h.objs[c]?).map Obj.erase = (h0.objs[c]?).map Obj.erase) : leaf h c = leaf h0 c := by
  rw [leaf_eq, leaf_eq, ← leafO_erase, he, leafO_erase]

/-! ### fuel independence and the frame lemma -/
theorem observeF_eq (h : Heap) : ∀ n m r, r < n → r < m → observeF n h r = observeF m h r := by
  intro n
  induction n with
  | zero => intro m r hr; omega
  | succ n ih =>
    intro m r hn hm
    cases m with
    | zero => omega
    | succ m =>
      unfold observeF
      cases hr : h.objs[r]? with
      | none => rfl
      | some o =>
        cases o with
        | graph ns b s e ci ch =>
          simp only
          congr 2
          apply List.map_congr_left
          intro c _
          by_cases hc : c < r
          · simp only [hc, if_true]; exact ih m c (by romega) (by romega)
          · simp [hc]
        | node nm i o hi mo cl inn cd =>
          simp only
          cases inn with
          | none => rfl
          | some g =>
            simp only
            by_cases hc : g < r
            · simp only [hc, if_true]; rw [ih m g (by romega) (by romega)]
            · simp [hc]
        | dict m => rfl
        | hist l => rfl
        | names l => rfl

theorem observeF_observe (h : Heap) (n r : Nat) (hr : r < n) : observeF n h r = observe h r :=
  observeF_eq h n (r + 1) r hr (by romega)

/-- one unfolding of `observe` at a graph -/
theorem observe_graph {h : Heap} {r : Ref} {ns b s e ci ch}
    (hr : h.objs[r]? = some (.graph ns b s e ci ch)) :
    observe h r =
      .graph (Obs.ofList (ns.map fun c => if c < r then observe h c else .bad)) (leaf h b) s e := by
  conv => lhs; unfold observe; unfold observeF
  simp only [hr]
  congr 2
  apply List.map_congr_left
  intro c _
  by_cases hc : c < r
  · simp only [hc, if_true]; exact observeF_observe h r c hc
  · simp [hc]

/-- one unfolding of `observe` at a node -/
theorem observe_node {h : Heap} {r : Ref} {nm i o hi mo cl inn cd}
    (hr : h.objs[r]? = some (.node nm i o hi mo cl inn cd)) :
    observe h r =
      .node nm i o (leaf h hi) (leafOpt h mo) (leafOpt h cl)
        (match inn with
         | .none => .none
         | some g => if g < r then observe h g else .bad) := by
  conv => lhs; unfold observe; unfold observeF
  simp only [hr]
  cases inn with
  | none => rfl
  | some g =>
    simp only
    by_cases hc : g < r
    · simp only [hc, if_true]; rw [observeF_observe h r g hc]
    · simp [hc]

theorem leafOpt_congr {h0 h : Heap} {mo : Option Ref}
    (he : ∀ c, mo = some c → (h.objs[c]?).map Obj.erase = (h0.objs[c]?).map Obj.erase) :
    leafOpt h mo = leafOpt h0 mo := by
  cases mo with
  | none => rfl
  | some c => exact leaf_congr (he c rfl)

/-- FRAME (fuelled): in an extension of a closed heap, old objects are observed as before. -/
theorem frameF {h0 h : Heap} (hc : Closed h0) (he : Ext h0 h) :
    ∀ n r, r < h0.objs.length → observeF n h r = observeF n h0 r := by
  intro n
  induction n with
  | zero => intro r _; rfl
  | succ n ih =>
    intro r hr
    have hobj := he.2 r hr
    have hlt : r < h.objs.length := Nat.lt_of_lt_of_le hr he.1
    obtain ⟨o0, ho0⟩ : ∃ o0, h0.objs[r]? = some o0 := ⟨h0.objs[r], List.getElem?_eq_getElem hr⟩
    obtain ⟨o, ho⟩ : ∃ o, h.objs[r]? = some o := ⟨h.objs[r], List.getElem?_eq_getElem hlt⟩
    rw [ho, ho0] at hobj
    simp only [Option.map_some, Option.some.injEq] at hobj
    have hcl := hc r o0 ho0
    unfold observeF
    rw [ho, ho0]
    cases o0 <;> cases o <;> simp only [Obj.erase, reduceCtorEq] at hobj <;> try rfl
    · -- graph
      rename_i ns0 b0 s0 e0 ci0 ch0 ns b s e ci ch
      simp only [Obj.graph.injEq, and_true] at hobj
      obtain ⟨rfl, rfl, rfl, rfl⟩ := hobj
      simp only
      have hb : b < h0.objs.length := hcl b (by simp [Obj.leafRefs])
      rw [leaf_congr (he.2 b hb)]
      congr 2
      apply List.map_congr_left
      intro c _
      by_cases hcr : c < r
      · simp only [hcr, if_true]; exact ih c (by romega)
      · simp [hcr]
    · -- node
      rename_i nm0 i0 o0 hi0 mo0 cl0 inn0 cd0 nm i o hi mo cl inn cd
      simp only [Obj.node.injEq, and_true] at hobj
      obtain ⟨rfl, rfl, rfl, rfl, rfl, rfl, rfl⟩ := hobj
      simp only
      have hhi : hi < h0.objs.length := hcl hi (by simp [Obj.leafRefs])
      rw [leaf_congr (he.2 hi hhi)]
      have hmo : leafOpt h mo = leafOpt h0 mo := leafOpt_congr (fun c hc' => he.2 c
        (hcl c (by subst hc'; simp [Obj.leafRefs, Obj.optRef])))
      have hcl' : leafOpt h cl = leafOpt h0 cl := leafOpt_congr (fun c hc' => he.2 c
        (hcl c (by subst hc'; simp [Obj.leafRefs, Obj.optRef])))
      rw [hmo, hcl']
      cases inn with
      | none => rfl
      | some g =>
        simp only
        by_cases hcr : g < r
        · simp only [hcr, if_true]; rw [ih g (by romega)]
        · simp [hcr]
    · simp only [Obj.dict.injEq] at hobj; subst hobj; rfl
    · simp only [Obj.hist.injEq] at hobj; subst hobj; rfl
    · simp only [Obj.names.injEq] at hobj; subst hobj; rfl

/-- FRAME: in an extension of a closed heap, old objects are observed as before. -/
theorem frame_ext {h0 h : Heap} (hc : Closed h0) (he : Ext h0 h) {r : Ref}
    (hr : r < h0.objs.length) : observe h r = observe h0 r := frameF hc he (r + 1) r hr

/-- cache-only changes are invisible to `observe` everywhere (no closedness needed) -/
theorem observeF_sameMod {h0 h : Heap} (hs : SameMod h0 h) :
    ∀ n r, observeF n h r = observeF n h0 r := by
  intro n
  induction n with
  | zero => intro r; rfl
  | succ n ih =>
    intro r
    have hobj := hs.2.2 r
    unfold observeF
    cases ho0 : h0.objs[r]? with
    | none =>
      rw [ho0] at hobj
      cases ho : h.objs[r]? with
      | none => rfl
      | some o => rw [ho] at hobj; simp at hobj
    | some o0 =>
      rw [ho0] at hobj
      cases ho : h.objs[r]? with
      | none => rw [ho] at hobj; simp at hobj
      | some o =>
        rw [ho] at hobj
        simp only [Option.map_some, Option.some.injEq] at hobj
        cases o0 <;> cases o <;> simp only [Obj.erase, reduceCtorEq] at hobj <;> try rfl
        · rename_i ns0 b0 s0 e0 ci0 ch0 ns b s e ci ch
          simp only [Obj.graph.injEq, and_true] at hobj
          obtain ⟨rfl, rfl, rfl, rfl⟩ := hobj
          simp only
          rw [leaf_congr (hs.2.2 b)]
          congr 2
          apply List.map_congr_left
          intro c _
          rw [ih c]
        · rename_i nm0 i0 o0 hi0 mo0 cl0 inn0 cd0 nm i o hi mo cl inn cd
          simp only [Obj.node.injEq, and_true] at hobj
          obtain ⟨rfl, rfl, rfl, rfl, rfl, rfl, rfl⟩ := hobj
          simp only
          rw [leaf_congr (hs.2.2 hi), leafOpt_congr (fun c _ => hs.2.2 c),
            leafOpt_congr (h0 := h0) (h := h) (mo := cl) (fun c _ => hs.2.2 c)]
          cases inn with
          | none => rfl
          | some g => simp only; rw [ih g]
        · simp only [Obj.dict.injEq] at hobj; subst hobj; rfl
        · simp only [Obj.hist.injEq] at hobj; subst hobj; rfl
        · simp only [Obj.names.injEq] at hobj; subst hobj; rfl

theorem observe_sameMod {h0 h : Heap} (hs : SameMod h0 h) (r : Ref) : observe h r = observe h0 r :=
  observeF_sameMod hs (r + 1) r


/-! ### coherence transport -/
theorem CohObj_congr {h h' : Heap} {r : Ref} {o : Obj} (he : observe h' r = observe h r)
    (hc : CohObj h r o) : CohObj h' r o := by
  cases o <;> simp_all [CohObj, summInputs, summHash, summDefaults]

theorem lookup_lt {h : Heap} {r : Nat} {o : Obj} (hr : h.objs[r]? = some o) : r < h.objs.length := by
  have := List.getElem?_eq_some_iff.mp hr
  exact this.1

theorem lookup_append_cases {l s : List Obj} {r : Nat} {o : Obj} (hr : (l ++ s)[r]? = some o) :
    (r < l.length ∧ l[r]? = some o) ∨ (∃ k, r = l.length + k ∧ s[k]? = some o) := by
  by_cases hlt : r < l.length
  · left; exact ⟨hlt, by rwa [getElem?_append_lt _ _ _ hlt] at hr⟩
  · right
    refine ⟨r - l.length, by omega, ?_⟩
    have : r = l.length + (r - l.length) := by omega
    rw [this, getElem?_append_add] at hr
    exact hr

theorem skel_ofList_map_congr {ns : List Ref} {f f' : Ref → Obs} (hf : ∀ c, c ∈ ns → f c = f' c) :
    (Obs.ofList (ns.map f)).skel = (Obs.ofList (ns.map f')).skel := by
  rw [List.map_congr_left hf]

/-- The definition-hash digest of a copy that shares the receiver's node list equals the
receiver's: `_cached_hash` inherited through `copy.copy` is never stale. -/
theorem skel_graph_copy {h h' : Heap} (hI : Inv h) (he : Ext h h') {g r' : Ref}
    {ns b s e ci ch b' s' e' ci' ch'}
    (hg : h.objs[g]? = some (.graph ns b s e ci ch))
    (hr' : h'.objs[r']? = some (.graph ns b' s' e' ci' ch'))
    (hle : h.objs.length ≤ r') : (observe h' r').skel = (observe h g).skel := by
  rw [observe_graph hr', observe_graph hg]
  simp only [Obs.skel]
  congr 1
  apply skel_ofList_map_congr
  intro c hc
  have hcg : c < g := hI.back g _ hg c (by simpa [Obj.recRefs] using hc)
  have hgl : g < h.objs.length := lookup_lt hg
  have h1 : c < r' := by romega
  simp only [hcg, h1, if_true]
  exact frame_ext hI.closed he (by romega)

/-- what a freshly allocated object must satisfy (relative to the heap `h` it is appended to;
`tot` = length of the final heap) -/
def NewOk (h : Heap) (tot : Nat) : Obj → Prop
  | .graph ns b _ _ ci ch =>
    (∀ c, c ∈ ns → c < h.objs.length) ∧ b < tot ∧ ci = none ∧
    (ch = none ∨ ∃ (g : Nat) (b' : Ref) (s' e' : Option (List Name)) (ci' : Option Summary),
        h.objs[g]? = some (.graph ns b' s' e' ci' ch))
  | .node _ _ _ hi mo cl inn cd =>
    hi < tot ∧ (∀ m, mo = some m → m < tot) ∧ (∀ m, cl = some m → m < tot) ∧
    (∀ g, inn = some g → g < h.objs.length) ∧ cd = none
  | _ => True

theorem NewOk.rec_lt {h : Heap} {tot : Nat} {o : Obj} (hn : NewOk h tot o) :
    ∀ c, c ∈ o.recRefs → c < h.objs.length := by
  cases o with
  | graph ns b s e ci ch => intro c hc; exact hn.1 c hc
  | node nm i o hi mo cl inn cd =>
    obtain ⟨_, _, _, h4, _⟩ := hn
    intro c hc
    cases inn with
    | none => simp [Obj.recRefs, Obj.optRef] at hc
    | some g =>
      simp only [Obj.recRefs, Obj.optRef, List.mem_singleton] at hc
      subst hc; exact h4 _ rfl
  | dict m => intro c hc; simp [Obj.recRefs] at hc
  | hist l => intro c hc; simp [Obj.recRefs] at hc
  | names l => intro c hc; simp [Obj.recRefs] at hc

theorem NewOk.leaf_lt {h : Heap} {tot : Nat} {o : Obj} (hn : NewOk h tot o) :
    ∀ c, c ∈ o.leafRefs → c < tot := by
  cases o with
  | graph ns b s e ci ch =>
    intro c hc
    simp only [Obj.leafRefs, List.mem_singleton] at hc
    subst hc; exact hn.2.1
  | node nm i o hi mo cl inn cd =>
    obtain ⟨h1, h2, h3, _, _⟩ := hn
    intro c hc
    simp only [Obj.leafRefs, List.mem_cons, List.mem_append] at hc
    rcases hc with rfl | hc | hc
    · exact h1
    · cases mo with
      | none => simp [Obj.optRef] at hc
      | some m => simp only [Obj.optRef, List.mem_singleton] at hc; subst hc; exact h2 _ rfl
    · cases cl with
      | none => simp [Obj.optRef] at hc
      | some m => simp only [Obj.optRef, List.mem_singleton] at hc; subst hc; exact h3 _ rfl
  | dict m => intro c hc; simp [Obj.leafRefs] at hc
  | hist l => intro c hc; simp [Obj.leafRefs] at hc
  | names l => intro c hc; simp [Obj.leafRefs] at hc

/-- appending well-formed fresh objects preserves the invariant -/
theorem inv_append {h : Heap} (hI : Inv h) (suf : List Obj) (b : Nat)
    (hnew : ∀ (k : Nat) (o : Obj), suf[k]? = some o → NewOk h (h.objs.length + suf.length) o) :
    Inv ⟨h.objs ++ suf, b⟩ := by
  have he : Ext h ⟨h.objs ++ suf, b⟩ := Ext.append h suf b
  refine ⟨?_, ?_, ?_⟩
  · intro r o hr c hc
    simp only [List.length_append]
    rcases lookup_append_cases hr with ⟨_, hr0⟩ | ⟨k, rfl, hk⟩
    · have := hI.closed r o hr0 c hc; romega
    · rcases List.mem_append.mp hc with hc | hc
      · have := (hnew k o hk).rec_lt c hc; romega
      · exact (hnew k o hk).leaf_lt c hc
  · intro r o hr c hc
    rcases lookup_append_cases hr with ⟨_, hr0⟩ | ⟨k, rfl, hk⟩
    · exact hI.back r o hr0 c hc
    · have := (hnew k o hk).rec_lt c hc; romega
  · intro r o hr
    rcases lookup_append_cases hr with ⟨hlt, hr0⟩ | ⟨k, rfl, hk⟩
    · exact CohObj_congr (frame_ext hI.closed he hlt) (hI.coh r o hr0)
    · have hn := hnew k o hk
      cases o with
      | graph ns b0 s e ci ch =>
        obtain ⟨_, _, hci, hch⟩ := hn
        refine ⟨fun s hs => by simp [hci] at hs, fun s hs => ?_⟩
        rcases hch with hch | ⟨g, b', s', e', ci', hg⟩
        · simp [hch] at hs
        · have hco := (hI.coh g _ hg).2 s hs
          rw [hco]
          simp only [summHash]
          rw [skel_graph_copy hI he hg hr (by simp)]
      | node nm i o hi mo cl inn cd =>
        obtain ⟨_, _, _, _, hcd⟩ := hn
        exact ⟨fun _ => hcd, fun s hs => by simp [hcd] at hs⟩
      | dict m => trivial
      | hist l => trivial
      | names l => trivial

/-! ### cache-only writes -/
theorem getElem?_write (h : Heap) (i r : Nat) (o : Obj) :
    (write h i o).objs[r]? = if i = r then (if i < h.objs.length then some o else none) else h.objs[r]? := by
  simp only [write, List.getElem?_set]

theorem write_sameMod {h : Heap} {g : Nat} {o o' : Obj} (hg : h.objs[g]? = some o)
    (he : o'.erase = o.erase) : SameMod h (write h g o') := by
  refine ⟨by simp [write], rfl, fun r => ?_⟩
  rw [getElem?_write]
  by_cases hgr : g = r
  · subst hgr; rw [hg]; simp [lookup_lt hg, he]
  · simp [hgr]

/-- a write that only changes cache slots, to coherent values, preserves the invariant -/
theorem inv_write_cache {h : Heap} (hI : Inv h) {g : Nat} {o o' : Obj} (hg : h.objs[g]? = some o)
    (he : o'.erase = o.erase) (hco : CohObj h g o') : Inv (write h g o') := by
  have hs := write_sameMod hg he
  have hlen : (write h g o').objs.length = h.objs.length := hs.1
  have hlt := lookup_lt hg
  refine ⟨?_, ?_, ?_⟩
  · intro r o'' hr c hc
    rw [hlen]
    rw [getElem?_write] at hr
    by_cases hgr : g = r
    · subst hgr
      simp only [hlt, if_true, Option.some.injEq] at hr
      subst hr
      rw [recRefs_of_erase_eq he, leafRefs_of_erase_eq he] at hc
      exact hI.closed g o hg c hc
    · simp only [hgr, if_false] at hr; exact hI.closed r o'' hr c hc
  · intro r o'' hr c hc
    rw [getElem?_write] at hr
    by_cases hgr : g = r
    · subst hgr
      simp only [hlt, if_true, Option.some.injEq] at hr
      subst hr
      rw [recRefs_of_erase_eq he] at hc
      exact hI.back g o hg c hc
    · simp only [hgr, if_false] at hr; exact hI.back r o'' hr c hc
  · intro r o'' hr
    rw [getElem?_write] at hr
    by_cases hgr : g = r
    · subst hgr
      simp only [hlt, if_true, Option.some.injEq] at hr
      subst hr
      exact CohObj_congr (observe_sameMod hs g) hco
    · simp only [hgr, if_false] at hr
      exact CohObj_congr (observe_sameMod hs r) (hI.coh r o'' hr)

theorem fillInputs_sameMod (h : Heap) (g : Ref) : SameMod h (fillInputs h g) := by
  unfold fillInputs
  split
  · rename_i hg; exact write_sameMod hg rfl
  · exact SameMod.refl h
theorem fillHash_sameMod (h : Heap) (g : Ref) : SameMod h (fillHash h g) := by
  unfold fillHash
  split
  · rename_i hg; exact write_sameMod hg rfl
  · exact SameMod.refl h
theorem fillDefaults_sameMod (h : Heap) (g : Ref) : SameMod h (fillDefaults h g) := by
  unfold fillDefaults
  split
  · rename_i hg; exact write_sameMod hg rfl
  · exact SameMod.refl h

theorem fillInputs_inv {h : Heap} (hI : Inv h) (g : Ref) : Inv (fillInputs h g) := by
  unfold fillInputs
  split
  · rename_i ns b s e ch hg
    refine inv_write_cache hI hg rfl ⟨fun s hs => ?_, (hI.coh g _ hg).2⟩
    simp only [Option.some.injEq] at hs; exact hs.symm
  · exact hI
theorem fillHash_inv {h : Heap} (hI : Inv h) (g : Ref) : Inv (fillHash h g) := by
  unfold fillHash
  split
  · rename_i ns b s e ci hg
    refine inv_write_cache hI hg rfl ⟨(hI.coh g _ hg).1, fun s hs => ?_⟩
    simp only [Option.some.injEq] at hs; exact hs.symm
  · exact hI
theorem fillDefaults_inv {h : Heap} (hI : Inv h) (g : Ref) : Inv (fillDefaults h g) := by
  unfold fillDefaults
  split
  · rename_i nm i o hi mo cl hg
    refine inv_write_cache hI hg rfl ⟨fun hs => by simp at hs, fun s hs => ?_⟩
    simp only [Option.some.injEq] at hs; exact hs.symm
  · exact hI

/-! ### recursive cache reads -/
theorem readNested_sameMod {f : Heap → Ref → Heap} (hf : ∀ h ig, SameMod h (f h ig)) (g : Ref) :
    ∀ (ns : List Ref) (h : Heap), SameMod h (readNested f g h ns) := by
  intro ns
  induction ns with
  | nil => intro h; exact SameMod.refl h
  | cons c cs ih =>
    intro h
    simp only [readNested, List.foldl_cons]
    refine SameMod.trans ?_ (ih _)
    split
    · split
      · exact hf _ _
      · exact SameMod.refl h
    · exact SameMod.refl h

theorem readNested_inv {f : Heap → Ref → Heap} (hf : ∀ h ig, Inv h → Inv (f h ig)) (g : Ref) :
    ∀ (ns : List Ref) (h : Heap), Inv h → Inv (readNested f g h ns) := by
  intro ns
  induction ns with
  | nil => intro h hI; exact hI
  | cons c cs ih =>
    intro h hI
    simp only [readNested, List.foldl_cons]
    apply ih
    split
    · split
      · exact hf _ _ hI
      · exact hI
    · exact hI

theorem readInputsF_sameMod : ∀ (n : Nat) (h : Heap) (g : Ref), SameMod h (readInputsF n h g) := by
  intro n
  induction n with
  | zero => intro h g; exact SameMod.refl h
  | succ n ih =>
    intro h g
    unfold readInputsF
    split
    · exact SameMod.trans (readNested_sameMod ih g _ h) (fillInputs_sameMod _ g)
    · exact SameMod.refl h
theorem readInputsF_inv : ∀ (n : Nat) (h : Heap) (g : Ref), Inv h → Inv (readInputsF n h g) := by
  intro n
  induction n with
  | zero => intro h g hI; exact hI
  | succ n ih =>
    intro h g hI
    unfold readInputsF
    split
    · exact fillInputs_inv (readNested_inv ih g _ h hI) g
    · exact hI
theorem readHashF_sameMod : ∀ (n : Nat) (h : Heap) (g : Ref), SameMod h (readHashF n h g) := by
  intro n
  induction n with
  | zero => intro h g; exact SameMod.refl h
  | succ n ih =>
    intro h g
    unfold readHashF
    split
    · exact SameMod.trans (readNested_sameMod ih g _ h) (fillHash_sameMod _ g)
    · exact SameMod.refl h
theorem readHashF_inv : ∀ (n : Nat) (h : Heap) (g : Ref), Inv h → Inv (readHashF n h g) := by
  intro n
  induction n with
  | zero => intro h g hI; exact hI
  | succ n ih =>
    intro h g hI
    unfold readHashF
    split
    · exact fillHash_inv (readNested_inv ih g _ h hI) g
    · exact hI

theorem readInputsH_sameMod (h : Heap) (g : Ref) : SameMod h (readInputsH h g) :=
  readInputsF_sameMod _ h g
theorem readInputsH_inv {h : Heap} (hI : Inv h) (g : Ref) : Inv (readInputsH h g) :=
  readInputsF_inv _ h g hI
theorem readHashH_sameMod (h : Heap) (g : Ref) : SameMod h (readHashH h g) :=
  readHashF_sameMod _ h g
theorem readHashH_inv {h : Heap} (hI : Inv h) (g : Ref) : Inv (readHashH h g) :=
  readHashF_inv _ h g hI

/-- a read returns the coherent digest -/
theorem cachedInputs_eq {h : Heap} (hI : Inv h) (g : Ref) : cachedInputs h g = summInputs h g := by
  unfold cachedInputs
  split
  · rename_i hg; exact (hI.coh g _ hg).1 _ rfl
  · rfl
theorem cachedHash_eq {h : Heap} (hI : Inv h) (g : Ref) : cachedHash h g = summHash h g := by
  unfold cachedHash
  split
  · rename_i hg; exact (hI.coh g _ hg).2 _ rfl
  · rfl


/-! ### shape of the result of a derivation operation -/

/-- `res` = `X` plus a non-empty suffix of well-formed fresh objects; the result is one of them -/
def Shape (X : Heap) (res : Heap × Ref) : Prop :=
  ∃ (suf : List Obj) (b k : Nat), res = (⟨X.objs ++ suf, b⟩, X.objs.length + k) ∧ k < suf.length ∧
    (Inv X → ∀ o, o ∈ suf → NewOk X (X.objs.length + suf.length) o)

/-- the operation did something: caches of old objects were (coherently) filled, giving `X`, then
fresh objects were appended -/
def Good (h : Heap) (res : Heap × Ref) : Prop :=
  ∃ X, SameMod h X ∧ (Inv h → Inv X) ∧ Shape X res

theorem Good.of_shape {h : Heap} {res : Heap × Ref} (hs : Shape h res) : Good h res :=
  ⟨h, SameMod.refl h, id, hs⟩

theorem Good.ext {h : Heap} {res : Heap × Ref} (hg : Good h res) : Ext h res.1 := by
  obtain ⟨X, hs, _, suf, b, k, rfl, _, _⟩ := hg
  exact Ext.trans hs.ext (Ext.append X suf b)

theorem Good.inv {h : Heap} {res : Heap × Ref} (hg : Good h res) (hI : Inv h) : Inv res.1 := by
  obtain ⟨X, _, hX, suf, b, k, rfl, _, hnew⟩ := hg
  refine inv_append (hX hI) suf b (fun k o hk => hnew (hX hI) o (List.mem_of_getElem? hk))

theorem Good.fresh {h : Heap} {res : Heap × Ref} (hg : Good h res) :
    h.objs.length ≤ res.2 ∧ res.2 < res.1.objs.length := by
  obtain ⟨X, hs, _, suf, b, k, rfl, hk, _⟩ := hg
  have := hs.1
  simp only [List.length_append]
  constructor <;> romega

theorem SameMod.graph {h X : Heap} (hs : SameMod h X) {g : Nat} {ns b s e ci ch}
    (hg : h.objs[g]? = some (.graph ns b s e ci ch)) :
    ∃ ci' ch', X.objs[g]? = some (.graph ns b s e ci' ch') := by
  have := hs.2.2 g
  rw [hg] at this
  cases hX : X.objs[g]? with
  | none => rw [hX] at this; simp at this
  | some o =>
    rw [hX] at this
    cases o <;> simp [Obj.erase] at this
    obtain ⟨rfl, rfl, rfl, rfl⟩ := this
    exact ⟨_, _, rfl⟩

theorem graph_nodes_lt {X : Heap} (hI : Inv X) {g : Nat} {ns b s e ci ch}
    (hg : X.objs[g]? = some (.graph ns b s e ci ch)) : ∀ c, c ∈ ns → c < X.objs.length := by
  intro c hc
  have h1 : c < g := hI.back g _ hg c (by simpa [Obj.recRefs] using hc)
  have := lookup_lt hg
  romega

theorem node_inner_lt {X : Heap} (hI : Inv X) {n : Nat} {nm i o hi mo cl ig cd}
    (hn : X.objs[n]? = some (.node nm i o hi mo cl (some ig) cd)) : ig < X.objs.length := by
  have h1 : ig < n := hI.back n _ hn ig (by simp [Obj.recRefs, Obj.optRef])
  have := lookup_lt hn
  romega

theorem node_cd_none {X : Heap} (hI : Inv X) {n : Nat} {nm i o hi mo cl ig cd}
    (hn : X.objs[n]? = some (.node nm i o hi mo cl (some ig) cd)) : cd = none :=
  (hI.coh n _ hn).1 rfl

theorem isNode_lt {h : Heap} {c : Ref} (hc : isNode h c = true) : c < h.objs.length := by
  unfold isNode at hc
  split at hc
  · rename_i hl; exact lookup_lt hl
  · simp at hc

section ops
attribute [local simp] alloc write setBound setSelected setEntry dropInputsCache setHistory setMapOver
  setClone setName setInputs setOutputs dropNodeCache appendHistory nextBatch
  getElem?_append_len getElem?_append_add set_append_len set_append_add

theorem shallowCopy_shape {X : Heap} {g : Ref} {ns b s e ci ch}
    (hg : X.objs[g]? = some (.graph ns b s e ci ch)) :
    shallowCopy X g =
      (⟨X.objs ++ [.graph ns (X.objs.length + 1) s e .none ch, .dict (dictAt X b)], X.batch⟩,
        X.objs.length) := by
  simp [shallowCopy, hg]

theorem inherit {X : Heap} {g : Nat} {ns b s e ci ch} (hX : X.objs[g]? = some (.graph ns b s e ci ch)) :
    ch = none ∨ ∃ (g : Nat) (b' : Ref) (s' e' : Option (List Name)) (ci' : Option Summary),
        X.objs[g]? = some (.graph ns b' s' e' ci' ch) := Or.inr ⟨g, _, _, _, _, hX⟩

theorem bind_good {h : Heap} {g : Ref} {ns b s e ci ch} (kvs : AL Val)
    (hg : h.objs[g]? = some (.graph ns b s e ci ch)) : Good h (bind h g kvs) := by
  obtain ⟨ci', ch', hX⟩ := (readInputsH_sameMod h g).graph hg
  refine ⟨readInputsH h g, readInputsH_sameMod h g, fun hI => readInputsH_inv hI g, ?_⟩
  simp only [bind, hg]
  generalize readInputsH h g = X at *
  simp [shallowCopy_shape hX]
  refine ⟨_, _, 0, rfl, by simp, ?_⟩
  intro hI
  have hns := graph_nodes_lt hI hX
  simp [NewOk, inherit hX]
  exact hns

theorem unbind_good {h : Heap} {g : Ref} {ns b s e ci ch} (keys : List Name)
    (hg : h.objs[g]? = some (.graph ns b s e ci ch)) : Good h (unbind h g keys) := by
  apply Good.of_shape
  simp only [unbind, hg]
  simp [shallowCopy_shape hg]
  refine ⟨_, _, 0, rfl, by simp, ?_⟩
  intro hI
  have hns := graph_nodes_lt hI hg
  simp [NewOk, inherit hg]
  exact hns

theorem select_good {h : Heap} {g : Ref} {ns b s e ci ch} (names : List Name)
    (hg : h.objs[g]? = some (.graph ns b s e ci ch)) : Good h (select h g names) := by
  apply Good.of_shape
  simp only [select, hg]
  simp [shallowCopy_shape hg]
  refine ⟨_, _, 0, rfl, by simp, ?_⟩
  intro hI
  have hns := graph_nodes_lt hI hg
  simp [NewOk, inherit hg]
  exact hns

theorem withEntrypoint_good {h : Heap} {g : Ref} {ns b s e ci ch} (names : List Name)
    (hg : h.objs[g]? = some (.graph ns b s e ci ch)) : Good h (withEntrypoint h g names) := by
  apply Good.of_shape
  simp only [withEntrypoint, hg]
  simp [shallowCopy_shape hg]
  refine ⟨_, _, 0, rfl, by simp, ?_⟩
  intro hI
  have hns := graph_nodes_lt hI hg
  simp [NewOk, inherit hg]
  exact hns

theorem asNode_good {h : Heap} {g : Ref} {ns b s e ci ch} (name : Name)
    (hg : h.objs[g]? = some (.graph ns b s e ci ch)) : Good h (asNode h g name) := by
  obtain ⟨ci', ch', hX⟩ := (readInputsH_sameMod h g).graph hg
  refine ⟨readInputsH h g, readInputsH_sameMod h g, fun hI => readInputsH_inv hI g, ?_⟩
  simp only [asNode, hg]
  generalize readInputsH h g = X at *
  simp
  refine ⟨_, _, 0, rfl, by simp, ?_⟩
  intro hI
  have := lookup_lt hX
  simp [NewOk]
  romega

theorem addNodes_good {h : Heap} {g : Ref} {ns b s e ci ch} (more : List Ref)
    (hg : h.objs[g]? = some (.graph ns b s e ci ch)) : Good h (addNodes h g more) := by
  by_cases hne : more = []
  · subst hne
    apply Good.of_shape
    simp only [addNodes, hg, if_true]
    simp [shallowCopy_shape hg]
    refine ⟨_, _, 0, rfl, by simp, ?_⟩
    intro hI
    have hns := graph_nodes_lt hI hg
    simp [NewOk, inherit hg]
    exact hns
  simp only [addNodes, hg, hne, if_false]
  have hall : ∀ X : Heap, X.objs.length = h.objs.length → Inv X →
      (∃ ci' ch', X.objs[g]? = some (.graph ns b s e ci' ch')) →
      ∀ c, c ∈ ns ++ more.filter (isNode h) → c < X.objs.length := by
    intro X hlen hI ⟨ci', ch', hX⟩ c hc
    rcases List.mem_append.mp hc with hc | hc
    · exact graph_nodes_lt hI hX c hc
    · have := isNode_lt (List.mem_filter.mp hc).2; romega
  by_cases hb : (dictAt h b).isEmpty = true
  · simp only [hb, Bool.not_true, Bool.false_eq_true, if_false]
    apply Good.of_shape
    cases s with
    | none =>
      simp
      refine ⟨_, _, 0, rfl, by simp, ?_⟩
      intro hI
      have := hall h rfl hI ⟨_, _, hg⟩
      simp [NewOk]
      simpa using this
    | some names =>
      simp [select, shallowCopy, fillInputs]
      refine ⟨_, _, 2, rfl, by simp, ?_⟩
      intro hI
      have := hall h rfl hI ⟨_, _, hg⟩
      simp [NewOk]
      simpa using this
  · simp only [hb, Bool.not_false, if_true]
    have hs := readNested_sameMod readInputsH_sameMod h.objs.length (ns ++ more.filter (isNode h)) h
    obtain hX := hs.graph hg
    refine ⟨_, hs, fun hI => readNested_inv (fun h ig hI => readInputsH_inv hI ig) _ _ h hI, ?_⟩
    have hlen := hs.1
    generalize readNested readInputsH h.objs.length h (ns ++ more.filter (isNode h)) = X at *
    cases s with
    | none =>
      simp [fillInputs]
      refine ⟨_, _, 0, rfl, by simp, ?_⟩
      intro hI
      have := hall X hlen hI hX
      simp [NewOk]
      simpa using this
    | some names =>
      simp [select, shallowCopy, fillInputs]
      refine ⟨_, _, 3, rfl, by simp, ?_⟩
      intro hI
      have := hall X hlen hI hX
      simp [NewOk]
      simpa using this

theorem node_facts {X : Heap} (hI : Inv X) {n : Nat} {nm i o hi mo cl inn cd}
    (hn : X.objs[n]? = some (.node nm i o hi mo cl inn cd)) :
    hi < X.objs.length ∧ (∀ m, mo = some m → m < X.objs.length) ∧
    (∀ m, cl = some m → m < X.objs.length) ∧ (∀ g, inn = some g → g < X.objs.length) ∧
    (∀ g, inn = some g → cd = none) := by
  have hc := hI.closed n _ hn
  refine ⟨hc hi (by simp [Obj.leafRefs]), fun m hm => hc m (by subst hm; simp [Obj.leafRefs, Obj.optRef]),
    fun m hm => hc m (by subst hm; simp [Obj.leafRefs, Obj.optRef]),
    fun g hg => hc g (by subst hg; simp [Obj.recRefs, Obj.optRef]),
    fun g hg => (hI.coh n _ hn).1 (by subst hg; rfl)⟩

/-- finishing tactic: exhibit the suffix and check every fresh object -/
macro "finish_node" k:term "," hn:term : tactic =>
  `(tactic| (refine ⟨_, _, $k, rfl, by simp, ?_⟩; intro hI; have hf := node_facts hI $hn;
             simp only [Ref] at *; simp [NewOk]; grind))

theorem copyNode_good {h : Heap} {n : Ref} {nm i o hi mo cl inn cd}
    (hn : h.objs[n]? = some (.node nm i o hi mo cl inn cd)) : Good h (copyNode h n) := by
  apply Good.of_shape
  cases inn with
  | none =>
    simp [copyNode, hn]
    finish_node 0, hn
  | some ig =>
    cases mo <;> cases cl <;> simp [copyNode, hn] <;> finish_node 0, hn

theorem withName_good {h : Heap} {n : Ref} {nm i o hi mo cl inn cd} (name : Name)
    (hn : h.objs[n]? = some (.node nm i o hi mo cl inn cd)) : Good h (withName h n name) := by
  apply Good.of_shape
  simp only [withName, hn]
  by_cases hname : nm = name
  · cases inn with
    | none => simp [copyNode, hn, nodeName, hname]; finish_node 0, hn
    | some ig => cases mo <;> cases cl <;> simp [copyNode, hn, nodeName, hname] <;> finish_node 0, hn
  · cases inn with
    | none => simp [copyNode, hn, nodeName, hname]; finish_node 0, hn
    | some ig => cases mo <;> cases cl <;> simp [copyNode, hn, nodeName, hname] <;> finish_node 0, hn

theorem withOutputs_good {h : Heap} {n : Ref} {nm i o hi mo cl inn cd} (pairs : List (Name × Name))
    (hn : h.objs[n]? = some (.node nm i o hi mo cl inn cd)) : Good h (withOutputs h n pairs) := by
  simp only [withOutputs, hn]
  by_cases hm : mkDict pairs = []
  · simp only [hm, if_true]; exact copyNode_good hn
  · simp only [hm, if_false]
    apply Good.of_shape
    cases inn with
    | none => simp [withRenamedTuple, copyNode, hn, nodeOutputs]; finish_node 0, hn
    | some ig =>
      cases mo <;> cases cl <;> simp [withRenamedTuple, copyNode, hn, nodeOutputs] <;> finish_node 0, hn

theorem withInputs_good {h : Heap} {n : Ref} {nm i o hi mo cl inn cd} (pairs : List (Name × Name))
    (hn : h.objs[n]? = some (.node nm i o hi mo cl inn cd)) : Good h (withInputs h n pairs) := by
  simp only [withInputs, hn]
  by_cases hm : mkDict pairs = []
  · simp only [hm, if_true]; exact copyNode_good hn
  · simp only [hm, if_false]
    apply Good.of_shape
    cases inn with
    | none => simp [withRenamedTuple, copyNode, hn, nodeInputs]; finish_node 0, hn
    | some ig =>
      cases mo <;> cases cl <;>
        simp [withRenamedTuple, copyNode, hn, nodeInputs, nodeMapOver, nodeClone, namesAt] <;>
        finish_node 0, hn

theorem mapOver_good {h : Heap} {n : Ref} {nm i o hi mo cl ig cd} (params : List Name)
    (cloneArg : Option (List Name))
    (hn : h.objs[n]? = some (.node nm i o hi mo cl (some ig) cd)) :
    Good h (mapOver h n params cloneArg) := by
  apply Good.of_shape
  simp only [mapOver, hn]
  cases mo <;> cases cl <;> cases cloneArg <;> simp [copyNode, hn] <;> finish_node 0, hn

end ops

/-! ### every operation is legal: it extends the heap and preserves the invariant -/
theorem isGraph_iff {h : Heap} {g : Ref} : isGraph h g = true ↔
    ∃ ns b s e ci ch, h.objs[g]? = some (.graph ns b s e ci ch) := by
  unfold isGraph
  split
  · rename_i hl; simp [hl]
  · rename_i hl
    simp only [Bool.false_eq_true, false_iff]
    rintro ⟨ns, b, s, e, ci, ch, hg⟩
    exact hl _ _ _ _ _ _ hg
theorem isNode_iff {h : Heap} {n : Ref} : isNode h n = true ↔
    ∃ nm i o hi mo cl inn cd, h.objs[n]? = some (.node nm i o hi mo cl inn cd) := by
  unfold isNode
  split
  · rename_i hl; simp [hl]
  · rename_i hl
    simp only [Bool.false_eq_true, false_iff]
    rintro ⟨nm, i, o, hi, mo, cl, inn, cd, hg⟩
    exact hl _ _ _ _ _ _ _ _ hg
theorem isGraphNode_iff {h : Heap} {n : Ref} : isGraphNode h n = true ↔
    ∃ nm i o hi mo cl ig cd, h.objs[n]? = some (.node nm i o hi mo cl (some ig) cd) := by
  unfold isGraphNode
  split
  · rename_i hl; simp [hl]
  · rename_i hl
    simp only [Bool.false_eq_true, false_iff]
    rintro ⟨nm, i, o, hi, mo, cl, ig, cd, hg⟩
    exact hl _ _ _ _ _ _ _ _ hg

/-- a cache read: same cells modulo (coherently filled) cache slots, returns its receiver -/
def ReadOnly (h : Heap) (res : Heap × Ref) (r : Ref) : Prop :=
  res.2 = r ∧ SameMod h res.1 ∧ (Inv h → Inv res.1)

/-- Case analysis of one operation: a derivation proper (`Good`), or a no-op on an ill-typed
receiver / `add_nodes()` without nodes / a cache read (`ReadOnly`, returning the receiver). -/
theorem Op.run_spec (h : Heap) (op : Op) :
    Good h (op.run h) ∨ ReadOnly h (op.run h) op.recv := by
  have triv : ∀ r, ReadOnly h (h, r) r := fun r => ⟨rfl, SameMod.refl h, id⟩
  cases op with
  | bind g kvs =>
    simp only [Op.run, Op.recv]
    cases hg : h.objs[g]? with
    | none => right; simp only [Heap.bind, hg]; exact triv g
    | some o =>
      cases o with
      | graph ns b s e ci ch => left; exact bind_good kvs hg
      | _ => right; simp only [Heap.bind, hg]; exact triv g
  | unbind g ks =>
    simp only [Op.run, Op.recv]
    cases hg : h.objs[g]? with
    | none => right; simp only [Heap.unbind, hg]; exact triv g
    | some o =>
      cases o with
      | graph ns b s e ci ch => left; exact unbind_good ks hg
      | _ => right; simp only [Heap.unbind, hg]; exact triv g
  | select g ks =>
    simp only [Op.run, Op.recv]
    cases hg : h.objs[g]? with
    | none => right; simp only [Heap.select, hg]; exact triv g
    | some o =>
      cases o with
      | graph ns b s e ci ch => left; exact select_good ks hg
      | _ => right; simp only [Heap.select, hg]; exact triv g
  | withEntrypoint g ks =>
    simp only [Op.run, Op.recv]
    cases hg : h.objs[g]? with
    | none => right; simp only [Heap.withEntrypoint, hg]; exact triv g
    | some o =>
      cases o with
      | graph ns b s e ci ch => left; exact withEntrypoint_good ks hg
      | _ => right; simp only [Heap.withEntrypoint, hg]; exact triv g
  | addNodes g more =>
    simp only [Op.run, Op.recv]
    cases hg : h.objs[g]? with
    | none => right; simp only [Heap.addNodes, hg]; exact triv g
    | some o =>
      cases o with
      | graph ns b s e ci ch =>
        left; exact addNodes_good more hg
      | _ => right; simp only [Heap.addNodes, hg]; exact triv g
  | asNode g nm =>
    simp only [Op.run, Op.recv]
    cases hg : h.objs[g]? with
    | none => right; simp only [Heap.asNode, hg]; exact triv g
    | some o =>
      cases o with
      | graph ns b s e ci ch => left; exact asNode_good nm hg
      | _ => right; simp only [Heap.asNode, hg]; exact triv g
  | withName n nm =>
    simp only [Op.run, Op.recv]
    cases hn : h.objs[n]? with
    | none => right; simp only [Heap.withName, hn]; exact triv n
    | some o =>
      cases o with
      | node => left; exact withName_good nm hn
      | _ => right; simp only [Heap.withName, hn]; exact triv n
  | withInputs n ps =>
    simp only [Op.run, Op.recv]
    cases hn : h.objs[n]? with
    | none => right; simp only [Heap.withInputs, hn]; exact triv n
    | some o =>
      cases o with
      | node => left; exact withInputs_good ps hn
      | _ => right; simp only [Heap.withInputs, hn]; exact triv n
  | withOutputs n ps =>
    simp only [Op.run, Op.recv]
    cases hn : h.objs[n]? with
    | none => right; simp only [Heap.withOutputs, hn]; exact triv n
    | some o =>
      cases o with
      | node => left; exact withOutputs_good ps hn
      | _ => right; simp only [Heap.withOutputs, hn]; exact triv n
  | mapOver n ps cl =>
    simp only [Op.run, Op.recv]
    cases hn : h.objs[n]? with
    | none => right; simp only [Heap.mapOver, hn]; exact triv n
    | some o =>
      cases o with
      | node nm i o hi mo cl' inn cd =>
        cases inn with
        | none => right; simp only [Heap.mapOver, hn]; exact triv n
        | some ig => left; exact mapOver_good ps cl hn
      | _ => right; simp only [Heap.mapOver, hn]; exact triv n
  | readInputs g =>
    right; exact ⟨rfl, readInputsH_sameMod h g, fun hI => readInputsH_inv hI g⟩
  | readHash g =>
    right; exact ⟨rfl, readHashH_sameMod h g, fun hI => readHashH_inv hI g⟩
  | readDefaults n =>
    right; exact ⟨rfl, fillDefaults_sameMod h n, fun hI => fillDefaults_inv hI n⟩

/-- a derivation proper (right receiver kind, non-trivial argument) appends fresh objects -/
theorem Op.run_good {h : Heap} {op : Op} (hd : op.derives h = true) : Good h (op.run h) := by
  cases op with
  | bind g kvs =>
    obtain ⟨ns, b, s, e, ci, ch, hg⟩ := isGraph_iff.mp (by simpa [Op.derives] using hd)
    exact bind_good kvs hg
  | unbind g ks =>
    obtain ⟨ns, b, s, e, ci, ch, hg⟩ := isGraph_iff.mp (by simpa [Op.derives] using hd)
    exact unbind_good ks hg
  | select g ks =>
    obtain ⟨ns, b, s, e, ci, ch, hg⟩ := isGraph_iff.mp (by simpa [Op.derives] using hd)
    exact select_good ks hg
  | withEntrypoint g ks =>
    obtain ⟨ns, b, s, e, ci, ch, hg⟩ := isGraph_iff.mp (by simpa [Op.derives] using hd)
    exact withEntrypoint_good ks hg
  | addNodes g more =>
    obtain ⟨ns, b, s, e, ci, ch, hg⟩ := isGraph_iff.mp (by simpa [Op.derives] using hd)
    exact addNodes_good more hg
  | asNode g nm =>
    obtain ⟨ns, b, s, e, ci, ch, hg⟩ := isGraph_iff.mp (by simpa [Op.derives] using hd)
    exact asNode_good nm hg
  | withName n nm =>
    obtain ⟨_, _, _, _, _, _, _, _, hn⟩ := isNode_iff.mp (by simpa [Op.derives] using hd)
    exact withName_good nm hn
  | withInputs n ps =>
    obtain ⟨_, _, _, _, _, _, _, _, hn⟩ := isNode_iff.mp (by simpa [Op.derives] using hd)
    exact withInputs_good ps hn
  | withOutputs n ps =>
    obtain ⟨_, _, _, _, _, _, _, _, hn⟩ := isNode_iff.mp (by simpa [Op.derives] using hd)
    exact withOutputs_good ps hn
  | mapOver n ps cl =>
    obtain ⟨_, _, _, _, _, _, _, _, hn⟩ := isGraphNode_iff.mp (by simpa [Op.derives] using hd)
    exact mapOver_good ps cl hn
  | readInputs g => simp [Op.derives] at hd
  | readHash g => simp [Op.derives] at hd
  | readDefaults n => simp [Op.derives] at hd

theorem Op.run_ext (h : Heap) (op : Op) : Ext h (op.run h).1 := by
  rcases Op.run_spec h op with hg | ⟨_, hs, _⟩
  · exact hg.ext
  · exact hs.ext
theorem Op.run_inv {h : Heap} (hI : Inv h) (op : Op) : Inv (op.run h).1 := by
  rcases Op.run_spec h op with hg | ⟨_, _, hi⟩
  · exact hg.inv hI
  · exact hi hI
theorem Op.run_ref_lt {h : Heap} (op : Op) (hr : op.recv < h.objs.length) :
    (op.run h).2 < (op.run h).1.objs.length := by
  rcases Op.run_spec h op with hg | ⟨h2, hs, _⟩
  · exact hg.fresh.2
  · rw [h2, hs.1]; exact hr

theorem runOps_ext (h : Heap) (ops : List Op) : Ext h (runOps h ops) := by
  induction ops generalizing h with
  | nil => exact Ext.refl h
  | cons op ops ih => exact Ext.trans (Op.run_ext h op) (ih _)
theorem runOps_inv {h : Heap} (hI : Inv h) (ops : List Op) : Inv (runOps h ops) := by
  induction ops generalizing h with
  | nil => exact hI
  | cons op ops ih => exact ih (Op.run_inv hI op)

@[simp] theorem Op.recv_setRecv (op : Op) (r : Ref) : (op.setRecv r).recv = r := by
  cases op <;> rfl

theorem derive_ext (h : Heap) (r : Ref) (ops : List Op) : Ext h (derive h r ops).1 := by
  induction ops generalizing h r with
  | nil => exact Ext.refl h
  | cons op ops ih => exact Ext.trans (Op.run_ext h _) (ih _ _)
theorem derive_inv {h : Heap} (hI : Inv h) (r : Ref) (ops : List Op) : Inv (derive h r ops).1 := by
  induction ops generalizing h r with
  | nil => exact hI
  | cons op ops ih => exact ih (Op.run_inv hI _) _
theorem derive_ref_lt {h : Heap} {r : Ref} (hr : r < h.objs.length) (ops : List Op) :
    (derive h r ops).2 < (derive h r ops).1.objs.length := by
  induction ops generalizing h r with
  | nil => exact hr
  | cons op ops ih => exact ih (Op.run_ref_lt _ (by simpa using hr))

/-! ### the initial heap satisfies the invariant -/
theorem inv_empty : Inv ⟨[], 0⟩ :=
  ⟨fun r o hr => by simp at hr, fun r o hr => by simp at hr, fun r o hr => by simp at hr⟩

/-- invariant of the construction of the initial heap -/
def InitP (acc : Heap × List Ref) : Prop := Inv acc.1 ∧ ∀ c, c ∈ acc.2 → c < acc.1.objs.length

theorem initStep_P {acc : Heap × List Ref} (hP : InitP acc) (nd : Name × List Name × List Name) :
    InitP (initStep acc nd) := by
  obtain ⟨hI, hns⟩ := hP
  simp only [initStep, alloc]
  constructor
  · have := inv_append hI [.hist [], .node nd.1 nd.2.1 nd.2.2 acc.1.objs.length .none .none .none .none]
      acc.1.batch
      (by
        intro k o hk
        have hm := List.mem_of_getElem? hk
        simp only [List.mem_cons, List.not_mem_nil, or_false] at hm
        rcases hm with rfl | rfl
        · trivial
        · exact ⟨by simp, by simp, by simp, by simp, rfl⟩)
    simpa using this
  · intro c hc
    simp only [List.length_append, List.length_cons, List.length_nil]
    rcases List.mem_append.mp hc with hc | hc
    · have := hns c hc; romega
    · simp only [List.mem_singleton] at hc; subst hc; simp

theorem initFold_P (nodes : List (Name × List Name × List Name)) {acc : Heap × List Ref}
    (hP : InitP acc) : InitP (nodes.foldl initStep acc) := by
  induction nodes generalizing acc with
  | nil => exact hP
  | cons nd nds ih => exact ih (initStep_P hP nd)

theorem initHeap_spec (nodes : List (Name × List Name × List Name)) :
    Inv (initHeap nodes).1 ∧ 0 < (initHeap nodes).1.objs.length ∧
    ∀ r, r ∈ (initHeap nodes).2.2 ++ [(initHeap nodes).2.1] → r < (initHeap nodes).1.objs.length := by
  have hP : InitP (nodes.foldl initStep (({ objs := [] } : Heap), [])) :=
    initFold_P nodes ⟨inv_empty, fun c hc => by simp at hc⟩
  unfold initHeap
  generalize nodes.foldl initStep (({ objs := [] } : Heap), []) = acc at *
  obtain ⟨hI, hns⟩ := hP
  simp only [alloc]
  refine ⟨?_, by simp, ?_⟩
  · have := inv_append hI [.dict [], .graph acc.2 acc.1.objs.length .none .none .none .none] acc.1.batch
      (by
        intro k o hk
        have hm := List.mem_of_getElem? hk
        simp only [List.mem_cons, List.not_mem_nil, or_false] at hm
        rcases hm with rfl | rfl
        · trivial
        · exact ⟨hns, by simp, rfl, Or.inl rfl⟩)
    simpa using this
  · intro r hr
    simp only [List.length_append, List.length_cons, List.length_nil]
    rcases List.mem_append.mp hr with hr | hr
    · have := hns r hr; romega
    · simp only [List.mem_singleton] at hr; subst hr; simp

theorem initHeap_inv (nodes : List (Name × List Name × List Name)) : Inv (initHeap nodes).1 :=
  (initHeap_spec nodes).1

section copies
attribute [local simp] alloc write setBound setSelected setEntry dropInputsCache setHistory setMapOver
  setClone setName setInputs setOutputs dropNodeCache appendHistory nextBatch
  getElem?_append_len getElem?_append_add set_append_len set_append_add

theorem copy_core {X : Heap} (hI : Inv X) {g : Ref} {ns b s e ci ch}
    (hX : X.objs[g]? = some (.graph ns b s e ci ch)) (o2 : List Obj) (bt : Nat) (b' : Ref)
    (s' e' : Option (List Name)) :
    (⟨X.objs ++ (.graph ns b' s' e' .none ch :: o2), bt⟩ : Heap).objs[g]? = some (.graph ns b s e ci ch) ∧
    (⟨X.objs ++ (.graph ns b' s' e' .none ch :: o2), bt⟩ : Heap).objs[X.objs.length]? =
      some (.graph ns b' s' e' .none ch) ∧
    summHash ⟨X.objs ++ (.graph ns b' s' e' .none ch :: o2), bt⟩ X.objs.length =
      summHash ⟨X.objs ++ (.graph ns b' s' e' .none ch :: o2), bt⟩ g := by
  have hlt := lookup_lt hX
  have he := Ext.append X (.graph ns b' s' e' .none ch :: o2) bt
  have h1 : (⟨X.objs ++ (.graph ns b' s' e' .none ch :: o2), bt⟩ : Heap).objs[X.objs.length]? =
      some (.graph ns b' s' e' .none ch) := by simp
  refine ⟨by simp [getElem?_append_lt _ _ _ hlt, hX], h1, ?_⟩
  simp only [summHash]
  rw [skel_graph_copy hI he hX h1 (Nat.le_refl _), frame_ext hI.closed he hlt]

/-- `_shallow_copy`-based operations: the copy has the receiver's node list, an EMPTY `inputs`
cache, the receiver's `_cached_hash` slot — and that digest is valid for the copy. -/
def CopySpec (g : Ref) (res : Heap × Ref) : Prop :=
  ∃ ns b s e ci ch b' s' e',
    res.1.objs[g]? = some (.graph ns b s e ci ch) ∧
    res.1.objs[res.2]? = some (.graph ns b' s' e' .none ch) ∧
    summHash res.1 res.2 = summHash res.1 g

theorem graphCopy_spec {h : Heap} (hI : Inv h) (op : Op) (hcopy : op.isGraphCopy = true)
    (hd : op.derives h = true) : CopySpec op.recv (op.run h) := by
  cases op with
  | bind g kvs =>
    simp only [Op.derives] at hd
    obtain ⟨ns, b, s, e, ci, ch, hg⟩ := isGraph_iff.mp hd
    obtain ⟨ci', ch', hX⟩ := (readInputsH_sameMod h g).graph hg
    have hIX := readInputsH_inv hI g
    simp only [Op.run, Op.recv, Heap.bind, hg]
    generalize readInputsH h g = X at *
    simp [shallowCopy_shape hX]
    exact ⟨_, _, _, _, _, _, _, _, _, copy_core hIX hX _ _ _ _ _⟩
  | unbind g ks =>
    simp only [Op.derives] at hd
    obtain ⟨ns, b, s, e, ci, ch, hg⟩ := isGraph_iff.mp hd
    simp only [Op.run, Op.recv, Heap.unbind, hg]
    simp [shallowCopy_shape hg]
    exact ⟨_, _, _, _, _, _, _, _, _, copy_core hI hg _ _ _ _ _⟩
  | select g ks =>
    simp only [Op.derives] at hd
    obtain ⟨ns, b, s, e, ci, ch, hg⟩ := isGraph_iff.mp hd
    simp only [Op.run, Op.recv, Heap.select, hg]
    simp [shallowCopy_shape hg]
    exact ⟨_, _, _, _, _, _, _, _, _, copy_core hI hg _ _ _ _ _⟩
  | withEntrypoint g ks =>
    simp only [Op.derives] at hd
    obtain ⟨ns, b, s, e, ci, ch, hg⟩ := isGraph_iff.mp hd
    simp only [Op.run, Op.recv, Heap.withEntrypoint, hg]
    simp [shallowCopy_shape hg]
    exact ⟨_, _, _, _, _, _, _, _, _, copy_core hI hg _ _ _ _ _⟩
  | _ => simp [Op.isGraphCopy] at hcopy
end copies

theorem replayFrom_cons (h : Heap) (res : List Ref) (s : OpSpec) (ss : List OpSpec) :
    replayFrom h res (s :: ss) =
      (res ++ [((s.toOp res).run h).2]).map (observe ((s.toOp res).run h).1) ::
        replayFrom ((s.toOp res).run h).1 (res ++ [((s.toOp res).run h).2]) ss := rfl

theorem getD_lt {res : List Ref} {n : Nat} (hres : ∀ r, r ∈ res → r < n) (hpos : 0 < n) (i : Nat) :
    res.getD i 0 < n := by
  rw [List.getD_eq_getElem?_getD]
  cases hi : res[i]? with
  | none => simpa using hpos
  | some r => simpa using hres r (List.mem_of_getElem? hi)

theorem toOp_recv_lt {res : List Ref} {n : Nat} (hres : ∀ r, r ∈ res → r < n) (hpos : 0 < n)
    (s : OpSpec) : (s.toOp res).recv < n := by
  cases s <;> exact getD_lt hres hpos _

/-- EXECUTABLE-LEVEL FRAME: in the output of `replay`, the observation of an object never changes
after the row in which it first appears. -/
theorem replayFrom_stable {h : Heap} (hI : Inv h) (res : List Ref)
    (hres : ∀ r, r ∈ res → r < h.objs.length) (hpos : 0 < h.objs.length) (ops : List OpSpec) :
    ∀ row, row ∈ replayFrom h res ops → ∀ i, i < res.length →
      row[i]? = (res.map (observe h))[i]? := by
  induction ops generalizing h res with
  | nil => intro row hrow; simp [replayFrom] at hrow
  | cons s ss ih =>
    intro row hrow i hi
    rw [replayFrom_cons] at hrow
    have hext := Op.run_ext h (s.toOp res)
    have hI' := Op.run_inv hI (s.toOp res)
    have hlt := Op.run_ref_lt (h := h) (s.toOp res) (toOp_recv_lt hres hpos s)
    generalize ((s.toOp res).run h).1 = h' at *
    generalize ((s.toOp res).run h).2 = r' at *
    have hres' : ∀ r, r ∈ res ++ [r'] → r < h'.objs.length := by
      intro r hr
      rcases List.mem_append.mp hr with hr | hr
      · have := hres r hr; have := hext.1; romega
      · simp only [List.mem_singleton] at hr; subst hr; exact hlt
    have hfirst : ((res ++ [r']).map (observe h'))[i]? = (res.map (observe h))[i]? := by
      rw [List.map_append, List.getElem?_append_left (by simpa using hi)]
      simp only [List.getElem?_map]
      cases hr : res[i]? with
      | none => rfl
      | some r =>
        simp only [Option.map_some]
        rw [frame_ext hI.closed hext (hres r (List.mem_of_getElem? hr))]
    rcases List.mem_cons.mp hrow with rfl | hrow
    · exact hfirst
    · rw [ih hI' (res ++ [r']) hres' (by have := hext.1; omega) row hrow i (by simp; omega)]
      exact hfirst


end Heap

/-! # Run isolation (C18) -/
namespace Iso
macro "iomega" : tactic => `(tactic| first | omega | (simp only [Ref] at *; omega))

/-! ### association lists -/
theorem mem_put {α} {m : AL α} {k : Name} {v : α} {p : Name × α} (h : p ∈ AL.put m k v) :
    p ∈ m ∨ p = (k, v) := by
  induction m with
  | nil => simp [AL.put] at h; exact Or.inr h
  | cons hd t ih =>
    obtain ⟨a, w⟩ := hd
    by_cases hk : k = a
    · simp only [AL.put, hk, if_true, List.mem_cons] at h
      rcases h with h | h
      · right; rw [h, hk]
      · left; exact List.mem_cons_of_mem _ h
    · simp only [AL.put, hk, if_false, List.mem_cons] at h
      rcases h with h | h
      · left; rw [h]; exact List.mem_cons_self
      · rcases ih h with h | h
        · left; exact List.mem_cons_of_mem _ h
        · right; exact h

theorem mem_merge {α} {b a : AL α} {p : Name × α} (h : p ∈ AL.merge a b) : p ∈ a ∨ p ∈ b := by
  induction b generalizing a with
  | nil => left; simpa [AL.merge] using h
  | cons hd t ih =>
    simp only [AL.merge, List.foldl_cons] at h
    rcases ih h with h | h
    · rcases mem_put h with h | h
      · left; exact h
      · right; rw [h]; exact List.mem_cons_self
    · right; exact List.mem_cons_of_mem _ h

theorem mem_of_get? {α} {m : AL α} {k : Name} {v : α} (h : AL.get? m k = some v) : (k, v) ∈ m := by
  induction m with
  | nil => simp [AL.get?] at h
  | cons hd t ih =>
    obtain ⟨a, w⟩ := hd
    by_cases hk : k = a
    · simp only [AL.get?, hk, if_true, Option.some.injEq] at h
      rw [hk, h]; exact List.mem_cons_self
    · simp only [AL.get?, hk, if_false] at h
      exact List.mem_cons_of_mem _ (ih h)

/-! ### cells -/
theorem cell_append_lt (cs ex : List (List Int)) (ds ds' : List (AL Ref)) {c : Ref}
    (hc : c < cs.length) : cell ⟨cs ++ ex, ds⟩ c = cell ⟨cs, ds'⟩ c := by
  simp [cell, List.getD_eq_getElem?_getD, List.getElem?_append_left hc]

theorem applyEff_dicts (m : Mem) (refs : List Ref) (eff : Eff) : (applyEff m refs eff).dicts = m.dicts := by
  cases eff with
  | none => rfl
  | appendTo i x => simp only [applyEff]; split <;> rfl
theorem applyEff_length (m : Mem) (refs : List Ref) (eff : Eff) :
    (applyEff m refs eff).cells.length = m.cells.length := by
  cases eff with
  | none => rfl
  | appendTo i x => simp only [applyEff]; split <;> simp
theorem cell_applyEff_ne (m : Mem) (refs : List Ref) (eff : Eff) {c : Ref}
    (hc : ∀ a, a ∈ refs → a ≠ c) : cell (applyEff m refs eff) c = cell m c := by
  cases eff with
  | none => rfl
  | appendTo i x =>
    simp only [applyEff]
    split
    · rename_i a ha
      have hne : a ≠ c := hc a (List.mem_of_getElem? ha)
      simp [cell, List.getD_eq_getElem?_getD, List.getElem?_set, hne]
    · rfl

/-! ### argument resolution -/
/-- how a resolved argument relates to its source -/
def ArgOk (st : AL Ref) (m m1 : Mem) : Src → Arg → Prop
  | .default c, a =>
    a.copyOf = some c ∧ m.cells.length ≤ a.ref ∧ a.ref < m1.cells.length ∧ cell m1 a.ref = cell m c
  | .bound c, a => a = ⟨c, .none⟩
  | .provided k, a => AL.get? st k = some a.ref ∧ a.copyOf = .none

theorem resolveArgs_spec (st : AL Ref) : ∀ (srcs : List Src) (m m1 : Mem) (args : List Arg),
    resolveArgs true st m srcs = some (m1, args) →
    (∀ c, Src.default c ∈ srcs → c < m.cells.length) →
    m1.dicts = m.dicts ∧ (∃ extra, m1.cells = m.cells ++ extra) ∧ args.length = srcs.length ∧
    ∀ (j : Nat) (src : Src) (a : Arg), srcs[j]? = some src → args[j]? = some a → ArgOk st m m1 src a := by
  intro srcs
  induction srcs with
  | nil =>
    intro m m1 args h _
    simp only [resolveArgs, Option.some.injEq, Prod.mk.injEq] at h
    obtain ⟨rfl, rfl⟩ := h
    exact ⟨rfl, ⟨[], by simp⟩, rfl, fun j src a hs => by simp at hs⟩
  | cons s ss ih =>
    intro m m1 args h hdef
    simp only [resolveArgs] at h
    cases h0 : resolveArg true m st s with
    | none => simp [h0] at h
    | some r0 =>
      obtain ⟨m', a0⟩ := r0
      simp only [h0] at h
      cases h1 : resolveArgs true st m' ss with
      | none => simp [h1] at h
      | some r1 =>
        obtain ⟨m2, as⟩ := r1
        simp only [h1, Option.some.injEq, Prod.mk.injEq] at h
        obtain ⟨rfl, rfl⟩ := h
        -- facts about the head
        have hhead : m'.dicts = m.dicts ∧ (∃ ex, m'.cells = m.cells ++ ex) ∧
            (∀ m3 : Mem, (∃ ex, m3.cells = m'.cells ++ ex) → ArgOk st m m3 s a0) := by
          cases s with
          | default c =>
            simp only [resolveArg, if_true, Option.some.injEq, Prod.mk.injEq] at h0
            obtain ⟨rfl, rfl⟩ := h0
            refine ⟨rfl, ⟨_, rfl⟩, ?_⟩
            rintro m3 ⟨ex, hex⟩
            refine ⟨rfl, Nat.le_refl _, by rw [hex]; simp, ?_⟩
            simp [cell, hex, List.getD_eq_getElem?_getD]
          | bound c =>
            simp only [resolveArg, Option.some.injEq, Prod.mk.injEq] at h0
            obtain ⟨rfl, rfl⟩ := h0
            exact ⟨rfl, ⟨[], by simp⟩, fun _ _ => rfl⟩
          | provided k =>
            simp only [resolveArg, Option.map_eq_some_iff, Prod.mk.injEq] at h0
            obtain ⟨c, hk, rfl, rfl⟩ := h0
            exact ⟨rfl, ⟨[], by simp⟩, fun _ _ => ⟨hk, rfl⟩⟩
        obtain ⟨hd', ⟨ex', hex'⟩, hok0⟩ := hhead
        have hdef' : ∀ c, Src.default c ∈ ss → c < m'.cells.length := by
          intro c hc
          have := hdef c (List.mem_cons_of_mem _ hc)
          rw [hex']; simp; iomega
        obtain ⟨hd2, ⟨ex2, hex2⟩, hlen, hall⟩ := ih m' m2 as h1 hdef'
        refine ⟨by rw [hd2, hd'], ⟨ex' ++ ex2, by rw [hex2, hex', List.append_assoc]⟩, by simp [hlen], ?_⟩
        intro j src a hs ha
        cases j with
        | zero =>
          simp only [List.getElem?_cons_zero, Option.some.injEq] at hs ha
          subst hs; subst ha
          exact hok0 m2 ⟨ex2, hex2⟩
        | succ j =>
          simp only [List.getElem?_cons_succ] at hs ha
          have hok := hall j src a hs ha
          cases src with
          | default c =>
            obtain ⟨h1', h2', h3', h4'⟩ := hok
            have hc : c < m.cells.length := hdef c (List.mem_cons_of_mem _ (List.mem_of_getElem? hs))
            refine ⟨h1', ?_, h3', ?_⟩
            · rw [hex'] at h2'; simp at h2'; iomega
            · rw [h4']
              simp [cell, hex', List.getD_eq_getElem?_getD, List.getElem?_append_left hc]
          | bound c => exact hok
          | provided k => exact hok

/-! ### the run-isolation invariant -/
/-- `c` is the signature-default cell of some parameter of some node -/
def IsDefault (specs : List RunSpec) (c : Ref) : Prop :=
  ∃ (rid : Nat) (spec : RunSpec) (sid : Nat) (nd : Node),
    specs[rid]? = some spec ∧ spec.nodes[sid]? = some nd ∧ Src.default c ∈ nd.srcs
/-- `c` is shared INTENTIONALLY: bound to some graph, or reachable from a caller's mapping -/
def IsShared (specs : List RunSpec) (m0 : Mem) (c : Ref) : Prop :=
  (∃ (rid : Nat) (spec : RunSpec) (sid : Nat) (nd : Node),
    specs[rid]? = some spec ∧ spec.nodes[sid]? = some nd ∧ Src.bound c ∈ nd.srcs) ∨
  (∃ (d : Nat) (dc : AL Ref) (k : Name), m0.dicts[d]? = some dc ∧ (k, c) ∈ dc) ∨
  (∃ (rid : Nat) (spec : RunSpec) (k : Name), specs[rid]? = some spec ∧ (k, c) ∈ spec.kwargs)
/-- well-formed initial situation: every object mentioned exists, and a function's default object
is not ALSO handed out explicitly (bound / provided) by the user -/
structure WF (specs : List RunSpec) (m0 : Mem) : Prop where
  default_lt : ∀ c, IsDefault specs c → c < m0.cells.length
  priv : ∀ c, IsDefault specs c → ¬ IsShared specs m0 c
/-- a reference that may legitimately reach a node function -/
def RefOk (specs : List RunSpec) (m0 : Mem) (c : Ref) : Prop :=
  IsShared specs m0 c ∨ m0.cells.length ≤ c

theorem default_not_refOk {specs : List RunSpec} {m0 : Mem} (hw : WF specs m0) {c : Ref}
    (hc : IsDefault specs c) : ¬ RefOk specs m0 c := by
  rintro (h | h)
  · exact hw.priv c hc h
  · have := hw.default_lt c hc; iomega

/-- how a logged argument relates to the source it was resolved from -/
def SrcArgOk (specs : List RunSpec) (m0 : Mem) : Src → Arg → Prop
  | .default c, a => a.copyOf = some c ∧ m0.cells.length ≤ a.ref
  | .bound c, a => a = ⟨c, .none⟩
  | .provided _, a => a.copyOf = .none ∧ RefOk specs m0 a.ref

/-- every by-reference argument of the call is an initial cell no EARLIER call has received -/
def FreshArgs (m0 : Mem) (earlier : List Call) (call : Call) : Prop :=
  ∀ a, a ∈ call.args → a.copyOf = .none →
    a.ref < m0.cells.length ∧ ∀ call', call' ∈ earlier → ∀ a', a' ∈ call'.args → a'.ref ≠ a.ref

/-- the result the call would give on the INITIAL contents of its sources -/
def initialRes (m0 : Mem) (call : Call) : Res :=
  mkRes (call.args.map fun a => cell m0 (a.copyOf.getD a.ref)) call.eff

def CallOk (specs : List RunSpec) (m0 : Mem) (earlier : List Call) (call : Call) : Prop :=
  ∃ (spec : RunSpec) (nd : Node), specs[call.rid]? = some spec ∧ spec.nodes[call.sid]? = some nd ∧
    call.eff = nd.eff ∧ call.args.length = nd.srcs.length ∧
    (∀ (j : Nat) (src : Src) (a : Arg), nd.srcs[j]? = some src → call.args[j]? = some a →
      SrcArgOk specs m0 src a) ∧
    (FreshArgs m0 earlier call → call.res = initialRes m0 call)

structure J (specs : List RunSpec) (m0 : Mem) (w : World) : Prop where
  cells_le : m0.cells.length ≤ w.mem.cells.length
  dicts_le : m0.dicts.length ≤ w.mem.dicts.length
  dicts_old : ∀ d : Nat, d < m0.dicts.length → w.mem.dicts[d]? = m0.dicts[d]?
  dict_vals : ∀ (d : Nat) (dc : AL Ref) (k : Name) (c : Ref),
    w.mem.dicts[d]? = some dc → (k, c) ∈ dc → RefOk specs m0 c
  states_fresh : ∀ (rid : Nat) (st : Ref), lookupState w.states rid = some st → m0.dicts.length ≤ st
  untouched : ∀ c : Nat, c < m0.cells.length →
    (∀ call, call ∈ w.log → ∀ a, a ∈ call.args → a.ref ≠ c) → cell w.mem c = cell m0 c
  calls : ∀ (i : Nat) (call : Call), w.log[i]? = some call → CallOk specs m0 (w.log.take i) call

theorem J.arg_refOk {specs : List RunSpec} {m0 : Mem} {w : World} (hJ : J specs m0 w)
    {call : Call} (hc : call ∈ w.log) {a : Arg} (ha : a ∈ call.args) : RefOk specs m0 a.ref := by
  obtain ⟨i, hi⟩ := List.getElem?_of_mem hc
  obtain ⟨spec, nd, hs, hn, _, hlen, hall, _⟩ := hJ.calls i call hi
  obtain ⟨j, hj⟩ := List.getElem?_of_mem ha
  have hjlt : j < call.args.length := (List.getElem?_eq_some_iff.mp hj).1
  obtain ⟨src, hsrc⟩ : ∃ src, nd.srcs[j]? = some src :=
    ⟨nd.srcs[j]'(by omega), List.getElem?_eq_getElem (by omega)⟩
  have hok := hall j src a hsrc hj
  cases src with
  | default c => exact Or.inr hok.2
  | bound c =>
    simp only [SrcArgOk] at hok
    subst hok
    exact Or.inl (Or.inl ⟨_, spec, _, nd, hs, hn, List.mem_of_getElem? hsrc⟩)
  | provided k => exact hok.2

/-- defaults are never received, hence never written -/
theorem J.default_cell {specs : List RunSpec} {m0 : Mem} {w : World} (hw : WF specs m0)
    (hJ : J specs m0 w) {c : Ref} (hc : IsDefault specs c) : cell w.mem c = cell m0 c := by
  apply hJ.untouched c (hw.default_lt c hc)
  intro call hcall a ha heq
  exact default_not_refOk hw hc (heq ▸ hJ.arg_refOk hcall ha)

theorem J.init (specs : List RunSpec) (m0 : Mem) : J specs m0 ⟨m0, [], []⟩ :=
  { cells_le := Nat.le_refl _
    dicts_le := Nat.le_refl _
    dicts_old := fun _ _ => rfl
    dict_vals := fun d dc k c h1 h2 => Or.inl (Or.inr (Or.inl ⟨d, dc, k, h1, h2⟩))
    states_fresh := fun rid st h => by simp [lookupState] at h
    untouched := fun _ _ _ => rfl
    calls := fun i call h => by simp at h }

theorem J.start {specs : List RunSpec} {m0 : Mem} {w : World} (hJ : J specs m0 w) (rid : Nat) :
    J specs m0 (execStart specs w rid) := by
  unfold execStart
  cases hs : specs[rid]? with
  | none => exact hJ
  | some spec =>
    simp only
    have hbase : ∀ (k : Name) (c : Ref),
        (k, c) ∈ (match spec.values with | .none => ([] : AL Ref) | some d => dict w.mem d) →
        RefOk specs m0 c := by
      intro k c hkc
      cases hv : spec.values with
      | none => simp [hv] at hkc
      | some d =>
        simp only [hv, dict, List.getD_eq_getElem?_getD] at hkc
        cases hd : w.mem.dicts[d]? with
        | none => simp [hd] at hkc
        | some dc => simp only [hd, Option.getD_some] at hkc; exact hJ.dict_vals d dc k c hd hkc
    have hnorm : ∀ (k : Name) (c : Ref),
        (k, c) ∈ AL.merge (match spec.values with | .none => ([] : AL Ref) | some d => dict w.mem d)
          spec.kwargs → RefOk specs m0 c := by
      intro k c hkc
      rcases mem_merge hkc with h | h
      · exact hbase k c h
      · exact Or.inl (Or.inr (Or.inr ⟨rid, spec, k, hs, h⟩))
    refine
      { cells_le := hJ.cells_le
        dicts_le := by simp; have := hJ.dicts_le; omega
        dicts_old := ?_
        dict_vals := ?_
        states_fresh := ?_
        untouched := hJ.untouched
        calls := hJ.calls }
    · intro d hd
      have := hJ.dicts_le
      simp only
      rw [List.getElem?_append_left (by omega)]
      exact hJ.dicts_old d hd
    · intro d dc k c hd hkc
      simp only at hd
      by_cases hlt : d < w.mem.dicts.length
      · rw [List.getElem?_append_left hlt] at hd
        exact hJ.dict_vals d dc k c hd hkc
      · rw [List.getElem?_append_right (by omega)] at hd
        generalize hidx : d - w.mem.dicts.length = idx at hd
        match idx, hd with
        | 0, hd =>
          simp only [List.getElem?_cons_zero, Option.some.injEq] at hd
          subst hd; exact hnorm k c hkc
        | 1, hd =>
          simp only [List.getElem?_cons_succ, List.getElem?_cons_zero, Option.some.injEq] at hd
          subst hd
          rcases mem_merge hkc with h | h
          · simp at h
          · exact hnorm k c h
        | n + 2, hd => simp at hd
    · intro rid' st hst
      simp only [lookupState] at hst
      split at hst
      · simp only [Option.some.injEq] at hst
        have := hJ.dicts_le; iomega
      · exact hJ.states_fresh rid' st hst

theorem CallOk.mono {specs : List RunSpec} {m0 : Mem} {log : List Call} {i : Nat} {call : Call}
    (new : Call) (hi : log[i]? = some call) (h : CallOk specs m0 (log.take i) call) :
    CallOk specs m0 ((log ++ [new]).take i) call := by
  have hlt : i < log.length := (List.getElem?_eq_some_iff.mp hi).1
  rw [List.take_append_of_le_length (by omega)]
  exact h

theorem J.step {specs : List RunSpec} {m0 : Mem} {w : World} (hw : WF specs m0) (hJ : J specs m0 w)
    (rid sid : Nat) : J specs m0 (execStep true specs w rid sid) := by
  unfold execStep
  cases hs : specs[rid]? with
  | none => exact hJ
  | some spec =>
    cases hst : lookupState w.states rid with
    | none => exact hJ
    | some st =>
      simp only
      cases hn : spec.nodes[sid]? with
      | none => exact hJ
      | some nd =>
        simp only
        cases hr : resolveArgs true (dict w.mem st) w.mem nd.srcs with
        | none => exact hJ
        | some r =>
          obtain ⟨m1, args⟩ := r
          simp only
          have hdefault : ∀ c, Src.default c ∈ nd.srcs → IsDefault specs c :=
            fun c hc => ⟨rid, spec, sid, nd, hs, hn, hc⟩
          have hdeflt : ∀ c, Src.default c ∈ nd.srcs → c < w.mem.cells.length := by
            intro c hc
            have := hw.default_lt c (hdefault c hc); have := hJ.cells_le; iomega
          obtain ⟨hd1, ⟨ex, hex⟩, hlen, hall⟩ := resolveArgs_spec _ nd.srcs w.mem m1 args hr hdeflt
          have hstfresh := hJ.states_fresh rid st hst
          -- every argument is legitimately received
          have hsrcok : ∀ (j : Nat) (src : Src) (a : Arg), nd.srcs[j]? = some src → args[j]? = some a →
              SrcArgOk specs m0 src a := by
            intro j src a hsrc ha
            have hok := hall j src a hsrc ha
            cases src with
            | default c =>
              obtain ⟨h1, h2, _, _⟩ := hok
              exact ⟨h1, by have := hJ.cells_le; iomega⟩
            | bound c => exact hok
            | provided k =>
              obtain ⟨h1, h2⟩ := hok
              refine ⟨h2, ?_⟩
              have hmem := mem_of_get? h1
              simp only [dict, List.getD_eq_getElem?_getD] at hmem
              cases hdd : w.mem.dicts[st]? with
              | none => simp [hdd] at hmem
              | some dc =>
                simp only [hdd, Option.getD_some] at hmem
                exact hJ.dict_vals st dc k a.ref hdd hmem
          have hargok : ∀ a, a ∈ args → RefOk specs m0 a.ref := by
            intro a ha
            obtain ⟨j, hj⟩ := List.getElem?_of_mem ha
            have hjlt : j < args.length := (List.getElem?_eq_some_iff.mp hj).1
            obtain ⟨src, hsrc⟩ : ∃ src, nd.srcs[j]? = some src :=
              ⟨nd.srcs[j]'(by omega), List.getElem?_eq_getElem (by omega)⟩
            have hok := hsrcok j src a hsrc hj
            cases src with
            | default c => exact Or.inr hok.2
            | bound c =>
              simp only [SrcArgOk] at hok; subst hok
              exact Or.inl (Or.inl ⟨rid, spec, sid, nd, hs, hn, List.mem_of_getElem? hsrc⟩)
            | provided k => exact hok.2
          have hlen2 : (applyEff m1 (args.map (·.ref)) nd.eff).cells.length = m1.cells.length :=
            applyEff_length _ _ _
          have hm1len : w.mem.cells.length ≤ m1.cells.length := by rw [hex]; simp
          refine
            { cells_le := by simp [hlen2]; have := hJ.cells_le; omega
              dicts_le := by simp [applyEff_dicts, hd1]; exact hJ.dicts_le
              dicts_old := ?_
              dict_vals := ?_
              states_fresh := hJ.states_fresh
              untouched := ?_
              calls := ?_ }
          · intro d hd
            simp only [applyEff_dicts, hd1]
            rw [List.getElem?_set_ne (by iomega)]
            exact hJ.dicts_old d hd
          · intro d dc k c hd hkc
            simp only [applyEff_dicts, hd1, List.getElem?_set] at hd
            by_cases hds : st = d
            · subst hds
              simp only [if_true] at hd
              split at hd
              · simp only [Option.some.injEq] at hd
                subst hd
                rcases mem_put hkc with h | h
                · simp only [dict, applyEff_dicts, hd1, List.getD_eq_getElem?_getD] at h
                  cases hdd : w.mem.dicts[st]? with
                  | none => simp [hdd] at h
                  | some dc =>
                    simp only [hdd, Option.getD_some] at h
                    exact hJ.dict_vals st dc k c hdd h
                · simp only [Prod.mk.injEq] at h
                  right; rw [h.2, hlen2]; have := hJ.cells_le; omega
              · simp at hd
            · simp only [hds, if_false] at hd
              exact hJ.dict_vals d dc k c hd hkc
          · intro c hc hun
            have hold : ∀ call, call ∈ w.log → ∀ a, a ∈ call.args → a.ref ≠ c :=
              fun call hcall => hun call (List.mem_append_left _ hcall)
            have hnew : ∀ a, a ∈ args → a.ref ≠ c := by
              intro a ha
              exact hun ⟨rid, sid, args, nd.eff, _⟩ (List.mem_append_right _ (List.mem_singleton.mpr rfl)) a ha
            have hcw : c < w.mem.cells.length := by have := hJ.cells_le; omega
            have h1 : cell m1 c = cell w.mem c := by
              simp [cell, hex, List.getD_eq_getElem?_getD, List.getElem?_append_left hcw]
            have h2 : cell (applyEff m1 (args.map (·.ref)) nd.eff) c = cell m1 c :=
              cell_applyEff_ne _ _ _ (by
                intro a ha
                obtain ⟨a', ha', rfl⟩ := List.mem_map.mp ha
                exact hnew a' ha')
            rw [← hJ.untouched c hc hold, ← h1, ← h2]
            simp [cell, List.getD_eq_getElem?_getD,
              List.getElem?_append_left (show c < (applyEff m1 (args.map (·.ref)) nd.eff).cells.length by
                rw [hlen2]; omega)]
          · intro i call hi
            by_cases hlt : i < w.log.length
            · simp only at hi
              rw [List.getElem?_append_left hlt] at hi
              exact CallOk.mono _ hi (hJ.calls i call hi)
            · simp only at hi
              rw [List.getElem?_append_right (by omega)] at hi
              have hi0 : i - w.log.length = 0 := by
                cases hidx : i - w.log.length with
                | zero => rfl
                | succ n => rw [hidx] at hi; simp at hi
              rw [hi0] at hi
              simp only [List.getElem?_cons_zero, Option.some.injEq] at hi
              subst hi
              have hieq : i = w.log.length := by omega
              subst hieq
              refine ⟨spec, nd, hs, hn, rfl, hlen, hsrcok, ?_⟩
              intro hfresh
              simp only [List.take_left', initialRes]
              congr 1
              apply List.map_congr_left
              intro a ha
              obtain ⟨j, hj⟩ := List.getElem?_of_mem ha
              have hjlt : j < args.length := (List.getElem?_eq_some_iff.mp hj).1
              obtain ⟨src, hsrc⟩ : ∃ src, nd.srcs[j]? = some src :=
                ⟨nd.srcs[j]'(by omega), List.getElem?_eq_getElem (by omega)⟩
              have hok := hall j src a hsrc hj
              cases src with
              | default c =>
                obtain ⟨h1, _, _, h4⟩ := hok
                rw [h4, h1]
                exact hJ.default_cell hw (hdefault c (List.mem_of_getElem? hsrc))
              | bound c =>
                simp only [ArgOk] at hok
                have hf := hfresh a ha (by rw [hok])
                simp only [List.take_left'] at hf
                have hcw : a.ref < w.mem.cells.length := by have := hJ.cells_le; have := hf.1; iomega
                have h1 : cell m1 a.ref = cell w.mem a.ref := by
                  simp [cell, hex, List.getD_eq_getElem?_getD, List.getElem?_append_left hcw]
                rw [h1, hJ.untouched a.ref hf.1 (fun call hc a' ha' => hf.2 call hc a' ha')]
                rw [hok]; rfl
              | provided k =>
                obtain ⟨_, h2⟩ := hok
                have hf := hfresh a ha h2
                simp only [List.take_left'] at hf
                have hcw : a.ref < w.mem.cells.length := by have := hJ.cells_le; have := hf.1; iomega
                have h1 : cell m1 a.ref = cell w.mem a.ref := by
                  simp [cell, hex, List.getD_eq_getElem?_getD, List.getElem?_append_left hcw]
                rw [h1, hJ.untouched a.ref hf.1 (fun call hc a' ha' => hf.2 call hc a' ha'), h2]
                rfl

theorem J.exec {specs : List RunSpec} {m0 : Mem} {w : World} (hw : WF specs m0) (hJ : J specs m0 w)
    (ev : Ev) : J specs m0 (exec true specs w ev) := by
  cases ev with
  | start rid => exact hJ.start rid
  | step rid sid => exact hJ.step hw rid sid

theorem J.runHist {specs : List RunSpec} {m0 : Mem} {w : World} (hw : WF specs m0)
    (hJ : J specs m0 w) (evs : List Ev) : J specs m0 (runHist true specs w evs) := by
  induction evs generalizing w with
  | nil => exact hJ
  | cons ev evs ih => exact ih (hJ.exec hw ev)

/-! ### the caller's mappings are never mutated (with or without the deep copy; no `WF` needed) -/
theorem resolveArgs_dicts (deep : Bool) (st : AL Ref) : ∀ (srcs : List Src) (m m1 : Mem) (args : List Arg),
    resolveArgs deep st m srcs = some (m1, args) → m1.dicts = m.dicts := by
  intro srcs
  induction srcs with
  | nil =>
    intro m m1 args h
    simp only [resolveArgs, Option.some.injEq, Prod.mk.injEq] at h
    rw [← h.1]
  | cons s ss ih =>
    intro m m1 args h
    simp only [resolveArgs] at h
    cases h0 : resolveArg deep m st s with
    | none => simp [h0] at h
    | some r0 =>
      obtain ⟨m', a0⟩ := r0
      simp only [h0] at h
      cases h1 : resolveArgs deep st m' ss with
      | none => simp [h1] at h
      | some r1 =>
        obtain ⟨m2, as⟩ := r1
        simp only [h1, Option.some.injEq, Prod.mk.injEq] at h
        obtain ⟨rfl, rfl⟩ := h
        rw [ih m' m2 as h1]
        cases s with
        | default c =>
          cases deep <;> simp only [resolveArg, if_true, Option.some.injEq, Prod.mk.injEq] at h0
          · simp at h0; rw [← h0.1]
          · rw [← h0.1]
        | bound c =>
          simp only [resolveArg, Option.some.injEq, Prod.mk.injEq] at h0; rw [← h0.1]
        | provided k =>
          simp only [resolveArg, Option.map_eq_some_iff, Prod.mk.injEq] at h0
          obtain ⟨c, _, rfl, _⟩ := h0; rfl

structure K (m0 : Mem) (w : World) : Prop where
  dicts_le : m0.dicts.length ≤ w.mem.dicts.length
  dicts_old : ∀ d : Nat, d < m0.dicts.length → w.mem.dicts[d]? = m0.dicts[d]?
  states_fresh : ∀ (rid : Nat) (st : Ref), lookupState w.states rid = some st → m0.dicts.length ≤ st

theorem K.exec {deep : Bool} {specs : List RunSpec} {m0 : Mem} {w : World} (hK : K m0 w) (ev : Ev) :
    K m0 (exec deep specs w ev) := by
  cases ev with
  | start rid =>
    simp only [Iso.exec, execStart]
    cases hs : specs[rid]? with
    | none => exact hK
    | some spec =>
      simp only
      refine ⟨by simp; have := hK.dicts_le; omega, ?_, ?_⟩
      · intro d hd
        have := hK.dicts_le
        simp only
        rw [List.getElem?_append_left (by omega)]
        exact hK.dicts_old d hd
      · intro rid' st hst
        simp only [lookupState] at hst
        split at hst
        · simp only [Option.some.injEq] at hst
          have := hK.dicts_le; iomega
        · exact hK.states_fresh rid' st hst
  | step rid sid =>
    simp only [Iso.exec, execStep]
    cases hs : specs[rid]? with
    | none => exact hK
    | some spec =>
      cases hst : lookupState w.states rid with
      | none => exact hK
      | some st =>
        simp only
        cases hn : spec.nodes[sid]? with
        | none => exact hK
        | some nd =>
          simp only
          cases hr : resolveArgs deep (dict w.mem st) w.mem nd.srcs with
          | none => exact hK
          | some r =>
            obtain ⟨m1, args⟩ := r
            simp only
            have hd1 := resolveArgs_dicts deep _ nd.srcs w.mem m1 args hr
            have hstf := hK.states_fresh rid st hst
            refine ⟨by simp [applyEff_dicts, hd1]; exact hK.dicts_le, ?_, hK.states_fresh⟩
            intro d hd
            simp only [applyEff_dicts, hd1]
            rw [List.getElem?_set_ne (by iomega)]
            exact hK.dicts_old d hd

theorem K.runHist {deep : Bool} {specs : List RunSpec} {m0 : Mem} {w : World} (hK : K m0 w)
    (evs : List Ev) : K m0 (runHist deep specs w evs) := by
  induction evs generalizing w with
  | nil => exact hK
  | cons ev evs ih => exact ih (hK.exec ev)

theorem K.init (m0 : Mem) : K m0 ⟨m0, [], []⟩ :=
  ⟨Nat.le_refl _, fun _ _ => rfl, fun rid st h => by simp [lookupState] at h⟩

/-! ### a decidable check of `WF` -/
def srcDefault : Src → Option Ref
  | .default c => some c
  | _ => .none
def srcBound : Src → Option Ref
  | .bound c => some c
  | _ => .none
def allDefaults (specs : List RunSpec) : List Ref :=
  specs.flatMap fun sp => sp.nodes.flatMap fun nd => nd.srcs.filterMap srcDefault
def allShared (specs : List RunSpec) (m0 : Mem) : List Ref :=
  (specs.flatMap fun sp => sp.nodes.flatMap fun nd => nd.srcs.filterMap srcBound) ++
  (m0.dicts.flatMap fun dc => dc.map (·.2)) ++
  (specs.flatMap fun sp => sp.kwargs.map (·.2))
def wfCheck (specs : List RunSpec) (m0 : Mem) : Bool :=
  (allDefaults specs).all fun c => decide (c < m0.cells.length) && !(allShared specs m0).contains c

theorem mem_allDefaults {specs : List RunSpec} {c : Ref} (h : IsDefault specs c) :
    c ∈ allDefaults specs := by
  obtain ⟨rid, spec, sid, nd, h1, h2, h3⟩ := h
  simp only [allDefaults, List.mem_flatMap, List.mem_filterMap]
  exact ⟨spec, List.mem_of_getElem? h1, nd, List.mem_of_getElem? h2, _, h3, rfl⟩

theorem mem_allShared {specs : List RunSpec} {m0 : Mem} {c : Ref} (h : IsShared specs m0 c) :
    c ∈ allShared specs m0 := by
  simp only [allShared, List.mem_append, List.mem_flatMap, List.mem_filterMap, List.mem_map]
  rcases h with ⟨rid, spec, sid, nd, h1, h2, h3⟩ | ⟨d, dc, k, h1, h2⟩ | ⟨rid, spec, k, h1, h2⟩
  · exact Or.inl (Or.inl ⟨spec, List.mem_of_getElem? h1, nd, List.mem_of_getElem? h2, _, h3, rfl⟩)
  · exact Or.inl (Or.inr ⟨dc, List.mem_of_getElem? h1, (k, c), h2, rfl⟩)
  · exact Or.inr ⟨spec, List.mem_of_getElem? h1, (k, c), h2, rfl⟩

theorem wfCheck_sound {specs : List RunSpec} {m0 : Mem} (h : wfCheck specs m0 = true) : WF specs m0 := by
  simp only [wfCheck, List.all_eq_true, Bool.and_eq_true, decide_eq_true_eq, Bool.not_eq_true',
    List.contains_eq_mem, decide_eq_false_iff_not] at h
  exact ⟨fun c hc => (h c (mem_allDefaults hc)).1,
    fun c hc hs => (h c (mem_allDefaults hc)).2 (mem_allShared hs)⟩

def srcInit (m0 : Mem) : Src → List Int
  | .default c => cell m0 c
  | _ => []

/-- a call of a node all of whose parameters fall back to signature defaults: copies only, and the
initial contents of its sources are determined by the node -/
theorem all_defaults_call {specs : List RunSpec} {m0 : Mem} {earlier : List Call} {call : Call}
    (h : CallOk specs m0 earlier call) {spec : RunSpec} {nd : Node}
    (hs : specs[call.rid]? = some spec) (hn : spec.nodes[call.sid]? = some nd)
    (hall : ∀ src, src ∈ nd.srcs → ∃ c, src = .default c) :
    (∀ a, a ∈ call.args → a.copyOf ≠ none) ∧
    call.args.map (fun a => cell m0 (a.copyOf.getD a.ref)) = nd.srcs.map (srcInit m0) ∧
    call.eff = nd.eff := by
  obtain ⟨spec', nd', hs', hn', heff, hlen, hok, _⟩ := h
  rw [hs] at hs'; cases hs'
  rw [hn] at hn'; cases hn'
  have key : ∀ (j : Nat) (a : Arg), call.args[j]? = some a →
      ∃ c, nd.srcs[j]? = some (.default c) ∧ a.copyOf = some c := by
    intro j a ha
    have hjlt : j < call.args.length := (List.getElem?_eq_some_iff.mp ha).1
    obtain ⟨src, hsrc⟩ : ∃ src, nd.srcs[j]? = some src :=
      ⟨nd.srcs[j]'(by omega), List.getElem?_eq_getElem (by omega)⟩
    obtain ⟨c, rfl⟩ := hall src (List.mem_of_getElem? hsrc)
    exact ⟨c, hsrc, (hok j _ a hsrc ha).1⟩
  refine ⟨?_, ?_, heff⟩
  · intro a ha
    obtain ⟨j, hj⟩ := List.getElem?_of_mem ha
    obtain ⟨c, _, hc⟩ := key j a hj
    simp [hc]
  · apply List.ext_getElem?
    intro j
    simp only [List.getElem?_map]
    cases ha : call.args[j]? with
    | none =>
      have : nd.srcs[j]? = none := by
        rw [List.getElem?_eq_none_iff] at ha ⊢; omega
      simp [this]
    | some a =>
      obtain ⟨c, hsrc, hc⟩ := key j a ha
      simp [hsrc, hc, srcInit]
end Iso
end HG
