import HG.Lemmas.LoopL1
/-! # HG.Lemmas.LoopEx — small concrete programs used by the non-vacuity examples of C04 / C11 -/
namespace HG.Ex
open HG HG.L1

/-- `a(x) -> y` succeeds, `f(x) -> z` raises the user exception "boom"; both are ready in step 0 -/
def nA : NodeD := mkNode "a" .fn ["x"] ["y"] [] true [] []
def nF : NodeD := mkNode "f" .fn ["x"] ["z"] [] true [] []
def emptySpec : InputSpec := { required := [], optional := [], entrypoints := [], bound := [] }
def gFail : GraphD :=
  { name := "inner", nodes := [nA, nF], bound := [], selected := .none, entrypoints := .none
    edges := [], spec := emptySpec }

def semBoom : Sem := fun nd _ => if nd.name = "f" then .raise (.user "boom") else .val (.int 1)

/-- outer graph: a single nested-graph node running `gFail` (program index 0) -/
def nSub (mapOver : List Name) (em : ErrMode) : NodeD :=
  { mkNode "sub" .graph ["x"] ["y", "z"] [] true [] [] with
    origOut := [("y", "y"), ("z", "z")], inner := 0, mapOver := mapOver, errMode := em }
def gOuter (mapOver : List Name) (em : ErrMode) : GraphD :=
  { name := "outer", nodes := [nSub mapOver em], bound := [], selected := .none, entrypoints := .none
    edges := [], spec := emptySpec }

def prog (mapOver : List Name) (em : ErrMode) : Program := [gFail, gOuter mapOver em]

/-- the snapshot before step 0 of `gFail` -/
def s0 : GState := initState [("x", .int 0)]

/-! ## stall witness: a loop whose body repeats an intermediate value -/

/-- `b1(x) -> flag` returns a constant -/
def sB1 : NodeD := { mkNode "b1" .fn ["x"] ["flag"] [] true [] [] with body := .const (.bool true) }
/-- `b2(flag, x) -> x` increments the loop variable -/
def sB2 : NodeD := { mkNode "b2" .fn ["flag", "x"] ["x"] [] true [] [] with body := .sum 1 }
/-- `gate(x)`: continue with `b1` while `x < 5`, else END -/
def sGate : NodeD := { mkNode "gate" .ifelse ["x"] [] [.node "b1", .end_] true [] [] with body := .lt 5 }
def gStall : GraphD :=
  { name := "stall", nodes := [sB1, sB2, sGate], bound := [], selected := .none, entrypoints := .none
    edges := [], spec := emptySpec }

/-- the loop `run()` executes for `gStall` from `x = 0` with the default limit of 1000 iterations -/
def stallLoop : LoopOut :=
  runGraphLoop (nestedAt bodySem .sync [gStall] 0) bodySem .sync 0 gStall [("x", .int 0)] {} ["r"] .none

def LoopOut.state? : LoopOut → Option GState
  | .done s _ _ => some s
  | _ => .none

end HG.Ex
