import HG.Model.TypeCompat

/-! # C19 — the type-compatibility judgement is exactly a rule system

`HG.TypeCompat.compat` mirrors `hypergraph._typing.is_type_compatible` (case order included).
Here the judgement is stated as an inductively defined relation `Compat` and proved equivalent to
the executable function for type expressions of ANY depth (`compat_iff_rules`).

`Compat` describes the code AS IT IS.  Where the code departs from the documented rules
("identity, Any, unions, parameterised generics, subclassing") the rule carries the departure
explicitly and a `_witness` theorem pins a concrete instance (all replayed on the real function):
* rule `bareIncoming` (undocumented: an un-parameterised *incoming* type satisfies every
  parameterisation of a super-origin) — `bare_incoming_witness`, `str_to_sequence_int_witness`;
* the side conditions `isUnion = false` / `isAnnotated = false` encode the dispatch order
  (union handling before `Annotated` stripping) — `annotated_union_witness` shows that
  `Annotated` is therefore not transparent;
* `Any` is a top element only; as incoming it is the class `typing.Any` — `any_not_bottom_witness`,
  `any_to_object_witness`;
* `Ellipsis` / the value `None` are atoms compatible with nothing but themselves —
  `tuple_ellipsis_witness`, `none_literal_witness`.
-/
namespace HG.C19
open HG.TypeCompat

/-! ## The rule system -/

mutual
  /-- `Compat i r`: an output annotated `i` may feed an input annotated `r`. -/
  inductive Compat : Ty → Ty → Prop
    /-- identity (`==` of the annotations: structural, union members as a set) -/
    | ident (i r : Ty) : pyEq i r = true → Compat i r
    /-- `Any` as REQUIRED accepts everything -/
    | toAny (i : Ty) : Compat i .any
    /-- a missing annotation on either side skips the check -/
    | noAnnL (r : Ty) : Compat .noAnn r
    | noAnnR (i : Ty) : Compat i .noAnn
    /-- union → union: every incoming member satisfies some required member -/
    | unionBoth (as bs : List Ty) : (∀ a ∈ as, CompatSome a bs) → Compat (.union as) (.union bs)
    /-- union → non-union: every member satisfies it -/
    | unionL (as : List Ty) (r : Ty) : r.isUnion = false → (∀ a ∈ as, Compat a r) →
        Compat (.union as) r
    /-- non-union → union: it satisfies some member -/
    | unionR (i : Ty) (bs : List Ty) : i.isUnion = false → CompatSome i bs → Compat i (.union bs)
    /-- `Annotated` is stripped — AFTER union dispatch, hence the side conditions -/
    | annBoth (i r : Ty) : Compat i r → Compat (.annotated i) (.annotated r)
    | annL (i r : Ty) : r.isUnion = false → r.isAnnotated = false → Compat i r →
        Compat (.annotated i) r
    | annR (i r : Ty) : i.isUnion = false → i.isAnnotated = false → Compat i r →
        Compat i (.annotated r)
    /-- subclassing of the origins when REQUIRED carries no arguments (plain classes, and
    "un-parameterised generic accepts any parameterisation"): `bool → int`, `list[int] → list`,
    `list[int] → Sequence`, `list[int] → object`.  `head? = some _` excludes unions, `Annotated`,
    `Ellipsis` and the value `None`. -/
    | bareRequired (i r : Ty) (a b : String) : i.head? = some a → r.head? = some b →
        isSub a b = true → r.targs = [] → Compat i r
    /-- QUIRK (undocumented): the same when INCOMING carries no arguments:
    `list → list[int]`, `str → Sequence[int]` -/
    | bareIncoming (i r : Ty) (a b : String) : i.head? = some a → r.head? = some b →
        isSub a b = true → i.targs = [] → Compat i r
    /-- parameterised generics: origin subclassing, equal arity, arguments pairwise (covariantly) -/
    | genArgs (a b : String) (xs ys : List Ty) : isSub a b = true → xs.length = ys.length →
        (∀ p ∈ xs.zip ys, Compat p.1 p.2) → Compat (.gen a xs) (.gen b ys)
  /-- `CompatSome i bs`: `i` satisfies some member of `bs` -/
  inductive CompatSome : Ty → List Ty → Prop
    | here (i b : Ty) (bs : List Ty) : Compat i b → CompatSome i (b :: bs)
    | there (i b : Ty) (bs : List Ty) : CompatSome i bs → CompatSome i (b :: bs)
end

theorem compatSome_of_mem {i b : Ty} {bs : List Ty} (hb : b ∈ bs) (h : Compat i b) :
    CompatSome i bs := by
  induction bs with
  | nil => cases hb
  | cons c cs ih =>
    rcases List.mem_cons.mp hb with rfl | hb
    · exact .here _ _ _ h
    · exact .there _ _ _ (ih hb)

/-! ## Unfolding lemmas for the executable function -/

theorem identicalOrAny_iff {i r : Ty} :
    identicalOrAny i r = true ↔ pyEq i r = true ∨ r = .any ∨ i = .noAnn ∨ r = .noAnn := by
  unfold identicalOrAny
  cases i <;> cases r <;> simp [Ty.isAny, Ty.isNoAnn]

theorem compat_of_early {i r : Ty} (h : identicalOrAny i r = true) : compat i r = true := by
  rw [compat.eq_def]; simp [h]

theorem allCompat_iff {as : List Ty} {r : Ty} :
    allCompat as r = true ↔ ∀ a ∈ as, compat a r = true := by
  induction as with
  | nil => simp [allCompat]
  | cons a as ih => simp [allCompat, ih]

theorem anyCompat_iff {i : Ty} {bs : List Ty} :
    anyCompat i bs = true ↔ ∃ b ∈ bs, compat i b = true := by
  induction bs with
  | nil => simp [anyCompat]
  | cons b bs ih => simp [anyCompat, ih]

theorem allAnyCompat_iff {as bs : List Ty} :
    allAnyCompat as bs = true ↔ ∀ a ∈ as, anyCompat a bs = true := by
  induction as with
  | nil => simp [allAnyCompat]
  | cons a as ih => simp [allAnyCompat, ih]

theorem zipCompat_iff {xs ys : List Ty} :
    zipCompat xs ys = true ↔ xs.length = ys.length ∧ ∀ p ∈ xs.zip ys, compat p.1 p.2 = true := by
  induction xs generalizing ys with
  | nil => cases ys <;> simp [zipCompat]
  | cons x xs ih =>
    cases ys with
    | nil => simp [zipCompat]
    | cons y ys => simp [zipCompat, ih, and_left_comm]

/-! ## Soundness: every `True` of the code is derivable -/

theorem compat_sound {i r : Ty} : compat i r = true → Compat i r := by
  apply compat.induct
    (motive1 := fun i r => compat i r = true → Compat i r)
    (motive2 := fun xs ys => ∀ p ∈ xs.zip ys, compat p.1 p.2 = true → Compat p.1 p.2)
    (motive3 := fun i bs => ∀ b ∈ bs, compat i b = true → Compat i b)
    (motive4 := fun as r => ∀ a ∈ as, compat a r = true → Compat a r)
    (motive5 := fun as bs => ∀ a ∈ as, ∀ b ∈ bs, compat a b = true → Compat a b)
  -- identical / Any / NoAnnotation
  · intro i r h _
    rcases identicalOrAny_iff.mp h with h | rfl | rfl | rfl
    · exact .ident _ _ h
    · exact .toAny _
    · exact .noAnnL _
    · exact .noAnnR _
  -- union, union
  · intro as bs hne ih h
    rw [compat.eq_1, if_neg hne, allAnyCompat_iff] at h
    refine .unionBoth _ _ fun a ha => ?_
    obtain ⟨b, hb, hc⟩ := anyCompat_iff.mp (h a ha)
    exact compatSome_of_mem hb (ih a ha b hb hc)
  -- union, non-union
  · intro as r hr hne ih h
    rw [compat.eq_2 _ _ hr, if_neg hne, allCompat_iff] at h
    refine .unionL _ _ ?_ fun a ha => ih a ha (h a ha)
    cases r <;> first | rfl | exact (hr _ rfl).elim
  -- non-union, union
  · intro i bs hi hne ih h
    rw [compat.eq_3 _ _ hi, if_neg hne] at h
    obtain ⟨b, hb, hc⟩ := anyCompat_iff.mp h
    refine .unionR _ _ ?_ (compatSome_of_mem hb (ih b hb hc))
    cases i <;> first | rfl | exact (hi _ rfl).elim
  -- Annotated, Annotated
  · intro i' r' hne ih h
    rw [compat.eq_4, if_neg hne] at h
    exact .annBoth _ _ (ih h)
  -- Annotated, other
  · intro i' r hr1 hr2 hne ih h
    rw [compat.eq_5 _ _ hr1 hr2, if_neg hne] at h
    refine .annL _ _ ?_ ?_ (ih h)
    · cases r <;> first | rfl | exact (hr1 _ rfl).elim
    · cases r <;> first | rfl | exact (hr2 _ rfl).elim
  -- other, Annotated
  · intro i r' hi1 hi2 hne ih h
    rw [compat.eq_6 _ _ hi1 hi2, if_neg hne] at h
    refine .annR _ _ ?_ ?_ (ih h)
    · cases i <;> first | rfl | exact (hi1 _ rfl).elim
    · cases i <;> first | rfl | exact (hi2 _ rfl).elim
  -- generic, generic
  · intro a xs b ys hne ih h
    rw [compat.eq_7, if_neg hne] at h
    simp only [Bool.and_eq_true, Bool.or_eq_true, List.isEmpty_iff, beq_iff_eq] at h
    obtain ⟨hs, h⟩ := h
    rcases h with (rfl | rfl) | ⟨hl, hz⟩
    · exact .bareRequired _ _ a b rfl rfl hs rfl
    · exact .bareIncoming _ _ a b rfl rfl hs rfl
    · exact .genArgs _ _ _ _ hs hl fun p hp => ih p hp ((zipCompat_iff.mp hz).2 p hp)
  -- at most one side has arguments
  · intro i r h1 h2 h3 h4 h5 h6 h7 hne h
    rw [compat.eq_8 _ _ ‹_› ‹_› ‹_› ‹_› ‹_› ‹_› ‹_›, if_neg hne] at h
    unfold originOk at h
    split at h
    · rename_i a b ha hb
      have : r.targs = [] ∨ i.targs = [] := by
        cases r <;> first | exact .inl rfl | skip
        cases i <;> first | exact .inr rfl | skip
        exact (h7 _ _ _ _ rfl rfl).elim
      rcases this with ht | ht
      · exact .bareRequired _ _ a b ha hb h ht
      · exact .bareIncoming _ _ a b ha hb h ht
    · cases h
  -- zipCompat
  · intro p hp; cases hp
  · intro x xs y ys ih1 ih2 p hp hc
    simp only [List.zip_cons_cons, List.mem_cons] at hp
    rcases hp with rfl | hp
    · exact ih1 hc
    · exact ih2 p hp hc
  · intro xs ys h1 h2 p hp
    cases xs with
    | nil => cases hp
    | cons x xs =>
      cases ys with
      | nil => cases hp
      | cons y ys => exact (h2 _ _ _ _ rfl rfl).elim
  -- anyCompat
  · intro x b hb; cases hb
  · intro a b bs ih1 ih2 b' hb' hc
    rcases List.mem_cons.mp hb' with rfl | hb'
    · exact ih1 hc
    · exact ih2 b' hb' hc
  -- allCompat
  · intro x a ha; cases ha
  · intro a as r ih1 ih2 a' ha' hc
    rcases List.mem_cons.mp ha' with rfl | ha'
    · exact ih1 hc
    · exact ih2 a' ha' hc
  -- allAnyCompat
  · intro x a ha; cases ha
  · intro a as bs ih1 ih2 a' ha' b hb hc
    rcases List.mem_cons.mp ha' with rfl | ha'
    · exact ih1 b hb hc
    · exact ih2 a' ha' b hb hc

/-! ## Completeness: every derivation is accepted by the code -/

theorem not_union_of {t : Ty} (h : t.isUnion = false) : ∀ ts, t = .union ts → False := by
  intro ts e; subst e; simp [Ty.isUnion] at h

theorem not_annotated_of {t : Ty} (h : t.isAnnotated = false) : ∀ s, t = .annotated s → False := by
  intro s e; subst e; simp [Ty.isAnnotated] at h

theorem compat_complete {i r : Ty} (h : Compat i r) : compat i r = true := by
  refine Compat.rec
    (motive_1 := fun i r _ => compat i r = true)
    (motive_2 := fun i bs _ => anyCompat i bs = true)
    ?ident ?toAny ?noAnnL ?noAnnR ?unionBoth ?unionL ?unionR ?annBoth ?annL ?annR
    ?bareRequired ?bareIncoming ?genArgs ?here ?there h
  case ident => exact fun i r h => compat_of_early (identicalOrAny_iff.mpr (.inl h))
  case toAny => exact fun i => compat_of_early (identicalOrAny_iff.mpr (.inr (.inl rfl)))
  case noAnnL => exact fun r => compat_of_early (identicalOrAny_iff.mpr (.inr (.inr (.inl rfl))))
  case noAnnR => exact fun i => compat_of_early (identicalOrAny_iff.mpr (.inr (.inr (.inr rfl))))
  case unionBoth =>
    intro as bs _ ih
    by_cases he : identicalOrAny (.union as) (.union bs) = true
    · exact compat_of_early he
    · rw [compat.eq_1, if_neg he, allAnyCompat_iff]; exact ih
  case unionL =>
    intro as r hr _ ih
    by_cases he : identicalOrAny (.union as) r = true
    · exact compat_of_early he
    · rw [compat.eq_2 _ _ (not_union_of hr), if_neg he, allCompat_iff]; exact ih
  case unionR =>
    intro i bs hi _ ih
    by_cases he : identicalOrAny i (.union bs) = true
    · exact compat_of_early he
    · rw [compat.eq_3 _ _ (not_union_of hi), if_neg he]; exact ih
  case annBoth =>
    intro i r _ ih
    by_cases he : identicalOrAny (.annotated i) (.annotated r) = true
    · exact compat_of_early he
    · rw [compat.eq_4, if_neg he]; exact ih
  case annL =>
    intro i r h1 h2 _ ih
    by_cases he : identicalOrAny (.annotated i) r = true
    · exact compat_of_early he
    · rw [compat.eq_5 _ _ (not_union_of h1) (not_annotated_of h2), if_neg he]; exact ih
  case annR =>
    intro i r h1 h2 _ ih
    by_cases he : identicalOrAny i (.annotated r) = true
    · exact compat_of_early he
    · rw [compat.eq_6 _ _ (not_union_of h1) (not_annotated_of h2), if_neg he]; exact ih
  case bareRequired =>
    intro i r a b hi hr hs ht
    by_cases he : identicalOrAny i r = true
    · exact compat_of_early he
    · cases i <;> simp [Ty.head?] at hi <;> cases r <;> simp [Ty.head?, Ty.targs] at hr ht <;>
        subst_vars <;> simp [compat, he, originOk, Ty.head?, hs]
  case bareIncoming =>
    intro i r a b hi hr hs ht
    by_cases he : identicalOrAny i r = true
    · exact compat_of_early he
    · cases i <;> simp [Ty.head?, Ty.targs] at hi ht <;> cases r <;> simp [Ty.head?] at hr <;>
        subst_vars <;> simp [compat, he, originOk, Ty.head?, hs]
  case genArgs =>
    intro a b xs ys hs hl _ ih
    by_cases he : identicalOrAny (.gen a xs) (.gen b ys) = true
    · exact compat_of_early he
    · rw [compat.eq_7, if_neg he]
      simp only [Bool.and_eq_true, Bool.or_eq_true, beq_iff_eq]
      exact ⟨hs, .inr ⟨hl, zipCompat_iff.mpr ⟨hl, ih⟩⟩⟩
  case here =>
    intro i b bs _ ih
    simp [anyCompat, ih]
  case there =>
    intro i b bs _ ih
    simp [anyCompat, ih]

/-- **C19 main theorem.** The executable judgement and the rule system coincide, for type
expressions of any depth. -/
theorem compat_iff_rules (i r : Ty) : compat i r = true ↔ Compat i r :=
  ⟨compat_sound, compat_complete⟩

/-! ## Python `==` : reflexive, and what it means on unions -/

theorem memEq_iff {a : Ty} {bs : List Ty} :
    memEq a bs = true ↔ ∃ b ∈ bs, pyEq a b = true := by
  induction bs with
  | nil => simp [memEq]
  | cons b bs ih => simp [memEq, ih]

theorem subEq_iff {as bs : List Ty} :
    subEq as bs = true ↔ ∀ a ∈ as, memEq a bs = true := by
  induction as with
  | nil => simp [subEq]
  | cons a as ih => simp [subEq, ih]

theorem pyEq_union {as bs : List Ty} :
    pyEq (.union as) (.union bs) = true ↔
      (∀ a ∈ as, ∃ b ∈ bs, pyEq a b = true) ∧ (∀ b ∈ bs, ∃ a ∈ as, pyEq b a = true) := by
  simp [pyEq, subEq_iff, memEq_iff]

theorem pyEq_refl (t : Ty) : pyEq t t = true := by
  suffices h : ∀ i r : Ty, i = r → pyEq i r = true from h t t rfl
  intro i r
  apply pyEq.induct
    (motive1 := fun i r => i = r → pyEq i r = true)
    (motive2 := fun xs ys => xs = ys → listEq xs ys = true)
    (motive3 := fun as bs => (∀ a ∈ as, a ∈ bs) → subEq as bs = true)
    (motive4 := fun a bs => a ∈ bs → memEq a bs = true)
  · intro a b h; cases h; simp [pyEq]
  · intro _; simp [pyEq]
  · intro _; simp [pyEq]
  · intro _; simp [pyEq]
  · intro _; simp [pyEq]
  · intro _; simp [pyEq]
  · intro as bs ih1 ih2 h
    cases h
    simp [pyEq, ih1 (fun _ h => h)]
  · intro a xs b ys ih h
    cases h
    simp [pyEq, ih rfl]
  · intro s t ih h
    cases h
    simp [pyEq, ih rfl]
  · intro x y h1 h2 h3 h4 h5 h6 h7 h8 h9 h
    subst h
    cases x
    · exact (h1 _ _ rfl rfl).elim
    · exact (h2 rfl rfl).elim
    · exact (h3 rfl rfl).elim
    · exact (h4 rfl rfl).elim
    · exact (h5 rfl rfl).elim
    · exact (h6 rfl rfl).elim
    · exact (h7 _ _ rfl rfl).elim
    · exact (h8 _ _ _ _ rfl rfl).elim
    · exact (h9 _ _ rfl rfl).elim
  · intro _; simp [listEq]
  · intro x xs y ys ih1 ih2 h
    cases h
    simp [listEq, ih1 rfl, ih2 rfl]
  · intro xs ys h1 h2 h
    subst h
    cases xs with
    | nil => exact (h1 rfl rfl).elim
    | cons x xs => exact (h2 _ _ _ _ rfl rfl).elim
  · intro bs _; simp [subEq]
  · intro a as bs ih1 ih2 h
    simp [subEq, ih1 (h a (List.mem_cons_self ..)),
      ih2 (fun a' ha' => h a' (List.mem_cons_of_mem _ ha'))]
  · intro a h; cases h
  · intro a b bs ih1 ih2 h
    rcases List.mem_cons.mp h with rfl | h
    · simp [memEq, ih1 rfl]
    · simp [memEq, ih2 h]

/-- Python's `Union.__eq__` ignores member order: the identity rule already relates permuted
unions. -/
theorem pyEq_union_of_subset {as bs : List Ty} (h1 : ∀ a ∈ as, a ∈ bs) (h2 : ∀ b ∈ bs, b ∈ as) :
    pyEq (.union as) (.union bs) = true :=
  pyEq_union.mpr ⟨fun a ha => ⟨a, h1 a ha, pyEq_refl a⟩, fun b hb => ⟨b, h2 b hb, pyEq_refl b⟩⟩

/-! ## Corollaries -/

/-- Reflexivity — for every type expression (well-formed or not), at any depth. -/
theorem compat_refl (t : Ty) : compat t t = true :=
  compat_of_early (identicalOrAny_iff.mpr (.inl (pyEq_refl t)))

/-- `Any` (as required type) is a top element. -/
theorem any_top (i : Ty) : compat i .any = true :=
  compat_of_early (identicalOrAny_iff.mpr (.inr (.inl rfl)))

/-- … but not a bottom element: an incoming `Any` is the class `typing.Any`. -/
theorem any_not_bottom_witness : compat .any (.cls "int") = false := by
  simp [compat, identicalOrAny, pyEq, Ty.isAny, Ty.isNoAnn, originOk, Ty.head?, isSub, strictSub]

theorem any_to_object_witness : compat .any (.cls "object") = true := by
  simp [compat, identicalOrAny, pyEq, Ty.isAny, Ty.isNoAnn, originOk, Ty.head?, isSub]

theorem noAnn_left (r : Ty) : compat .noAnn r = true :=
  compat_of_early (identicalOrAny_iff.mpr (.inr (.inr (.inl rfl))))

theorem noAnn_right (i : Ty) : compat i .noAnn = true :=
  compat_of_early (identicalOrAny_iff.mpr (.inr (.inr (.inr rfl))))

/-- union → union is exactly "every incoming member satisfies some required member"
(the identity shortcut adds nothing). -/
theorem compat_union_union (as bs : List Ty) :
    compat (.union as) (.union bs) = allAnyCompat as bs := by
  by_cases he : identicalOrAny (.union as) (.union bs) = true
  · rw [compat_of_early he, eq_comm, allAnyCompat_iff]
    have hp : pyEq (.union as) (.union bs) = true := by
      simpa [identicalOrAny, Ty.isAny, Ty.isNoAnn] using he
    intro a ha
    obtain ⟨b, hb, hab⟩ := (pyEq_union.mp hp).1 a ha
    exact anyCompat_iff.mpr ⟨b, hb, compat_of_early (identicalOrAny_iff.mpr (.inl hab))⟩
  · rw [compat.eq_1, if_neg he]

/-- union → non-union is exactly "every member satisfies it". -/
theorem compat_union_left (as : List Ty) {r : Ty} (hr : r.isUnion = false) :
    compat (.union as) r = allCompat as r := by
  by_cases he : identicalOrAny (.union as) r = true
  · rw [compat_of_early he, eq_comm, allCompat_iff]
    intro a _
    rcases identicalOrAny_iff.mp he with h | rfl | h | rfl
    · cases r <;> simp [pyEq, Ty.isUnion] at h hr
    · exact any_top a
    · cases h
    · exact noAnn_right a
  · rw [compat.eq_2 _ _ (not_union_of hr), if_neg he]

/-- non-union → (non-empty) union is exactly "it satisfies some member". -/
theorem compat_union_right {i : Ty} (hi : i.isUnion = false) {bs : List Ty} (hbs : bs ≠ []) :
    compat i (.union bs) = anyCompat i bs := by
  by_cases he : identicalOrAny i (.union bs) = true
  · rw [compat_of_early he, eq_comm]
    rcases identicalOrAny_iff.mp he with h | h | rfl | h
    · cases i <;> simp [pyEq, Ty.isUnion] at h hi
    · cases h
    · cases bs with
      | nil => exact (hbs rfl).elim
      | cons b bs => simp [anyCompat, noAnn_left]
    · cases h
  · rw [compat.eq_3 _ _ (not_union_of hi), if_neg he]

/-- `A → A | B`, and more generally `i → Union[bs]` as soon as `i` satisfies a member. -/
theorem union_right_intro_mem {i b : Ty} {bs : List Ty} (hi : i.isUnion = false) (hb : b ∈ bs)
    (h : compat i b = true) : compat i (.union bs) = true := by
  rw [compat_union_right hi (List.ne_nil_of_mem hb)]
  exact anyCompat_iff.mpr ⟨b, hb, h⟩

theorem union_right_intro (a b : Ty) (ha : a.isUnion = false) :
    compat a (.union [a, b]) = true :=
  union_right_intro_mem ha (List.mem_cons_self ..) (compat_refl a)

theorem union_right_intro' (a b : Ty) (hb : b.isUnion = false) :
    compat b (.union [a, b]) = true :=
  union_right_intro_mem hb (List.mem_cons_of_mem _ (List.mem_cons_self ..)) (compat_refl b)

/-- `A | B → C  ↔  A → C ∧ B → C`.  Hypotheses = what `typing.Union` guarantees: union members
are not unions, and a union is never empty. -/
theorem union_left_iff (a b c : Ty) (ha : a.isUnion = false) (hb : b.isUnion = false)
    (hc : c ≠ .union []) :
    compat (.union [a, b]) c = true ↔ compat a c = true ∧ compat b c = true := by
  by_cases hcu : c.isUnion = true
  · cases c <;> simp [Ty.isUnion] at hcu
    rename_i cs
    have hcs : cs ≠ [] := fun e => hc (by rw [e])
    rw [compat_union_union, compat_union_right ha hcs, compat_union_right hb hcs]
    simp [allAnyCompat]
  · have hcu : c.isUnion = false := by simpa using hcu
    rw [compat_union_left _ hcu]
    simp [allCompat]

/-- general n-ary form -/
theorem union_left_iff_all (as : List Ty) (c : Ty) (has : ∀ a ∈ as, a.isUnion = false)
    (hc : c ≠ .union []) :
    compat (.union as) c = true ↔ ∀ a ∈ as, compat a c = true := by
  by_cases hcu : c.isUnion = true
  · cases c <;> simp [Ty.isUnion] at hcu
    rename_i cs
    have hcs : cs ≠ [] := fun e => hc (by rw [e])
    rw [compat_union_union, allAnyCompat_iff]
    constructor
    · intro h a ha; rw [compat_union_right (has a ha) hcs]; exact h a ha
    · intro h a ha; rw [← compat_union_right (has a ha) hcs]; exact h a ha
  · have hcu : c.isUnion = false := by simpa using hcu
    rw [compat_union_left _ hcu, allCompat_iff]

/-! ### Subclass rule, generic rule, `Annotated` — in equational form -/

theorem isSub_refl (a : String) : isSub a a = true := by simp [isSub]

/-- plain classes: exactly `issubclass` -/
theorem compat_cls_cls (a b : String) : compat (.cls a) (.cls b) = isSub a b := by
  by_cases he : identicalOrAny (.cls a) (.cls b) = true
  · rw [compat_of_early he]
    have : a = b := by simpa [identicalOrAny, pyEq, Ty.isAny, Ty.isNoAnn] using he
    rw [this, isSub_refl]
  · simp [compat, he, originOk, Ty.head?]

theorem listEq_iff {xs ys : List Ty} :
    listEq xs ys = true ↔ xs.length = ys.length ∧ ∀ p ∈ xs.zip ys, pyEq p.1 p.2 = true := by
  induction xs generalizing ys with
  | nil => cases ys <;> simp [listEq]
  | cons x xs ih =>
    cases ys with
    | nil => simp [listEq]
    | cons y ys => simp [listEq, ih, and_left_comm]

/-- parameterised generics: origin subclassing, then (either side bare, or equal arity and
pairwise compatible arguments).  The "incoming bare" disjunct is quirk Q2. -/
theorem compat_gen_gen (a b : String) (xs ys : List Ty) :
    compat (.gen a xs) (.gen b ys) = true ↔
      isSub a b = true ∧
        (ys = [] ∨ xs = [] ∨ (xs.length = ys.length ∧ ∀ p ∈ xs.zip ys, compat p.1 p.2 = true)) := by
  by_cases he : identicalOrAny (.gen a xs) (.gen b ys) = true
  · rw [compat_of_early he]
    have hp : a = b ∧ listEq xs ys = true := by
      simpa [identicalOrAny, pyEq, Ty.isAny, Ty.isNoAnn] using he
    obtain ⟨rfl, hl⟩ := hp
    obtain ⟨hlen, hz⟩ := listEq_iff.mp hl
    simp only [isSub_refl, true_and, true_iff]
    exact .inr (.inr ⟨hlen, fun p hp =>
      compat_of_early (identicalOrAny_iff.mpr (.inl (hz p hp)))⟩)
  · rw [compat.eq_7, if_neg he]
    simp only [Bool.and_eq_true, Bool.or_eq_true, List.isEmpty_iff, beq_iff_eq, zipCompat_iff]
    constructor
    · rintro ⟨h1, (h | h) | ⟨h2, _, h3⟩⟩
      · exact ⟨h1, .inl h⟩
      · exact ⟨h1, .inr (.inl h)⟩
      · exact ⟨h1, .inr (.inr ⟨h2, h3⟩)⟩
    · rintro ⟨h1, h | h | ⟨h2, h3⟩⟩
      · exact ⟨h1, .inl (.inl h)⟩
      · exact ⟨h1, .inl (.inr h)⟩
      · exact ⟨h1, .inr ⟨h2, h2, h3⟩⟩

/-- `Annotated` on the REQUIRED side is transparent for an incoming type that is neither a union
nor `Annotated`. -/
theorem annotated_right_transparent {i : Ty} (h1 : i.isUnion = false) (h2 : i.isAnnotated = false)
    (r : Ty) : compat i (.annotated r) = compat i r := by
  by_cases he : identicalOrAny i (.annotated r) = true
  · rw [compat_of_early he, eq_comm]
    rcases identicalOrAny_iff.mp he with h | h | rfl | h
    · cases i <;> simp [pyEq, Ty.isAnnotated] at h h2
    · cases h
    · exact noAnn_left r
    · cases h
  · rw [compat.eq_6 _ _ (not_union_of h1) (not_annotated_of h2), if_neg he]

/-- `Annotated` on the INCOMING side is transparent when it wraps neither a union nor another
`Annotated`, against a required type that is not a union. -/
theorem annotated_left_transparent_nonunion {i : Ty} (h1 : i.isUnion = false)
    (h2 : i.isAnnotated = false) {r : Ty} (hr : r.isUnion = false) :
    compat (.annotated i) r = compat i r := by
  by_cases hra : r.isAnnotated = true
  · cases r <;> simp [Ty.isAnnotated] at hra
    rename_i r'
    rw [annotated_right_transparent h1 h2]
    by_cases he : identicalOrAny (.annotated i) (.annotated r') = true
    · rw [compat_of_early he, eq_comm]
      have : pyEq i r' = true := by simpa [identicalOrAny, pyEq, Ty.isAny, Ty.isNoAnn] using he
      exact compat_of_early (identicalOrAny_iff.mpr (.inl this))
    · rw [compat.eq_4, if_neg he]
  · have hra : r.isAnnotated = false := by simpa using hra
    by_cases he : identicalOrAny (.annotated i) r = true
    · rw [compat_of_early he, eq_comm]
      rcases identicalOrAny_iff.mp he with h | rfl | h | rfl
      · cases r <;> simp [pyEq, Ty.isAnnotated] at h hra
      · exact any_top i
      · cases h
      · exact noAnn_right i
    · rw [compat.eq_5 _ _ (not_union_of hr) (not_annotated_of hra), if_neg he]

/-- … and against a (non-empty, flat) required union.  The hypothesis `i.isUnion = false` cannot
be dropped: `annotated_union_witness`. -/
theorem annotated_left_transparent_union {i : Ty} (h1 : i.isUnion = false)
    (h2 : i.isAnnotated = false) {bs : List Ty} (hbs : bs ≠ [])
    (hflat : ∀ b ∈ bs, b.isUnion = false) :
    compat (.annotated i) (.union bs) = compat i (.union bs) := by
  rw [compat_union_right (i := .annotated i) rfl hbs, compat_union_right h1 hbs,
    Bool.eq_iff_iff, anyCompat_iff, anyCompat_iff]
  constructor
  · rintro ⟨b, hb, h⟩
    exact ⟨b, hb, by rwa [annotated_left_transparent_nonunion h1 h2 (hflat b hb)] at h⟩
  · rintro ⟨b, hb, h⟩
    exact ⟨b, hb, by rwa [annotated_left_transparent_nonunion h1 h2 (hflat b hb)]⟩

/-! ### Concrete instances -/

abbrev tInt : Ty := .cls "int"
abbrev tBool : Ty := .cls "bool"
abbrev tStr : Ty := .cls "str"
abbrev tFloat : Ty := .cls "float"
abbrev tObject : Ty := .cls "object"
abbrev tList (t : Ty) : Ty := .gen "list" [t]

local macro "compat_eval" : tactic =>
  `(tactic| simp [compat, allAnyCompat, allCompat, anyCompat, zipCompat, identicalOrAny, pyEq, subEq,
      memEq, listEq, Ty.isAny, Ty.isNoAnn, originOk, Ty.head?, isSub, strictSub])

theorem bool_to_int : compat tBool tInt = true := by compat_eval
theorem int_not_to_bool : compat tInt tBool = false := by compat_eval
theorem list_int_list_int : compat (tList tInt) (tList tInt) = true := compat_refl _
theorem list_int_not_list_str : compat (tList tInt) (tList tStr) = false := by compat_eval
/-- documented: `list[int] → list` -/
theorem list_int_to_bare_list : compat (tList tInt) (.cls "list") = true := by compat_eval
theorem list_int_to_sequence_int : compat (tList tInt) (.gen "Sequence" [tInt]) = true := by
  compat_eval
theorem int_to_optional_int : compat tInt (.union [tInt, .none_]) = true := by compat_eval
theorem optional_int_not_to_int : compat (.union [tInt, .none_]) tInt = false := by compat_eval
/-- arity check -/
theorem tuple_arity : compat (.gen "tuple" [tInt, tInt]) (.gen "tuple" [tInt]) = false := by
  compat_eval
/-- `Union.__eq__` is order-insensitive; so is the judgement, also below a generic -/
theorem union_perm_example :
    compat (tList (.union [tInt, tStr])) (tList (.union [tStr, tInt])) = true := by compat_eval

/-! ### Quirk witnesses (each replayed on the real `is_type_compatible`, see the report) -/

/-- Q2: un-parameterised incoming satisfies any parameterisation: `list → list[int]` -/
theorem bare_incoming_witness : compat (.cls "list") (tList tInt) = true := by compat_eval
/-- Q2: `str → Sequence[int]` (because `issubclass(str, Sequence)`) -/
theorem str_to_sequence_int_witness : compat tStr (.gen "Sequence" [tInt]) = true := by
  compat_eval
/-- Q3: arguments are covariant for every origin, mutable containers included -/
theorem list_covariant_witness : compat (tList tBool) (tList tInt) = true := by compat_eval
/-- Q4: `tuple[int, int] → tuple[int, ...]` is rejected (`Ellipsis` compared as a type) -/
theorem tuple_ellipsis_witness :
    compat (.gen "tuple" [tInt, tInt]) (.gen "tuple" [tInt, .ellipsis]) = false := by compat_eval
/-- Q4: `tuple[()]` has no `get_args`, so it passes for any tuple parameterisation -/
theorem empty_tuple_witness :
    compat (.gen "tuple" []) (.gen "tuple" [tInt, tStr]) = true := by compat_eval
/-- Q5: `list[None] → typing.List[None]` (= `list[NoneType]`) is rejected -/
theorem none_literal_witness : compat (tList .noneLit) (tList .none_) = false := by compat_eval
/-- Q6: `Annotated` is not transparent: `Annotated[int | str, m] → int | str` is rejected
although `int | str → int | str` is accepted -/
theorem annotated_union_witness :
    compat (.annotated (.union [tInt, tStr])) (.union [tInt, tStr]) = false ∧
    compat (.union [tInt, tStr]) (.union [tInt, tStr]) = true := by
  constructor <;> compat_eval
/-- Q7: no numeric tower -/
theorem int_not_to_float_witness : compat tInt tFloat = false := by compat_eval

/-! ### Non-vacuity: the rule system derives and refutes -/

example : Compat (.union [tBool, tList tInt]) (.union [tInt, .gen "Sequence" [tObject]]) :=
  .unionBoth _ _ (by
    intro a ha
    simp only [List.mem_cons, List.not_mem_nil, or_false] at ha
    rcases ha with rfl | rfl
    · exact .here _ _ _ (.bareRequired _ _ "bool" "int" rfl rfl (by decide) rfl)
    · refine .there _ _ _ (.here _ _ _ (.genArgs _ _ _ _ (by decide) rfl ?_))
      intro p hp
      simp only [List.zip_cons_cons, List.zip_nil_right, List.mem_cons, List.not_mem_nil,
        or_false] at hp
      subst hp
      exact .bareRequired _ _ "int" "object" rfl rfl (by decide) rfl)

example : ¬ Compat (tList tInt) (tList tStr) := fun h => by
  have := compat_complete h
  rw [list_int_not_list_str] at this
  cases this

example : ¬ Compat (.union [tInt, tStr]) tInt := fun h => by
  have := compat_complete h
  revert this
  compat_eval

end HG.C19
