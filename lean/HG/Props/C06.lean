import HG.Model.Rename
import HG.Lemmas.Rename

/-! # C06 — rename bookkeeping: renamed names keep addressing the original parameters

All theorems hold for EVERY valid history: any number of `with_inputs` / `with_outputs` calls, any
number of pairs per call, swaps `{x↦y, y↦x}`, cycles, chains through temporaries, re-use of names
freed by earlier calls, identity pairs, empty calls.  `Valid` is exactly what `_with_renamed`
accepts (`HG.Rename.Valid`).  `track` is the ground truth (simultaneous substitution per call). -/
namespace HG.C06
open HG HG.Rename

/-- `build_reverse_rename_map` sends every current name to its original name. -/
theorem reverse_correct (orig : List Name) (bs : List Batch) (k : RKind) (o c : Name)
    (hv : Valid orig bs) (hm : (o, c) ∈ track orig bs) :
    ((reverseMap (historyOf bs k) k).get? c).getD c = o :=
  (rinv_historyOf orig k bs hv).2 (o, c) hm

/-- `_build_forward_rename_map` sends every original parameter to its current name
(so `defaults`, `parameter_annotations` are keyed by the current names). -/
theorem forward_correct (orig : List Name) (bs : List Batch) (o c : Name)
    (hv : Valid orig bs) (hm : (o, c) ∈ track orig bs) :
    AL.getD (forwardMap (historyOf bs .inputs)) o o = c :=
  (finv_historyOf orig .inputs bs hv).2.2.2.1 (o, c) hm

/-- The repaired `GraphNode._resolve_original_input_name` returns the original name for every
current input name. -/
theorem resolve_correct (orig : List Name) (bs : List Batch) (o c : Name)
    (hv : Valid orig bs) (hm : (o, c) ∈ track orig bs) :
    resolveOriginal (historyOf bs .inputs) c = o :=
  reverse_correct orig bs .inputs o c hv hm

/-- The repaired forward map of `GraphNode.map_outputs_from_original` sends every original output
to its current name. -/
theorem outputs_forward_correct (orig : List Name) (bs : List Batch) (o c : Name)
    (hv : Valid orig bs) (hm : (o, c) ∈ track orig bs) :
    AL.get? (outputsForward (historyOf bs .outputs) (current orig bs)) o = some c := by
  have hI := rinv_historyOf orig .outputs bs hv
  have hnd : (current orig bs).Nodup := by rw [← curs_track]; exact hI.1
  have hc : c ∈ current orig bs := by
    rw [← curs_track]; exact List.mem_map.mpr ⟨(o, c), hm, rfl⟩
  have ho : look (reverseMap (historyOf bs .outputs) .outputs) c = o := hI.2 (o, c) hm
  -- the comprehension is a re-keying of `{cur: cur for cur in self.outputs}`
  have hform : outputsForward (historyOf bs .outputs) (current orig bs)
      = AL.merge [] (((current orig bs).map fun n => (n, n)).map
          fun kv => (look (reverseMap (historyOf bs .outputs) .outputs) kv.1, kv.2)) := by
    unfold outputsForward AL.merge
    rw [List.foldl_map, List.foldl_map]
  have hkeys : AL.keys ((current orig bs).map fun n => (n, n)) = current orig bs := by
    simp [AL.keys, List.map_map, Function.comp_def]
  have hget : AL.get? ((current orig bs).map fun n => (n, n)) c = some c :=
    AL.get?_of_mem _ (by rw [hkeys]; exact hnd) c c (List.mem_map.mpr ⟨c, hc, rfl⟩)
  rw [hform, ← ho, AL.get?_merge_rekey _ _ _ c (by rw [hkeys]; exact hnd), hget]
  · rfl
  · intro k' hk' he
    rw [hkeys, ← curs_track] at hk'
    obtain ⟨p, hp, rfl⟩ := List.mem_map.mp hk'
    have h1 := hI.2 p hp
    have : p = (o, c) :=
      inj_of_nodup_map (fun x : Name × Name => x.1) _
        (by have := origs_track orig bs; unfold origs at this; rw [this]; exact hv.1)
        p hp (o, c) hm (by rw [← h1, he, ho])
    rw [this]

/-- `map_inputs_to_params`: for a dict `inputs` keyed by current input names, the result holds under
each original parameter exactly the value that was addressed by that parameter's current name
(and nothing if that name was not supplied). -/
theorem args_by_current_name {α : Type} (orig : List Name) (bs : List Batch) (o c : Name)
    (inputs : AL α) (hv : Valid orig bs) (hm : (o, c) ∈ track orig bs)
    (hkeys : (AL.keys inputs).Nodup) (hcur : ∀ k ∈ AL.keys inputs, k ∈ current orig bs) :
    AL.get? (mapInputsToParams (historyOf bs .inputs) inputs) o = AL.get? inputs c := by
  have hI := rinv_historyOf orig .inputs bs hv
  have ho : look (reverseMap (historyOf bs .inputs) .inputs) c = o := hI.2 (o, c) hm
  have hform : mapInputsToParams (historyOf bs .inputs) inputs
      = AL.merge [] (inputs.map
          fun kv => (look (reverseMap (historyOf bs .inputs) .inputs) kv.1, kv.2)) := by
    unfold mapInputsToParams AL.merge
    rw [List.foldl_map]
  rw [hform, ← ho, AL.get?_merge_rekey _ _ _ c hkeys]
  · simp
  · intro k' hk' he
    have hk'' := hcur k' hk'
    rw [← curs_track] at hk''
    obtain ⟨p, hp, rfl⟩ := List.mem_map.mp hk''
    have h1 := hI.2 p hp
    have : p = (o, c) :=
      inj_of_nodup_map (fun x : Name × Name => x.1) _
        (by have := origs_track orig bs; unfold origs at this; rw [this]; exact hv.1)
        p hp (o, c) hm (by rw [← h1, he, ho])
    rw [this]

/-- `map_outputs_from_original` (repaired): for a dict `outputs` keyed by original output names, the
result holds under each current name exactly the value produced under its original name. -/
theorem outputs_by_original_name {α : Type} (orig : List Name) (bs : List Batch) (o c : Name)
    (outputs : AL α) (hv : Valid orig bs) (hm : (o, c) ∈ track orig bs)
    (hkeys : (AL.keys outputs).Nodup) (horig : ∀ k ∈ AL.keys outputs, k ∈ orig) :
    AL.get? (mapOutputsFromOriginal (historyOf bs .outputs) (current orig bs) outputs) c
      = AL.get? outputs o := by
  have hI := rinv_historyOf orig .outputs bs hv
  have hfwd : ∀ p ∈ track orig bs,
      look (outputsForward (historyOf bs .outputs) (current orig bs)) p.1 = p.2 := by
    intro p hp
    have := outputs_forward_correct orig bs p.1 p.2 hv hp
    simp [look_eq, this]
  have hform : mapOutputsFromOriginal (historyOf bs .outputs) (current orig bs) outputs
      = AL.merge [] (outputs.map fun kv =>
          (look (outputsForward (historyOf bs .outputs) (current orig bs)) kv.1, kv.2)) := by
    unfold mapOutputsFromOriginal AL.merge
    rw [List.foldl_map]
  have hoc : look (outputsForward (historyOf bs .outputs) (current orig bs)) o = c := hfwd (o, c) hm
  rw [hform, ← hoc, AL.get?_merge_rekey _ _ _ o hkeys]
  · simp
  · intro k' hk' he
    have hk'' := horig k' hk'
    rw [← origs_track orig bs] at hk''
    obtain ⟨p, hp, rfl⟩ := List.mem_map.mp hk''
    have : p = (o, c) :=
      inj_of_nodup_map (fun x : Name × Name => x.2) _ hI.1 p hp (o, c) hm
        (by rw [← hfwd p hp, he, hoc])
    rw [this]

/-- `GraphNode._original_map_params` / `_original_clone`: `with_inputs` renames the `map_over` list
along with the inputs, and translating it back yields the original parameter names. -/
theorem map_params_correct (orig : List Name) (bs : List Batch) (mo : List Name)
    (hv : Valid orig bs) (hmo : ∀ p ∈ mo, p ∈ orig) :
    originalMapParams (historyOf bs .inputs) (current mo bs) = mo := by
  unfold originalMapParams
  rw [current_eq, List.map_map]
  have : ∀ p ∈ mo, (resolveOriginal (historyOf bs .inputs) ∘ curName bs) p = id p := by
    intro p hp
    apply resolve_correct orig bs p (curName bs p) hv
    rw [track_eq]
    exact List.mem_map.mpr ⟨p, hmo p hp, rfl⟩
  rw [List.map_congr_left this, List.map_id]

/-! ### The same for the histories real nodes carry

Real batch ids come from a process-global counter (distinct per call, not consecutive), entries
of other kinds are interleaved, and the constructor's `rename_inputs=` entries carry `None`. -/

/-- Any history whose `k`-entries are those of calls with pairwise distinct batch ids
(`none` allowed as one of the ids: the constructor's `rename_inputs=`). -/
theorem reverse_correct_general (orig : List Name) (k : RKind) (h : History)
    (tb : List (Option Nat × Batch)) (o c : Name)
    (hh : h.filter (fun e => e.kind = k) = historyTagged k tb)
    (hids : (tb.map (·.1)).Nodup)
    (hv : Valid orig (tb.map (·.2))) (hm : (o, c) ∈ track orig (tb.map (·.2))) :
    ((reverseMap h k).get? c).getD c = o := by
  have : reverseMap h k = reverseMap (historyTagged k tb) k := by
    unfold reverseMap
    rw [processGroups_filter, hh]
  rw [this]
  exact (rinv_tagged orig k tb hids hv).2 (o, c) hm

theorem forward_correct_general (orig : List Name) (h : History)
    (tb : List (Option Nat × Batch)) (o c : Name)
    (hh : h.filter (fun e => e.kind = .inputs) = historyTagged .inputs tb)
    (hids : (tb.map (·.1)).Nodup)
    (hv : Valid orig (tb.map (·.2))) (hm : (o, c) ∈ track orig (tb.map (·.2))) :
    AL.getD (forwardMap h) o o = c := by
  have : forwardMap h = forwardMapK (historyTagged .inputs tb) .inputs := by
    unfold forwardMap forwardMapK
    rw [processGroups_filter, hh]
  rw [this]
  exact (finv_tagged orig .inputs tb hids hv).2.2.2.1 (o, c) hm

/-- constructor `rename_inputs=ctor` followed by `with_inputs` calls -/
theorem reverse_correct_ctor (orig : List Name) (ctor : Batch) (bs : List Batch) (k : RKind)
    (o c : Name) (hv : Valid orig (ctor :: bs)) (hm : (o, c) ∈ track orig (ctor :: bs)) :
    ((reverseMap (historyOfCtor ctor bs k) k).get? c).getD c = o :=
  (rinv_historyOfCtor orig k ctor bs hv).2 (o, c) hm

theorem forward_correct_ctor (orig : List Name) (ctor : Batch) (bs : List Batch)
    (o c : Name) (hv : Valid orig (ctor :: bs)) (hm : (o, c) ∈ track orig (ctor :: bs)) :
    AL.getD (forwardMap (historyOfCtor ctor bs .inputs)) o o = c :=
  (finv_historyOfCtor orig .inputs ctor bs hv).2.2.2.1 (o, c) hm

/-! ### Negative witnesses: the code before the repair -/

/-- OLD `GraphNode._resolve_original_input_name` (walk the history backwards one entry at a time,
ignoring batches): after the single call `with_inputs({x: y, y: x})` the current name `x` addresses
the original `y`, but the old resolver answers `x`. -/
theorem old_resolve_wrong :
    (("y", "x") ∈ track ["x", "y"] [[("x", "y"), ("y", "x")]]) ∧
    Valid ["x", "y"] [[("x", "y"), ("y", "x")]] ∧
    resolveOriginalOld (historyOf [[("x", "y"), ("y", "x")]] .inputs) "x" = "x" ∧
    resolveOriginal (historyOf [[("x", "y"), ("y", "x")]] .inputs) "x" = "y" := by
  decide

/-- OLD `map_outputs_from_original` (invert the reverse map): after `a→x`, `x→z`, `z→x` the current
name of `a` is `x`, but the inverted map sends `a` to the stale `z`. -/
theorem old_outputs_wrong :
    (("a", "x") ∈ track ["a"] [[("a", "x")], [("x", "z")], [("z", "x")]]) ∧
    Valid ["a"] [[("a", "x")], [("x", "z")], [("z", "x")]] ∧
    AL.get? (outputsForwardOld (historyOf [[("a", "x")], [("x", "z")], [("z", "x")]] .outputs)) "a"
      = some "z" ∧
    AL.get? (outputsForward (historyOf [[("a", "x")], [("x", "z")], [("z", "x")]] .outputs) ["x"]) "a"
      = some "x" := by
  decide

/-- The hypothesis `hids` of `reverse_correct_general` (distinct batch ids per call) is needed:
two successive calls `a→x`, `x→z` that carry the SAME id (possible only if the process-global
counter restarts, e.g. a node pickled into a fresh interpreter) are read as one parallel call and
the current name `z` is sent to `x` instead of `a`. -/
theorem shared_batch_id_wrong :
    (("a", "z") ∈ track ["a"] [[("a", "x")], [("x", "z")]]) ∧
    Valid ["a"] [[("a", "x")], [("x", "z")]] ∧
    ((reverseMap (historyTagged .inputs [(some 0, [("a", "x")]), (some 0, [("x", "z")])]) .inputs).get? "z").getD "z"
      = "x" := by
  decide

/-! ### Non-vacuity -/

/-- a swap, a chain through temporaries, and re-use of a freed name, all in one valid history -/
example : Valid ["x", "y", "a"]
    [[("x", "y"), ("y", "x")], [("a", "t")], [("t", "u"), ("x", "a")], [("u", "x")]] := by decide

example : track ["x", "y", "a"]
    [[("x", "y"), ("y", "x")], [("a", "t")], [("t", "u"), ("x", "a")], [("u", "x")]]
    = [("x", "y"), ("y", "a"), ("a", "x")] := by decide

/-- a three-cycle in one call, an identity pair, an empty call -/
example : Valid ["p", "q", "r"] [[("p", "q"), ("q", "r"), ("r", "p")], [("p", "p")], []] := by decide

/-- constructor rename followed by a swap back -/
example : Valid ["a", "b"] [[("a", "b"), ("b", "a")], [("a", "b"), ("b", "a")]] := by decide

/-- rejected by `_with_renamed`: duplicate result, unknown old name -/
example : ¬ Valid ["a", "b"] [[("a", "b")]] := by decide
example : ¬ Valid ["a", "b"] [[("c", "d")]] := by decide

end HG.C06
