import HG.Lemmas.Loop
import HG.Lemmas.LoopL1
import HG.Lemmas.LoopL1Route
import HG.Lemmas.LoopL1Exit
import HG.Lemmas.LoopL2
import HG.Lemmas.LoopEx
/-! # C04 — the iteration limit; loops run exactly as long as their condition holds -/
namespace HG.C04
open HG

/-- (1) the step counter of any loop result lies between the steps already taken and `k + fuel` -/
theorem steps_le (step : Nat → GState → List NodeD → StepOut) (g : GraphD) (act : Option (List Name)) (mi : Nat) :
    ∀ (fuel k : Nat) (s : GState) (log : List Log),
      k ≤ (runLoop step g act mi fuel k s log).steps ∧ (runLoop step g act mi fuel k s log).steps ≤ k + fuel := by
  intro fuel
  induction fuel with
  | zero =>
    intro k s log
    rw [runLoop_zero]; split <;> simp [LoopOut.steps]
  | succ f ih =>
    intro k s log
    by_cases h : (ready g act s).1 = []
    · rw [runLoop_succ_nil _ _ _ _ _ _ _ _ h]; simp [LoopOut.steps]
    · rw [runLoop_succ_cons _ _ _ _ _ _ _ _ h]
      cases step k (ready g act s).2 (ready g act s).1 with
      | ok ns l => have := ih (k + 1) ns (log ++ l); simp only []; omega
      | fail e ps l => simp only [LoopOut.steps]; omega
      | pause p ps l => simp only [LoopOut.steps]; omega

/-- (1') `run()` performs at most `max_iterations` supersteps, whatever the graph, runner and node functions -/
theorem runGraph_steps_le (nested : Nested) (sem : Sem) (runner : Runner) (gi : Nat) (g : GraphD)
    (values : AL Val) (cfg : RunCfg) (span : Span) (parent : Option Span) :
    (runGraphLoop nested sem runner gi g values cfg span parent).steps ≤ cfg.maxIter := by
  have := (steps_le (runStep nested sem runner gi g span) g (activeNodeSet g) cfg.maxIter cfg.maxIter 0
    (initState values) [runStartEv span parent g ""]).2
  simpa [runGraphLoop] using this

/-- (2) the four ways the runner loop can end -/
theorem loop_outcomes (step : Nat → GState → List NodeD → StepOut) (g : GraphD) (act : Option (List Name)) (mi : Nat) :
    ∀ (fuel k : Nat) (s : GState) (log : List Log),
      LoopOutcome step g act mi k fuel (runLoop step g act mi fuel k s log) :=
  runLoop_outcome step g act mi

/-- (2') if no superstep fails or pauses, the loop ends quiescent or reports the iteration limit -/
theorem loop_total_step (step : Nat → GState → List NodeD → StepOut) (g : GraphD) (act : Option (List Name)) (mi : Nat)
    (hok : ∀ k s rs, ∃ ns l, step k s rs = .ok ns l) (fuel k : Nat) (s : GState) (log : List Log) :
    (∃ s0 s' lg n, runLoop step g act mi fuel k s log = .done s' lg n ∧ ready g act s0 = ([], s')) ∨
    (∃ s0 rs s' lg, runLoop step g act mi fuel k s log = .fail (.infiniteLoop mi) s' lg (k + fuel) ∧
        ready g act s0 = (rs, s') ∧ rs ≠ []) := by
  have h := loop_outcomes step g act mi fuel k s log
  generalize runLoop step g act mi fuel k s log = r at h ⊢
  cases h with
  | quiescent s0 s' lg n h1 _ _ => exact .inl ⟨s0, s', lg, n, rfl, h1⟩
  | stepFail s0 s1 rs k' e ps l lg _ _ h3 _ _ => obtain ⟨ns, l', h⟩ := hok k' s1 rs; rw [h] at h3; cases h3
  | stepPause s0 s1 rs k' p ps l lg _ _ h3 _ _ => obtain ⟨ns, l', h⟩ := hok k' s1 rs; rw [h] at h3; cases h3
  | limit s0 s' rs lg n h1 h2 h3 => subst h3; exact .inr ⟨s0, rs, s', lg, rfl, h1, h2⟩

/-- (3) a run whose loop reports the limit: `error_handling="continue"` gives a FAILED result carrying
`InfiniteLoopError(max_iterations)` and the selected outputs of the state computed so far;
`"raise"` raises that error -/
theorem limit_reports_infinite_loop (nested : Nested) (sem : Sem) (runner : Runner) (gi : Nat) (g : GraphD)
    (values : AL Val) (cfg : RunCfg) (span : Span) (parent : Option Span) (sF : GState)
    (hall : stateAfter (runStep nested sem runner gi g span) g (activeNodeSet g) cfg.maxIter 0 (initState values) = some sF)
    (hwork : (ready g (activeNodeSet g) sF).1 ≠ []) :
    let r := runGraph nested sem runner gi g values cfg span parent
    r.status = .failed ∧ r.error = some (.infiniteLoop cfg.maxIter) ∧
    (cfg.errMode = .cont → r.raised = false ∧
       r.values = partialValues g sF cfg.select) ∧
    (cfg.errMode = .raise → r.raised = true ∧ r.values = []) := by
  obtain ⟨lg, h⟩ := runLoop_limit_exact (runStep nested sem runner gi g span) g (activeNodeSet g) cfg.maxIter
    cfg.maxIter 0 (initState values) [runStartEv span parent g ""] sF hall hwork
  have h' : runGraphLoop nested sem runner gi g values cfg span parent = _ := h
  simp only [runGraph_eq, h', finishRun]
  cases cfg.errMode <;> simp [partialValues_congr g (ready_snd_values g (activeNodeSet g) sF)]

/-! ## loop family L1, body length 1 -/
section L1
open HG.L1
variable (F : Val → Val) (c : Val → Bool) (x0 : Val)
variable (nested : Nested) (sem : Sem) (gi : Nat) (span : Span) (dopen : Bool) (es : List Edge) (sp : InputSpec)

/-- (4) `b1(x) -> x`, if/else `gate(x) -> b1 | END`, either value of `default_open`. If the
condition holds on `x₀ … x_{n-1}` (`x_j = F^[j] x₀ = xs F x0 j`), fails on `x_n`, and every executed
iteration changes the loop variable — in the sense `update_value` observes, another type or
Python's `!=` (`Val.changed … = true`): a body that turns `1` into `True` makes progress, one that turns
`[1]` into `[True]` does not — then with
`2n+1 ≤ max_iterations` the loop ends quiescent after
exactly `2n+1` supersteps with `x = F^[n] x₀`, having called `b1` exactly `n` times and `gate` exactly
`n+1` times. -/
theorem loop_L1_k1 (hs : SemL1 F c sem dopen) (n maxIter : Nat) (log : List Log)
    (hc : ∀ j, j < n → c (Nat.repeat F j x0) = true) (hn : c (Nat.repeat F n x0) = false)
    (hprog : ∀ j, j < n → Val.changed (Nat.repeat F j x0) (F (Nat.repeat F j x0)) = true)
    (hfuel : 2 * n + 1 ≤ maxIter) :
    ∃ s' lg,
      runLoop (fun k s rs => stepSync nested sem gi (L1 dopen es sp) span k s rs s []) (L1 dopen es sp) .none
          maxIter maxIter 0 (initState [("x", x0)]) log = .done s' (log ++ lg) (2 * n + 1) ∧
      AL.get? s'.values "x" = some (Nat.repeat F n x0) ∧ s' = E F x0 n ∧
      callsOf (fnId gi b1) lg = n ∧ callsOf (fnId gi (gate dopen)) lg = n + 1 := by
  simp only [← xs_eq_repeat] at hc hn hprog ⊢
  obtain ⟨lg, h1, h2, h3⟩ := (loop_from F c x0 nested sem gi span dopen es sp hs maxIter n hc hn
    (fun j hj => by simpa [xs] using hprog j hj) n 0 maxIter 0 log (by omega)).1 hfuel
  refine ⟨E F x0 n, lg, ?_, ?_, rfl, h2, h3⟩
  · rw [init_eq]; simpa [stepFn] using h1
  · cases n <;> simp [A, AL.get?, xs]

/-- (4') with fewer than `2n+1` iterations allowed the loop reports `InfiniteLoopError`, after
exactly `max_iterations` supersteps, carrying the state computed so far -/
theorem loop_L1_k1_limit (hs : SemL1 F c sem dopen) (n maxIter : Nat) (log : List Log)
    (hc : ∀ j, j < n → c (Nat.repeat F j x0) = true) (hn : c (Nat.repeat F n x0) = false)
    (hprog : ∀ j, j < n → Val.changed (Nat.repeat F j x0) (F (Nat.repeat F j x0)) = true)
    (hfuel : maxIter < 2 * n + 1) :
    ∃ lg,
      runLoop (fun k s rs => stepSync nested sem gi (L1 dopen es sp) span k s rs s []) (L1 dopen es sp) .none
          maxIter maxIter 0 (initState [("x", x0)]) log =
        .fail (.infiniteLoop maxIter)
          (if maxIter % 2 = 0 then Gc F x0 (maxIter / 2) else B F x0 (maxIter / 2)) (log ++ lg) maxIter := by
  simp only [← xs_eq_repeat] at hc hn hprog
  obtain ⟨lg, h1⟩ := (loop_from F c x0 nested sem gi span dopen es sp hs maxIter n hc hn
    (fun j hj => by simpa [xs] using hprog j hj) n 0 maxIter 0 log (by omega)).2 hfuel
  refine ⟨lg, ?_⟩
  rw [init_eq]; simpa [stepFn] using h1

/-- the limit state still holds the loop variable after `max_iterations / 2` iterations -/
theorem loop_L1_k1_limit_value (maxIter : Nat) :
    AL.get? (if maxIter % 2 = 0 then Gc F x0 (maxIter / 2) else B F x0 (maxIter / 2)).values "x" =
      some (Nat.repeat F (maxIter / 2) x0) := by
  rw [← xs_eq_repeat]
  split <;> cases maxIter / 2 <;> simp [Gc, G, A, AL.get?, xs]

/-- (4'') the same through `run()` of the sync runner: COMPLETED with `x = F^[n] x₀` (not the
emit sentinel, which `filter_outputs` hides), `b1` called `n` times and `gate` `n+1` times -/
theorem run_L1_k1 (hs : SemL1 F c sem dopen) (n : Nat) (cfg : RunCfg) (parent : Option Span)
    (hsel : cfg.select = .unset)
    (hc : ∀ j, j < n → c (Nat.repeat F j x0) = true) (hn : c (Nat.repeat F n x0) = false)
    (hprog : ∀ j, j < n → Val.changed (Nat.repeat F j x0) (F (Nat.repeat F j x0)) = true)
    (hfuel : 2 * n + 1 ≤ cfg.maxIter) (hns : Nat.repeat F n x0 ≠ .sentinel) :
    let r := runGraph nested sem .sync gi (L1 dopen es sp) [("x", x0)] cfg span parent
    r.status = .completed ∧ r.values = [("x", Nat.repeat F n x0)] ∧ r.error = .none ∧ r.raised = false ∧
    callsOf (fnId gi b1) r.log = n ∧ callsOf (fnId gi (gate dopen)) r.log = n + 1 := by
  obtain ⟨s', lg, h, hx, hs', h2, h3⟩ := loop_L1_k1 F c x0 nested sem gi span dopen es sp hs n cfg.maxIter
    [runStartEv span parent (L1 dopen es sp) ""] hc hn hprog hfuel
  have h' : runGraphLoop nested sem .sync gi (L1 dopen es sp) [("x", x0)] cfg span parent = _ := h
  subst hs'
  have hv : (E F x0 n).values = [("x", Nat.repeat F n x0)] := by
    rw [← xs_eq_repeat]; cases n <;> simp [A, xs]
  have hf : filterOutputs (L1 dopen es sp) (E F x0 n) .unset cfg.onMissing = .ok ([("x", Nat.repeat F n x0)], 0) := by
    simp [filterOutputs, effectiveSelect, L1, graphOutputs, dedup, NodeD.outputs, b1, gate, mkNode, hv, AL.get?, hns]
  simp only [runGraph_eq, h', finishRun, hsel, hf]
  have e0 : ∀ fn (e : Ev) l, callsOf fn (Log.ev e :: l) = callsOf fn l := fun _ _ _ => by
    simp [callsOf, Log.isCallOf]
  have e1 : ∀ fn, callsOf fn (shutLog parent) = 0 := fun _ => by cases parent <;> rfl
  simp [callsOf_append, h2, h3, e0, e1, runStartEv, runEndEv]

/-- (3)+(4) through `run()`: with `max_iterations < 2n+1` the run FAILS with
`InfiniteLoopError(max_iterations)`; under `error_handling="continue"` its values are the loop variable
after `max_iterations / 2` iterations -/
theorem run_L1_k1_limit (hs : SemL1 F c sem dopen) (n : Nat) (cfg : RunCfg) (parent : Option Span)
    (hsel : cfg.select = .unset)
    (hc : ∀ j, j < n → c (Nat.repeat F j x0) = true) (hn : c (Nat.repeat F n x0) = false)
    (hprog : ∀ j, j < n → Val.changed (Nat.repeat F j x0) (F (Nat.repeat F j x0)) = true)
    (hfuel : cfg.maxIter < 2 * n + 1) (hns : Nat.repeat F (cfg.maxIter / 2) x0 ≠ .sentinel) :
    let r := runGraph nested sem .sync gi (L1 dopen es sp) [("x", x0)] cfg span parent
    r.status = .failed ∧ r.error = some (.infiniteLoop cfg.maxIter) ∧
    (cfg.errMode = .cont → r.raised = false ∧ r.values = [("x", Nat.repeat F (cfg.maxIter / 2) x0)]) ∧
    (cfg.errMode = .raise → r.raised = true ∧ r.values = []) := by
  obtain ⟨lg, h⟩ := loop_L1_k1_limit F c x0 nested sem gi span dopen es sp hs n cfg.maxIter
    [runStartEv span parent (L1 dopen es sp) ""] hc hn hprog hfuel
  have h' : runGraphLoop nested sem .sync gi (L1 dopen es sp) [("x", x0)] cfg span parent = _ := h
  have hv : (if cfg.maxIter % 2 = 0 then Gc F x0 (cfg.maxIter / 2) else B F x0 (cfg.maxIter / 2)).values =
      [("x", Nat.repeat F (cfg.maxIter / 2) x0)] := by
    rw [← xs_eq_repeat]; split <;> cases cfg.maxIter / 2 <;> simp [Gc, G, A, xs]
  have hf : partialValues (L1 dopen es sp)
      (if cfg.maxIter % 2 = 0 then Gc F x0 (cfg.maxIter / 2) else B F x0 (cfg.maxIter / 2)) .unset =
      [("x", Nat.repeat F (cfg.maxIter / 2) x0)] := by
    simp [partialValues, filterOutputs, effectiveSelect, L1, graphOutputs, dedup, NodeD.outputs, b1, gate, mkNode,
      hv, AL.get?, hns]
  simp only [runGraph_eq, h', finishRun, hsel, hf]
  cases cfg.errMode <;> simp

end L1

/-! ## (5) variants -/
section variants
open HG.L1 (xs xs_eq_repeat b1)
variable (F : Val → Val) (c : Val → Bool) (x0 : Val)
variable (nested : Nested) (sem : Sem) (gi : Nat) (span : Span) (dopen : Bool) (es : List Edge) (sp : InputSpec)

/-- (5a) route-gate variant: `gate` is a `@route` node returning `"b1"` or `END` itself -/
theorem loop_L1_k1_route (hs : L1R.SemL1 F c sem dopen) (n maxIter : Nat) (log : List Log)
    (hc : ∀ j, j < n → c (Nat.repeat F j x0) = true) (hn : c (Nat.repeat F n x0) = false)
    (hprog : ∀ j, j < n → Val.changed (Nat.repeat F j x0) (F (Nat.repeat F j x0)) = true) :
    (2 * n + 1 ≤ maxIter → ∃ s' lg,
      runLoop (fun k s rs => stepSync nested sem gi (L1R.L1 dopen es sp) span k s rs s []) (L1R.L1 dopen es sp) .none
          maxIter maxIter 0 (initState [("x", x0)]) log = .done s' (log ++ lg) (2 * n + 1) ∧
      AL.get? s'.values "x" = some (Nat.repeat F n x0) ∧
      callsOf (fnId gi b1) lg = n ∧ callsOf (fnId gi (L1R.gate dopen)) lg = n + 1) ∧
    (maxIter < 2 * n + 1 → ∃ s' lg,
      runLoop (fun k s rs => stepSync nested sem gi (L1R.L1 dopen es sp) span k s rs s []) (L1R.L1 dopen es sp) .none
          maxIter maxIter 0 (initState [("x", x0)]) log = .fail (.infiniteLoop maxIter) s' (log ++ lg) maxIter ∧
      AL.get? s'.values "x" = some (Nat.repeat F (maxIter / 2) x0)) := by
  simp only [← xs_eq_repeat] at hc hn hprog ⊢
  have h := L1R.loop_from F c x0 nested sem gi span dopen es sp hs maxIter n hc hn
    (fun j hj => by simpa [xs] using hprog j hj) n 0 maxIter 0 log (by omega)
  rw [L1.init_eq]
  refine ⟨fun hf => ?_, fun hf => ?_⟩
  · obtain ⟨lg, h1, h2, h3⟩ := h.1 hf
    refine ⟨_, lg, by simpa [L1R.stepFn] using h1, ?_, h2, h3⟩
    cases n <;> simp [L1.A, AL.get?, xs]
  · obtain ⟨lg, h1⟩ := h.2 hf
    refine ⟨_, lg, by simpa [L1R.stepFn] using h1, ?_⟩
    split <;> cases maxIter / 2 <;> simp [L1.Gc, L1.G, L1.A, AL.get?, xs]

/-- (5b) exit-node variant: the gate's false branch leads to a node `done(x) -> out` instead of END:
`2n+2` supersteps, `done` runs exactly once, on the final loop variable -/
theorem loop_L1_k1_exit (Dv : Val → Val) (hs : L1X.SemL1 F c Dv sem dopen) (n maxIter : Nat) (log : List Log)
    (hc : ∀ j, j < n → c (Nat.repeat F j x0) = true) (hn : c (Nat.repeat F n x0) = false)
    (hprog : ∀ j, j < n → Val.changed (Nat.repeat F j x0) (F (Nat.repeat F j x0)) = true) :
    (2 * n + 2 ≤ maxIter → ∃ s' lg,
      runLoop (fun k s rs => stepSync nested sem gi (L1X.L1 dopen es sp) span k s rs s []) (L1X.L1 dopen es sp) .none
          maxIter maxIter 0 (initState [("x", x0)]) log = .done s' (log ++ lg) (2 * n + 2) ∧
      AL.get? s'.values "x" = some (Nat.repeat F n x0) ∧
      AL.get? s'.values "out" = some (Dv (Nat.repeat F n x0)) ∧
      callsOf (fnId gi b1) lg = n ∧ callsOf (fnId gi (L1X.gate dopen)) lg = n + 1 ∧
      callsOf (fnId gi L1X.done) lg = 1) ∧
    (maxIter < 2 * n + 2 → ∃ s' lg,
      runLoop (fun k s rs => stepSync nested sem gi (L1X.L1 dopen es sp) span k s rs s []) (L1X.L1 dopen es sp) .none
          maxIter maxIter 0 (initState [("x", x0)]) log = .fail (.infiniteLoop maxIter) s' (log ++ lg) maxIter ∧
      s'.values = [("x", Nat.repeat F (maxIter / 2) x0)]) := by
  simp only [← xs_eq_repeat] at hc hn hprog ⊢
  have h := L1X.loop_from F c Dv x0 nested sem gi span dopen es sp hs maxIter n hc hn
    (fun j hj => by simpa [xs] using hprog j hj) n 0 maxIter 0 log (by omega)
  rw [L1X.init_eq]
  refine ⟨fun hf => ?_, fun hf => ?_⟩
  · obtain ⟨lg, h1, h2, h3, h4⟩ := h.1 hf
    refine ⟨_, lg, by simpa [L1X.stepFn] using h1, ?_, ?_, h2, h3, h4⟩
    · cases n <;> simp [L1X.D, AL.get?, xs]
    · cases n <;> simp [L1X.D, AL.get?, xs]
  · obtain ⟨s', lg, h1, h2⟩ := h.2 hf
    exact ⟨s', lg, by simpa [L1X.stepFn] using h1, by simpa using h2⟩

/-- (5c) signal-synchronised family L2 with `default_open=True`: the gate waits for `turn_done`, which
only `b1` emits, so the body runs first (do-while): `n ≥ 1` is the first index `≥ 1` at which the
condition fails; exactly `2n` supersteps, `b1` and `gate` each run `n` times. Each turn relies on
`update_value` treating the re-emitted sentinel as a fresh value. -/
theorem loop_L2_k1 (hs : L2.SemL2 F c sem true) (n' maxIter : Nat) (log : List Log)
    (hc : ∀ j, j < n' → c (Nat.repeat F (j + 1) x0) = true) (hn : c (Nat.repeat F (n' + 1) x0) = false)
    (hprog : ∀ j, j < n' + 1 → Val.changed (Nat.repeat F j x0) (F (Nat.repeat F j x0)) = true) :
    (2 * (n' + 1) ≤ maxIter → ∃ s' lg,
      runLoop (fun k s rs => stepSync nested sem gi (L2.L2 true es sp) span k s rs s []) (L2.L2 true es sp) .none
          maxIter maxIter 0 (initState [("x", x0)]) log = .done s' (log ++ lg) (2 * (n' + 1)) ∧
      AL.get? s'.values "x" = some (Nat.repeat F (n' + 1) x0) ∧
      callsOf (fnId gi L2.b1) lg = n' + 1 ∧ callsOf (fnId gi (L2.gate true)) lg = n' + 1) ∧
    (maxIter < 2 * (n' + 1) → ∃ s' lg,
      runLoop (fun k s rs => stepSync nested sem gi (L2.L2 true es sp) span k s rs s []) (L2.L2 true es sp) .none
          maxIter maxIter 0 (initState [("x", x0)]) log = .fail (.infiniteLoop maxIter) s' (log ++ lg) maxIter ∧
      AL.get? s'.values "x" = some (Nat.repeat F ((maxIter + 1) / 2) x0)) := by
  simp only [← xs_eq_repeat] at hc hn hprog ⊢
  have hp0 : Val.changed (xs F x0 0) (xs F x0 1) = true := by simpa [xs] using hprog 0 (by omega)
  rw [L2.init_eq]
  cases maxIter with
  | zero =>
    refine ⟨fun hf => by omega, fun _ => ⟨L2.S0 x0, [], ?_, by simp [L2.S0, AL.get?, xs]⟩⟩
    simpa [L2.stepFn] using L2.loop_S0_zero x0 nested sem gi span es sp 0 0 log
  | succ f =>
    have h0 := L2.loop_S0_succ F c x0 nested sem gi span es sp hs (f + 1) f 0 log hp0
    have h := L2.loop_from F c x0 nested sem gi span es sp hs (f + 1) n' hc hn
      (fun j hj => by simpa [xs] using hprog (j + 1) (by omega)) n' 0 f (0 + 1) (log ++ L2.bLog gi span 0 x0) (by omega)
    have e : (fun k s rs => stepSync nested sem gi (L2.L2 true es sp) span k s rs s []) =
        L2.stepFn nested sem gi span es sp := rfl
    rw [e, h0]
    refine ⟨fun hf => ?_, fun hf => ?_⟩
    · obtain ⟨lg, h1, h2, h3⟩ := h.1 (by omega)
      refine ⟨L2.Q F x0 .end_ n', L2.bLog gi span 0 x0 ++ lg, ?_, ?_, ?_, ?_⟩
      · rw [h1]; simp only [List.append_assoc]; congr 1; omega
      · simp [L2.Q, AL.get?]
      · rw [callsOf_append, h2, (L2.calls_bLog gi span 0 x0).1]; omega
      · rw [callsOf_append, h3, (L2.calls_bLog gi span 0 x0).2]; omega
    · obtain ⟨s', lg, h1, h2⟩ := h.2 (by omega)
      refine ⟨s', L2.bLog gi span 0 x0 ++ lg, ?_, ?_⟩
      · rw [h1]; simp only [List.append_assoc]; congr 1; omega
      · rw [h2]
        have : 0 + 1 + f / 2 = (f + 1 + 1) / 2 := by omega
        rw [this]

/-- (5c') L2 with `default_open=False`: nothing is ever ready (the gate waits for a signal only the
gated body emits) — the run completes at once, with no superstep and no call -/
theorem loop_L2_closed_never_starts (maxIter : Nat) (log : List Log) :
    runLoop (fun k s rs => stepSync nested sem gi (L2.L2 false es sp) span k s rs s []) (L2.L2 false es sp) .none
        maxIter maxIter 0 (initState [("x", x0)]) log = .done (initState [("x", x0)]) log 0 := by
  rw [L2.init_eq]
  cases maxIter with
  | zero => rw [runLoop_zero, L2.ready_S0_closed]; simp
  | succ f => rw [runLoop_succ_nil _ _ _ _ _ _ _ _ (by rw [L2.ready_S0_closed]), L2.ready_S0_closed]

end variants

/-- (5d) `Progress` cannot be dropped: `b1(x) -> flag` (constant), `b2(flag, x) -> x` (`x+1`),
`gate(x)`: `x < 5 ? b1 : END`. The run from `x = 0` COMPLETES after 5 supersteps with `x = 1`: in the
second iteration `b1` re-produces the same `flag`, no version advances, `b2` is not stale, and the
scheduler goes quiescent although the gate's last decision was "continue" and `x < 5` still holds. -/
theorem stall_witness :
    Ex.stallLoop.steps = 5 ∧
    (Ex.LoopOut.state? Ex.stallLoop).map (·.values) = some [("x", .int 1), ("flag", .bool true)] ∧
    (Ex.LoopOut.state? Ex.stallLoop).map (fun s => AL.get? s.decisions "gate") = some (some (.one "b1")) ∧
    (run bodySem .sync [Ex.gStall] 0 [("x", .int 0)] {}).status = .completed ∧
    (run bodySem .sync [Ex.gStall] 0 [("x", .int 0)] {}).values = [("flag", .bool true), ("x", .int 1)] := by
  decide

/-! ## non-vacuity -/
section examples
open HG.L1

/-- hypotheses of `loop_L1_k1` are satisfiable: count `0,1,2,3` with limit 7 = 2*3+1 -/
example (nested : Nested) (sp : InputSpec) (dopen : Bool) :
    ∃ s' lg, runLoop (fun k s rs => stepSync nested (semEx 3) 0 (L1 dopen [] sp) ["r"] k s rs s [])
        (L1 dopen [] sp) .none 7 7 0 (initState [("x", .int 0)]) [] = .done s' lg 7 ∧
      AL.get? s'.values "x" = some (.int 3) ∧ callsOf "0:b1" lg = 3 ∧ callsOf "0:gate" lg = 4 := by
  obtain ⟨s', lg, h, hx, -, h2, h3⟩ := loop_L1_k1 Fi (ci 3) (.int 0) nested (semEx 3) 0 ["r"] dopen [] sp
    (semEx_ok 3 dopen) 3 7 [] (by decide) (by decide) (by decide) (by decide)
  have e1 : fnId 0 b1 = "0:b1" := by decide
  have e2 : fnId 0 (gate dopen) = "0:gate" := by cases dopen <;> decide
  exact ⟨s', [] ++ lg, h, hx, by simpa [e1] using h2, by simpa [e2] using h3⟩

/-- … and with limit 6 the very same run reports `InfiniteLoopError(6)` after 6 supersteps with `x = 3`
(the third iteration's body has run; the gate has not yet looked at it) -/
example (nested : Nested) (sp : InputSpec) (dopen : Bool) :
    ∃ s' lg, runLoop (fun k s rs => stepSync nested (semEx 3) 0 (L1 dopen [] sp) ["r"] k s rs s [])
        (L1 dopen [] sp) .none 6 6 0 (initState [("x", .int 0)]) [] = .fail (.infiniteLoop 6) s' lg 6 ∧
      AL.get? s'.values "x" = some (.int 3) := by
  obtain ⟨lg, h⟩ := loop_L1_k1_limit Fi (ci 3) (.int 0) nested (semEx 3) 0 ["r"] dopen [] sp
    (semEx_ok 3 dopen) 3 6 [] (by decide) (by decide) (by decide) (by decide)
  exact ⟨_, _, h, loop_L1_k1_limit_value Fi (.int 0) 6⟩

/-- `limit_reports_infinite_loop` is not vacuous: that graph with `max_iterations = 0` -/
example (nested : Nested) (sp : InputSpec) :
    (runGraph nested (semEx 3) .sync 0 (L1 true [] sp) [("x", .int 0)] { errMode := .cont, maxIter := 0 } ["r"] .none).error
      = some (.infiniteLoop 0) := by
  have h := limit_reports_infinite_loop nested (semEx 3) .sync 0 (L1 true [] sp) [("x", .int 0)]
    { errMode := .cont, maxIter := 0 } ["r"] .none (G Fi (.int 0) 0)
    (by simp only [stateAfter]; rw [init_eq]) (by rw [show activeNodeSet (L1 true [] sp) = .none from rfl, ready_G]; simp)
  exact h.2.1

/-- route variant, satisfiable hypotheses -/
example (nested : Nested) (sp : InputSpec) (dopen : Bool) :
    ∃ s' lg, runLoop (fun k s rs => stepSync nested (L1R.semEx 3) 0 (L1R.L1 dopen [] sp) ["r"] k s rs s [])
        (L1R.L1 dopen [] sp) .none 7 7 0 (initState [("x", .int 0)]) [] = .done s' lg 7 ∧
      AL.get? s'.values "x" = some (.int 3) := by
  obtain ⟨s', lg, h, hx, -⟩ := (loop_L1_k1_route Fi (ci 3) (.int 0) nested (L1R.semEx 3) 0 ["r"] dopen [] sp
    (L1R.semEx_ok 3 dopen) 3 7 [] (by decide) (by decide) (by decide)).1 (by decide)
  exact ⟨s', [] ++ lg, h, hx⟩

/-- exit-node variant, satisfiable hypotheses: 8 = 2*3+2 supersteps, `done` sees `x = 3` -/
example (nested : Nested) (sp : InputSpec) (dopen : Bool) :
    ∃ s' lg, runLoop (fun k s rs => stepSync nested (L1X.semEx 3) 0 (L1X.L1 dopen [] sp) ["r"] k s rs s [])
        (L1X.L1 dopen [] sp) .none 8 8 0 (initState [("x", .int 0)]) [] = .done s' lg 8 ∧
      AL.get? s'.values "out" = some (Val.mkTup [.str "done", .int 3]) := by
  obtain ⟨s', lg, h, -, hx, -⟩ := (loop_L1_k1_exit Fi (ci 3) (.int 0) nested (L1X.semEx 3) 0 ["r"] dopen [] sp
    (fun v => Val.mkTup [.str "done", v]) (L1X.semEx_ok 3 dopen) 3 8 [] (by decide) (by decide) (by decide)).1 (by decide)
  exact ⟨s', [] ++ lg, h, hx⟩

/-- L2, satisfiable hypotheses: `n = 3`, 6 supersteps -/
example (nested : Nested) (sp : InputSpec) :
    ∃ s' lg, runLoop (fun k s rs => stepSync nested (L2.semEx 3) 0 (L2.L2 true [] sp) ["r"] k s rs s [])
        (L2.L2 true [] sp) .none 6 6 0 (initState [("x", .int 0)]) [] = .done s' lg 6 ∧
      AL.get? s'.values "x" = some (.int 3) := by
  obtain ⟨s', lg, h, hx, -⟩ := (loop_L2_k1 Fi (ci 3) (.int 0) nested (L2.semEx 3) 0 ["r"] [] sp
    (L2.semEx_ok 3 true) 2 6 [] (by decide) (by decide) (by decide)).1 (by decide)
  exact ⟨s', [] ++ lg, h, hx⟩

end examples

end HG.C04
